(* C07, converse side of the line-end structure, every input: when ParseHdrLine accepts a header (generic value), the bytes just before
   the returned offset are a line end - CR LF, a lone CR not followed by LF, or a lone LF - and the byte at the returned offset exists and
   is not a blank (otherwise the line would have been continued: a fold). *)
From Sipsp Require Import RunLemmas Safe Resume Ext ExtLeaf ZSlice Harness ExtFLine ExtAdv ExtHdrLine FLineSpec HdrSpec FLineConv TrimSpec.
From Coq Require Import ZifyN ZifyNat ZifyBool.
From RecordUpdate Require Import RecordUpdate.

(* the shape of what skipLWS calls the end of the header (more input allowed: ie = false) *)
Definition eoh_at (r : list byte) (m crl : nat) : Prop :=
  (crl = 2%nat /\ exists c d e, nth_error r m = Some c /\ is_cr c = true /\ nth_error r (S m) = Some d /\ is_lf d = true /\
                              nth_error r (S (S m)) = Some e /\ is_sp e = false) \/
  (crl = 1%nat /\ exists c d, nth_error r m = Some c /\ is_crlf c = true /\ nth_error r (S m) = Some d /\ is_sp d = false /\
                            (is_cr c = true -> is_lf d = false)).
Lemma skipLWS_at_eoh_shape : forall r k n crl, skipLWS_at false r k = LEOH n crl -> (k <= n)%nat /\ eoh_at r (n - k) crl.
Proof.
  intros r. remember (length r) as m eqn:Hm. revert r Hm.
  induction m as [m IH] using lt_wf_ind. intros r Hm k n crl. destruct r as [|c r1]; cbn [skipLWS_at]; [discriminate|].
  cbn [length] in Hm.
  assert (Step : forall r' k', (length r' < m)%nat -> (k < k')%nat -> (exists a, c :: r1 = a ++ r' /\ length a = (k' - k)%nat) ->
            skipLWS_at false r' k' = LEOH n crl -> (k <= n)%nat /\ eoh_at (c :: r1) (n - k) crl).
  { intros r' k' Hl Hk (a & Ea & La) H. destruct (IH (length r') Hl r' eq_refl k' n crl H) as (Hn & Hs).
    split; [lia|]. rewrite Ea.
    assert (Sh : forall j x, nth_error r' j = Some x -> nth_error (a ++ r') (length a + j) = Some x).
    { intros j x Hx. rewrite nth_error_app2 by lia. replace (length a + j - length a)%nat with j by lia. exact Hx. }
    replace (n - k)%nat with (length a + (n - k'))%nat by lia.
    destruct Hs as [(-> & c0 & d0 & e0 & A1 & A2 & A3 & A4 & A5 & A6)|(-> & c0 & d0 & A1 & A2 & A3 & A4 & A5)].
    - left. split; [reflexivity|]. exists c0, d0, e0. split; [apply Sh; exact A1|]. split; [exact A2|].
      split; [replace (S (length a + (n - k'))) with (length a + S (n - k'))%nat by lia; apply Sh; exact A3|]. split; [exact A4|].
      split; [replace (S (S (length a + (n - k')))) with (length a + S (S (n - k')))%nat by lia; apply Sh; exact A5|exact A6].
    - right. split; [reflexivity|]. exists c0, d0. split; [apply Sh; exact A1|]. split; [exact A2|].
      split; [replace (S (length a + (n - k'))) with (length a + S (n - k'))%nat by lia; apply Sh; exact A3|]. split; [exact A4|exact A5]. }
  destruct (is_sp c) eqn:Esp.
  { apply (Step r1 (S k)); [lia|lia|]. exists [c]. split; [reflexivity|cbn [length]; lia]. }
  destruct (is_cr c) eqn:Ecr.
  { destruct r1 as [|d r2]; [discriminate|]. cbn [length] in *.
    destruct (is_lf d) eqn:Elf.
    { destruct r2 as [|e r3]; [discriminate|]. cbn [length] in *.
      destruct (is_sp e) eqn:Ee.
      - apply (Step (e :: r3) (k + 2)%nat); [cbn [length]; lia|lia|]. exists [c; d]. split; [reflexivity|cbn [length]; lia].
      - intros H. injection H as <- <-. split; [lia|]. rewrite Nat.sub_diag. left. split; [reflexivity|]. exists c, d, e. cbn [nth_error]. auto 10. }
    destruct (is_sp d) eqn:Ed.
    - apply (Step (d :: r2) (k + 1)%nat); [cbn [length]; lia|lia|]. exists [c]. split; [reflexivity|cbn [length]; lia].
    - intros H. injection H as <- <-. split; [lia|]. rewrite Nat.sub_diag. right. split; [reflexivity|]. exists c, d. cbn [nth_error].
      split; [reflexivity|]. split; [unfold is_crlf; rewrite Ecr; reflexivity|]. split; [reflexivity|]. split; [exact Ed|intros _; exact Elf]. }
  destruct (is_lf c) eqn:Elf; [|discriminate].
  destruct r1 as [|d r2]; [discriminate|]. cbn [length] in *. destruct (is_sp d) eqn:Ed.
  - apply (Step (d :: r2) (k + 1)%nat); [cbn [length]; lia|lia|]. exists [c]. split; [reflexivity|cbn [length]; lia].
  - intros H. injection H as <- <-. split; [lia|]. rewrite Nat.sub_diag. right. split; [reflexivity|]. exists c, d. cbn [nth_error].
    split; [reflexivity|]. split; [unfold is_crlf; rewrite Ecr, Elf; reflexivity|]. split; [reflexivity|]. split; [exact Ed|intros E; congruence].
Qed.
Lemma skipLWS_eoh_shape r n crl : skipLWS false r = LEOH n crl -> eoh_at r n crl.
Proof. intros H. destruct (skipLWS_at_eoh_shape r 0 n crl H) as [_ Hs]. rewrite Nat.sub_0_r in Hs. exact Hs. Qed.

Lemma eoh_at_shift (a r : list byte) m crl : eoh_at r m crl -> eoh_at (a ++ r) (length a + m) crl.
Proof.
  assert (Sh : forall j x, nth_error r j = Some x -> nth_error (a ++ r) (length a + j) = Some x).
  { intros j x Hx. rewrite nth_error_app2 by lia. replace (length a + j - length a)%nat with j by lia. exact Hx. }
  intros [(-> & c0 & d0 & e0 & A1 & A2 & A3 & A4 & A5 & A6)|(-> & c0 & d0 & A1 & A2 & A3 & A4 & A5)].
  - left. split; [reflexivity|]. exists c0, d0, e0. split; [apply Sh; exact A1|]. split; [exact A2|].
    split; [replace (S (length a + m)) with (length a + S m)%nat by lia; apply Sh; exact A3|]. split; [exact A4|].
    split; [replace (S (S (length a + m))) with (length a + S (S m))%nat by lia; apply Sh; exact A5|exact A6].
  - right. split; [reflexivity|]. exists c0, d0. split; [apply Sh; exact A1|]. split; [exact A2|].
    split; [replace (S (length a + m)) with (length a + S m)%nat by lia; apply Sh; exact A3|]. split; [exact A4|exact A5].
Qed.

(* where an accepted header line ends *)
Definition ends_at_eol (B : list byte) (o : N) : Prop := exists crl, nnat crl <= o /\ eoh_at B (N.to_nat (o - nnat crl)) crl.
Definition EQe (pre rest : list byte) (i o : N) (e : err) (st : hline) : Prop := e = EOk -> ends_at_eol (rev pre ++ rest) o.
Lemma eol_here pre (rest : list byte) i m crl : i = nnat (length pre) -> eoh_at rest m crl -> ends_at_eol (rev pre ++ rest) (i + nnat m + nnat crl).
Proof.
  intros Hi H. exists crl. split; [lia|]. apply (eoh_at_shift (rev pre)) in H. rewrite rev_length in H.
  replace (N.to_nat (i + nnat m + nnat crl - nnat crl)) with (length pre + m)%nat by (unfold nnat in *; lia). exact H.
Qed.
Lemma E_step pre rest i st : i = nnat (length pre) -> T pre i st ->
  match hl_iter pre rest i st with Ret o e st' => EQe pre rest i o e st' | _ => True end.
Proof.
  intros Hi [Hp Hs]. destruct rest as [|c r].
  { unfold hl_iter. intros E; discriminate E. }
  destruct (h_state (hx_h st)) eqn:Est;
    try (rewrite (hit_nopv pre c r i st) by (try rewrite Est; try reflexivity; try assumption); exact I).
  - rewrite (hit_init pre c r i st Est).
    destruct (is_cr c); [destruct r; intros E; discriminate E|]. destruct (is_lf c); [intros E; discriminate E|].
    destruct (pf_set i i) as [n|]; [|exact I]. cbv beta iota.
    match goal with |- match hl_name_ph _ _ _ ?S with _ => _ end => pose proof (name_ph_pre pre (c :: r) i S) as X end.
    specialize (X ltac:(destruct st as [h pv]; exact Hp) ltac:(destruct st as [h pv]; destruct h; cbn in *; exact Hs)).
    destruct (hl_name_ph _ _ _ _) as [|o e st'|]; auto. cbn in X. intros E. congruence.
  - rewrite (hit_name pre _ i st Est). pose proof (name_ph_pre pre (c :: r) i st Hp Hs) as X.
    destruct (hl_name_ph _ _ _ _) as [|o e st'|]; auto. cbn in X. intros E. congruence.
  - rewrite (hit_nameend pre _ i st Est). unfold hl_nameend. cbv zeta. destruct (skipn _ (c :: r)) as [|d r']; [intros E; discriminate E|].
    destruct (d =? 58); [|intros E; discriminate E]. pose proof (colon_pre pre (c :: r) i (skipWS (c :: r)) st Hp Hs) as X.
    destruct (hl_colon _ _ _ _ _) as [|o e st'|]; auto. cbn in X. intros E. congruence.
  - rewrite (hit_bstart pre _ i st Est). unfold hl_bstart.
    destruct (skipLWS false (c :: r)) as [k|k crl|k] eqn:El; [destruct (pf_set _ _); exact I| |intros E; discriminate E].
    intros _. apply eol_here; [exact Hi|apply skipLWS_eoh_shape; exact El].
  - rewrite (hit_val pre _ i st Est). unfold hl_val. cbv zeta.
    destruct (skipToken_split (c :: r)) as (E1 & _ & _). set (k := skipToken (c :: r)) in *.
    destruct (skipn k (c :: r)) as [|d r'] eqn:Sk; [intros E; discriminate E|].
    destruct (pf_extend _ _); [|exact I]. unfold hl_valend.
    destruct (skipLWS false (d :: r')) as [k2|k2 crl|k2] eqn:El; [exact I| |intros E; discriminate E].
    intros _. apply skipLWS_eoh_shape in El. apply (eoh_at_shift (firstn k (c :: r))) in El.
    assert (Lk : length (firstn k (c :: r)) = k) by (apply firstn_length_span). rewrite Lk in El.
    rewrite <- E1 in El.
    pose proof (eol_here pre (c :: r) i (k + k2) crl Hi El) as X.
    replace (i + nnat k + nnat k2 + nnat crl) with (i + nnat (k + k2) + nnat crl) by (unfold nnat; lia). exact X.
  - rewrite (hit_valend pre _ i st Est). unfold hl_valend.
    destruct (skipLWS false (c :: r)) as [k2|k2 crl|k2] eqn:El; [exact I| |intros E; discriminate E].
    intros _. apply skipLWS_eoh_shape in El. pose proof (eol_here pre (c :: r) i k2 crl Hi El) as X.
    replace (i + nnat 0 + nnat k2 + nnat crl) with (i + nnat k2 + nnat crl) by (unfold nnat; lia). exact X.
  - rewrite (hit_fin pre c r i st Est). intros E; discriminate E.
Qed.
Theorem hdrline_ends_at_eol buf offs o st' : offs <= nnat (length buf) ->
  parse_hdrline buf offs (mkhline hdr0 None) = Done o EOk st' -> ends_at_eol buf o.
Proof.
  intros Ho H. unfold parse_hdrline, parse in H. unfold zinit in H.
  assert (Hi : offs = nnat (length (rev (firstn (N.to_nat offs) buf)))) by (rewrite rev_length, firstn_length; unfold nnat in *; lia).
  pose proof (run_invQ hl_iter T EQe) as R.
  specialize (R ltac:(intros p r j s Hj HP; pose proof (T_step p r j s Hj HP) as X; pose proof (E_step p r j s Hj HP) as Y;
                      destruct (hl_iter p r j s); auto)
                (skipn (N.to_nat offs) buf) (rev (firstn (N.to_nat offs) buf)) offs (mkhline hdr0 None) Hi ltac:(split; reflexivity)).
  rewrite H in R. destruct R as (p' & r' & i' & _ & Eb & HQ). rewrite rev_involutive, firstn_skipn in Eb.
  specialize (HQ eq_refl). rewrite Eb in HQ. exact HQ.
Qed.
