(* C04: GetMsgSig is total on parsed messages: with the buffer the message was parsed from it never panics
   (no slice out of range) - Call-ID, From tag and the value of every Via header it looks at lie inside. *)
From Sipsp Require Import RunLemmas Safe Resume Ext ExtLeaf ZSlice Harness ExtHeaders ExtLists SafeLeaf SafeMore SafeMsg
  Capacity CapHeaders Layout BlockSpec Tables SigWalk SigInv SigCoherent LowerBound UpperBound.
From Coq Require Import ZifyN ZifyNat ZifyBool.
From RecordUpdate Require Import RecordUpdate.

Lemma bget_some buf f : pf_end f <= nnat (length buf) -> exists l, bget buf f = Some l.
Proof. intros H. unfold bget. apply zget_some. cbn. lia. Qed.

(* the slots at and after the count hold headers without a fingerprint id (the blank line, unused slots) *)
Lemma hs_iter_tail pre rest i st : CI (hs_l st) ->
  match hs_iter pre rest i st with
  | Ret o EOk st' => forall j, (N.to_nat (hl_n (hs_l st')) <= j)%nat -> neutral (h_type (nth j (hl_hdrs (hs_l st')) hdr0))
  | _ => True
  end.
Proof.
  intros (Hwf & Hslot & Hst). destruct rest as [|c r]; [exact I|].
  rewrite hs_iter_def. unfold hs_sel. rewrite Hslot.
  destruct (run hl_iter pre (c :: r) i 0 (mkhline hdr0 (hs_pv st))) as [n e x| |] eqn:Er; try exact I.
  unfold hs_post. cbv zeta. destruct e; try exact I.
  pose proof (hl_run_empty_type _ _ _ _ _ _ Er) as Hty. cbn [hx_h] in Hty.
  destruct (0 <? _); [|exact I]. cbn [hs_l].
  destruct (hl_store_proj (hs_l st) (hx_h x)) as (S1 & S2 & S3 & S4 & S5). rewrite S2, S4. destruct Hwf as [W1 W2].
  intros j Hj. destruct (le_lt_dec (length (hl_hdrs (hs_l st))) j) as [Hov|Hin].
  - rewrite nth_overflow; [apply neutral_none|]. destruct (hl_is_tmp (hs_l st)); [exact Hov|rewrite set_nth_len; exact Hov].
  - destruct (Nat.eq_dec j (N.to_nat (hl_n (hs_l st)))) as [->|Hne].
    + unfold hl_is_tmp, hl_cap in *. destruct (nnat (length (hl_hdrs (hs_l st))) <=? hl_n (hs_l st)) eqn:E; [unfold nnat in *; lia|].
      rewrite nth_set_nth by exact Hin. rewrite Hty. apply neutral_none.
    + replace (nth j (if hl_is_tmp (hs_l st) then _ else _) hdr0) with (nth j (hl_hdrs (hs_l st)) hdr0)
        by (destruct (hl_is_tmp (hs_l st)); [reflexivity|symmetry; apply nth_set_nth_ne; lia]).
      rewrite (W1 j ltac:(lia)). apply neutral_none.
Qed.
Lemma headers_tail buf offs n pv o st' :
  parse_headers buf offs (mkhdrs_st (hdrlst_init (repeat hdr0 n)) pv) = Done o EOk st' ->
  forall j, (N.to_nat (hl_n (hs_l st')) <= j)%nat -> neutral (h_type (nth j (hl_hdrs (hs_l st')) hdr0)).
Proof.
  intros H. unfold parse_headers, parse in H. destruct (zinit buf offs) as [pre rest].
  pose proof (run_inv hs_iter (fun _ _ s => CI (hs_l s))
                (fun _ e s' => e = EOk -> forall j, (N.to_nat (hl_n (hs_l s')) <= j)%nat -> neutral (h_type (nth j (hl_hdrs (hs_l s')) hdr0)))) as R.
  specialize (R ltac:(intros p r j s P; pose proof (hs_iter_coherent p r j s P) as X; pose proof (hs_iter_tail p r j s P) as Y;
                      destruct (hs_iter p r j s) as [k s'|o0 e s'|]; auto; intros He; subst e; exact Y)
                rest pre offs (mkhdrs_st (hdrlst_init (repeat hdr0 n)) pv)).
  rewrite H in R. apply R; [|reflexivity].
  unfold CI, hdrlst_init. cbn. split; [split; [intros j _; apply nth_repeat|reflexivity]|]. split.
  - unfold hl_slot, hl_is_tmp, hl_cap. cbn. destruct (_ <=? 0); [reflexivity|apply nth_repeat].
  - intros j Hj. lia.
Qed.

Lemma message_tail flags buf offs bl n cv o m' :
  parse_sipmsg flags buf offs (msg_init bl (repeat hdr0 n) cv) = Done o EOk m' ->
  forall j, (N.to_nat (hl_n (hs_l (m_hs m'))) <= j)%nat -> neutral (h_type (nth j (hl_hdrs (hs_l (m_hs m'))) hdr0)).
Proof.
  unfold parse_sipmsg, msg_init. cbn -[msg_fline]. unfold msg_fline. cbn -[parse_fline msg_headers msg_fail].
  destruct (parse_fline buf offs fline0) as [o1 e1 fl| |]; try discriminate.
  assert (Hf : forall oo ee m, ee <> EOk -> msg_fail flags oo ee m = Done o EOk m' -> False).
  { intros oo ee m He H. pose proof (fail_not_ok flags oo ee m He) as X. rewrite H in X. congruence. }
  destruct e1; try (intros H; exfalso; eapply Hf; [|exact H]; discriminate).
  unfold msg_headers. cbn -[parse_headers msg_body msg_fail].
  pose proof (headers_tail buf o1 n (Some (phvals_init cv))) as Hc.
  destruct (parse_headers buf o1 _) as [o2 e2 hs| |]; try discriminate.
  destruct e2; try (intros H; exfalso; eapply Hf; [|exact H]; discriminate).
  intros H. match type of H with msg_body ?f ?L ?oo ?mm = _ => pose proof (body_hs f L oo mm) as B end. rewrite H in B.
  rewrite B. match goal with |- context [m_hs ?M] => replace (m_hs M) with hs by reflexivity end. exact (Hc o2 hs eq_refl).
Qed.

Section Total.
  Variable callid_sig : list byte -> N * N.
  Variable str_sig : list byte -> N.
  Variable viabr_sig : list byte -> N.

  (* the walk never fails when the value of every Via header it may look at can be read *)
  Lemma walk_total buf pf : forall hs seen sig,
    Forall (fun h => h_type h = HdrVia -> pf_end (h_val h) <= nnat (length buf)) hs ->
    sig_walk viabr_sig buf pf hs seen sig <> None.
  Proof.
    induction hs as [|h hs IH]; intros seen sig Hall; cbn [sig_walk]; [discriminate|].
    apply Forall_cons_iff in Hall. destruct Hall as [Hh Hall].
    destruct (hf_test seen (h_type h)); [apply IH; exact Hall|].
    destruct (h_type h =? HdrVia) eqn:Ev.
    - apply N.eqb_eq in Ev. destruct (bget_some buf (h_val h) (Hh Ev)) as (v & Eb). rewrite Eb.
      destruct (hdr_sig_id h) as [s e]. cbv zeta. repeat match goal with |- context [if ?b then _ else _] => destruct b end; try discriminate; apply IH; exact Hall.
    - destruct (hdr_sig_id h) as [s e]. cbv zeta. repeat match goal with |- context [if ?b then _ else _] => destruct b end; try discriminate; apply IH; exact Hall.
  Qed.

  Theorem gsig_total flags buf offs L nh nc o m' : offs <= nnat (length buf) ->
    parse_sipmsg flags buf offs (msg_init L (repeat hdr0 nh) (repeat pfrom0 nc)) = Done o EOk m' ->
    get_msg_sig callid_sig str_sig viabr_sig m' buf <> None.
  Proof.
    intros Hoffs H.
    pose proof (fresh_message_layout flags buf offs _ Hoffs (or_introl (ex_intro _ L (ex_intro _ nh (ex_intro _ nc eq_refl))))) as Lay.
    rewrite H in Lay. destruct Lay as (_ & Hob & _ & _ & _ & Hbe & a0 & _ & _ & Hch).
    pose proof (message_ub flags buf offs L nh nc o EOk m' Hoffs H (or_introl (msg_ok_fin _ _ _ _ _ _ H))) as Hub.
    assert (Hpo : po (m_body m') <= nnat (length buf)) by (unfold pf_end in Hbe; lia).
    destruct Hub as (U1 & _ & U3 & _).
    unfold get_msg_sig. destruct (negb (msg_request m')); [discriminate|].
    destruct (bget_some buf (ci_callid (pv_callid (msg_pv m'))) ltac:(unfold UBci in U3; lia)) as (cid & Ec). rewrite Ec.
    destruct U1 as (_ & _ & Ut & _).
    destruct (bget_some buf (fb_tag (pv_from (msg_pv m'))) ltac:(lia)) as (tag & Et). rewrite Et.
    destruct (callid_sig cid) as [cs cl].
    assert (Hw : sig_walk viabr_sig buf (hl_pflags (hs_l (m_hs m'))) (hl_hdrs (hs_l (m_hs m'))) 0 (mkmsgsig (fl_methodno (m_fl m')) cl cs (str_sig tag) 0 []) <> None).
    { apply walk_total. apply Forall_forall. intros h Hin Hv. apply (In_nth _ _ hdr0) in Hin. destruct Hin as (j & Hj & <-).
      destruct (lt_dec j (N.to_nat (hl_n (hs_l (m_hs m'))))) as [Hlt|Hge].
      - assert (Hs : In (nth j (hl_hdrs (hs_l (m_hs m'))) hdr0) (stored (hs_l (m_hs m')))).
        { unfold stored. rewrite <- (firstn_skipn (N.to_nat (hl_n (hs_l (m_hs m')))) (hl_hdrs (hs_l (m_hs m')))) at 1.
          rewrite app_nth1 by (rewrite firstn_length; lia). apply nth_In. rewrite firstn_length. lia. }
        destruct (chain_all _ _ _ _ Hch Hs) as (a & e & _ & He & (_ & Hve & _)). lia.
      - exfalso. pose proof (message_tail flags buf offs L nh (repeat pfrom0 nc) o m' H j ltac:(lia)) as Hn.
        apply neutral_not_via in Hn. rewrite Hv in Hn. discriminate Hn. }
    destruct (sig_walk _ _ _ _ _ _) as [[sg b]|]; [|congruence]. destruct b; [discriminate|]. destruct (_ <? _); discriminate.
  Qed.
End Total.

(* ---- every reported field of a parsed message lies inside the buffer ----------------------------------------------------------- *)
Theorem message_fields_in_buffer flags buf offs L nh nc o m' : offs <= nnat (length buf) ->
  parse_sipmsg flags buf offs (msg_init L (repeat hdr0 nh) (repeat pfrom0 nc)) = Done o EOk m' ->
  o <= nnat (length buf) /\ fl_inv o (m_fl m') /\ pf_end (m_body m') = o /\
  Forall (fun h => pf_end (h_name h) <= o /\ pf_end (h_val h) <= o) (stored (hs_l (m_hs m'))) /\
  UBv o (msg_pv m').
Proof.
  intros Hoffs H.
  pose proof (fresh_message_layout flags buf offs _ Hoffs (or_introl (ex_intro _ L (ex_intro _ nh (ex_intro _ nc eq_refl))))) as Lay.
  rewrite H in Lay. destruct Lay as (_ & Hob & _ & _ & _ & Hbe & a0 & _ & Hfl & Hch).
  pose proof (message_ub flags buf offs L nh nc o EOk m' Hoffs H (or_introl (msg_ok_fin _ _ _ _ _ _ H))) as Hub.
  assert (Hpo : po (m_body m') <= o) by (unfold pf_end in Hbe; lia).
  pose proof (chain_le _ _ _ Hch) as Ha0.
  split; [exact Hob|]. split; [apply (fl_inv_mono a0); [lia|exact Hfl]|]. split; [exact Hbe|]. split.
  - apply Forall_forall. intros h Hin. destruct (chain_all _ _ _ _ Hch Hin) as (a & e & _ & He & ((N1 & N2 & N3) & Hve & _)). split; lia.
  - apply (UBv_mono (po (m_body m'))); assumption.
Qed.
