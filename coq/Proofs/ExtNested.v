(* IterExt for an outer loop whose iteration runs an inner resumable parser on a slot
   of its state and then post-processes the result (list parsers, header line). *)
From Sipsp Require Import RunLemmas Safe Resume Ext ExtLeaf ZSlice Harness ExtNameAddr.
From Coq Require Import ZifyN ZifyNat ZifyBool.

(* offsets returned by a run lie between the start offset and the end of the buffer,
   provided every returning iteration says so *)
Lemma run_offsets_gen {St} (iter : list byte -> list byte -> N -> St -> ires St) (strict : err -> bool) :
  (forall pre rest i s, match iter pre rest i s with
                        | Ret o e _ => i <= o /\ o <= i + nnat (length rest) /\ (strict e = true -> i < o) | _ => True end) ->
  forall rest pre i s o e s', run iter pre rest i 0 s = Done o e s' ->
    i <= o /\ o <= i + nnat (length rest) /\ (strict e = true -> i < o).
Proof.
  intros H rest. induction rest as [rest IH] using (well_founded_induction (Wf_nat.well_founded_ltof _ (@length byte))).
  intros pre i s o e s' Hr. rewrite run_after in Hr. unfold after in Hr.
  pose proof (H pre rest i s) as Hi.
  destruct (iter pre rest i s) as [k t|o1 e1 t|]; [|injection Hr as <- <- <-; exact Hi|discriminate].
  destruct k as [|k]; [discriminate|].
  destruct (S k <=? length rest)%nat eqn:Ek; [|discriminate]. apply Nat.leb_le in Ek.
  apply IH in Hr; [|unfold ltof; rewrite zrest_length; lia].
  rewrite zrest_length in Hr. clear IH H. unfold nnat in *. destruct Hr as (H1 & H2 & H3).
  split; [lia|]. split; [lia|]. intros Hs. specialize (H3 Hs). lia.
Qed.

Lemma run_offsets {St} (iter : list byte -> list byte -> N -> St -> ires St) :
  (forall pre rest i s, match iter pre rest i s with
                        | Ret o _ _ => i <= o /\ o <= i + nnat (length rest) | _ => True end) ->
  forall rest pre i s o e s', run iter pre rest i 0 s = Done o e s' -> i <= o /\ o <= i + nnat (length rest).
Proof.
  intros H rest. induction rest as [rest IH] using (well_founded_induction (Wf_nat.well_founded_ltof _ (@length byte))).
  intros pre i s o e s' Hr. rewrite run_after in Hr. unfold after in Hr.
  pose proof (H pre rest i s) as Hi.
  destruct (iter pre rest i s) as [k t|o1 e1 t|]; [|injection Hr as <- <- <-; exact Hi|discriminate].
  destruct k as [|k]; [discriminate|].
  destruct (S k <=? length rest)%nat eqn:Ek; [|discriminate]. apply Nat.leb_le in Ek.
  apply IH in Hr; [|unfold ltof; rewrite zrest_length; lia].
  rewrite zrest_length in Hr. clear IH H. unfold nnat in *. lia.
Qed.

(* continuing k bytes further on: the same continuation, whichever zipper position counted from *)
Lemma after_next_shift {St} (iter : list byte -> list byte -> N -> St -> ires St) pre B i k next (X : St) :
  (k <= length B)%nat -> i + nnat k < next -> next <= i + nnat (length B) ->
  after iter (zpre k pre B) (zrest k B) (i + nnat k) (Next (N.to_nat (next - (i + nnat k))) X)
  = after iter pre B i (Next (N.to_nat (next - i)) X).
Proof.
  intros Hk Hlt Hle. unfold after, nnat in *.
  assert (Ea : N.to_nat (next - (i + N.of_nat k)) = S (N.to_nat (next - (i + N.of_nat k)) - 1)) by lia.
  assert (Eb : N.to_nat (next - i) = S (N.to_nat (next - i) - 1)) by lia.
  rewrite Ea, Eb, <- Ea, <- Eb.
  replace (N.to_nat (next - (i + N.of_nat k)) <=? length (zrest k B))%nat with true
    by (symmetry; apply Nat.leb_le; rewrite zrest_length; lia).
  replace (N.to_nat (next - i) <=? length B)%nat with true by (symmetry; apply Nat.leb_le; lia).
  rewrite zpre_zpre by exact Hk. rewrite zrest_zrest.
  replace (k + N.to_nat (next - (i + N.of_nat k)))%nat with (N.to_nat (next - i)) by lia.
  f_equal. lia.
Qed.

Section Nested.
  Context {S V : Type}.
  Variable inner : list byte -> list byte -> N -> V -> ires V.
  Variable outer : list byte -> list byte -> N -> S -> ires S.
  Variable sel : S -> V.                       (* the slot the inner parser works on (after the entry clean-up) *)
  Variable post : list byte -> list byte -> N -> S -> N -> err -> V -> ires S.
  Variable store : S -> V -> S.
  Variable suspended : V -> Prop.

  Hypothesis inner_ext : IterExt inner.
  Hypothesis outer_def : forall pre rest i l,
    outer pre rest i l = match run inner pre rest i 0 (sel l) with
                         | Done next e v => post pre rest i l next e v
                         | _ => IPanic end.
  Hypothesis post_more : forall pre rest i l next v, post pre rest i l next EMore v = Ret next EMore (store l v).
  Hypothesis inner_more_susp : forall pre rest i v next v', run inner pre rest i 0 v = Done next EMore v' -> suspended v'.
  Hypothesis sel_store : forall l v, suspended v -> sel (store l v) = v.
  Hypothesis store_store : forall l v v', suspended v -> store (store l v) v' = store l v'.
  (* a definitive inner result: what the outer loop makes of it does not depend on whether the
     value was picked up from a suspension k bytes further on *)
  Hypothesis post_resume : forall pre B i k l v next e v',
    (k <= length B)%nat -> i = nnat (length pre) -> suspended v -> e <> EMore ->
    run inner pre B i 0 (sel l) = Done next e v' ->
    run inner (zpre k pre B) (zrest k B) (i + nnat k) 0 v = Done next e v' ->
    after outer (zpre k pre B) (zrest k B) (i + nnat k)
          (post (zpre k pre B) (zrest k B) (i + nnat k) (store l v) next e v')
    = after outer pre B i (post pre B i l next e v').
  (* and it is stable when bytes are appended *)
  Hypothesis post_ext : forall pre R x i l next e v, i = nnat (length pre) -> e <> EMore ->
    run inner pre R i 0 (sel l) = Done next e v ->
    ires_same_or_panic (post pre R i l next e v) (post pre (R ++ x) i l next e v) /\
    match post pre R i l next e v with Ret _ EMore _ => False | _ => True end.
  Hypothesis inner_offsets : forall pre rest i v o e v', run inner pre rest i 0 v = Done o e v' ->
    i <= o /\ o <= i + nnat (length rest).

  Lemma nested_clause pre rest x i l : i = nnat (length pre) ->
    clause outer pre rest x i (outer pre rest i l) (outer pre (rest ++ x) i l).
  Proof.
    intros Hi. rewrite !outer_def.
    pose proof (run_ext inner (fun _ => []) inner_ext rest pre x i (sel l) Hi) as He.
    destruct (run inner pre rest i 0 (sel l)) as [next e v| |] eqn:Er; [|exact I|exact I].
    destruct e; try (rewrite He; apply clause_sop; apply (post_ext pre rest x i l next _ v Hi); [discriminate|exact Er|discriminate|exact Er]).
    (* the inner parser suspended at next = i + k with v *)
    destruct He as (k & Hk & Hn & Hrq). rewrite post_more. set (B := rest ++ x) in *.
    assert (HkB : (k <= length B)%nat) by (subst B; rewrite app_length; lia).
    pose proof (inner_more_susp _ _ _ _ _ _ Er) as Hs.
    unfold clause. exists k. split; [exact Hk|]. split; [exact Hn|].
    change (rest ++ x) with B.
    rewrite run_after, outer_def, (sel_store l v Hs), Hrq.
    destruct (run inner pre B i 0 (sel l)) as [next' e' v'| |] eqn:Er'; try reflexivity.
    destruct e'; try (subst next; apply (post_resume pre B i k l v next' _ v' HkB Hi Hs); [discriminate|exact Er'|exact Hrq]).
    (* suspended again *)
    rewrite !post_more, (store_store l v v' Hs). reflexivity.
  Qed.

  Theorem nested_IterExt : IterExt outer.
  Proof. apply clause_IterExt. intros pre rest x j t Hj. apply nested_clause. exact Hj. Qed.
End Nested.
