(* C07: the header line and the header block with every line terminator - CR LF, a lone CR, a lone LF - in any mix.
   (HdrSpec.v / BlockSpec.v state the CR LF case; here the terminator of each line and of the blank line is a parameter.) *)
From Sipsp Require Import RunLemmas Safe Resume Ext ExtLeaf ZSlice Harness ExtCSeq ExtFLine ExtAdv ExtHdrLine ExtHeaders FLineSpec UIntSpec HdrSpec ExtLists
  Capacity CapHeaders BlockSpec.
From Coq Require Import ZifyN ZifyNat ZifyBool.
From RecordUpdate Require Import RecordUpdate.

Inductive eolk := ECRLF | ECR | ELF.
Definition eol_bytes (e : eolk) : list byte := match e with ECRLF => [CR; LF] | ECR => [CR] | ELF => [LF] end.
(* d = the byte after the terminator: not a blank (that would be a fold), and no LF after a lone CR *)
Definition eol_ok (e : eolk) (d : byte) : Prop := is_sp d = false /\ (e = ECR -> is_lf d = false).

Lemma eol_lws e d x : eol_ok e d -> skipLWS false (eol_bytes e ++ d :: x) = LEOH 0 (length (eol_bytes e)).
Proof.
  intros [Hd Hl]. unfold skipLWS. destruct e; cbn [eol_bytes app skipLWS_at length].
  - change (is_sp CR) with false. change (is_cr CR) with true. change (is_lf LF) with true. cbv iota. now rewrite Hd.
  - change (is_sp CR) with false. change (is_cr CR) with true. cbv iota. rewrite (Hl eq_refl), Hd. reflexivity.
  - change (is_sp LF) with false. change (is_cr LF) with false. change (is_lf LF) with true. cbv iota. now rewrite Hd.
Qed.
Lemma eol_head e : exists e0 r, eol_bytes e = e0 :: r /\ is_ws e0 = true.
Proof. destruct e; eexists; eexists; split; reflexivity. Qed.
Lemma skipLWS_sp_eol_e sp e d x : spaces sp -> eol_ok e d -> skipLWS false (sp ++ eol_bytes e ++ d :: x) = LEOH (length sp) (length (eol_bytes e)).
Proof.
  intros Hsp He. unfold skipLWS.
  assert (G : forall k, skipLWS_at false (sp ++ eol_bytes e ++ d :: x) k = LEOH (k + length sp) (length (eol_bytes e))).
  { induction Hsp as [|b sp Hb _ IH]; intros k; cbn [app length].
    - pose proof (eol_lws e d x He) as H. unfold skipLWS in H. rewrite skipLWS_at_shift, H. cbn [lshift]. f_equal; lia.
    - cbn [skipLWS_at]. rewrite Hb, IH. f_equal. lia. }
  apply G.
Qed.

Section Val.
  Variables (e : eolk) (d : byte) (x : list byte).
  Hypothesis He : eol_ok e d.
  Variables (ty : N) (nm : pf) (pv : option phvals) (vs : N).
  Notation eol := (eol_bytes e).

  Lemma val_run_e : forall tl cur pre i vl, tok cur -> good_tail tl -> vs <= i ->
    run hit pre (cur ++ flat tl ++ eol ++ d :: x) i 0 (mkhline (mkhdr ty nm (mkpf vs vl) HVal) pv)
    = Done (i + nnat (length cur) + nnat (length (flat tl)) + nnat (length eol)) EOk
        (mkhline (mkhdr ty nm (mkpf vs (i + nnat (length cur) + nnat (length (flat tl)) - vs)) HFIN) pv).
  Proof.
    induction tl as [|[s t] tl IH]; intros cur pre i vl Hcur Htl Hvs.
    - cbn [flat app length]. rewrite run_after, (hit_val pre _ i (mkhline (mkhdr ty nm (mkpf vs vl) HVal) pv) eq_refl). unfold hl_val.
      destruct (eol_head e) as (e0 & er & Ee & He0).
      assert (E1 : cur ++ eol ++ d :: x = cur ++ e0 :: (er ++ d :: x)) by (rewrite Ee; reflexivity).
      rewrite E1, (skipToken_tok cur e0 _ Hcur He0), skipn_len_app, <- E1. cbn [hx_h h_val].
      unfold pf_extend. cbn [po]. replace (i + nnat (length cur) <? vs) with false by (unfold nnat; lia).
      unfold hl_valend.
      assert (E2 : e0 :: er ++ d :: x = eol ++ d :: x) by (rewrite Ee; reflexivity). rewrite E2, (eol_lws e d x He). cbn -[N.add N.sub nnat eol_bytes].
      replace (i + nnat (length cur) + nnat 0) with (i + nnat (length cur)) by (unfold nnat; lia). reflexivity.
    - inversion Htl as [|? ? Hst Htl']; subst. cbn in Hst. destruct Hst as (Hs & Ht & Hnt).
      destruct Hs as [(c0 & s' & -> & Hc0) Hskip].
      destruct (tok_head_notws t Ht Hnt) as (t0 & t' & -> & Ht0 & Ht').
      cbn [flat]. rewrite run_after, (hit_val pre _ i (mkhline (mkhdr ty nm (mkpf vs vl) HVal) pv) eq_refl). unfold hl_val.
      change (cur ++ ((c0 :: s') ++ (t0 :: t') ++ flat tl) ++ eol ++ d :: x)
        with (cur ++ c0 :: (s' ++ (t0 :: t') ++ flat tl) ++ eol ++ d :: x).
      rewrite (skipToken_tok cur c0 _ Hcur Hc0), skipn_len_app. cbn [hx_h h_val].
      unfold pf_extend. cbn [po]. replace (i + nnat (length cur) <? vs) with false by (unfold nnat; lia).
      unfold hl_valend.
      replace (c0 :: (s' ++ (t0 :: t') ++ flat tl) ++ eol ++ d :: x)
        with ((c0 :: s') ++ t0 :: (t' ++ flat tl ++ eol ++ d :: x))
        by (cbn [app]; rewrite <- ?app_assoc; cbn [app]; rewrite <- ?app_assoc; reflexivity).
      rewrite (Hskip t0 _ Ht0).
      set (B := cur ++ (c0 :: s') ++ t0 :: t' ++ flat tl ++ eol ++ d :: x).
      change (cur ++ (c0 :: s') ++ t0 :: t' ++ flat tl ++ eol ++ d :: x) with B. set (k := S (length cur + length (c0 :: s'))).
      assert (HB : B = (cur ++ (c0 :: s') ++ [t0]) ++ t' ++ flat tl ++ eol ++ d :: x)
        by (subst B; cbn [app]; rewrite <- ?app_assoc; cbn [app]; rewrite <- ?app_assoc; reflexivity).
      assert (Hk : k = length (cur ++ (c0 :: s') ++ [t0])) by (subst k; rewrite !app_length; cbn [length]; lia).
      rewrite after_next by (try lia; rewrite HB, app_length, <- Hk; lia).
      unfold zrest, zpre. rewrite HB, Hk, skipn_len_app.
      match goal with |- run hit ?P ?R ?I 0 ?S = _ => change S with (mkhline (mkhdr ty nm (mkpf vs (i + nnat (length cur) - vs)) HVal) pv) end.
      rewrite IH; [|exact Ht'|exact Htl'|unfold nnat in *; lia].
      rewrite <- Hk.
      assert (Hlen : nnat k + nnat (length t') + nnat (length (flat tl))
                     = nnat (length cur) + nnat (length ((c0 :: s') ++ (t0 :: t') ++ flat tl))).
      { subst k. repeat (rewrite ?app_length; cbn [length]). unfold nnat. lia. }
      replace (i + nnat k + nnat (length t') + nnat (length (flat tl)))
        with (i + nnat (length cur) + nnat (length ((c0 :: s') ++ (t0 :: t') ++ flat tl))) by lia.
      reflexivity.
  Qed.
End Val.

Theorem header_line_spec_e p name wsb lead t1 tl e d x :
  nametok name -> name <> [] -> spaces wsb -> spaces lead -> tok t1 -> t1 <> [] -> good_tail tl -> eol_ok e d ->
  let i := nnat (length p) in
  let vstart := i + nnat (length name) + nnat (length wsb) + 1 + nnat (length lead) in
  let value := t1 ++ flat tl in
  parse_hdrline (p ++ name ++ wsb ++ (58 : byte) :: lead ++ value ++ eol_bytes e ++ d :: x) i (mkhline hdr0 None)
  = Done (vstart + nnat (length value) + nnat (length (eol_bytes e))) EOk
      (mkhline (mkhdr (get_hdr_type name) (mkpf i (nnat (length name))) (mkpf vstart (nnat (length value))) HFIN) None).
Proof.
  intros Hn Hne Hw Hl Ht1 Hnt Htl He i vstart value. unfold parse_hdrline. subst i. rewrite parse_at.
  rewrite (name_run p name wsb _ Hn Hne Hw). cbv zeta.
  destruct (tok_head_notws t1 Ht1 Hnt) as (t0 & t1' & -> & Ht0 & Ht1').
  set (i1 := nnat (length p) + nnat (length name) + nnat (length wsb) + 1) in *.
  assert (EL : lead ++ value ++ eol_bytes e ++ d :: x = (lead ++ [t0]) ++ t1' ++ flat tl ++ eol_bytes e ++ d :: x)
    by (subst value; rewrite <- !app_assoc; reflexivity).
  rewrite EL.
  rewrite (run_step hit _ (lead ++ [t0]) _ i1 _
             (mkhline (mkhdr (get_hdr_type name) (mkpf (nnat (length p)) (nnat (length name))) (mkpf (i1 + nnat (length lead)) 0) HVal) None)).
  2:{ destruct lead; discriminate. }
  2:{ rewrite <- app_assoc. cbn [app]. rewrite hit_bstart by reflexivity. unfold hl_bstart.
      rewrite (skipLWS_sp_prefix lead t0 _ Hl Ht0). unfold pf_set. rewrite N.ltb_irrefl, N.sub_diag.
      match goal with |- Next ?a ?s = Next ?b ?t => replace b with a by (cbn [length app]; rewrite ?app_length; cbn [length]; lia) end. reflexivity. }
  rewrite (val_run_e e d x He _ _ None (i1 + nnat (length lead)) tl t1' _ _ 0 Ht1' Htl) by (repeat (rewrite ?app_length; cbn [length]); unfold nnat; lia).
  subst vstart value. f_equal.
  - repeat (rewrite ?app_length; cbn [length]). unfold nnat. lia.
  - f_equal. f_equal. f_equal. repeat (rewrite ?app_length; cbn [length]). unfold nnat. lia.
Qed.

Theorem header_line_empty_value_spec_e p name wsb lead e d x :
  nametok name -> name <> [] -> spaces wsb -> spaces lead -> eol_ok e d ->
  let i := nnat (length p) in
  parse_hdrline (p ++ name ++ wsb ++ (58 : byte) :: lead ++ eol_bytes e ++ d :: x) i (mkhline hdr0 None)
  = Done (i + nnat (length name) + nnat (length wsb) + 1 + nnat (length lead) + nnat (length (eol_bytes e))) EOk
      (mkhline (mkhdr (get_hdr_type name) (mkpf i (nnat (length name))) pf0 HFIN) None).
Proof.
  intros Hn Hne Hw Hl He i. unfold parse_hdrline. subst i. rewrite parse_at.
  rewrite (name_run p name wsb _ Hn Hne Hw). cbv zeta.
  rewrite run_after. rewrite hit_bstart by reflexivity. unfold hl_bstart.
  rewrite (skipLWS_sp_eol_e lead e d x Hl He). cbn [after]. reflexivity.
Qed.

(* ---- the block: every line with its own terminator, the blank line with its own ---------------------------------------------------------------- *)
Definition line_body (l : ltxt) : list byte :=
  match l with
  | LVal name wsb lead t1 tl => name ++ wsb ++ (58 : byte) :: lead ++ (t1 ++ flat tl)
  | LEmpty name wsb lead => name ++ wsb ++ (58 : byte) :: lead
  end.
Definition eline := (ltxt * eolk)%type.
Definition eline_bytes (le : eline) : list byte := line_body (fst le) ++ eol_bytes (snd le).
Fixpoint ehdrs_at (i : N) (ls : list eline) : list hdr :=
  match ls with
  | [] => []
  | l :: ls' => hdr_of (fst l) i :: ehdrs_at (i + nnat (length (eline_bytes l))) ls'
  end.
Definition eblock_bytes (ls : list eline) : list byte := flat_map eline_bytes ls.
(* a lone CR as the blank line needs a following byte that is not LF; a lone CR ending the last header must not be followed by a lone-LF blank line
   (the two would read as one CR LF) *)
Definition blank_ok (b : eolk) (x : list byte) : Prop := b = ECR -> exists d y, x = d :: y /\ is_lf d = false.
Fixpoint chain_ok (ls : list eline) (b : eolk) : Prop :=
  match ls with
  | [] => True
  | le :: ls' => (match ls' with [] => snd le = ECR -> b <> ELF | _ => True end) /\ chain_ok ls' b
  end.

Lemma line_run_e l e pre i d x : line_ok l -> eol_ok e d -> i = nnat (length pre) ->
  run hl_iter pre (eline_bytes (l, e) ++ d :: x) i 0 (mkhline hdr0 None)
  = Done (i + nnat (length (eline_bytes (l, e)))) EOk (mkhline (hdr_of l i) None).
Proof.
  intros Hok He Hi.
  assert (Hp : i = nnat (length (rev pre))) by (rewrite rev_length; exact Hi).
  unfold eline_bytes. cbn [fst snd].
  destruct l as [name wsb lead t1 tl|name wsb lead]; cbn [line_ok line_body hdr_of] in *.
  - destruct Hok as (A1 & A2 & A3 & A4 & A5 & A6 & A7).
    pose proof (header_line_spec_e (rev pre) name wsb lead t1 tl e d x A1 A2 A3 A4 A5 A6 A7 He) as H. cbv zeta in H.
    unfold parse_hdrline in H. rewrite parse_at, rev_involutive, <- Hp in H.
    repeat (rewrite <- ?app_assoc in H; cbn [app] in H). repeat (rewrite <- ?app_assoc; cbn [app]).
    rewrite H. f_equal. repeat (rewrite ?app_length; cbn [length]). unfold nnat. lia.
  - destruct Hok as (A1 & A2 & A3 & A4).
    pose proof (header_line_empty_value_spec_e (rev pre) name wsb lead e d x A1 A2 A3 A4 He) as H. cbv zeta in H.
    unfold parse_hdrline in H. rewrite parse_at, rev_involutive, <- Hp in H.
    repeat (rewrite <- ?app_assoc in H; cbn [app] in H). repeat (rewrite <- ?app_assoc; cbn [app]).
    rewrite H. f_equal. repeat (rewrite ?app_length; cbn [length]). unfold nnat. lia.
Qed.

Lemma line_head_e l e y : line_ok l -> exists c r, eline_bytes (l, e) ++ y = c :: r /\ is_ws c = false.
Proof.
  intros Hok.
  assert (G : forall name (z : list byte), nametok name -> name <> [] -> exists c r, name ++ z = c :: r /\ is_ws c = false).
  { intros [|c name] z Hn Hne; [congruence|]. exists c, (name ++ z). split; [reflexivity|].
    inversion Hn as [|? ? [Hc _] _]; subst. exact Hc. }
  unfold eline_bytes. cbn [fst snd].
  destruct l as [name wsb lead t1 tl|name wsb lead]; cbn [line_ok line_body] in *.
  - destruct Hok as (A1 & A2 & _). rewrite <- !app_assoc. apply G; assumption.
  - destruct Hok as (A1 & A2 & _). rewrite <- !app_assoc. apply G; assumption.
Qed.
Lemma line_nonempty_e l e : line_ok l -> (0 < length (eline_bytes (l, e)))%nat.
Proof. intros H. destruct (line_head_e l e [] H) as (c & r & E & _). rewrite app_nil_r in E. rewrite E. cbn. lia. Qed.

Lemma blank_run b x pre i : blank_ok b x ->
  run hl_iter pre (eol_bytes b ++ x) i 0 (mkhline hdr0 None) = Done (i + nnat (length (eol_bytes b))) EEmpty (mkhline blank_hdr None).
Proof.
  intros Hb. destruct b; cbn [eol_bytes app length].
  - reflexivity.
  - destruct (Hb eq_refl) as (d & y & -> & Hd). rewrite run_after. unfold hl_iter. cbn [hx_h hdr0 h_state].
    change (is_cr CR) with true. cbv iota. rewrite Hd. reflexivity.
  - reflexivity.
Qed.

Lemma block_run_e ls : forall b pre i l x, Forall (fun le => line_ok (fst le)) ls -> chain_ok ls b -> blank_ok b x -> i = nnat (length pre) -> LI l ->
  (0 < hl_n l + nnat (length ls)) ->
  run hs_iter pre (eblock_bytes ls ++ eol_bytes b ++ x) i 0 (mkhdrs_st l None)
  = Done (i + nnat (length (eblock_bytes ls)) + nnat (length (eol_bytes b))) EOk (mkhdrs_st (hl_store (hl_adds l (ehdrs_at i ls)) blank_hdr) None).
Proof.
  induction ls as [|[ln e] ls IH]; intros b pre i l x Hall Hch Hb Hi Hl Hpos.
  - cbn [eblock_bytes flat_map app length ehdrs_at hl_adds fold_left].
    assert (Hne : exists c r, eol_bytes b ++ x = c :: r) by (destruct b; eexists; eexists; reflexivity).
    destruct Hne as (c & r & Ec).
    rewrite run_after, hs_iter_run by (rewrite Ec; discriminate). unfold hs_sel. cbn [hs_l hs_pv].
    destruct Hl as [Hwf Hslot]. rewrite Hslot, (blank_run b x pre i Hb).
    unfold hs_post. cbv zeta. cbn [hx_h hx_pv hs_l].
    destruct (hl_store_proj l blank_hdr) as (_ & S2 & _). rewrite S2.
    replace (0 <? hl_n l) with true by (unfold nnat in Hpos; cbn in Hpos; lia). cbn [after]. f_equal. unfold nnat. cbn [length]. lia.
  - apply Forall_cons_iff in Hall. destruct Hall as [Hok Hall']. cbn [fst] in Hok. destruct Hch as [Hlast Hch'].
    cbn [eblock_bytes flat_map]. fold (eblock_bytes ls). rewrite <- app_assoc.
    assert (Hnext : exists d y, eblock_bytes ls ++ eol_bytes b ++ x = d :: y /\ eol_ok e d).
    { destruct ls as [|[l2 e2] ls2].
      - cbn [eblock_bytes flat_map app]. cbn [snd] in Hlast.
        destruct b; eexists; eexists; (split; [reflexivity|]); split; try reflexivity; try (intros _; reflexivity).
        intros He. exfalso. exact (Hlast He eq_refl).
      - apply Forall_cons_iff in Hall'. destruct Hall' as [Hok2 _]. cbn [fst] in Hok2. cbn [eblock_bytes flat_map]. rewrite <- app_assoc.
        destruct (line_head_e l2 e2 (flat_map eline_bytes ls2 ++ eol_bytes b ++ x) Hok2) as (c & r & E & Hc). exists c, r. split; [exact E|].
        unfold is_ws, is_crlf in Hc. apply orb_false_iff in Hc. destruct Hc as [Hc1 Hc2]. apply orb_false_iff in Hc2. split; [exact Hc1|intros _; apply Hc2]. }
    destruct Hnext as (d & y & Ey & Hd). rewrite Ey.
    destruct (line_head_e ln e (d :: y) Hok) as (c & r & Ec & _).
    rewrite run_after, hs_iter_run by (rewrite Ec; discriminate). unfold hs_sel. cbn [hs_l hs_pv].
    destruct Hl as [Hwf Hslot]. rewrite Hslot.
    rewrite (line_run_e ln e pre i d y Hok Hd Hi), hs_post_ok. cbn [hx_h hx_pv hs_l].
    set (k := length (eline_bytes (ln, e))).
    replace (N.to_nat (i + nnat k - i)) with k by (unfold nnat; lia).
    pose proof (line_nonempty_e ln e Hok) as Hk. fold k in Hk.
    rewrite after_next by (try rewrite app_length; lia).
    assert (Ez : zpre k pre (eline_bytes (ln, e) ++ d :: y) = rev (eline_bytes (ln, e)) ++ pre /\ zrest k (eline_bytes (ln, e) ++ d :: y) = d :: y).
    { unfold zpre, zrest, k. rewrite firstn_app, Nat.sub_diag, firstn_all, skipn_app, Nat.sub_diag, skipn_all. cbn. rewrite app_nil_r. auto. }
    destruct Ez as [-> ->]. rewrite <- Ey.
    rewrite (IH b (rev (eline_bytes (ln, e)) ++ pre) (i + nnat k) (hl_add l (hdr_of ln i)) x Hall' Hch' Hb).
    + cbn [ehdrs_at hl_adds fold_left fst]. fold k. f_equal. cbn [eblock_bytes flat_map]. rewrite app_length. fold (eblock_bytes ls). unfold nnat. lia.
    + rewrite app_length, rev_length. fold k. unfold nnat in *. lia.
    + apply hl_add_LI. split; assumption.
    + destruct (hl_add_proj l (hdr_of ln i)) as (X1 & _). rewrite X1. lia.
Qed.

Lemma ehdrs_at_length ls : forall i, length (ehdrs_at i ls) = length ls.
Proof. induction ls as [|l ls IH]; intros i; cbn; [reflexivity|]. now rewrite IH. Qed.
Lemma ehdrs_at_types ls : forall i, Forall (fun h => h_type h <> HdrNone) (ehdrs_at i ls).
Proof.
  induction ls as [|[l e] ls IH]; intros i; cbn [ehdrs_at]; constructor; [|apply IH].
  destruct l; cbn; apply hdr_type_not_none.
Qed.

Theorem header_block_spec_e ls b p x n : Forall (fun le => line_ok (fst le)) ls -> ls <> [] -> chain_ok ls b -> blank_ok b x ->
  let i := nnat (length p) in
  let hs := ehdrs_at i ls in
  exists L, parse_headers (p ++ eblock_bytes ls ++ eol_bytes b ++ x) i (mkhdrs_st (hdrlst_init (repeat hdr0 n)) None)
            = Done (i + nnat (length (eblock_bytes ls)) + nnat (length (eol_bytes b))) EOk (mkhdrs_st L None) /\
    hl_n L = nnat (length ls) /\
    (forall j, (j < length ls)%nat -> (j < n)%nat -> nth j (hl_hdrs L) hdr0 = nth j hs hdr0) /\
    (forall t, t < 16 -> N.testbit (hl_pflags L) t = existsb (fun h => h_type h =? t) hs) /\
    (forall t, HdrNone < t -> t < HdrOther -> hl_gethdr L t = Some (match first_of t hs with Some h => h | None => hdr0 end)).
Proof.
  intros Hall Hne Hch Hb i hs. set (l0 := hdrlst_init (repeat hdr0 n)).
  assert (Hl0 : LI l0).
  { unfold LI, l0, hdrlst_init. split; [split; [intros j _; apply nth_repeat|reflexivity]|].
    unfold hl_slot, hl_is_tmp, hl_cap. cbn. destruct (_ <=? 0); [reflexivity|apply nth_repeat]. }
  exists (hl_store (hl_adds l0 hs) blank_hdr). unfold parse_headers. subst i. rewrite parse_at.
  rewrite (block_run_e ls b (rev p) (nnat (length p)) l0 x Hall Hch Hb ltac:(now rewrite rev_length) Hl0)
    by (destruct ls; [congruence|cbn; unfold nnat; lia]).
  split; [reflexivity|]. fold hs.
  destruct (hl_store_proj (hl_adds l0 hs) blank_hdr) as (S1 & S2 & S3 & S4 & S5).
  assert (Hlen : length hs = length ls) by apply ehdrs_at_length.
  assert (Hcap : length (hl_hdrs l0) = n) by (unfold l0, hdrlst_init; cbn; apply repeat_length).
  split; [rewrite S2, adds_n, Hlen; reflexivity|]. split; [|split].
  - intros j Hj Hjn. rewrite S4.
    assert (E : nth j (hl_hdrs (hl_adds l0 hs)) hdr0 = nth j hs hdr0).
    { assert (Hn0 : hl_n l0 = 0) by reflexivity.
      pose proof (adds_nth hs l0 j ltac:(lia) ltac:(rewrite Hn0, Hcap; lia)) as A. rewrite Hn0 in A. exact A. }
    destruct (hl_is_tmp (hl_adds l0 hs)); [exact E|]. rewrite nth_set_nth_ne; [exact E|].
    rewrite adds_n, Hlen. change (hl_n l0) with 0. unfold nnat. lia.
  - intros t Ht. rewrite S1, adds_flags by exact Ht. reflexivity.
  - intros t H0 H14. unfold hl_gethdr. rewrite S3.
    replace ((HdrNone <? t) && (t <? HdrOther)) with true by (unfold HdrNone, HdrOther in *; lia).
    assert (Hf : length (hl_first (hl_adds l0 hs)) = n_first) by (rewrite adds_first_len; unfold l0, hdrlst_init; cbn; reflexivity).
    assert (Hidx : (N.to_nat (t - 1) < n_first)%nat) by (unfold HdrNone, HdrOther, n_first in *; lia).
    rewrite (nth_error_nth' _ hdr0) by (rewrite Hf; exact Hidx). f_equal.
    rewrite (adds_first hs l0 t) by (try apply ehdrs_at_types; unfold l0, hdrlst_init, HdrNone, HdrOther, nnat in *; cbn; lia).
    assert (E0 : nth (N.to_nat (t - 1)) (hl_first l0) hdr0 = hdr0) by (unfold l0, hdrlst_init; cbn [hl_first]; apply nth_repeat).
    rewrite E0. cbn. reflexivity.
Qed.
