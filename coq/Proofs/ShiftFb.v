(* C11 for the name-addr automaton.  Position-indexed variant of the shift rule (the relation may
   use that the run has got past the first byte), then the liveness relation of the 23 states. *)
From Sipsp Require Import Driver Harness Shift.
From Coq Require Import ZifyN ZifyNat ZifyBool.

Section ShiftSimI.
  Context {S : Type}.
  Variable iter : list byte -> list byte -> N -> S -> ires S.
  Variable J : list byte.
  Local Notation k := (nnat (length J)).
  Variable R : N -> S -> S -> Prop.      (* while the loop goes on, at position i of the first run *)
  Variable Q : S -> S -> Prop.           (* at the return *)

  Definition ires_shiftI (i : N) (r r' : ires S) : Prop :=
    match r, r' with
    | Next n s, Next n' s' => n = n' /\ R (i + 1) s s'
    | Ret o e s, Ret o' e' s' => o' = o + k /\ e = e' /\ Q s s'
    | IPanic, IPanic => True
    | _, _ => False
    end.
  Definition res_shiftI (r r' : res S) : Prop :=
    match r, r' with
    | Done o e s, Done o' e' s' => o' = o + k /\ e = e' /\ Q s s'
    | Panic, Panic => True
    | Stuck, Stuck => True
    | _, _ => False
    end.

  Hypothesis step : forall pre rest i s s', i = nnat (length pre) -> R i s s' ->
    ires_shiftI i (iter pre rest i s) (iter (pre ++ J) rest (i + k) s').
  Hypothesis R_mono : forall i j s s', R i s s' -> i <= j -> R j s s'.

  Lemma run_shiftI : forall rest pre i skip s s', i = nnat (length pre) -> R i s s' ->
    res_shiftI (run iter pre rest i skip s) (run iter (pre ++ J) rest (i + k) skip s').
  Proof.
    induction rest as [|c r IH]; intros pre i skip s s' Hi HR.
    - destruct skip; cbn [run]; [|exact I].
      pose proof (step pre [] i s s' Hi HR) as H. unfold ires_shiftI in H.
      destruct (iter pre [] i s) as [k1 s1|o e s1|], (iter (pre ++ J) [] (i + k) s') as [k2 s2|o2 e2 s2|]; try contradiction; auto.
      destruct H as [<- _]. destruct k1; exact I.
    - destruct skip as [|skip]; cbn [run].
      + pose proof (step pre (c :: r) i s s' Hi HR) as H. unfold ires_shiftI in H.
        destruct (iter pre (c :: r) i s) as [k1 s1|o e s1|], (iter (pre ++ J) (c :: r) (i + k) s') as [k2 s2|o2 e2 s2|]; try contradiction; auto.
        destruct H as [<- H]. destruct k1; [exact I|].
        replace (i + k + 1) with (i + 1 + k) by lia. change (c :: pre ++ J) with ((c :: pre) ++ J).
        apply IH; [cbn [length]; unfold nnat in *; lia|exact H].
      + replace (i + k + 1) with (i + 1 + k) by lia. change (c :: pre ++ J) with ((c :: pre) ++ J).
        apply IH; [cbn [length]; unfold nnat in *; lia|apply (R_mono i); [exact HR|lia]].
  Qed.

  Lemma parse_shiftI junk buf offs s s' : J = rev junk -> offs <= nnat (length buf) -> R offs s s' ->
    res_shiftI (parse iter buf offs s) (parse iter (junk ++ buf) (offs + k) s').
  Proof.
    intros HJ Ho HR. unfold parse, zinit.
    assert (Hk : N.to_nat (offs + k) = (length junk + N.to_nat offs)%nat) by (rewrite HJ, rev_length; unfold nnat; lia).
    rewrite Hk. rewrite firstn_app_2, skipn_app. rewrite (skipn_all2 (n := length junk + N.to_nat offs) junk) by lia.
    replace (length junk + N.to_nat offs - length junk)%nat with (N.to_nat offs) by lia.
    cbn [app]. rewrite rev_app_distr, <- HJ.
    apply run_shiftI; [|exact HR]. rewrite rev_length, firstn_length. unfold nnat in *. lia.
  Qed.
End ShiftSimI.

(* ---- the relation ------------------------------------------------------------------------------------------------------------------------------ *)
Section FbRel.
  Variable k : N.
  (* a reported field: moved, or not set in either run *)
  Definition zp (f f' : pf) : Prop := f' = shf k f \/ (f = pf0 /\ f' = pf0).
  (* the parameters span: offset 0 means "not started yet" in the Go code *)
  Definition zsp (f f' : pf) : Prop := (po f = 0 /\ f' = f) \/ (po f <> 0 /\ f' = shf k f).
  Definition ze (x x' : N) : Prop := x' = x + k \/ (x = 0 /\ x' = 0).

  (* state classes *)
  Definition soffs_live (st : fbst) : bool :=
    match st with FbNameOrURI | FbNameOrURIEnd | FbName | FbQuoted | FbURI => true | _ => false end.
  (* which of pstart, pend, vstart, vend are live: 0 none, 1 pstart, 2 pstart+pend, 3 +vstart, 4 all *)
  Definition pcls (st : fbst) : nat :=
    match st with
    | FbParamName | FbPossibleParamName => 1
    | FbParamNameEnd | FbPossibleParamNameEnd => 2
    | FbNewParamVal | FbNewPossibleVal | FbParamVal | FbPossibleVal | FbQuotedVal | FbQuotedPossibleVal => 3
    | FbParamValEnd | FbPossibleValEnd => 4
    | _ => 0
    end%nat.
  Definition lz (live : bool) (x x' : N) : Prop := if live then x' = x + k else (x = 0 /\ x' = 0).
  Definition Prel (c : nat) (s s' : pfrom) : Prop :=
    lz (1 <=? c)%nat (fb_pstart s) (fb_pstart s') /\ lz (2 <=? c)%nat (fb_pend s) (fb_pend s') /\
    lz (3 <=? c)%nat (fb_vstart s) (fb_vstart s') /\ lz (4 <=? c)%nat (fb_vend s) (fb_vend s').

  Definition Rbase (s s' : pfrom) : Prop :=
    fb_star s' = fb_star s /\ fb_lr s' = fb_lr s /\ fb_hasexp s' = fb_hasexp s /\ fb_type s' = fb_type s /\
    fb_q s' = fb_q s /\ fb_expires s' = fb_expires s /\ fb_perr s' = fb_perr s /\
    zp (fb_name s) (fb_name s') /\ zp (fb_uri s) (fb_uri s') /\ zp (fb_tag s) (fb_tag s') /\
    zsp (fb_params s) (fb_params s') /\ ze (fb_erroffs s) (fb_erroffs s').

  Definition R0 (s s' : pfrom) : Prop :=
    fb_state s' = fb_state s /\ Rbase s s' /\
    fb_v s' = (if is_st_init (fb_state s) then fb_v s else shf k (fb_v s)) /\
    (soffs_live (fb_state s) = true -> fb_soffs s' = fb_soffs s + k) /\
    Prel (pcls (fb_state s)) s s' /\
    ((1 <=? pcls (fb_state s))%nat = true -> po (fb_params s) <> 0).
  Definition Rfb (i : N) (s s' : pfrom) : Prop := R0 s s' /\ (fb_state s <> FbInit -> 1 <= i).
End FbRel.

Ltac fb_destr s s' :=
  destruct s as [nm ur tg star lr hasexp ty q expi prm v perr eo st so ps pe vs ve],
           s' as [nm' ur' tg' star' lr' hasexp' ty' q' expi' prm' v' perr' eo' st' so' ps' pe' vs' ve'].

Lemma set_q_shift k val s s' : Rbase k s s' -> fb_vstart s' = fb_vstart s + k -> fb_vend s' = fb_vend s + k ->
  Rbase k (set_q val s) (set_q val s') /\
  fb_state (set_q val s) = fb_state s /\ fb_state (set_q val s') = fb_state s' /\
  fb_v (set_q val s) = fb_v s /\ fb_v (set_q val s') = fb_v s' /\
  fb_params (set_q val s) = fb_params s /\ fb_params (set_q val s') = fb_params s' /\
  fb_soffs (set_q val s) = fb_soffs s /\ fb_soffs (set_q val s') = fb_soffs s'.
Proof.
  intros HB Hvs Hve. unfold set_q. fb_destr s s'. unfold Rbase in *. cbn in *.
  destruct HB as (B1&B2&B3&B4&B5&B6&B7&B8&B9&B10&B11&B12). subst.
  destruct (_ <=? 4)%nat; [|cbn; unfold ze; repeat split; auto].
  destruct (pUInt64Val (firstn _ val)) as [u e1].
  destruct (match e1 with EOk => _ | _ => _ end) as [d e2].
  destruct e2; cbn; unfold ze; repeat split; auto.
  all: destruct (_ || _); cbn; unfold ze; repeat split; auto.
Qed.

Lemma setpv_shift J pre rest i s s' c : i = nnat (length pre) -> (c = 2 \/ c = 4)%nat ->
  fb_state s' = fb_state s -> Rbase (nnat (length J)) s s' -> Prel (nnat (length J)) c s s' ->
  match setFromParamVal pre rest i s, setFromParamVal (pre ++ J) rest (i + nnat (length J)) s' with
  | Some s1, Some s1' =>
    Rbase (nnat (length J)) s1 s1' /\ Prel (nnat (length J)) 0 s1 s1' /\
    fb_state s1 = fb_state s /\ fb_state s1' = fb_state s' /\ fb_v s1 = fb_v s /\ fb_v s1' = fb_v s' /\
    fb_params s1 = fb_params s /\ fb_params s1' = fb_params s' /\ fb_soffs s1 = fb_soffs s /\ fb_soffs s1' = fb_soffs s'
  | None, None => True
  | _, _ => False
  end.
Proof.
  set (k := nnat (length J)). intros Hi Hc Hst HB (P1 & P2 & P3 & P4).
  assert (Hps : fb_pstart s' = fb_pstart s + k) by (destruct Hc as [-> | ->]; exact P1).
  assert (Hpe : fb_pend s' = fb_pend s + k) by (destruct Hc as [-> | ->]; exact P2).
  unfold setFromParamVal. rewrite Hps, Hpe.
  replace (fb_pstart s + k <? fb_pend s + k) with (fb_pstart s <? fb_pend s) by lia.
  assert (Hfin : forall t t' : pfrom, Rbase k t t' -> fb_state t = fb_state s -> fb_state t' = fb_state s' -> fb_v t = fb_v s -> fb_v t' = fb_v s' ->
            fb_params t = fb_params s -> fb_params t' = fb_params s' -> fb_soffs t = fb_soffs s -> fb_soffs t' = fb_soffs s' ->
            let clr := fun s0 : pfrom => s0 <| fb_pstart := 0 |> <| fb_pend := 0 |> <| fb_vstart := 0 |> <| fb_vend := 0 |> in
            Rbase k (clr t) (clr t') /\ Prel k 0 (clr t) (clr t') /\
            fb_state (clr t) = fb_state s /\ fb_state (clr t') = fb_state s' /\ fb_v (clr t) = fb_v s /\ fb_v (clr t') = fb_v s' /\
            fb_params (clr t) = fb_params s /\ fb_params (clr t') = fb_params s' /\ fb_soffs (clr t) = fb_soffs s /\ fb_soffs (clr t') = fb_soffs s').
  { intros t t' Ht E1 E2 E3 E4 E5 E6 E7 E8. destruct t, t'. unfold Rbase, Prel, lz in *. cbn in *. repeat split; try tauto; try assumption. }
  destruct Hc as [-> | ->]; cbn in P3, P4.
  - (* no value *)
    destruct P3 as [V1 V2], P4 as [V3 V4]. rewrite V1, V2, V3, V4. cbn [N.ltb N.compare N.eqb andb].
    rewrite Bool.andb_false_r, Bool.andb_true_r.
    destruct (fb_pstart s <? fb_pend s).
    + rewrite (zslice_shift pre J rest i _ _ Hi). destruct (zslice pre rest i (fb_pstart s) (fb_pend s)) as [name|]; [|exact I].
      destruct (eqb_nocase name str_lr); apply Hfin; auto.
      destruct s, s'; unfold Rbase in *; cbn in *; tauto.
    + apply Hfin; auto; try (destruct s, s'; reflexivity).
      destruct s, s'; unfold Rbase, ze in *; cbn in *. subst. repeat split; try tauto.
  - (* with a value *)
    rewrite P3, P4. replace (fb_vstart s + k <? fb_vend s + k) with (fb_vstart s <? fb_vend s) by lia.
    replace (fb_vstart s + k =? fb_vend s + k) with (fb_vstart s =? fb_vend s) by lia.
    destruct ((fb_pstart s <? fb_pend s) && (fb_vstart s <? fb_vend s)).
    + rewrite (zslice_shift pre J rest i _ _ Hi). rewrite (zslice_shift pre J rest i _ _ Hi).
      destruct (zslice pre rest i (fb_pstart s) (fb_pend s)) as [name|]; [|exact I].
      destruct (zslice pre rest i (fb_vstart s) (fb_vend s)) as [val|]; [|exact I].
      destruct (eqb_nocase name str_tag).
      { rewrite (pf_set_shift (fb_vstart s) (fb_vend s) k). destruct (pf_set (fb_vstart s) (fb_vend s)) as [t|]; [|exact I].
        apply Hfin; try (destruct s, s'; reflexivity). destruct s, s'; unfold Rbase, zp in *; cbn in *. repeat split; try tauto. }
      destruct (eqb_nocase name str_expires).
      { destruct (pUInt64Val val) as [e ?]. apply Hfin; try (destruct s, s'; reflexivity). destruct s, s'; unfold Rbase in *; cbn in *. repeat split; tauto. }
      destruct (eqb_nocase name str_q).
      { destruct (set_q_shift k val s s' HB P3 P4) as (Q1&Q2&Q3&Q4&Q5&Q6&Q7&Q8&Q9). apply Hfin; congruence. }
      destruct (eqb_nocase name str_lr); apply Hfin; auto.
      destruct s, s'; unfold Rbase in *; cbn in *; tauto.
    + destruct ((fb_pstart s <? fb_pend s) && (fb_vstart s =? fb_vend s)).
      * rewrite (zslice_shift pre J rest i _ _ Hi). destruct (zslice pre rest i (fb_pstart s) (fb_pend s)) as [name|]; [|exact I].
        destruct (eqb_nocase name str_lr); apply Hfin; auto.
        destruct s, s'; unfold Rbase in *; cbn in *; tauto.
      * apply Hfin; auto; try (destruct s, s'; reflexivity).
        destruct s, s'; unfold Rbase, ze in *; cbn in *. subst. repeat split; try tauto.
Qed.

(* ---- closing a value ------------------------------------------------------------------------------------------------------------------------------ *)
Definition close_rel (k : N) (r r' : option (option pfrom)) : Prop :=
  match r, r' with
  | Some (Some s1), Some (Some s1') =>
    Rbase k s1 s1' /\ fb_v s1' = shf k (fb_v s1) /\ Prel k 0 s1 s1'
  | Some None, Some None => True
  | None, None => True
  | _, _ => False
  end.

Lemma ext_shift k i force (s s' : pfrom) : Rbase k s s' -> fb_v s' = shf k (fb_v s) -> Prel k 0 s s' ->
  (force = true -> po (fb_params s) <> 0) ->
  close_rel k
    (match (if force || negb (po (fb_params s) =? 0) then pf_extend (fb_params s) i else Some (fb_params s)), pf_extend (fb_v s) i with
     | Some p, Some v => Some (Some (s <| fb_params := p |> <| fb_v := v |>)) | _, _ => None end)
    (match (if force || negb (po (fb_params s') =? 0) then pf_extend (fb_params s') (i + k) else Some (fb_params s')), pf_extend (fb_v s') (i + k) with
     | Some p, Some v => Some (Some (s' <| fb_params := p |> <| fb_v := v |>)) | _, _ => None end).
Proof.
  intros HB Hv HP Hf. pose proof HB as (B1&B2&B3&B4&B5&B6&B7&B8&B9&B10&B11&B12). rewrite Hv, pf_extend_shift.
  destruct B11 as [[Hz Hp]|[Hnz Hp]]; rewrite Hp.
  - (* not started *)
    assert (force = false) by (destruct force; [exfalso; apply Hf; auto|reflexivity]). subst force.
    replace (po (fb_params s) =? 0) with true by lia. cbn [orb negb].
    destruct (pf_extend (fb_v s) i) as [v1|]; [|exact I]. unfold close_rel.
    destruct s, s'; unfold Rbase, Prel, zsp in *; cbn in *. repeat split; try tauto.
  - replace (po (shf k (fb_params s)) =? 0) with false by (unfold shf; cbn; lia).
    replace (po (fb_params s) =? 0) with false by lia. rewrite !Bool.orb_true_r. rewrite pf_extend_shift.
    destruct (pf_extend (fb_params s) i) as [p1|] eqn:Ep; [|destruct (pf_extend (fb_v s) i); exact I].
    destruct (pf_extend (fb_v s) i) as [v1|]; [|exact I]. unfold close_rel.
    assert (Hp1 : po p1 = po (fb_params s)) by (unfold pf_extend in Ep; destruct (_ <? _); [discriminate|injection Ep as <-; reflexivity]).
    destruct s, s'; unfold Rbase, Prel, zsp in *; cbn in *. repeat split; try tauto; try (right; split; [lia|reflexivity]).
Qed.

Definition ext_pv (i : N) (force : bool) (s : pfrom) : option (option pfrom) :=
  match (if force || negb (po (fb_params s) =? 0) then pf_extend (fb_params s) i else Some (fb_params s)), pf_extend (fb_v s) i with
  | Some p, Some v => Some (Some (s <| fb_params := p |> <| fb_v := v |>)) | _, _ => None end.

Lemma close_param J pre rest i0 i force t t' c : i0 = nnat (length pre) -> (c = 2 \/ c = 4)%nat ->
  fb_state t' = fb_state t -> Rbase (nnat (length J)) t t' -> Prel (nnat (length J)) c t t' ->
  fb_v t' = shf (nnat (length J)) (fb_v t) -> (force = true -> po (fb_params t) <> 0) ->
  close_rel (nnat (length J))
    (match setFromParamVal pre rest i0 t with Some s => ext_pv i force s | None => None end)
    (match setFromParamVal (pre ++ J) rest (i0 + nnat (length J)) t' with Some s => ext_pv (i + nnat (length J)) force s | None => None end).
Proof.
  intros Hi Hc Hst HB HP Hv Hf.
  pose proof (setpv_shift J pre rest i0 t t' c Hi Hc Hst HB HP) as H.
  destruct (setFromParamVal pre rest i0 t) as [s1|], (setFromParamVal (pre ++ J) rest _ t') as [s1'|]; try contradiction; [|exact I].
  destruct H as (A1&A2&A3&A4&A5&A6&A7&A8&A9&A10). unfold ext_pv.
  apply ext_shift; [exact A1|congruence|exact A2|intros E; rewrite A7; exact (Hf E)].
Qed.

Lemma close_shift J pre rest i0 i s s' : i0 = nnat (length pre) -> R0 (nnat (length J)) s s' ->
  close_rel (nnat (length J)) (fb_close pre rest i0 i s) (fb_close (pre ++ J) rest (i0 + nnat (length J)) (i + nnat (length J)) s').
Proof.
  set (k := nnat (length J)). intros Hi (Hst & HB & Hv & Hso & HP & Hpp). unfold fb_close. rewrite Hst. fold (ext_pv i) (ext_pv (i + k)).
  assert (Hnf : forall E : false = true, po (fb_params s) <> 0) by (intros E; discriminate E).
  destruct (fb_state s) eqn:Es; cbn [is_st_init soffs_live pcls Nat.leb] in *; try exact I.
  - (* NameOrURI *)
    rewrite (Hso eq_refl), Hv, (pf_set_shift (fb_soffs s) i k), pf_extend_shift.
    destruct (pf_set (fb_soffs s) i) as [u|]; [|destruct (pf_extend (fb_v s) i); exact I]. destruct (pf_extend (fb_v s) i) as [v1|]; [|exact I].
    unfold close_rel. destruct s, s'; unfold Rbase, Prel, zp in *; cbn in *. repeat split; try tauto; try (left; reflexivity).
  - (* NameOrURIEnd *) unfold close_rel. auto.
  - (* URIFound *) unfold close_rel. auto.
  - (* NewPossibleParam *) apply ext_shift; auto.
  - (* PossibleParamName *)
    apply (close_param J pre rest i0 i false (s <| fb_pend := i |>) (s' <| fb_pend := i + k |>) 2 Hi (or_introl eq_refl));
      destruct s, s'; unfold Prel, lz in *; cbn in *; auto; try congruence; repeat split; try tauto; try reflexivity.
  - (* PossibleParamNameEnd *) apply (close_param J pre rest i0 i false s s' 2 Hi (or_introl eq_refl)); auto; try congruence.
  - (* NewParam *) apply ext_shift; auto.
  - (* ParamName *)
    apply (close_param J pre rest i0 i false (s <| fb_pend := i |>) (s' <| fb_pend := i + k |>) 2 Hi (or_introl eq_refl));
      destruct s, s'; unfold Prel, lz in *; cbn in *; auto; try congruence; repeat split; try tauto; try reflexivity.
  - (* ParamNameEnd *) apply (close_param J pre rest i0 i false s s' 2 Hi (or_introl eq_refl)); auto; try congruence.
  - (* NewParamVal *)
    apply (close_param J pre rest i0 i true (s <| fb_vstart := i |> <| fb_vend := i |>) (s' <| fb_vstart := i + k |> <| fb_vend := i + k |>) 4 Hi (or_intror eq_refl));
      destruct s, s'; unfold Prel, lz in *; cbn in *; auto; try congruence; repeat split; try tauto; try reflexivity.
  - (* ParamVal *)
    apply (close_param J pre rest i0 i true (s <| fb_vend := i |>) (s' <| fb_vend := i + k |>) 4 Hi (or_intror eq_refl));
      destruct s, s'; unfold Prel, lz in *; cbn in *; auto; try congruence; repeat split; try tauto; try reflexivity.
  - (* ParamValEnd *) apply (close_param J pre rest i0 i true s s' 4 Hi (or_intror eq_refl)); auto; try congruence.
  - (* NewPossibleVal *)
    apply (close_param J pre rest i0 i true (s <| fb_vstart := i |> <| fb_vend := i |>) (s' <| fb_vstart := i + k |> <| fb_vend := i + k |>) 4 Hi (or_intror eq_refl));
      destruct s, s'; unfold Prel, lz in *; cbn in *; auto; try congruence; repeat split; try tauto; try reflexivity.
  - (* PossibleVal *)
    apply (close_param J pre rest i0 i true (s <| fb_vend := i |>) (s' <| fb_vend := i + k |>) 4 Hi (or_intror eq_refl));
      destruct s, s'; unfold Prel, lz in *; cbn in *; auto; try congruence; repeat split; try tauto; try reflexivity.
  - (* PossibleValEnd *) apply (close_param J pre rest i0 i true s s' 4 Hi (or_intror eq_refl)); auto; try congruence.
  - (* Star *)
    unfold close_rel. rewrite Hv. destruct s, s'; unfold Rbase, Prel, zp in *; cbn in *. repeat split; try tauto; try (left; reflexivity).
Qed.

(* ---- end of header, more values, white space ---------------------------------------------------------------------------------------------- *)
Notation FbRes J i := (ires_shiftI J (Rfb (nnat (length J))) (R0 (nnat (length J))) i).

Lemma eoh_shift J h pre rest i0 i ret e s s' j : i0 = nnat (length pre) -> R0 (nnat (length J)) s s' ->
  FbRes J j (fb_endOfHdr h pre rest i0 i ret e s)
            (fb_endOfHdr h (pre ++ J) rest (i0 + nnat (length J)) (i + nnat (length J)) (ret + nnat (length J)) e s').
Proof.
  set (k := nnat (length J)). intros Hi HR. pose proof (close_shift J pre rest i0 i s s' Hi HR) as H. unfold fb_endOfHdr.
  destruct HR as (Hst & HB & Hv & Hso & HP & Hpp).
  destruct (fb_close pre rest i0 i s) as [[s1|]|], (fb_close (pre ++ J) rest _ _ s') as [[s1'|]|]; try contradiction; try exact I.
  - destruct H as (A1 & A2 & A3). cbn. split; [reflexivity|]. split; [reflexivity|].
    destruct s1, s1'; unfold R0, Rbase, Prel, lz in *; cbn in *. repeat split; try tauto; intros E; discriminate E.
  - cbn. rewrite Hst. split; [reflexivity|]. split; [reflexivity|]. unfold R0. auto 10.
Qed.

Lemma close_init pre rest i0 x s : fb_state s = FbInit -> fb_close pre rest i0 x s = Some None.
Proof. intros E. unfold fb_close. rewrite E. reflexivity. Qed.

Lemma span_app_min (p : byte -> bool) (pre J : list byte) d : d <= nnat (length pre) ->
  N.min (nnat (span p (pre ++ J))) d = N.min (nnat (span p pre)) d.
Proof.
  revert d. induction pre as [|c pre IH]; intros d Hd; cbn [app length span] in *.
  - assert (d = 0) by (unfold nnat in *; lia). subst d. unfold nnat. lia.
  - destruct (p c); [|reflexivity].
    destruct (N.eq_dec d 0) as [->|Hnz]; [unfold nnat; lia|].
    specialize (IH (d - 1) ltac:(unfold nnat in *; lia)). unfold nnat in *. lia.
Qed.

Lemma mv_shift J h pre rest i s s' j : i = nnat (length pre) -> R0 (nnat (length J)) s s' ->
  FbRes J j (fb_moreValues h pre rest i s) (fb_moreValues h (pre ++ J) rest (i + nnat (length J)) s').
Proof.
  set (k := nnat (length J)). intros Hi HR. unfold fb_moreValues. cbv zeta.
  destruct (fb_state s) eqn:Es.
  1: { (* Init: the value is refused whatever the trimmed offset *)
    pose proof HR as (Hst & _). unfold fb_endOfHdr. rewrite !close_init by congruence. cbn. rewrite Hst, Es.
    split; [lia|]. split; [reflexivity|exact HR]. }
  all: pose proof HR as (Hst & HB & Hv & _); rewrite Es in Hv; cbn [is_st_init] in Hv; rewrite Hv; cbn [shf po];
       replace (i + k - (po (fb_v s) + k)) with (i - po (fb_v s)) by lia;
       rewrite (span_app_min is_ws pre J (i - po (fb_v s))) by lia;
       set (t := N.min _ _);
       replace (i + k - t) with (i - t + k) by (subst t; lia);
       replace (i + k + 1) with (i + 1 + k) by lia; apply eoh_shift; assumption.
Qed.

Lemma Rfb_next k i s s' : R0 k s s' -> (fb_state s <> FbInit -> 1 <= i + 1) -> Rfb k (i + 1) s s'.
Proof. intros H1 H2. split; assumption. Qed.

Lemma lws_shift J h pre rest i s s' : i = nnat (length pre) -> R0 (nnat (length J)) s s' ->
  FbRes J i (fb_lws h pre rest i s) (fb_lws h (pre ++ J) rest (i + nnat (length J)) s').
Proof.
  set (k := nnat (length J)). intros Hi HR. unfold fb_lws. destruct (skipLWS false rest) as [n|n crl|n].
  - cbn. split; [reflexivity|]. split; [exact HR|intros _; lia].
  - replace (i + k + nnat n + nnat crl) with (i + nnat n + nnat crl + k) by lia. apply eoh_shift; assumption.
  - cbn. split; [lia|]. split; [reflexivity|exact HR].
Qed.

Lemma lws_b_shift J h pre rest i s s' upd upd' : i = nnat (length pre) -> R0 (nnat (length J)) s s' ->
  (forall n, R0 (nnat (length J)) (upd (Some (i + nnat n))) (upd' (Some (i + nnat (length J) + nnat n)))) ->
  R0 (nnat (length J)) (upd None) (upd' None) ->
  FbRes J i (fb_lws_b h pre rest i s upd) (fb_lws_b h (pre ++ J) rest (i + nnat (length J)) s' upd').
Proof.
  set (k := nnat (length J)). intros Hi HR Hu Hn. unfold fb_lws_b. destruct (skipLWS false rest) as [n|n crl|n].
  - cbn. split; [reflexivity|]. split; [apply Hu|intros _; lia].
  - replace (i + k + nnat n + nnat crl) with (i + nnat n + nnat crl + k) by lia. apply eoh_shift; assumption.
  - cbn. split; [reflexivity|]. split; [reflexivity|exact HR].
Qed.

(* ---- the transitions ---------------------------------------------------------------------------------------------------------------------------------- *)
Ltac r0_solve :=
  unfold R0, Rbase, Prel, lz, zp, zsp, ze, soffs_live, pcls, is_st_init in *; cbn in *;
  repeat split; auto; try lia; try tauto; try (intros E; discriminate E); try (left; reflexivity).
Ltac next_solve := cbn; split; [reflexivity|]; split; [r0_solve|intros _; lia].
Ltac ret_solve := cbn; split; [try reflexivity; try lia|]; split; [reflexivity|r0_solve].

(* unpack the relation for a known state of s *)
Ltac fb_open HR Es :=
  let Hst := fresh "Hst" in let HB := fresh "HB" in let Hv := fresh "Hv" in let Hso := fresh "Hso" in
  let HP := fresh "HP" in let Hpp := fresh "Hpp" in
  destruct HR as (Hst & HB & Hv & Hso & HP & Hpp);
  rewrite Es in Hst, Hv, Hso, HP, Hpp; cbn [is_st_init soffs_live pcls Nat.leb] in Hv, Hso, HP, Hpp;
  unfold Prel, lz in HP; cbn [Nat.leb] in HP.

Lemma gURI_shift J (pre : list byte) i s s' c : i = nnat (length pre) -> Rfb (nnat (length J)) i s s' -> fb_state s = FbURI ->
  FbRes J i (fb_gURI i s c) (fb_gURI (i + nnat (length J)) s' c).
Proof.
  set (k := nnat (length J)). intros Hi [HR Hi1] Es. specialize (Hi1 ltac:(rewrite Es; discriminate)).
  fb_open HR Es. specialize (Hso eq_refl). unfold fb_gURI, fb_bad.
  destruct c; try (cbn; split; [reflexivity|]; split; [|intros _; lia]; unfold R0; rewrite Es; cbn [is_st_init soffs_live pcls Nat.leb]; unfold Prel, lz; cbn [Nat.leb]; auto 10);
    try (cbn; split; [reflexivity|]; split; [reflexivity|]; unfold R0; rewrite Es; cbn [is_st_init soffs_live pcls Nat.leb]; unfold Prel, lz; cbn [Nat.leb]; auto 10).
  (* '>' *)
  rewrite Hso, Hv, (pf_set_shift (fb_soffs s) i k). replace (i + k + 1) with (i + 1 + k) by lia. rewrite pf_extend_shift.
  destruct (pf_set (fb_soffs s) i) as [u|]; [|exact I]. destruct (pf_extend (fb_v s) (i + 1)) as [v1|]; [|exact I].
  fb_destr s s'. next_solve.
Qed.

Ltac same_next HR0 := cbn; split; [reflexivity|]; split; [exact HR0|intros _; lia].
Ltac same_ret HR0 := cbn; split; [try reflexivity; try lia|]; split; [reflexivity|exact HR0].
Ltac fb_sub HB s s' :=
  let B1 := fresh in let B2 := fresh in let B3 := fresh in let B4 := fresh in let B5 := fresh in let B6 := fresh in let B7 := fresh in
  let B8 := fresh "Bn" in let B9 := fresh "Bu" in let B10 := fresh "Bt" in let B11 := fresh "Bp" in let B12 := fresh "Be" in
  destruct HB as (B1&B2&B3&B4&B5&B6&B7&B8&B9&B10&B11&B12); fb_destr s s'; cbn in *; subst.

Lemma comma_shift J h pre rest i s s' : i = nnat (length pre) -> Rfb (nnat (length J)) i s s' ->
  FbRes J i (fb_comma h pre rest i s) (fb_comma h (pre ++ J) rest (i + nnat (length J)) s').
Proof.
  intros Hi [HR Hi1]. unfold fb_comma. destruct (multipleValsOk h); [apply mv_shift; assumption|]. same_next HR.
Qed.
Lemma comma_strict_shift J h pre rest i s s' : i = nnat (length pre) -> Rfb (nnat (length J)) i s s' ->
  FbRes J i (fb_comma_strict h pre rest i s) (fb_comma_strict h (pre ++ J) rest (i + nnat (length J)) s').
Proof.
  intros Hi [HR Hi1]. unfold fb_comma_strict, fb_bad. destruct (multipleValsOk h); [apply mv_shift; assumption|]. same_ret HR.
Qed.

Lemma gURIFound_shift J h pre rest i s s' c : i = nnat (length pre) -> Rfb (nnat (length J)) i s s' -> fb_state s = FbURIFound ->
  FbRes J i (fb_gURIFound h pre rest i s c) (fb_gURIFound h (pre ++ J) rest (i + nnat (length J)) s' c).
Proof.
  set (k := nnat (length J)). intros Hi HRf Es. pose proof HRf as [HR Hi1]. pose proof HR as HR0. unfold fb_gURIFound.
  destruct c; try (same_next HR0); try (apply lws_shift; assumption); try (apply comma_shift; assumption).
  fb_open HR Es. fb_sub HB s s'. next_solve.
Qed.

Lemma gStar_shift J h pre rest i s s' c : i = nnat (length pre) -> Rfb (nnat (length J)) i s s' ->
  FbRes J i (fb_gStar h pre rest i s c) (fb_gStar h (pre ++ J) rest (i + nnat (length J)) s' c).
Proof.
  intros Hi [HR Hi1]. unfold fb_gStar, fb_bad. destruct c; try (same_ret HR). apply lws_shift; assumption.
Qed.

Lemma gQ_shift J h pre rest r1 i s s' st c : i = nnat (length pre) -> Rfb (nnat (length J)) i s s' -> fb_state s = st ->
  (st = FbQuoted \/ st = FbQuotedVal \/ st = FbQuotedPossibleVal) ->
  FbRes J i (fb_gQ h pre rest r1 i s st c) (fb_gQ h (pre ++ J) rest r1 (i + nnat (length J)) s' st c).
Proof.
  set (k := nnat (length J)). intros Hi HRf Es Hst3. pose proof HRf as [HR Hi1]. pose proof HR as HR0. unfold fb_gQ.
  destruct c; try (same_next HR0); try (apply lws_shift; assumption).
  - (* closing quote *)
    destruct Hst3 as [-> | [-> | ->]]; fb_open HR Es; fb_sub HB s s'; next_solve.
  - (* backslash *)
    destruct r1 as [|d r2]; [same_ret HR0|]. destruct (is_crlf d); [|same_next HR0].
    cbn. split; [lia|]. split; [reflexivity|exact HR0].
Qed.

Lemma fbsetpv_shift J pre rest i t t' c : i = nnat (length pre) -> (c = 2 \/ c = 4)%nat ->
  fb_state t' = fb_state t -> (fb_state t = FbNewParam \/ fb_state t = FbNewPossibleParam) ->
  Rbase (nnat (length J)) t t' -> Prel (nnat (length J)) c t t' -> fb_v t' = shf (nnat (length J)) (fb_v t) ->
  FbRes J i (fb_setpv pre rest i t) (fb_setpv (pre ++ J) rest (i + nnat (length J)) t').
Proof.
  intros Hi Hc Hst Hnp HB HP Hv. unfold fb_setpv.
  pose proof (setpv_shift J pre rest i t t' c Hi Hc Hst HB HP) as H.
  destruct (setFromParamVal pre rest i t) as [s1|], (setFromParamVal (pre ++ J) rest _ t') as [s1'|]; try contradiction; [|exact I].
  destruct H as (A1&A2&A3&A4&A5&A6&A7&A8&A9&A10). cbn. split; [reflexivity|]. split; [|intros _; lia].
  unfold R0. rewrite A3, A4. split; [exact Hst|]. split; [exact A1|].
  destruct Hnp as [E|E]; rewrite E; cbn [is_st_init soffs_live pcls Nat.leb]; (split; [congruence|]); (split; [intros X; discriminate X|]);
    (split; [exact A2|intros X; discriminate X]).
Qed.

Lemma gPE_shift J h pre rest i s s' st c : i = nnat (length pre) -> Rfb (nnat (length J)) i s s' -> fb_state s = st ->
  (st = FbParamNameEnd \/ st = FbPossibleParamNameEnd) ->
  FbRes J i (fb_gPE h pre rest i s st c) (fb_gPE h (pre ++ J) rest (i + nnat (length J)) s' st c).
Proof.
  set (k := nnat (length J)). intros Hi HRf Es Hst2. pose proof HRf as [HR Hi1]. pose proof HR as HR0. unfold fb_gPE, fb_bad. cbv zeta.
  destruct c; try (same_ret HR0); try (apply comma_strict_shift; assumption).
  - (* ';' *)
    destruct Hst2 as [-> | ->]; fb_open HR Es; cbn [st_poss st_newparam];
      apply (fbsetpv_shift J pre rest i _ _ 2); auto; try (destruct s, s'; cbn in *; auto; fail);
      destruct s, s'; unfold Prel, lz; cbn in *; tauto.
  - (* '=' *)
    destruct Hst2 as [-> | ->]; fb_open HR Es; specialize (Hpp eq_refl); fb_sub HB s s'; next_solve.
Qed.

Lemma gVE_shift J h pre rest i s s' st c : i = nnat (length pre) -> Rfb (nnat (length J)) i s s' -> fb_state s = st ->
  (st = FbParamValEnd \/ st = FbPossibleValEnd) ->
  FbRes J i (fb_gVE h pre rest i s st c) (fb_gVE h (pre ++ J) rest (i + nnat (length J)) s' st c).
Proof.
  set (k := nnat (length J)). intros Hi HRf Es Hst2. pose proof HRf as [HR Hi1]. pose proof HR as HR0. unfold fb_gVE, fb_bad.
  destruct c; try (same_ret HR0); try (apply comma_strict_shift; assumption).
  destruct Hst2 as [-> | ->]; fb_open HR Es; cbn [st_poss st_newparam];
    apply (fbsetpv_shift J pre rest i _ _ 4); auto; try (destruct s, s'; cbn in *; auto; fail);
    destruct s, s'; unfold Prel, lz; cbn in *; tauto.
Qed.

Lemma gV_shift J h pre rest i s s' st c : i = nnat (length pre) -> Rfb (nnat (length J)) i s s' -> fb_state s = st ->
  (st = FbNewParamVal \/ st = FbNewPossibleVal \/ st = FbParamVal \/ st = FbPossibleVal) ->
  FbRes J i (fb_gV h pre rest i s st c) (fb_gV h (pre ++ J) rest (i + nnat (length J)) s' st c).
Proof.
  set (k := nnat (length J)). intros Hi HRf Es Hst4. pose proof HRf as [HR Hi1]. pose proof HR as HR0. unfold fb_gV, fb_bad. cbv zeta.
  destruct c; try (same_ret HR0); try (apply comma_shift; assumption).
  - (* white space *)
    apply lws_b_shift; auto.
    + intros n. destruct Hst4 as [-> | [-> | [-> | ->]]]; fb_open HR Es; specialize (Hpp eq_refl); fb_sub HB s s'; r0_solve.
    + destruct Hst4 as [-> | [-> | [-> | ->]]]; cbn [is_st_new]; try exact HR0; fb_open HR Es; specialize (Hpp eq_refl); fb_sub HB s s'; r0_solve.
  - (* double quote *)
    destruct Hst4 as [-> | [-> | [-> | ->]]]; fb_open HR Es; specialize (Hpp eq_refl); fb_sub HB s s'; next_solve.
  - (* ';' *)
    destruct Hst4 as [-> | [-> | [-> | ->]]]; fb_open HR Es; cbn [st_poss st_newparam];
      apply (fbsetpv_shift J pre rest i _ _ 4); auto; try (destruct s, s'; cbn in *; auto; fail);
      destruct s, s'; unfold Prel, lz; cbn in *; repeat split; try tauto; reflexivity.
  - destruct Hst4 as [-> | [-> | [-> | ->]]]; cbn [is_st_new]; try (same_next HR0); fb_open HR Es; specialize (Hpp eq_refl); fb_sub HB s s'; next_solve.
  - destruct Hst4 as [-> | [-> | [-> | ->]]]; cbn [is_st_new]; try (same_next HR0); fb_open HR Es; specialize (Hpp eq_refl); fb_sub HB s s'; next_solve.
  - destruct Hst4 as [-> | [-> | [-> | ->]]]; cbn [is_st_new]; try (same_next HR0); fb_open HR Es; specialize (Hpp eq_refl); fb_sub HB s s'; next_solve.
Qed.

Lemma gP_shift J h pre rest i s s' st c : i = nnat (length pre) -> Rfb (nnat (length J)) i s s' -> fb_state s = st ->
  (st = FbNewParam \/ st = FbNewPossibleParam \/ st = FbParamName \/ st = FbPossibleParamName) ->
  FbRes J i (fb_gP h pre rest i s st c) (fb_gP h (pre ++ J) rest (i + nnat (length J)) s' st c).
Proof.
  set (k := nnat (length J)). intros Hi HRf Es Hst4. pose proof HRf as [HR Hi1]. pose proof HR as HR0. unfold fb_gP, fb_bad. cbv zeta.
  assert (Hi1' : 1 <= i) by (apply Hi1; destruct Hst4 as [E | [E | [E | E]]]; rewrite Es, E; discriminate).
  destruct c; try (same_ret HR0); try (apply comma_shift; assumption).
  - (* white space *)
    apply lws_b_shift; auto.
    + intros n. destruct Hst4 as [-> | [-> | [-> | ->]]]; cbn [is_st_name]; try exact HR0; fb_open HR Es; specialize (Hpp eq_refl); fb_sub HB s s'; r0_solve.
    + destruct Hst4 as [-> | [-> | [-> | ->]]]; cbn [is_st_name]; try exact HR0; fb_open HR Es; specialize (Hpp eq_refl); fb_sub HB s s'; r0_solve.
  - destruct Hst4 as [-> | [-> | [-> | ->]]]; cbn [is_st_name st_poss st_paramname]; fb_open HR Es; try specialize (Hpp eq_refl); fb_sub HB s s';
      destruct Bp as [[Hz ->]|[Hnz ->]]; cbn [po shf];
      try (replace (po prm =? 0) with true by lia); try (replace (po prm =? 0) with false by lia);
      try (replace (po prm + k =? 0) with false by lia); try (replace (po prm + nnat (length J) =? 0) with false by lia); try lia; next_solve; try (right; split; [lia|reflexivity]).
  - (* ';' *)
    destruct Hst4 as [-> | [-> | [-> | ->]]]; cbn [is_st_name]; try (same_next HR0); fb_open HR Es; cbn [st_poss st_newparam];
      apply (fbsetpv_shift J pre rest i _ _ 2); auto; try (destruct s, s'; cbn in *; auto; fail);
      destruct s, s'; unfold Prel, lz; cbn in *; repeat split; try tauto; reflexivity.
  - destruct Hst4 as [-> | [-> | [-> | ->]]]; cbn [is_st_name st_poss st_paramname]; fb_open HR Es; try specialize (Hpp eq_refl); fb_sub HB s s';
      destruct Bp as [[Hz ->]|[Hnz ->]]; cbn [po shf];
      try (replace (po prm =? 0) with true by lia); try (replace (po prm =? 0) with false by lia);
      try (replace (po prm + k =? 0) with false by lia); try (replace (po prm + nnat (length J) =? 0) with false by lia); try lia; next_solve; try (right; split; [lia|reflexivity]).
  - (* '=' *)
    destruct Hst4 as [-> | [-> | [-> | ->]]]; cbn [is_st_name]; try (same_ret HR0); fb_open HR Es; specialize (Hpp eq_refl); fb_sub HB s s'; next_solve.
  - destruct Hst4 as [-> | [-> | [-> | ->]]]; cbn [is_st_name st_poss st_paramname]; fb_open HR Es; try specialize (Hpp eq_refl); fb_sub HB s s';
      destruct Bp as [[Hz ->]|[Hnz ->]]; cbn [po shf];
      try (replace (po prm =? 0) with true by lia); try (replace (po prm =? 0) with false by lia);
      try (replace (po prm + k =? 0) with false by lia); try (replace (po prm + nnat (length J) =? 0) with false by lia); try lia; next_solve; try (right; split; [lia|reflexivity]).
  - destruct Hst4 as [-> | [-> | [-> | ->]]]; cbn [is_st_name st_poss st_paramname]; fb_open HR Es; try specialize (Hpp eq_refl); fb_sub HB s s';
      destruct Bp as [[Hz ->]|[Hnz ->]]; cbn [po shf];
      try (replace (po prm =? 0) with true by lia); try (replace (po prm =? 0) with false by lia);
      try (replace (po prm + k =? 0) with false by lia); try (replace (po prm + nnat (length J) =? 0) with false by lia); try lia; next_solve; try (right; split; [lia|reflexivity]).
Qed.

Lemma gA_shift J h pre rest i s s' st c : i = nnat (length pre) -> Rfb (nnat (length J)) i s s' -> fb_state s = st ->
  (st = FbInit \/ st = FbName \/ st = FbNameOrURI \/ st = FbNameOrURIEnd) ->
  FbRes J i (fb_gA h pre rest i s st c) (fb_gA h (pre ++ J) rest (i + nnat (length J)) s' st c).
Proof.
  set (k := nnat (length J)). intros Hi HRf Es Hst4. pose proof HRf as [HR Hi1]. pose proof HR as HR0. unfold fb_gA, fb_bad, fb_reset3.
  destruct c; try (apply comma_shift; assumption).
  - (* white space *)
    destruct Hst4 as [-> | [-> | [-> | ->]]]; cbn [is_st_nameoruri]; try (apply lws_shift; assumption).
    fb_open HR Es. specialize (Hso eq_refl). rewrite Hso, Hv, (pf_set_shift (fb_soffs s) i k), pf_extend_shift.
    destruct (pf_set (fb_soffs s) i) as [u|]; [|exact I]. destruct (pf_extend (fb_v s) i) as [v1|]; [|exact I].
    apply lws_shift; [exact Hi|]. fb_sub HB s s'. r0_solve.
  - (* '<' *)
    destruct Hst4 as [-> | [-> | [-> | ->]]]; cbn [is_st_init]; fb_open HR Es; try specialize (Hso eq_refl).
    + rewrite (pf_set_shift i i k). destruct (pf_set i i) as [v1|]; [|exact I]. fb_sub HB s s'. next_solve.
    + rewrite Hso, (pf_set_shift (fb_soffs s) i k). destruct (pf_set (fb_soffs s) i) as [n1|]; [|exact I]. fb_sub HB s s'. next_solve.
    + rewrite Hso, (pf_set_shift (fb_soffs s) i k). destruct (pf_set (fb_soffs s) i) as [n1|]; [|exact I]. fb_sub HB s s'. next_solve.
    + rewrite Hso, (pf_set_shift (fb_soffs s) i k). destruct (pf_set (fb_soffs s) i) as [n1|]; [|exact I]. fb_sub HB s s'. next_solve.
  - (* '>' *) same_ret HR0.
  - (* double quote *)
    destruct Hst4 as [-> | [-> | [-> | ->]]]; cbn [is_st_init]; fb_open HR Es; try specialize (Hso eq_refl).
    + rewrite (pf_set_shift i i k). destruct (pf_set i i) as [v1|]; [|exact I]. fb_sub HB s s'. next_solve.
    + fb_sub HB s s'. next_solve.
    + fb_sub HB s s'. next_solve.
    + fb_sub HB s s'. next_solve.
  - (* ';' *)
    destruct Hst4 as [-> | [-> | [-> | ->]]]; cbn [is_st_nameoruri is_st_nameoruriend]; try (same_ret HR0); fb_open HR Es; try specialize (Hso eq_refl).
    + rewrite Hso, Hv, (pf_set_shift (fb_soffs s) i k). replace (i + k + 1) with (i + 1 + k) by lia. rewrite pf_extend_shift.
      destruct (pf_set (fb_soffs s) i) as [u|]; [|exact I]. destruct (pf_extend (fb_v s) (i + 1)) as [v1|]; [|exact I]. fb_sub HB s s'. next_solve.
    + fb_sub HB s s'. next_solve.
  - (* '*' *)
    destruct Hst4 as [-> | [-> | [-> | ->]]]; cbn [is_st_init]; try (same_next HR0). fb_open HR Es.
    replace (i + k + 1) with (i + 1 + k) by lia. rewrite (pf_set_shift i (i + 1) k). destruct (pf_set i (i + 1)) as [v1|]; [|exact I]. fb_sub HB s s'. next_solve.
  - (* '=' *)
    destruct Hst4 as [-> | [-> | [-> | ->]]]; cbn [is_st_init is_st_nameoruriend]; try (same_next HR0); fb_open HR Es; try specialize (Hso eq_refl).
    + rewrite (pf_set_shift i i k). destruct (pf_set i i) as [v1|]; [|exact I]. fb_sub HB s s'. next_solve.
    + fb_sub HB s s'. next_solve.
  - (* backslash *)
    destruct Hst4 as [-> | [-> | [-> | ->]]]; cbn [is_st_init is_st_nameoruriend]; try (same_next HR0); fb_open HR Es; try specialize (Hso eq_refl).
    + rewrite (pf_set_shift i i k). destruct (pf_set i i) as [v1|]; [|exact I]. fb_sub HB s s'. next_solve.
    + fb_sub HB s s'. next_solve.
  - (* anything else *)
    destruct Hst4 as [-> | [-> | [-> | ->]]]; cbn [is_st_init is_st_nameoruriend]; try (same_next HR0); fb_open HR Es; try specialize (Hso eq_refl).
    + rewrite (pf_set_shift i i k). destruct (pf_set i i) as [v1|]; [|exact I]. fb_sub HB s s'. next_solve.
    + fb_sub HB s s'. next_solve.
Qed.

Lemma fb_shift_step J h pre rest i s s' : i = nnat (length pre) -> Rfb (nnat (length J)) i s s' ->
  FbRes J i (fb_iter h pre rest i s) (fb_iter h (pre ++ J) rest (i + nnat (length J)) s').
Proof.
  intros Hi HRf. pose proof HRf as [HR Hi1]. pose proof HR as (Hst & _). unfold fb_iter. rewrite Hst.
  destruct (fb_state s) eqn:Es.
  23: { cbn. split; [reflexivity|]. split; [reflexivity|exact HR]. }
  all: destruct rest as [|c r1]; [cbn; split; [reflexivity|]; split; [reflexivity|exact HR]|].
  all: unfold fb_step.
  - apply gA_shift; auto.
  - apply gA_shift; auto.
  - apply gA_shift; auto 6.
  - apply gA_shift; auto.
  - apply gQ_shift; auto.
  - apply (gURI_shift J pre); auto.
  - apply gURIFound_shift; auto.
  - apply gP_shift; auto.
  - apply gP_shift; auto 6.
  - apply gPE_shift; auto.
  - apply gP_shift; auto.
  - apply gP_shift; auto 6.
  - apply gPE_shift; auto.
  - apply gV_shift; auto.
  - apply gV_shift; auto 6.
  - apply gVE_shift; auto.
  - apply gV_shift; auto 6.
  - apply gV_shift; auto 6.
  - apply gVE_shift; auto.
  - apply gQ_shift; auto.
  - apply gQ_shift; auto.
  - apply gStar_shift; auto.
Qed.

Lemma Rfb_mono k i j s s' : Rfb k i s s' -> i <= j -> Rfb k j s s'.
Proof. intros [H1 H2] Hij. split; [exact H1|]. intros E. specialize (H2 E). lia. Qed.

Lemma R0_pfrom0 k : R0 k pfrom0 pfrom0.
Proof. unfold R0, Rbase, Prel, lz, zp, zsp, ze. cbn. repeat split; auto; try (intros E; discriminate E); right; auto. Qed.

(* ParseNameAddrPVal, every header kind *)
Theorem nameaddr_shift h junk buf offs : offs <= nnat (length buf) ->
  res_shiftI (rev junk) (R0 (nnat (length junk))) (parse_nameaddr h buf offs pfrom0) (parse_nameaddr h (junk ++ buf) (offs + nnat (length junk)) pfrom0).
Proof.
  intros Ho. unfold parse_nameaddr. rewrite <- (rev_length junk).
  apply (parse_shiftI (fb_iter h) (rev junk) (Rfb (nnat (length (rev junk)))) (R0 (nnat (length (rev junk))))); auto.
  - intros pre rest i s s' Hi HR. apply fb_shift_step; assumption.
  - intros i j s s' H Hij. apply (Rfb_mono _ i); assumption.
  - split; [apply R0_pfrom0|intros E; exfalso; apply E; reflexivity].
Qed.
