(* C01 / C03 for ParseSIPMsg: the message parser chains first line, header block and body; each
   suspended section is resumed transparently and no section gives a premature verdict. *)
From Sipsp Require Import RunLemmas Safe Resume Ext ExtLeaf ZSlice Harness ExtCSeq ExtNameAddr ExtNested ExtLists
  ExtFLine ExtAdv OkBounds ExtHdrLine HdrLineBounds ExtHeaders MsgBounds Framing.
From Coq Require Import ZifyN ZifyNat ZifyBool.

Definition nomore (flags : N) : bool := testbit flags bSIPMsgNoMoreData.

Lemma fline_eq p x i s : i <= nnat (length p) ->
  match parse_fline p i s with
  | Done o EMore s' => i <= o /\ o <= nnat (length p) /\ parse_fline (p ++ x) o s' = parse_fline (p ++ x) i s
  | Done o e s' => parse_fline (p ++ x) i s = Done o e s'
  | _ => True
  end.
Proof. apply (parse_ext_eq fl_iter fline_IterExt). Qed.
Lemma headers_eq p x i s : i <= nnat (length p) ->
  match parse_headers p i s with
  | Done o EMore s' => i <= o /\ o <= nnat (length p) /\ parse_headers (p ++ x) o s' = parse_headers (p ++ x) i s
  | Done o e s' => parse_headers (p ++ x) i s = Done o e s'
  | _ => True
  end.
Proof. apply (parse_ext_eq hs_iter hs_IterExt). Qed.

(* ---- body ------------------------------------------------------------------------------------------------------ *)
Lemma body_more flags L o fl hs body bl raw st offs o' s' :
  msg_body flags L o (mkpmsg fl hs body bl raw st offs) = Done o' EMore s' ->
  o' = o /\ s' = mkpmsg fl hs (mkpf o 0) bl raw st offs.
Proof.
  unfold msg_body, msg_end. rewrite body_set. cbn -[testbit N.ltb].
  repeat match goal with
         | |- context [if ?b then _ else _] => destruct b
         | |- context [match pf_extend ?a ?b with _ => _ end] => destruct (pf_extend a b)
         end; intros H; try discriminate. injection H as <- <-. auto.
Qed.
Lemma body_indep flags L o fl hs body body' bl raw st offs :
  msg_body flags L o (mkpmsg fl hs body bl raw st offs) = msg_body flags L o (mkpmsg fl hs body' bl raw st offs).
Proof. unfold msg_body. rewrite body_set. reflexivity. Qed.

(* with the no-more-data flag there is no "more" answer *)
Lemma fail_nomore flags o e m o' s' : nomore flags = true -> msg_fail flags o e m <> Done o' EMore s'.
Proof. unfold msg_fail, nomore. intros ->. destruct e; discriminate. Qed.
Lemma body_nomore flags L o m o' s' : nomore flags = true -> msg_body flags L o m <> Done o' EMore s'.
Proof.
  unfold msg_body, msg_end, nomore. intros ->. destruct (pf_set o o); [|discriminate]. cbv zeta.
  repeat match goal with
         | |- context [if ?b then _ else _] => destruct b
         | |- context [match pf_extend ?a ?b with _ => _ end] => destruct (pf_extend a b)
         end; discriminate.
Qed.

(* ---- header block ---------------------------------------------------------------------------------------------- *)
Lemma headers_res flags p x i fl hs body raw offs o s' :
  nomore flags = false -> i <= nnat (length p) ->
  msg_headers flags p i (mkpmsg fl hs body (nnat (length p)) raw MHeaders offs) = Done o EMore s' ->
  o <= nnat (length p) /\
  parse_sipmsg flags (p ++ x) o s'
  = msg_headers flags (p ++ x) i (mkpmsg fl hs body (nnat (length (p ++ x))) raw MHeaders offs).
Proof.
  intros Hnm Hi. unfold msg_headers. cbn -[parse_headers msg_body msg_fail testbit].
  pose proof (headers_eq p x i hs Hi) as He. pose proof (headers_ok_bound p i hs) as Hb.
  destruct (parse_headers p i hs) as [o1 e hs1| |]; try discriminate.
  destruct e; try (unfold msg_fail; discriminate).
  - (* the header block is complete: the body asked for more *)
    cbn -[parse_headers msg_body msg_fail testbit]. intros H. apply body_more in H as [-> ->].
    split; [apply (Hb o1 hs1 Hi eq_refl)|]. rewrite He.
    unfold parse_sipmsg. cbn -[parse_headers msg_body msg_fail testbit]. apply body_indep.
  - (* suspended inside the header block *)
    intros H. unfold msg_fail in H. unfold nomore in Hnm. rewrite Hnm in H. injection H as <- <-.
    destruct He as (H1 & H2 & H3). split; [exact H2|].
    unfold parse_sipmsg. cbn -[parse_headers msg_body msg_fail testbit]. unfold msg_headers.
    cbn -[parse_headers msg_body msg_fail testbit]. rewrite H3.
    destruct (parse_headers (p ++ x) i hs) as [o2 e2 hs2| |]; [destruct e2|..]; reflexivity.
Qed.

(* ---- first line ------------------------------------------------------------------------------------------------- *)
Lemma fline_res flags p x i fl hs body raw offs o s' :
  nomore flags = false -> i <= nnat (length p) ->
  msg_fline flags p i (mkpmsg fl hs body (nnat (length p)) raw MFLine offs) = Done o EMore s' ->
  o <= nnat (length p) /\
  parse_sipmsg flags (p ++ x) o s'
  = msg_fline flags (p ++ x) i (mkpmsg fl hs body (nnat (length (p ++ x))) raw MFLine offs).
Proof.
  intros Hnm Hi. unfold msg_fline. cbn -[parse_fline msg_headers msg_fail testbit].
  pose proof (fline_eq p x i fl Hi) as He. pose proof (fline_ok_bound p i fl) as Hb.
  destruct (parse_fline p i fl) as [o1 e fl1| |]; try discriminate.
  destruct e; try (unfold msg_fail; discriminate).
  - cbn -[parse_fline msg_headers msg_fail testbit]. intros H.
    destruct (Hb o1 fl1 Hi eq_refl) as [_ Hb1].
    apply (headers_res flags p x o1 fl1 hs body raw offs o s' Hnm Hb1) in H. destruct H as [H1 H2].
    split; [exact H1|]. rewrite He. exact H2.
  - intros H. unfold msg_fail in H. unfold nomore in Hnm. rewrite Hnm in H. injection H as <- <-.
    destruct He as (H1 & H2 & H3). split; [exact H2|].
    unfold parse_sipmsg. cbn -[parse_fline msg_headers msg_fail testbit]. unfold msg_fline.
    cbn -[parse_fline msg_headers msg_fail testbit]. rewrite H3.
    destruct (parse_fline (p ++ x) i fl) as [o2 e2 fl2| |]; [destruct e2|..]; reflexivity.
Qed.

(* ---- the message parser: transparent resumption (equalities) ---------------------------------------------------- *)
Theorem msg_resume flags p x i s : nomore flags = false -> i <= nnat (length p) ->
  match parse_sipmsg flags p i s with
  | Done o EMore s' => o <= nnat (length p) /\ parse_sipmsg flags (p ++ x) o s' = parse_sipmsg flags (p ++ x) i s
  | _ => True
  end.
Proof.
  intros Hnm Hi. destruct s as [fl hs body bl raw st offs].
  destruct (parse_sipmsg flags p i (mkpmsg fl hs body bl raw st offs)) as [o e s'| |] eqn:E; auto.
  destruct e; auto. revert E. unfold parse_sipmsg at 1 3. cbn -[msg_fline msg_headers msg_body msg_fail testbit].
  destruct st.
  - apply fline_res; assumption.
  - apply fline_res; assumption.
  - apply headers_res; assumption.
  - intros H. apply body_more in H as [-> ->]. split; [exact Hi|].
    unfold parse_sipmsg. cbn -[msg_fline msg_headers msg_body msg_fail testbit]. apply body_indep.
  - unfold msg_fail. discriminate.
  - unfold msg_fail. discriminate.
  - unfold msg_fail. discriminate.
Qed.

Lemma msg_nomore flags p i s o s' : nomore flags = true -> parse_sipmsg flags p i s <> Done o EMore s'.
Proof.
  intros Hnm. unfold parse_sipmsg, msg_fline, msg_headers.
  destruct (m_state _).
  all: repeat match goal with
              | |- context [match parse_fline ?a ?b ?c with _ => _ end] => destruct (parse_fline a b c) as [? [] ?| |]
              | |- context [match parse_headers ?a ?b ?c with _ => _ end] => destruct (parse_headers a b c) as [? [] ?| |]
              end; try discriminate; try (apply fail_nomore; exact Hnm); try (apply body_nomore; exact Hnm).
Qed.

(* the resumption half of the one-step property, for every flag combination *)
Theorem msg_ResOK flags : ResOK (parse_sipmsg flags) obs_msg (fun _ _ => True).
Proof.
  intros p x i s _ Hi. destruct (nomore flags) eqn:Hnm.
  - pose proof (msg_nomore flags p i s) as H. destruct (parse_sipmsg flags p i s) as [o e s'| |]; auto.
    destruct e; auto. exfalso. exact (H o s' Hnm eq_refl).
  - pose proof (msg_resume flags p x i s Hnm Hi) as H. destruct (parse_sipmsg flags p i s) as [o e s'| |]; auto.
    destruct e; auto. destruct H as [H1 H2]. split; [exact I|]. split; [exact H1|]. rewrite H2. apply req_refl.
Qed.

(* ---- no premature verdict ---------------------------------------------------------------------------------------- *)
(* the one exemption: no Content-Length and neither skip-body nor require-Content-Length: the body
   is by definition the rest of the buffer *)
Definition body_is_rest (flags : N) (e : err) (s' : pmsg) : Prop :=
  testbit flags bSIPMsgSkipBody = false /\ testbit flags bSIPMsgCLenReq = false /\ e = EOk /\
  ui_parsed (pv_clen (msg_pv s')) = false.

Lemma body_final flags L L' o fl hs body raw st offs o' e s' : nomore flags = false -> L <= L' ->
  msg_body flags L o (mkpmsg fl hs body L raw st offs) = Done o' e s' -> e <> EMore ->
  body_is_rest flags e s' \/ msg_body flags L' o (mkpmsg fl hs body L' raw st offs) = Done o' e s'.
Proof.
  unfold body_is_rest, msg_body, msg_end, nomore. rewrite !body_set. intros Hnm HL. rewrite Hnm.
  cbv -[testbit N.ltb N.leb N.add N.sub pf_extend ui_parsed ui_val pv_clen phvals_init bSIPMsgSkipBody bSIPMsgCLenReq andb orb negb].
  set (cl := pv_clen _).
  destruct (testbit flags bSIPMsgSkipBody) eqn:Hs.
  - destruct (testbit flags bSIPMsgCLenReq && negb (ui_parsed cl)).
    + match goal with |- context [if ?b then Panic else _] => destruct b eqn:E1 end; cbv iota; [intros HH; discriminate HH|]. intros H He. right.
      replace ((L' <? o) || (o <? offs)) with false by lia. exact H.
    + destruct (pf_extend _ o); cbv iota; [|intros HH; discriminate HH].
      match goal with |- context [if ?b then Panic else _] => destruct b eqn:E1 end; cbv iota; [intros HH; discriminate HH|]. intros H He. right.
      replace ((L' <? o) || (o <? offs)) with false by lia. exact H.
  - destruct (ui_parsed cl) eqn:Hp.
    + destruct (L <? o + ui_val cl) eqn:E0; cbv iota; [intros H He; injection H as _ <- _; congruence|].
      destruct (pf_extend _ _); cbv iota; [|intros HH; discriminate HH].
      match goal with |- context [if ?b then Panic else _] => destruct b eqn:E1 end; cbv iota; [intros HH; discriminate HH|]. intros H He. right.
      replace (L' <? o + ui_val cl) with false by lia.
      replace (false || (o + ui_val cl <? offs)) with false by lia. exact H.
    + destruct (testbit flags bSIPMsgCLenReq) eqn:Hr.
      * destruct (pf_extend _ o); cbv iota; [|intros HH; discriminate HH].
        match goal with |- context [if ?b then Panic else _] => destruct b eqn:E1 end; cbv iota; [intros HH; discriminate HH|]. intros H He. right.
        replace ((L' <? o) || (o <? offs)) with false by lia. exact H.
      * destruct (pf_extend _ L); cbv iota; [|intros HH; discriminate HH].
        match goal with |- context [if ?b then Panic else _] => destruct b eqn:E1 end; cbv iota; [intros HH; discriminate HH|]. intros H He. left.
        injection H as <- <- <-. auto.
Qed.

(* the object after a definitive verdict on the longer buffer: the same, except that a failed
   parse leaves Buf = the whole buffer it was given *)
Definition fin_rel (L' : N) (s' s'' : pmsg) : Prop :=
  s'' = s' \/ (msg_err s' = true /\ s'' = s' <| m_buflen := L' |>).

Lemma app_len_le (p x : list byte) : nnat (length p) <= nnat (length (p ++ x)).
Proof. rewrite app_length. unfold nnat. lia. Qed.

Lemma headers_final flags p x i fl hs body raw offs o e s' :
  nomore flags = false -> i <= nnat (length p) ->
  msg_headers flags p i (mkpmsg fl hs body (nnat (length p)) raw MHeaders offs) = Done o e s' -> e <> EMore ->
  body_is_rest flags e s' \/
  exists s'', msg_headers flags (p ++ x) i (mkpmsg fl hs body (nnat (length (p ++ x))) raw MHeaders offs) = Done o e s''
              /\ fin_rel (nnat (length (p ++ x))) s' s''.
Proof.
  intros Hnm Hi. unfold msg_headers. cbn -[parse_headers msg_body msg_fail testbit].
  pose proof (headers_eq p x i hs Hi) as He.
  destruct (parse_headers p i hs) as [o1 e1 hs1| |]; try discriminate.
  destruct e1.
  1:{ cbn -[parse_headers msg_body msg_fail testbit]. intros H Hne.
      apply (body_final flags _ (nnat (length (p ++ x))) _ _ _ _ _ _ _ _ _ _ Hnm (app_len_le p x)) in H; [|exact Hne].
      destruct H as [H|H]; [left; exact H|right]. exists s'. rewrite He. split; [exact H|left; reflexivity]. }
  3:{ unfold msg_fail. unfold nomore in Hnm. rewrite Hnm. intros H Hne. injection H as _ <- _. congruence. }
  all: rewrite He; unfold msg_fail; cbn -[testbit]; intros H Hne; injection H as <- <- <-; right;
       eexists; (split; [reflexivity|right; split; reflexivity]).
Qed.

Lemma fline_final flags p x i fl hs body raw offs o e s' :
  nomore flags = false -> i <= nnat (length p) ->
  msg_fline flags p i (mkpmsg fl hs body (nnat (length p)) raw MFLine offs) = Done o e s' -> e <> EMore ->
  body_is_rest flags e s' \/
  exists s'', msg_fline flags (p ++ x) i (mkpmsg fl hs body (nnat (length (p ++ x))) raw MFLine offs) = Done o e s''
              /\ fin_rel (nnat (length (p ++ x))) s' s''.
Proof.
  intros Hnm Hi. unfold msg_fline. cbn -[parse_fline msg_headers msg_fail testbit].
  pose proof (fline_eq p x i fl Hi) as He. pose proof (fline_ok_bound p i fl) as Hb.
  destruct (parse_fline p i fl) as [o1 e1 fl1| |]; try discriminate.
  destruct e1.
  1:{ cbn -[parse_fline msg_headers msg_fail testbit]. intros H Hne. destruct (Hb o1 fl1 Hi eq_refl) as [_ Hb1].
      rewrite He. exact (headers_final flags p x o1 fl1 hs body raw offs o e s' Hnm Hb1 H Hne). }
  3:{ unfold msg_fail. unfold nomore in Hnm. rewrite Hnm. intros H Hne. injection H as _ <- _. congruence. }
  all: rewrite He; unfold msg_fail; cbn -[testbit]; intros H Hne; injection H as <- <- <-; right;
       eexists; (split; [reflexivity|right; split; reflexivity]).
Qed.

(* C03 for the message parser *)
Theorem msg_final flags p x i s o e s' : nomore flags = false -> i <= nnat (length p) ->
  parse_sipmsg flags p i s = Done o e s' -> e <> EMore ->
  body_is_rest flags e s' \/
  exists s'', parse_sipmsg flags (p ++ x) i s = Done o e s'' /\ fin_rel (nnat (length (p ++ x))) s' s''.
Proof.
  intros Hnm Hi. destruct s as [fl hs body bl raw st offs].
  unfold parse_sipmsg. cbn -[msg_fline msg_headers msg_body msg_fail testbit].
  destruct st.
  - apply fline_final; assumption.
  - apply fline_final; assumption.
  - apply headers_final; assumption.
  - intros H Hne. apply (body_final flags _ (nnat (length (p ++ x))) _ _ _ _ _ _ _ _ _ _ Hnm (app_len_le p x)) in H; [|exact Hne].
    destruct H as [H|H]; [left; exact H|right]. exists s'. split; [exact H|left; reflexivity].
  - unfold msg_fail. cbn -[testbit]. intros H Hne. injection H as <- <- <-. right. eexists. split; [reflexivity|right; split; reflexivity].
  - unfold msg_fail. cbn -[testbit]. intros H Hne. injection H as <- <- <-. right. eexists. split; [reflexivity|right; split; reflexivity].
  - unfold msg_fail. cbn -[testbit]. intros H Hne. injection H as <- <- <-. right. eexists. split; [reflexivity|right; split; reflexivity].
Qed.

(* everything a caller reads back, except the extent of Buf *)
Definition obs_msg_nobuf (m : pmsg) : list Z := obs_msg (m <| m_buflen := 0 |>).
Lemma fin_rel_obs L' s' s'' : fin_rel L' s' s'' ->
  obs_msg_nobuf s'' = obs_msg_nobuf s' /\ (msg_err s' = false -> obs_msg s'' = obs_msg s').
Proof.
  intros [->|[He ->]]; [auto|]. split; [|congruence]. unfold obs_msg_nobuf. destruct s'; reflexivity.
Qed.
