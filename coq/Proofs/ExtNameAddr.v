(* ExtOK for ParseNameAddrPVal (From / To / Contact / PAI / Route values) *)
From Sipsp Require Import RunLemmas Safe Resume Ext ExtLeaf ZSlice Harness.
From Coq Require Import ZifyN ZifyNat ZifyBool.

(* "the prefix run panicked, or the extension gives the same" *)
Definition same_or_panic {A} (r r' : option A) : Prop := r = None \/ r' = r.

Lemma zslice_ext pre R x i a b : i = nnat (length pre) -> same_or_panic (zslice pre R i a b) (zslice pre (R ++ x) i a b).
Proof.
  intros Hi. unfold same_or_panic. rewrite !zslice_bslice by exact Hi.
  destruct (bslice (rev pre ++ R) a b) eqn:E; [|left; reflexivity].
  right. rewrite app_assoc, bslice_app, E; [reflexivity|]. apply bslice_some_bound in E. apply E.
Qed.

Lemma setpv_ext pre R x i s : i = nnat (length pre) ->
  same_or_panic (setFromParamVal pre R i s) (setFromParamVal pre (R ++ x) i s).
Proof.
  intros Hi. unfold setFromParamVal, same_or_panic.
  pose proof (zslice_ext pre R x i (fb_pstart s) (fb_pend s) Hi) as [H1|H1];
  pose proof (zslice_ext pre R x i (fb_vstart s) (fb_vend s) Hi) as [H2|H2];
  rewrite ?H1, ?H2;
  repeat match goal with
         | |- context [if ?b then _ else _] => destruct b
         | |- context [match zslice ?p ?r ?j ?a ?b with _ => _ end] => destruct (zslice p r j a b)
         end; auto.
Qed.

Lemma fb_close_ext pre R x i0 i s : i0 = nnat (length pre) ->
  same_or_panic (fb_close pre R i0 i s) (fb_close pre (R ++ x) i0 i s).
Proof.
  intros Hi. unfold fb_close, same_or_panic.
  destruct (fb_state s); auto;
  match goal with |- context [setFromParamVal pre R i0 ?ss] =>
    destruct (setpv_ext pre R x i0 ss Hi) as [H|H]; rewrite ?H; auto end.
Qed.

Definition ires_same_or_panic {S} (r r' : ires S) : Prop := r = IPanic \/ r' = r.

Lemma fb_endOfHdr_ext h pre R x i0 i ret e s : i0 = nnat (length pre) ->
  ires_same_or_panic (fb_endOfHdr h pre R i0 i ret e s) (fb_endOfHdr h pre (R ++ x) i0 i ret e s).
Proof.
  intros Hi. unfold fb_endOfHdr, ires_same_or_panic.
  destruct (fb_close_ext pre R x i0 i s Hi) as [H|H]; rewrite H; auto.
Qed.
Lemma fb_moreValues_ext h pre R x i s : i = nnat (length pre) ->
  ires_same_or_panic (fb_moreValues h pre R i s) (fb_moreValues h pre (R ++ x) i s).
Proof. intros Hi. unfold fb_moreValues. apply fb_endOfHdr_ext. exact Hi. Qed.
Lemma fb_setpv_ext pre R x i s : i = nnat (length pre) ->
  ires_same_or_panic (fb_setpv pre R i s) (fb_setpv pre (R ++ x) i s).
Proof.
  intros Hi. unfold fb_setpv, ires_same_or_panic. destruct (setpv_ext pre R x i s Hi) as [H|H]; rewrite H; auto.
Qed.

Lemma fb_endOfHdr_nomore h pre R i0 i ret e s : e <> EMore ->
  match fb_endOfHdr h pre R i0 i ret e s with Next _ _ => False | Ret _ EMore _ => False | _ => True end.
Proof.
  intros He. unfold fb_endOfHdr. destruct (fb_close _ _ _ _ _) as [[s1|]|]; auto.
  - destruct e; auto; congruence.
  - destruct (fb_state s); exact I.
Qed.

Lemma fb_endOfHdr_nomore' h pre R i0 i ret e s : e <> EMore ->
  match fb_endOfHdr h pre R i0 i ret e s with Ret _ EMore _ => False | _ => True end.
Proof. intros He. pose proof (fb_endOfHdr_nomore h pre R i0 i ret e s He) as H. destruct (fb_endOfHdr _ _ _ _ _ _ _ _) as [? ?|? [] ?|]; auto. Qed.

Lemma clause_sop {St} (iter : list byte -> list byte -> N -> St -> ires St) pre rest x j (r r' : ires St) :
  ires_same_or_panic r r' -> match r with Ret _ EMore _ => False | _ => True end -> clause iter pre rest x j r r'.
Proof. intros [->| ->] H; [exact I|]. apply clause_same. exact H. Qed.

Section NA.
  Variable h : N.
  Notation it := (fb_iter h).

  (* ---- white space handled by "close then skip" ------------------------------------------- *)
  Definition fb_closed (s : pfrom) : Prop :=
    match fb_state s with
    | FbInit | FbName | FbNameOrURIEnd | FbQuoted | FbQuotedVal | FbQuotedPossibleVal | FbURIFound | FbStar => True
    | _ => False
    end.
  Definition fb_eoh (pre R : list byte) (i n : N) (crl : nat) (s : pfrom) : ires pfrom :=
    fb_endOfHdr h pre R i i (n + nnat crl) EOk s.

  Lemma fb_lws_is_lws pre R i s : fb_lws h pre R i s = ExtLeaf.lws fb_eoh pre R i s.
  Proof.
    unfold fb_lws, ExtLeaf.lws, fb_eoh. destruct (skipLWS false R); try reflexivity.
  Qed.

  Lemma fb_iter_ws pre c r i s : fb_closed s -> is_ws c = true -> it pre (c :: r) i s = ExtLeaf.lws fb_eoh pre (c :: r) i s.
  Proof.
    intros Hc Hws. rewrite <- fb_lws_is_lws. unfold fb_iter, fb_closed in *.
    assert (Hk : ccls_of c = KWs) by (unfold ccls_of; now rewrite Hws).
    destruct (fb_state s) eqn:Est; try contradiction; unfold fb_step; rewrite Hk; reflexivity.
  Qed.
  Lemma fb_iter_nil pre i s : fb_closed s -> it pre [] i s = Ret i EMore s.
  Proof. intros Hc. unfold fb_iter, fb_closed in *. destruct (fb_state s); try contradiction; reflexivity. Qed.
  Lemma fb_eoh_adv pre B i k n crl s : fb_closed s -> (k <= length B)%nat -> i = nnat (length pre) ->
    fb_eoh (zpre k pre B) (zrest k B) (i + nnat k) n crl s = fb_eoh pre B i n crl s.
  Proof.
    intros Hc _ _. unfold fb_eoh, fb_endOfHdr, fb_close, fb_closed in *.
    destruct (fb_state s); try contradiction; reflexivity.
  Qed.
  Lemma fb_eoh_final pre R i n crl s : match fb_eoh pre R i n crl s with Next _ _ => False | _ => True end.
  Proof.
    unfold fb_eoh. pose proof (fb_endOfHdr_nomore h pre R i i (n + nnat crl) EOk s ltac:(discriminate)) as H.
    destruct (fb_endOfHdr _ _ _ _ _ _ _ _); auto.
  Qed.

  (* white space met in state t, s1 = the (closed) state after closing the token *)
  Lemma fb_ws_case pre c r x j t s1 : j = nnat (length pre) -> is_ws c = true -> fb_closed s1 ->
    (forall R, it pre (c :: R) j t = fb_lws h pre (c :: R) j s1) ->
    clause it pre (c :: r) x j (it pre (c :: r) j t) (it pre ((c :: r) ++ x) j t).
  Proof.
    intros Hj Hws Hcl Hit. cbn [app]. rewrite (Hit r), (Hit (r ++ x)). unfold fb_lws.
    pose proof (skipLWS_ext (c :: r) x) as He. cbn [app] in He.
    destruct (skipLWS false (c :: r)) as [n|n crl|n] eqn:El.
    - rewrite He. apply clause_same. exact I.
    - rewrite He. apply clause_sop.
      + apply (fb_endOfHdr_ext h pre (c :: r) x j j _ EOk s1 Hj).
      + apply fb_endOfHdr_nomore'. discriminate.
    - destruct He as [Hn He]. unfold clause. exists n. split; [exact Hn|]. split; [reflexivity|].
      change (match skipLWS false (c :: r ++ x) with
              | LOk k => Next k s1
              | LEOH k crl => fb_endOfHdr h pre (c :: r ++ x) j j (j + nnat k + nnat crl) EOk s1
              | LMore k => Ret (j + nnat k) EMore s1 end) with (fb_lws h pre ((c :: r) ++ x) j s1).
      rewrite (fb_lws_is_lws pre).
      apply (lws_more_resume it fb_eoh fb_closed fb_iter_ws fb_iter_nil fb_eoh_adv fb_eoh_final
               pre c r x j n s1 Hcl Hws Hj El).
  Qed.

  Definition st_quoted (st : fbst) : bool :=
    match st with FbQuoted | FbQuotedVal | FbQuotedPossibleVal => true | _ => false end.

  Ltac sop Hi :=
    first [ right; reflexivity
          | match goal with |- ires_same_or_panic (fb_moreValues ?hh ?pp ?RR ?ii ?ss) (fb_moreValues _ _ (_ :: ?R2 ++ ?xx) _ _) =>
              exact (fb_moreValues_ext hh pp RR xx ii ss Hi) end
          | match goal with |- ires_same_or_panic (fb_setpv ?pp ?RR ?ii ?ss) (fb_setpv _ (_ :: ?R2 ++ ?xx) _ _) =>
              exact (fb_setpv_ext pp RR xx ii ss Hi) end ].

  (* a byte that is not white space: the step looks at that byte, at absolute slices of what
     was already read, and (backslash inside quotes) at the next byte *)
  Lemma fb_nonws_ext pre c R x i s st k : i = nnat (length pre) -> k <> KWs ->
    (st_quoted st = true -> k = KBsl -> R <> []) ->
    ires_same_or_panic (fb_step h pre (c :: R) R i s st k) (fb_step h pre (c :: R ++ x) (R ++ x) i s st k).
  Proof.
    intros Hi Hk Hq. unfold fb_step, fb_gA, fb_gQ, fb_gURI, fb_gURIFound, fb_gP, fb_gPE, fb_gV, fb_gVE, fb_gStar,
      fb_comma, fb_comma_strict.
    destruct st; destruct k; try congruence; cbn [st_poss is_st_init is_st_nameoruri is_st_nameoruriend is_st_name is_st_new];
      try destruct (multipleValsOk h); try (sop Hi).
    all: try (destruct R as [|d R']; [exfalso; apply Hq; reflexivity|right; reflexivity]).
  Qed.

  Lemma fb_nonws_nomore pre c R i s st k : k <> KWs -> (st_quoted st = true -> k = KBsl -> R <> []) ->
    match fb_step h pre (c :: R) R i s st k with Ret _ EMore _ => False | _ => True end.
  Proof.
    intros Hk Hq. unfold fb_step, fb_gA, fb_gQ, fb_gURI, fb_gURIFound, fb_gP, fb_gPE, fb_gV, fb_gVE, fb_gStar,
      fb_comma, fb_comma_strict, fb_bad, fb_setpv, fb_moreValues.
    destruct st; destruct k; try congruence; cbn [st_poss is_st_init is_st_nameoruri is_st_nameoruriend is_st_name is_st_new];
      try destruct (multipleValsOk h);
      try (apply fb_endOfHdr_nomore'; discriminate);
      repeat match goal with
             | |- context [match ?o with Some _ => _ | None => _ end] => destruct o
             | |- context [if ?b then _ else _] => destruct b
             end; try exact I.
    all: try (destruct R as [|d R']; [exfalso; apply Hq; reflexivity|]; destruct (is_crlf d); exact I).
  Qed.

  (* white space in a parameter state: suspension BEFORE the white space *)
  Lemma fb_lws_b_clause pre c R x i s upd : i = nnat (length pre) ->
    it pre ((c :: R) ++ x) i s = fb_lws_b h pre ((c :: R) ++ x) i s upd ->
    clause it pre (c :: R) x i (fb_lws_b h pre (c :: R) i s upd) (fb_lws_b h pre ((c :: R) ++ x) i s upd).
  Proof.
    intros Hi Hit. unfold fb_lws_b in *.
    pose proof (skipLWS_ext (c :: R) x) as He.
    destruct (skipLWS false (c :: R)) as [n|n crl|n] eqn:El.
    - rewrite He. apply clause_same. exact I.
    - rewrite He. apply clause_sop.
      + apply (fb_endOfHdr_ext h pre (c :: R) x i i _ EOk _ Hi).
      + apply fb_endOfHdr_nomore'. discriminate.
    - rewrite <- Hit. apply clause_here.
  Qed.

  Lemma fb_iter_cons pre c R i s : fb_state s <> FbFIN ->
    it pre (c :: R) i s = fb_step h pre (c :: R) R i s (fb_state s) (ccls_of c).
  Proof. intros H. unfold fb_iter. destruct (fb_state s); congruence || reflexivity. Qed.

  (* white space in state t where the step is fb_lws_b ... upd *)
  Lemma fb_ws_b_case pre c R x i s upd : i = nnat (length pre) ->
    (forall R0, it pre (c :: R0) i s = fb_lws_b h pre (c :: R0) i s upd) ->
    clause it pre (c :: R) x i (it pre (c :: R) i s) (it pre ((c :: R) ++ x) i s).
  Proof.
    intros Hi Hit. rewrite (Hit R). cbn [app]. rewrite (Hit (R ++ x)).
    apply (fb_lws_b_clause pre c R x i s upd Hi). cbn [app]. apply Hit.
  Qed.

  Lemma fb_clause_ws pre c R x i s : i = nnat (length pre) -> fb_state s <> FbFIN -> is_ws c = true ->
    clause it pre (c :: R) x i (it pre (c :: R) i s) (it pre ((c :: R) ++ x) i s).
  Proof.
    intros Hi Hfin Hws.
    assert (Hk : ccls_of c = KWs) by (unfold ccls_of; now rewrite Hws).
    assert (Hstep : forall R0, it pre (c :: R0) i s = fb_step h pre (c :: R0) R0 i s (fb_state s) KWs).
    { intros R0. rewrite fb_iter_cons by exact Hfin. now rewrite Hk. }
    destruct (fb_state s) eqn:Est; try congruence.
    (* closed states *)
    all: try (apply (fb_ws_case pre c R x i s s Hi Hws); [unfold fb_closed; rewrite Est; exact I|];
              intros R0; rewrite Hstep; reflexivity).
    (* bad character in that state *)
    all: try (cbn [app]; rewrite (Hstep R), (Hstep (R ++ x)); apply clause_same; exact I).
    (* parameter states: suspension before the white space *)
    all: try (eapply (fb_ws_b_case pre c R x i s _ Hi); intros R0; rewrite Hstep; reflexivity).
    (* NameOrURI: the URI / value is closed first *)
    - destruct (pf_set (fb_soffs s) i) as [u|] eqn:Eu;
        [|cbn [app]; rewrite (Hstep R); unfold fb_step, fb_gA; cbn; rewrite Eu; exact I].
      destruct (pf_extend (fb_v s) i) as [v|] eqn:Ev;
        [|cbn [app]; rewrite (Hstep R); unfold fb_step, fb_gA; cbn; rewrite Eu, Ev; exact I].
      apply (fb_ws_case pre c R x i s (s <| fb_uri := u |> <| fb_v := v |> <| fb_state := FbNameOrURIEnd |>) Hi Hws).
      + unfold fb_closed. destruct s; exact I.
      + intros R0. rewrite Hstep. unfold fb_step, fb_gA. cbn. now rewrite Eu, Ev.
  Qed.

  Lemma fb_clause_nonws pre c R x i s : i = nnat (length pre) -> fb_state s <> FbFIN -> is_ws c = false ->
    clause it pre (c :: R) x i (it pre (c :: R) i s) (it pre ((c :: R) ++ x) i s).
  Proof.
    intros Hi Hfin Hws. cbn [app]. rewrite !fb_iter_cons by exact Hfin.
    assert (Hk : ccls_of c <> KWs) by (unfold ccls_of; rewrite Hws; repeat destruct (_ =? _); discriminate).
    destruct R as [|d R'].
    2:{ apply clause_sop; [apply fb_nonws_ext; [exact Hi|exact Hk|intros; discriminate]
                          |apply fb_nonws_nomore; [exact Hk|intros; discriminate]]. }
    destruct (st_quoted (fb_state s)) eqn:Eq.
    2:{ apply clause_sop; [apply fb_nonws_ext; [exact Hi|exact Hk|intros; congruence]
                          |apply fb_nonws_nomore; [exact Hk|intros; congruence]]. }
    destruct (ccls_of c) eqn:Ek;
      try (apply clause_sop; [apply fb_nonws_ext; [exact Hi|congruence|intros; congruence]
                             |apply fb_nonws_nomore; [congruence|intros; congruence]]).
    (* the backslash is the last byte: suspension right here *)
    assert (E1 : fb_step h pre [c] [] i s (fb_state s) KBsl = Ret i EMore s).
    { unfold fb_step, fb_gQ. destruct (fb_state s); try discriminate; reflexivity. }
    replace (fb_step h pre (c :: [] ++ x) ([] ++ x) i s (fb_state s) KBsl) with (it pre ([c] ++ x) i s)
      by (cbn [app]; rewrite fb_iter_cons by exact Hfin; rewrite Ek; reflexivity).
    rewrite E1. apply (clause_here it pre [c] x i s).
  Qed.

  Lemma fb_clause pre rest x i s : i = nnat (length pre) ->
    clause it pre rest x i (it pre rest i s) (it pre (rest ++ x) i s).
  Proof.
    intros Hi.
    destruct (fb_state s) eqn:Est.
    23:{ unfold fb_iter at 2 3. rewrite Est. apply clause_same. exact I. }
    all: destruct rest as [|c R];
      [replace (it pre [] i s) with (Ret i EMore s : ires pfrom) by (unfold fb_iter; now rewrite Est); apply clause_here|].
    all: destruct (is_ws c) eqn:Hws; [apply fb_clause_ws|apply fb_clause_nonws]; auto; congruence.
  Qed.

  Theorem nameaddr_IterExt : IterExt it.
  Proof. apply clause_IterExt. intros pre rest x j t Hj. apply fb_clause. exact Hj. Qed.
End NA.

Theorem nameaddr_ExtOK h : ExtOK (parse_nameaddr h) obs_pfrom (fun _ _ => True).
Proof. exact (parse_ExtOK (fb_iter h) obs_pfrom (nameaddr_IterExt h)). Qed.
