(* C17, converse side, every input and flag set: whatever ParseTokenParam reports consists of the documented characters - every byte of the
   name, and of a value that does not start with a double quote, is an allowed name/value character and not white space; a byte outside the
   set is never absorbed into a reported name or token value. *)
From Sipsp Require Import Driver Harness RunLemmas SafeMore Ext ExtLeaf ZSlice HdrSpec UIntSpec FLineSpec TokSpec FLineConv TrimSpec TokItem NameAddrNest NameAddrTrim.
From Coq Require Import ZifyN ZifyNat ZifyBool.
From RecordUpdate Require Import RecordUpdate.

Section Conv.
  Variable flags : N.
  Let f := tp_decode flags.
  Notation it := (tp_iter flags).
  Definition good (c : byte) : Prop := tok_allowed (tf_uriparam (tp_decode flags)) c = true /\ is_ws c = false.
  Definition AL (pre : list byte) (a b : N) : Prop := forall j, a <= j -> j < b -> exists c, bpre pre j = Some c /\ good c.
  Definition bq (pre : list byte) (j : N) : Prop := bpre pre j = Some 34.
  Lemma bpre_zpre' k pre rest j c : bpre pre j = Some c -> bpre (zpre k pre rest) j = Some c.
  Proof.
    intros H. unfold bpre in *. unfold zpre. rewrite rev_app_distr, rev_involutive. rewrite nth_error_app1; [exact H|]. apply nth_error_Some. congruence.
  Qed.
  Lemma AL_zpre k pre rest a b : AL pre a b -> AL (zpre k pre rest) a b.
  Proof. intros H j H1 H2. destruct (H j H1 H2) as (c & Hc & Hg). exists c. split; [apply bpre_zpre'; exact Hc|exact Hg]. Qed.
  Lemma bq_zpre k pre rest j : bq pre j -> bq (zpre k pre rest) j.
  Proof. apply bpre_zpre'. Qed.
  Lemma AL_nil pre a b : b <= a -> AL pre a b.
  Proof. intros H j H1 H2. lia. Qed.
  Lemma AL_snoc pre c a i : i = nnat (length pre) -> AL pre a i -> good c -> AL (c :: pre) a (i + 1).
  Proof.
    intros Hi H Hg j H1 H2. destruct (N.eq_dec j i) as [->|Hne].
    - exists c. split; [rewrite Hi; apply bpre_last|exact Hg].
    - destruct (H j H1 ltac:(lia)) as (c' & Hc & Hg'). exists c'. split; [|exact Hg']. exact (bpre_zpre' 1 pre [c] j c' Hc).
  Qed.

  (* the fields as they would be reported if the item were closed at i *)
  Definition cname (s : tokparam) (i : N) : pf := match tp_state s with PName => ext (tp_name s) i | _ => tp_name s end.
  Definition cval (s : tokparam) (i : N) : pf := match tp_state s with PVal => ext (tp_val s) i | _ => tp_val s end.
  Definition NOKb (pre : list byte) (nm : pf) : Prop := AL pre (po nm) (pf_end nm).
  Definition VOKb (pre : list byte) (vl : pf) : Prop := pl vl = 0 \/ bq pre (po vl) \/ AL pre (po vl) (pf_end vl).
  Definition TC (pre : list byte) (i : N) (s : tokparam) : Prop :=
    NOKb pre (cname s i) /\ VOKb pre (cval s i) /\ (tp_state s = PQuotedVal -> bq pre (po (tp_val s))) /\
    (tp_state s = PName -> po (tp_name s) <= i) /\ (tp_state s = PVal -> po (tp_val s) <= i).
  Definition FINok (pre : list byte) (s : tokparam) : Prop := NOKb pre (tp_name s) /\ VOKb pre (tp_val s).
  Definition accepted (e : err) : Prop := e = EOk \/ e = EMoreValues \/ e = EEOH.
  Definition tc_res (pre rest : list byte) (i : N) (r : ires tokparam) : Prop :=
    match r with
    | Next k s' => (k <= length rest)%nat -> TC (zpre k pre rest) (i + nnat k) s'
    | Ret o e s' => (e = EMore -> exists k, (k <= length rest)%nat /\ o = i + nnat k /\ TC (zpre k pre rest) o s') /\ (accepted e -> FINok pre s')
    | IPanic => True
    end.
  Lemma NOKb_zpre k pre rest nm : NOKb pre nm -> NOKb (zpre k pre rest) nm. Proof. apply AL_zpre. Qed.
  Lemma VOKb_zpre k pre rest vl : VOKb pre vl -> VOKb (zpre k pre rest) vl.
  Proof. intros [H|[H|H]]; [left; exact H|right; left; apply bq_zpre; exact H|right; right; apply AL_zpre; exact H]. Qed.
  Lemma TC_pfrom0 pre i : TC pre i tokparam0.
  Proof. unfold TC, NOKb, VOKb, cname, cval, tokparam0. cbn. split; [apply AL_nil; cbn; lia|]. split; [left; reflexivity|]. repeat split; discriminate. Qed.

  Definition open_st (st : tpst) : bool := match st with PName | PVal | PQuotedVal => true | _ => false end.
  (* a state whose name and value are the closed ones of s at i: fine at any later zipper *)
  Lemma TC_closed pre rest i s s' k j : TC pre i s -> tp_name s' = cname s i -> (tp_val s' = cval s i \/ pl (tp_val s') = 0) ->
    open_st (tp_state s') = false -> TC (zpre k pre rest) j s'.
  Proof.
    intros (H1 & H2 & _) En Ev Ho. unfold TC, cname, cval.
    destruct (tp_state s') eqn:Est; try discriminate; rewrite En; (split; [apply NOKb_zpre; exact H1|]);
      (split; [destruct Ev as [-> |Ev]; [apply VOKb_zpre; exact H2|left; exact Ev]|]); repeat split; intros E; discriminate.
  Qed.
  Lemma FIN_closed pre i s s' : TC pre i s -> tp_name s' = cname s i -> (tp_val s' = cval s i \/ pl (tp_val s') = 0) -> FINok pre s'.
  Proof. intros (H1 & H2 & _) En Ev. unfold FINok. rewrite En. split; [exact H1|]. destruct Ev as [-> |Ev]; [exact H2|left; exact Ev]. Qed.
  Lemma pf_end_ext p e : po p <= e -> pf_end (ext p e) = e.
  Proof. intros H. unfold pf_end, ext. cbn. lia. Qed.
  (* one more byte of the name / of the value *)
  Lemma TC_name_more pre c i s : i = nnat (length pre) -> TC pre i s -> tp_state s = PName -> good c -> TC (c :: pre) (i + 1) s.
  Proof.
    intros Hi (H1 & H2 & H3 & H4 & H5) Est Hg. specialize (H4 Est). unfold TC, cname, cval in *. rewrite Est in *.
    split; [unfold NOKb in *; cbn [ext po] in *; rewrite pf_end_ext in * by (cbn; lia); apply AL_snoc; assumption|].
    split; [exact (VOKb_zpre 1 pre [c] _ H2)|]. split; [intros E; discriminate|]. split; [intros _; lia|intros E; discriminate].
  Qed.
  Lemma TC_val_more pre c i s : i = nnat (length pre) -> TC pre i s -> tp_state s = PVal -> good c -> TC (c :: pre) (i + 1) s.
  Proof.
    intros Hi (H1 & H2 & H3 & H4 & H5) Est Hg. specialize (H5 Est). unfold TC, cname, cval in *. rewrite Est in *.
    split; [exact (NOKb_zpre 1 pre [c] _ H1)|].
    split.
    2:{ split; [intros E; discriminate|]. split; [intros E; discriminate|intros _; lia]. }
    unfold VOKb in *. cbn [ext po pl] in *. rewrite pf_end_ext in * by (cbn; lia). cbn [po] in *.
    destruct H2 as [H2|[H2|H2]].
    - right; right. intros j Ha Hb. assert (j = i) by lia. subst j. exists c. split; [rewrite Hi; apply bpre_last|exact Hg].
    - right; left. exact (bq_zpre 1 pre [c] _ H2).
    - right; right. apply AL_snoc; assumption.
  Qed.

  Lemma zpre0 pre rest : zpre 0 pre rest = pre. Proof. reflexivity. Qed.
  Lemma eoh_tc pre rest i ret s1 : FINok pre s1 -> tc_res pre rest i (tp_endOfHdr ret s1).
  Proof.
    intros HF. unfold tp_endOfHdr. destruct (tp_state s1); cbn [tc_res]; (split; [intros E; discriminate|intros _; exact HF]).
  Qed.
  Lemma more_tc pre rest i bend s : TC pre i s -> tc_res pre rest i (tp_moreBytes f i bend s).
  Proof.
    intros HT. unfold tp_moreBytes.
    assert (Hmore : tc_res pre rest i (Ret i EMore s)).
    { cbn [tc_res]. split; [intros _; exists 0%nat; split; [lia|]; split; [unfold nnat; lia|rewrite zpre0; exact HT]|].
      intros [E|[E|E]]; discriminate. }
    destruct (tf_ie f); [|exact Hmore].
    destruct (tp_state s) eqn:Est; try exact Hmore;
      try (apply eoh_tc; apply (FIN_closed pre i s); [exact HT|unfold cname; rewrite Est; reflexivity|left; unfold cval; rewrite Est; reflexivity]);
      try (cbn [tc_res]; split; [intros E; discriminate|intros [E|[E|E]]; discriminate]).
    - destruct HT as (H1 & H2 & H3 & H4 & H5). specialize (H4 Est). rewrite (pf_extend_ok _ _ H4).
      destruct (pf_extend (tp_all s) i); [|exact I]. apply eoh_tc. unfold FINok. cbn.
      unfold cname, cval in *. rewrite Est in *. split; assumption.
    - destruct HT as (H1 & H2 & H3 & H4 & H5). specialize (H5 Est). rewrite (pf_extend_ok _ _ H5).
      destruct (pf_extend (tp_all s) i); [|exact I]. apply eoh_tc. unfold FINok. cbn.
      unfold cname, cval in *. rewrite Est in *. split; assumption.
  Qed.
  Lemma ws_tc pre rest i s upd : TC pre i s ->
    (forall s1, upd = Some s1 -> tp_name s1 = cname s i /\ tp_val s1 = cval s i /\ open_st (tp_state s1) = false) ->
    tc_res pre rest i (tp_ws f rest i s upd).
  Proof.
    intros HT Hu. unfold tp_ws. destruct (skipLWS (tf_ie f) rest) as [k|k crl|k].
    - destruct upd as [s1|]; [|exact I]. destruct (Hu s1 eq_refl) as (A & B & C). cbn [tc_res]. intros Hk.
      apply (TC_closed pre rest i s); auto.
    - destruct upd as [s1|]; [|exact I]. destruct (Hu s1 eq_refl) as (A & B & C). apply eoh_tc.
      apply (FIN_closed pre i s); auto.
    - apply more_tc; exact HT.
  Qed.

  Lemma TC_closed' pre rest s' k j : NOKb pre (tp_name s') -> VOKb pre (tp_val s') -> open_st (tp_state s') = false -> TC (zpre k pre rest) j s'.
  Proof.
    intros H1 H2 Ho. unfold TC, cname, cval.
    destruct (tp_state s') eqn:Est; try discriminate; (split; [apply NOKb_zpre; exact H1|]);
      (split; [apply VOKb_zpre; exact H2|]); repeat split; intros E; discriminate.
  Qed.
  Lemma ext2_inv a b e1 e2 x y : ext2 a b e1 e2 = Some (x, y) -> x = ext a e1 /\ po a <= e1.
  Proof.
    unfold ext2. destruct (pf_extend a e1) as [x'|] eqn:E1; [|discriminate]. destruct (pf_extend b e2); [|discriminate].
    intros H. injection H as <- <-. apply pf_extend_inv in E1. destruct E1 as [-> Hle]. split; [reflexivity|exact Hle].
  Qed.
  Lemma bad_tc pre rest i s : tc_res pre rest i (tp_bad i s).
  Proof. unfold tp_bad. cbn [tc_res]. split; [intros E; discriminate|intros [E|[E|E]]; discriminate]. Qed.
  Lemma good_of c : negb (tok_allowed (tf_uriparam f) c) = false -> is_ws c = false -> good c.
  Proof. intros A B. split; [unfold f in A; destruct (tok_allowed _ c); [reflexivity|discriminate]|exact B]. Qed.
  Lemma spterm_tc pre rest i s : FINok pre s -> tc_res pre rest i (tp_spterm_ret pre i s).
  Proof.
    intros HF. unfold tp_spterm_ret. destruct (zprev pre) as [p|]; [destruct (is_ws p)|]; cbn [tc_res];
      (split; [intros E; discriminate|intros _; exact HF]).
  Qed.
  Lemma TC_fin pre i s : TC pre i s -> open_st (tp_state s) = false -> FINok pre s.
  Proof. intros (H1 & H2 & _) Ho. unfold FINok, cname, cval in *. destruct (tp_state s); try discriminate; split; assumption. Qed.

  Section Step.
    Variables (pre r : list byte) (c : byte) (i : N) (s : tokparam).
    Hypothesis Hi : i = nnat (length pre).
    Hypothesis HT : TC pre i s.
    Let rest := c :: r.
    Ltac acc_no := let E := fresh in intros [E|[E|E]]; discriminate.
    Ltac closed_same Est := unfold cname, cval; rewrite Est; auto.
    Lemma sInit_tc st : tp_state s = st -> is_tp_fnxt st = true \/ st = PInit \/ st = PInitNxtVal -> tc_res pre rest i (tp_sInit f rest i s c st).
    Proof.
      intros Est Hst. assert (Ho : open_st (tp_state s) = false) by (rewrite Est; destruct Hst as [H|[->| ->]]; [destruct st; try discriminate|..]; reflexivity).
      pose proof (TC_fin pre i s HT Ho) as [F1 F2].
      unfold tp_sInit. destruct (is_ws c) eqn:Ews.
      { apply ws_tc; [exact HT|]. intros s1 E. injection E as <-. unfold cname, cval. destruct (tp_state s); try discriminate; auto. }
      destruct (c =? tf_sep f). { cbn [tc_res]. intros _. apply TC_closed'; assumption. }
      destruct (negb _) eqn:Eal; [apply bad_tc|].
      destruct (is_tp_fnxt st). { cbn [tc_res]. split; [intros E; discriminate|intros _; exact (conj F1 F2)]. }
      unfold pf_set. replace (i <? i) with false by lia. cbn [tc_res]. intros _. change (zpre 1 pre rest) with (c :: pre).
      replace (i + nnat 1) with (i + 1) by (unfold nnat; lia).
      unfold TC, cname, cval. cbn. split; [unfold NOKb, pf_end; cbn; replace (i + (i + 1 - i)) with (i + 1) by lia; apply AL_snoc; [exact Hi|apply AL_nil; lia|apply good_of; assumption]|].
      split; [exact (VOKb_zpre 1 pre [c] _ F2)|]. split; [intros E; discriminate|]. split; [intros _; lia|intros E; discriminate].
    Qed.
    Lemma NOKb_cname : tp_state s = PName -> NOKb pre (ext (tp_name s) i).
    Proof. intros Est. destruct HT as (H1 & _). unfold cname in H1. rewrite Est in H1. exact H1. Qed.
    Lemma VOKb_cval : tp_state s = PVal -> VOKb pre (ext (tp_val s) i).
    Proof. intros Est. destruct HT as (_ & H2 & _). unfold cval in H2. rewrite Est in H2. exact H2. Qed.
    Lemma NOKb_same : tp_state s <> PName -> NOKb pre (tp_name s).
    Proof. intros Est. destruct HT as (H1 & _). unfold cname in H1. destruct (tp_state s); try exact H1. congruence. Qed.
    Lemma VOKb_same : tp_state s <> PVal -> VOKb pre (tp_val s).
    Proof. intros Est. destruct HT as (_ & H2 & _). unfold cval in H2. destruct (tp_state s); try exact H2. congruence. Qed.

    Lemma sName_tc : tp_state s = PName -> tc_res pre rest i (tp_sName f rest i s c).
    Proof.
      intros Est. pose proof (NOKb_cname Est) as F1. assert (F2 : VOKb pre (tp_val s)) by (apply VOKb_same; congruence).
      unfold tp_sName. destruct (is_ws c) eqn:Ews.
      { apply ws_tc; [exact HT|]. intros s1 E. destruct (ext2 _ _ i i) as [[n a]|] eqn:E2; [|discriminate]. injection E as <-.
        apply ext2_inv in E2. destruct E2 as [-> _]. unfold cname, cval. rewrite Est. cbn. auto. }
      destruct (c =? 61).
      { destruct (ext2 _ _ i (i + 1)) as [[n a]|] eqn:E2; [|exact I]. apply ext2_inv in E2. destruct E2 as [-> _].
        cbn [tc_res]. intros _. apply TC_closed'; cbn; auto. }
      destruct (_ && _).
      { destruct (ext2 _ _ i i) as [[n a]|] eqn:E2; [|exact I]. apply ext2_inv in E2. destruct E2 as [-> _].
        cbn [tc_res]. split; [intros E; discriminate|intros _; split; cbn; assumption]. }
      destruct (c =? tf_sep f).
      { destruct (ext2 _ _ i i) as [[n a]|] eqn:E2; [|exact I]. apply ext2_inv in E2. destruct E2 as [-> _].
        cbn [tc_res]. intros _. apply TC_closed'; cbn; auto. }
      destruct (negb _) eqn:Eal; [apply bad_tc|].
      cbn [tc_res]. intros _. change (zpre 1 pre rest) with (c :: pre). replace (i + nnat 1) with (i + 1) by (unfold nnat; lia).
      apply TC_name_more; auto. apply good_of; assumption.
    Qed.
    Lemma sVal_tc : tp_state s = PVal -> tc_res pre rest i (tp_sVal f rest i s c).
    Proof.
      intros Est. pose proof (VOKb_cval Est) as F2. assert (F1 : NOKb pre (tp_name s)) by (apply NOKb_same; congruence).
      unfold tp_sVal. destruct (is_ws c) eqn:Ews.
      { apply ws_tc; [exact HT|]. intros s1 E. destruct (ext2 _ _ i i) as [[n a]|] eqn:E2; [|discriminate]. injection E as <-.
        apply ext2_inv in E2. destruct E2 as [-> _]. unfold cname, cval. rewrite Est. cbn. auto. }
      destruct (_ && _).
      { destruct (ext2 _ _ i i) as [[n a]|] eqn:E2; [|exact I]. apply ext2_inv in E2. destruct E2 as [-> _].
        cbn [tc_res]. split; [intros E; discriminate|intros _; split; cbn; assumption]. }
      destruct (c =? tf_sep f).
      { destruct (ext2 _ _ i i) as [[n a]|] eqn:E2; [|exact I]. apply ext2_inv in E2. destruct E2 as [-> _].
        cbn [tc_res]. intros _. apply TC_closed'; cbn; auto. }
      destruct (negb _) eqn:Eal; [apply bad_tc|].
      cbn [tc_res]. intros _. change (zpre 1 pre rest) with (c :: pre). replace (i + nnat 1) with (i + 1) by (unfold nnat; lia).
      apply TC_val_more; auto. apply good_of; assumption.
    Qed.
    (* the two states that wait for a separator after a complete name or value *)
    Lemma sFEq_tc : tp_state s = PFEq -> tc_res pre rest i (tp_sFEq f pre rest i s c).
    Proof.
      intros Est. assert (F1 : NOKb pre (tp_name s)) by (apply NOKb_same; congruence). assert (F2 : VOKb pre (tp_val s)) by (apply VOKb_same; congruence).
      unfold tp_sFEq. destruct (is_ws c) eqn:Ews.
      { apply ws_tc; [exact HT|]. intros s1 E. injection E as <-. unfold cname, cval. rewrite Est. auto. }
      destruct (c =? 61). { cbn [tc_res]. intros _. apply TC_closed'; cbn; auto. }
      destruct (_ && _). { cbn [tc_res]. split; [intros E; discriminate|intros _; split; cbn; assumption]. }
      destruct (c =? tf_sep f). { cbn [tc_res]. intros _. apply TC_closed'; cbn; auto. }
      destruct (negb _) eqn:Eal; [apply bad_tc|].
      destruct (tf_spterm f); [|apply bad_tc]. apply spterm_tc. split; cbn; assumption.
    Qed.
    Lemma sFSep_tc : tp_state s = PFSep -> tc_res pre rest i (tp_sFSep f pre rest i s c).
    Proof.
      intros Est. assert (F1 : NOKb pre (tp_name s)) by (apply NOKb_same; congruence). assert (F2 : VOKb pre (tp_val s)) by (apply VOKb_same; congruence).
      unfold tp_sFSep. destruct (is_ws c) eqn:Ews.
      { apply ws_tc; [exact HT|]. intros s1 E. injection E as <-. unfold cname, cval. rewrite Est. auto. }
      destruct (_ && _). { cbn [tc_res]. split; [intros E; discriminate|intros _; split; cbn; assumption]. }
      destruct (c =? tf_sep f). { cbn [tc_res]. intros _. apply TC_closed'; cbn; auto. }
      destruct (negb _) eqn:Eal; [apply bad_tc|].
      destruct (tf_spterm f); [|apply bad_tc]. apply spterm_tc. split; cbn; assumption.
    Qed.
    Lemma VOKb_empty p a : VOKb p (mkpf a 0). Proof. left. reflexivity. Qed.
    Lemma sFVal_tc : tp_state s = PFVal -> tc_res pre rest i (tp_sFVal f rest i s c).
    Proof.
      intros Est. assert (F1 : NOKb pre (tp_name s)) by (apply NOKb_same; congruence).
      unfold tp_sFVal. destruct (is_ws c) eqn:Ews.
      { apply ws_tc; [exact HT|]. intros s1 E. injection E as <-. unfold cname, cval. rewrite Est. auto. }
      unfold pf_set. replace (i <? i) with false by lia. replace (i - i) with 0 by lia.
      destruct (c =? 34) eqn:Eq.
      { destruct (pf_extend (tp_all s) i); [|exact I]. cbn [tc_res]. intros _. change (zpre 1 pre rest) with (c :: pre).
        unfold TC, cname, cval. cbn. split; [exact (NOKb_zpre 1 pre [c] _ F1)|]. split; [apply VOKb_empty|].
        split; [intros _; unfold bq; rewrite Hi; replace c with (34 : byte) by lia; apply bpre_last|]. split; intros E; discriminate. }
      destruct (_ && _). { cbn [tc_res]. split; [intros E; discriminate|intros _; split; cbn; [assumption|apply VOKb_empty]]. }
      destruct (c =? tf_sep f). { destruct (pf_extend (tp_all s) i); [|exact I]. cbn [tc_res]. intros _. apply TC_closed'; cbn; auto. apply VOKb_empty. }
      destruct (negb _) eqn:Eal; [apply bad_tc|].
      destruct (pf_extend (tp_all s) i); [|exact I]. cbn [tc_res]. intros _. change (zpre 1 pre rest) with (c :: pre).
      replace (i + nnat 1) with (i + 1) by (unfold nnat; lia).
      unfold TC, cname, cval. cbn. split; [exact (NOKb_zpre 1 pre [c] _ F1)|].
      split; [right; right; unfold pf_end; cbn; replace (i + (i + 1 - i)) with (i + 1) by lia; apply AL_snoc; [exact Hi|apply AL_nil; lia|apply good_of; assumption]|].
      split; [intros E; discriminate|]. split; [intros E; discriminate|intros _; lia].
    Qed.
    Lemma sQuoted_tc : tp_state s = PQuotedVal -> tc_res pre rest i (tp_sQuoted f pre rest i s).
    Proof.
      intros Est. assert (F1 : NOKb pre (tp_name s)) by (apply NOKb_same; congruence). assert (F2 : VOKb pre (tp_val s)) by (apply VOKb_same; congruence).
      assert (F3 : bq pre (po (tp_val s))) by (destruct HT as (_ & _ & H3 & _); auto).
      unfold tp_sQuoted. pose proof (sq_run_safe pre rest i Hi) as Hq.
      destruct (run sq_iter pre rest i 0 tt) as [o e u| |]; [|exact I|exact I]. destruct Hq as (Q1 & Q2 & Q3).
      assert (HTk : forall k, TC (zpre k pre rest) (i + nnat k) s).
      { intros k. unfold TC, cname, cval. rewrite Est. split; [apply NOKb_zpre; exact F1|]. split; [apply VOKb_zpre; exact F2|].
        split; [intros _; apply bq_zpre; exact F3|]. split; intros E; discriminate. }
      assert (Hret : forall e', e' <> EOk -> e' <> EMoreValues -> e' <> EEOH -> tc_res pre rest i (Ret o e' s)).
      { intros e' N1 N2 N3. cbn [tc_res]. split; [|intros [E|[E|E]]; congruence]. intros _. exists (N.to_nat (o - i)).
        split; [unfold nnat in *; lia|]. split; [unfold nnat; lia|]. replace o with (i + nnat (N.to_nat (o - i))) at 2 by (unfold nnat; lia). apply HTk. }
      destruct e; try (apply Hret; discriminate).
      - destruct (ext2 _ _ o o) as [[v a]|] eqn:E2; [|exact I]. apply ext2_inv in E2. destruct E2 as [-> _].
        cbn [tc_res]. intros _. apply TC_closed'; cbn; auto. right; left. exact F3.
      - cbn [tc_res]. split; [intros E; discriminate|]. intros _. split; assumption.
      - (* more bytes: the quoted state keeps its fields *)
        unfold tp_moreBytes. rewrite Est. destruct (tf_ie f); apply Hret; discriminate.
      - cbn [tc_res]. split; [intros E; discriminate|]. intros _. split; assumption.
    Qed.
  End Step.

  Lemma iter_tc pre rest i s : i = nnat (length pre) -> TC pre i s -> tc_res pre rest i (tp_iter flags pre rest i s).
  Proof.
    intros Hi HT. unfold tp_iter. fold f.
    destruct (tp_state s) eqn:Est.
    11:{ cbn [tc_res]. split; [intros E; discriminate|intros _; apply (TC_fin pre i s HT); rewrite Est; reflexivity]. }
    all: destruct rest as [|c r]; [apply more_tc; exact HT|]; unfold tp_step.
    - apply sInit_tc; auto.
    - apply sName_tc; auto.
    - apply sFEq_tc; auto.
    - apply sFVal_tc; auto.
    - apply sVal_tc; auto.
    - apply sFSep_tc; auto.
    - apply sInit_tc; auto.
    - apply sInit_tc; auto.
    - apply sQuoted_tc; auto.
    - cbn [tc_res]. intros _. pose proof (TC_fin pre i s HT ltac:(rewrite Est; reflexivity)) as [F1 F2]. apply TC_closed'; auto. rewrite Est. reflexivity.
  Qed.

  (* the same in terms of the caller's buffer *)
  Definition goodrange (buf : list byte) (p : pf) : Prop :=
    forall j, po p <= j -> j < pf_end p -> exists c, nth_error buf (N.to_nat j) = Some c /\ good c.
  Definition reported_ok (buf : list byte) (s : tokparam) : Prop :=
    goodrange buf (tp_name s) /\ (pl (tp_val s) = 0 \/ nth_error buf (N.to_nat (po (tp_val s))) = Some 34 \/ goodrange buf (tp_val s)).
  Lemma bpre_app pre rest j c : bpre pre j = Some c -> nth_error (rev pre ++ rest) (N.to_nat j) = Some c.
  Proof. intros H. unfold bpre in H. rewrite nth_error_app1; [exact H|]. apply nth_error_Some. congruence. Qed.
  Lemma FINok_buf pre rest s : FINok pre s -> reported_ok (rev pre ++ rest) s.
  Proof.
    intros [H1 H2]. split.
    - intros j A B. destruct (H1 j A B) as (c & Hc & Hg). exists c. split; [apply bpre_app; exact Hc|exact Hg].
    - destruct H2 as [H2|[H2|H2]]; [left; exact H2|right; left; apply bpre_app; exact H2|right; right].
      intros j A B. destruct (H2 j A B) as (c & Hc & Hg). exists c. split; [apply bpre_app; exact Hc|exact Hg].
  Qed.

  Theorem tokparam_call_conv buf offs s o e s' : offs <= nnat (length buf) -> TC (rev (firstn (N.to_nat offs) buf)) offs s ->
    parse_tokparam flags buf offs s = Done o e s' ->
    (e = EMore -> TC (rev (firstn (N.to_nat o) buf)) o s') /\ (accepted e -> reported_ok buf s').
  Proof.
    intros Hoffs HT H. unfold parse_tokparam, parse, zinit in H.
    pose proof (run_invQ (tp_iter flags) TC (fun pre rest i o e s' => i = nnat (length pre) /\
                  (e = EMore -> exists k, (k <= length rest)%nat /\ o = i + nnat k /\ TC (zpre k pre rest) o s') /\ (accepted e -> FINok pre s'))) as R.
    assert (Hstep : forall pre rest i s0, i = nnat (length pre) -> TC pre i s0 ->
              match tp_iter flags pre rest i s0 with
              | Next k s1 => (0 < k)%nat -> (k <= length rest)%nat -> TC (zpre k pre rest) (i + nnat k) s1
              | Ret o0 e0 s1 => i = nnat (length pre) /\ (e0 = EMore -> exists k, (k <= length rest)%nat /\ o0 = i + nnat k /\ TC (zpre k pre rest) o0 s1) /\ (accepted e0 -> FINok pre s1)
              | IPanic => True
              end).
    { intros p r j t Hj HP. pose proof (iter_tc p r j t Hj HP) as X. destruct (tp_iter flags p r j t); cbn [tc_res] in X; [intros _ Hk; exact (X Hk)|split; [exact Hj|exact X]|exact I]. }
    specialize (R Hstep (skipn (N.to_nat offs) buf) (rev (firstn (N.to_nat offs) buf)) offs s ltac:(rewrite rev_length, firstn_length; unfold nnat in *; lia) HT).
    rewrite H in R. destruct R as (p' & r' & i' & Hi' & Hw & (_ & Q1 & Q2)). rewrite rev_involutive, firstn_skipn in Hw. split.
    - intros He. destruct (Q1 He) as (k & Hk & Ho & HT'). rewrite (zpre_whole_prefix p' r' k buf Hw Hk) in HT'.
      replace (N.to_nat o) with (length p' + k)%nat by (unfold nnat in *; lia). exact HT'.
    - intros He. rewrite <- Hw. apply FINok_buf. exact (Q2 He).
  Qed.

  (* any feeding schedule: a chain of calls that each asked for more bytes, on buffers that agree on what was read *)
  Inductive tp_fed : list byte -> N -> tokparam -> Prop :=
  | tp_fed0 buf offs : offs <= nnat (length buf) -> tp_fed buf offs tokparam0
  | tp_fed1 buf offs s o s' buf' : tp_fed buf offs s -> parse_tokparam flags buf offs s = Done o EMore s' ->
      firstn (N.to_nat o) buf' = firstn (N.to_nat o) buf -> o <= nnat (length buf') -> tp_fed buf' o s'.
  Lemma tp_fed_inv buf offs s : tp_fed buf offs s -> offs <= nnat (length buf) /\ TC (rev (firstn (N.to_nat offs) buf)) offs s.
  Proof.
    induction 1 as [buf offs Ho|buf offs s o s' buf' _ IH H Hpre Ho]; [split; [exact Ho|apply TC_pfrom0]|].
    destruct IH as [I1 I2]. split; [exact Ho|]. rewrite Hpre. exact (proj1 (tokparam_call_conv buf offs s o EMore s' I1 I2 H) eq_refl).
  Qed.
  Theorem tokparam_reported_chars buf offs s o e s' : tp_fed buf offs s -> parse_tokparam flags buf offs s = Done o e s' -> accepted e -> reported_ok buf s'.
  Proof. intros Hf H He. destruct (tp_fed_inv buf offs s Hf) as [I1 I2]. exact (proj2 (tokparam_call_conv buf offs s o e s' I1 I2 H) He). Qed.
End Conv.
