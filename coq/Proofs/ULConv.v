(* C17, the list wrappers, converse for the characters: after ParseAllURIParams on a fresh list - every input, flag set and capacity -
   every stored parameter's name, and its value unless the value starts with a double quote, consists of allowed parameter characters
   that are not white space: a byte outside the set is never absorbed into a stored parameter. *)
From Sipsp Require Import Driver Harness RunLemmas Safe SafeMore SafeURI Ext ExtLeaf ExtLists Capacity ZSlice HdrSpec TokSpec TrimSpec TokConv.
From Coq Require Import ZifyN ZifyNat ZifyBool.
From RecordUpdate Require Import RecordUpdate.

(* the run-level form of the parameter theorem *)
Lemma tp_run_conv flags (pre rest : list byte) i s next e tp : i = nnat (length pre) -> TC flags pre i s ->
  run (tp_iter flags) pre rest i 0 s = Done next e tp -> accepted e -> reported_ok flags (rev pre ++ rest) tp.
Proof.
  intros Hi HT H He.
  pose proof (run_invQ (tp_iter flags) (TC flags) (fun pre rest i o e s' => accepted e -> FINok flags pre s')) as R.
  assert (Hstep : forall pre rest i s0, i = nnat (length pre) -> TC flags pre i s0 ->
            match tp_iter flags pre rest i s0 with
            | Next k s1 => (0 < k)%nat -> (k <= length rest)%nat -> TC flags (zpre k pre rest) (i + nnat k) s1
            | Ret o0 e0 s1 => accepted e0 -> FINok flags pre s1
            | IPanic => True
            end).
  { intros p r j t Hj HP. pose proof (iter_tc flags p r j t Hj HP) as X. destruct (tp_iter flags p r j t); cbn [tc_res] in X; [intros _ Hk; exact (X Hk)|exact (proj2 X)|exact I]. }
  specialize (R Hstep rest pre i s Hi HT). rewrite H in R. destruct R as (p' & r' & i' & _ & Hw & HQ).
  rewrite <- Hw. apply FINok_buf. exact (HQ He).
Qed.

Section UL.
  Variable flags0 : N.
  Let flags := N.lor flags0 (2 ^ bPOptParamSemiSep).
  (* entries below the count are fine; the unused slots and the overflow slot are pristine *)
  Definition LInvB (B : list byte) (l : uparams) : Prop :=
    (forall j, (j < N.to_nat (ul_n l))%nat -> (j < length (ul_params l))%nat -> reported_ok flags B (up_param (nth j (ul_params l) uriparam0))) /\
    (forall j, (N.to_nat (ul_n l) <= j)%nat -> nth j (ul_params l) uriparam0 = uriparam0) /\ ul_tmp l = uriparam0.
  Definition LQ (B : list byte) (l : uparams) : Prop :=
    forall j, (j < N.to_nat (ul_n l))%nat -> (j < length (ul_params l))%nat -> reported_ok flags B (up_param (nth j (ul_params l) uriparam0)).
  Lemma slot_pristine B l : LInvB B l -> ul_slot l = uriparam0.
  Proof. intros (_ & H2 & H3). unfold ul_slot. destruct (ul_is_tmp l); [exact H3|apply H2; lia]. Qed.
  Lemma store_other B l v : LQ B l -> LQ B (ul_store l v).
  Proof.
    intros H j Hj Hl. unfold ul_store in *. destruct (ul_is_tmp l); cbn in *; [apply H; assumption|].
    rewrite set_nth_len in Hl. rewrite nth_set_nth_ne by lia. apply H; assumption.
  Qed.
  Lemma ul_iter1_conv (pre rest : list byte) i l : i = nnat (length pre) -> LInvB (rev pre ++ rest) l ->
    match ul_iter1 flags0 pre rest i l with
    | Next k l' => LInvB (rev pre ++ rest) l'
    | Ret o e l' => LQ (rev pre ++ rest) l'
    | IPanic => True
    end.
  Proof.
    intros Hi HI. pose proof (slot_pristine _ l HI) as Hslot. destruct HI as (H1 & H2 & H3).
    unfold ul_iter1. fold flags. rewrite Hslot. cbn [up_param uriparam0].
    destruct (run (tp_iter flags) pre rest i 0 tokparam0) as [next e tp| |] eqn:Er; [|exact I|exact I].
    assert (Hacc : accepted e -> reported_ok flags (rev pre ++ rest) tp) by (apply (tp_run_conv flags pre rest i tokparam0 next e tp Hi (TC_pfrom0 flags pre i) Er)).
    assert (Hst : forall v, LQ (rev pre ++ rest) (ul_store l v)) by (intros v; apply store_other; exact H1).
    assert (Hok : accepted e -> forall name, zget pre rest i (tp_name tp) = Some name ->
              let t := uri_param_resolve name in
              let l1 := ul_store l (mkuriparam tp t) in
              let l2 := l1 <| ul_types := N.lor (ul_types l1) t |> <| ul_vno := ul_vno l1 + 1 |> in
              let l3 := if ul_is_tmp l then l2 <| ul_tmp := uriparam0 |> else l2 in
              LInvB (rev pre ++ rest) (l3 <| ul_n := ul_n l3 + 1 |>)).
    { intros Ha name _ t l1 l2 l3. specialize (Hacc Ha).
      unfold ul_is_tmp, ul_cap in *. subst l3 l2 l1. unfold ul_store, ul_is_tmp, ul_cap.
      destruct (nnat (length (ul_params l)) <=? ul_n l) eqn:Et.
      - destruct l as [ps n ty tmp vno]. cbn in *. split; [|split; [|reflexivity]].
        + intros j Hj Hl. cbn in Hj, Hl |- *. apply H1; [unfold nnat in *; lia|exact Hl].
        + intros j Hj. cbn in Hj |- *. apply H2. lia.
      - destruct l as [ps n ty tmp vno]. cbn in *. split; [|split; [|exact H3]].
        + intros j Hj Hl. cbn in Hj, Hl |- *. rewrite set_nth_len in Hl. destruct (Nat.eq_dec j (N.to_nat n)) as [->|Hne].
          * rewrite nth_set_nth by (unfold nnat in *; lia). exact Hacc.
          * rewrite nth_set_nth_ne by exact Hne. apply H1; lia.
        + intros j Hj. cbn in Hj |- *. rewrite nth_set_nth_ne by lia. apply H2. lia. }
    destruct e; try (apply Hst).
    - destruct (zget pre rest i (tp_name tp)) as [name|] eqn:Ez; [|exact I]. pose proof (Hok (or_introl eq_refl) name eq_refl) as X. exact (proj1 X).
    - destruct (zget pre rest i (tp_name tp)) as [name|] eqn:Ez; [|exact I]. pose proof (Hok (or_intror (or_intror eq_refl)) name eq_refl) as X. exact (proj1 X).
    - destruct (zget pre rest i (tp_name tp)) as [name|] eqn:Ez; [|exact I]. exact (Hok (or_intror (or_introl eq_refl)) name eq_refl).
  Qed.
  Lemma ul_iter_conv (pre rest : list byte) i l : i = nnat (length pre) -> LInvB (rev pre ++ rest) l ->
    match ul_iter flags0 pre rest i l with
    | Next k l' => LInvB (rev pre ++ rest) l'
    | Ret o e l' => LQ (rev pre ++ rest) l'
    | IPanic => True
    end.
  Proof.
    intros Hi HI. unfold ul_iter. pose proof (ul_iter1_conv pre rest i l Hi HI) as H.
    destruct (ul_iter1 flags0 pre rest i l) as [k l1|o e l1|]; [|exact H|exact I].
    destruct k as [|k]; [|exact H]. exact (ul_iter1_conv pre rest i l1 Hi H).
  Qed.

  Theorem uparams_stored_chars buf offs n o e L : offs <= nnat (length buf) ->
    parse_all_uri_params flags0 buf offs (uparams_init (repeat uriparam0 n)) = Done o e L ->
    forall j, (j < N.to_nat (ul_pno L))%nat -> reported_ok flags buf (up_param (nth j (ul_params L) uriparam0)).
  Proof.
    intros Hoffs H. unfold parse_all_uri_params, parse, zinit in H.
    set (l0 := uparams_init (repeat uriparam0 n) <| ul_vno := 0 |>) in *.
    pose proof (run_safe (ul_iter flags0) (fun p r j s => ul_P p r j s /\ LInvB (rev p ++ r) s) (fun p r j o e s => LQ (rev p ++ r) s)) as R.
    assert (G : forall p r j s0, ul_P p r j s0 /\ LInvB (rev p ++ r) s0 ->
              match ul_iter flags0 p r j s0 with
              | Next k s' => (0 < k <= length r)%nat /\ (ul_P (zpre k p r) (zrest k r) (j + nnat k) s' /\ LInvB (rev (zpre k p r) ++ zrest k r) s')
              | Ret o e s' => LQ (rev p ++ r) s'
              | IPanic => False end).
    { intros p r j s0 [HP HI]. pose proof (ul_step_ok flags0 p r j s0 HP) as X. pose proof (ul_iter_conv p r j s0 (proj1 HP) HI) as Y.
      destruct (ul_iter flags0 p r j s0); auto. destruct X as [X1 X2]. split; [exact X1|]. split; [exact X2|].
      rewrite zip_whole by lia. exact Y. }
    specialize (R G (skipn (N.to_nat offs) buf) (rev (firstn (N.to_nat offs) buf)) offs l0).
    assert (H0 : ul_P (rev (firstn (N.to_nat offs) buf)) (skipn (N.to_nat offs) buf) offs l0 /\
                 LInvB (rev (rev (firstn (N.to_nat offs) buf)) ++ skipn (N.to_nat offs) buf) l0).
    { split.
      - split; [rewrite rev_length, firstn_length; unfold nnat in *; lia|]. exact (ul_inv_init n offs).
      - subst l0. unfold LInvB, uparams_init. cbn. split; [intros j Hj; lia|]. split; [intros j _; apply nth_repeat|reflexivity]. }
    specialize (R H0). rewrite H in R. destruct R as (p' & r' & i' & HQ & Hw).
    rewrite rev_involutive, firstn_skipn in Hw. rewrite Hw in HQ.
    intros j Hj. apply HQ; unfold ul_pno, ul_cap in Hj; unfold nnat in *; lia.
  Qed.
End UL.

(* ---- the URI header list ------------------------------------------------------------------------------------------------------------------------ *)
Section UH.
  Variable flags0 : N.
  Let flags := N.lor flags0 (N.lor (2 ^ bPOptParamAmpSep) (2 ^ bPOptTokURIHdr)).
  Definition HInvB (B : list byte) (l : uhdrs) : Prop :=
    (forall j, (j < N.to_nat (uh_n l))%nat -> (j < length (uh_hdrs l))%nat -> reported_ok flags B (nth j (uh_hdrs l) tokparam0)) /\
    (forall j, (N.to_nat (uh_n l) <= j)%nat -> nth j (uh_hdrs l) tokparam0 = tokparam0) /\ uh_tmp l = tokparam0.
  Definition HQ (B : list byte) (l : uhdrs) : Prop :=
    forall j, (j < N.to_nat (uh_n l))%nat -> (j < length (uh_hdrs l))%nat -> reported_ok flags B (nth j (uh_hdrs l) tokparam0).
  Lemma hslot_pristine B l : HInvB B l -> uh_slot l = tokparam0.
  Proof. intros (_ & H2 & H3). unfold uh_slot. destruct (uh_is_tmp l); [exact H3|apply H2; lia]. Qed.
  Lemma hstore_other B l v : HQ B l -> HQ B (uh_store l v).
  Proof.
    intros H j Hj Hl. unfold uh_store in *. destruct (uh_is_tmp l); cbn in *; [apply H; assumption|].
    rewrite set_nth_len in Hl. rewrite nth_set_nth_ne by lia. apply H; assumption.
  Qed.
  Lemma uh_iter1_conv (pre rest : list byte) i l : i = nnat (length pre) -> HInvB (rev pre ++ rest) l ->
    match uh_iter1 flags0 pre rest i l with
    | Next k l' => HInvB (rev pre ++ rest) l'
    | Ret o e l' => HQ (rev pre ++ rest) l'
    | IPanic => True
    end.
  Proof.
    intros Hi HI. pose proof (hslot_pristine _ l HI) as Hslot. destruct HI as (H1 & H2 & H3).
    unfold uh_iter1. fold flags. rewrite Hslot.
    destruct (run (tp_iter flags) pre rest i 0 tokparam0) as [next e tp| |] eqn:Er; [|exact I|exact I].
    assert (Hacc : accepted e -> reported_ok flags (rev pre ++ rest) tp) by (apply (tp_run_conv flags pre rest i tokparam0 next e tp Hi (TC_pfrom0 flags pre i) Er)).
    assert (Hst : forall v, HQ (rev pre ++ rest) (uh_store l v)) by (intros v; apply hstore_other; exact H1).
    assert (Hok : accepted e ->
              let l1 := uh_store l tp in
              let l2 := l1 <| uh_vno := uh_vno l1 + 1 |> in
              let l3 := if uh_is_tmp l then l2 <| uh_tmp := tokparam0 |> else l2 in
              HInvB (rev pre ++ rest) (l3 <| uh_n := uh_n l3 + 1 |>)).
    { intros Ha l1 l2 l3. specialize (Hacc Ha).
      unfold uh_is_tmp, uh_cap in *. subst l3 l2 l1. unfold uh_store, uh_is_tmp, uh_cap.
      destruct (nnat (length (uh_hdrs l)) <=? uh_n l) eqn:Et.
      - destruct l as [ps n tmp vno]. cbn in *. split; [|split; [|reflexivity]].
        + intros j Hj Hl. cbn in Hj, Hl |- *. apply H1; [unfold nnat in *; lia|exact Hl].
        + intros j Hj. cbn in Hj |- *. apply H2. lia.
      - destruct l as [ps n tmp vno]. cbn in *. split; [|split; [|exact H3]].
        + intros j Hj Hl. cbn in Hj, Hl |- *. rewrite set_nth_len in Hl. destruct (Nat.eq_dec j (N.to_nat n)) as [->|Hne].
          * rewrite nth_set_nth by (unfold nnat in *; lia). exact Hacc.
          * rewrite nth_set_nth_ne by exact Hne. apply H1; lia.
        + intros j Hj. cbn in Hj |- *. rewrite nth_set_nth_ne by lia. apply H2. lia. }
    destruct e; try (apply Hst).
    - exact (proj1 (Hok (or_introl eq_refl))).
    - exact (proj1 (Hok (or_intror (or_intror eq_refl)))).
    - exact (Hok (or_intror (or_introl eq_refl))).
  Qed.
  Lemma uh_iter_conv (pre rest : list byte) i l : i = nnat (length pre) -> HInvB (rev pre ++ rest) l ->
    match uh_iter flags0 pre rest i l with
    | Next k l' => HInvB (rev pre ++ rest) l'
    | Ret o e l' => HQ (rev pre ++ rest) l'
    | IPanic => True
    end.
  Proof.
    intros Hi HI. unfold uh_iter. pose proof (uh_iter1_conv pre rest i l Hi HI) as H.
    destruct (uh_iter1 flags0 pre rest i l) as [k l1|o e l1|]; [|exact H|exact I].
    destruct k as [|k]; [|exact H]. exact (uh_iter1_conv pre rest i l1 Hi H).
  Qed.
  Theorem uhdrs_stored_chars buf offs n o e L : offs <= nnat (length buf) ->
    parse_all_uri_hdrs flags0 buf offs (uhdrs_init (repeat tokparam0 n)) = Done o e L ->
    forall j, (j < N.to_nat (uh_hno L))%nat -> reported_ok flags buf (nth j (uh_hdrs L) tokparam0).
  Proof.
    intros Hoffs H. unfold parse_all_uri_hdrs, parse, zinit in H.
    set (l0 := uhdrs_init (repeat tokparam0 n) <| uh_vno := 0 |>) in *.
    pose proof (run_safe (uh_iter flags0) (fun p r j s => uh_P p r j s /\ HInvB (rev p ++ r) s) (fun p r j o e s => HQ (rev p ++ r) s)) as R.
    assert (G : forall p r j s0, uh_P p r j s0 /\ HInvB (rev p ++ r) s0 ->
              match uh_iter flags0 p r j s0 with
              | Next k s' => (0 < k <= length r)%nat /\ (uh_P (zpre k p r) (zrest k r) (j + nnat k) s' /\ HInvB (rev (zpre k p r) ++ zrest k r) s')
              | Ret o e s' => HQ (rev p ++ r) s'
              | IPanic => False end).
    { intros p r j s0 [HP HI]. pose proof (uh_step_ok flags0 p r j s0 HP) as X. pose proof (uh_iter_conv p r j s0 (proj1 HP) HI) as Y.
      destruct (uh_iter flags0 p r j s0); auto. destruct X as [X1 X2]. split; [exact X1|]. split; [exact X2|].
      rewrite zip_whole by lia. exact Y. }
    specialize (R G (skipn (N.to_nat offs) buf) (rev (firstn (N.to_nat offs) buf)) offs l0).
    assert (H0 : uh_P (rev (firstn (N.to_nat offs) buf)) (skipn (N.to_nat offs) buf) offs l0 /\
                 HInvB (rev (rev (firstn (N.to_nat offs) buf)) ++ skipn (N.to_nat offs) buf) l0).
    { split.
      - split; [rewrite rev_length, firstn_length; unfold nnat in *; lia|]. exact (uh_inv_init n offs).
      - subst l0. unfold HInvB, uhdrs_init. cbn. split; [intros j Hj; lia|]. split; [intros j _; apply nth_repeat|reflexivity]. }
    specialize (R H0). rewrite H in R. destruct R as (p' & r' & i' & HQ' & Hw).
    rewrite rev_involutive, firstn_skipn in Hw. rewrite Hw in HQ'.
    intros j Hj. apply HQ'; unfold uh_hno, uh_cap in Hj; unfold nnat in *; lia.
  Qed.
End UH.
