(* C11 for SkipQuoted, ParseTokenParam and the URI parameter / URI header lists. *)
From Sipsp Require Import Driver Harness Shift ShiftFb.
From Coq Require Import ZifyN ZifyNat ZifyBool.
From RecordUpdate Require Import RecordUpdate.

(* ---- SkipQuoted -------------------------------------------------------------------------------------------------------------------------------------- *)
Lemma sq_shift_step J pre rest i : ires_shift J (fun _ _ : unit => True) (sq_iter pre rest i tt) (sq_iter (pre ++ J) rest (i + nnat (length J)) tt).
Proof.
  unfold sq_iter. destruct rest as [|c r1]; [cbn; auto|].
  destruct (c =? 34); [cbn; repeat split; lia|].
  destruct (c =? 92).
  { destruct r1 as [|d r2]; [cbn; auto|]. destruct (is_crlf d); cbn; repeat split; auto; lia. }
  destruct (is_crlf c || (c =? 127)); [cbn; auto|]. destruct ((c <? 33) && negb (is_sp c)); cbn; auto.
Qed.
Lemma sq_run_shift J pre rest i : i = nnat (length pre) ->
  res_shift J (fun _ _ : unit => True) (run sq_iter pre rest i 0 tt) (run sq_iter (pre ++ J) rest (i + nnat (length J)) 0 tt).
Proof.
  intros Hi. apply (run_shift sq_iter J (fun _ _ => True)); auto. intros p r j [] [] _ _. apply sq_shift_step.
Qed.
Theorem quoted_shift junk buf offs : offs <= nnat (length buf) ->
  res_shift (rev junk) (fun _ _ : unit => True) (skip_quoted buf offs) (skip_quoted (junk ++ buf) (offs + nnat (length junk))).
Proof.
  intros Ho. unfold skip_quoted. rewrite <- (rev_length junk).
  apply (parse_shift sq_iter (rev junk) (fun _ _ => True)); auto. intros p r j [] [] _ _. apply sq_shift_step.
Qed.

(* ---- ParseTokenParam ------------------------------------------------------------------------------------------------------------------------------ *)
Section TpRel.
  Variable k : N.
  Definition lvp (l : bool) (f f' : pf) : Prop := if l then f' = shf k f else zp k f f'.
  (* which of all / name / val are read again in a state *)
  Definition tp_live (st : tpst) : bool * bool * bool :=
    match st with
    | PName | PFEq | PFVal => (true, true, false)
    | PVal | PQuotedVal => (true, true, true)
    | _ => (false, false, false)
    end.
  Definition Rtp0 (s s' : tokparam) : Prop :=
    tp_state s' = tp_state s /\
    let '(la, ln, lv0) := tp_live (tp_state s) in
    lvp la (tp_all s) (tp_all s') /\ lvp ln (tp_name s) (tp_name s') /\ lvp lv0 (tp_val s) (tp_val s').
  Definition Rtp (i : N) (s s' : tokparam) : Prop := Rtp0 s s' /\ (tp_state s <> PInit -> 1 <= i).
End TpRel.

Lemma lvp_weak k l f f' : lvp k l f f' -> zp k f f'.
Proof. destruct l; cbn; [intros ->; left; reflexivity|auto]. Qed.

Ltac tp_destr s s' := destruct s as [al nm vl st], s' as [al' nm' vl' st'].
Ltac tp_solve := unfold Rtp0, tp_live, lvp, zp in *; cbn in *; repeat split; auto; try lia; try tauto; try (left; reflexivity).

Lemma tp_eoh_shift J ret s s' j : Rtp0 (nnat (length J)) s s' ->
  ires_shiftI J (Rtp (nnat (length J))) (Rtp0 (nnat (length J))) j (tp_endOfHdr ret s) (tp_endOfHdr (ret + nnat (length J)) s').
Proof.
  intros HR. pose proof HR as [Hst Hf]. unfold tp_endOfHdr. rewrite Hst. tp_destr s s'. cbn in Hst. subst st'.
  destruct st; cbn in *; (split; [reflexivity|]); (split; [reflexivity|]); destruct Hf as (F1 & F2 & F3); unfold Rtp0; cbn;
    (split; [reflexivity|]); (split; [|split]); try assumption; try (apply (lvp_weak _ true); assumption); try (apply (lvp_weak _ false); assumption).
Qed.

Notation TpRes J i := (ires_shiftI J (Rtp (nnat (length J))) (Rtp0 (nnat (length J))) i).

Lemma ext2_shift k a b a' b' e1 e2 : a' = shf k a -> b' = shf k b ->
  ext2 a' b' (e1 + k) (e2 + k) = match ext2 a b e1 e2 with Some (x, y) => Some (shf k x, shf k y) | None => None end.
Proof.
  intros -> ->. unfold ext2. rewrite !pf_extend_shift. destruct (pf_extend a e1), (pf_extend b e2); reflexivity.
Qed.

Lemma mb_shift J f j bend s s' x : Rtp0 (nnat (length J)) s s' ->
  TpRes J x (tp_moreBytes f j bend s) (tp_moreBytes f (j + nnat (length J)) (bend + nnat (length J)) s').
Proof.
  set (k := nnat (length J)). intros HR. pose proof HR as [Hst Hf]. unfold tp_moreBytes.
  destruct (tf_ie f); [|cbn; split; [reflexivity|]; split; [reflexivity|exact HR]].
  rewrite Hst. destruct (tp_state s) eqn:Es; try (apply tp_eoh_shift; exact HR); try (cbn; split; [reflexivity|]; split; [reflexivity|exact HR]).
  - (* PName *)
    cbn in Hf. destruct Hf as (F1 & F2 & F3). rewrite F1, F2, !pf_extend_shift.
    destruct (pf_extend (tp_name s) j) as [n|]; [|exact I]. destruct (pf_extend (tp_all s) j) as [a|]; [|exact I].
    apply tp_eoh_shift. tp_destr s s'. cbn in *. subst. tp_solve.
  - (* PVal *)
    cbn in Hf. destruct Hf as (F1 & F2 & F3). rewrite F1, F3, !pf_extend_shift.
    destruct (pf_extend (tp_val s) j) as [v|]; [|exact I]. destruct (pf_extend (tp_all s) j) as [a|]; [|exact I].
    apply tp_eoh_shift. tp_destr s s'. cbn in *. subst. tp_solve.
Qed.

Definition orel (k : N) (u u' : option tokparam) : Prop :=
  match u, u' with Some t, Some t' => Rtp0 k t t' | None, None => True | _, _ => False end.

Lemma tpws_shift J f rest i s s' u u' : Rtp0 (nnat (length J)) s s' -> orel (nnat (length J)) u u' ->
  TpRes J i (tp_ws f rest i s u) (tp_ws f rest (i + nnat (length J)) s' u').
Proof.
  set (k := nnat (length J)). intros HR Hu. unfold tp_ws. destruct (skipLWS (tf_ie f) rest) as [n|n crl|n].
  - destruct u as [t|], u' as [t'|]; try contradiction; [|exact I]. cbn. split; [reflexivity|]. split; [exact Hu|intros _; lia].
  - destruct u as [t|], u' as [t'|]; try contradiction; [|exact I].
    replace (i + k + nnat n + nnat crl) with (i + nnat n + nnat crl + k) by lia. apply tp_eoh_shift. exact Hu.
  - replace (i + k + nnat (length rest)) with (i + nnat (length rest) + k) by lia. apply mb_shift. exact HR.
Qed.

Ltac tp_next := cbn; split; [reflexivity|]; split; [|intros _; lia]; tp_solve.
Ltac tp_ret := cbn; split; [try reflexivity; try lia|]; split; [reflexivity|]; tp_solve.

Lemma tp_shift_step J flags pre rest i s s' : i = nnat (length pre) -> Rtp (nnat (length J)) i s s' ->
  TpRes J i (tp_iter flags pre rest i s) (tp_iter flags (pre ++ J) rest (i + nnat (length J)) s').
Proof.
  set (k := nnat (length J)). intros Hi [HR Hi1]. pose proof HR as [Hst Hf]. unfold tp_iter. cbv zeta. rewrite Hst.
  set (f := tp_decode flags).
  destruct (tp_state s) eqn:Es.
  11: { cbn. split; [reflexivity|]. split; [reflexivity|exact HR]. }
  all: destruct rest as [|c r1]; [apply mb_shift; exact HR|].
  all: unfold tp_step, tp_sInit, tp_sName, tp_sFEq, tp_sFVal, tp_sVal, tp_sFSep, tp_bad, is_tp_fnxt.
  all: try (assert (H1 : 1 <= i) by (apply Hi1; discriminate)).
  (* PInit, PInitNxtVal, PFNxt *)
  1, 8: (destruct (is_ws c); [apply tpws_shift; [exact HR|exact HR]|]; destruct (c =? tf_sep f); [cbn; split; [reflexivity|]; split; [exact HR|intros _; lia]|];
            destruct (negb (tok_allowed (tf_uriparam f) c)); [tp_destr s s'; cbn in *; subst; tp_ret|]; cbn [is_tp_fnxt];
            rewrite (pf_set_shift i i k); destruct (pf_set i i) as [n|]; [|exact I]; tp_destr s s'; cbn in *; subst; tp_next).
  6: (destruct (is_ws c); [apply tpws_shift; [exact HR|exact HR]|]; destruct (c =? tf_sep f); [cbn; split; [reflexivity|]; split; [exact HR|intros _; lia]|];
            destruct (negb (tok_allowed (tf_uriparam f) c)); [tp_destr s s'; cbn in *; subst; tp_ret|]; cbn [is_tp_fnxt];
            tp_destr s s'; cbn in *; subst; tp_ret).
  - (* PName *)
    cbn in Hf. destruct Hf as (F1 & F2 & F3).
    destruct (is_ws c).
    { apply tpws_shift; [exact HR|]. rewrite (ext2_shift k _ _ _ _ i i F2 F1). destruct (ext2 (tp_name s) (tp_all s) i i) as [[n a]|]; [|exact I].
      cbn. tp_destr s s'. cbn in *. subst. tp_solve. }
    destruct (c =? 61).
    { replace (i + k + 1) with (i + 1 + k) by lia. rewrite (ext2_shift k _ _ _ _ i (i + 1) F2 F1). destruct (ext2 (tp_name s) (tp_all s) i (i + 1)) as [[n a]|]; [|exact I].
      tp_destr s s'. cbn in *. subst. tp_next. }
    destruct ((c =? tf_term f) && negb (tf_term f =? 0)).
    { rewrite (ext2_shift k _ _ _ _ i i F2 F1). destruct (ext2 (tp_name s) (tp_all s) i i) as [[n a]|]; [|exact I]. tp_destr s s'. cbn in *. subst. tp_ret. }
    destruct (c =? tf_sep f).
    { rewrite (ext2_shift k _ _ _ _ i i F2 F1). destruct (ext2 (tp_name s) (tp_all s) i i) as [[n a]|]; [|exact I]. tp_destr s s'. cbn in *. subst. tp_next. }
    destruct (negb (tok_allowed (tf_uriparam f) c)); [tp_destr s s'; cbn in *; subst; tp_ret|].
    cbn. split; [reflexivity|]. split; [exact HR|intros _; lia].
  - (* PFEq *)
    destruct (is_ws c); [apply tpws_shift; [exact HR|exact HR]|].
    destruct (c =? 61); [cbn in Hf; destruct Hf as (F1 & F2 & F3); tp_destr s s'; cbn in *; subst; tp_next|].
    destruct ((c =? tf_term f) && negb (tf_term f =? 0)); [cbn in Hf; destruct Hf as (F1 & F2 & F3); tp_destr s s'; cbn in *; subst; tp_ret|].
    destruct (c =? tf_sep f); [cbn in Hf; destruct Hf as (F1 & F2 & F3); tp_destr s s'; cbn in *; subst; tp_next|].
    destruct (negb (tok_allowed (tf_uriparam f) c)); [cbn in Hf; destruct Hf as (F1 & F2 & F3); tp_destr s s'; cbn in *; subst; tp_ret|].
    destruct (tf_spterm f); [|cbn in Hf; destruct Hf as (F1 & F2 & F3); tp_destr s s'; cbn in *; subst; tp_ret].
    unfold tp_spterm_ret, zprev. destruct pre as [|p pre0]; [cbn [length] in Hi; unfold nnat in *; lia|]. cbn [app].
    cbn in Hf. destruct Hf as (F1 & F2 & F3).
    destruct (is_ws p); unfold ires_shiftI; (split; [lia|]); (split; [reflexivity|]); clear Hi Hi1 H1; tp_destr s s'; cbn in *; subst; tp_solve.
  - (* PFVal *)
    cbn in Hf. destruct Hf as (F1 & F2 & F3).
    destruct (is_ws c); [apply tpws_shift; [exact HR|exact HR]|].
    rewrite (pf_set_shift i i k), F1, pf_extend_shift.
    destruct (c =? 34).
    { destruct (pf_set i i) as [v|]; [|exact I]. destruct (pf_extend (tp_all s) i) as [a|]; [|exact I]. tp_destr s s'. cbn in *. subst. tp_next. }
    destruct ((c =? tf_term f) && negb (tf_term f =? 0)).
    { destruct (pf_set i i) as [v|]; [|exact I]. tp_destr s s'. cbn in *. subst. tp_ret. }
    destruct (c =? tf_sep f).
    { destruct (pf_set i i) as [v|]; [|exact I]. destruct (pf_extend (tp_all s) i) as [a|]; [|exact I]. tp_destr s s'. cbn in *. subst. tp_next. }
    destruct (negb (tok_allowed (tf_uriparam f) c)); [tp_destr s s'; cbn in *; subst; tp_ret|].
    destruct (pf_set i i) as [v|]; [|exact I]. destruct (pf_extend (tp_all s) i) as [a|]; [|exact I]. tp_destr s s'. cbn in *. subst. tp_next.
  - (* PVal *)
    cbn in Hf. destruct Hf as (F1 & F2 & F3).
    destruct (is_ws c).
    { apply tpws_shift; [exact HR|]. rewrite (ext2_shift k _ _ _ _ i i F3 F1). destruct (ext2 (tp_val s) (tp_all s) i i) as [[v a]|]; [|exact I].
      cbn. tp_destr s s'. cbn in *. subst. tp_solve. }
    destruct ((c =? tf_term f) && negb (tf_term f =? 0)).
    { rewrite (ext2_shift k _ _ _ _ i i F3 F1). destruct (ext2 (tp_val s) (tp_all s) i i) as [[v a]|]; [|exact I]. tp_destr s s'. cbn in *. subst. tp_ret. }
    destruct (c =? tf_sep f).
    { rewrite (ext2_shift k _ _ _ _ i i F3 F1). destruct (ext2 (tp_val s) (tp_all s) i i) as [[v a]|]; [|exact I]. tp_destr s s'. cbn in *. subst. tp_next. }
    destruct (negb (tok_allowed (tf_uriparam f) c)); [tp_destr s s'; cbn in *; subst; tp_ret|].
    cbn. split; [reflexivity|]. split; [exact HR|intros _; lia].
  - (* PFSep *)
    destruct (is_ws c); [apply tpws_shift; [exact HR|exact HR]|].
    destruct ((c =? tf_term f) && negb (tf_term f =? 0)); [cbn in Hf; destruct Hf as (F1 & F2 & F3); tp_destr s s'; cbn in *; subst; tp_ret|].
    destruct (c =? tf_sep f); [cbn in Hf; destruct Hf as (F1 & F2 & F3); tp_destr s s'; cbn in *; subst; tp_next|].
    destruct (negb (tok_allowed (tf_uriparam f) c)); [cbn in Hf; destruct Hf as (F1 & F2 & F3); tp_destr s s'; cbn in *; subst; tp_ret|].
    destruct (tf_spterm f); [|cbn in Hf; destruct Hf as (F1 & F2 & F3); tp_destr s s'; cbn in *; subst; tp_ret].
    unfold tp_spterm_ret, zprev. destruct pre as [|p pre0]; [cbn [length] in Hi; unfold nnat in *; lia|]. cbn [app].
    cbn in Hf. destruct Hf as (F1 & F2 & F3).
    destruct (is_ws p); unfold ires_shiftI; (split; [lia|]); (split; [reflexivity|]); clear Hi Hi1 H1; tp_destr s s'; cbn in *; subst; tp_solve.
  - (* PQuotedVal *)
    unfold tp_sQuoted. cbn in Hf. destruct Hf as (F1 & F2 & F3).
    pose proof (sq_run_shift J pre (c :: r1) i Hi) as H. unfold res_shift in H. fold k in H.
    destruct (run sq_iter pre (c :: r1) i 0 tt) as [o e u| |], (run sq_iter (pre ++ J) (c :: r1) (i + k) 0 tt) as [o' e' u'| |]; try contradiction; try exact I.
    destruct H as (-> & <- & _).
    destruct e; try (cbn; split; [reflexivity|]; split; [reflexivity|exact HR]).
    + rewrite (ext2_shift k _ _ _ _ o o F3 F1). destruct (ext2 (tp_val s) (tp_all s) o o) as [[v a]|]; [|exact I].
      cbn. split; [f_equal; lia|]. split; [|intros _; lia]. tp_destr s s'. cbn in *. subst. tp_solve.
    + replace (i + k + nnat (length (c :: r1))) with (i + nnat (length (c :: r1)) + k) by lia. apply mb_shift. exact HR.
  - (* PERR *) cbn. split; [reflexivity|]. split; [exact HR|intros _; lia].
Qed.

Lemma Rtp_mono k i j s s' : Rtp k i s s' -> i <= j -> Rtp k j s s'.
Proof. intros [H1 H2] Hij. split; [exact H1|]. intros E. specialize (H2 E). lia. Qed.
Lemma Rtp0_tokparam0 k : Rtp0 k tokparam0 tokparam0.
Proof. unfold Rtp0, lvp, zp. cbn. auto 10. Qed.

Theorem tokparam_shift flags junk buf offs : offs <= nnat (length buf) ->
  res_shiftI (rev junk) (Rtp0 (nnat (length junk))) (parse_tokparam flags buf offs tokparam0) (parse_tokparam flags (junk ++ buf) (offs + nnat (length junk)) tokparam0).
Proof.
  intros Ho. unfold parse_tokparam. rewrite <- (rev_length junk).
  apply (parse_shiftI (tp_iter flags) (rev junk) (Rtp (nnat (length (rev junk)))) (Rtp0 (nnat (length (rev junk))))); auto.
  - intros pre rest i s s' Hi HR. apply tp_shift_step; assumption.
  - intros i j s s' H Hij. apply (Rtp_mono _ i); assumption.
  - split; [apply Rtp0_tokparam0|intros E; exfalso; apply E; reflexivity].
Qed.

(* ---- "more values" is only ever answered at the first byte of the next parameter, by a value that had ended ------------------------------- *)
From Sipsp Require Import RunLemmas.
Lemma tp_eoh_nomv ret s : match tp_endOfHdr ret s with Ret _ EMoreValues _ => False | _ => True end.
Proof. unfold tp_endOfHdr. destruct (tp_state s); exact I. Qed.
Lemma tp_mb_nomv f j b s : match tp_moreBytes f j b s with Ret _ EMoreValues _ => False | _ => True end.
Proof.
  unfold tp_moreBytes. destruct (tf_ie f); [|exact I].
  destruct (tp_state s); try apply tp_eoh_nomv; try exact I.
  all: repeat match goal with |- context [match pf_extend ?a ?b with _ => _ end] => destruct (pf_extend a b) end; try exact I; apply tp_eoh_nomv.
Qed.
Lemma tp_ws_nomv f rest i s u : match tp_ws f rest i s u with Ret _ EMoreValues _ => False | _ => True end.
Proof.
  unfold tp_ws. destruct (skipLWS (tf_ie f) rest); [destruct u; exact I|destruct u; [apply tp_eoh_nomv|exact I]|apply tp_mb_nomv].
Qed.

Lemma sq_nomv rest pre j o u : run sq_iter pre rest j 0 tt <> Done o EMoreValues u.
Proof.
  pose proof (run_inv sq_iter (fun _ _ _ => True) (fun _ e _ => e <> EMoreValues)) as H.
  specialize (H ltac:(intros p r i [] _; unfold sq_iter; destruct r as [|c r1]; [discriminate|];
                      repeat match goal with |- context [if ?b then _ else _] => destruct b end; try discriminate; auto;
                      destruct r1; try discriminate; repeat match goal with |- context [if ?b then _ else _] => destruct b end; try discriminate; auto)
                rest pre j tt I).
  intros E. rewrite E in H. apply H. reflexivity.
Qed.

Lemma tp_iter_mv flags p r j t : match tp_iter flags p r j t with Ret o EMoreValues _ => o = j /\ tp_state t = PFNxt | _ => True end.
Proof.
  unfold tp_iter. cbv zeta. set (f := tp_decode flags).
  destruct (tp_state t) eqn:Es; try exact I.
  all: destruct r as [|c r1]; [pose proof (tp_mb_nomv f j j t) as H; destruct (tp_moreBytes f j j t) as [| ? [] ?|]; auto; destruct H|].
  all: unfold tp_step, tp_sInit, tp_sName, tp_sFEq, tp_sFVal, tp_sVal, tp_sFSep, tp_sQuoted, tp_bad, tp_spterm_ret, is_tp_fnxt.
  all: try (destruct (is_ws c); [match goal with |- context [tp_ws ?a ?b ?c0 ?d ?e] => pose proof (tp_ws_nomv a b c0 d e) as H; destruct (tp_ws a b c0 d e) as [| ? [] ?|]; auto; destruct H end|]).
  all: repeat match goal with
              | |- context [if ?b then _ else _] => destruct b
              | |- context [match pf_set ?a ?b with _ => _ end] => destruct (pf_set a b)
              | |- context [match pf_extend ?a ?b with _ => _ end] => destruct (pf_extend a b)
              | |- context [match ext2 ?a ?b ?c0 ?d with _ => _ end] => destruct (ext2 a b c0 d) as [[? ?]|]
              | |- context [match zprev ?a with _ => _ end] => destruct (zprev a)
              end; try exact I; try (split; reflexivity).
  (* quoted value *)
  pose proof (sq_nomv (c :: r1) p j) as Hq.
  destruct (run sq_iter p (c :: r1) j 0 tt) as [o e u| |]; try exact I.
  destruct e; try exact I; try (exfalso; apply (Hq o u); reflexivity).
  - destruct (ext2 _ _ _ _) as [[? ?]|]; exact I.
  - pose proof (tp_mb_nomv f o (j + nnat (length (c :: r1))) t) as H. destruct (tp_moreBytes f o _ t) as [| ? [] ?|]; auto; destruct H.
Qed.

Lemma tp_mv_strict flags rest pre i s next s' : tp_state s = PInit ->
  run (tp_iter flags) pre rest i 0 s = Done next EMoreValues s' -> i < next.
Proof.
  intros Hs Hr.
  pose proof (run_inv (tp_iter flags) (fun _ j t => i <= j /\ (j = i -> tp_state t = PInit)) (fun o e _ => e = EMoreValues -> i < o)) as H.
  specialize (H ltac:(intros p r j t [P1 P2]; pose proof (tp_iter_mv flags p r j t) as X;
                      destruct (tp_iter flags p r j t) as [k t'|o e t'|]; auto;
                      [intros Hk _; split; [unfold nnat; lia|intros E; unfold nnat in E; lia]
                      |intros ->; destruct X as [-> X]; destruct (N.eq_dec j i) as [E|E]; [rewrite (P2 E) in X; discriminate X|lia]])
                rest pre i s (conj (N.le_refl i) (fun _ => Hs))).
  rewrite Hr in H. apply H. reflexivity.
Qed.

(* ---- the URI parameter list ------------------------------------------------------------------------------------------------------------------------ *)
Lemma tp_run_shift J flags pre rest i s s' : i = nnat (length pre) -> Rtp (nnat (length J)) i s s' ->
  res_shiftI J (Rtp0 (nnat (length J))) (run (tp_iter flags) pre rest i 0 s) (run (tp_iter flags) (pre ++ J) rest (i + nnat (length J)) 0 s').
Proof.
  intros Hi HR. apply (run_shiftI (tp_iter flags) J (Rtp (nnat (length J))) (Rtp0 (nnat (length J)))); auto.
  - intros p r j t t' Hj Ht. apply tp_shift_step; assumption.
  - intros a b t t' H Hab. apply (Rtp_mono _ a); assumption.
Qed.

Lemma zget_pf0 pre rest i : zget pre rest i pf0 = Some [].
Proof.
  unfold zget, zslice, pf_end. cbn [po pl pf0]. cbn [N.add N.leb N.compare]. 
  replace (0 <=? i + N.of_nat (length rest)) with true by lia. cbn [andb].
  replace (N.min 0 i) with 0 by lia. replace (N.max 0 i) with i by lia. replace (0 - i) with 0 by lia. cbn. reflexivity.
Qed.
Lemma zget_zp J pre rest i f f' : i = nnat (length pre) -> zp (nnat (length J)) f f' ->
  zget (pre ++ J) rest (i + nnat (length J)) f' = zget pre rest i f.
Proof. intros Hi [->|[-> ->]]; [apply zget_shift; exact Hi|now rewrite !zget_pf0]. Qed.
Lemma Rtp0_name k s s' : Rtp0 k s s' -> zp k (tp_name s) (tp_name s').
Proof. intros [_ H]. destruct (tp_live (tp_state s)) as [[la ln] lv0]. destruct H as (_ & H & _). exact (lvp_weak k ln _ _ H). Qed.

Definition Rup (k : N) (p p' : uriparam) : Prop := Rtp0 k (up_param p) (up_param p') /\ up_t p' = up_t p.
Definition Rul0 (k : N) (l l' : uparams) : Prop :=
  Forall2 (Rup k) (ul_params l) (ul_params l') /\ ul_n l' = ul_n l /\ ul_types l' = ul_types l /\
  Rup k (ul_tmp l) (ul_tmp l') /\ ul_vno l' = ul_vno l.
Definition Rul (k i : N) (l l' : uparams) : Prop := Rul0 k l l' /\ (tp_state (up_param (ul_slot l)) <> PInit -> 1 <= i).

Lemma Rup_0 k : Rup k uriparam0 uriparam0.
Proof. split; [apply Rtp0_tokparam0|reflexivity]. Qed.
Lemma Forall2_nth_Rup k : forall l l' n, Forall2 (Rup k) l l' -> Rup k (nth n l uriparam0) (nth n l' uriparam0).
Proof. intros l l' n H. revert n. induction H as [|x x' l l' Hx _ IH]; intros [|n]; cbn; try apply Rup_0; auto. Qed.
Lemma Forall2_len' {A B} (R : A -> B -> Prop) l l' : Forall2 R l l' -> length l = length l'.
Proof. induction 1; cbn; auto. Qed.
Lemma Forall2_set_nth' {A} (R : A -> A -> Prop) : forall l l' n x x', Forall2 R l l' -> R x x' -> Forall2 R (set_nth n x l) (set_nth n x' l').
Proof. intros l l' n x x' H Hx. revert n. induction H as [|y y' l l' Hy Hl IH]; intros [|n]; cbn; try constructor; auto. Qed.

Lemma ul_tmp_rel k l l' : Rul0 k l l' -> ul_is_tmp l' = ul_is_tmp l.
Proof. intros (Hp & Hn & _). unfold ul_is_tmp, ul_cap. rewrite Hn, <- (Forall2_len' _ _ _ Hp). reflexivity. Qed.
Lemma ul_slot_rel k l l' : Rul0 k l l' -> Rup k (ul_slot l) (ul_slot l').
Proof.
  intros H. pose proof (ul_tmp_rel k l l' H) as Ht. destruct H as (Hp & Hn & _ & Htmp & _). unfold ul_slot. rewrite Ht, Hn.
  destruct (ul_is_tmp l); [exact Htmp|apply Forall2_nth_Rup; exact Hp].
Qed.
Lemma ul_store_rel k l l' p p' : Rul0 k l l' -> Rup k p p' -> Rul0 k (ul_store l p) (ul_store l' p').
Proof.
  intros H Hp. pose proof (ul_tmp_rel k l l' H) as Ht. unfold ul_store. rewrite Ht. destruct H as (H1 & H2 & H3 & H4 & H5).
  destruct (ul_is_tmp l); destruct l, l'; unfold Rul0; cbn in *; subst; (split; [|split; [|split; [|split]]]); auto.
  apply Forall2_set_nth'; assumption.
Qed.

Definition ul1_rel (k i : N) (r r' : ires uparams) : Prop :=
  match r, r' with
  | Next n l, Next n' l' => n = n' /\ Rul0 k l l' /\ (n = 0%nat -> 1 <= i)
  | Ret o e l, Ret o' e' l' => o' = o + k /\ e = e' /\ Rul0 k l l'
  | IPanic, IPanic => True
  | _, _ => False
  end.

Lemma ul1_shift J flags pre rest i l l' : i = nnat (length pre) -> Rul (nnat (length J)) i l l' ->
  ul1_rel (nnat (length J)) i (ul_iter1 flags pre rest i l) (ul_iter1 flags (pre ++ J) rest (i + nnat (length J)) l').
Proof.
  set (k := nnat (length J)). intros Hi [HR Hi1]. unfold ul_iter1. cbv zeta.
  pose proof (ul_slot_rel k l l' HR) as [Hsl Hst].
  pose proof (tp_run_shift J (N.lor flags (2 ^ bPOptParamSemiSep)) pre rest i _ _ Hi (conj Hsl Hi1)) as H. unfold res_shiftI in H. fold k in H.
  destruct (run (tp_iter _) pre rest i 0 (up_param (ul_slot l))) as [next e tp| |] eqn:Er,
           (run (tp_iter _) (pre ++ J) rest (i + k) 0 (up_param (ul_slot l'))) as [next' e' tp'| |]; try contradiction; try exact I.
  destruct H as (-> & <- & Htp). rewrite (ul_tmp_rel k l l' HR).
  assert (Hfin : forall t, Rul0 k
     (let l1 := ul_store l (mkuriparam tp t) in let l2 := l1 <| ul_types := N.lor (ul_types l1) t |> <| ul_vno := ul_vno l1 + 1 |> in
      let l3 := if ul_is_tmp l then l2 <| ul_tmp := uriparam0 |> else l2 in l3 <| ul_n := ul_n l3 + 1 |>)
     (let l1 := ul_store l' (mkuriparam tp' t) in let l2 := l1 <| ul_types := N.lor (ul_types l1) t |> <| ul_vno := ul_vno l1 + 1 |> in
      let l3 := if ul_is_tmp l then l2 <| ul_tmp := uriparam0 |> else l2 in l3 <| ul_n := ul_n l3 + 1 |>)).
  { intros t. pose proof (ul_store_rel k l l' (mkuriparam tp t) (mkuriparam tp' t) HR (conj Htp eq_refl)) as (S1 & S2 & S3 & S4 & S5). cbv zeta.
    destruct (ul_is_tmp l); destruct (ul_store l (mkuriparam tp t)), (ul_store l' (mkuriparam tp' t)); unfold Rul0; cbn in *; subst;
      (split; [|split; [|split; [|split]]]); auto; apply Rup_0. }
  assert (Hname : zget (pre ++ J) rest (i + k) (tp_name tp') = zget pre rest i (tp_name tp)) by (apply zget_zp; [exact Hi|apply Rtp0_name; exact Htp]).
  destruct e; try (cbn; split; [reflexivity|]; split; [reflexivity|]; apply ul_store_rel; [exact HR|apply Rup_0]).
  - (* EOk *) rewrite Hname. destruct (zget pre rest i (tp_name tp)) as [name|]; [|exact I]. cbn. split; [reflexivity|]. split; [reflexivity|apply Hfin].
  - (* EEOH *) rewrite Hname. destruct (zget pre rest i (tp_name tp)) as [name|]; [|exact I]. cbn. split; [reflexivity|]. split; [reflexivity|apply Hfin].
  - (* EMore *) cbn. split; [reflexivity|]. split; [reflexivity|]. apply ul_store_rel; [exact HR|]. destruct (ul_slot l), (ul_slot l'); cbn in *. split; assumption.
  - (* EMoreValues *) rewrite Hname. destruct (zget pre rest i (tp_name tp)) as [name|]; [|exact I]. cbn. split; [f_equal; lia|]. split; [apply Hfin|].
    intros Hz. destruct (N.eq_dec i 0) as [E0|E0]; [|lia]. exfalso.
    assert (Hs0 : tp_state (up_param (ul_slot l)) = PInit) by (destruct (tp_state (up_param (ul_slot l))) eqn:E; try reflexivity; specialize (Hi1 ltac:(discriminate)); lia).
    pose proof (tp_mv_strict _ _ _ _ _ _ _ Hs0 Er). lia.
Qed.

Lemma ul_shift_step J flags pre rest i l l' : i = nnat (length pre) -> Rul (nnat (length J)) i l l' ->
  ires_shiftI J (Rul (nnat (length J))) (Rul0 (nnat (length J))) i (ul_iter flags pre rest i l) (ul_iter flags (pre ++ J) rest (i + nnat (length J)) l').
Proof.
  set (k := nnat (length J)). intros Hi HR. unfold ul_iter.
  pose proof (ul1_shift J flags pre rest i l l' Hi HR) as H. unfold ul1_rel in H. fold k in H.
  destruct (ul_iter1 flags pre rest i l) as [n l1|o e l1|], (ul_iter1 flags (pre ++ J) rest (i + k) l') as [n' l1'|o' e' l1'|]; try contradiction; try exact I.
  - destruct H as (<- & H0 & Hz). destruct n as [|n].
    + (* zero advance: the next parameter is parsed at the same offset *)
      pose proof (ul1_shift J flags pre rest i l1 l1' Hi (conj H0 (fun _ => Hz eq_refl))) as H2. unfold ul1_rel in H2. fold k in H2.
      destruct (ul_iter1 flags pre rest i l1) as [n2 l2|o2 e2 l2|], (ul_iter1 flags (pre ++ J) rest (i + k) l1') as [n2' l2'|o2' e2' l2'|]; try contradiction; try exact I.
      * destruct H2 as (<- & H20 & _). cbn. split; [reflexivity|]. split; [exact H20|intros _; lia].
      * exact H2.
    + cbn. split; [reflexivity|]. split; [exact H0|intros _; lia].
  - exact H.
Qed.

Lemma Rul_mono k i j s s' : Rul k i s s' -> i <= j -> Rul k j s s'.
Proof. intros [H1 H2] Hij. split; [exact H1|]. intros E. specialize (H2 E). lia. Qed.
Lemma Forall2_repeat_Rup k n : Forall2 (Rup k) (repeat uriparam0 n) (repeat uriparam0 n).
Proof. induction n; cbn; constructor; auto using Rup_0. Qed.

(* ParseAllURIParams, every capacity, every flag set *)
Theorem uparams_shift flags n junk buf offs : offs <= nnat (length buf) ->
  res_shiftI (rev junk) (Rul0 (nnat (length junk)))
    (parse_all_uri_params flags buf offs (uparams_init (repeat uriparam0 n)))
    (parse_all_uri_params flags (junk ++ buf) (offs + nnat (length junk)) (uparams_init (repeat uriparam0 n))).
Proof.
  intros Ho. unfold parse_all_uri_params. rewrite <- (rev_length junk).
  apply (parse_shiftI (ul_iter flags) (rev junk) (Rul (nnat (length (rev junk)))) (Rul0 (nnat (length (rev junk))))); auto.
  - intros pre rest i s s' Hi HR. apply ul_shift_step; assumption.
  - intros i j s s' H Hij. apply (Rul_mono _ i); assumption.
  - split.
    + unfold Rul0, uparams_init. cbn. split; [apply Forall2_repeat_Rup|]. repeat (split; [reflexivity|]). split; [apply Rup_0|reflexivity].
    + intros E. exfalso. apply E. unfold uparams_init, ul_slot, ul_is_tmp, ul_cap. cbn. destruct (_ <=? 0); [reflexivity|rewrite nth_repeat; reflexivity].
Qed.

(* ---- the URI headers list ------------------------------------------------------------------------------------------------------------------------------ *)
Definition Ruh0 (k : N) (l l' : uhdrs) : Prop :=
  Forall2 (Rtp0 k) (uh_hdrs l) (uh_hdrs l') /\ uh_n l' = uh_n l /\ Rtp0 k (uh_tmp l) (uh_tmp l') /\ uh_vno l' = uh_vno l.
Definition Ruh (k i : N) (l l' : uhdrs) : Prop := Ruh0 k l l' /\ (tp_state (uh_slot l) <> PInit -> 1 <= i).

Lemma Forall2_nth_Rtp k : forall l l' n, Forall2 (Rtp0 k) l l' -> Rtp0 k (nth n l tokparam0) (nth n l' tokparam0).
Proof. intros l l' n H. revert n. induction H as [|x x' l l' Hx _ IH]; intros [|n]; cbn; try apply Rtp0_tokparam0; auto. Qed.
Lemma uh_tmp_rel k l l' : Ruh0 k l l' -> uh_is_tmp l' = uh_is_tmp l.
Proof. intros (Hp & Hn & _). unfold uh_is_tmp, uh_cap. rewrite Hn, <- (Forall2_len' _ _ _ Hp). reflexivity. Qed.
Lemma uh_slot_rel k l l' : Ruh0 k l l' -> Rtp0 k (uh_slot l) (uh_slot l').
Proof.
  intros H. pose proof (uh_tmp_rel k l l' H) as Ht. destruct H as (Hp & Hn & Htmp & _). unfold uh_slot. rewrite Ht, Hn.
  destruct (uh_is_tmp l); [exact Htmp|apply Forall2_nth_Rtp; exact Hp].
Qed.
Lemma uh_store_rel k l l' p p' : Ruh0 k l l' -> Rtp0 k p p' -> Ruh0 k (uh_store l p) (uh_store l' p').
Proof.
  intros H Hp. pose proof (uh_tmp_rel k l l' H) as Ht. unfold uh_store. rewrite Ht. destruct H as (H1 & H2 & H3 & H4).
  destruct (uh_is_tmp l); destruct l, l'; unfold Ruh0; cbn in *; subst; (split; [|split; [|split]]); auto.
  apply Forall2_set_nth'; assumption.
Qed.

Definition uh1_rel (k i : N) (r r' : ires uhdrs) : Prop :=
  match r, r' with
  | Next n l, Next n' l' => n = n' /\ Ruh0 k l l' /\ (n = 0%nat -> 1 <= i)
  | Ret o e l, Ret o' e' l' => o' = o + k /\ e = e' /\ Ruh0 k l l'
  | IPanic, IPanic => True
  | _, _ => False
  end.

Lemma uh1_shift J flags pre rest i l l' : i = nnat (length pre) -> Ruh (nnat (length J)) i l l' ->
  uh1_rel (nnat (length J)) i (uh_iter1 flags pre rest i l) (uh_iter1 flags (pre ++ J) rest (i + nnat (length J)) l').
Proof.
  set (k := nnat (length J)). intros Hi [HR Hi1]. unfold uh_iter1. cbv zeta.
  pose proof (uh_slot_rel k l l' HR) as Hsl.
  pose proof (tp_run_shift J (N.lor flags (N.lor (2 ^ bPOptParamAmpSep) (2 ^ bPOptTokURIHdr))) pre rest i _ _ Hi (conj Hsl Hi1)) as H. unfold res_shiftI in H. fold k in H.
  destruct (run (tp_iter _) pre rest i 0 (uh_slot l)) as [next e tp| |] eqn:Er,
           (run (tp_iter _) (pre ++ J) rest (i + k) 0 (uh_slot l')) as [next' e' tp'| |]; try contradiction; try exact I.
  destruct H as (-> & <- & Htp). rewrite (uh_tmp_rel k l l' HR).
  assert (Hfin : Ruh0 k
     (let l1 := uh_store l tp in let l2 := l1 <| uh_vno := uh_vno l1 + 1 |> in
      let l3 := if uh_is_tmp l then l2 <| uh_tmp := tokparam0 |> else l2 in l3 <| uh_n := uh_n l3 + 1 |>)
     (let l1 := uh_store l' tp' in let l2 := l1 <| uh_vno := uh_vno l1 + 1 |> in
      let l3 := if uh_is_tmp l then l2 <| uh_tmp := tokparam0 |> else l2 in l3 <| uh_n := uh_n l3 + 1 |>)).
  { pose proof (uh_store_rel k l l' tp tp' HR Htp) as (S1 & S2 & S3 & S4). cbv zeta.
    destruct (uh_is_tmp l); destruct (uh_store l tp), (uh_store l' tp'); unfold Ruh0; cbn in *; subst;
      (split; [|split; [|split]]); auto; apply Rtp0_tokparam0. }
  destruct e; try (cbn; split; [reflexivity|]; split; [reflexivity|]; apply uh_store_rel; [exact HR|apply Rtp0_tokparam0]).
  - cbn. split; [reflexivity|]. split; [reflexivity|apply Hfin].
  - cbn. split; [reflexivity|]. split; [reflexivity|apply Hfin].
  - cbn. split; [reflexivity|]. split; [reflexivity|]. apply uh_store_rel; assumption.
  - cbn. split; [f_equal; lia|]. split; [apply Hfin|].
    intros Hz. destruct (N.eq_dec i 0) as [E0|E0]; [|lia]. exfalso.
    assert (Hs0 : tp_state (uh_slot l) = PInit) by (destruct (tp_state (uh_slot l)) eqn:E; try reflexivity; specialize (Hi1 ltac:(discriminate)); lia).
    pose proof (tp_mv_strict _ _ _ _ _ _ _ Hs0 Er). lia.
Qed.

Lemma uh_shift_step J flags pre rest i l l' : i = nnat (length pre) -> Ruh (nnat (length J)) i l l' ->
  ires_shiftI J (Ruh (nnat (length J))) (Ruh0 (nnat (length J))) i (uh_iter flags pre rest i l) (uh_iter flags (pre ++ J) rest (i + nnat (length J)) l').
Proof.
  set (k := nnat (length J)). intros Hi HR. unfold uh_iter.
  pose proof (uh1_shift J flags pre rest i l l' Hi HR) as H. unfold uh1_rel in H. fold k in H.
  destruct (uh_iter1 flags pre rest i l) as [n l1|o e l1|], (uh_iter1 flags (pre ++ J) rest (i + k) l') as [n' l1'|o' e' l1'|]; try contradiction; try exact I.
  - destruct H as (<- & H0 & Hz). destruct n as [|n].
    + pose proof (uh1_shift J flags pre rest i l1 l1' Hi (conj H0 (fun _ => Hz eq_refl))) as H2. unfold uh1_rel in H2. fold k in H2.
      destruct (uh_iter1 flags pre rest i l1) as [n2 l2|o2 e2 l2|], (uh_iter1 flags (pre ++ J) rest (i + k) l1') as [n2' l2'|o2' e2' l2'|]; try contradiction; try exact I.
      * destruct H2 as (<- & H20 & _). cbn. split; [reflexivity|]. split; [exact H20|intros _; lia].
      * exact H2.
    + cbn. split; [reflexivity|]. split; [exact H0|intros _; lia].
  - exact H.
Qed.

Lemma Ruh_mono k i j s s' : Ruh k i s s' -> i <= j -> Ruh k j s s'.
Proof. intros [H1 H2] Hij. split; [exact H1|]. intros E. specialize (H2 E). lia. Qed.
Lemma Forall2_repeat_Rtp k n : Forall2 (Rtp0 k) (repeat tokparam0 n) (repeat tokparam0 n).
Proof. induction n; cbn; constructor; auto using Rtp0_tokparam0. Qed.

(* ParseAllURIHdrs, every capacity, every flag set *)
Theorem uhdrs_shift flags n junk buf offs : offs <= nnat (length buf) ->
  res_shiftI (rev junk) (Ruh0 (nnat (length junk)))
    (parse_all_uri_hdrs flags buf offs (uhdrs_init (repeat tokparam0 n)))
    (parse_all_uri_hdrs flags (junk ++ buf) (offs + nnat (length junk)) (uhdrs_init (repeat tokparam0 n))).
Proof.
  intros Ho. unfold parse_all_uri_hdrs. rewrite <- (rev_length junk).
  apply (parse_shiftI (uh_iter flags) (rev junk) (Ruh (nnat (length (rev junk)))) (Ruh0 (nnat (length (rev junk))))); auto.
  - intros pre rest i s s' Hi HR. apply uh_shift_step; assumption.
  - intros i j s s' H Hij. apply (Ruh_mono _ i); assumption.
  - split.
    + unfold Ruh0, uhdrs_init. cbn. split; [apply Forall2_repeat_Rtp|]. split; [reflexivity|]. split; [apply Rtp0_tokparam0|reflexivity].
    + intros E. exfalso. apply E. unfold uhdrs_init, uh_slot, uh_is_tmp, uh_cap. cbn. destruct (_ <=? 0); [reflexivity|rewrite nth_repeat; reflexivity].
Qed.
