(* C16: header-name and method classification is total and exactly the table.
   The table below is the literal list of the property text; the hash buckets
   and bit widths are the ones generated from /repo (Gen/Tables.v). *)
From Sipsp Require Import Lookup Tables.
From Coq Require Import String Ascii ZifyN ZifyNat ZifyBool.
Local Open Scope N_scope.

Definition bytes_of (s : string) : list byte := map N_of_ascii (list_ascii_of_string s).

Definition spec_hdrs : list (list byte * N) :=
  map (fun '(s, t) => (bytes_of s, t))
  [("from", 1); ("f", 1); ("to", 2); ("t", 2); ("call-id", 3); ("i", 3); ("cseq", 4); ("via", 5); ("v", 5);
   ("max-forwards", 6); ("content-length", 7); ("l", 7); ("contact", 8); ("m", 8); ("expires", 9);
   ("user-agent", 10); ("record-route", 11); ("route", 12); ("p-asserted-identity", 13)]%string.
Definition spec_methods : list (list byte * N) :=
  map (fun '(s, t) => (bytes_of s, t))
  [("REGISTER", 1); ("INVITE", 2); ("ACK", 3); ("BYE", 4); ("PRACK", 5); ("CANCEL", 6); ("OPTIONS", 7);
   ("SUBSCRIBE", 8); ("NOTIFY", 9); ("UPDATE", 10); ("INFO", 11); ("REFER", 12); ("PUBLISH", 13);
   ("MESSAGE", 14)]%string.

(* ---- list / byte facts ---------------------------------------------------- *)
Lemma eqb_bytes_eq a : forall b, eqb_bytes a b = true <-> a = b.
Proof.
  induction a as [|x a IH]; intros [|y b]; cbn; split; intros H; try discriminate; auto.
  - apply andb_true_iff in H as [H1 H2]. apply N.eqb_eq in H1. apply IH in H2. congruence.
  - injection H as -> ->. rewrite N.eqb_refl. apply IH. reflexivity.
Qed.

Lemma to_lower_idem c : to_lower (to_lower c) = to_lower c.
Proof.
  unfold to_lower, is_upper.
  destruct ((65 <=? c) && (c <=? 90)) eqn:E; [|rewrite E; reflexivity].
  destruct ((65 <=? c + 32) && (c + 32 <=? 90)) eqn:E2; lia.
Qed.
Lemma map_lower_idem l : map to_lower (map to_lower l) = map to_lower l.
Proof. induction l as [|c l IH]; cbn; [reflexivity|]. now rewrite to_lower_idem, IH. Qed.

Lemma nocase_eq a b : eqb_nocase a b = true <-> map to_lower a = map to_lower b.
Proof. unfold eqb_nocase. apply eqb_bytes_eq. Qed.

(* the hash only looks at the lower-cased first byte and the length *)
Lemma hash_nocase bl bf a b : eqb_nocase a b = true -> hash_name bl bf a = hash_name bl bf b.
Proof.
  intros H. apply nocase_eq in H. unfold hash_name.
  destruct a as [|x a], b as [|y b]; cbn in H; try discriminate; auto.
  injection H as Hx Hl. rewrite Hx. f_equal. f_equal. f_equal.
  apply (f_equal (@List.length _)) in Hl. rewrite !map_length in Hl. cbn [List.length]. lia.
Qed.

(* ---- find_name ---------------------------------------------------------------- *)
Lemma find_some eq name b t : find_name eq name b = Some t ->
  exists n, In (n, t) b /\ eq name n = true.
Proof.
  induction b as [|[n t'] b IH]; cbn; [discriminate|].
  destruct (eq name n) eqn:E.
  - intros H. injection H as ->. exists n. auto.
  - intros H. destruct (IH H) as (n' & Hin & He). exists n'. auto.
Qed.
Lemma find_in eq name b n t : In (n, t) b -> eq name n = true ->
  exists n' t', find_name eq name b = Some t' /\ In (n', t') b /\ eq name n' = true.
Proof.
  induction b as [|[n0 t0] b IH]; cbn; [tauto|].
  intros [H|H] He.
  - injection H as -> ->. rewrite He. exists n, t. auto.
  - destruct (eq name n0) eqn:E.
    + exists n0, t0. auto.
    + destruct (IH H He) as (n' & t' & H1 & H2 & H3). exists n', t'. auto.
Qed.
Lemma find_none eq name b : find_name eq name b = None -> forall n t, In (n, t) b -> eq name n = false.
Proof.
  induction b as [|[n0 t0] b IH]; cbn; [tauto|].
  destruct (eq name n0) eqn:E; [discriminate|].
  intros H n t [Hin|Hin]; [congruence|]. eapply IH; eauto.
Qed.

(* ---- what is checked by computation on the generated tables --------------------- *)
Definition entry_eqb (a b : list byte * N) : bool := eqb_bytes (fst a) (fst b) && (snd a =? snd b).
Lemma entry_eqb_eq a b : entry_eqb a b = true <-> a = b.
Proof.
  destruct a as [n t], b as [n' t']. unfold entry_eqb. cbn. rewrite andb_true_iff, eqb_bytes_eq, N.eqb_eq.
  split; [intros [-> ->]; reflexivity | intros H; injection H; auto].
Qed.
Definition mem_entry (e : list byte * N) (l : list (list byte * N)) : bool := existsb (entry_eqb e) l.
Lemma mem_entry_in e l : mem_entry e l = true <-> In e l.
Proof.
  unfold mem_entry. rewrite existsb_exists. split.
  - intros (x & Hin & He). apply entry_eqb_eq in He. now subst.
  - intros H. exists e. split; auto. apply entry_eqb_eq. reflexivity.
Qed.

Definition hdr_bucket (n : list byte) := nth (N.to_nat (hash_name go_hnBitsLen go_hnBitsFChar n)) go_hdr_buckets [].
Definition mth_bucket (n : list byte) := nth (N.to_nat (hash_name go_mthBitsLen go_mthBitsFChar n)) go_mth_buckets [].

(* every table entry sits in the bucket its own name hashes to *)
Definition chk_spec_in_buckets : bool :=
  forallb (fun e => mem_entry e (hdr_bucket (fst e))) spec_hdrs
  && forallb (fun e => mem_entry e (mth_bucket (fst e))) spec_methods.
(* every bucket entry is a table entry; header names are stored lower-case *)
Definition chk_buckets_in_spec : bool :=
  forallb (forallb (fun e => mem_entry e spec_hdrs && eqb_bytes (map to_lower (fst e)) (fst e))) go_hdr_buckets
  && forallb (forallb (fun e => mem_entry e spec_methods)) go_mth_buckets.
(* names are unique; no entry has the type 'other' *)
Fixpoint nodup_names (l : list (list byte * N)) : bool :=
  match l with
  | [] => true
  | (n, _) :: l' => negb (existsb (fun e => eqb_bytes n (fst e)) l') && nodup_names l'
  end.
Definition chk_names : bool :=
  nodup_names spec_hdrs && nodup_names spec_methods
  && forallb (fun e => negb (snd e =? HdrOther)) spec_hdrs && forallb (fun e => negb (snd e =? MOther)) spec_methods
  && forallb (fun e => match fst e with [] => false | _ => true end) (spec_hdrs ++ spec_methods).

Lemma chk_spec_in_buckets_ok : chk_spec_in_buckets = true. Proof. vm_compute. reflexivity. Qed.
Lemma chk_buckets_in_spec_ok : chk_buckets_in_spec = true. Proof. vm_compute. reflexivity. Qed.
Lemma chk_names_ok : chk_names = true. Proof. vm_compute. reflexivity. Qed.

Lemma nodup_names_unique l : nodup_names l = true ->
  forall n t t', In (n, t) l -> In (n, t') l -> t = t'.
Proof.
  induction l as [|[n0 t0] l IH]; cbn; [tauto|].
  intros H. apply andb_true_iff in H as [Hn Hl]. apply negb_true_iff in Hn.
  assert (Hnot : forall t, ~ In (n0, t) l).
  { intros t Hin. assert (existsb (fun e => eqb_bytes n0 (fst e)) l = true); [|congruence].
    apply existsb_exists. exists (n0, t). split; auto. apply eqb_bytes_eq. reflexivity. }
  intros n t t' [H1|H1] [H2|H2].
  - congruence.
  - injection H1 as -> ->. exfalso. eapply Hnot; eauto.
  - injection H2 as -> ->. exfalso. eapply Hnot; eauto.
  - eapply IH; eauto.
Qed.

Lemma in_bucket_nth {A} (bs : list (list A)) k (e : A) : In e (nth k bs []) -> exists b, In b bs /\ In e b.
Proof.
  revert k; induction bs as [|b bs IH]; intros [|k]; cbn; try tauto.
  - intros H. exists b. auto.
  - intros H. destruct (IH k H) as (b' & H1 & H2). exists b'. auto.
Qed.

(* ---- the classification theorems -------------------------------------------------- *)
Theorem hdr_type_spec name t : name <> [] ->
  (get_hdr_type name = t /\ t <> HdrOther) <-> In (map to_lower name, t) spec_hdrs.
Proof.
  intros Hne.
  pose proof chk_spec_in_buckets_ok as C1. apply andb_true_iff in C1 as [C1 _].
  pose proof chk_buckets_in_spec_ok as C2. apply andb_true_iff in C2 as [C2 _].
  pose proof chk_names_ok as C3. unfold chk_names in C3. repeat (apply andb_true_iff in C3 as [C3 ?]).
  rename H1 into Hother.
  assert (Hb : forall k n t0, In (n, t0) (nth k go_hdr_buckets []) -> In (n, t0) spec_hdrs /\ map to_lower n = n).
  { intros k n t0 Hin. destruct (in_bucket_nth _ _ _ Hin) as (b & Hb1 & Hb2).
    rewrite forallb_forall in C2. specialize (C2 b Hb1). rewrite forallb_forall in C2. specialize (C2 _ Hb2).
    apply andb_true_iff in C2 as [Ca Cb]. split; [now apply mem_entry_in | now apply eqb_bytes_eq]. }
  unfold get_hdr_type. destruct name as [|c name']; [congruence|]. set (name := c :: name') in *.
  fold (hdr_bucket name).
  split.
  - intros [Ht Hno]. destruct (find_name eqb_nocase name (hdr_bucket name)) as [t0|] eqn:E; [|congruence].
    subst t0. apply find_some in E as (n & Hin & He).
    destruct (Hb _ _ _ Hin) as [Hs Hl]. apply nocase_eq in He. rewrite Hl in He. rewrite He. exact Hs.
  - intros Hin. set (n := map to_lower name) in *.
    assert (He : eqb_nocase name n = true) by (apply nocase_eq; subst n; now rewrite map_lower_idem).
    assert (Hbk : In (n, t) (hdr_bucket name)).
    { rewrite forallb_forall in C1. specialize (C1 _ Hin). apply mem_entry_in in C1. cbn [fst] in C1.
      unfold hdr_bucket in *. now rewrite (hash_nocase _ _ name n He). }
    destruct (find_in eqb_nocase name _ n t Hbk He) as (n' & t' & Hf & Hin' & He').
    rewrite Hf. destruct (Hb _ _ _ Hin') as [Hs' Hl']. apply nocase_eq in He'. rewrite Hl' in He'. fold n in He'. subst n'.
    assert (t' = t) by (apply (nodup_names_unique spec_hdrs C3 n t' t); assumption). subst t'. split; [reflexivity|].
    rewrite forallb_forall in Hother. specialize (Hother _ Hin). cbn [snd] in Hother.
    apply negb_true_iff, N.eqb_neq in Hother. exact Hother.
Qed.

Theorem method_no_spec name t : name <> [] ->
  (get_method_no name = t /\ t <> MOther) <-> In (name, t) spec_methods.
Proof.
  intros Hne.
  pose proof chk_spec_in_buckets_ok as C1. apply andb_true_iff in C1 as [_ C1].
  pose proof chk_buckets_in_spec_ok as C2. apply andb_true_iff in C2 as [_ C2].
  pose proof chk_names_ok as C3. unfold chk_names in C3. repeat (apply andb_true_iff in C3 as [C3 ?]).
  rename H0 into Hother.
  assert (Hb : forall k n t0, In (n, t0) (nth k go_mth_buckets []) -> In (n, t0) spec_methods).
  { intros k n t0 Hin. destruct (in_bucket_nth _ _ _ Hin) as (b & Hb1 & Hb2).
    rewrite forallb_forall in C2. specialize (C2 b Hb1). rewrite forallb_forall in C2. specialize (C2 _ Hb2).
    now apply mem_entry_in. }
  unfold get_method_no. destruct name as [|c name']; [congruence|]. set (name := c :: name') in *.
  fold (mth_bucket name).
  split.
  - intros [Ht Hno]. destruct (find_name eqb_bytes name (mth_bucket name)) as [t0|] eqn:E; [|congruence].
    subst t0. apply find_some in E as (n & Hin & He). apply eqb_bytes_eq in He. subst n. eapply Hb; eauto.
  - intros Hin.
    assert (Hbk : In (name, t) (mth_bucket name)).
    { rewrite forallb_forall in C1. specialize (C1 _ Hin). now apply mem_entry_in in C1. }
    assert (He : eqb_bytes name name = true) by (apply eqb_bytes_eq; reflexivity).
    destruct (find_in eqb_bytes name _ name t Hbk He) as (n' & t' & Hf & Hin' & He').
    rewrite Hf. apply eqb_bytes_eq in He'. subst n'. apply Hb in Hin'.
    assert (t' = t) by (apply (nodup_names_unique spec_methods H2 name t' t); assumption). subst t'. split; [reflexivity|].
    rewrite forallb_forall in Hother. specialize (Hother _ Hin). cbn [snd] in Hother.
    apply negb_true_iff, N.eqb_neq in Hother. exact Hother.
Qed.

(* total, including the empty name *)
Lemma hdr_type_empty : get_hdr_type [] = HdrOther. Proof. reflexivity. Qed.
Lemma method_no_empty : get_method_no [] = MOther. Proof. reflexivity. Qed.

(* method -> name -> method is the identity on the 14 known methods *)
Lemma method_roundtrip : forall m, In m [1;2;3;4;5;6;7;8;9;10;11;12;13;14] -> get_method_no (method_name m) = m.
Proof. intros m H. repeat (destruct H as [<-|H]; [vm_compute; reflexivity|]). destruct H. Qed.
Lemma method_name_spec : forall n t, In (n, t) spec_methods -> method_name t = n.
Proof. intros n t H. repeat (destruct H as [H|H]; [injection H as <- <-; vm_compute; reflexivity|]). destruct H. Qed.
