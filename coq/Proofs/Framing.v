(* C06: the body section of ParseSIPMsg (and the C05 clauses about Body / RawMsg) *)
From Sipsp Require Import Harness.
From Coq Require Import ZifyN ZifyNat ZifyBool.

Definition fl_skip (flags : N) := testbit flags bSIPMsgSkipBody.
Definition fl_req (flags : N) := testbit flags bSIPMsgCLenReq.
Definition fl_nomore (flags : N) := testbit flags bSIPMsgNoMoreData.

(* the finished message: body [h,e), Buf = buf[0:e], RawMsg = [offs,e) *)
Definition finished (m : pmsg) (h e : N) : pmsg :=
  m <| m_body := mkpf h (e - h) |> <| m_buflen := e |> <| m_raw := Some (m_offs m, e - m_offs m) |>
    <| m_state := MFIN |>.

Lemma msg_end_ok buflen h e m : m_offs m <= e -> h <= e -> e <= buflen -> m_body m = mkpf h 0 ->
  msg_end buflen e m = Done e EOk (finished m h e).
Proof.
  intros H1 H2 H3 Hb. unfold msg_end, pf_extend. rewrite Hb. cbn [po].
  destruct (e <? h) eqn:E1; [lia|].
  destruct ((buflen <? e) || (e <? m_offs m)) eqn:E2; [lia|].
  unfold finished. destruct m; cbn in *. subst. reflexivity.
Qed.

Section Body.
  Variables (flags buflen h : N) (m : pmsg).
  Hypothesis Hoffs : m_offs m <= h.
  Hypothesis Hh : h <= buflen.
  Let m0 := m <| m_body := mkpf h 0 |>.
  Let clen := pv_clen (msg_pv m).
  Let n := ui_val clen.

  Lemma body_set : pf_set h h = Some (mkpf h 0).
  Proof. unfold pf_set. rewrite N.ltb_irrefl, N.sub_diag. reflexivity. Qed.

  Lemma m0_pv : msg_pv m0 = msg_pv m.
  Proof. reflexivity. Qed.

  (* skip-body mode returns the body start; with require-Content-Length a missing
     Content-Length is reported *)
  Lemma body_skip : fl_skip flags = true ->
    msg_body flags buflen h m =
      if fl_req flags && negb (ui_parsed clen)
      then Done h ENoCLen (m0 <| m_state := MNoCLen |> <| m_buflen := h |> <| m_raw := Some (m_offs m, h - m_offs m) |>)
      else Done h EOk (finished m0 h h).
  Proof.
    intros Hs. unfold msg_body. rewrite body_set. fold m0. unfold fl_skip, fl_req in *. rewrite Hs.
    fold clen. change (pv_clen (msg_pv m0)) with clen.
    destruct (testbit flags bSIPMsgCLenReq && negb (ui_parsed clen)) eqn:E.
    - destruct ((buflen <? h) || (h <? m_offs m0)) eqn:E2; [cbn in E2; lia|]. reflexivity.
    - rewrite (msg_end_ok buflen h h) by (cbn; auto; lia).
      unfold finished. cbn. reflexivity.
  Qed.

  (* body parsing on, Content-Length n *)
  Lemma body_clen : fl_skip flags = false -> ui_parsed clen = true ->
    msg_body flags buflen h m =
      if buflen <? h + n then
        (if fl_nomore flags then Done buflen EOk (finished m0 h buflen) else Done h EMore m0)
      else Done (h + n) EOk (finished m0 h (h + n)).
  Proof.
    intros Hs Hp. unfold msg_body. rewrite body_set. fold m0. unfold fl_skip, fl_nomore in *. rewrite Hs.
    change (pv_clen (msg_pv m0)) with clen. rewrite Hp. fold n.
    destruct (buflen <? h + n) eqn:E.
    - destruct (testbit flags bSIPMsgNoMoreData); [|reflexivity].
      apply msg_end_ok; cbn; auto; lia.
    - apply msg_end_ok; cbn; auto; lia.
  Qed.

  (* body parsing on, no Content-Length *)
  Lemma body_noclen : fl_skip flags = false -> ui_parsed clen = false ->
    msg_body flags buflen h m =
      if fl_req flags then Done h EOk (finished m0 h h) else Done buflen EOk (finished m0 h buflen).
  Proof.
    intros Hs Hp. unfold msg_body. rewrite body_set. fold m0. unfold fl_skip, fl_req in *. rewrite Hs.
    change (pv_clen (msg_pv m0)) with clen. rewrite Hp.
    destruct (testbit flags bSIPMsgCLenReq); apply msg_end_ok; cbn; auto; lia.
  Qed.
End Body.

(* the whole message parser reaches the body section exactly when the first
   line and the header block were parsed *)
Lemma parse_sipmsg_sections flags buf offs m fl o1 hs h :
  m_state m = MInit ->
  parse_fline buf offs (m_fl m) = Done o1 EOk fl ->
  parse_headers buf o1 (m_hs m) = Done h EOk hs ->
  parse_sipmsg flags buf offs m =
    msg_body flags (nnat (length buf)) h
      (m <| m_buflen := nnat (length buf) |> <| m_offs := offs |> <| m_state := MFLine |> <| m_fl := fl |>
         <| m_state := MHeaders |> <| m_hs := hs |> <| m_state := MBody |>).
Proof.
  intros Hst Hfl Hhs. destruct m as [fl0 hs0 body bl raw st offs0].
  cbn -[parse_fline parse_headers msg_body] in *. subst st.
  unfold parse_sipmsg, msg_fline. cbn -[parse_fline parse_headers msg_body]. rewrite Hfl.
  unfold msg_headers. cbn -[parse_fline parse_headers msg_body]. rewrite Hhs. reflexivity.
Qed.

(* C05: on success the body ends at the returned offset, RawMsg is exactly the
   bytes from the start offset to the returned offset, Buf ends there too *)
Lemma finished_views m h e :
  pf_end (m_body (finished m h e)) = h + (e - h) /\
  m_raw (finished m h e) = Some (m_offs m, e - m_offs m) /\ m_buflen (finished m h e) = e /\
  msg_parsed (finished m h e) = true.
Proof. unfold finished, pf_end. cbn. auto. Qed.
