(* Method R with an invariant: the per-iteration extension property may assume an invariant I of the
   object, provided every continuing iteration and every suspension re-establishes it.  Used for the
   URI parameter / URI header lists, whose extension property needs the unused slots to be clean. *)
From Sipsp Require Import RunLemmas Resume Ext ExtLeaf.
From Coq Require Import ZifyN ZifyNat ZifyBool.

Section ExtI.
  Context {St : Type}.
  Variable iter : list byte -> list byte -> N -> St -> ires St.
  Variable obs : St -> list Z.
  Variable Iv : St -> Prop.

  Definition clauseI (pre rest x : list byte) (j : N) (r r' : ires St) : Prop :=
    match r with
    | Next k t' => (k <= length rest)%nat -> r' = Next k t' /\ ((0 < k)%nat -> Iv t')
    | Ret o EMore t' =>
      Iv t' /\ exists k, (k <= length rest)%nat /\ o = j + nnat k /\
        run iter (zpre k pre (rest ++ x)) (zrest k (rest ++ x)) o 0 t' = after iter pre (rest ++ x) j r'
    | Ret o e t' => r' = Ret o e t'
    | IPanic => True
    end.

  Definition IterExtI : Prop := forall pre rest x j t, j = nnat (length pre) -> Iv t ->
    clauseI pre rest x j (iter pre rest j t) (iter pre (rest ++ x) j t).

  Hypothesis HI : IterExtI.

  Lemma run_extI : forall rest pre x j t, j = nnat (length pre) -> Iv t ->
    match run iter pre rest j 0 t with
    | Done o EMore t' =>
      Iv t' /\ exists k, (k <= length rest)%nat /\ o = j + nnat k /\
        run iter (zpre k pre (rest ++ x)) (zrest k (rest ++ x)) o 0 t' = run iter pre (rest ++ x) j 0 t
    | Done o e t' => run iter pre (rest ++ x) j 0 t = Done o e t'
    | _ => True
    end.
  Proof.
    intros rest. remember (length rest) as n eqn:Hn. revert rest Hn.
    induction n as [n IH] using lt_wf_ind. intros rest Hn pre x j t Hj Ht.
    pose proof (HI pre rest x j t Hj Ht) as H. unfold clauseI in H.
    rewrite (run_after iter pre rest), (run_after iter pre (rest ++ x)).
    destruct (iter pre rest j t) as [k t'|o e t'|] eqn:E; [| |exact I].
    - (* Next *)
      unfold after at 1. destruct k as [|k]; [exact I|].
      destruct (S k <=? length rest)%nat eqn:Ek; [|exact I]. apply Nat.leb_le in Ek.
      destruct (H Ek) as [-> Ht']. specialize (Ht' ltac:(lia)).
      unfold after. replace (S k <=? length (rest ++ x))%nat with true by (symmetry; apply Nat.leb_le; rewrite app_length; lia).
      rewrite (zpre_app (S k) pre rest x Ek), (zrest_app (S k) rest x Ek).
      assert (Hlen : (length (zrest (S k) rest) < n)%nat) by (rewrite zrest_length; lia).
      assert (Hj' : j + nnat (S k) = nnat (length (zpre (S k) pre rest))).
      { unfold zpre. rewrite app_length, rev_length, firstn_length. unfold nnat in *. lia. }
      specialize (IH _ Hlen _ eq_refl (zpre (S k) pre rest) x (j + nnat (S k)) t' Hj' Ht').
      destruct (run iter (zpre (S k) pre rest) (zrest (S k) rest) (j + nnat (S k)) 0 t') as [o e t''| |]; auto.
      destruct e; try exact IH.
      destruct IH as (It & k2 & Hk2 & Ho & Hrq). rewrite zrest_length in Hk2. split; [exact It|].
      exists (S k + k2)%nat. split; [lia|]. split; [unfold nnat in *; lia|].
      rewrite <- (zpre_zpre (S k) k2 pre (rest ++ x)) by (rewrite app_length; lia).
      rewrite <- (zrest_zrest (S k) k2 (rest ++ x)).
      rewrite (zpre_app (S k) pre rest x Ek), (zrest_app (S k) rest x Ek). exact Hrq.
    - (* Ret *)
      unfold after at 1. destruct e; try (rewrite H; reflexivity).
      destruct H as (It & k & Hk & Ho & Hr). split; [exact It|]. exists k. split; [lia|]. split; [exact Ho|exact Hr].
  Qed.

  Theorem parse_ExtOKI : ExtOK (parse iter) obs (fun _ s => Iv s).
  Proof.
    intros p x i s Hs Hi. unfold parse.
    assert (Hlen : i = nnat (length (rev (firstn (N.to_nat i) p)))).
    { rewrite rev_length, firstn_length. unfold nnat in *. lia. }
    pose proof (run_extI (skipn (N.to_nat i) p) (rev (firstn (N.to_nat i) p)) x i s Hlen Hs) as H.
    rewrite (zinit_app p x i Hi).
    replace (zinit p i) with (rev (firstn (N.to_nat i) p), skipn (N.to_nat i) p) by reflexivity.
    destruct (run iter (rev (firstn (N.to_nat i) p)) (skipn (N.to_nat i) p) i 0 s) as [o e s'| |]; auto.
    destruct e; try (rewrite H; apply req_refl).
    destruct H as (It & k & Hk & -> & Hrq). rewrite skipn_length in Hk.
    split; [exact It|]. split; [unfold nnat in *; lia|].
    assert (Hb : (N.to_nat i + k <= length (p ++ x))%nat) by (rewrite app_length; unfold nnat in *; lia).
    rewrite (zinit_advance (p ++ x) i k Hb).
    assert (E1 : firstn (N.to_nat i) (p ++ x) = firstn (N.to_nat i) p).
    { rewrite firstn_app. replace (N.to_nat i - length p)%nat with 0%nat by (unfold nnat in *; lia). cbn. now rewrite app_nil_r. }
    assert (E2 : skipn (N.to_nat i) (p ++ x) = skipn (N.to_nat i) p ++ x).
    { rewrite skipn_app. replace (N.to_nat i - length p)%nat with 0%nat by (unfold nnat in *; lia). reflexivity. }
    rewrite E1, E2, Hrq. apply req_refl.
  Qed.
End ExtI.
