(* C15, parser side of the laws: URIHdrsEq / URIParamsEq on the TEXT of two lists name=value<sep>...<sep>name=value
   is the entry-level comparison of the (name, value) pairs that were written - so a re-ordered / re-cased rendering
   of a list without duplicate names compares equal, and one with a different value compares different. *)
From Sipsp Require Import Driver Harness RunLemmas ZSlice FLineSpec TokSpec NameAddrSpec UListSpec UHListSpec TokEoi Classify Misc CmpLaws CmpLists.
From Coq Require Import ZifyN ZifyNat ZifyBool Permutation.
From RecordUpdate Require Import RecordUpdate.

Lemma bget_mid buf (P M S : list byte) o n : buf = P ++ M ++ S -> o = nnat (length P) -> n = nnat (length M) -> bget_d buf (mkpf o n) = M.
Proof.
  intros -> -> ->. unfold bget_d, bget, zget, pf_end. cbn [po pl].
  rewrite (zslice_mid [] (P ++ M ++ S) 0 P M S eq_refl eq_refl). reflexivity.
Qed.
Lemma firstn_nth_eq {A} (l l' : list A) d k : length l' = k -> (k <= length l)%nat ->
  (forall j, (j < k)%nat -> nth j l d = nth j l' d) -> firstn k l = l'.
Proof.
  intros Hl' Hk H. apply (nth_ext _ _ d d); [rewrite firstn_length; lia|].
  intros j Hj. rewrite firstn_length in Hj. rewrite <- H by lia.
  rewrite <- (firstn_skipn k l) at 2. rewrite app_nth1 by (rewrite firstn_length; lia). reflexivity.
Qed.

(* ---- headers ------------------------------------------------------------------------------------------------------------------------------- *)
Section Hdrs.
  Notation f0 := cmp_flags_hdrs.
  Lemma hdrs_ie : tf_ie (tp_decode (N.lor f0 (N.lor (2 ^ bPOptParamAmpSep) (2 ^ bPOptTokURIHdr)))) = true.
  Proof. reflexivity. Qed.

  Definition hget (buf : list byte) (p : tokparam) : list byte * list byte := (bget_d buf (tp_name p), bget_d buf (tp_val p)).
  Lemma hl_texts ps : forall junk tail, map (hget (junk ++ hl_bytes f0 ps ++ tail)) (hl_entries (nnat (length junk)) ps) = ps.
  Proof.
    induction ps as [|p ps IH]; intros junk tail; [reflexivity|].
    assert (Hd : forall st X, hget (junk ++ p_bytes p ++ X) (h_entry p (nnat (length junk)) st) = p).
    { intros st X. unfold hget, h_entry, p_bytes. cbn [tp_name tp_val]. destruct p as [nm vl]. cbn [fst snd]. f_equal.
      - apply (bget_mid _ junk nm (61 :: vl ++ X)); [rewrite <- app_assoc; reflexivity|reflexivity|reflexivity].
      - apply (bget_mid _ (junk ++ nm ++ [61]) vl X); [repeat (rewrite <- ?app_assoc; cbn [app]); reflexivity| |reflexivity].
        rewrite !app_length. cbn [length]. unfold nnat. lia. }
    destruct ps as [|p2 ps].
    - cbn [hl_bytes hl_entries map]. rewrite Hd. reflexivity.
    - change (hl_bytes f0 (p :: p2 :: ps)) with (p_bytes p ++ tf_sep (tp_decode (N.lor f0 (N.lor (2 ^ bPOptParamAmpSep) (2 ^ bPOptTokURIHdr)))) :: hl_bytes f0 (p2 :: ps)).
      change (hl_entries (nnat (length junk)) (p :: p2 :: ps)) with (h_entry p (nnat (length junk)) PInitNxtVal :: hl_entries (nnat (length junk) + p_len p + 1) (p2 :: ps)).
      set (sp := tf_sep _). cbn [map]. rewrite <- app_assoc. rewrite Hd. f_equal.
      specialize (IH (junk ++ p_bytes p ++ [sp]) tail).
      replace (nnat (length (junk ++ p_bytes p ++ [sp]))) with (nnat (length junk) + p_len p + 1) in IH
        by (unfold p_len; rewrite !app_length; cbn [length]; unfold nnat; lia).
      replace ((junk ++ p_bytes p ++ [sp]) ++ hl_bytes f0 (p2 :: ps) ++ tail) with (junk ++ p_bytes p ++ (sp :: hl_bytes f0 (p2 :: ps)) ++ tail) in IH
        by (repeat (rewrite <- ?app_assoc; cbn [app]); reflexivity).
      exact IH.
  Qed.

  Definition hlist_ok (ps : list ptxt) : Prop := ps <> [] /\ Forall (h_ok f0) ps /\ (length ps <= cmp_cap)%nat.

  Lemma parse_rendered_hdrs ps : hlist_ok ps ->
    exists o L, parse_all_uri_hdrs f0 (hl_bytes f0 ps) 0 (uhdrs_init (repeat tokparam0 cmp_cap)) = Done o EEOH L /\ uh_entries L (hl_bytes f0 ps) = ps.
  Proof.
    intros (Hne & Hall & Hlen).
    destruct (uri_hdrs_list_spec_eoi f0 hdrs_ie ps [] cmp_cap Hne Hall) as (L & HP & Hn & _ & Hcap & Hnth). cbn [app length] in HP, Hnth.
    change (nnat 0) with 0 in HP, Hnth. exists (0 + nnat (length (hl_bytes f0 ps))), L. split; [exact HP|].
    unfold uh_entries, uh_hno, uh_cap. rewrite Hn, Hcap.
    replace (N.to_nat (N.min (nnat (length ps)) (nnat cmp_cap))) with (length ps) by (unfold nnat; lia).
    rewrite (firstn_nth_eq (uh_hdrs L) (hl_entries 0 ps) tokparam0 (length ps) (hl_entries_length ps 0) ltac:(lia)).
    2:{ intros j Hj. apply Hnth; lia. }
    pose proof (hl_texts ps [] []) as T. cbn [app length] in T. rewrite app_nil_r in T. exact T.
  Qed.

  (* the text-level comparison is the comparison of the pairs as written *)
  Theorem uri_hdrs_eq_rendered ps ps' : hlist_ok ps -> hlist_ok ps' ->
    uri_hdrs_eq (hl_bytes f0 ps) 0 (hl_bytes f0 ps') 0 = Some (uhdrs_entries_eq ps ps', EOk).
  Proof.
    intros H1 H2. destruct (parse_rendered_hdrs ps H1) as (o1 & L1 & P1 & E1). destruct (parse_rendered_hdrs ps' H2) as (o2 & L2 & P2 & E2).
    unfold uri_hdrs_eq. rewrite P1, P2. cbn [err_eqb orb negb]. unfold uhdrs_lst_eq. rewrite E1, E2. reflexivity.
  Qed.
  Corollary uri_hdrs_eq_rendered_iff ps ps' : hlist_ok ps -> hlist_ok ps' -> names_nodup ps -> names_nodup ps' ->
    (uri_hdrs_eq (hl_bytes f0 ps) 0 (hl_bytes f0 ps') 0 = Some (true, EOk) <-> Permutation (map lp ps) (map lp ps')).
  Proof.
    intros H1 H2 N1 N2. rewrite (uri_hdrs_eq_rendered ps ps' H1 H2), <- (uhdrs_eq_spec ps ps' N1 N2).
    split; [intros E; injection E; auto|intros ->; reflexivity].
  Qed.
End Hdrs.

(* ---- parameters ---------------------------------------------------------------------------------------------------------------------------- *)
Section Params.
  Notation f0 := cmp_flags_params.
  Lemma params_ie : tf_ie (tp_decode (N.lor f0 (2 ^ bPOptParamSemiSep))) = true.
  Proof. reflexivity. Qed.

  Definition pget (buf : list byte) (p : uriparam) : pent := (up_t p, bget_d buf (tp_name (up_param p)), bget_d buf (tp_val (up_param p))).
  Definition pent_of (p : ptxt) : pent := (uri_param_resolve (fst p), fst p, snd p).
  Lemma l_texts ps : forall junk tail, map (pget (junk ++ l_bytes f0 ps ++ tail)) (l_entries (nnat (length junk)) ps) = map pent_of ps.
  Proof.
    induction ps as [|p ps IH]; intros junk tail; [reflexivity|].
    assert (Hd : forall st X, pget (junk ++ p_bytes p ++ X) (p_entry p (nnat (length junk)) st) = pent_of p).
    { intros st X. unfold pget, pent_of, p_entry, p_bytes. cbn [tp_name tp_val up_param up_t]. destruct p as [nm vl]. cbn [fst snd]. f_equal; [f_equal|].
      - apply (bget_mid _ junk nm (61 :: vl ++ X)); [rewrite <- app_assoc; reflexivity|reflexivity|reflexivity].
      - apply (bget_mid _ (junk ++ nm ++ [61]) vl X); [repeat (rewrite <- ?app_assoc; cbn [app]); reflexivity| |reflexivity].
        rewrite !app_length. cbn [length]. unfold nnat. lia. }
    destruct ps as [|p2 ps].
    - cbn [l_bytes l_entries map]. rewrite Hd. reflexivity.
    - change (l_bytes f0 (p :: p2 :: ps)) with (p_bytes p ++ tf_sep (tp_decode (N.lor f0 (2 ^ bPOptParamSemiSep))) :: l_bytes f0 (p2 :: ps)).
      change (l_entries (nnat (length junk)) (p :: p2 :: ps)) with (p_entry p (nnat (length junk)) PInitNxtVal :: l_entries (nnat (length junk) + p_len p + 1) (p2 :: ps)).
      set (sp := tf_sep _). cbn [map]. rewrite <- app_assoc. rewrite Hd. f_equal.
      specialize (IH (junk ++ p_bytes p ++ [sp]) tail).
      replace (nnat (length (junk ++ p_bytes p ++ [sp]))) with (nnat (length junk) + p_len p + 1) in IH
        by (unfold p_len; rewrite !app_length; cbn [length]; unfold nnat; lia).
      replace ((junk ++ p_bytes p ++ [sp]) ++ l_bytes f0 (p2 :: ps) ++ tail) with (junk ++ p_bytes p ++ (sp :: l_bytes f0 (p2 :: ps)) ++ tail) in IH
        by (repeat (rewrite <- ?app_assoc; cbn [app]); reflexivity).
      exact IH.
  Qed.

  (* the kind mask of the list: the union of the kinds of the names *)
  Definition tyof (ps : list ptxt) : N := fold_right (fun p a => N.lor (uri_param_resolve (fst p)) a) 0 ps.
  Lemma fold_types ps : forall i a, fold_left (fun a p => N.lor a (up_t p)) (l_entries i ps) a = N.lor a (tyof ps).
  Proof.
    induction ps as [|p ps IH]; intros i a; [cbn [l_entries fold_left tyof fold_right]; symmetry; apply N.lor_0_r|].
    destruct ps as [|p2 ps].
    - cbn [l_entries fold_left tyof fold_right p_entry up_t]. rewrite N.lor_0_r. reflexivity.
    - change (l_entries i (p :: p2 :: ps)) with (p_entry p i PInitNxtVal :: l_entries (i + p_len p + 1) (p2 :: ps)).
      cbn [fold_left]. rewrite IH. cbn [tyof fold_right p_entry up_t]. rewrite <- !N.lor_assoc. reflexivity.
  Qed.

  Definition plist_ok (ps : list ptxt) : Prop := ps <> [] /\ Forall (p_ok f0) ps /\ (length ps <= cmp_cap)%nat.

  Lemma parse_rendered_params ps : plist_ok ps ->
    exists o L, parse_all_uri_params f0 (l_bytes f0 ps) 0 (uparams_init (repeat uriparam0 cmp_cap)) = Done o EEOH L /\
                ul_entries L (l_bytes f0 ps) = map pent_of ps /\ ul_types L = tyof ps.
  Proof.
    intros (Hne & Hall & Hlen).
    destruct (uri_params_list_spec_eoi f0 params_ie ps [] cmp_cap Hne Hall) as (L & HP & Hn & _ & Hty & Hcap & Hnth). cbn [app length] in HP, Hnth, Hty.
    change (nnat 0) with 0 in HP, Hnth, Hty. exists (0 + nnat (length (l_bytes f0 ps))), L. split; [exact HP|]. split.
    - unfold ul_entries, ul_pno, ul_cap. rewrite Hn, Hcap.
      replace (N.to_nat (N.min (nnat (length ps)) (nnat cmp_cap))) with (length ps) by (unfold nnat; lia).
      rewrite (firstn_nth_eq (ul_params L) (l_entries 0 ps) uriparam0 (length ps) (l_entries_length ps 0) ltac:(lia)).
      2:{ intros j Hj. apply Hnth; lia. }
      pose proof (l_texts ps [] []) as T. cbn [app length] in T. rewrite app_nil_r in T. exact T.
    - rewrite Hty, fold_types. apply N.lor_0_l.
  Qed.

  Theorem uri_params_eq_rendered ps ps' : plist_ok ps -> plist_ok ps' ->
    uri_params_eq (l_bytes f0 ps) 0 (l_bytes f0 ps') 0 = Some (uparams_entries_eq (tyof ps) (tyof ps') (map pent_of ps) (map pent_of ps'), EOk).
  Proof.
    intros H1 H2. destruct (parse_rendered_params ps H1) as (o1 & L1 & P1 & E1 & T1). destruct (parse_rendered_params ps' H2) as (o2 & L2 & P2 & E2 & T2).
    unfold uri_params_eq. rewrite P1, P2. cbn [err_eqb orb negb]. unfold uparams_lst_eq. rewrite E1, E2, T1, T2. reflexivity.
  Qed.

  (* re-ordering and re-casing: the lower-cased (name, value) pairs are the same up to order *)
  Lemma tyof_perm0 l l' : Permutation l l' -> tyof l = tyof l'.
  Proof.
    intros HP. induction HP as [|x l l' _ IH|x y l|l l' l'' _ IH1 _ IH2]; [reflexivity| | |congruence].
    - change (N.lor (uri_param_resolve (fst x)) (tyof l) = N.lor (uri_param_resolve (fst x)) (tyof l')). now rewrite IH.
    - change (N.lor (uri_param_resolve (fst y)) (N.lor (uri_param_resolve (fst x)) (tyof l)) = N.lor (uri_param_resolve (fst x)) (N.lor (uri_param_resolve (fst y)) (tyof l))).
      rewrite !N.lor_assoc. f_equal. apply N.lor_comm.
  Qed.
  Lemma tyof_lp l : tyof (map lp l) = tyof l.
  Proof.
    induction l as [|[n v] l IH]; [reflexivity|]. change (tyof ((n, v) :: l)) with (N.lor (uri_param_resolve n) (tyof l)). rewrite <- IH.
    change (map lp ((n, v) :: l)) with ((lower n, lower v) :: map lp l).
    change (tyof ((lower n, lower v) :: map lp l)) with (N.lor (uri_param_resolve (lower n)) (tyof (map lp l))).
    rewrite uri_param_resolve_nocase. reflexivity.
  Qed.
  Lemma tyof_perm ps ps' : Permutation (map lp ps) (map lp ps') -> tyof ps = tyof ps'.
  Proof. intros HP. rewrite <- (tyof_lp ps), <- (tyof_lp ps'). apply tyof_perm0. exact HP. Qed.
  Lemma pkv_perm ps ps' : Permutation (map lp ps) (map lp ps') -> Permutation (map pkv (map pent_of ps)) (map pkv (map pent_of ps')).
  Proof.
    intros HP.
    set (g := fun q : list byte * list byte => ((uri_param_resolve (fst q), if uri_param_resolve (fst q) =? URIParamOtherF then fst q else []), snd q)).
    assert (E : forall l, map pkv (map pent_of l) = map g (map lp l)).
    { intros l. rewrite !map_map. apply map_ext. intros [n v]. unfold pkv, pkey, pval, pent_of, g, lp. cbn [fst snd].
      rewrite uri_param_resolve_nocase. reflexivity. }
    rewrite !E. apply Permutation_map. exact HP.
  Qed.
  Theorem uri_params_eq_rendered_perm ps ps' : plist_ok ps -> plist_ok ps' -> keys_nodup (map pent_of ps) ->
    Permutation (map lp ps) (map lp ps') -> uri_params_eq (l_bytes f0 ps) 0 (l_bytes f0 ps') 0 = Some (true, EOk).
  Proof.
    intros H1 H2 Nd HP. rewrite (uri_params_eq_rendered ps ps' H1 H2), <- (tyof_perm ps ps' HP). f_equal. f_equal.
    rewrite (uparams_eq_congruence (tyof ps) (tyof ps) (map pent_of ps) (map pent_of ps) (map pent_of ps) (map pent_of ps') Nd (Permutation_refl _) (pkv_perm ps ps' HP)).
    apply uparams_eq_refl. exact Nd.
  Qed.
  (* a parameter with the same key and another value: different *)
  Theorem uri_params_eq_rendered_differs ps ps' x y : plist_ok ps -> plist_ok ps' -> keys_nodup (map pent_of ps') ->
    In x ps -> In y ps' -> pkey (pent_of x) = pkey (pent_of y) -> lower (snd x) <> lower (snd y) ->
    uri_params_eq (l_bytes f0 ps) 0 (l_bytes f0 ps') 0 = Some (false, EOk).
  Proof.
    intros H1 H2 Nd Hx Hy K Hv. rewrite (uri_params_eq_rendered ps ps' H1 H2). f_equal. f_equal.
    destruct (uparams_entries_eq _ _ _ _) eqn:E; [|reflexivity]. exfalso.
    apply (uparams_eq_spec _ _ _ _ Nd) in E. destruct E as [_ E]. apply Hv.
    exact (E (pent_of x) (pent_of y) (in_map pent_of ps x Hx) (in_map pent_of ps' y Hy) K).
  Qed.
End Params.
