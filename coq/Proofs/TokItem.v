(* C17, ParseTokenParam against the grammar of one list item, completeness direction, every flag set:
      name [LWS] [ "=" [LWS] [ token | quoted-string ] ] [LWS]  followed by  terminator | separator [LWS] next-item | end of input
   name and value are reported without the surrounding white space (blanks and folds), values are tokens or
   complete quoted strings (escapes honoured), empty and missing values are allowed; verdict and offset say what
   ended the item. *)
From Sipsp Require Import Driver Harness RunLemmas Ext ExtLeaf ZSlice HdrSpec UIntSpec FLineSpec TokSpec FLineConv TrimSpec.
From Coq Require Import ZifyN ZifyNat ZifyBool.
From RecordUpdate Require Import RecordUpdate.

(* ---- quoted strings ----------------------------------------------------------------------------------------------------------------------- *)
Definition qchar (c : byte) : Prop :=
  (c =? 34) = false /\ (c =? 92) = false /\ is_crlf c = false /\ (c =? 127) = false /\ ((c <? 33) && negb (is_sp c)) = false.
Inductive qcontent : list byte -> Prop :=
| qc_nil : qcontent []
| qc_char c q : qchar c -> qcontent q -> qcontent (c :: q)
| qc_esc d q : is_crlf d = false -> qcontent q -> qcontent (92 :: d :: q).

Lemma sq_run q : qcontent q -> forall pre y i, run sq_iter pre (q ++ 34 :: y) i 0 tt = Done (i + nnat (length q) + 1) EOk tt.
Proof.
  induction 1 as [|c q (C1 & C2 & C3 & C4 & C5) _ IH|d q Hd _ IH]; intros pre y i.
  - cbn [app length]. rewrite run_after. unfold sq_iter. cbn [N.eqb Pos.eqb after]. f_equal. unfold nnat. lia.
  - change ((c :: q) ++ 34 :: y) with ([c] ++ (q ++ 34 :: y)).
    rewrite (run_step sq_iter pre [c] _ i tt tt ltac:(discriminate)).
    + rewrite IH. f_equal. cbn [length]. unfold nnat. lia.
    + cbn [app length]. unfold sq_iter. rewrite C1, C2, C3, C4, C5. reflexivity.
  - change ((92 :: d :: q) ++ 34 :: y) with ([92; d] ++ (q ++ 34 :: y)).
    rewrite (run_step sq_iter pre [92; d] _ i tt tt ltac:(discriminate)).
    + rewrite IH. f_equal. cbn [length]. unfold nnat. lia.
    + cbn [app length]. unfold sq_iter. cbn [N.eqb Pos.eqb]. rewrite Hd. reflexivity.
Qed.

Section Item.
  Variable flags : N.
  Let f := tp_decode flags.
  Let it := tp_iter flags.
  Notation plain := (plain flags).
  Notation ie := (tf_ie (tp_decode flags)).
  Notation sep := (tf_sep (tp_decode flags)).

  (* ---- white space: a run that the LWS skipper crosses completely (blanks, folds) ------------------------------------------------------- *)
  Definition wsrun (w : list byte) : Prop :=
    (exists c0 w', w = c0 :: w' /\ is_ws c0 = true) /\ forall c r, is_ws c = false -> skipLWS ie (w ++ c :: r) = LOk (length w).
  Definition gap (w : list byte) : Prop := w = [] \/ wsrun w.

  Lemma skipLWS_at_blanks sp c r : spaces sp -> is_ws c = false -> forall k, skipLWS_at ie (sp ++ c :: r) k = LOk (k + length sp).
  Proof.
    intros Hsp Hc. induction Hsp as [|b sp Hb _ IH]; intros k; cbn [app skipLWS_at length].
    - unfold is_ws, is_crlf in Hc. destruct (is_sp c), (is_cr c), (is_lf c); cbn in Hc; try discriminate. f_equal. lia.
    - rewrite Hb, IH. f_equal. lia.
  Qed.
  Lemma wsrun_blanks sp : sp <> [] -> spaces sp -> wsrun sp.
  Proof.
    intros Hne Hsp. split.
    - destruct sp as [|c0 s']; [congruence|]. exists c0, s'. split; [reflexivity|]. inversion Hsp; subst. unfold is_ws.
      match goal with H : is_sp c0 = true |- _ => now rewrite H end.
    - intros c r Hc. unfold skipLWS. now rewrite skipLWS_at_blanks.
  Qed.
  (* blanks, CR LF, at least one blank: a fold *)
  Lemma wsrun_fold sp sp' : spaces sp -> spaces sp' -> sp' <> [] -> wsrun (sp ++ CR :: LF :: sp').
  Proof.
    intros Hsp Hsp' Hne. split.
    - destruct sp as [|c0 s']; [exists CR, (LF :: sp'); split; reflexivity|].
      exists c0, (s' ++ CR :: LF :: sp'). split; [reflexivity|]. inversion Hsp; subst. unfold is_ws.
      match goal with H : is_sp c0 = true |- _ => now rewrite H end.
    - intros c r Hc. unfold skipLWS. rewrite <- app_assoc. cbn [app].
      assert (G : forall k, skipLWS_at ie (sp ++ CR :: LF :: sp' ++ c :: r) k = LOk (k + length (sp ++ CR :: LF :: sp'))).
      { induction Hsp as [|b sp Hb _ IH]; intros k; cbn [app skipLWS_at length].
        - destruct sp' as [|b' sp'']; [congruence|]. inversion Hsp' as [|? ? Hb' Hs'']; subst. cbn [app].
          change (is_sp CR) with false. change (is_cr CR) with true. change (is_lf LF) with true. cbv iota. rewrite Hb'.
          change (b' :: sp'' ++ c :: r) with ((b' :: sp'') ++ c :: r). rewrite (skipLWS_at_blanks (b' :: sp'') c r Hsp' Hc). f_equal. cbn [length]. lia.
        - rewrite Hb, IH. f_equal. rewrite !app_length. cbn [length]. lia. }
      apply G.
  Qed.
  Lemma skipLWS_blanks_more sp : spaces sp -> forall k, exists n, skipLWS_at ie sp k = LMore n.
  Proof. induction 1 as [|b sp Hb _ IH]; intros k; cbn [skipLWS_at]; [eexists; reflexivity|]. rewrite Hb. apply IH. Qed.

  (* ---- what complete white space at i does to the state ------------------------------------------------------------------------------- *)
  Definition ext (p : pf) (e : N) : pf := mkpf (po p) (e - po p).
  Lemma pf_extend_ok p e : po p <= e -> pf_extend p e = Some (ext p e).
  Proof. intros H. unfold pf_extend, ext. replace (e <? po p) with false by lia. reflexivity. Qed.

  Definition gapst (s : tokparam) (i : N) : tokparam :=
    match tp_state s with
    | PName => mktokparam (ext (tp_all s) i) (ext (tp_name s) i) (tp_val s) PFEq
    | PVal => mktokparam (ext (tp_all s) i) (tp_name s) (ext (tp_val s) i) PFSep
    | _ => s
    end.
  Definition closable (s : tokparam) (i : N) : Prop :=
    po (tp_all s) <= i /\
    match tp_state s with
    | PName => po (tp_name s) <= i
    | PVal => po (tp_val s) <= i
    | PFEq | PFVal | PFSep => True
    | _ => False
    end.
  Definition gapable (s : tokparam) (i : N) : Prop := closable s i \/ tp_state s = PFNxt.

  Lemma it_gap pre w c r i s : wsrun w -> is_ws c = false -> gapable s i -> it pre (w ++ c :: r) i s = Next (length w) (gapst s i).
  Proof.
    intros [(c0 & w' & -> & Hc0) Hsk] Hc Hg. specialize (Hsk c r Hc). cbn [app] in *.
    unfold it, tp_iter, gapst. fold f. destruct s as [al nm vl st]. unfold gapable, closable in Hg. cbn [tp_state tp_all tp_name tp_val] in *.
    destruct st; try (exfalso; destruct Hg as [[_ []]|Hg]; discriminate Hg); unfold tp_step, tp_sInit, tp_sName, tp_sFEq, tp_sFVal, tp_sVal, tp_sFSep;
      rewrite Hc0; unfold tp_ws; fold f in Hsk; rewrite Hsk; try reflexivity.
    - destruct Hg as [[Ha Hn]|Hg]; [|discriminate Hg]. unfold ext2. cbn [tp_name tp_all]. rewrite !pf_extend_ok by assumption. reflexivity.
    - destruct Hg as [[Ha Hn]|Hg]; [|discriminate Hg]. unfold ext2. cbn [tp_val tp_all]. rewrite !pf_extend_ok by assumption. reflexivity.
  Qed.

  Definition gapst' (w : list byte) (s : tokparam) (i : N) : tokparam := match w with [] => s | _ => gapst s i end.
  Lemma run_gap pre w c r i s : gap w -> is_ws c = false -> gapable s i ->
    run it pre (w ++ c :: r) i 0 s = run it (rev w ++ pre) (c :: r) (i + nnat (length w)) 0 (gapst' w s i).
  Proof.
    intros [->|Hw] Hc Hg.
    - cbn [app rev length gapst']. replace (i + nnat 0) with i by (unfold nnat; lia). reflexivity.
    - assert (Hne : w <> []) by (destruct Hw as [(c0 & w' & -> & _) _]; discriminate).
      rewrite (run_step it pre w _ i s (gapst s i) Hne (it_gap pre w c r i s Hw Hc Hg)).
      destruct w; [congruence|reflexivity].
  Qed.

  (* ---- the ways an item ends: i = where the trailing white space starts, j = where it ends ------------------------------------------------ *)
  Definition close_term (s : tokparam) (i j : N) : tokparam :=
    match tp_state s with
    | PName => mktokparam (ext (tp_all s) i) (ext (tp_name s) i) (tp_val s) PFIN
    | PVal => mktokparam (ext (tp_all s) i) (tp_name s) (ext (tp_val s) i) PFIN
    | PFVal => mktokparam (tp_all s) (tp_name s) (mkpf j 0) PFIN
    | _ => s <| tp_state := PFIN |>
    end.
  Definition close_sep (s : tokparam) (i j : N) (st : tpst) : tokparam :=
    match tp_state s with
    | PName => mktokparam (ext (tp_all s) i) (ext (tp_name s) i) (tp_val s) st
    | PVal => mktokparam (ext (tp_all s) i) (tp_name s) (ext (tp_val s) i) st
    | PFVal => mktokparam (ext (tp_all s) j) (tp_name s) (mkpf j 0) st
    | _ => s <| tp_state := st |>
    end.
  Definition close_eoi (s : tokparam) (i : N) : tokparam :=
    match tp_state s with
    | PName => mktokparam (ext (tp_all s) i) (ext (tp_name s) i) (tp_val s) PFIN
    | PVal => mktokparam (ext (tp_all s) i) (tp_name s) (ext (tp_val s) i) PFIN
    | _ => s <| tp_state := PFIN |>
    end.

  Lemma term_facts t : is_term_c flags t = true -> is_ws t = false /\ (t =? 61) = false /\ (t =? 34) = false.
  Proof.
    unfold is_term_c. intros H. apply andb_true_iff in H as [H1 H2]. apply N.eqb_eq in H1. subst t. revert H2. unfold tp_decode. cbn.
    destruct (testbit flags bPOptTokQmTerm || testbit flags bPOptTokURIParam); [intros _; repeat split; reflexivity|].
    destruct (testbit flags bPOptTokCommaTerm); [intros _; repeat split; reflexivity|discriminate].
  Qed.
  Lemma sep_facts : is_ws sep = false /\ (sep =? 61) = false /\ (sep =? 34) = false /\ is_term_c flags sep = false.
  Proof.
    split; [apply sep_not_ws|]. split; [|split; [|apply sep_not_term]]; unfold tp_decode; cbn; destruct (_ || _); reflexivity.
  Qed.

  Lemma closable_gap w s i : closable s i -> closable (gapst' w s i) (i + nnat (length w)).
  Proof.
    intros [Ha Hs]. destruct w as [|b w]; cbn [gapst'].
    - split; [lia|]. destruct (tp_state s); try exact Hs; lia.
    - unfold gapst, closable. destruct s as [al nm vl st]. cbn [tp_state tp_all tp_name tp_val] in *.
      destruct st; try contradiction; cbn [tp_state tp_all tp_name tp_val ext po]; split; try exact I; lia.
  Qed.
  Lemma close_term_gap w s i : closable s i ->
    close_term (gapst' w s i) (i + nnat (length w)) (i + nnat (length w)) = close_term s i (i + nnat (length w)).
  Proof.
    intros [Ha Hs]. destruct w as [|b w]; cbn [gapst'].
    - cbn [length]. replace (i + nnat 0) with i by (unfold nnat; lia). reflexivity.
    - unfold gapst, close_term. destruct s as [al nm vl st]. cbn [tp_state] in *. destruct st; try contradiction; reflexivity.
  Qed.
  Lemma close_sep_gap w s i st : closable s i ->
    close_sep (gapst' w s i) (i + nnat (length w)) (i + nnat (length w)) st = close_sep s i (i + nnat (length w)) st.
  Proof.
    intros [Ha Hs]. destruct w as [|b w]; cbn [gapst'].
    - cbn [length]. replace (i + nnat 0) with i by (unfold nnat; lia). reflexivity.
    - unfold gapst, close_sep. destruct s as [al nm vl st0]. cbn [tp_state] in *. destruct st0; try contradiction; reflexivity.
  Qed.

  Lemma it_term pre t r j s : is_term_c flags t = true -> closable s j -> it pre (t :: r) j s = Ret j EOk (close_term s j j).
  Proof.
    intros Ht [Ha Hs]. destruct (term_facts t Ht) as (T1 & T2 & T3).
    unfold it, tp_iter, close_term. cbv zeta. destruct s as [al nm vl st]. cbn [tp_state tp_all tp_name tp_val] in *.
    destruct st; try contradiction; unfold tp_step, tp_sName, tp_sFEq, tp_sFVal, tp_sVal, tp_sFSep; rewrite T1, ?T2, ?T3;
      fold (is_term_c flags t); rewrite Ht; try reflexivity.
    - unfold ext2. cbn [tp_name tp_all]. rewrite !pf_extend_ok by assumption. reflexivity.
    - unfold pf_set. rewrite N.ltb_irrefl, N.sub_diag. reflexivity.
    - unfold ext2. cbn [tp_val tp_all]. rewrite !pf_extend_ok by assumption. reflexivity.
  Qed.
  Lemma it_sep pre r j s : closable s j -> it pre (sep :: r) j s = Next 1 (close_sep s j j PFNxt).
  Proof.
    intros [Ha Hs]. destruct sep_facts as (S1 & S2 & S3 & S4).
    unfold it, tp_iter, close_sep. cbv zeta. destruct s as [al nm vl st]. cbn [tp_state tp_all tp_name tp_val] in *.
    destruct st; try contradiction; unfold tp_step, tp_sName, tp_sFEq, tp_sFVal, tp_sVal, tp_sFSep; rewrite S1, ?S2, ?S3;
      fold (is_term_c flags sep); rewrite S4, N.eqb_refl; try reflexivity.
    - unfold ext2. cbn [tp_name tp_all]. rewrite !pf_extend_ok by assumption. reflexivity.
    - unfold pf_set. rewrite N.ltb_irrefl, N.sub_diag. cbn [tp_all]. rewrite pf_extend_ok by assumption. reflexivity.
    - unfold ext2. cbn [tp_val tp_all]. rewrite !pf_extend_ok by assumption. reflexivity.
  Qed.
  Lemma it_more pre c r j s : plain c -> tp_state s = PFNxt -> it pre (c :: r) j s = Ret j EMoreValues (s <| tp_state := PInitNxtVal |>).
  Proof.
    intros (C1 & C2 & C3 & C4 & C5 & C6) Hs. unfold it, tp_iter. cbv zeta. rewrite Hs. unfold tp_step, tp_sInit. rewrite C1, C5, C6. reflexivity.
  Qed.
  Lemma more_eoi i bend s : ie = true -> closable s i -> tp_moreBytes f i bend s = Ret bend EEOH (close_eoi s i).
  Proof.
    intros Hie [Ha Hs]. unfold tp_moreBytes, close_eoi. fold f in Hie. rewrite Hie. destruct s as [al nm vl st]. cbn [tp_state tp_all tp_name tp_val] in *.
    destruct st; try contradiction; cbn [tp_name tp_val tp_all]; rewrite ?pf_extend_ok by assumption; reflexivity.
  Qed.

  Lemma fol_term pre w t r i s : gap w -> is_term_c flags t = true -> closable s i ->
    run it pre (w ++ t :: r) i 0 s = Done (i + nnat (length w)) EOk (close_term s i (i + nnat (length w))).
  Proof.
    intros Hw Ht Hs. destruct (term_facts t Ht) as (T1 & _).
    rewrite (run_gap pre w t r i s Hw T1 (or_introl Hs)), run_after, (it_term _ t r _ _ Ht (closable_gap w s i Hs)).
    cbn [after]. now rewrite close_term_gap.
  Qed.
  Lemma fol_sep pre w w4 c r i s : gap w -> gap w4 -> plain c -> closable s i ->
    run it pre (w ++ sep :: w4 ++ c :: r) i 0 s
    = Done (i + nnat (length w) + 1 + nnat (length w4)) EMoreValues (close_sep s i (i + nnat (length w)) PInitNxtVal).
  Proof.
    intros Hw Hw4 Hc Hs. destruct sep_facts as (S1 & _). pose proof Hc as (C1 & _).
    rewrite (run_gap pre w sep _ i s Hw S1 (or_introl Hs)).
    rewrite (run1 flags _ sep _ _ _ _ (it_sep _ _ _ _ (closable_gap w s i Hs))), close_sep_gap by exact Hs.
    set (X := close_sep s i (i + nnat (length w)) PFNxt).
    assert (HX : tp_state X = PFNxt).
    { unfold X, close_sep. destruct Hs as [_ Hs]. destruct s as [al nm vl st]. cbn [tp_state] in *. destruct st; try contradiction; reflexivity. }
    rewrite (run_gap _ w4 c r _ X Hw4 C1 (or_intror HX)).
    assert (HG : gapst' w4 X (i + nnat (length w) + 1) = X) by (destruct w4; [reflexivity|]; cbn [gapst']; unfold gapst; rewrite HX; reflexivity).
    rewrite HG, run_after, (it_more _ c r _ X Hc HX). cbn [after]. f_equal.
    unfold X, close_sep. destruct Hs as [_ Hs]. destruct s as [al nm vl st]. cbn [tp_state] in *. destruct st; try contradiction; reflexivity.
  Qed.
  Lemma fol_eoi pre sp i s : spaces sp -> ie = true -> closable s i ->
    run it pre sp i 0 s = Done (i + nnat (length sp)) EEOH (close_eoi s i).
  Proof.
    intros Hsp Hie Hs. rewrite run_after.
    assert (Hst : tp_state s <> PFIN) by (destruct Hs as [_ Hs]; intros E; rewrite E in Hs; exact Hs).
    destruct sp as [|b sp'].
    - unfold it, tp_iter. fold f. destruct (tp_state s) eqn:Est; try congruence; rewrite (more_eoi i i s Hie Hs); cbn [after length]; f_equal; unfold nnat; lia.
    - assert (Hb : is_ws b = true) by (inversion Hsp as [|? ? Hb _]; subst; unfold is_ws; rewrite Hb; reflexivity).
      destruct (skipLWS_blanks_more (b :: sp') Hsp 0) as (n & Hn). fold (skipLWS ie (b :: sp')) in Hn.
      assert (E : it pre (b :: sp') i s = Ret (i + nnat (length (b :: sp'))) EEOH (close_eoi s i)).
      { rewrite <- (more_eoi i (i + nnat (length (b :: sp'))) s Hie Hs).
        unfold it, tp_iter. fold f. destruct Hs as [Ha Hs]. destruct s as [al nm vl st]. cbn [tp_state] in *.
        destruct st; try contradiction; unfold tp_step, tp_sName, tp_sFEq, tp_sFVal, tp_sVal, tp_sFSep; rewrite Hb; unfold tp_ws; fold f in Hn; rewrite Hn; reflexivity. }
      rewrite E. reflexivity.
  Qed.

  (* blanks, CR LF, then a byte that is not a blank: the end of the header *)
  Lemma skipLWS_at_blanks_eol sp x tail : spaces sp -> is_sp x = false -> forall k, skipLWS_at ie (sp ++ CR :: LF :: x :: tail) k = LEOH (k + length sp) 2.
  Proof.
    intros Hsp Hx. induction Hsp as [|b sp Hb _ IH]; intros k; cbn [app skipLWS_at length].
    - change (is_sp CR) with false. change (is_cr CR) with true. change (is_lf LF) with true. cbv iota. rewrite Hx. f_equal. lia.
    - rewrite Hb, IH. f_equal. lia.
  Qed.
  Lemma fol_eoh pre sp x tail i s : spaces sp -> is_sp x = false -> closable s i ->
    run it pre (sp ++ CR :: LF :: x :: tail) i 0 s = Done (i + nnat (length sp) + 2) EEOH (close_eoi s i).
  Proof.
    intros Hsp Hx Hs. rewrite run_after.
    assert (Hsk : skipLWS ie (sp ++ CR :: LF :: x :: tail) = LEOH (length sp) 2) by (unfold skipLWS; now rewrite skipLWS_at_blanks_eol).
    assert (Hhd : exists c0 r0, sp ++ CR :: LF :: x :: tail = c0 :: r0 /\ is_ws c0 = true).
    { destruct sp as [|s0 sp']; [exists CR, (LF :: x :: tail); split; reflexivity|].
      exists s0, (sp' ++ CR :: LF :: x :: tail). split; [reflexivity|]. inversion Hsp as [|? ? Hs0 _]; subst. unfold is_ws. rewrite Hs0. reflexivity. }
    destruct Hhd as (c0 & r0 & ER & Hc0).
    assert (E : it pre (sp ++ CR :: LF :: x :: tail) i s = Ret (i + nnat (length sp) + nnat 2) EEOH (close_eoi s i)).
    { unfold it, tp_iter, close_eoi. cbv zeta. rewrite ER. destruct Hs as [Ha Hs]. destruct s as [al nm vl st]. cbn [tp_state tp_all tp_name tp_val] in *.
      destruct st; try contradiction; unfold tp_step, tp_sName, tp_sFEq, tp_sFVal, tp_sVal, tp_sFSep; rewrite Hc0; unfold tp_ws; rewrite <- ER, Hsk;
        unfold ext2; cbn [tp_name tp_val tp_all]; rewrite ?pf_extend_ok by assumption; reflexivity. }
    rewrite E. cbn [after]. f_equal.
  Qed.

  (* white space, then a token byte, with POptTokSpTermF: the item is complete; the offset of the last white-space byte is returned *)
  Lemma wsrun_last w : wsrun w -> exists w' b, w = w' ++ [b] /\ is_ws b = true.
  Proof.
    intros [(c0 & w0 & -> & Hc0) Hsk]. specialize (Hsk (97 : byte) [] eq_refl).
    match type of Hsk with skipLWS ?I ?R = _ => pose proof (skipLWS_at_skipped_ws I R 0) as X end. unfold skipLWS in Hsk. rewrite Hsk in X.
    destruct (exists_last (l := c0 :: w0) ltac:(discriminate)) as (w' & b & E). exists w', b. split; [exact E|].
    specialize (X (length w') ltac:(rewrite E, app_length; cbn [length]; lia)). destruct X as (c & Hc & Hw).
    rewrite E, <- app_assoc in Hc. rewrite nth_error_app2 in Hc by lia. rewrite Nat.sub_diag in Hc. cbn in Hc. injection Hc as <-. exact Hw.
  Qed.
  Definition close_sp (s : tokparam) (i : N) : tokparam :=
    match tp_state s with
    | PName => mktokparam (ext (tp_all s) i) (ext (tp_name s) i) (tp_val s) PFIN
    | PVal => mktokparam (ext (tp_all s) i) (tp_name s) (ext (tp_val s) i) PFIN
    | _ => s <| tp_state := PFIN |>
    end.
  Lemma fol_spterm pre w c r i s : wsrun w -> plain c -> tf_spterm (tp_decode flags) = true -> closable s i -> tp_state s <> PFVal ->
    run it pre (w ++ c :: r) i 0 s = Done (i + nnat (length w) - 1) EOk (close_sp s i).
  Proof.
    intros Hw Hc Hsp Hs Hnv. pose proof Hc as (C1 & C2 & C3 & C4 & C5 & C6).
    rewrite (run_gap pre w c r i s (or_intror Hw) C1 (or_introl Hs)), run_after.
    destruct (wsrun_last w Hw) as (w' & b & Ew & Hb).
    assert (Hne : w <> []) by (rewrite Ew; destruct w'; discriminate).
    assert (Hg : gapst' w s i = gapst s i) by (destruct w; [congruence|reflexivity]). rewrite Hg.
    assert (Hprev : zprev (rev w ++ pre) = Some b) by (rewrite Ew, rev_app_distr; reflexivity).
    assert (E : it (rev w ++ pre) (c :: r) (i + nnat (length w)) (gapst s i) = Ret (i + nnat (length w) - 1) EOk (close_sp s i)).
    { unfold it, tp_iter, gapst, close_sp. cbv zeta. destruct Hs as [Ha Hs]. destruct s as [al nm vl st]. cbn [tp_state tp_all tp_name tp_val] in *.
      destruct st; try contradiction; try congruence; cbn [tp_state]; unfold tp_step, tp_sFEq, tp_sFSep; rewrite C1, ?C2;
        fold (is_term_c flags c); rewrite C4, C5, C6; cbn [negb]; rewrite Hsp; unfold tp_spterm_ret; rewrite Hprev, Hb; reflexivity. }
    rewrite E. reflexivity.
  Qed.

  (* ---- segments: X is read from state s at offset i, leaving state s' ------------------------------------------------------------------------ *)
  Definition seg (X : list byte) (i : N) (s s' : tokparam) : Prop :=
    forall pre y, run it pre (X ++ y) i 0 s = run it (rev X ++ pre) y (i + nnat (length X)) 0 s'.
  Lemma seg_app X Y i s s' s'' : seg X i s s' -> seg Y (i + nnat (length X)) s' s'' -> seg (X ++ Y) i s s''.
  Proof.
    intros H1 H2 pre y. rewrite <- app_assoc, H1, H2, rev_app_distr, <- app_assoc, app_length. f_equal. unfold nnat. lia.
  Qed.
  Lemma seg_nil i s : seg [] i s s.
  Proof. intros pre y. cbn [app rev length]. replace (i + nnat 0) with i by (unfold nnat; lia). reflexivity. Qed.

  Lemma seg_name n0 name k : plain n0 -> Forall plain name -> seg (n0 :: name) k tokparam0 (mktokparam (mkpf k 0) (mkpf k 0) pf0 PName).
  Proof.
    intros (A1 & A2 & A3 & A4 & A5 & A6) Hname pre y. cbn [app].
    rewrite (run1 flags pre n0 _ k tokparam0 (mktokparam (mkpf k 0) (mkpf k 0) pf0 PName)).
    2:{ unfold tp_iter. cbn [tp_state tokparam0]. unfold tp_step, tp_sInit, pf_set. rewrite A1, A5, A6, N.ltb_irrefl, N.sub_diag. reflexivity. }
    rewrite (run_name flags name (n0 :: pre) y (k + 1) _ _ _ Hname). cbn [rev length]. rewrite <- app_assoc. cbn [app]. f_equal. unfold nnat. lia.
  Qed.

  Definition all_eq (w1 : list byte) (k a : N) : pf := match w1 with [] => mkpf k (a + 1 - k) | _ => mkpf k (a - k) end.
  Lemma seg_eq w1 k a : gap w1 -> k <= a ->
    seg (w1 ++ [61]) a (mktokparam (mkpf k 0) (mkpf k 0) pf0 PName) (mktokparam (all_eq w1 k a) (mkpf k (a - k)) pf0 PFVal).
  Proof.
    intros Hw Hk pre y. rewrite <- app_assoc. cbn [app].
    rewrite (run_gap pre w1 61 y a _ Hw eq_refl) by (left; split; cbn [tp_all tp_state tp_name po]; lia).
    rewrite rev_app_distr, app_length. cbn [rev app length]. replace (a + nnat (length w1 + 1)) with (a + nnat (length w1) + 1) by (unfold nnat; lia).
    apply (run1 flags). destruct w1 as [|b w]; cbn [gapst' all_eq].
    - unfold tp_iter. cbn [tp_state]. unfold tp_step, tp_sName, ext2. cbn [tp_name tp_all]. change (is_ws 61) with false. cbn [N.eqb Pos.eqb length].
      replace (a + nnat 0) with a by (unfold nnat; lia). rewrite !pf_extend_ok by (cbn [po]; lia). reflexivity.
    - unfold gapst. cbn [tp_state tp_all tp_name tp_val ext po]. unfold tp_iter. cbn [tp_state]. unfold tp_step, tp_sFEq. change (is_ws 61) with false. cbn [N.eqb Pos.eqb].
      reflexivity.
  Qed.

  Lemma seg_tok w2 v0 value b1 al nm : gap w2 -> plain v0 -> Forall plain value -> po al <= b1 ->
    seg (w2 ++ v0 :: value) b1 (mktokparam al nm pf0 PFVal) (mktokparam (ext al (b1 + nnat (length w2))) nm (mkpf (b1 + nnat (length w2)) 0) PVal).
  Proof.
    intros Hw Hv0 Hvalue Hal pre y. pose proof Hv0 as (B1 & B2 & B3 & B4 & B5 & B6). rewrite <- app_assoc. cbn [app].
    rewrite (run_gap pre w2 v0 _ b1 _ Hw B1) by (left; split; cbn [tp_all tp_state]; [exact Hal|exact I]).
    assert (HG : gapst' w2 (mktokparam al nm pf0 PFVal) b1 = mktokparam al nm pf0 PFVal) by (destruct w2; reflexivity). rewrite HG.
    set (c0 := b1 + nnat (length w2)).
    rewrite (run1 flags _ v0 _ c0 _ (mktokparam (ext al c0) nm (mkpf c0 0) PVal)).
    2:{ unfold tp_iter. cbn [tp_state]. unfold tp_step, tp_sFVal, pf_set. cbn [tp_all]. rewrite B1, B3. fold (is_term_c flags v0). rewrite B4, B5, B6.
        cbn [negb]. rewrite N.ltb_irrefl, N.sub_diag, pf_extend_ok by (unfold c0; lia). reflexivity. }
    rewrite (run_val flags value _ y (c0 + 1) _ _ _ Hvalue). rewrite rev_app_distr, app_length. cbn [rev length]. rewrite <- !app_assoc. cbn [app].
    f_equal. unfold c0, nnat. lia.
  Qed.

  Lemma it_quoted pre R i s : tp_state s = PQuotedVal -> R <> [] -> it pre R i s = tp_sQuoted f pre R i s.
  Proof. intros Hs HR. destruct R; [congruence|]. unfold it, tp_iter. rewrite Hs. reflexivity. Qed.
  Lemma seg_quoted w2 q b1 al nm : gap w2 -> qcontent q -> po al <= b1 ->
    let c0 := b1 + nnat (length w2) in let o := c0 + nnat (length q) + 2 in
    seg (w2 ++ 34 :: q ++ [34]) b1 (mktokparam al nm pf0 PFVal) (mktokparam (ext al o) nm (mkpf c0 (o - c0)) PFSep).
  Proof.
    intros Hw Hq Hal c0 o pre y. rewrite <- app_assoc. cbn [app].
    rewrite (run_gap pre w2 34 _ b1 _ Hw eq_refl) by (left; split; cbn [tp_all tp_state]; [exact Hal|exact I]).
    assert (HG : gapst' w2 (mktokparam al nm pf0 PFVal) b1 = mktokparam al nm pf0 PFVal) by (destruct w2; reflexivity). rewrite HG. fold c0.
    rewrite (run1 flags _ 34 _ c0 _ (mktokparam (ext al c0) nm (mkpf c0 0) PQuotedVal)).
    2:{ unfold tp_iter. cbn [tp_state]. unfold tp_step, tp_sFVal, pf_set. cbn [tp_all]. change (is_ws 34) with false. cbn [N.eqb Pos.eqb].
        rewrite N.ltb_irrefl, N.sub_diag, pf_extend_ok by (unfold c0; lia). reflexivity. }
    rewrite (run_step it _ (q ++ [34]) y (c0 + 1) _ (mktokparam (ext al o) nm (mkpf c0 (o - c0)) PFSep)).
    - rewrite !rev_app_distr, !app_length. cbn [rev length app]. rewrite !rev_app_distr. cbn [rev app]. rewrite <- !app_assoc. cbn [app]. f_equal.
      rewrite ?app_length. cbn [length]. unfold o, c0, nnat. lia.
    - destruct q; discriminate.
    - rewrite it_quoted by (try reflexivity; destruct q; discriminate). unfold tp_sQuoted.
      rewrite <- app_assoc. cbn [app]. rewrite (sq_run q Hq).
      unfold ext2. cbn [tp_val tp_all]. rewrite !pf_extend_ok by (cbn [po ext]; unfold c0; lia).
      replace (c0 + 1 + nnat (length q) + 1) with o by (unfold o; lia).
      replace (N.to_nat (o - (c0 + 1))) with (length (q ++ [34])) by (rewrite app_length; cbn [length]; unfold o, nnat; lia).
      reflexivity.
  Qed.

  (* ---- the shapes of an item after its name -------------------------------------------------------------------------------------------------- *)
  Inductive vshape :=
  | VMissing                                                   (* name *)
  | VEmpty (w1 : list byte)                                    (* name [LWS] "=" *)
  | VTok (w1 w2 : list byte) (v0 : byte) (value : list byte)   (* name [LWS] "=" [LWS] token *)
  | VQuoted (w1 w2 q : list byte).                             (* name [LWS] "=" [LWS] DQUOTE content DQUOTE *)
  Definition vbody (v : vshape) : list byte :=
    match v with
    | VMissing => []
    | VEmpty w1 => w1 ++ [61]
    | VTok w1 w2 v0 value => (w1 ++ [61]) ++ (w2 ++ v0 :: value)
    | VQuoted w1 w2 q => (w1 ++ [61]) ++ (w2 ++ 34 :: q ++ [34])
    end.
  Definition vok (v : vshape) : Prop :=
    match v with
    | VMissing => True
    | VEmpty w1 => gap w1
    | VTok w1 w2 v0 value => gap w1 /\ gap w2 /\ plain v0 /\ Forall plain value
    | VQuoted w1 w2 q => gap w1 /\ gap w2 /\ qcontent q
    end.
  (* where the value starts *)
  Definition vstart (a : N) (w1 w2 : list byte) : N := a + nnat (length w1) + 1 + nnat (length w2).
  Definition vstate (k a : N) (v : vshape) : tokparam :=
    match v with
    | VMissing => mktokparam (mkpf k 0) (mkpf k 0) pf0 PName
    | VEmpty w1 => mktokparam (all_eq w1 k a) (mkpf k (a - k)) pf0 PFVal
    | VTok w1 w2 v0 value => mktokparam (mkpf k (vstart a w1 w2 - k)) (mkpf k (a - k)) (mkpf (vstart a w1 w2) 0) PVal
    | VQuoted w1 w2 q =>
      let o := vstart a w1 w2 + nnat (length q) + 2 in
      mktokparam (mkpf k (o - k)) (mkpf k (a - k)) (mkpf (vstart a w1 w2) (o - vstart a w1 w2)) PFSep
    end.
  Lemma ext_all_eq w1 k a e : ext (all_eq w1 k a) e = mkpf k (e - k).
  Proof. destruct w1; reflexivity. Qed.
  Lemma po_all_eq w1 k a : po (all_eq w1 k a) = k.
  Proof. destruct w1; reflexivity. Qed.

  Lemma seg_item n0 name v k : plain n0 -> Forall plain name -> vok v ->
    seg ((n0 :: name) ++ vbody v) k tokparam0 (vstate k (k + nnat (length (n0 :: name))) v).
  Proof.
    intros Hn0 Hname Hv. apply (seg_app _ _ _ _ _ _ (seg_name n0 name k Hn0 Hname)).
    set (a := k + nnat (length (n0 :: name))). assert (Hka : k <= a) by (unfold a; lia). clearbody a.
    destruct v as [|w1|w1 w2 v0 value|w1 w2 q]; cbn [vbody vstate vok] in *.
    - apply seg_nil.
    - apply seg_eq; assumption.
    - destruct Hv as (H1 & H2 & H3 & H4). apply (seg_app _ _ _ _ _ _ (seg_eq w1 k a H1 Hka)).
      assert (E : a + nnat (length (w1 ++ [61])) + nnat (length w2) = vstart a w1 w2) by (unfold vstart; rewrite app_length; cbn [length]; unfold nnat; lia).
      rewrite <- (ext_all_eq w1 k a (vstart a w1 w2)), <- E.
      apply seg_tok; try assumption. rewrite po_all_eq. lia.
    - destruct Hv as (H1 & H2 & H3). apply (seg_app _ _ _ _ _ _ (seg_eq w1 k a H1 Hka)).
      assert (E : a + nnat (length (w1 ++ [61])) + nnat (length w2) = vstart a w1 w2) by (unfold vstart; rewrite app_length; cbn [length]; unfold nnat; lia).
      rewrite <- (ext_all_eq w1 k a (vstart a w1 w2 + nnat (length q) + 2)), <- E.
      apply (seg_quoted w2 q (a + nnat (length (w1 ++ [61]))) (all_eq w1 k a) (mkpf k (a - k))); try assumption. rewrite po_all_eq. lia.
  Qed.
  Lemma vstate_closable k a v : k <= a -> closable (vstate k a v) (a + nnat (length (vbody v))).
  Proof.
    intros Hka. destruct v as [|w1|w1 w2 v0 value|w1 w2 q]; unfold closable; cbn [vstate vbody tp_all tp_state tp_name tp_val po]; rewrite ?po_all_eq; repeat rewrite ?app_length; cbn [length];
      unfold vstart, nnat; split; try exact I; lia.
  Qed.

  (* ---- the reported fields, in closed form ------------------------------------------------------------------------------------------------------ *)
  Inductive ending := ETerm | ESep | EEoi.
  Definition exp_val (a : N) (v : vshape) (en : ending) (j : N) : pf :=
    match v with
    | VMissing => pf0
    | VEmpty _ => match en with EEoi => pf0 | _ => mkpf j 0 end
    | VTok w1 w2 v0 value => mkpf (vstart a w1 w2) (nnat (length (v0 :: value)))
    | VQuoted w1 w2 q => mkpf (vstart a w1 w2) (nnat (length q) + 2)
    end.
  Definition exp_all (k a : N) (v : vshape) (en : ending) (j : N) : pf :=
    match v with
    | VMissing => mkpf k (a - k)
    | VEmpty w1 => match en with ESep => mkpf k (j - k) | _ => all_eq w1 k a end
    | VTok w1 w2 v0 value => mkpf k (vstart a w1 w2 + nnat (length (v0 :: value)) - k)
    | VQuoted w1 w2 q => mkpf k (vstart a w1 w2 + nnat (length q) + 2 - k)
    end.
  Definition exp_item (k a : N) (v : vshape) (en : ending) (j : N) (st : tpst) : tokparam :=
    mktokparam (exp_all k a v en j) (mkpf k (a - k)) (exp_val a v en j) st.

  Lemma close_term_exp k a v j : k <= a -> close_term (vstate k a v) (a + nnat (length (vbody v))) j = exp_item k a v ETerm j PFIN.
  Proof.
    intros Hka. destruct v as [|w1|w1 w2 v0 value|w1 w2 q]; unfold close_term, exp_item; cbn [vstate vbody tp_all tp_state tp_name tp_val exp_all exp_val ext po];
      repeat rewrite ?app_length; cbn [length]; unfold ext; cbn [po]; try reflexivity.
    - f_equal; f_equal; unfold nnat; lia.
    - f_equal; f_equal; unfold vstart, nnat; lia.
    - unfold set. cbn. f_equal; f_equal; unfold vstart, nnat; lia.
  Qed.
  Lemma close_sep_exp k a v j st : k <= a -> close_sep (vstate k a v) (a + nnat (length (vbody v))) j st = exp_item k a v ESep j st.
  Proof.
    intros Hka. destruct v as [|w1|w1 w2 v0 value|w1 w2 q]; unfold close_sep, exp_item; cbn [vstate vbody tp_all tp_state tp_name tp_val exp_all exp_val ext po];
      repeat rewrite ?app_length; cbn [length]; rewrite ?ext_all_eq; unfold ext; cbn [po]; try reflexivity.
    - f_equal; f_equal; unfold nnat; lia.
    - f_equal; f_equal; unfold vstart, nnat; lia.
    - unfold set. cbn. f_equal; f_equal; unfold vstart, nnat; lia.
  Qed.
  Lemma close_eoi_exp k a v j : k <= a -> close_eoi (vstate k a v) (a + nnat (length (vbody v))) = exp_item k a v EEoi j PFIN.
  Proof.
    intros Hka. destruct v as [|w1|w1 w2 v0 value|w1 w2 q]; unfold close_eoi, exp_item; cbn [vstate vbody tp_all tp_state tp_name tp_val exp_all exp_val ext po];
      repeat rewrite ?app_length; cbn [length]; unfold ext; cbn [po]; try reflexivity.
    - f_equal; f_equal; unfold nnat; lia.
    - f_equal; f_equal; unfold vstart, nnat; lia.
    - unfold set. cbn. f_equal; f_equal; unfold vstart, nnat; lia.
  Qed.

  (* ---- the theorems ------------------------------------------------------------------------------------------------------------------------------- *)
  Section Thm.
    Variables (junk : list byte) (n0 : byte) (name : list byte) (v : vshape).
    Hypothesis Hn0 : plain n0.
    Hypothesis Hname : Forall plain name.
    Hypothesis Hv : vok v.
    Let k := nnat (length junk).
    Let a := k + nnat (length (n0 :: name)).
    Let e := a + nnat (length (vbody v)).
    Let item := (n0 :: name) ++ vbody v.

    Lemma item_run y : parse_tokparam flags (junk ++ item ++ y) k tokparam0 = run it (rev item ++ rev junk) y e 0 (vstate k a v).
    Proof.
      unfold parse_tokparam. subst k. rewrite parse_at. fold it. rewrite (seg_item n0 name v _ Hn0 Hname Hv (rev junk) y).
      f_equal. unfold e, a, item. rewrite app_length. unfold nnat. lia.
    Qed.
    Lemma Hka : k <= a. Proof. unfold a. lia. Qed.

    (* ended by the terminator (after optional white space): ok, at the terminator *)
    Theorem item_term w t r : gap w -> is_term_c flags t = true ->
      parse_tokparam flags (junk ++ item ++ w ++ t :: r) k tokparam0
      = Done (e + nnat (length w)) EOk (exp_item k a v ETerm (e + nnat (length w)) PFIN).
    Proof.
      intros Hw Ht. rewrite item_run, (fol_term _ w t r e _ Hw Ht (vstate_closable k a v Hka)). f_equal. apply close_term_exp. exact Hka.
    Qed.
    (* followed by the separator and (after optional white space) the first byte of the next item: more values, at that byte *)
    Theorem item_more w w4 c r : gap w -> gap w4 -> plain c ->
      parse_tokparam flags (junk ++ item ++ w ++ sep :: w4 ++ c :: r) k tokparam0
      = Done (e + nnat (length w) + 1 + nnat (length w4)) EMoreValues (exp_item k a v ESep (e + nnat (length w)) PInitNxtVal).
    Proof.
      intros Hw Hw4 Hc. rewrite item_run, (fol_sep _ w w4 c r e _ Hw Hw4 Hc (vstate_closable k a v Hka)). f_equal. apply close_sep_exp. exact Hka.
    Qed.
    (* ended by the end of the input (after optional blanks), POptInputEndF: end of header, at the end *)
    Theorem item_eoi sp : spaces sp -> ie = true ->
      parse_tokparam flags (junk ++ item ++ sp) k tokparam0
      = Done (e + nnat (length sp)) EEOH (exp_item k a v EEoi 0 PFIN).
    Proof.
      intros Hsp Hie. rewrite item_run, (fol_eoi _ sp e _ Hsp Hie (vstate_closable k a v Hka)). f_equal. apply close_eoi_exp. exact Hka.
    Qed.
    (* ended by the end of the header line (after optional blanks): end of header, after the line end *)
    Theorem item_eoh sp x tail : spaces sp -> is_sp x = false ->
      parse_tokparam flags (junk ++ item ++ sp ++ CR :: LF :: x :: tail) k tokparam0
      = Done (e + nnat (length sp) + 2) EEOH (exp_item k a v EEoi 0 PFIN).
    Proof.
      intros Hsp Hx. rewrite item_run, (fol_eoh _ sp x tail e _ Hsp Hx (vstate_closable k a v Hka)). f_equal. apply close_eoi_exp. exact Hka.
    Qed.
    (* followed by white space and the first byte of something else, POptTokSpTermF (a value-less or token-valued or quoted item): ok *)
    Theorem item_spterm w c r : wsrun w -> plain c -> tf_spterm (tp_decode flags) = true -> (forall w1, v <> VEmpty w1) ->
      parse_tokparam flags (junk ++ item ++ w ++ c :: r) k tokparam0
      = Done (e + nnat (length w) - 1) EOk (close_sp (vstate k a v) e).
    Proof.
      intros Hw Hc Hsp Hne. rewrite item_run. apply fol_spterm; try assumption; [exact (vstate_closable k a v Hka)|].
      destruct v; cbn; try discriminate. exfalso. exact (Hne _ eq_refl).
    Qed.
  End Thm.
End Item.
