(* C17 / C15: name "=" value ended by the end of the input (POptInputEndF): end of header at the end, parameter complete;
   list level: ParseAllURIParams / ParseAllURIHdrs on a whole text name=value<sep>...<sep>name=value. *)
From Sipsp Require Import Driver Harness RunLemmas Ext ExtLeaf ZSlice HdrSpec UIntSpec FLineSpec TokSpec NameAddrSpec Shift ShiftFb ShiftTok
  ExtLists Capacity CapHeaders CapURI ExtURI UListSpec UHListSpec.
From Coq Require Import ZifyN ZifyNat ZifyBool.
From RecordUpdate Require Import RecordUpdate.

Section Eoi.
  Variable flags : N.
  Let f := tp_decode flags.
  Let it := tp_iter flags.
  Notation plain := (plain flags).

  Lemma run_val_nil value pre i al nm vl : Forall plain value ->
    run (tp_iter flags) pre value i 0 (mktokparam al nm vl PVal) = run (tp_iter flags) (rev value ++ pre) [] (i + nnat (length value)) 0 (mktokparam al nm vl PVal).
  Proof. intros H. pose proof (run_val flags value pre [] i al nm vl H) as Hv. rewrite app_nil_r in Hv. exact Hv. Qed.

  Theorem tp_spec_eoi n0 name v0 value : plain n0 -> Forall plain name -> plain v0 -> Forall plain value -> tf_ie f = true ->
    let ln := nnat (length (n0 :: name)) in let lv := nnat (length (v0 :: value)) in
    parse_tokparam flags ((n0 :: name) ++ 61 :: (v0 :: value)) 0 tokparam0
    = Done (ln + 1 + lv) EEOH (mktokparam (mkpf 0 (ln + 1 + lv)) (mkpf 0 ln) (mkpf (ln + 1) lv) PFIN).
  Proof.
    intros Hn0 Hname Hv0 Hvalue Hie ln lv. unfold parse_tokparam, parse, zinit. cbn [N.to_nat firstn skipn rev app]. fold it. unfold f in *.
    destruct Hn0 as (A1 & A2 & A3 & A4 & A5 & A6). destruct Hv0 as (B1 & B2 & B3 & B4 & B5 & B6).
    rewrite (run1 flags [] n0 _ 0 tokparam0 (mktokparam (mkpf 0 0) (mkpf 0 0) pf0 PName)).
    2:{ unfold tp_iter. cbn [tp_state tokparam0]. unfold tp_step, tp_sInit. rewrite A1, A5, A6. cbn [negb is_tp_fnxt]. reflexivity. }
    rewrite (run_name flags name [n0] _ (0 + 1) _ _ _ Hname).
    remember (0 + 1 + nnat (length name)) as i1 eqn:Ei1.
    rewrite (run1 flags _ 61 _ i1 _ (mktokparam (mkpf 0 (i1 + 1)) (mkpf 0 i1) pf0 PFVal)).
    2:{ unfold tp_iter. cbn [tp_state]. unfold tp_step, tp_sName, ext2, pf_extend. cbn [tp_name tp_all po pl].
        replace (is_ws 61) with false by reflexivity. cbn [N.eqb Pos.eqb]. replace (i1 <? 0) with false by lia. replace (i1 + 1 <? 0) with false by lia.
        rewrite ?N.sub_0_r. reflexivity. }
    rewrite (run1 flags _ v0 _ (i1 + 1) _ (mktokparam (mkpf 0 (i1 + 1)) (mkpf 0 i1) (mkpf (i1 + 1) 0) PVal)).
    2:{ unfold tp_iter. cbn [tp_state]. unfold tp_step, tp_sFVal, pf_set, pf_extend. cbn [tp_all po pl]. rewrite B1, B3. fold (is_term_c flags v0). rewrite B4, B5, B6.
        cbn [negb]. replace (i1 + 1 <? i1 + 1) with false by lia. replace (i1 + 1 <? 0) with false by lia. rewrite ?N.sub_0_r, ?N.sub_diag. reflexivity. }
    rewrite (run_val_nil value _ (i1 + 1 + 1) _ _ _ Hvalue).
    remember (i1 + 1 + 1 + nnat (length value)) as i2 eqn:Ei2.
    rewrite run_after.
    replace (tp_iter flags _ [] i2 _) with (Ret i2 EEOH (mktokparam (mkpf 0 i2) (mkpf 0 i1) (mkpf (i1 + 1) (i2 - (i1 + 1))) PFIN) : ires tokparam).
    2:{ unfold tp_iter. cbn [tp_state]. unfold tp_moreBytes. rewrite Hie. cbn [tp_state]. unfold pf_extend. cbn [tp_val tp_all po pl].
        replace (i2 <? i1 + 1) with false by lia. replace (i2 <? 0) with false by lia. rewrite ?N.sub_0_r. reflexivity. }
    cbn [after]. subst ln lv. cbn [length]. unfold nnat in *. f_equal; [lia|]. f_equal; f_equal; lia.
  Qed.
End Eoi.

Theorem tp_spec_eoi_at flags (junk : list byte) n0 (name : list byte) v0 (value : list byte) :
  plain flags n0 -> Forall (plain flags) name -> plain flags v0 -> Forall (plain flags) value -> tf_ie (tp_decode flags) = true ->
  let k := nnat (length junk) in let ln := nnat (length (n0 :: name)) in let lv := nnat (length (v0 :: value)) in
  parse_tokparam flags (junk ++ (n0 :: name) ++ 61 :: (v0 :: value)) k tokparam0
  = Done (k + (ln + 1 + lv)) EEOH (mktokparam (mkpf k (ln + 1 + lv)) (mkpf k ln) (mkpf (k + (ln + 1)) lv) PFIN).
Proof.
  intros Hn0 Hname Hv0 Hvalue Hie k ln lv.
  pose proof (tp_spec_eoi flags n0 name v0 value Hn0 Hname Hv0 Hvalue Hie) as H0. cbv zeta in H0. fold ln lv in H0.
  pose proof (tokparam_shift flags junk ((n0 :: name) ++ 61 :: (v0 :: value)) 0 ltac:(unfold nnat; lia)) as Hs.
  rewrite H0 in Hs. replace (0 + nnat (length junk)) with k in Hs by (subst k; lia). unfold res_shiftI in Hs. rewrite rev_length in Hs. fold k in Hs.
  assert (Hln : ln <> 0) by (subst ln; cbn [length]; unfold nnat; lia).
  assert (Hlv : lv <> 0) by (subst lv; cbn [length]; unfold nnat; lia).
  clearbody ln lv k.
  destruct (parse_tokparam flags _ k tokparam0) as [o' e' s'| |]; try contradiction.
  destruct Hs as (-> & <- & Hst & Hf). cbn [tp_state tp_live tp_all tp_name tp_val lvp] in Hst, Hf. destruct Hf as (F1 & F2 & F3).
  apply zp_nonempty in F1; [|cbn [pl]; lia].
  apply zp_nonempty in F2; [|cbn [pl]; lia].
  apply zp_nonempty in F3; [|cbn [pl]; lia].
  destruct s' as [al nm vl st]. cbn [tp_state tp_all tp_name tp_val] in Hst, F1, F2, F3. subst al nm vl st. unfold shf. cbn [po pl].
  f_equal; [lia|]. f_equal; f_equal; lia.
Qed.

(* ---- URI parameter list ended by the end of the input ---------------------------------------------------------------------------------- *)
Section ULE.
  Variable flags0 : N.
  Notation flags := (N.lor flags0 (2 ^ bPOptParamSemiSep)).
  Notation sep := (tf_sep (tp_decode flags)).
  Hypothesis Hie : tf_ie (tp_decode flags) = true.

  Lemma ul_iter1_eoi p pre i l : p_ok flags0 p -> i = nnat (length pre) -> ULI l ->
    ul_iter1 flags0 pre (p_bytes p ++ []) i l = Ret (i + p_len p) EEOH (ul_add l (p_entry p i PFIN)).
  Proof.
    intros (H1 & H2 & H3 & H4) Hi [Hwf Hslot]. unfold ul_iter1. cbv zeta. rewrite Hslot. cbn [up_param uriparam0].
    destruct p as [nm vl]. cbn [fst snd] in *. destruct nm as [|n0 name]; [congruence|]. destruct vl as [|v0 value]; [congruence|].
    apply Forall_cons_iff in H2. destruct H2 as [Hn0 Hname]. apply Forall_cons_iff in H4. destruct H4 as [Hv0 Hvalue].
    pose proof (tp_spec_eoi_at flags (rev pre) n0 name v0 value Hn0 Hname Hv0 Hvalue Hie) as H. cbv zeta in H.
    unfold parse_tokparam in H. rewrite rev_length, <- Hi in H.
    assert (Hi' : i = nnat (length (rev pre))) by (rewrite rev_length; exact Hi).
    rewrite Hi' in H at 1. rewrite parse_at, rev_involutive, <- Hi' in H.
    unfold p_bytes. cbn [fst snd]. rewrite app_nil_r.
    repeat (rewrite <- ?app_assoc; cbn [app]). repeat (rewrite <- ?app_assoc in H; cbn [app] in H).
    match goal with |- context [run ?a ?b ?c ?d ?e ?f] => match type of H with _ = ?R => replace (run a b c d e f) with R by (symmetry; exact H) end end.
    assert (Z : zget pre (n0 :: name ++ 61 :: v0 :: value) i (mkpf i (nnat (length (n0 :: name)))) = Some (n0 :: name)).
    { pose proof (FLineSpec.zget_here pre (n0 :: name) (61 :: v0 :: value) i Hi) as Zh. cbn [app] in Zh. exact Zh. }
    cbv beta iota. cbn [tp_name].
    match goal with |- context [zget ?a ?b ?c ?d] => replace (zget a b c d) with (Some (n0 :: name)) by (symmetry; exact Z) end.
    unfold ul_add, p_entry, p_len, p_bytes. cbn [fst snd up_t].
    repeat (rewrite ?app_length; cbn [length]).
    replace (nnat (S (length name)) + 1 + nnat (S (length value))) with (nnat (S (length name + S (S (length value))))) by (unfold nnat; lia).
    replace (i + (nnat (S (length name)) + 1)) with (i + nnat (S (length name)) + 1) by lia.
    f_equal.
  Qed.

  (* the list loop, for any way the last parameter ends *)
  Lemma ulist_run_gen (y : list byte) (e : err)
    (Hlast : forall p pre i l, p_ok flags0 p -> i = nnat (length pre) -> ULI l ->
       ul_iter1 flags0 pre (p_bytes p ++ y) i l = Ret (i + p_len p) e (ul_add l (p_entry p i PFIN))) ps :
    forall pre i l, ps <> [] -> Forall (p_ok flags0) ps -> i = nnat (length pre) -> ULI l ->
    run (ul_iter flags0) pre (l_bytes flags0 ps ++ y) i 0 l
    = Done (i + nnat (length (l_bytes flags0 ps))) e (ul_adds l (l_entries i ps)).
  Proof.
    induction ps as [|p ps IH]; intros pre i l Hne Hall Hi Hl; [congruence|].
    apply Forall_cons_iff in Hall. destruct Hall as [Hp Hall].
    destruct ps as [|p2 ps].
    - cbn [l_bytes l_entries ul_adds fold_left]. rewrite run_after.
      rewrite (ul_iter_ret _ _ _ _ _ _ _ _ (Hlast p pre i l Hp Hi Hl)). cbn [after]. reflexivity.
    - change (l_bytes flags0 (p :: p2 :: ps)) with (p_bytes p ++ sep :: l_bytes flags0 (p2 :: ps)).
      change (l_entries i (p :: p2 :: ps)) with (p_entry p i PInitNxtVal :: l_entries (i + p_len p + 1) (p2 :: ps)).
      rewrite <- app_assoc. cbn [app].
      assert (Hp2 : p_ok flags0 p2) by (apply Forall_cons_iff in Hall; apply Hall).
      assert (Hhd : exists c y', l_bytes flags0 (p2 :: ps) ++ y = c :: y' /\ plain flags c).
      { destruct ps as [|p3 ps]; cbn [l_bytes]; [apply (p_head flags0); exact Hp2|]. rewrite <- app_assoc. apply (p_head flags0). exact Hp2. }
      destruct Hhd as (c & y' & Ey & Hc). rewrite Ey.
      rewrite run_after.
      pose proof (ul_iter1_more flags0 p c y' pre i l Hp Hc Hi Hl) as H1. rewrite Nat.add_1_r in H1.
      rewrite (ul_iter_noz _ _ _ _ _ _ _ H1).
      set (k := S (length (p_bytes p))).
      rewrite after_next by (try rewrite app_length; cbn [length]; lia).
      assert (Ez : zpre k pre (p_bytes p ++ sep :: c :: y') = sep :: rev (p_bytes p) ++ pre /\ zrest k (p_bytes p ++ sep :: c :: y') = c :: y').
      { unfold zpre, zrest, k. change (p_bytes p ++ sep :: c :: y') with (p_bytes p ++ [sep] ++ c :: y'). rewrite app_assoc.
        replace (S (length (p_bytes p))) with (length (p_bytes p ++ [sep])) by (rewrite app_length; cbn; lia).
        rewrite firstn_app, Nat.sub_diag, firstn_all, skipn_app, Nat.sub_diag, skipn_all. cbn [firstn skipn app]. rewrite app_nil_r, rev_app_distr. cbn. auto. }
      destruct Ez as [-> ->]. rewrite <- Ey.
      rewrite (IH (sep :: rev (p_bytes p) ++ pre) (i + nnat k) (ul_add l (p_entry p i PInitNxtVal)) ltac:(discriminate) Hall).
      + cbn [ul_adds fold_left]. unfold p_len. replace (i + nnat (length (p_bytes p)) + 1) with (i + nnat k) by (unfold k, nnat; lia).
        f_equal. rewrite app_length. cbn [length]. fold (l_bytes flags0 (p2 :: ps)). unfold k, nnat. lia.
      + cbn [length]. rewrite app_length, rev_length. unfold k, nnat in *. lia.
      + apply ul_add_ULI. exact Hl.
  Qed.

  Theorem uri_params_list_spec_eoi ps (junk : list byte) n : ps <> [] -> Forall (p_ok flags0) ps ->
    let i := nnat (length junk) in
    let es := l_entries i ps in
    exists L, parse_all_uri_params flags0 (junk ++ l_bytes flags0 ps) i (uparams_init (repeat uriparam0 n))
              = Done (i + nnat (length (l_bytes flags0 ps))) EEOH L /\
      ul_n L = nnat (length ps) /\ ul_vno L = nnat (length ps) /\
      ul_types L = fold_left (fun a p => N.lor a (up_t p)) es 0 /\
      length (ul_params L) = n /\
      (forall j, (j < length ps)%nat -> (j < n)%nat -> nth j (ul_params L) uriparam0 = nth j es uriparam0).
  Proof.
    intros Hne Hall i es. set (l0 := uparams_init (repeat uriparam0 n)).
    assert (Hl0 : ULI l0).
    { unfold ULI, l0. split; [apply ul_wf_init|]. unfold ul_slot, ul_is_tmp, ul_cap, uparams_init. cbn. destruct (_ <=? 0); [reflexivity|apply nth_repeat]. }
    exists (ul_adds l0 es). unfold parse_all_uri_params.
    replace (l0 <| ul_vno := 0 |>) with l0 by reflexivity. subst i. 
    rewrite <- (app_nil_r (l_bytes flags0 ps)) at 1. rewrite parse_at.
    rewrite (ulist_run_gen [] EEOH ul_iter1_eoi ps (rev junk) (nnat (length junk)) l0 Hne Hall ltac:(now rewrite rev_length) Hl0).
    split; [reflexivity|]. fold es.
    assert (Hlen : length es = length ps) by apply l_entries_length.
    destruct (uadds_n es l0) as (A1 & A2 & A3). rewrite A1, A2, A3, Hlen.
    split; [reflexivity|]. split; [reflexivity|]. split; [apply uadds_types|].
    split; [unfold l0, uparams_init; cbn [ul_params]; apply repeat_length|].
    intros j Hj Hjn. pose proof (uadds_nth es l0 j ltac:(lia)) as A. change (ul_n l0) with 0 in A. cbn [N.to_nat Nat.add] in A.
    apply A. unfold l0, uparams_init. cbn [ul_params]. rewrite repeat_length. exact Hjn.
  Qed.
End ULE.

(* ---- URI header list ended by the end of the input --------------------------------------------------------------------------------------- *)
Section UHE.
  Variable flags0 : N.
  Notation flags := (N.lor flags0 (N.lor (2 ^ bPOptParamAmpSep) (2 ^ bPOptTokURIHdr))).
  Notation sep := (tf_sep (tp_decode flags)).
  Hypothesis Hie : tf_ie (tp_decode flags) = true.

  Lemma uh_iter1_eoi p pre i l : h_ok flags0 p -> i = nnat (length pre) -> UHI l ->
    uh_iter1 flags0 pre (p_bytes p ++ []) i l = Ret (i + p_len p) EEOH (uh_add l (h_entry p i PFIN)).
  Proof.
    intros (H1 & H2 & H3 & H4) Hi [Hwf Hslot]. unfold uh_iter1. cbv zeta. rewrite Hslot.
    destruct p as [nm vl]. cbn [fst snd] in *. destruct nm as [|n0 name]; [congruence|]. destruct vl as [|v0 value]; [congruence|].
    apply Forall_cons_iff in H2. destruct H2 as [Hn0 Hname]. apply Forall_cons_iff in H4. destruct H4 as [Hv0 Hvalue].
    pose proof (tp_spec_eoi_at flags (rev pre) n0 name v0 value Hn0 Hname Hv0 Hvalue Hie) as H. cbv zeta in H.
    unfold parse_tokparam in H. rewrite rev_length, <- Hi in H.
    assert (Hi' : i = nnat (length (rev pre))) by (rewrite rev_length; exact Hi).
    rewrite Hi' in H at 1. rewrite parse_at, rev_involutive, <- Hi' in H.
    unfold p_bytes. cbn [fst snd]. rewrite app_nil_r.
    repeat (rewrite <- ?app_assoc; cbn [app]). repeat (rewrite <- ?app_assoc in H; cbn [app] in H).
    match goal with |- context [run ?a ?b ?c ?d ?e ?f] => match type of H with _ = ?R => replace (run a b c d e f) with R by (symmetry; exact H) end end.
    cbv beta iota.
    unfold uh_add, h_entry, p_len, p_bytes. cbn [fst snd].
    repeat (rewrite ?app_length; cbn [length]).
    replace (nnat (S (length name)) + 1 + nnat (S (length value))) with (nnat (S (length name + S (S (length value))))) by (unfold nnat; lia).
    replace (i + (nnat (S (length name)) + 1)) with (i + nnat (S (length name)) + 1) by lia.
    f_equal.
  Qed.

  Lemma uhlist_run_gen (y : list byte) (e : err)
    (Hlast : forall p pre i l, h_ok flags0 p -> i = nnat (length pre) -> UHI l ->
       uh_iter1 flags0 pre (p_bytes p ++ y) i l = Ret (i + p_len p) e (uh_add l (h_entry p i PFIN))) ps :
    forall pre i l, ps <> [] -> Forall (h_ok flags0) ps -> i = nnat (length pre) -> UHI l ->
    run (uh_iter flags0) pre (hl_bytes flags0 ps ++ y) i 0 l
    = Done (i + nnat (length (hl_bytes flags0 ps))) e (uh_adds l (hl_entries i ps)).
  Proof.
    induction ps as [|p ps IH]; intros pre i l Hne Hall Hi Hl; [congruence|].
    apply Forall_cons_iff in Hall. destruct Hall as [Hp Hall].
    destruct ps as [|p2 ps].
    - cbn [hl_bytes hl_entries uh_adds fold_left]. rewrite run_after.
      rewrite (uh_iter_ret _ _ _ _ _ _ _ _ (Hlast p pre i l Hp Hi Hl)). cbn [after]. reflexivity.
    - change (hl_bytes flags0 (p :: p2 :: ps)) with (p_bytes p ++ sep :: hl_bytes flags0 (p2 :: ps)).
      change (hl_entries i (p :: p2 :: ps)) with (h_entry p i PInitNxtVal :: hl_entries (i + p_len p + 1) (p2 :: ps)).
      rewrite <- app_assoc. cbn [app].
      assert (Hp2 : h_ok flags0 p2) by (apply Forall_cons_iff in Hall; apply Hall).
      assert (Hhd : exists c y', hl_bytes flags0 (p2 :: ps) ++ y = c :: y' /\ plain flags c).
      { destruct ps as [|p3 ps]; cbn [hl_bytes]; [apply (h_head flags0); exact Hp2|]. rewrite <- app_assoc. apply (h_head flags0). exact Hp2. }
      destruct Hhd as (c & y' & Ey & Hc). rewrite Ey.
      rewrite run_after.
      pose proof (uh_iter1_more flags0 p c y' pre i l Hp Hc Hi Hl) as H1. rewrite Nat.add_1_r in H1.
      rewrite (uh_iter_noz _ _ _ _ _ _ _ H1).
      set (k := S (length (p_bytes p))).
      rewrite after_next by (try rewrite app_length; cbn [length]; lia).
      assert (Ez : zpre k pre (p_bytes p ++ sep :: c :: y') = sep :: rev (p_bytes p) ++ pre /\ zrest k (p_bytes p ++ sep :: c :: y') = c :: y').
      { unfold zpre, zrest, k. change (p_bytes p ++ sep :: c :: y') with (p_bytes p ++ [sep] ++ c :: y'). rewrite app_assoc.
        replace (S (length (p_bytes p))) with (length (p_bytes p ++ [sep])) by (rewrite app_length; cbn; lia).
        rewrite firstn_app, Nat.sub_diag, firstn_all, skipn_app, Nat.sub_diag, skipn_all. cbn [firstn skipn app]. rewrite app_nil_r, rev_app_distr. cbn. auto. }
      destruct Ez as [-> ->]. rewrite <- Ey.
      rewrite (IH (sep :: rev (p_bytes p) ++ pre) (i + nnat k) (uh_add l (h_entry p i PInitNxtVal)) ltac:(discriminate) Hall).
      + cbn [uh_adds fold_left]. unfold p_len. replace (i + nnat (length (p_bytes p)) + 1) with (i + nnat k) by (unfold k, nnat; lia).
        f_equal. rewrite app_length. cbn [length]. fold (hl_bytes flags0 (p2 :: ps)). unfold k, nnat. lia.
      + cbn [length]. rewrite app_length, rev_length. unfold k, nnat in *. lia.
      + apply uh_add_UHI. exact Hl.
  Qed.

  Theorem uri_hdrs_list_spec_eoi ps (junk : list byte) n : ps <> [] -> Forall (h_ok flags0) ps ->
    let i := nnat (length junk) in
    let es := hl_entries i ps in
    exists L, parse_all_uri_hdrs flags0 (junk ++ hl_bytes flags0 ps) i (uhdrs_init (repeat tokparam0 n))
              = Done (i + nnat (length (hl_bytes flags0 ps))) EEOH L /\
      uh_n L = nnat (length ps) /\ uh_vno L = nnat (length ps) /\ length (uh_hdrs L) = n /\
      (forall j, (j < length ps)%nat -> (j < n)%nat -> nth j (uh_hdrs L) tokparam0 = nth j es tokparam0).
  Proof.
    intros Hne Hall i es. set (l0 := uhdrs_init (repeat tokparam0 n)).
    assert (Hl0 : UHI l0).
    { unfold UHI, l0. split; [apply uh_wf_init|]. unfold uh_slot, uh_is_tmp, uh_cap, uhdrs_init. cbn. destruct (_ <=? 0); [reflexivity|apply nth_repeat]. }
    exists (uh_adds l0 es). unfold parse_all_uri_hdrs.
    replace (l0 <| uh_vno := 0 |>) with l0 by reflexivity. subst i.
    rewrite <- (app_nil_r (hl_bytes flags0 ps)) at 1. rewrite parse_at.
    rewrite (uhlist_run_gen [] EEOH uh_iter1_eoi ps (rev junk) (nnat (length junk)) l0 Hne Hall ltac:(now rewrite rev_length) Hl0).
    split; [reflexivity|]. fold es.
    assert (Hlen : length es = length ps) by apply hl_entries_length.
    destruct (hadds_n es l0) as (A1 & A2 & A3). rewrite A1, A2, A3, Hlen.
    split; [reflexivity|]. split; [reflexivity|].
    split; [unfold l0, uhdrs_init; cbn [uh_hdrs]; apply repeat_length|].
    intros j Hj Hjn. pose proof (hadds_nth es l0 j ltac:(lia)) as A. change (uh_n l0) with 0 in A. cbn [N.to_nat Nat.add] in A.
    apply A. unfold l0, uhdrs_init. cbn [uh_hdrs]. rewrite repeat_length. exact Hjn.
  Qed.
End UHE.
