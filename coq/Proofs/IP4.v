(* C20: IPv4 detection is sound and complete; decoded address bytes are exact *)
From Sipsp Require Import IP.
From Coq Require Import ZifyN ZifyNat ZifyBool.

(* ---- the specification --------------------------------------------------- *)
Fixpoint dec_from (v : N) (ds : list byte) : N :=
  match ds with [] => v | c :: r => dec_from (v * 10 + digit_val c) r end.
Definition dec (ds : list byte) : N := dec_from 0 ds.

(* one to three digits with a value of at most 255 *)
Definition group (g : list byte) (v : N) : Prop :=
  g <> [] /\ (length g <= 3)%nat /\ forallb is_digit g = true /\ dec g = v /\ v <= 255.

(* four dot separated groups *)
Definition ip4_text (t : list byte) (ip : list N) : Prop :=
  exists g1 g2 g3 g4 a b c d,
    t = g1 ++ DOT :: g2 ++ DOT :: g3 ++ DOT :: g4 /\ ip = [a; b; c; d] /\
    group g1 a /\ group g2 b /\ group g3 c /\ group g4 d.

(* ---- the scanner's view: what remains to be read ---------------------------- *)
(* tail n cur dg t ips cf df: from a group with value cur and dg digits read so
   far, with n more groups to come, the text t completes the address; ips are
   the values from the current group on; cf/df = value/digits of the last group *)
Inductive tail : nat -> N -> N -> list byte -> list N -> N -> N -> Prop :=
  | tail_digit n cur dg c t ips cf df :
      is_digit c = true -> dg < 3 -> cur * 10 + digit_val c <= 255 ->
      tail n (cur * 10 + digit_val c) (dg + 1) t ips cf df -> tail n cur dg (c :: t) ips cf df
  | tail_dot n cur dg t ips cf df :
      0 < dg -> tail n 0 0 t ips cf df -> tail (S n) cur dg (DOT :: t) (cur :: ips) cf df
  | tail_end cur dg : 0 < dg -> tail 0 cur dg [] [cur] cur dg.

Lemma dot_not_digit : is_digit DOT = false. Proof. reflexivity. Qed.

(* what follows the address cannot extend its last group *)
Definition stops (cf df : N) (rest : list byte) : Prop :=
  match rest with
  | [] => True
  | c :: _ => is_digit c = false \/ 3 <= df \/ 255 < cf * 10 + digit_val c
  end.
Definition indication (rest : list byte) : err :=
  match rest with
  | [] => EOk
  | c :: _ => if is_digit c then EMoreValues else EBadChar
  end.

(* ---- soundness of the loop ---------------------------------------------------- *)
Lemma loop_sound : forall r o done cur dg o' e ip,
  (length done <= 3)%nat -> (dg = 0 -> cur = 0) ->
  ip4_loop r o done cur dg = (true, o', e, ip) ->
  exists t rest ips cf df, r = t ++ rest /\ tail (3 - length done) cur dg t ips cf df /\
    ip = rev done ++ ips /\ o' = o + nnat (length t) /\ stops cf df rest /\ e = indication rest.
Proof.
  (* the scanner stops here: the address ends with the current group *)
  assert (Hstop : forall (r : list byte) o done cur dg, (length done <= 3)%nat -> (length done <? 3)%nat = false -> 0 < dg ->
            stops cur dg r ->
            exists t rest ips cf df, r = t ++ rest /\ tail (3 - length done) cur dg t ips cf df /\
              rev (cur :: done) = rev done ++ ips /\ o = o + nnat (length t) /\ stops cf df rest /\
              indication r = indication rest).
  { intros r o done cur dg Hd Hl Hg Hs. exists [], r, [cur], cur, dg.
    replace (3 - length done)%nat with 0%nat by lia.
    split; [reflexivity|]. split; [constructor; exact Hg|]. split; [reflexivity|].
    split; [unfold nnat; cbn; lia|]. split; [exact Hs|reflexivity]. }
  induction r as [|c r IH]; intros o done cur dg o' e ip Hd Hz H; cbn [ip4_loop] in H.
  - destruct ((length done <? 3)%nat || (dg =? 0)) eqn:E; [discriminate|].
    injection H as <- <- <-. apply Hstop; auto; try lia. exact I.
  - destruct (is_digit c) eqn:Edig.
    + destruct ((3 <=? dg) || (255 <? cur * 10 + digit_val c)) eqn:Estop.
      * destruct (length done <? 3)%nat eqn:El; [discriminate|].
        injection H as <- <- <-.
        assert (0 < dg).
        { destruct (N.eq_dec dg 0) as [->|]; [|lia]. rewrite (Hz eq_refl) in Estop.
          unfold is_digit, digit_val in *. lia. }
        replace EMoreValues with (indication (c :: r)) by (unfold indication; rewrite Edig; reflexivity).
        apply Hstop; auto. cbn. right. lia.
      * apply IH in H; [|assumption|lia].
        destruct H as (t & rest & ips & cf & df & -> & Ht & -> & -> & Hs & ->).
        exists (c :: t), rest, ips, cf, df.
        split; [reflexivity|]. split; [constructor; auto; lia|]. split; [reflexivity|].
        split; [cbn [length]; unfold nnat; lia|]. split; [exact Hs|reflexivity].
    + destruct (c =? DOT) eqn:Edot.
      * apply N.eqb_eq in Edot. subst c.
        destruct (dg =? 0) eqn:Ez; [discriminate|].
        destruct (3 <=? length done)%nat eqn:El.
        -- injection H as <- <- <-.
           replace EBadChar with (indication (DOT :: r)) by reflexivity.
           apply Hstop; auto; try lia. cbn. left. reflexivity.
        -- apply IH in H; [|cbn; lia|auto].
           destruct H as (t & rest & ips & cf & df & -> & Ht & -> & -> & Hs & ->).
           exists (DOT :: t), rest, (cur :: ips), cf, df.
           split; [reflexivity|]. split.
           { apply Nat.leb_gt in El.
             replace (3 - length done)%nat with (S (3 - length (cur :: done))) by (cbn [length]; lia).
             constructor; [lia|exact Ht]. }
           split; [cbn [rev]; now rewrite <- app_assoc|].
           split; [cbn [length]; unfold nnat; lia|]. split; [exact Hs|reflexivity].
      * destruct ((length done <? 3)%nat || (dg =? 0)) eqn:E; [discriminate|].
        injection H as <- <- <-.
        replace EBadChar with (indication (c :: r)) by (unfold indication; rewrite Edig; reflexivity).
        apply Hstop; auto; try lia. cbn. left. exact Edig.
Qed.

(* ---- completeness of the loop --------------------------------------------------- *)
Lemma last_group_found : forall r o done cur dg, (3 <= length done)%nat -> 0 < dg ->
  exists o' e ip, ip4_loop r o done cur dg = (true, o', e, ip).
Proof.
  induction r as [|c r IH]; intros o done cur dg Hd Hg; cbn [ip4_loop].
  - replace ((length done <? 3)%nat || (dg =? 0)) with false by lia. eauto.
  - destruct (is_digit c).
    + destruct ((3 <=? dg) || (255 <? cur * 10 + digit_val c)).
      * replace (length done <? 3)%nat with false by lia. eauto.
      * apply IH; lia.
    + destruct (c =? DOT).
      * replace (dg =? 0) with false by lia. replace (3 <=? length done)%nat with true by lia. eauto.
      * replace ((length done <? 3)%nat || (dg =? 0)) with false by lia. eauto.
Qed.

Lemma loop_complete : forall n cur dg t ips cf df, tail n cur dg t ips cf df ->
  forall rest o done, (n = 3 - length done)%nat -> (length done <= 3)%nat ->
  exists o' e ip, ip4_loop (t ++ rest) o done cur dg = (true, o', e, ip).
Proof.
  induction 1 as [n cur dg c t ips cf df Hc Hd Hv Ht IH | n cur dg t ips cf df Hd Ht IH | cur dg Hd];
    intros rest o done Hn Hl.
  - cbn [app ip4_loop]. rewrite Hc.
    replace ((3 <=? dg) || (255 <? cur * 10 + digit_val c)) with false by lia.
    apply IH; assumption.
  - cbn [app ip4_loop]. rewrite dot_not_digit, N.eqb_refl.
    replace (dg =? 0) with false by lia. replace (3 <=? length done)%nat with false by lia.
    apply IH; cbn [length]; lia.
  - cbn [app]. apply last_group_found; lia.
Qed.

(* ---- tail <-> the explicit four-group form ------------------------------------------ *)
Lemma dec_from_snoc v ds c : dec_from v (ds ++ [c]) = dec_from v ds * 10 + digit_val c.
Proof. revert v; induction ds as [|d ds IH]; intros v; cbn; auto. Qed.
Lemma dec_from_mono v ds : v <= dec_from v ds.
Proof. revert v; induction ds as [|d ds IH]; intros v; cbn; [lia|]. specialize (IH (v * 10 + digit_val d)). lia. Qed.

(* reading a whole group: from (cur,dg) the digits g lead to (dec_from cur g, dg + |g|) *)
Lemma tail_group : forall g n cur dg t ips cf df,
  forallb is_digit g = true -> dg + nnat (length g) <= 3 -> dec_from cur g <= 255 ->
  tail n (dec_from cur g) (dg + nnat (length g)) t ips cf df -> tail n cur dg (g ++ t) ips cf df.
Proof.
  induction g as [|c g IH]; intros n cur dg t ips cf df Hg Hl Hv Ht; cbn [app].
  - cbn in Ht. unfold nnat in Ht. cbn in Ht. now rewrite N.add_0_r in Ht.
  - cbn [forallb] in Hg. apply andb_true_iff in Hg as [Hc Hg]. cbn [dec_from length] in *.
    pose proof (dec_from_mono (cur * 10 + digit_val c) g).
    constructor; auto; try (unfold nnat in *; lia).
    apply IH; auto; unfold nnat in *; try lia.
    replace (dg + 1 + N.of_nat (length g)) with (dg + N.of_nat (S (length g))) by lia. exact Ht.
Qed.

Lemma tail_group_end g cur dg :
  forallb is_digit g = true -> dg + nnat (length g) <= 3 -> dec_from cur g <= 255 -> 0 < dg + nnat (length g) ->
  tail 0 cur dg g [dec_from cur g] (dec_from cur g) (dg + nnat (length g)).
Proof.
  intros Hg Hl Hv Hp. pose proof (tail_group g 0 cur dg [] [dec_from cur g] (dec_from cur g) (dg + nnat (length g)) Hg Hl Hv) as H.
  rewrite app_nil_r in H. apply H. constructor. exact Hp.
Qed.

Lemma group_len g v : group g v -> 0 < nnat (length g) /\ nnat (length g) <= 3.
Proof. intros (Hne & Hl & _). destruct g; [congruence|]. unfold nnat; cbn [length] in *; lia. Qed.

Theorem ip4_text_tail t ip : ip4_text t ip ->
  exists cf df, tail 3 0 0 t ip cf df.
Proof.
  intros (g1 & g2 & g3 & g4 & a & b & c & d & -> & -> & G1 & G2 & G3 & G4).
  pose proof (group_len _ _ G1). pose proof (group_len _ _ G2). pose proof (group_len _ _ G3).
  pose proof (group_len _ _ G4).
  destruct G1 as (_ & _ & D1 & <- & V1), G2 as (_ & _ & D2 & <- & V2), G3 as (_ & _ & D3 & <- & V3),
           G4 as (_ & _ & D4 & <- & V4).
  exists (dec_from 0 g4), (0 + nnat (length g4)). unfold dec in *.
  apply tail_group; auto; try lia. constructor; [lia|].
  apply tail_group; auto; try lia. constructor; [lia|].
  apply tail_group; auto; try lia. constructor; [lia|].
  apply tail_group_end; auto; lia.
Qed.

(* the converse: split a tail into its groups *)
Lemma tail_split : forall n cur dg t ips cf df, tail n cur dg t ips cf df -> dg <= 3 -> cur <= 255 ->
  exists g t', t = g ++ t' /\ forallb is_digit g = true /\ dg + nnat (length g) <= 3 /\ dec_from cur g <= 255 /\
    0 < dg + nnat (length g) /\
    match n with
    | O => t' = [] /\ ips = [dec_from cur g] /\ cf = dec_from cur g /\ df = dg + nnat (length g)
    | S n' => exists t'' ips', t' = DOT :: t'' /\ ips = dec_from cur g :: ips' /\ tail n' 0 0 t'' ips' cf df
    end.
Proof.
  induction 1 as [n cur dg c t ips cf df Hc Hd Hv Ht IH | n cur dg t ips cf df Hd Ht IH | cur dg Hd];
    intros Hdg Hcur.
  - destruct IH as (g & t' & -> & Hg & Hl & Hdv & Hp & Hn); [lia|lia|].
    exists (c :: g), t'. cbn [app forallb length dec_from]. rewrite Hc, Hg. unfold nnat in *.
    split; [reflexivity|]. split; [reflexivity|]. split; [lia|]. split; [exact Hdv|]. split; [lia|].
    destruct n as [|n'].
    + destruct Hn as (-> & -> & -> & ->). repeat split; auto. lia.
    + exact Hn.
  - exists [], (DOT :: t). cbn. unfold nnat. cbn. rewrite N.add_0_r.
    split; [reflexivity|]. split; [reflexivity|]. split; [lia|]. split; [lia|]. split; [lia|].
    exists t, ips. auto.
  - exists [], []. cbn. unfold nnat. cbn. rewrite N.add_0_r.
    split; [reflexivity|]. split; [reflexivity|]. split; [lia|]. split; [lia|]. split; [lia|]. auto.
Qed.

Lemma mk_group g : forallb is_digit g = true -> 0 + nnat (length g) <= 3 -> dec_from 0 g <= 255 ->
  0 < 0 + nnat (length g) -> group g (dec g).
Proof.
  intros Hg Hl Hv Hp. unfold group, dec, nnat in *. repeat split; auto; try lia.
  destruct g; cbn in *; [lia|congruence].
Qed.

Theorem tail_ip4_text t ip cf df : tail 3 0 0 t ip cf df ->
  ip4_text t ip /\ exists g4, group g4 cf /\ df = nnat (length g4) /\ exists t0, t = t0 ++ g4.
Proof.
  intros H.
  apply tail_split in H as (g1 & t1 & -> & D1 & L1 & V1 & P1 & t1' & ips1 & -> & -> & H); [|lia|lia].
  apply tail_split in H as (g2 & t2 & -> & D2 & L2 & V2 & P2 & t2' & ips2 & -> & -> & H); [|lia|lia].
  apply tail_split in H as (g3 & t3 & -> & D3 & L3 & V3 & P3 & t3' & ips3 & -> & -> & H); [|lia|lia].
  apply tail_split in H as (g4 & t4 & -> & D4 & L4 & V4 & P4 & -> & -> & -> & ->); [|lia|lia].
  rewrite app_nil_r. split.
  - exists g1, g2, g3, g4, (dec g1), (dec g2), (dec g3), (dec g4).
    split; [reflexivity|]. split; [reflexivity|]. split; [now apply mk_group|]. split; [now apply mk_group|].
    split; now apply mk_group.
  - exists g4. split; [now apply mk_group|]. split; [lia|].
    exists (g1 ++ DOT :: g2 ++ DOT :: g3 ++ [DOT]).
    repeat (rewrite <- app_assoc; cbn [app]). reflexivity.
Qed.

(* ---- IP4Prefix ---------------------------------------------------------------------------- *)
(* sound: a reported address is a valid group sequence at the start of the text,
   the bytes are its values, it stops at the first byte that cannot extend it,
   and the indication says what follows *)
Theorem ip4_prefix_sound s o e ip : ip4_prefix s = (true, o, e, ip) ->
  exists t rest cf df, s = t ++ rest /\ o = nnat (length t) /\ ip4_text t ip /\
    (exists g4, group g4 cf /\ df = nnat (length g4) /\ exists t0, t = t0 ++ g4) /\
    stops cf df rest /\ e = indication rest.
Proof.
  unfold ip4_prefix. intros H. apply loop_sound in H; [|cbn; lia|auto].
  destruct H as (t & rest & ips & cf & df & -> & Ht & -> & -> & Hs & ->).
  cbn [rev app length] in *. apply tail_ip4_text in Ht as [Hip Hg].
  exists t, rest, cf, df. repeat split; auto.
Qed.

(* complete: a text that starts with a valid group sequence is accepted *)
Theorem ip4_prefix_complete t ip rest : ip4_text t ip ->
  exists o e ip', ip4_prefix (t ++ rest) = (true, o, e, ip').
Proof.
  intros H. apply ip4_text_tail in H as (cf & df & H).
  unfold ip4_prefix. eapply loop_complete; eauto.
Qed.

(* ---- ContainsIP4 --------------------------------------------------------------------------- *)
Lemma try_sound buf : forall cnt o o' nxt ip, ip4_try buf o cnt = Some (o', nxt, ip) ->
  (o <= o' < o + cnt)%nat /\ exists e, ip4_prefix (skipn o' buf) = (true, nxt, e, ip).
Proof.
  induction cnt as [|cnt IH]; intros o o' nxt ip H; cbn [ip4_try] in H; [discriminate|].
  destruct (ip4_prefix (skipn o buf)) as [[[ok n] e] i] eqn:E. destruct ok.
  - injection H as <- <- <-. split; [lia|]. eauto.
  - apply IH in H as [H1 H2]. split; [lia|exact H2].
Qed.
Lemma try_complete buf : forall cnt o p, (o <= p < o + cnt)%nat ->
  (exists n e i, ip4_prefix (skipn p buf) = (true, n, e, i)) -> ip4_try buf o cnt <> None.
Proof.
  induction cnt as [|cnt IH]; intros o p Hp Hx; [lia|]. cbn [ip4_try].
  destruct (ip4_prefix (skipn o buf)) as [[[ok n] e] i] eqn:E. destruct ok; [discriminate|].
  destruct (Nat.eq_dec o p) as [->|Hne].
  - destruct Hx as (n' & e' & i' & Hx). congruence.
  - apply (IH (S o) p); [lia|exact Hx].
Qed.

Lemma cip4_sound buf : forall r j i o nxt ip, cip4_loop buf r j i = Some (o, nxt, ip) ->
  exists e, ip4_prefix (skipn o buf) = (true, nxt, e, ip).
Proof.
  induction r as [|c r IH]; intros j i o nxt ip H; cbn [cip4_loop] in H; [discriminate|].
  destruct (c =? DOT).
  - destruct (ip4_try buf _ _) as [[[o1 n1] i1]|] eqn:E.
    + injection H as <- <- <-. apply try_sound in E. apply E.
    + eapply IH; eauto.
  - eapply IH; eauto.
Qed.

(* found: the reported span is a valid address with the returned bytes *)
Theorem contains_ip4_sound buf o l ip : contains_ip4 buf = (true, o, l, ip) ->
  exists t rest, skipn (N.to_nat o) buf = t ++ rest /\ l = nnat (length t) /\ ip4_text t ip /\
                 (N.to_nat o <= length buf)%nat.
Proof.
  unfold contains_ip4. destruct (cip4_loop buf buf 0 0) as [[[o1 n1] i1]|] eqn:E; [|discriminate].
  intros H. injection H as <- <- <-. apply cip4_sound in E as [e E].
  apply ip4_prefix_sound in E as (t & rest & cf & df & E1 & E2 & E3 & _).
  rewrite Nat2N.id. exists t, rest. repeat split; auto.
  destruct (le_lt_dec o1 (length buf)); auto.
  rewrite skipn_all2 in E1 by lia. destruct t; [|discriminate].
  destruct E3 as (g1 & ? & ? & ? & ? & ? & ? & ? & Ht & _). destruct g1; discriminate.
Qed.

Lemma skipn_S_tl {A} (l : list A) : forall j, skipn (S j) l = tl (skipn j l).
Proof. induction l as [|x l IH]; intros [|j]; cbn; auto. rewrite <- IH. reflexivity. Qed.

(* complete: a text that contains a valid address anywhere is reported *)
Lemma cip4_complete buf p g1 t' :
  skipn p buf = g1 ++ DOT :: t' -> forallb is_digit g1 = true -> (0 < length g1 <= 3)%nat ->
  (exists n e i, ip4_prefix (skipn p buf) = (true, n, e, i)) ->
  forall r j i, skipn j buf = r -> (i <= p)%nat -> (i <= j)%nat -> (j <= p + length g1)%nat ->
  cip4_loop buf r j i <> None.
Proof.
  intros Hp Hg Hl Hx. induction r as [|c r IH]; intros j i Hr Hi Hij Hj.
  - (* the dot at p + |g1| is inside the buffer, so the suffix from j cannot be empty *)
    exfalso. assert (length (skipn p buf) = (length buf - p)%nat) by apply skipn_length.
    rewrite Hp, app_length in H. cbn [length] in H.
    assert (length (skipn j buf) = (length buf - j)%nat) by apply skipn_length.
    rewrite Hr in H0. cbn in H0. lia.
  - assert (Hc : nth_error buf j = Some c).
    { rewrite <- (firstn_skipn j buf) at 1. rewrite Hr.
      assert (length (firstn j buf) = j).
      { rewrite firstn_length. assert (length (skipn j buf) = (length buf - j)%nat) by apply skipn_length.
        rewrite Hr in H. cbn in H. lia. }
      rewrite nth_error_app2 by lia. rewrite H, Nat.sub_diag. reflexivity. }
    assert (Hr' : skipn (S j) buf = r).
    { rewrite skipn_S_tl, Hr. reflexivity. }
    (* byte k of g1 ++ DOT :: t' is byte p + k of buf *)
    assert (Hnth : forall k, nth_error buf (p + k) = nth_error (g1 ++ DOT :: t') k).
    { intros k. rewrite <- Hp. clear. revert buf; induction p as [|p IHp]; intros buf; [reflexivity|].
      destruct buf as [|b buf]; cbn; [now destruct k|apply IHp]. }
    cbn [cip4_loop]. destruct (c =? DOT) eqn:Ec.
    + destruct (ip4_try buf _ _) eqn:Et; [discriminate|].
      destruct (Nat.eq_dec j (p + length g1)) as [Hjj|Hjj].
      * exfalso. revert Et. apply (try_complete buf _ _ p); [|exact Hx].
        destruct (3 <=? j)%nat eqn:E3; lia.
      * apply IH; auto; try lia.
        (* a dot before p + |g1| lies before p: the bytes of g1 are digits *)
        apply N.eqb_eq in Ec. subst c.
        destruct (le_lt_dec p j) as [Hpj|]; [|lia]. exfalso.
        specialize (Hnth (j - p)%nat). replace (p + (j - p))%nat with j in Hnth by lia.
        rewrite Hc, nth_error_app1 in Hnth by lia.
        symmetry in Hnth. apply nth_error_In in Hnth.
        rewrite forallb_forall in Hg. apply Hg in Hnth. discriminate.
    + apply IH; auto; try lia.
      destruct (Nat.eq_dec j (p + length g1)) as [Hjj|]; [|lia]. exfalso.
      specialize (Hnth (length g1)). rewrite <- Hjj, Hc, nth_error_app2, Nat.sub_diag in Hnth by lia.
      cbn in Hnth. injection Hnth as ->. rewrite N.eqb_refl in Ec. discriminate.
Qed.

Theorem contains_ip4_complete buf p t r ip : buf = p ++ t ++ r -> ip4_text t ip ->
  exists o l ip', contains_ip4 buf = (true, o, l, ip').
Proof.
  intros Hb Ht.
  assert (Hx : exists n e i, ip4_prefix (skipn (length p) buf) = (true, n, e, i)).
  { subst buf. rewrite skipn_app, skipn_all, Nat.sub_diag. cbn [app skipn].
    apply ip4_prefix_complete with (ip := ip). exact Ht. }
  destruct Ht as (g1 & g2 & g3 & g4 & a & b & c & d & -> & -> & G1 & _).
  destruct G1 as (Hne & Hl & Hd & _).
  assert (Hs : skipn (length p) buf = g1 ++ DOT :: (g2 ++ DOT :: g3 ++ DOT :: g4) ++ r).
  { subst buf. rewrite skipn_app, skipn_all, Nat.sub_diag. cbn [app skipn].
    rewrite <- app_assoc. reflexivity. }
  pose proof (cip4_complete buf (length p) g1 _ Hs Hd) as H.
  specialize (H ltac:(destruct g1; cbn in *; [congruence|lia]) Hx buf 0%nat 0%nat eq_refl ltac:(lia) ltac:(lia) ltac:(lia)).
  unfold contains_ip4. destruct (cip4_loop buf buf 0 0) as [[[o n] i]|]; [eauto|congruence].
Qed.

(* the position flag GetCallIDSig derives from the reported span *)
Theorem callid_flag_spec cid o l ip : contains_ip4 cid = (true, o, l, ip) ->
  callid_ip4_flag cid = if o =? 0 then 1 else if o + l =? N.of_nat (length cid) then 2 else 4.
Proof. intros H. unfold callid_ip4_flag. rewrite H. reflexivity. Qed.
Theorem callid_flag_none cid : fst (fst (fst (contains_ip4 cid))) = false -> callid_ip4_flag cid = 0.
Proof. unfold callid_ip4_flag. destruct (contains_ip4 cid) as [[[[] ?] ?] ?]; cbn; auto; discriminate. Qed.

(* the hypotheses are satisfiable: 10.0.255.1 followed by 9 *)
Example ip4_example :
  ip4_prefix [49;48;46;48;46;50;53;53;46;49;57] = (true, 11, EOk, [10;0;255;19]) /\
  ip4_prefix [49;46;50;46;51;46;50;53;54] = (true, 8, EMoreValues, [1;2;3;25]) /\
  contains_ip4 [120;49;46;50;46;51;46;52;121] = (true, 1, 7, [1;2;3;4]).
Proof. vm_compute. auto. Qed.
