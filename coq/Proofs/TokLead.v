(* C17: empty list items and white space before a parameter's name are skipped: ParseTokenParam started before them on a fresh object
   behaves as if started at the name (so the item theorems of TokItem.v apply after any such prefix). *)
From Sipsp Require Import Driver Harness RunLemmas Ext ExtLeaf ZSlice HdrSpec UIntSpec FLineSpec TokSpec TokItem.
From Coq Require Import ZifyN ZifyNat ZifyBool.
From RecordUpdate Require Import RecordUpdate.

Section Lead.
  Variable flags : N.
  Notation it := (tp_iter flags).
  Notation sep := (tf_sep (tp_decode flags)).

  (* separators and white-space runs; a white-space run is followed by a separator or ends the prefix *)
  Inductive lead : list byte -> Prop :=
  | lead_nil : lead []
  | lead_sep L : lead L -> lead (sep :: L)
  | lead_ws_sep w L : wsrun flags w -> lead L -> lead (w ++ sep :: L)
  | lead_ws_end w : wsrun flags w -> lead w.

  Lemma it_init_sep pre r i : it pre (sep :: r) i tokparam0 = Next 1 tokparam0.
  Proof.
    destruct (sep_facts flags) as (S1 & _). unfold tp_iter. cbn [tp_state tokparam0]. unfold tp_step, tp_sInit. rewrite S1, N.eqb_refl. reflexivity.
  Qed.
  Lemma it_init_gap pre w c r i : wsrun flags w -> is_ws c = false -> it pre (w ++ c :: r) i tokparam0 = Next (length w) tokparam0.
  Proof.
    intros [(c0 & w' & -> & Hc0) Hsk] Hc. specialize (Hsk c r Hc). cbn [app] in *.
    unfold tp_iter. cbn [tp_state tokparam0]. unfold tp_step, tp_sInit. rewrite Hc0. unfold tp_ws. rewrite Hsk. reflexivity.
  Qed.
  Lemma run_lead L : lead L -> forall pre c r i, is_ws c = false -> (c =? sep) = false ->
    run it pre (L ++ c :: r) i 0 tokparam0 = run it (rev L ++ pre) (c :: r) (i + nnat (length L)) 0 tokparam0.
  Proof.
    destruct (sep_facts flags) as (S1 & _).
    induction 1 as [|L _ IH|w L Hw _ IH|w Hw]; intros pre c r i Hc Hs.
    - cbn [app rev length]. replace (i + nnat 0) with i by (unfold nnat; lia). reflexivity.
    - cbn [app]. rewrite (run1 flags pre sep _ i tokparam0 tokparam0 (it_init_sep pre _ i)). rewrite IH by assumption.
      cbn [rev length]. rewrite <- app_assoc. cbn [app]. f_equal. unfold nnat. lia.
    - rewrite <- app_assoc. cbn [app].
      assert (Hne : w <> []) by (destruct Hw as [(c0 & w' & -> & _) _]; discriminate).
      rewrite (run_step it pre w _ i tokparam0 tokparam0 Hne (it_init_gap pre w sep _ i Hw S1)).
      rewrite (run1 flags _ sep _ _ tokparam0 tokparam0 (it_init_sep _ _ _)). rewrite IH by assumption.
      rewrite rev_app_distr, app_length. cbn [rev length]. rewrite <- !app_assoc. cbn [app]. f_equal. unfold nnat. lia.
    - assert (Hne : w <> []) by (destruct Hw as [(c0 & w' & -> & _) _]; discriminate).
      exact (run_step it pre w _ i tokparam0 tokparam0 Hne (it_init_gap pre w c r i Hw Hc)).
  Qed.
  (* started before the prefix = started at the name *)
  Theorem lead_skipped L (junk : list byte) c r : lead L -> is_ws c = false -> (c =? sep) = false ->
    parse_tokparam flags (junk ++ L ++ c :: r) (nnat (length junk)) tokparam0
    = parse_tokparam flags ((junk ++ L) ++ c :: r) (nnat (length (junk ++ L))) tokparam0.
  Proof.
    intros HL Hc Hs. unfold parse_tokparam. rewrite !parse_at. rewrite (run_lead L HL (rev junk) c r _ Hc Hs).
    rewrite rev_app_distr, app_length. f_equal. unfold nnat. lia.
  Qed.
End Lead.
