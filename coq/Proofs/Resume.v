(* Method R of DESIGN.md, the parser-independent half: from a one-step
   extension property (ExtOK) to every chunk schedule (C01, C02), and the
   no-premature-verdict clause (C03). *)
From Sipsp Require Import Driver.
From Coq Require Import ZifyN ZifyNat ZifyBool.

Section Resume.
  Context {S : Type}.
  Variable P : list byte -> N -> S -> res S.      (* an exported streaming parser *)
  Variable obs : S -> list Z.                     (* what a caller can read back *)

  (* same verdict, same offset, and equal values once the verdict is definitive *)
  Definition req (a b : res S) : Prop :=
    match a, b with
    | Done o e s, Done o' e' s' => o = o' /\ e = e' /\ (e <> EMore -> obs s = obs s')
    | Panic, Panic => True
    | Stuck, Stuck => True
    | _, _ => False
    end.

  Lemma req_refl a : req a a.
  Proof. destruct a; cbn; auto. Qed.
  Lemma req_sym a b : req a b -> req b a.
  Proof.
    destruct a, b; cbn; auto. intros (-> & -> & H). repeat split; auto. intros He. symmetry. auto.
  Qed.
  Lemma req_trans a b c : req a b -> req b c -> req a c.
  Proof.
    destruct a, b, c; cbn; try tauto.
    intros (-> & -> & H1) (-> & -> & H2). repeat split; auto. intros He. rewrite H1, H2; auto.
  Qed.

  Variable Inv : N -> S -> Prop.   (* what holds of (offset, state) between calls *)

  (* the one-step property each parser has to establish *)
  Definition ExtOK : Prop := forall p x i s, Inv i s -> i <= nnat (length p) ->
    match P p i s with
    | Done o EMore s' =>            (* transparent resumption *)
      Inv o s' /\ o <= nnat (length p) /\ req (P (p ++ x) o s') (P (p ++ x) i s)
    | Done o e s' =>                (* no premature verdict *)
      req (P (p ++ x) i s) (Done o e s')
    | _ => True
    end.

  (* the resumption half alone: enough for the schedule theorem *)
  Definition ResOK : Prop := forall p x i s, Inv i s -> i <= nnat (length p) ->
    match P p i s with
    | Done o EMore s' => Inv o s' /\ o <= nnat (length p) /\ req (P (p ++ x) o s') (P (p ++ x) i s)
    | _ => True
    end.
  Lemma ExtOK_ResOK : ExtOK -> ResOK.
  Proof.
    intros H p x i s HI Hi. specialize (H p x i s HI Hi). destruct (P p i s) as [o e s'| |]; auto.
    destruct e; auto.
  Qed.

  (* b extends p *)
  Definition extends (p b : list byte) : Prop := exists x, b = p ++ x.

  Lemma firstn_extends n m (b : list byte) : (n <= m)%nat -> extends (firstn n b) (firstn m b).
  Proof.
    intros H. exists (firstn (m - n) (skipn n b)).
    rewrite <- (firstn_skipn n (firstn m b)) at 1.
    rewrite firstn_firstn, Nat.min_l by lia. f_equal.
    rewrite skipn_firstn_comm. reflexivity.
  Qed.
  Lemma firstn_extends_all n (b : list byte) : extends (firstn n b) b.
  Proof. exists (skipn n b). symmetry. apply firstn_skipn. Qed.

  (* the schedule: non-decreasing prefix lengths *)
  Fixpoint sorted_from (lo : nat) (cuts : list nat) : Prop :=
    match cuts with
    | [] => True
    | c :: cs => (lo <= c)%nat /\ sorted_from c cs
    end.

  (* every call of the chunked run agrees with a fresh one-shot call on the
     same prefix; stated on the trace of all calls *)
  Fixpoint agrees (b : list byte) (cuts : list nat) (tr : list (res S)) (k : N) (s0 : S) : Prop :=
    match cuts, tr with
    | [], [r] => req r (P b k s0)
    | c :: cs, r :: tr' =>
      req r (P (firstn c b) k s0) /\
      match tr' with [] => True | _ => agrees b cs tr' k s0 end
    | _, _ => False
    end.

  Lemma schedule_gen (H : ResOK) (b : list byte) (k : N) (s0 : S) :
    forall cuts lo o s, sorted_from lo cuts -> Inv o s -> o <= nnat (length (firstn lo b)) ->
      (forall b', extends (firstn lo b) b' -> req (P b' o s) (P b' k s0)) ->
      agrees b cuts (chunked_trace P b cuts o s) k s0.
  Proof.
    induction cuts as [|c cs IH]; intros lo o s Hs HI Ho Hinv.
    - cbn. apply Hinv. apply firstn_extends_all.
    - cbn [chunked_trace]. destruct Hs as [Hlo Hs].
      assert (Hoc : o <= nnat (length (firstn c b))).
      { unfold nnat in *. rewrite firstn_length in *. lia. }
      pose proof (Hinv (firstn c b) (firstn_extends lo c b Hlo)) as Hc.
      destruct (P (firstn c b) o s) as [o' e s'| |] eqn:E.
      + destruct e.
        all: try (cbn; split; [exact Hc | exact I]).
        (* EMore: go on with (o', s') *)
        cbn [agrees]. split; [exact Hc|].
        assert (Hnext : forall b', extends (firstn c b) b' -> req (P b' o' s') (P b' k s0)).
        { intros b' [x ->]. pose proof (H (firstn c b) x o s HI Hoc) as Hx. rewrite E in Hx.
          destruct Hx as (_ & _ & Hx). eapply req_trans; [exact Hx|].
          apply Hinv. destruct (firstn_extends lo c b Hlo) as [y Hy]. exists (y ++ x).
          rewrite Hy, <- app_assoc. reflexivity. }
        assert (HI' : Inv o' s' /\ o' <= nnat (length (firstn c b))).
        { pose proof (H (firstn c b) [] o s HI Hoc) as Hx. rewrite E in Hx. split; apply Hx. }
        destruct HI' as [HI' Ho'].
        specialize (IH c o' s' Hs HI' Ho' Hnext).
        destruct (chunked_trace P b cs o' s') eqn:Et; [|exact IH].
        destruct cs; cbn in Et; [discriminate|].
        destruct (P (firstn n b) o' s') as [? [] ?| |]; discriminate.
      + cbn. split; [exact Hc | exact I].
      + cbn. split; [exact Hc | exact I].
  Qed.

  (* C01 / C02 for one parser, given its one-step property *)
  Theorem resume_schedule_res (H : ResOK) (b : list byte) (k : N) (s0 : S) (cuts : list nat) :
    Inv k s0 -> k <= nnat (length b) -> sorted_from (N.to_nat k) cuts ->
    agrees b cuts (chunked_trace P b cuts k s0) k s0.
  Proof.
    intros HI Hk Hs. apply (schedule_gen H b k s0 cuts (N.to_nat k) k s0 Hs HI).
    - unfold nnat in *. rewrite firstn_length. lia.
    - intros b' _. apply req_refl.
  Qed.
  Theorem resume_schedule (H : ExtOK) (b : list byte) (k : N) (s0 : S) (cuts : list nat) :
    Inv k s0 -> k <= nnat (length b) -> sorted_from (N.to_nat k) cuts ->
    agrees b cuts (chunked_trace P b cuts k s0) k s0.
  Proof. exact (resume_schedule_res (ExtOK_ResOK H) b k s0 cuts). Qed.

  (* C03 for one parser, given its one-step property *)
  Theorem no_premature_verdict (H : ExtOK) (b x : list byte) (k : N) (s0 : S) o e s :
    Inv k s0 -> k <= nnat (length b) -> P b k s0 = Done o e s -> e <> EMore -> req (P (b ++ x) k s0) (Done o e s).
  Proof.
    intros HI Hk E He. pose proof (H b x k s0 HI Hk) as Hx. rewrite E in Hx. destruct e; auto. congruence.
  Qed.
End Resume.
