(* C07, functional correctness of the generic header-line parser against the header grammar:
      name *WSP ":" *WSP [ token *( LWS token ) ] EOL
   The name is the text before the colon without surrounding white space, the value runs from the
   first to the last non-white-space byte (across folded continuation lines), empty values are
   allowed, the type is the classification of the name. *)
From Sipsp Require Import RunLemmas Safe Resume Ext ExtLeaf ZSlice Harness ExtCSeq ExtFLine ExtAdv ExtHdrLine FLineSpec UIntSpec.
From Coq Require Import ZifyN ZifyNat ZifyBool.

(* a separator between two value tokens: white space that the LWS skipper crosses completely *)
Definition lws_run (s : list byte) : Prop :=
  (exists c0 s', s = c0 :: s' /\ is_ws c0 = true) /\
  forall c r, is_ws c = false -> skipLWS false (s ++ c :: r) = LOk (length s).

Lemma lws_run_spaces sp : sp <> [] -> Forall (fun b => is_sp b = true) sp -> lws_run sp.
Proof.
  intros Hne Hsp. split.
  - destruct sp as [|c0 s']; [congruence|]. exists c0, s'. split; [reflexivity|]. inversion Hsp; subst. unfold is_ws.
    match goal with H : is_sp c0 = true |- _ => now rewrite H end.
  - intros c r Hc. now apply skipLWS_sp_prefix.
Qed.

Fixpoint flat (tl : list (list byte * list byte)) : list byte :=
  match tl with [] => [] | (s, t) :: r => s ++ t ++ flat r end.
Definition good_tail (tl : list (list byte * list byte)) : Prop :=
  Forall (fun '(s, t) => lws_run s /\ tok t /\ t <> []) tl.

Lemma after_next {St} (iter : list byte -> list byte -> N -> St -> ires St) pre R i k s :
  (0 < k)%nat -> (k <= length R)%nat ->
  after iter pre R i (Next k s) = run iter (zpre k pre R) (zrest k R) (i + nnat k) 0 s.
Proof.
  intros H0 Hk. unfold after. destruct k; [lia|].
  replace (S k <=? length R)%nat with true by (symmetry; apply Nat.leb_le; exact Hk). reflexivity.
Qed.

Lemma tok_head_notws t : tok t -> t <> [] -> exists t0 t', t = t0 :: t' /\ is_ws t0 = false /\ tok t'.
Proof. intros Ht Hne. destruct t as [|t0 t']; [congruence|]. inversion Ht; subst. exists t0, t'. auto. Qed.

Section Val.
  Variables (d : byte) (x : list byte).
  Hypothesis Hd : is_sp d = false.
  Variables (ty : N) (nm : pf) (pv : option phvals) (vs : N).

  Lemma eol_lws : skipLWS false (CR :: LF :: d :: x) = LEOH 0 2.
  Proof. unfold skipLWS. cbn. now rewrite Hd. Qed.

  (* in the middle of a value token: cur = what is left of it *)
  Lemma val_run : forall tl cur pre i vl, tok cur -> good_tail tl -> vs <= i ->
    run hit pre (cur ++ flat tl ++ CR :: LF :: d :: x) i 0 (mkhline (mkhdr ty nm (mkpf vs vl) HVal) pv)
    = Done (i + nnat (length cur) + nnat (length (flat tl)) + 2) EOk
        (mkhline (mkhdr ty nm (mkpf vs (i + nnat (length cur) + nnat (length (flat tl)) - vs)) HFIN) pv).
  Proof.
    induction tl as [|[s t] tl IH]; intros cur pre i vl Hcur Htl Hvs.
    - cbn [flat app length]. rewrite run_after, (hit_val pre _ i (mkhline (mkhdr ty nm (mkpf vs vl) HVal) pv) eq_refl). unfold hl_val.
      rewrite (skipToken_tok cur CR _ Hcur eq_refl), skipn_len_app. cbn [hx_h h_val].
      unfold pf_extend. cbn [po]. replace (i + nnat (length cur) <? vs) with false by (unfold nnat; lia).
      unfold hl_valend. rewrite eol_lws. cbn -[N.add N.sub nnat].
      replace (i + nnat (length cur) + nnat 0) with (i + nnat (length cur)) by (unfold nnat; lia).
      replace (nnat 2) with 2 by reflexivity. reflexivity.
    - inversion Htl as [|? ? Hst Htl']; subst. cbn in Hst. destruct Hst as (Hs & Ht & Hnt).
      destruct Hs as [(c0 & s' & -> & Hc0) Hskip].
      destruct (tok_head_notws t Ht Hnt) as (t0 & t' & -> & Ht0 & Ht').
      cbn [flat]. rewrite run_after, (hit_val pre _ i (mkhline (mkhdr ty nm (mkpf vs vl) HVal) pv) eq_refl). unfold hl_val.
      change (cur ++ ((c0 :: s') ++ (t0 :: t') ++ flat tl) ++ CR :: LF :: d :: x)
        with (cur ++ c0 :: (s' ++ (t0 :: t') ++ flat tl) ++ CR :: LF :: d :: x).
      rewrite (skipToken_tok cur c0 _ Hcur Hc0), skipn_len_app. cbn [hx_h h_val].
      unfold pf_extend. cbn [po]. replace (i + nnat (length cur) <? vs) with false by (unfold nnat; lia).
      unfold hl_valend.
      replace (c0 :: (s' ++ (t0 :: t') ++ flat tl) ++ CR :: LF :: d :: x)
        with ((c0 :: s') ++ t0 :: (t' ++ flat tl ++ CR :: LF :: d :: x))
        by (cbn [app]; rewrite <- ?app_assoc; cbn [app]; rewrite <- ?app_assoc; reflexivity).
      rewrite (Hskip t0 _ Ht0).
      set (B := cur ++ (c0 :: s') ++ t0 :: t' ++ flat tl ++ CR :: LF :: d :: x).
      change (cur ++ (c0 :: s') ++ t0 :: t' ++ flat tl ++ CR :: LF :: d :: x) with B. set (k := S (length cur + length (c0 :: s'))).
      assert (HB : B = (cur ++ (c0 :: s') ++ [t0]) ++ t' ++ flat tl ++ CR :: LF :: d :: x)
        by (subst B; cbn [app]; rewrite <- ?app_assoc; cbn [app]; rewrite <- ?app_assoc; reflexivity).
      assert (Hk : k = length (cur ++ (c0 :: s') ++ [t0])) by (subst k; rewrite !app_length; cbn [length]; lia).
      rewrite after_next by (try lia; rewrite HB, app_length, <- Hk; lia).
      unfold zrest, zpre. rewrite HB, Hk, skipn_len_app.
      match goal with |- run hit ?P ?R ?I 0 ?S = _ => change S with (mkhline (mkhdr ty nm (mkpf vs (i + nnat (length cur) - vs)) HVal) pv) end.
      rewrite IH; [|exact Ht'|exact Htl'|unfold nnat in *; lia].
      rewrite <- Hk.
      assert (Hlen : nnat k + nnat (length t') + nnat (length (flat tl))
                     = nnat (length cur) + nnat (length ((c0 :: s') ++ (t0 :: t') ++ flat tl))).
      { subst k. repeat (rewrite ?app_length; cbn [length]). unfold nnat. lia. }
      replace (i + nnat k + nnat (length t') + nnat (length (flat tl)))
        with (i + nnat (length cur) + nnat (length ((c0 :: s') ++ (t0 :: t') ++ flat tl))) by lia.
      reflexivity.
  Qed.
End Val.

(* one driver step over the bytes a *)
Lemma run_step {St} (iter : list byte -> list byte -> N -> St -> ires St) pre a y i s s' :
  a <> [] -> iter pre (a ++ y) i s = Next (length a) s' ->
  run iter pre (a ++ y) i 0 s = run iter (rev a ++ pre) y (i + nnat (length a)) 0 s'.
Proof.
  intros Ha H. rewrite run_after, H. rewrite after_next by (try rewrite app_length; destruct a; [congruence|cbn [length]; lia]).
  unfold zpre, zrest. now rewrite skipn_len_app, firstn_app, Nat.sub_diag, firstn_all, app_nil_r.
Qed.

Definition nametok (l : list byte) : Prop := Forall (fun c => is_ws c = false /\ c <> 58) l.
Definition spaces (l : list byte) : Prop := Forall (fun b => is_sp b = true) l.

Lemma skipTokenDelim_name name c y : nametok name -> is_ws c = true \/ c = 58 -> skipTokenDelim 58 (name ++ c :: y) = length name.
Proof.
  intros Hn Hc. unfold skipTokenDelim. rewrite span_all_app.
  - cbn [span]. destruct Hc as [Hc| ->]; [rewrite Hc|rewrite N.eqb_refl, andb_false_r]; cbn; lia.
  - eapply Forall_impl; [|exact Hn]. cbn. intros b [Hb1 Hb2]. rewrite Hb1. cbn. apply N.eqb_neq in Hb2. now rewrite Hb2.
Qed.
Lemma skipWS_spaces sp c y : spaces sp -> is_sp c = false -> skipWS (sp ++ c :: y) = length sp.
Proof. intros Hs Hc. unfold skipWS. rewrite span_all_app by exact Hs. cbn [span]. rewrite Hc. lia. Qed.

Lemma colon_none pre rest i k st : hx_pv st = None ->
  hl_colon pre rest i k st =
  match zget pre rest i (h_name (hx_h st)) with
  | None => IPanic
  | Some name => Next (S k) (st <| hx_h := (hx_h st) <| h_state := HBodyStart |> <| h_type := get_hdr_type name |> |>)
  end.
Proof.
  intros Hp. rewrite hl_colon_eq. unfold hl_colon'. destruct (zget _ _ _ _); [|reflexivity]. cbv zeta.
  unfold hb_pick. destruct st; cbn in *. now rewrite Hp.
Qed.

Lemma colon_not_sp : is_sp 58 = false. Proof. reflexivity. Qed.

Lemma zget_name (p nm X Y : list byte) :
  zget (rev (nm ++ X) ++ rev p) Y (nnat (length p) + nnat (length (nm ++ X)))
       (mkpf (nnat (length p)) (nnat (length nm))) = Some nm.
Proof.
  rewrite zget_bslice by (rewrite ?app_length, ?rev_length, ?app_length; unfold nnat; lia).
  rewrite rev_app_distr, !rev_involutive. unfold bslice, pf_end. cbn [po pl].
  replace ((nnat (length p) <=? nnat (length p) + nnat (length nm)) &&
           (nnat (length p) + nnat (length nm) <=? nnat (length ((p ++ nm ++ X) ++ Y)))) with true
    by (rewrite !app_length; unfold nnat; lia).
  f_equal. replace (N.to_nat (nnat (length p))) with (length p) by (unfold nnat; lia).
  replace (N.to_nat (nnat (length p) + nnat (length nm) - nnat (length p))) with (length nm) by (unfold nnat; lia).
  rewrite <- !app_assoc, skipn_len_app. now rewrite firstn_app, Nat.sub_diag, firstn_all, app_nil_r.
Qed.

(* ---- from the start of the line to just after the colon ----------------------------------------------------- *)
Lemma name_run p name wsb (y : list byte) : nametok name -> name <> [] -> spaces wsb ->
  let i := nnat (length p) in
  run hit (rev p) (name ++ wsb ++ (58 : byte) :: y) i 0 (mkhline hdr0 None)
  = run hit ((58 : byte) :: rev wsb ++ rev name ++ rev p) y (i + nnat (length name) + nnat (length wsb) + 1) 0
      (mkhline (mkhdr (get_hdr_type name) (mkpf i (nnat (length name))) pf0 HBodyStart) None).
Proof.
  intros Hn Hne Hw i.
  destruct name as [|n0 name']; [congruence|]. pose proof Hn as Hn'. inversion Hn' as [|? ? [Hn0 Hn0c] Hnt]; subst.
  assert (Hcr : is_cr n0 = false /\ is_lf n0 = false).
  { unfold is_ws, is_crlf in Hn0. destruct (is_sp n0), (is_cr n0), (is_lf n0); cbn in Hn0; try discriminate; auto. }
  destruct Hcr as [Hcr Hlf].
  assert (Hzget : forall rest', zget (rev p) ((n0 :: name') ++ rest') i (mkpf i (nnat (length (n0 :: name')))) = Some (n0 :: name')).
  { intros rest'. apply zget_here. subst i. now rewrite rev_length. }
  destruct wsb as [|b wsb'].
  - (* the colon follows the name at once *)
    assert (EL : (n0 :: name') ++ (@nil byte) ++ (58 : byte) :: y = ((n0 :: name') ++ [(58 : byte)]) ++ y) by (cbn [app]; rewrite <- app_assoc; reflexivity).
    rewrite EL.
    rewrite (run_step hit (rev p) ((n0 :: name') ++ [(58 : byte)]) y i _
               (mkhline (mkhdr (get_hdr_type (n0 :: name')) (mkpf i (nnat (length (n0 :: name')))) pf0 HBodyStart) None)).
    2:{ destruct name'; discriminate. }
    2:{ rewrite <- app_assoc. cbn [app]. rewrite hit_init by reflexivity. rewrite Hcr, Hlf. unfold pf_set. rewrite N.ltb_irrefl, N.sub_diag.
        match goal with |- context [hl_name_ph _ _ _ ?st] => change st with (mkhline (mkhdr HdrNone (mkpf i 0) pf0 HName) None) end.
        unfold hl_name_ph. change (n0 :: name' ++ (58 : byte) :: y) with ((n0 :: name') ++ (58 : byte) :: y).
        rewrite (skipTokenDelim_name (n0 :: name') 58 y Hn (or_intror eq_refl)), skipn_len_app. rewrite colon_not_sp, N.eqb_refl.
        cbn [hx_h h_name]. unfold pf_extend. cbn [po]. replace (i + nnat (length (n0 :: name')) <? i) with false by (unfold nnat; lia).
        replace (i + nnat (length (n0 :: name')) - i) with (nnat (length (n0 :: name'))) by (unfold nnat; lia).
        unfold pf_empty. cbn [pl]. replace (nnat (length (n0 :: name')) =? 0) with false by (unfold nnat; cbn [length]; lia).
        rewrite colon_none by reflexivity. cbn [hx_h h_name]. rewrite Hzget.
        match goal with |- Next ?a ?s = Next ?b ?t => replace b with a by (cbn [length app]; rewrite ?app_length; cbn [length]; lia) end. reflexivity. }
    f_equal.
    + rewrite rev_app_distr. cbn [rev app]. rewrite <- !app_assoc. reflexivity.
    + rewrite app_length. cbn [length]. unfold nnat. lia.
  - (* white space between the name and the colon *)
    inversion Hw as [|? ? Hb Hw']; subst.
    assert (Hbws : is_ws b = true) by (unfold is_ws; now rewrite Hb).
    (* first step: the name and the first white space byte *)
    assert (EL : (n0 :: name') ++ (b :: wsb') ++ (58 : byte) :: y = ((n0 :: name') ++ [b]) ++ wsb' ++ (58 : byte) :: y) by (rewrite <- app_assoc; reflexivity).
    rewrite EL.
    rewrite (run_step hit (rev p) ((n0 :: name') ++ [b]) (wsb' ++ (58 : byte) :: y) i _
               (mkhline (mkhdr HdrNone (mkpf i (nnat (length (n0 :: name')))) pf0 HNameEnd) None)).
    2:{ destruct name'; discriminate. }
    2:{ rewrite <- app_assoc. cbn [app]. rewrite hit_init by reflexivity. rewrite Hcr, Hlf. unfold pf_set. rewrite N.ltb_irrefl, N.sub_diag.
        match goal with |- context [hl_name_ph _ _ _ ?st] => change st with (mkhline (mkhdr HdrNone (mkpf i 0) pf0 HName) None) end.
        unfold hl_name_ph. change (n0 :: name' ++ b :: wsb' ++ (58 : byte) :: y) with ((n0 :: name') ++ b :: wsb' ++ (58 : byte) :: y).
        rewrite (skipTokenDelim_name (n0 :: name') b _ Hn (or_introl Hbws)), skipn_len_app. rewrite Hb.
        cbn [hx_h h_name]. unfold pf_extend. cbn [po]. replace (i + nnat (length (n0 :: name')) <? i) with false by (unfold nnat; lia).
        replace (i + nnat (length (n0 :: name')) - i) with (nnat (length (n0 :: name'))) by (unfold nnat; lia).
        unfold pf_empty. cbn [pl]. replace (nnat (length (n0 :: name')) =? 0) with false by (unfold nnat; cbn [length]; lia).
        match goal with |- Next ?a ?s = Next ?b ?t => replace b with a by (cbn [length app]; rewrite ?app_length; cbn [length]; lia) end. reflexivity. }
    (* second step: the remaining white space and the colon *)
    assert (EL2 : wsb' ++ (58 : byte) :: y = (wsb' ++ [(58 : byte)]) ++ y) by (rewrite <- app_assoc; reflexivity).
    rewrite EL2.
    rewrite (run_step hit _ (wsb' ++ [(58 : byte)]) y _ _
               (mkhline (mkhdr (get_hdr_type (n0 :: name')) (mkpf i (nnat (length (n0 :: name')))) pf0 HBodyStart) None)).
    2:{ destruct wsb'; discriminate. }
    2:{ rewrite <- app_assoc. cbn [app]. rewrite hit_nameend by reflexivity. unfold hl_nameend.
        rewrite (skipWS_spaces wsb' 58 y Hw' colon_not_sp), skipn_len_app, N.eqb_refl.
        rewrite colon_none by reflexivity. cbn [hx_h h_name].
        subst i. rewrite (zget_name p (n0 :: name') [b] _).
        match goal with |- Next ?a ?s = Next ?b ?t => replace b with a by (cbn [length app]; rewrite ?app_length; cbn [length]; lia) end. reflexivity. }
    f_equal.
    + rewrite !rev_app_distr. cbn [rev app]. rewrite <- !app_assoc. cbn [app]. reflexivity.
    + rewrite !app_length. cbn [length]. unfold nnat. lia.
Qed.

(* ---- the value ------------------------------------------------------------------------------------------------------ *)
Lemma skipLWS_sp_eol sp d x : spaces sp -> is_sp d = false ->
  skipLWS false (sp ++ CR :: LF :: d :: x) = LEOH (length sp) 2.
Proof.
  intros Hsp Hd. unfold skipLWS.
  assert (G : forall k, skipLWS_at false (sp ++ CR :: LF :: d :: x) k = LEOH (k + length sp) 2).
  { induction Hsp as [|b sp Hb _ IH]; intros k; cbn [app skipLWS_at length].
    - cbn. rewrite Hd. f_equal. lia.
    - rewrite Hb, IH. f_equal. lia. }
  apply G.
Qed.

Theorem header_line_spec p name wsb lead t1 tl d x :
  nametok name -> name <> [] -> spaces wsb -> spaces lead -> tok t1 -> t1 <> [] -> good_tail tl -> is_sp d = false ->
  let i := nnat (length p) in
  let vstart := i + nnat (length name) + nnat (length wsb) + 1 + nnat (length lead) in
  let value := t1 ++ flat tl in
  parse_hdrline (p ++ name ++ wsb ++ (58 : byte) :: lead ++ value ++ CR :: LF :: d :: x) i (mkhline hdr0 None)
  = Done (vstart + nnat (length value) + 2) EOk
      (mkhline (mkhdr (get_hdr_type name) (mkpf i (nnat (length name))) (mkpf vstart (nnat (length value))) HFIN) None).
Proof.
  intros Hn Hne Hw Hl Ht1 Hnt Htl Hd i vstart value. unfold parse_hdrline. subst i. rewrite parse_at.
  rewrite (name_run p name wsb _ Hn Hne Hw). cbv zeta.
  destruct (tok_head_notws t1 Ht1 Hnt) as (t0 & t1' & -> & Ht0 & Ht1').
  set (i1 := nnat (length p) + nnat (length name) + nnat (length wsb) + 1) in *.
  (* the start of the value: skip the leading white space, mark the first byte *)
  assert (EL : lead ++ value ++ CR :: LF :: d :: x = (lead ++ [t0]) ++ t1' ++ flat tl ++ CR :: LF :: d :: x)
    by (subst value; rewrite <- !app_assoc; reflexivity).
  rewrite EL.
  rewrite (run_step hit _ (lead ++ [t0]) _ i1 _
             (mkhline (mkhdr (get_hdr_type name) (mkpf (nnat (length p)) (nnat (length name))) (mkpf (i1 + nnat (length lead)) 0) HVal) None)).
  2:{ destruct lead; discriminate. }
  2:{ rewrite <- app_assoc. cbn [app]. rewrite hit_bstart by reflexivity. unfold hl_bstart.
      rewrite (skipLWS_sp_prefix lead t0 _ Hl Ht0). unfold pf_set. rewrite N.ltb_irrefl, N.sub_diag.
      match goal with |- Next ?a ?s = Next ?b ?t => replace b with a by (cbn [length app]; rewrite ?app_length; cbn [length]; lia) end. reflexivity. }
  rewrite (val_run d x Hd _ _ None (i1 + nnat (length lead)) tl t1' _ _ 0 Ht1' Htl) by (repeat (rewrite ?app_length; cbn [length]); unfold nnat; lia).
  subst vstart value. f_equal.
  - repeat (rewrite ?app_length; cbn [length]). unfold nnat. lia.
  - f_equal. f_equal. f_equal. repeat (rewrite ?app_length; cbn [length]). unfold nnat. lia.
Qed.

(* an empty value *)
Theorem header_line_empty_value_spec p name wsb lead d x :
  nametok name -> name <> [] -> spaces wsb -> spaces lead -> is_sp d = false ->
  let i := nnat (length p) in
  parse_hdrline (p ++ name ++ wsb ++ (58 : byte) :: lead ++ CR :: LF :: d :: x) i (mkhline hdr0 None)
  = Done (i + nnat (length name) + nnat (length wsb) + 1 + nnat (length lead) + 2) EOk
      (mkhline (mkhdr (get_hdr_type name) (mkpf i (nnat (length name))) pf0 HFIN) None).
Proof.
  intros Hn Hne Hw Hl Hd i. unfold parse_hdrline. subst i. rewrite parse_at.
  rewrite (name_run p name wsb _ Hn Hne Hw). cbv zeta.
  rewrite run_after. rewrite hit_bstart by reflexivity. unfold hl_bstart.
  rewrite (skipLWS_sp_eol lead d x Hl Hd). cbn [after]. reflexivity.
Qed.

Lemma skipLWS_at_crlf e r2 k :
  skipLWS_at false (CR :: LF :: e :: r2) k = if is_sp e then skipLWS_at false (e :: r2) (k + 2) else LEOH k 2.
Proof. reflexivity. Qed.

(* a folded continuation line is a separator like any other *)
Lemma lws_run_fold sp sp' : spaces sp -> spaces sp' -> sp' <> [] -> lws_run (sp ++ CR :: LF :: sp').
Proof.
  intros Hs Hs' Hne. split.
  - destruct sp as [|c0 s0]; [exists CR, (LF :: sp'); split; reflexivity|].
    exists c0, (s0 ++ CR :: LF :: sp'). split; [reflexivity|]. inversion Hs; subst. unfold is_ws.
    match goal with H : is_sp c0 = true |- _ => now rewrite H end.
  - intros c r Hc. unfold skipLWS.
    destruct sp' as [|b sp'']; [congruence|]. inversion Hs' as [|? ? Hb Hs'']; subst.
    assert (G2 : forall k, skipLWS_at false ((b :: sp'') ++ c :: r) k = LOk (k + length (b :: sp''))).
    { intros k. pose proof (skipLWS_sp_prefix (b :: sp'') c r Hs' Hc) as H. unfold skipLWS in H.
      rewrite skipLWS_at_shift, H. cbn [lshift]. f_equal. }
    assert (G : forall k, skipLWS_at false ((sp ++ CR :: LF :: b :: sp'') ++ c :: r) k = LOk (k + length (sp ++ CR :: LF :: b :: sp''))).
    { induction Hs as [|a sp Ha _ IH]; intros k.
      - cbn [app length]. rewrite skipLWS_at_crlf, Hb. change (b :: sp'' ++ c :: r) with ((b :: sp'') ++ c :: r). rewrite G2. cbn [length]. f_equal. lia.
      - cbn [app skipLWS_at length]. rewrite Ha, IH. f_equal. cbn [length]. lia. }
    apply G.
Qed.
