(* Offsets of successful first-line and header-block parses stay inside the buffer
   (needed to chain the sections of a message). *)
From Sipsp Require Import RunLemmas Safe Resume Ext ExtLeaf ZSlice Harness ExtCSeq ExtNameAddr ExtNested ExtLists
  ExtFLine ExtAdv OkBounds ExtHdrLine HdrLineBounds ExtHeaders.
From Coq Require Import ZifyN ZifyNat ZifyBool.
From Sipsp Require Import Tables.

Definition okin {St} (i : N) (n : nat) (r : ires St) : Prop :=
  match r with Ret o EOk _ => i <= o /\ o <= i + nnat n | _ => True end.

Lemma skipCRLF_bound r crl : skipCRLF r = COk crl -> (crl <= length r)%nat.
Proof.
  unfold skipCRLF. destruct r as [|c [|d r]]; try discriminate.
  - destruct (is_crlf c); discriminate.
  - cbn [length]. destruct (is_cr c); [destruct (is_lf d)|destruct (is_lf c)]; intros H; try discriminate; injection H as <-; lia.
Qed.

Lemma skipn_cons_len {A} k (l : list A) c r : skipn k l = c :: r -> (length l = k + S (length r))%nat.
Proof.
  intros H. assert (Hl : length (skipn k l) = (length l - k)%nat) by apply skipn_length.
  rewrite H in Hl. cbn [length] in Hl. assert (k < length l)%nat; [|lia].
  destruct (le_lt_dec (length l) k) as [Hle|]; [|assumption]. rewrite skipn_all2 in H by exact Hle. discriminate.
Qed.

Lemma crlf_b rest i s : okin i (length rest) (fl_crlf rest i s).
Proof.
  unfold fl_crlf, okin. destruct (skipCRLF rest) eqn:E; try exact I. apply skipCRLF_bound in E. unfold nnat. lia.
Qed.
Lemma ver_b pre rest i s : okin i (length rest) (fl_ver pre rest i s).
Proof.
  unfold fl_ver. set (k := skipToken rest). destruct (skipn k rest) as [|c r] eqn:Es; [exact I|].
  destruct (negb (is_crlf c)); [exact I|]. destruct (pf_extend _ _); [|exact I]. destruct (pf_empty _); [exact I|].
  pose proof (crlf_b (c :: r) (i + nnat k) (s <| fl_version := p |> <| fl_state := FlCRLF |>)) as H.
  apply skipn_cons_len in Es. unfold okin in *. destruct (fl_crlf _ _ _) as [|o e s'|]; auto. destruct e; auto.
  cbn [length] in H. unfold nnat in *. lia.
Qed.
Lemma requri_b pre rest i s : okin i (length rest) (fl_requri pre rest i s).
Proof.
  unfold fl_requri. set (k := skipToken rest). destruct (skipn k rest) as [|c r] eqn:Es; [exact I|].
  destruct (negb (c =? SP)); [exact I|]. destruct (pf_extend _ _); [|exact I]. destruct (pf_empty _); [exact I|].
  destruct (pf_set _ _); [|exact I].
  match goal with |- okin _ _ (fl_ver ?a ?b ?c0 ?d) => pose proof (ver_b a b c0 d) as H; destruct (fl_ver a b c0 d) as [|o e s'|] end; auto.
  apply skipn_cons_len in Es. unfold okin in *. destruct e; auto. unfold nnat in *. lia.
Qed.
Lemma method_b pre rest i s : okin i (length rest) (fl_method_ph pre rest i s).
Proof.
  unfold fl_method_ph. set (k := skipToken rest). destruct (skipn k rest) as [|c r] eqn:Es; [exact I|].
  destruct (negb (c =? SP)); [exact I|]. destruct (pf_extend _ _); [|exact I]. destruct (pf_empty _); [exact I|].
  destruct (zget _ _ _ _); [|exact I]. destruct (pf_set _ _); [|exact I].
  match goal with |- okin _ _ (fl_requri ?a ?b ?c0 ?d) => pose proof (requri_b a b c0 d) as H; destruct (fl_requri a b c0 d) as [|o e s'|] end; auto.
  apply skipn_cons_len in Es. unfold okin in *. destruct e; auto. unfold nnat in *. lia.
Qed.
Lemma reason_b rest i s : okin i (length rest) (fl_reason_ph rest i s).
Proof.
  unfold fl_reason_ph, skipLine. set (k := span _ rest).
  destruct (skipCRLF (skipn k rest)) as [crl| |] eqn:E; try exact I.
  destruct (pf_extend _ _); [|exact I]. apply skipCRLF_bound in E. rewrite skipn_length in E.
  assert (Hk : (k <= length rest)%nat) by apply span_le. unfold okin, nnat. lia.
Qed.
Lemma init_b pre rest i s : okin i (length rest) (fl_init pre rest i s).
Proof.
  unfold fl_init. destruct (_ <? _)%nat; [exact I|]. destruct (prefix_nocase _ _).
  - destruct (pf_set _ _); [|exact I]. set (l := length go_sipVerSP).
    destruct (skipn l rest) as [|a [|b [|c [|d r']]]] eqn:Es; try exact I.
    destruct (_ || _); [exact I|]. destruct (pf_set _ _); [|exact I]. destruct (pf_set _ _); [|exact I].
    match goal with |- okin _ _ (fl_reason_ph ?a ?b ?c0) => pose proof (reason_b a b c0) as H; destruct (fl_reason_ph a b c0) as [|o e s'|] end; auto.
    apply skipn_cons_len in Es. cbn [length] in Es. unfold okin in *. destruct e; auto. unfold nnat in *. lia.
  - destruct (pf_set _ _); [|exact I]. apply method_b.
Qed.

Lemma fl_iter_b pre rest i s : okin i (length rest) (fl_iter pre rest i s).
Proof.
  unfold fl_iter. destruct (fl_state s); try (unfold okin, nnat; lia).
  - apply init_b.
  - apply method_b.
  - apply requri_b.
  - apply ver_b.
  - apply reason_b.
  - apply crlf_b.
Qed.

Lemma zinit_rest_len (buf : list byte) i : i <= nnat (length buf) ->
  i + nnat (length (snd (zinit buf i))) = nnat (length buf).
Proof. intros H. unfold zinit. cbn [snd]. rewrite skipn_length. unfold nnat in *. lia. Qed.

Lemma fline_ok_bound buf i s o s' : i <= nnat (length buf) ->
  parse_fline buf i s = Done o EOk s' -> i <= o /\ o <= nnat (length buf).
Proof.
  intros Hi H. unfold parse_fline, parse in H. pose proof (zinit_rest_len buf i Hi) as Hl.
  destruct (zinit buf i) as [pre rest]. cbn [snd] in Hl. rewrite run_after in H.
  pose proof (fl_iter_b pre rest i s) as Hb. pose proof (fl_iter_noNext pre rest i s) as Hn.
  destruct (fl_iter pre rest i s) as [|o1 e1 s1|]; [destruct Hn| |discriminate].
  cbn [after] in H. injection H as -> -> ->. unfold okin in Hb. lia.
Qed.

(* ---- header line: the empty-line answer ------------------------------------------------------------------------ *)
Lemma hb_finish_noE {B} (r : res B) st valof put :
  (forall o b, r = Done o EEmpty b -> False) -> noE (hb_finish r st valof put).
Proof. unfold hb_finish, noE. destruct r as [o e b| |]; auto. destruct e; auto. intros H. exact (H o b eq_refl). Qed.

Lemma hb_run_noE hs pre rest i st v : noE (hb_run hs pre rest i st v).
Proof.
  unfold hb_run. destruct hs; try exact I; apply hb_finish_noE; intros o b H.
  - exact (run_noE _ (fb_iter_noE HdrFrom) _ _ _ _ _ _ H).
  - exact (run_noE _ (fb_iter_noE HdrTo) _ _ _ _ _ _ H).
  - exact (run_noE _ ci_iter_noE _ _ _ _ _ _ H).
  - exact (run_noE _ cs_iter_noE _ _ _ _ _ _ H).
  - destruct (run ui_iter pre rest i 0 (pv_clen v)) as [o1 e1 b1| |] eqn:E; try discriminate.
    destruct e1; try discriminate; [destruct (_ || _); discriminate|].
    injection H as -> ->. exact (run_noE _ ui_iter_noE _ _ _ _ _ _ E).
  - exact (run_noE _ ct_iter_noE _ _ _ _ _ _ H).
  - exact (run_noE _ ui_iter_noE _ _ _ _ _ _ H).
  - exact (run_noE _ pa_iter_noE _ _ _ _ _ _ H).
Qed.

Lemma colon_noE pre rest i k st : noE (hl_colon pre rest i k st).
Proof.
  rewrite hl_colon_eq. unfold hl_colon'. destruct (zget _ _ _ _); [|exact I]. cbv zeta.
  destruct (hb_pick _) as [[hs v]|]; [apply hb_run_noE|exact I].
Qed.
Lemma name_noE pre rest i st : noE (hl_name_ph pre rest i st).
Proof.
  unfold hl_name_ph. destruct (skipn _ rest) as [|c r]; [exact I|]. destruct (is_sp c).
  - destruct (pf_extend _ _); [|exact I]. destruct (pf_empty _); exact I.
  - destruct (c =? 58); [|exact I]. destruct (pf_extend _ _); [|exact I]. destruct (pf_empty _); [exact I|apply colon_noE].
Qed.

Lemma hl_iter_empty pre rest i st :
  match hit pre rest i st with Ret o EEmpty _ => i <= o /\ o <= i + nnat (length rest) | _ => True end.
Proof.
  assert (W : forall r : ires hline, noE r -> match r with Ret o EEmpty _ => i <= o /\ o <= i + nnat (length rest) | _ => True end).
  { intros r H. destruct r as [|o e s|]; auto. destruct e; auto. destruct H. }
  destruct rest as [|c r1]; [exact I|].
  destruct (h_state (hx_h st)) eqn:Hs.
  - rewrite hit_init by exact Hs. destruct (is_cr c).
    { destruct r1 as [|d r2]; [exact I|]. cbn [length]. unfold nnat. destruct (is_lf d); lia. }
    destruct (is_lf c); [cbn [length]; unfold nnat; lia|]. destruct (pf_set i i); [|exact I]. apply W, name_noE.
  - rewrite hit_name by exact Hs. apply W, name_noE.
  - rewrite hit_nameend by exact Hs. apply W. unfold hl_nameend. destruct (skipn _ _) as [|d r]; [exact I|].
    destruct (d =? 58); [apply colon_noE|exact I].
  - rewrite hit_bstart by exact Hs. apply W. unfold hl_bstart. destruct (skipLWS _ _); try exact I. destruct (pf_set _ _); exact I.
  - rewrite hit_val by exact Hs. apply W. unfold hl_val. destruct (skipn _ _); [exact I|]. destruct (pf_extend _ _); [|exact I].
    unfold hl_valend. destruct (skipLWS _ _); exact I.
  - rewrite hit_valend by exact Hs. apply W. unfold hl_valend. destruct (skipLWS _ _); exact I.
  - destruct (hx_pv st) as [v|] eqn:Hv; [|rewrite hit_nopv by (try rewrite Hs; auto); exact I].
    rewrite (hit_body HFrom _ _ _ _ _ v eq_refl Hs Hv). apply W, hb_run_noE.
  - destruct (hx_pv st) as [v|] eqn:Hv; [|rewrite hit_nopv by (try rewrite Hs; auto); exact I].
    rewrite (hit_body HTo _ _ _ _ _ v eq_refl Hs Hv). apply W, hb_run_noE.
  - destruct (hx_pv st) as [v|] eqn:Hv; [|rewrite hit_nopv by (try rewrite Hs; auto); exact I].
    rewrite (hit_body HCallID _ _ _ _ _ v eq_refl Hs Hv). apply W, hb_run_noE.
  - destruct (hx_pv st) as [v|] eqn:Hv; [|rewrite hit_nopv by (try rewrite Hs; auto); exact I].
    rewrite (hit_body HCSeq _ _ _ _ _ v eq_refl Hs Hv). apply W, hb_run_noE.
  - destruct (hx_pv st) as [v|] eqn:Hv; [|rewrite hit_nopv by (try rewrite Hs; auto); exact I].
    rewrite (hit_body HCLen _ _ _ _ _ v eq_refl Hs Hv). apply W, hb_run_noE.
  - destruct (hx_pv st) as [v|] eqn:Hv; [|rewrite hit_nopv by (try rewrite Hs; auto); exact I].
    rewrite (hit_body HContact _ _ _ _ _ v eq_refl Hs Hv). apply W, hb_run_noE.
  - destruct (hx_pv st) as [v|] eqn:Hv; [|rewrite hit_nopv by (try rewrite Hs; auto); exact I].
    rewrite (hit_body HExpires _ _ _ _ _ v eq_refl Hs Hv). apply W, hb_run_noE.
  - destruct (hx_pv st) as [v|] eqn:Hv; [|rewrite hit_nopv by (try rewrite Hs; auto); exact I].
    rewrite (hit_body HPAI _ _ _ _ _ v eq_refl Hs Hv). apply W, hb_run_noE.
  - rewrite hit_fin by exact Hs. exact I.
Qed.

(* a selected verdict keeps its bounds through the driver *)
Lemma run_sel_bounds {St} (iter : list byte -> list byte -> N -> St -> ires St) (sel : err -> Prop) :
  (forall pre rest i s, match iter pre rest i s with
                        | Ret o e _ => sel e -> i <= o /\ o <= i + nnat (length rest) | _ => True end) ->
  forall rest pre i s o e s', run iter pre rest i 0 s = Done o e s' -> sel e -> i <= o /\ o <= i + nnat (length rest).
Proof.
  intros H rest. induction rest as [rest IH] using (well_founded_induction (Wf_nat.well_founded_ltof _ (@length byte))).
  intros pre i s o e s' Hr Hsel. rewrite run_after in Hr. unfold after in Hr.
  pose proof (H pre rest i s) as Hi.
  destruct (iter pre rest i s) as [k t|o1 e1 t|]; [|injection Hr as E1 E2 E3; subst; auto|discriminate].
  destruct k as [|k]; [discriminate|].
  destruct (S k <=? length rest)%nat eqn:Ek; [|discriminate]. apply Nat.leb_le in Ek.
  apply IH in Hr; [|unfold ltof; rewrite zrest_length; lia|exact Hsel].
  rewrite zrest_length in Hr. clear IH H Hi. unfold nnat in *. lia.
Qed.

Lemma hs_iter_b pre rest i st : okin i (length rest) (hs_iter pre rest i st).
Proof.
  destruct rest as [|c r]; [exact I|]. rewrite hs_iter_def.
  destruct (run hl_iter pre (c :: r) i 0 (hs_sel st)) as [n e x| |] eqn:E; [|exact I|exact I].
  unfold hs_post. destruct e; try exact I.
  match goal with |- context [if ?b then _ else _] => destruct b end; [|exact I].
  apply (run_sel_bounds hl_iter (fun e => e = EEmpty)) in E; [exact E| |reflexivity].
  intros p r0 j s. pose proof (hl_iter_empty p r0 j s) as H. destruct (hit p r0 j s) as [|o1 e1 s1|]; auto.
  intros ->. exact H.
Qed.

Lemma headers_ok_bound buf i s o s' : i <= nnat (length buf) ->
  parse_headers buf i s = Done o EOk s' -> i <= o /\ o <= nnat (length buf).
Proof.
  intros Hi H. unfold parse_headers, parse in H. pose proof (zinit_rest_len buf i Hi) as Hl.
  destruct (zinit buf i) as [pre rest]. cbn [snd] in Hl.
  apply (run_sel_bounds hs_iter (fun e => e = EOk)) in H; [lia| |reflexivity].
  intros p r0 j s0. pose proof (hs_iter_b p r0 j s0) as Hb. unfold okin in Hb.
  destruct (hs_iter p r0 j s0) as [|o1 e1 s1|]; auto. intros ->. exact Hb.
Qed.
