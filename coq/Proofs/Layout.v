(* C05: where the header fields lie.  An invariant of the header-line automaton relative to the
   offset a at which the line began: the name starts at a, is not empty, ends before the value,
   the value ends inside the line.  Lifted through the header block (stored headers are in
   message order, without overlap) - on top of the safety invariants of SafeMsg.v. *)
From Sipsp Require Import RunLemmas Safe SafeLeaf SafeMore Resume Ext ExtLeaf ZSlice Harness ExtNameAddr ExtNested ExtLists
  ExtAdv OkBounds ExtHdrLine HdrLineBounds ExtHeaders MsgBounds Capacity CapHeaders SafeMsg Framing.
From Coq Require Import ZifyN ZifyNat ZifyBool.
From RecordUpdate Require Import RecordUpdate.

(* header types whose value is produced by a parser for which only the upper bound is proved *)
Definition weak6 (t : N) : bool :=
  (t =? HdrCallID) || (t =? HdrCSeq) || (t =? HdrCLen) || (t =? HdrContact) || (t =? HdrExpires) || (t =? HdrPAI).

Definition name_ok (a i : N) (h : hdr) : Prop := po (h_name h) = a /\ 0 < pl (h_name h) /\ pf_end (h_name h) < i.

(* the value part of the invariant while a header-specific parser is at work *)
Definition BV (pre : list byte) (i : N) (h : hdr) (hs : hst) (v : phvals) : Prop :=
  match hs with
  | HFrom => fb_inv (pf_end (h_name h) + 1) pre i (pv_from v)
  | HTo => fb_inv (pf_end (h_name h) + 1) pre i (pv_to v)
  | HCallID => weak6 (h_type h) = true /\ pf_end (ci_callid (pv_callid v)) <= i
  | HCSeq => weak6 (h_type h) = true /\ pf_end (cs_v (pv_cseq v)) <= i
  | HCLen => weak6 (h_type h) = true /\ pf_end (ui_sval (pv_clen v)) <= i
  | HContact => weak6 (h_type h) = true /\ pf_end (ct_lasthval (pv_contacts v)) <= i
  | HExpires => weak6 (h_type h) = true /\ pf_end (ui_sval (pv_expires v)) <= i
  | HPAI => weak6 (h_type h) = true /\ pf_end (pa_lasthval (pv_pais v)) <= i
  | _ => True
  end.

Definition NI (a : N) (pre : list byte) (i : N) (st : hline) : Prop :=
  let h := hx_h st in
  match h_state h with
  | HInit => a = i /\ pl (h_val h) = 0
  | HName => po (h_name h) = a /\ pl (h_name h) = 0 /\ a <= i /\ pl (h_val h) = 0
  | HNameEnd | HBodyStart => name_ok a i h /\ pl (h_val h) = 0
  | HVal | HValEnd => name_ok a (po (h_val h)) h /\ pf_end (h_val h) <= i
  | HFIN => True
  | hs => name_ok a i h /\ match hx_pv st with Some v => BV pre i h hs v | None => True end
  end.

(* a finished line that began at a and ended at o *)
Definition LineOK (a o : N) (st : hline) : Prop :=
  let h := hx_h st in
  name_ok a o h /\ pf_end (h_val h) <= o /\
  (weak6 (h_type h) = false \/ hx_pv st = None -> pl (h_val h) = 0 \/ pf_end (h_name h) < po (h_val h)).

Definition ni_res (a : N) (pre rest : list byte) (i : N) (r : ires hline) : Prop :=
  match r with
  | Next k st' => NI a (zpre k pre rest) (i + nnat k) st'
  | Ret o EMore st' => forall k, (k <= length rest)%nat -> o = i + nnat k -> NI a (zpre k pre rest) o st'
  | Ret o EOk st' => LineOK a o st'
  | _ => True
  end.

Lemma ni_res_shift a pre rest i k r : (k <= length rest)%nat -> noNext0 r ->
  match r with Ret o EMore _ => i + nnat k <= o | _ => True end ->
  ni_res a (zpre k pre rest) (zrest k rest) (i + nnat k) r -> ni_res a pre rest i (ishift k r).
Proof.
  intros Hk Hn Hge H. destruct r as [n st'|o e st'|]; cbn [ishift ni_res] in *; auto.
  - destruct n as [|n]; [destruct Hn|]. rewrite zpre_zpre in H by exact Hk. replace (i + nnat (k + S n)) with (i + nnat k + nnat (S n)) by (unfold nnat; lia). exact H.
  - destruct e; auto. intros k2 Hk2 Ho. rewrite zrest_length in H.
    destruct (le_lt_dec k k2) as [Hle|Hlt].
    + specialize (H (k2 - k)%nat ltac:(lia) ltac:(unfold nnat in *; lia)). rewrite zpre_zpre in H by exact Hk.
      replace (k + (k2 - k))%nat with k2 in H by lia. exact H.
    + (* the suspension lies before the shifted start: impossible when offsets only grow; ruled out by the caller *)
      exfalso. clear H. subst o. unfold nnat in *. lia.
Qed.

(* ---- what a header-specific value parser leaves in the header ------------------------------------------------------------------- *)
Lemma hb_lay {B} (R : list byte -> list byte -> N -> B -> res B) (sel : phvals -> B) (put : phvals -> B -> phvals) valof hs :
  (forall pre rest o st v, hb_run hs pre rest o st v
     = hb_finish (R pre rest o (sel v)) (st <| hx_h := (hx_h st) <| h_state := hs |> |>) valof (put v)) ->
  forall pre rest o st v,
  match hb_run hs pre rest o st v with
  | Ret n e st' => exists b', R pre rest o (sel v) = Done n e b' /\ hx_pv st' = Some (put v b') /\
       h_name (hx_h st') = h_name (hx_h st) /\ h_type (hx_h st') = h_type (hx_h st) /\
       (e = EOk -> h_val (hx_h st') = valof b' /\ h_state (hx_h st') = HFIN) /\
       (e <> EOk -> h_val (hx_h st') = h_val (hx_h st) /\ h_state (hx_h st') = hs)
  | Next _ _ => False
  | IPanic => True
  end.
Proof.
  intros Hdef pre rest o st v. rewrite Hdef. unfold hb_finish.
  destruct (R pre rest o (sel v)) as [n e b'| |]; auto.
  exists b'. destruct st as [[t nm vl s0] pv]. destruct e; cbn; repeat split; auto; intros; try discriminate; try contradiction; congruence.
Qed.

(* an unparsed quiet name-addr value may be started with any lower bound up to the position *)
Lemma qt_fb_inv_L L i o s pre : qt_fb i s -> fb_parsed s = false -> i <= o -> L <= o -> fb_inv L pre o s.
Proof.
  intros [H|(Hb & Hs & Hp)] Hu Ho HL; [congruence|].
  apply (fb_bnd_mono 0 i o s Ho) in Hb. destruct Hb as (H1&H2&H3&H4&H5&H6&H7&H8&H9&H10&H11&H12).
  unfold fb_inv. rewrite Hp, Hs. cbn [po pl]. repeat split; auto; try lia; intros; try contradiction; try congruence.
Qed.

Lemma NI_body a pre i st hs : is_body hs = true -> h_state (hx_h st) = hs ->
  NI a pre i st = (name_ok a i (hx_h st) /\ match hx_pv st with Some v => BV pre i (hx_h st) hs v | None => True end).
Proof. intros Hb Hs. unfold NI. rewrite Hs. destruct hs; try discriminate; reflexivity. Qed.

(* upper bound of the value field a parser reports, at a suspension and at success *)
Definition RB {B} (R : list byte -> list byte -> N -> B -> res B) (Act : list byte -> N -> B -> Prop) (valof : B -> pf) : Prop :=
  forall pre rest o b, o = nnat (length pre) -> Act pre o b -> pf_end (valof b) <= o ->
  match R pre rest o b with
  | Done n e b' => e = EMore \/ e = EOk -> o <= n /\ pf_end (valof b') <= n
  | _ => True
  end.

Lemma RB_ci : RB (fun pre rest o b => run ci_iter pre rest o 0 b) (fun _ i s => I_ci i s) ci_callid.
Proof.
  intros pre rest o b Ho [Hp|Hinv] Hb.
  - assert (E : run ci_iter pre rest o 0 b = Done o EOk b) by (rewrite run_after; unfold ci_iter, ci_parsed in *; destruct (ci_state b); try discriminate; reflexivity).
    rewrite E. intros _. split; [lia|exact Hb].
  - pose proof (callid_safe (rev pre ++ rest) o b) as H. rewrite (run_len pre rest o Ho) in H. specialize (H ltac:(lia) Hinv).
    unfold parse_callid in H. rewrite <- (run_as_parse ci_iter pre rest o b Ho) in H.
    destruct (run ci_iter pre rest o 0 b) as [n e b'| |]; auto. destruct H as (H1 & H2 & [_ H3] & H4). intros _. split; assumption.
Qed.
Lemma RB_cs : RB (fun pre rest o b => run cs_iter pre rest o 0 b) (fun _ i s => I_cs i s) cs_v.
Proof.
  intros pre rest o b Ho [Hp|Hinv] Hb.
  - assert (E : run cs_iter pre rest o 0 b = Done o EOk b) by (rewrite run_after; unfold cs_iter, cs_parsed in *; destruct (cs_state b); try discriminate; reflexivity).
    rewrite E. intros _. split; [lia|exact Hb].
  - pose proof (cseq_safe (rev pre ++ rest) o b) as H. rewrite (run_len pre rest o Ho) in H. specialize (H ltac:(lia) Hinv).
    unfold parse_cseq in H. rewrite <- (run_as_parse cs_iter pre rest o b Ho) in H.
    destruct (run cs_iter pre rest o 0 b) as [n e b'| |]; auto. destruct H as (H1 & H2 & H3 & H4).
    intros [He|He]; [destruct (H3 He) as [Hn (_ & _ & Hv & _)]|destruct (H4 He) as [Hn (_ & _ & Hv & _)]]; split; assumption.
Qed.
(* parsers whose safety statement already carries the bound *)
Lemma RB_of_rsafe {B} (R : list byte -> list byte -> N -> B -> res B) Act Qt (valof : B -> pf) :
  rsafe R Act Qt -> (forall pre i b, Act pre i b -> pf_end (valof b) <= i) -> (forall i b, Qt i b -> pf_end (valof b) <= i) -> RB R Act valof.
Proof.
  intros HR HA HQ pre rest o b Ho Hact _. pose proof (HR pre rest o b Ho Hact) as H.
  destruct (R pre rest o b) as [n e b'| |]; auto. destruct H as (H1 & H2 & H3).
  intros [He|He].
  - destruct (H2 He) as (k & Hk & Hn & Ha). split; [unfold nnat in *; lia|exact (HA _ _ _ Ha)].
  - destruct (H3 He) as [Hn Hq]. split; [exact Hn|exact (HQ _ _ Hq)].
Qed.
Lemma RB_ui : RB (fun pre rest o b => run ui_iter pre rest o 0 b) (fun _ i s => I_ui i s) ui_sval.
Proof. apply (RB_of_rsafe _ _ I_ui _ rsafe_ui); [intros _ i b H; apply H|intros i b H; apply H]. Qed.
Lemma RB_clen : RB clen_R (fun _ i s => I_ui i s) ui_sval.
Proof. apply (RB_of_rsafe _ _ I_ui _ rsafe_clen); [intros _ i b H; apply H|intros i b H; apply H]. Qed.
Lemma RB_ct : RB (fun pre rest o b => run ct_iter pre rest o 0 b) ct_inv ct_lasthval.
Proof.
  apply (RB_of_rsafe _ _ (fun n c => forall pre', ct_inv pre' n c) _ rsafe_ct); [intros pre i b H; apply H|intros i b H; apply (H [])].
Qed.
Lemma RB_pa : RB (fun pre rest o b => run pa_iter pre rest o 0 b) pa_inv pa_lasthval.
Proof.
  apply (RB_of_rsafe _ _ (fun n c => forall pre', pa_inv pre' n c) _ rsafe_pa); [intros pre i b H; apply H|intros i b H; apply (H [])].
Qed.

Definition body_res (a : N) (pre rest : list byte) (o : N) (r : ires hline) : Prop :=
  match r with
  | Ret n EMore st' => forall k, (k <= length rest)%nat -> n = o + nnat k -> NI a (zpre k pre rest) n st'
  | Ret n EOk st' => LineOK a n st'
  | _ => True
  end.

Lemma ni_body_weak {B} (R : list byte -> list byte -> N -> B -> res B) sel put valof hs Act a :
  is_body hs = true -> RB R Act valof ->
  (forall pre rest o st v, hb_run hs pre rest o st v
     = hb_finish (R pre rest o (sel v)) (st <| hx_h := (hx_h st) <| h_state := hs |> |>) valof (put v)) ->
  (forall pre i h v, BV pre i h hs v = (weak6 (h_type h) = true /\ pf_end (valof (sel v)) <= i)) ->
  (forall v b, sel (put v b) = b) ->
  forall pre rest o st v, o = nnat (length pre) -> Act pre o (sel v) -> name_ok a o (hx_h st) -> BV pre o (hx_h st) hs v ->
  body_res a pre rest o (hb_run hs pre rest o st v).
Proof.
  intros Hb HRB Hdef HBV Hsp pre rest o st v Ho Hact (N1 & N2 & N3) Hbv. rewrite HBV in Hbv. destruct Hbv as [Hw Hvb].
  pose proof (hb_lay R sel put valof hs Hdef pre rest o st v) as H.
  destruct (hb_run hs pre rest o st v) as [|n e st'|]; [destruct H| |exact I].
  destruct H as (b' & ER & Epv & En & Et & Hok & Hne).
  pose proof (HRB pre rest o (sel v) Ho Hact Hvb) as Hrb. rewrite ER in Hrb.
  unfold body_res. destruct e; auto.
  - destruct (Hok eq_refl) as [Ev Es]. destruct (Hrb (or_intror eq_refl)) as [Hon Hvn].
    unfold LineOK, name_ok, pf_end in *. rewrite En, Ev, Et, Epv. split; [repeat split; auto; lia|]. split; [exact Hvn|].
    intros [X|X]; [congruence|discriminate].
  - destruct (Hne ltac:(discriminate)) as [Ev Es]. destruct (Hrb (or_introl eq_refl)) as [Hon Hvn].
    intros k Hk Hn. rewrite (NI_body a _ n st' hs Hb Es), Epv, HBV, Hsp, Et. unfold name_ok, pf_end in *. rewrite En. repeat split; auto; lia.
Qed.

Lemma nnat_inj a b : nnat a = nnat b -> a = b. Proof. unfold nnat. lia. Qed.

Lemma ni_body_fb h0 sel put hs a :
  is_body hs = true ->
  (forall pre rest o st v, hb_run hs pre rest o st v
     = hb_finish (run (fb_iter h0) pre rest o 0 (sel v)) (st <| hx_h := (hx_h st) <| h_state := hs |> |>) fb_v (put v)) ->
  (forall pre i h v, BV pre i h hs v = fb_inv (pf_end (h_name h) + 1) pre i (sel v)) ->
  (forall v b, sel (put v b) = b) ->
  forall pre rest o st v, o = nnat (length pre) -> name_ok a o (hx_h st) -> BV pre o (hx_h st) hs v ->
  body_res a pre rest o (hb_run hs pre rest o st v).
Proof.
  intros Hb Hdef HBV Hsp pre rest o st v Ho (N1 & N2 & N3) Hbv. rewrite HBV in Hbv.
  pose proof (hb_lay (fun pre rest o b => run (fb_iter h0) pre rest o 0 b) sel put fb_v hs Hdef pre rest o st v) as H.
  destruct (hb_run hs pre rest o st v) as [|n e st'|]; [destruct H| |exact I].
  destruct H as (b' & ER & Epv & En & Et & Hok & Hne). cbv beta in ER.
  pose proof (fb_run_ok _ h0 pre rest o (sel v) (conj Ho Hbv)) as Hs. rewrite ER in Hs. destruct Hs as (S1 & S2 & S3 & S4).
  unfold body_res. destruct e; auto.
  - destruct (Hok eq_refl) as [Ev Es]. destruct (S4 (or_introl eq_refl)) as [Hon Hbd].
    pose proof (fb_run_ok_parsed _ _ _ _ _ _ _ _ ER (or_introl eq_refl)) as Hp.
    destruct Hbd as (_&_&_&_&B5&_&_&_&_&_&_&B12).
    assert (Hst : fb_state b' <> FbInit) by (unfold fb_parsed in Hp; destruct (fb_state b'); discriminate).
    specialize (B12 Hst).
    unfold LineOK, name_ok, pf_end in *. rewrite En, Ev. split; [repeat split; auto; lia|]. split; [exact B5|].
    intros _. right. lia.
  - destruct (Hne ltac:(discriminate)) as [Ev Es]. destruct (S3 eq_refl) as (k' & Hk' & Hn' & Hinv').
    intros k Hk Hn. assert (k' = k) by (apply nnat_inj; lia). subst k'.
    rewrite (NI_body a _ n st' hs Hb Es), Epv, HBV, Hsp. unfold name_ok, pf_end in *. rewrite En. split; [repeat split; auto; unfold nnat in *; lia|exact Hinv'].
Qed.

(* all eight *)
Lemma ni_body a hs pre rest o st v : is_body hs = true -> o = nnat (length pre) -> PV pre o hs v ->
  name_ok a o (hx_h st) -> BV pre o (hx_h st) hs v -> body_res a pre rest o (hb_run hs pre rest o st v).
Proof.
  intros Hb Ho Hpv Hn Hbv. destruct Hpv as (P1&P2&P3&P4&P5&P6&P7&P8). destruct hs; try discriminate; cbn [hst_eqb] in *.
  - apply (ni_body_fb HdrFrom pv_from (fun v b => v <| pv_from := b |>) HFrom a); auto; try reflexivity; intros [] ?; reflexivity.
  - apply (ni_body_fb HdrTo pv_to (fun v b => v <| pv_to := b |>) HTo a); auto; try reflexivity; intros [] ?; reflexivity.
  - apply (ni_body_weak (fun pre rest i b => run ci_iter pre rest i 0 b) pv_callid (fun v b => v <| pv_callid := b |>) ci_callid HCallID (fun _ i s => I_ci i s) a);
      auto using RB_ci; try reflexivity; intros [] ?; reflexivity.
  - apply (ni_body_weak (fun pre rest i b => run cs_iter pre rest i 0 b) pv_cseq (fun v b => v <| pv_cseq := b |>) cs_v HCSeq (fun _ i s => I_cs i s) a);
      auto using RB_cs; try reflexivity; intros [] ?; reflexivity.
  - apply (ni_body_weak clen_R pv_clen (fun v b => v <| pv_clen := b |>) ui_sval HCLen (fun _ i s => I_ui i s) a);
      auto using RB_clen; try reflexivity; intros [] ?; reflexivity.
  - apply (ni_body_weak (fun pre rest i b => run ct_iter pre rest i 0 b) pv_contacts (fun v b => v <| pv_contacts := b |>) ct_lasthval HContact ct_inv a);
      auto using RB_ct; try reflexivity; intros [] ?; reflexivity.
  - apply (ni_body_weak (fun pre rest i b => run ui_iter pre rest i 0 b) pv_expires (fun v b => v <| pv_expires := b |>) ui_sval HExpires (fun _ i s => I_ui i s) a);
      auto using RB_ui; try reflexivity; intros [] ?; reflexivity.
  - apply (ni_body_weak (fun pre rest i b => run pa_iter pre rest i 0 b) pv_pais (fun v b => v <| pv_pais := b |>) pa_lasthval HPAI pa_inv a);
      auto using RB_pa; try reflexivity; intros [] ?; reflexivity.
Qed.

(* the value parser picked after the colon starts inside the value part of the invariant *)
Lemma pick_BV st i o pre : match hx_pv st with Some v => PVq i v | None => True end -> i <= o ->
  pf_end (h_name (hx_h st)) + 1 <= o ->
  match hb_pick st with Some (hs, v') => BV pre o (hx_h st) hs v' | None => True end.
Proof.
  unfold hb_pick. destruct (hx_pv st) as [v|]; [|auto]. intros (Q1&Q2&Q3&Q4&Q5&Q6&Q7&Q8) Ho Hn. cbv zeta.
  destruct (h_type (hx_h st) =? HdrFrom) eqn:E1.
  { destruct (fb_parsed (pv_from v)) eqn:Ep; [exact I|]. cbn [BV]. apply (qt_fb_inv_L _ i); auto. }
  destruct (h_type (hx_h st) =? HdrTo) eqn:E2.
  { destruct (fb_parsed (pv_to v)) eqn:Ep; [exact I|]. cbn [BV]. apply (qt_fb_inv_L _ i); auto. }
  destruct (h_type (hx_h st) =? HdrCallID) eqn:E3.
  { destruct (ci_parsed (pv_callid v)) eqn:Ep; [exact I|]. cbn [BV]. split; [unfold weak6; rewrite E3; reflexivity|].
    destruct Q3 as [X|[_ X]]; [congruence|lia]. }
  destruct (h_type (hx_h st) =? HdrCSeq) eqn:E4.
  { destruct (cs_parsed (pv_cseq v)) eqn:Ep; [exact I|]. cbn [BV]. split; [unfold weak6; rewrite E4; rewrite ?orb_true_r; reflexivity|].
    destruct Q4 as [X|(_ & _ & X & _)]; [congruence|lia]. }
  destruct (h_type (hx_h st) =? HdrCLen) eqn:E5.
  { destruct (ui_parsed (pv_clen v)) eqn:Ep; [exact I|]. cbn [BV]. split; [unfold weak6; rewrite E5; rewrite ?orb_true_r; reflexivity|].
    destruct Q5 as [X _]. lia. }
  destruct (h_type (hx_h st) =? HdrContact) eqn:E6.
  { cbn [BV]. split; [unfold weak6; rewrite E6; rewrite ?orb_true_r; reflexivity|]. destruct v as [? ? ? ? ? [] ? ?]; unfold pf_end; cbn. lia. }
  destruct (h_type (hx_h st) =? HdrExpires) eqn:E7.
  { destruct (ui_parsed (pv_expires v)) eqn:Ep; [exact I|]. cbn [BV]. split; [unfold weak6; rewrite E7; rewrite ?orb_true_r; reflexivity|].
    destruct Q6 as [X _]. lia. }
  destruct (h_type (hx_h st) =? HdrPAI) eqn:E8; [|exact I].
  cbn [BV]. split; [unfold weak6; rewrite E8; rewrite ?orb_true_r; reflexivity|]. destruct v as [? ? ? ? ? ? [] ?]; unfold pf_end; cbn. lia.
Qed.

(* a body result obtained k bytes further on *)
Lemma body_res_at a pre rest i k r : (k <= length rest)%nat ->
  match r with Next _ _ => False | Ret o EMore _ => i + nnat k <= o | _ => True end ->
  body_res a (zpre k pre rest) (zrest k rest) (i + nnat k) r -> ni_res a pre rest i r.
Proof.
  intros Hk Hge H. destruct r as [|o e st'|]; [destruct Hge| |exact I]. cbn [body_res ni_res] in *.
  destruct e; auto. intros k2 Hk2 Ho. rewrite zrest_length in H.
  specialize (H (k2 - k)%nat ltac:(unfold nnat in *; lia) ltac:(unfold nnat in *; lia)). rewrite zpre_zpre in H by exact Hk.
  replace (k + (k2 - k))%nat with k2 in H by (unfold nnat in *; lia). exact H.
Qed.

Lemma ni_colon a pre rest i k st : i = nnat (length pre) -> (S k <= length rest)%nat ->
  po (h_name (hx_h st)) = a -> 0 < pl (h_name (hx_h st)) -> pf_end (h_name (hx_h st)) <= i + nnat k ->
  pf_end (h_val (hx_h st)) <= i + nnat (S k) -> pl (h_val (hx_h st)) = 0 ->
  match hx_pv st with Some v => PVq i v | None => True end ->
  ni_res a pre rest i (hl_colon pre rest i k st).
Proof.
  intros Hi Hk N1 N2 N3 V0 V1 Hpv.
  pose proof (colon_safe pre rest i k st Hi Hk ltac:(unfold nnat in *; lia) V0 Hpv) as Hsafe.
  rewrite hl_colon_eq in *. unfold hl_colon' in *.
  destruct (zget pre rest i (h_name (hx_h st))) as [name|]; [|exact I]. cbv zeta in *.
  set (st1 := st <| hx_h := _ |>) in *.
  assert (En : h_name (hx_h st1) = h_name (hx_h st)) by (subst st1; destruct st as [[? ? ? ?] ?]; reflexivity).
  assert (Ev : h_val (hx_h st1) = h_val (hx_h st)) by (subst st1; destruct st as [[? ? ? ?] ?]; reflexivity).
  assert (Es : h_state (hx_h st1) = HBodyStart) by (subst st1; destruct st as [[? ? ? ?] ?]; reflexivity).
  assert (Ep : hx_pv st1 = hx_pv st) by (subst st1; destruct st as [[? ? ? ?] ?]; reflexivity).
  assert (Hq1 : match hx_pv st1 with Some v => PVq i v | None => True end) by (rewrite Ep; exact Hpv).
  pose proof (pick_BV st1 i (i + nnat (S k)) (zpre (S k) pre rest) Hq1 ltac:(unfold nnat; lia)) as Hbv.
  rewrite En in Hbv. specialize (Hbv ltac:(unfold nnat in *; lia)).
  pose proof (hb_pick_safe st1 (i + nnat (S k))) as Hps.
  assert (Hq2 : match hx_pv st1 with Some v => PVq (i + nnat (S k)) v | None => True end).
  { destruct (hx_pv st1) as [v|]; [|exact I]. apply (PVq_mono i); [exact Hq1|unfold nnat; lia]. }
  specialize (Hps Hq2).
  destruct (hb_pick st1) as [[hs v']|].
  - destruct Hps as [Hbody Hq]. replace (i + nnat k + 1) with (i + nnat (S k)) in * by (unfold nnat; lia).
    apply (body_res_at a pre rest i (S k)); [exact Hk| |].
    + pose proof (hb_run_noNext hs (zpre (S k) pre rest) (zrest (S k) rest) (i + nnat (S k)) st1 v') as HnN.
      pose proof (hb_run_safe hs (zpre (S k) pre rest) (zrest (S k) rest) (i + nnat (S k)) st1 v' Hbody
                    ltac:(unfold nnat in *; rewrite zpre_length by lia; lia)
                    ltac:(rewrite En; unfold nnat in *; lia) ltac:(rewrite Ev; exact V0) (PVq_PV _ _ _ _ Hq)) as Hs2.
      destruct (hb_run hs _ _ _ st1 v') as [|n e st'|]; [exact HnN| |exact I]. destruct e; auto.
      destruct Hs2 as (_ & H2 & _). destruct (H2 eq_refl) as (k2 & _ & Hn & _). unfold nnat in *. lia.
    + apply ni_body; auto.
      * unfold nnat in *. rewrite zpre_length by lia. lia.
      * apply PVq_PV. exact Hq.
      * unfold name_ok. rewrite En. unfold pf_end, nnat in *. repeat split; auto; lia.
  - cbn [ni_res]. unfold NI. rewrite Es. cbv zeta. unfold name_ok. rewrite En, Ev. unfold pf_end, nnat in *. repeat split; auto; lia.
Qed.

Lemma zpre_0 pre (rest : list byte) : zpre 0 pre rest = pre.
Proof. unfold zpre. cbn. reflexivity. Qed.

Lemma ni_more_here a pre rest i st : NI a pre i st -> ni_res a pre rest i (Ret i EMore st).
Proof. intros H k Hk Hi. assert (k = 0%nat) by (unfold nnat in *; lia). subst k. rewrite zpre_0. exact H. Qed.

(* the invariant of the states without a value parser does not look at the bytes before *)
Lemma NI_nonbody a pre pre' i st : is_body (h_state (hx_h st)) = false -> NI a pre i st -> NI a pre' i st.
Proof. unfold NI. destruct (h_state (hx_h st)); try discriminate; auto. Qed.

Lemma ni_valend a pre rest i k st h1 : (k <= length rest)%nat ->
  name_ok a (po (h_val h1)) h1 -> pf_end (h_val h1) <= i + nnat k -> h_state h1 = HValEnd ->
  ni_res a pre rest i (hl_valend (zrest k rest) i k st h1).
Proof.
  intros Hk (N1 & N2 & N3) Hv Hs. unfold hl_valend.
  pose proof (skipLWS_bounds false (zrest k rest)) as Hbd. rewrite zrest_length in Hbd.
  destruct (skipLWS false (zrest k rest)) as [k2|k2 crl|k2].
  - cbn [ni_res]. unfold NI. destruct st as [h pv]. destruct h1 as [t nm vl s1]. cbn in *. unfold name_ok, pf_end in *. cbn. unfold nnat in *. repeat split; auto; lia.
  - cbn [ni_res]. unfold LineOK. destruct st as [h pv]. destruct h1 as [t nm vl s1]. cbn in *. unfold name_ok, pf_end in *. cbn. unfold nnat in *.
    split; [repeat split; auto; lia|]. split; [lia|]. intros _. right. lia.
  - cbn [ni_res]. intros k3 Hk3 Ho. unfold NI. destruct st as [h pv]. destruct h1 as [t nm vl s1]. cbn in *. subst s1. unfold name_ok, pf_end in *. cbn. unfold nnat in *. repeat split; auto; lia.
Qed.

Lemma ni_name a pre rest i st : i = nnat (length pre) -> HInv pre i st -> h_state (hx_h st) = HName ->
  po (h_name (hx_h st)) = a -> pl (h_name (hx_h st)) = 0 -> a <= i -> pl (h_val (hx_h st)) = 0 ->
  ni_res a pre rest i (hl_name_ph pre rest i st).
Proof.
  intros Hi Hinv Hs N1 N2 N3 V1. pose proof Hinv as (H1 & H2 & H3).
  assert (Hb : is_body (h_state (hx_h st)) = false) by now rewrite Hs.
  pose proof (HInv_pvq pre i st Hinv Hb) as Hq.
  unfold hl_name_ph. set (k := skipTokenDelim 58 rest).
  assert (Hk : (k <= length rest)%nat) by apply span_le.
  destruct (skipn k rest) as [|c r] eqn:Es.
  - cbn [ni_res]. intros k2 Hk2 Ho. unfold NI. rewrite Hs. cbv zeta. unfold nnat in *. repeat split; auto; lia.
  - pose proof (skipn_cons_len _ _ _ _ Es) as Hl.
    destruct (is_sp c).
    + rewrite pf_extend_some by (unfold nnat; lia). destruct (pf_empty _) eqn:Ee; [exact I|].
      cbn [ni_res]. unfold NI. destruct st as [[t nm vl s0] pv]. cbn in *. unfold name_ok, pf_end, pf_empty in *. cbn in *. unfold nnat in *. repeat split; auto; lia.
    + destruct (c =? 58); [|exact I]. rewrite pf_extend_some by (unfold nnat; lia). destruct (pf_empty _) eqn:Ee; [exact I|].
      apply ni_colon; auto; destruct st as [[t nm vl s0] pv]; cbn in *; unfold pf_end, pf_empty in *; cbn in *; unfold nnat in *; try lia; try exact Hq.
Qed.

Lemma ni_step a pre rest i st : i = nnat (length pre) -> HInv pre i st -> NI a pre i st ->
  ni_res a pre rest i (hit pre rest i st).
Proof.
  intros Hi Hinv Hni. pose proof Hinv as (H1 & H2 & H3).
  destruct rest as [|c r1]; [exact (ni_more_here a pre [] i st Hni)|].
  destruct (h_state (hx_h st)) eqn:Hs.
  1: { (* HInit *)
    rewrite hit_init by exact Hs. unfold NI in Hni. rewrite Hs in Hni. destruct Hni as [Ha V1].
    destruct (is_cr c). { destruct r1 as [|d r2]; [|exact I]. apply ni_more_here. unfold NI. rewrite Hs. auto. }
    destruct (is_lf c); [exact I|].
    rewrite pf_set_some by lia. cbv zeta.
    assert (Hb : is_body (h_state (hx_h st)) = false) by now rewrite Hs.
    apply ni_name; auto;
      [apply (HInv_seth pre pre i i st _ Hinv Hb); [lia| | |]; destruct st as [[t nm vl s0] pv]; unfold pf_end in *; cbn in *; try lia; reflexivity|..];
      try (destruct st as [[t nm vl s0] pv]; cbn in *; first [reflexivity | lia | exact V1]).
  }
  1: { (* HName *)
    rewrite hit_name by exact Hs. unfold NI in Hni. rewrite Hs in Hni. destruct Hni as (N1 & N2 & N3 & V1). apply ni_name; auto.
  }
  1: { (* HNameEnd *)
    rewrite hit_nameend by exact Hs. unfold NI in Hni. rewrite Hs in Hni. destruct Hni as ((N1 & N2 & N3) & V1).
    assert (Hb : is_body (h_state (hx_h st)) = false) by now rewrite Hs.
    unfold hl_nameend. set (k := skipWS (c :: r1)). assert (Hk : (k <= length (c :: r1))%nat) by apply span_le.
    destruct (skipn k (c :: r1)) as [|d r] eqn:Es.
    + cbn [ni_res]. intros k2 Hk2 Ho. unfold NI. rewrite Hs. cbv zeta. unfold name_ok, nnat in *. repeat split; auto; lia.
    + pose proof (skipn_cons_len _ _ _ _ Es) as Hl. destruct (d =? 58); [|exact I].
      apply ni_colon; auto; unfold pf_end, nnat in *; try lia. exact (HInv_pvq pre i st Hinv Hb).
  }
  1: { (* HBodyStart *)
    rewrite hit_bstart by exact Hs. unfold NI in Hni. rewrite Hs in Hni. destruct Hni as ((N1 & N2 & N3) & V1).
    unfold hl_bstart. pose proof (skipLWS_bounds false (c :: r1)) as Hbd.
    destruct (skipLWS false (c :: r1)) as [k|k crl|k].
    + rewrite pf_set_some by lia. cbn [ni_res]. unfold NI. destruct st as [[t nm vl s0] pv]. cbn in *. unfold name_ok, pf_end in *. cbn. unfold nnat in *. repeat split; auto; lia.
    + cbn [ni_res]. unfold LineOK. destruct st as [[t nm vl s0] pv]. cbn in *. unfold name_ok, pf_end in *. cbn. unfold nnat in *.
      split; [repeat split; auto; lia|]. split; [lia|]. intros _. left. exact V1.
    + cbn [ni_res]. intros k2 Hk2 Ho. unfold NI. rewrite Hs. cbv zeta. unfold name_ok, nnat in *. repeat split; auto; lia.
  }
  1: { (* HVal *)
    rewrite hit_val by exact Hs. unfold NI in Hni. rewrite Hs in Hni. destruct Hni as ((N1 & N2 & N3) & V1).
    unfold hl_val. set (k := skipToken (c :: r1)). assert (Hk : (k <= length (c :: r1))%nat) by apply span_le.
    destruct (skipn k (c :: r1)) as [|d r] eqn:Es.
    + cbn [ni_res]. intros k2 Hk2 Ho. unfold NI. rewrite Hs. cbv zeta. unfold name_ok, nnat in *. repeat split; auto; lia.
    + unfold pf_end in *. rewrite pf_extend_some by (unfold nnat; lia).
      change (d :: r) with (d :: r). rewrite <- Es. change (skipn k (c :: r1)) with (zrest k (c :: r1)).
      apply ni_valend; auto; destruct st as [[t nm vl s0] pv]; cbn in *; unfold name_ok, pf_end in *; cbn; unfold nnat in *; try lia; repeat split; auto; lia.
  }
  1: { (* HValEnd *)
    rewrite hit_valend by exact Hs. unfold NI in Hni. rewrite Hs in Hni. destruct Hni as ((N1 & N2 & N3) & V1).
    change (c :: r1) with (zrest 0 (c :: r1)) at 2.
    apply ni_valend; auto; unfold name_ok, nnat in *; try lia; repeat split; auto; lia.
  }
  (* HFrom .. HPAI: a value parser resumed *)
  all: try (assert (Hb : is_body (h_state (hx_h st)) = true) by (rewrite Hs; reflexivity);
              destruct (hx_pv st) as [v|] eqn:Epv; [|discriminate H3];
              rewrite Hs in Hb;
              rewrite (hit_body _ pre c r1 i st v Hb Hs Epv);
              rewrite (NI_body a pre i st _ Hb Hs), Epv in Hni; destruct Hni as [Hn Hbv];
              pose proof (hl_step_ok pre (c :: r1) i st Hi Hinv) as Hsafe;
              rewrite (hit_body _ pre c r1 i st v Hb Hs Epv) in Hsafe;
              apply (body_res_at a pre (c :: r1) i 0 _ ltac:(lia));
              [match goal with |- context [hb_run ?hs ?p0 ?r0 ?i0 ?s0 ?v0] =>
                 pose proof (hb_run_noNext hs p0 r0 i0 s0 v0) as HnN;
                 destruct (hb_run hs p0 r0 i0 s0 v0) as [|n e st'|]; [exact HnN| |exact I]; destruct e; auto;
                 destruct Hsafe as (_ & S2 & _); destruct (S2 eq_refl) as (k2 & _ & Hn2 & _); unfold nnat in *; lia end
              |rewrite zpre_0; replace (i + nnat 0) with i by (unfold nnat; lia);
               change (zrest 0 (c :: r1)) with (c :: r1); apply ni_body; auto]).
  (* HFIN *)
  rewrite hit_fin by exact Hs. exact I.
Qed.


(* ---- one header line, run level ------------------------------------------------------------------------------------------------------ *)
Definition LInv (a : N) (pre : list byte) (i : N) (st : hline) : Prop := HInv pre i st /\ NI a pre i st.
Definition LOk (a : N) (o : N) (s : hline) : Prop :=
  LineOK a o s /\ match hx_pv s with None => True | Some v' => PVq o v' end.

Lemma linv_step a pre rest i st : i = nnat (length pre) -> LInv a pre i st ->
  match hit pre rest i st with
  | Next k s' => (0 < k <= length rest)%nat /\ LInv a (zpre k pre rest) (i + nnat k) s'
  | Ret o e s' => rl_Q (LInv a) (fun _ _ _ => True) (LOk a) pre rest i o e s'
  | IPanic => False
  end.
Proof.
  intros Hi [Hinv Hni]. pose proof (hl_step_ok pre rest i st Hi Hinv) as Hs. pose proof (ni_step a pre rest i st Hi Hinv Hni) as Hn.
  unfold hl_step_res in Hs. destruct (hit pre rest i st) as [k s'|o e s'|]; auto.
  - destruct Hs as [Hk Hi']. split; [exact Hk|]. split; [exact Hi'|exact Hn].
  - destruct Hs as (S1 & S2 & S3). unfold rl_Q. split; [exact S1|]. split; [exact I|]. split.
    + intros He. subst e. destruct (S2 eq_refl) as (k & Hk & Ho & Hi'). exists k. split; [exact Hk|]. split; [exact Ho|]. split; [exact Hi'|exact (Hn k Hk Ho)].
    + intros He. subst e. destruct (S3 eq_refl) as [Hio Hq]. split; [exact Hio|]. split; [exact Hn|exact Hq].
Qed.

Theorem hdrline_layout a pre rest i st : i = nnat (length pre) -> LInv a pre i st ->
  match run hit pre rest i 0 st with
  | Done o e s' => rl_Q (LInv a) (fun _ _ _ => True) (LOk a) pre rest i o e s'
  | _ => False
  end.
Proof. intros Hi Hinv. exact (rl_run hit (LInv a) (fun _ _ _ => True) (LOk a) (linv_step a) pre rest i st Hi Hinv). Qed.

(* ---- the header block: stored headers in message order, without overlap ---------------------------------------------------------------- *)
(* header h occupies a line that begins at a and ends at e *)
Definition line_of (a e : N) (h : hdr) : Prop :=
  name_ok a e h /\ pf_end (h_val h) <= e /\
  (weak6 (h_type h) = false -> pl (h_val h) = 0 \/ pf_end (h_name h) < po (h_val h)).
Inductive chain : N -> list hdr -> N -> Prop :=
| ch_nil lo hi : lo <= hi -> chain lo [] hi
| ch_cons lo a h e t hi : lo <= a -> line_of a e h -> chain e t hi -> chain lo (h :: t) hi.

Lemma chain_le lo s hi : chain lo s hi -> lo <= hi.
Proof.
  induction 1 as [lo hi H|lo a h e t hi Ha ((N1 & N2 & N3) & _) _ IH]; [exact H|]. unfold pf_end in *. lia.
Qed.
Lemma chain_weaken lo s hi hi' : chain lo s hi -> hi <= hi' -> chain lo s hi'.
Proof. induction 1 as [lo hi H|lo a h e t hi Ha Hl _ IH]; intros Hh; [constructor; lia|econstructor; eauto]. Qed.
Lemma chain_app lo s a a' e h : chain lo s a -> a <= a' -> line_of a' e h -> chain lo (s ++ [h]) e.
Proof.
  induction 1 as [lo hi H|lo a0 h0 e0 t hi Ha Hl _ IH]; intros Ha' Hline; cbn.
  - apply (ch_cons lo a' h e [] e); [lia|exact Hline|constructor; lia].
  - apply (ch_cons lo a0 h0 e0); [exact Ha|exact Hl|apply IH; assumption].
Qed.

Definition stored (l : hdrlst) : list hdr := firstn (N.to_nat (hl_n l)) (hl_hdrs l).

Lemma firstn_set_nth_ge {A} (l : list A) n k v : (n <= k)%nat -> firstn n (set_nth k v l) = firstn n l.
Proof.
  revert n k. induction l as [|x l IH]; intros n k H; destruct k; destruct n; cbn; try reflexivity; try lia.
  f_equal. apply IH. lia.
Qed.
Lemma firstn_S_set_nth {A} (l : list A) n v : (n < length l)%nat -> firstn (S n) (set_nth n v l) = firstn n l ++ [v].
Proof.
  revert n. induction l as [|x l IH]; intros n H; cbn in H; [lia|]. destruct n; cbn; [reflexivity|]. f_equal. apply IH. lia.
Qed.

Definition BInv (a0 : N) (pre : list byte) (i : N) (st : hdrs_st) : Prop :=
  HSInv pre i st /\ exists a, chain a0 (stored (hs_l st)) a /\ a <= i /\ NI a pre i (hs_sel st).
Definition BOk (a0 : N) (o : N) (st : hdrs_st) : Prop := chain a0 (stored (hs_l st)) o.

Lemma stored_store l h : stored (hl_store l h) = stored l.
Proof.
  unfold stored. destruct (hl_store_proj l h) as (_ & S2 & _ & S4 & _). rewrite S2, S4.
  destruct (hl_is_tmp l); [reflexivity|]. apply firstn_set_nth_ge. lia.
Qed.

Lemma binv_step a0 pre rest i st : i = nnat (length pre) -> BInv a0 pre i st ->
  match hs_iter pre rest i st with
  | Next k s' => (0 < k <= length rest)%nat /\ BInv a0 (zpre k pre rest) (i + nnat k) s'
  | Ret o e s' => rl_Q (BInv a0) (fun _ _ _ => True) (BOk a0) pre rest i o e s'
  | IPanic => False
  end.
Proof.
  intros Hi (Hsinv & a & Hch & Hai & Hni).
  pose proof (hs_step_ok pre rest i st Hi Hsinv) as Hsafe. unfold hs_step_res in Hsafe.
  destruct Hsinv as (Hinv & Hnf & Hwf).
  destruct rest as [|c r].
  { cbn in *. unfold rl_Q. split; [lia|]. split; [exact I|]. split; [|intros E; discriminate]. intros _. exists 0%nat. split; [lia|]. split; [unfold nnat; lia|].
    replace (i + nnat 0) with i by (unfold nnat; lia). rewrite zpre_0. split; [exact (conj Hinv (conj Hnf Hwf))|]. exists a. auto. }
  rewrite hs_iter_def in *.
  pose proof (hdrline_layout a pre (c :: r) i (hs_sel st) Hi (conj Hinv Hni)) as H.
  destruct (run hl_iter pre (c :: r) i 0 (hs_sel st)) as [n e x| |] eqn:Er; try contradiction.
  destruct H as (H1 & _ & H2 & H3). unfold hs_post in *. cbv zeta in *.
  destruct e; try (unfold rl_Q; destruct Hsafe as (S1 & S2 & S3); split; [exact S1|]; split; [exact I|]; split; intros E; discriminate E).
  - (* the header is complete *)
    destruct Hsafe as [Hk Hs']. split; [exact Hk|]. split; [exact Hs'|].
    destruct (H3 eq_refl) as [Hin [Hline Hq]].
    assert (En : i + nnat (N.to_nat (n - i)) = n) by (unfold nnat; lia). rewrite En in *.
    set (h := hx_h x) in *.
    destruct (hl_store_proj (hs_l st) h) as (S1 & S2 & S3 & S4 & S5).
    set (l1 := hl_store (hs_l st) h) in *.
    set (p1 := l1 <| hl_pflags := _ |>) in *.
    assert (Pp : hl_n p1 = hl_n l1 /\ hl_hdrs p1 = hl_hdrs l1 /\ hl_tmp p1 = hl_tmp l1) by (subst p1; destruct l1; cbn; repeat split; reflexivity).
    destruct Pp as (B2 & B3 & B4).
    destruct (hl_sethdr_proj p1 h) as (C1 & C2 & C3 & C4 & C5). set (l2 := hl_sethdr p1 h) in *.
    set (l3 := if hl_is_tmp (hs_l st) then l2 <| hl_tmp := hdr0 |> else l2) in *.
    assert (D : hl_n l3 = hl_n l2 /\ hl_hdrs l3 = hl_hdrs l2 /\ hl_tmp l3 = (if hl_is_tmp (hs_l st) then hdr0 else hl_tmp l2))
      by (subst l3; destruct (hl_is_tmp (hs_l st)); destruct l2; cbn; repeat split; reflexivity).
    destruct D as (D2 & D3 & D5).
    set (l4 := l3 <| hl_n := hl_n l3 + 1 |>) in *.
    assert (F : hl_n l4 = hl_n l3 + 1 /\ hl_hdrs l4 = hl_hdrs l3 /\ hl_tmp l4 = hl_tmp l3) by (subst l4; destruct l3; cbn; repeat split; reflexivity).
    destruct F as (G2 & G3 & G5).
    assert (X1 : hl_n l4 = hl_n (hs_l st) + 1) by (rewrite G2, D2, C2, B2, S2; reflexivity).
    assert (X2 : hl_hdrs l4 = (if hl_is_tmp (hs_l st) then hl_hdrs (hs_l st) else set_nth (N.to_nat (hl_n (hs_l st))) h (hl_hdrs (hs_l st)))) by (rewrite G3, D3, C3, B3, S4; reflexivity).
    assert (X3 : hl_tmp l4 = (if hl_is_tmp (hs_l st) then hdr0 else hl_tmp (hs_l st))) by (rewrite G5, D5, C4, B4, S5; destruct (hl_is_tmp (hs_l st)); reflexivity).
    pose proof (hnext_slot (hs_l st) l4 h Hwf X1 X2 X3) as Hslot.
    exists n. split; [|split; [lia|]].
    + (* the stored headers *)
      unfold stored. cbn [hs_l]. rewrite X1, X2. unfold hl_is_tmp, hl_cap.
      destruct (nnat (length (hl_hdrs (hs_l st))) <=? hl_n (hs_l st)) eqn:Ecap.
      * replace (N.to_nat (hl_n (hs_l st) + 1)) with (S (N.to_nat (hl_n (hs_l st)))) by lia.
        rewrite firstn_all2 by (unfold nnat in *; lia). unfold stored in Hch. rewrite firstn_all2 in Hch by (unfold nnat in *; lia).
        apply (chain_weaken _ _ a); [exact Hch|lia].
      * replace (N.to_nat (hl_n (hs_l st) + 1)) with (S (N.to_nat (hl_n (hs_l st)))) by lia.
        rewrite firstn_S_set_nth by (unfold nnat in *; lia).
        apply (chain_app _ _ a a); [exact Hch|lia|].
        destruct Hline as (L1 & L2 & L3). unfold line_of. split; [exact L1|]. split; [exact L2|]. intros Hw. apply L3. left. exact Hw.
    + unfold hs_sel. cbn [hs_l hs_pv]. rewrite Hslot. unfold NI. cbn. split; reflexivity.
  - (* end of the block *)
    destruct (0 <? _); unfold rl_Q in *; destruct Hsafe as (S1 & S2 & S3); (split; [exact S1|]; split; [exact I|]; split; [intros E; discriminate E|]).
    + intros _. split; [apply S3; reflexivity|]. unfold BOk. cbn [hs_l]. rewrite stored_store.
      apply (chain_weaken _ _ a); [exact Hch|]. specialize (S3 eq_refl). lia.
    + intros E; discriminate E.
  - (* suspended inside a header *)
    destruct Hsafe as (S1 & S2 & S3). unfold rl_Q. split; [exact S1|]. split; [exact I|]. split; [|intros E; discriminate E]. intros _.
    destruct (S2 eq_refl) as (k & Hk & Hn & Hsinv'). exists k. split; [exact Hk|]. split; [exact Hn|]. split; [exact Hsinv'|].
    destruct (H2 eq_refl) as (k' & Hk' & Hn' & [_ Hni']). assert (k' = k) by (apply nnat_inj; lia). subst k'.
    exists a. change (mkhdrs_st (hl_store (hs_l st) (hx_h x)) (hx_pv x)) with (hs_store st x). rewrite hs_sel_store.
    split; [unfold hs_store; cbn [hs_l]; rewrite stored_store; exact Hch|]. split; [unfold nnat in *; lia|exact Hni'].
Qed.

(* exported call *)
Theorem headers_layout a0 buf offs st : offs <= nnat (length buf) -> BInv a0 (rev (firstn (N.to_nat offs) buf)) offs st ->
  match parse_headers buf offs st with
  | Done o e st' => o <= nnat (length buf) /\
                    (e = EMore -> offs <= o /\ BInv a0 (rev (firstn (N.to_nat o) buf)) o st') /\
                    (e = EOk -> offs <= o /\ chain a0 (stored (hs_l st')) o)
  | _ => False
  end.
Proof.
  intros Ho Hinv.
  pose proof (rl_parse hs_iter (BInv a0) (fun _ _ _ => True) (BOk a0) (binv_step a0) buf offs st Ho Hinv) as H.
  unfold parse_headers. destruct (parse hs_iter buf offs st) as [o e st'| |]; auto. destruct H as (H1 & _ & H3 & H4). auto.
Qed.

(* a block that has not been started *)
Lemma BInv_start pre i st : HSstart i st -> hl_n (hs_l st) = 0 -> hl_slot (hs_l st) = hdr0 -> BInv i pre i st.
Proof.
  intros Hs Hn Hslot. split; [apply (HSstart_inv i); [exact Hs|lia]|]. exists i. unfold stored. rewrite Hn. cbn [N.to_nat firstn].
  split; [constructor; lia|]. split; [lia|]. unfold NI, hs_sel. cbn [hx_h]. rewrite Hslot. cbn. split; reflexivity.
Qed.

(* ---- the message -------------------------------------------------------------------------------------------------------------------------- *)
Definition MLay (pre : list byte) (i : N) (m : pmsg) : Prop :=
  match m_state m with
  | MInit | MFLine => hl_n (hs_l (m_hs m)) = 0 /\ hl_slot (hs_l (m_hs m)) = hdr0
  | MHeaders => exists a0, m_offs m <= a0 /\ fl_inv a0 (m_fl m) /\ BInv a0 pre i (m_hs m)
  | MBody => exists a0, m_offs m <= a0 /\ fl_inv a0 (m_fl m) /\ chain a0 (stored (hs_l (m_hs m))) i
  | _ => True
  end.
(* a finished message: first line, then the stored headers in order from a0 up to the body, the body up to the
   returned offset, the raw message from the start offset to the returned offset *)
Definition MLok (o : N) (m : pmsg) : Prop :=
  exists a0, m_offs m <= a0 /\ fl_inv a0 (m_fl m) /\ chain a0 (stored (hs_l (m_hs m))) (po (m_body m)) /\
             pf_end (m_body m) = o /\ m_raw m = Some (m_offs m, o - m_offs m) /\ m_buflen m = o.
Definition MLQ (buf : list byte) (offs : N) (r : res pmsg) : Prop :=
  match r with
  | Done o e m' => (e = EMore -> MLay (rev (firstn (N.to_nat o) buf)) o m') /\ (e = EOk -> MLok o m')
  | _ => True
  end.

Lemma fail_lay flags buf offs o e m : e <> EOk -> (e = EMore -> MLay (rev (firstn (N.to_nat o) buf)) o m) ->
  MLQ buf offs (msg_fail flags o e m).
Proof.
  intros He Hm. unfold msg_fail, MLQ. destruct e; try (split; intros E; congruence).
  destruct (testbit flags bSIPMsgNoMoreData); [split; intros E; discriminate|]. split; [intros _; apply Hm; reflexivity|intros E; discriminate].
Qed.

Lemma body_lay flags L o m a0 : o <= L -> m_offs m <= a0 -> a0 <= o -> fl_inv a0 (m_fl m) -> chain a0 (stored (hs_l (m_hs m))) o ->
  m_state m = MBody ->
  match msg_body flags L o m with
  | Done n e m' => (e = EMore -> n = o /\ m_state m' = MBody /\ m_offs m' = m_offs m /\ m_fl m' = m_fl m /\ m_hs m' = m_hs m) /\
                   (e = EOk -> MLok n m')
  | _ => True
  end.
Proof.
  intros Ho Hoffs Ha Hfl Hch Hst. unfold msg_body, msg_end. rewrite body_set. destruct m as [fl hs body bl raw st offs]. cbn in Hoffs, Hfl, Hch, Hst. subst st.
  cbn -[testbit N.ltb N.add N.sub pf_extend]. set (cl := pv_clen _).
  assert (PE : forall x, o <= x -> pf_extend (mkpf o 0) x = Some (mkpf o (x - o))) by (intros x Hx; apply pf_extend_some; exact Hx).
  repeat match goal with
         | |- context [if ?b then _ else _] => destruct b eqn:?
         end; rewrite ?PE by lia; cbn -[N.add N.sub];
  repeat match goal with
         | |- context [if ?b then _ else _] => destruct b eqn:?
         end; try exact I; (split; [intros E; try discriminate E; repeat split; reflexivity|]); intros E; try discriminate E;
  unfold MLok; cbn -[N.add N.sub]; exists a0; (split; [lia|]); (split; [exact Hfl|]); (split; [exact Hch|]);
  unfold pf_end; cbn -[N.add N.sub]; repeat split; try lia; f_equal; lia.
Qed.

Lemma mheaders_lay flags buf offs o m a0 : o <= nnat (length buf) -> m_state m = MHeaders ->
  m_offs m <= a0 -> fl_inv a0 (m_fl m) -> BInv a0 (rev (firstn (N.to_nat o) buf)) o (m_hs m) ->
  MLQ buf offs (msg_headers flags buf o m).
Proof.
  intros Ho Hst Hoffs Hfl Hinv. unfold msg_headers.
  pose proof (headers_layout a0 buf o (m_hs m) Ho Hinv) as H.
  destruct (parse_headers buf o (m_hs m)) as [o1 e hs1| |]; try exact I. destruct H as (H1 & H2 & H3).
  destruct e; try (apply fail_lay; [discriminate|intros E; discriminate]).
  - destruct (H3 eq_refl) as [Hoo Hch]. pose proof (chain_le _ _ _ Hch) as Hle.
    pose proof (body_lay flags (nnat (length buf)) o1 (m <| m_hs := hs1 |> <| m_state := MBody |>) a0 H1
                  ltac:(destruct m; cbn in *; lia) Hle ltac:(destruct m; cbn in *; exact Hfl) ltac:(destruct m; cbn in *; exact Hch)
                  ltac:(destruct m; reflexivity)) as Hb.
    destruct (msg_body flags (nnat (length buf)) o1 _) as [n e m'| |]; try exact I. destruct Hb as (B2 & B3).
    unfold MLQ. split; [|exact B3].
    intros E. destruct (B2 E) as (-> & Es & Eo & Ef & Eh). unfold MLay. rewrite Es. exists a0. rewrite Eo, Ef, Eh. destruct m; cbn in *. auto.
  - apply fail_lay; [discriminate|]. intros _. destruct (H2 eq_refl) as [Hoo Hinv1].
    unfold MLay. destruct m; cbn in *. subst. exists a0. auto.
Qed.

Lemma HSstart_mono i o hs : HSstart i hs -> i <= o -> HSstart o hs.
Proof.
  intros (A1 & A2 & A3 & A4 & A5) Ho. split; [exact A1|]. split; [exact A2|]. split; [lia|]. split; [lia|].
  destruct (hs_pv hs) as [v|]; [apply (PVq_mono i); assumption|exact I].
Qed.

Lemma mfline_lay flags buf offs m : offs <= nnat (length buf) -> m_offs m <= offs -> m_state m = MFLine ->
  fl_inv offs (m_fl m) -> HSstart offs (m_hs m) -> hl_n (hs_l (m_hs m)) = 0 -> hl_slot (hs_l (m_hs m)) = hdr0 ->
  MLQ buf offs (msg_fline flags buf offs m).
Proof.
  intros Ho Hoffs Hst Hfl Hhs Hn Hslot. unfold msg_fline.
  pose proof (fline_safe buf offs (m_fl m) Ho Hfl) as H.
  destruct (parse_fline buf offs (m_fl m)) as [o1 e fl1| |]; try exact I. destruct H as (H1 & H2 & H3 & H4).
  destruct e; try (apply fail_lay; [discriminate|intros E; discriminate]).
  - destruct (H4 eq_refl) as [Hoo Hfl1].
    apply (mheaders_lay flags buf offs o1 _ o1); [exact H1|destruct m; reflexivity|destruct m; cbn in *; lia|destruct m; cbn in *; exact Hfl1|].
    destruct m; cbn in *. apply BInv_start; [apply (HSstart_mono offs); assumption|exact Hn|exact Hslot].
  - apply fail_lay; [discriminate|]. intros _. unfold MLay. destruct m; cbn in *. subst. auto.
Qed.

(* C05 for ParseSIPMsg *)
Theorem message_layout flags buf offs m : offs <= nnat (length buf) ->
  MInv (rev (firstn (N.to_nat offs) buf)) offs m -> MLay (rev (firstn (N.to_nat offs) buf)) offs m ->
  MLQ buf offs (parse_sipmsg flags buf offs m).
Proof.
  intros Ho Hinv Hlay. unfold parse_sipmsg. cbv zeta.
  assert (Est : m_state (m <| m_buflen := nnat (length buf) |>) = m_state m) by (destruct m; reflexivity).
  rewrite Est. unfold MInv in Hinv. unfold MLay in Hlay.
  destruct (m_state m) eqn:Es.
  - destruct Hinv as [Hfl Hhs]. destruct Hlay as [Hn Hslot]. apply mfline_lay; destruct m; cbn in *; auto; lia.
  - destruct Hinv as (Hfl & Hhs & Hoffs). destruct Hlay as [Hn Hslot]. apply mfline_lay; destruct m; cbn in *; auto.
  - destruct Hinv as [Hhs Hoffs]. destruct Hlay as (a0 & Ha & Hfl & Hb). apply (mheaders_lay flags buf offs offs _ a0); destruct m; cbn in *; auto.
  - destruct Hlay as (a0 & Ha & Hfl & Hch). pose proof (chain_le _ _ _ Hch) as Hle.
    pose proof (body_lay flags (nnat (length buf)) offs (m <| m_buflen := nnat (length buf) |>) a0 Ho
                  ltac:(destruct m; cbn in *; lia) Hle ltac:(destruct m; cbn in *; exact Hfl) ltac:(destruct m; cbn in *; exact Hch)
                  ltac:(destruct m; cbn in *; exact Es)) as Hb.
    destruct (msg_body flags (nnat (length buf)) offs _) as [n e m'| |]; try exact I. destruct Hb as (B2 & B3).
    unfold MLQ. split; [|exact B3].
    intros E. destruct (B2 E) as (-> & Es' & Eo & Ef & Eh). unfold MLay. rewrite Es'. exists a0. rewrite Eo, Ef, Eh. destruct m; cbn in *. auto.
  - apply fail_lay; [discriminate|intros E; discriminate].
  - apply fail_lay; [discriminate|intros E; discriminate].
  - apply fail_lay; [discriminate|intros E; discriminate].
Qed.

(* fresh and reset objects *)
Lemma MLay_init L nh nc pre o : MLay pre o (msg_init L (repeat hdr0 nh) (repeat pfrom0 nc)).
Proof.
  unfold MLay, msg_init. cbn. split; [reflexivity|].
  unfold hl_slot, hdrlst_init, hl_is_tmp, hl_cap; cbn. destruct (_ <=? 0); [reflexivity|apply nth_repeat].
Qed.
Lemma MLay_reset m pre o : MLay pre o (msg_reset m).
Proof. unfold msg_reset. rewrite !map_const_repeat. apply MLay_init. Qed.

(* ---- reading the chain ------------------------------------------------------------------------------------------------------------------------ *)
Lemma chain_all lo s hi h : chain lo s hi -> In h s ->
  exists a e, lo <= a /\ e <= hi /\ line_of a e h.
Proof.
  induction 1 as [lo hi H|lo a h0 e t hi Ha Hl Hc IH]; intros Hin; [destruct Hin|].
  destruct Hin as [<-|Hin].
  - exists a, e. split; [exact Ha|]. split; [exact (chain_le _ _ _ Hc)|exact Hl].
  - destruct (IH Hin) as (a' & e' & A1 & A2 & A3). exists a', e'. split; [|split; [exact A2|exact A3]].
    destruct Hl as ((N1 & N2 & N3) & _). unfold pf_end in *. lia.
Qed.
(* message order, no overlap: an earlier stored header ends (name and value) where or before a later one begins *)
Lemma chain_order lo s hi : chain lo s hi -> forall j j', (j < j')%nat -> (j' < length s)%nat ->
  pf_end (h_name (nth j s hdr0)) < po (h_name (nth j' s hdr0)) /\ pf_end (h_val (nth j s hdr0)) <= po (h_name (nth j' s hdr0)).
Proof.
  induction 1 as [lo hi H|lo a h0 e t hi Ha Hl Hc IH]; intros j j' Hj Hj'; cbn [length] in Hj'; [lia|].
  destruct j' as [|j']; [lia|]. destruct j as [|j].
  - cbn [nth]. destruct (chain_all _ _ _ (nth j' t hdr0) Hc ltac:(apply nth_In; lia)) as (a' & e' & A1 & A2 & ((N1 & N2 & N3) & _)).
    destruct Hl as ((M1 & M2 & M3) & M4 & _). unfold pf_end in *. lia.
  - cbn [nth]. apply IH; lia.
Qed.

(* ---- every chunk schedule ------------------------------------------------------------------------------------------------------------------ *)
Theorem message_layout_chunked flags b : forall cuts k m, Resume.sorted_from (N.to_nat k) cuts -> k <= nnat (length b) ->
  MInv (rev (firstn (N.to_nat k) b)) k m -> MLay (rev (firstn (N.to_nat k) b)) k m ->
  match chunked (parse_sipmsg flags) b cuts k m with
  | Done o EOk m' => MLok o m'
  | _ => True
  end.
Proof.
  induction cuts as [|c cs IH]; intros k m Hs Hk Hinv Hlay; cbn [chunked].
  - pose proof (message_layout flags b k m Hk Hinv Hlay) as H. unfold MLQ in H.
    destruct (parse_sipmsg flags b k m) as [o e m'| |]; auto. destruct e; auto. apply H. reflexivity.
  - destruct Hs as [Hkc Hs].
    destruct (le_lt_dec c (length b)) as [Hcb|Hcb].
    + assert (Hlen : length (firstn c b) = c) by (apply firstn_length_le; exact Hcb).
      pose proof (message_safe flags (firstn c b) k m) as Hsafe. pose proof (message_layout flags (firstn c b) k m) as H.
      rewrite Hlen in Hsafe, H. rewrite (firstn_firstn_le b (N.to_nat k) c Hkc) in Hsafe, H.
      specialize (Hsafe ltac:(unfold nnat; lia) Hinv). specialize (H ltac:(unfold nnat; lia) Hinv Hlay). unfold MQ in Hsafe. unfold MLQ in H.
      destruct (parse_sipmsg flags (firstn c b) k m) as [o e m'| |]; auto. destruct Hsafe as (S1 & S2 & S3). destruct H as [L1 L2].
      destruct e; auto; try (apply L2; reflexivity).
      destruct (S2 eq_refl) as [Hko Hinv']. specialize (L1 eq_refl).
      rewrite (firstn_firstn_le b (N.to_nat o) c ltac:(unfold nnat in *; lia)) in Hinv', L1.
      apply IH; [|unfold nnat in *; lia|exact Hinv'|exact L1].
      destruct cs as [|c2 cs2]; [exact I|]. destruct Hs as [Hc2 Hs2]. split; [unfold nnat in *; lia|exact Hs2].
    + rewrite (firstn_all2 b) by lia.
      pose proof (message_safe flags b k m Hk Hinv) as Hsafe. pose proof (message_layout flags b k m Hk Hinv Hlay) as H. unfold MQ in Hsafe. unfold MLQ in H.
      destruct (parse_sipmsg flags b k m) as [o e m'| |]; auto. destruct Hsafe as (S1 & S2 & S3). destruct H as [L1 L2].
      destruct e; auto; try (apply L2; reflexivity).
      destruct (S2 eq_refl) as [Hko Hinv']. specialize (L1 eq_refl).
      apply IH; [|exact S1|exact Hinv'|exact L1].
      destruct cs as [|c2 cs2]; [exact I|]. destruct Hs as [Hc2 Hs2]. split; [unfold nnat in *; lia|exact Hs2].
Qed.

(* the start offset a fresh object records *)
Lemma fail_offs flags o e m : match msg_fail flags o e m with Done _ _ m' => m_offs m' = m_offs m | _ => True end.
Proof. unfold msg_fail. destruct e; try (destruct m; reflexivity). destruct (testbit _ _); destruct m; reflexivity. Qed.
Lemma body_offs flags L o m : match msg_body flags L o m with Done _ _ m' => m_offs m' = m_offs m | _ => True end.
Proof.
  unfold msg_body, msg_end. destruct (pf_set o o); [|exact I]. destruct m as [fl hs body bl raw st offs]. cbn -[testbit N.ltb N.add N.sub pf_extend].
  repeat match goal with
         | |- context [if ?b then _ else _] => destruct b
         | |- context [match pf_extend ?a ?b with _ => _ end] => destruct (pf_extend a b)
         end; try exact I; reflexivity.
Qed.
Lemma headers_offs flags buf o m : match msg_headers flags buf o m with Done _ _ m' => m_offs m' = m_offs m | _ => True end.
Proof.
  unfold msg_headers. destruct (parse_headers buf o (m_hs m)) as [o1 e hs1| |]; auto.
  assert (F : forall e0, match msg_fail flags o1 e0 (m <| m_hs := hs1 |>) with Done _ _ m' => m_offs m' = m_offs m | _ => True end).
  { intros e0. pose proof (fail_offs flags o1 e0 (m <| m_hs := hs1 |>)) as H. destruct (msg_fail flags o1 e0 _); auto; destruct m; exact H. }
  destruct e; try apply F.
  pose proof (body_offs flags (nnat (length buf)) o1 (m <| m_hs := hs1 |> <| m_state := MBody |>)) as H.
  destruct (msg_body _ _ _ _); auto; destruct m; exact H.
Qed.
Lemma fline_offs flags buf o m : match msg_fline flags buf o m with Done _ _ m' => m_offs m' = m_offs m | _ => True end.
Proof.
  unfold msg_fline. destruct (parse_fline buf o (m_fl m)) as [o1 e fl1| |]; auto.
  assert (F : forall e0, match msg_fail flags o1 e0 (m <| m_fl := fl1 |>) with Done _ _ m' => m_offs m' = m_offs m | _ => True end).
  { intros e0. pose proof (fail_offs flags o1 e0 (m <| m_fl := fl1 |>)) as H. destruct (msg_fail flags o1 e0 _); auto; destruct m; exact H. }
  destruct e; try apply F.
  pose proof (headers_offs flags buf o1 (m <| m_fl := fl1 |> <| m_state := MHeaders |>)) as H.
  destruct (msg_headers _ _ _ _); auto; destruct m; exact H.
Qed.

(* one call on a fresh or reset object: the whole statement in one place *)
Theorem fresh_message_layout flags buf offs m0 : offs <= nnat (length buf) ->
  (exists L nh nc, m0 = msg_init L (repeat hdr0 nh) (repeat pfrom0 nc)) \/ (exists m, m0 = msg_reset m) ->
  match parse_sipmsg flags buf offs m0 with
  | Done o EOk m' =>
    offs <= o /\ o <= nnat (length buf) /\ m_offs m' = offs /\
    m_raw m' = Some (offs, o - offs) /\ m_buflen m' = o /\ pf_end (m_body m') = o /\
    exists a0, offs <= a0 /\ fl_inv a0 (m_fl m') /\ chain a0 (stored (hs_l (m_hs m'))) (po (m_body m'))
  | Done _ _ _ => True
  | _ => False
  end.
Proof.
  intros Ho Hm0.
  assert (Hinv : MInv (rev (firstn (N.to_nat offs) buf)) offs m0) by (destruct Hm0 as [(L & nh & nc & ->)|(m & ->)]; [apply MInv_init|apply MInv_reset]).
  assert (Hlay : MLay (rev (firstn (N.to_nat offs) buf)) offs m0) by (destruct Hm0 as [(L & nh & nc & ->)|(m & ->)]; [apply MLay_init|apply MLay_reset]).
  assert (Hst : m_state m0 = MInit) by (destruct Hm0 as [(L & nh & nc & ->)|(m & ->)]; reflexivity).
  pose proof (message_safe flags buf offs m0 Ho Hinv) as Hs. pose proof (message_layout flags buf offs m0 Ho Hinv Hlay) as Hl.
  assert (Hoffs : match parse_sipmsg flags buf offs m0 with Done _ _ m' => m_offs m' = offs | _ => True end).
  { unfold parse_sipmsg. cbv zeta. replace (m_state (m0 <| m_buflen := nnat (length buf) |>)) with MInit by (destruct m0; cbn in *; congruence).
    pose proof (fline_offs flags buf offs (m0 <| m_buflen := nnat (length buf) |> <| m_offs := offs |> <| m_state := MFLine |>)) as H.
    destruct (msg_fline _ _ _ _); auto; rewrite H; destruct m0; reflexivity. }
  unfold MQ in Hs. unfold MLQ in Hl. destruct (parse_sipmsg flags buf offs m0) as [o e m'| |]; try contradiction.
  destruct e; auto. destruct Hs as (S1 & _ & S3). destruct Hl as [_ L2]. destruct (L2 eq_refl) as (a0 & A1 & A2 & A3 & A4 & A5 & A6).
  rewrite Hoffs in *. split; [apply S3; reflexivity|]. split; [exact S1|]. split; [reflexivity|]. split; [exact A5|]. split; [exact A6|]. split; [exact A4|].
  exists a0. auto.
Qed.
