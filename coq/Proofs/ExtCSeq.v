(* ExtOK for ParseCSeqVal *)
From Sipsp Require Import RunLemmas Safe Resume Ext ExtLeaf ZSlice Harness.
From Coq Require Import ZifyN ZifyNat ZifyBool.

Definition cs_closed (s : cseq) : Prop := cs_state s = CsInit \/ cs_state s = CsEndDigit \/ cs_state s = CsEnd.
Definition cs_eoh (pre R : list byte) (i n : N) (crl : nat) (s : cseq) : ires cseq := cs_endOfHdr pre R i i n crl s.

Lemma cs_lws_is_lws pre R i s : cs_lws pre R i s = ExtLeaf.lws cs_eoh pre R i s.
Proof. reflexivity. Qed.
Lemma cs_iter_ws pre c r i s : cs_closed s -> is_ws c = true -> cs_iter pre (c :: r) i s = ExtLeaf.lws cs_eoh pre (c :: r) i s.
Proof. intros [H|[H|H]] Hws; unfold cs_iter; rewrite H, Hws; reflexivity. Qed.
Lemma cs_iter_nil pre i s : cs_closed s -> cs_iter pre [] i s = Ret i EMore s.
Proof. intros [H|[H|H]]; unfold cs_iter; rewrite H; reflexivity. Qed.

Lemma zget_adv pre B i k f : (k <= length B)%nat -> i = nnat (length pre) ->
  zget (zpre k pre B) (zrest k B) (i + nnat k) f = zget pre B i f.
Proof.
  intros Hk Hi. rewrite !zget_bslice; auto.
  - now rewrite zip_whole.
  - unfold zpre. rewrite app_length, rev_length, firstn_length. unfold nnat in *. lia.
Qed.

Lemma cs_eoh_adv pre B i k n crl s : cs_closed s -> (k <= length B)%nat -> i = nnat (length pre) ->
  cs_eoh (zpre k pre B) (zrest k B) (i + nnat k) n crl s = cs_eoh pre B i n crl s.
Proof.
  intros Hc Hk Hi. unfold cs_eoh, cs_endOfHdr. destruct Hc as [H|[H|H]]; rewrite H; try reflexivity.
  unfold cs_finish. destruct (_ || _); [reflexivity|]. cbn [cs_method]. rewrite (zget_adv pre B i k _ Hk Hi). reflexivity.
Qed.
Lemma cs_eoh_final pre R i n crl s : match cs_eoh pre R i n crl s with Next _ _ => False | _ => True end.
Proof.
  unfold cs_eoh, cs_endOfHdr, cs_finish. destruct (cs_state s); auto;
  repeat match goal with
         | |- context [match ?o with Some _ => _ | None => _ end] => destruct o
         | |- context [if ?b then _ else _] => destruct b
         end; exact I.
Qed.
Lemma cs_eoh_nomore pre R i n crl s :
  match cs_eoh pre R i n crl s with Next _ _ => False | Ret _ EMore _ => False | _ => True end.
Proof.
  unfold cs_eoh, cs_endOfHdr, cs_finish. destruct (cs_state s); auto;
  repeat match goal with
         | |- context [match ?o with Some _ => _ | None => _ end] => destruct o
         | |- context [if ?b then _ else _] => destruct b
         end; exact I.
Qed.

(* the end-of-header action read on a longer buffer: same result, unless the shorter one panicked *)
Lemma cs_eoh_ext pre R x i n crl s : i = nnat (length pre) -> cs_closed s ->
  cs_eoh pre R i n crl s = IPanic \/ cs_eoh pre (R ++ x) i n crl s = cs_eoh pre R i n crl s.
Proof.
  intros Hi Hc. unfold cs_eoh, cs_endOfHdr. destruct Hc as [H|[H|H]]; rewrite H; auto.
  unfold cs_finish. destruct (_ || _); auto. cbn [cs_method].
  rewrite !zget_bslice by exact Hi.
  destruct (bslice (rev pre ++ R) _ _) as [m|] eqn:E; [|left; reflexivity].
  right. rewrite app_assoc, bslice_app, E; [reflexivity|]. apply bslice_some_bound in E. apply E.
Qed.

Lemma cs_ws_case pre c r x j t s1 : j = nnat (length pre) -> is_ws c = true -> cs_closed s1 ->
  (forall R, cs_iter pre (c :: R) j t = cs_lws pre (c :: R) j s1) ->
  ext_clause cs_iter obs_cseq pre (c :: r) x j t.
Proof.
  intros Hj Hws Hcl Hit. unfold ext_clause. rewrite (Hit r). cbn [app]. rewrite (Hit (r ++ x)).
  unfold cs_lws.
  pose proof (skipLWS_ext (c :: r) x) as He. cbn [app] in He.
  destruct (skipLWS false (c :: r)) as [n|n crl|n] eqn:El.
  - rewrite He. intros _. reflexivity.
  - rewrite He. change (cs_endOfHdr pre (c :: r) j j (j + nnat n) crl s1) with (cs_eoh pre (c :: r) j (j + nnat n) crl s1).
    change (cs_endOfHdr pre (c :: r ++ x) j j (j + nnat n) crl s1) with (cs_eoh pre ((c :: r) ++ x) j (j + nnat n) crl s1).
    pose proof (cs_eoh_nomore pre (c :: r) j (j + nnat n) crl s1) as Hf.
    destruct (cs_eoh_ext pre (c :: r) x j (j + nnat n) crl s1 Hj Hcl) as [Hp|Hx].
    + rewrite Hp. exact I.
    + rewrite Hx. destruct (cs_eoh pre (c :: r) j (j + nnat n) crl s1) as [? ?|? [] ?|]; try reflexivity; try exact I; destruct Hf.
  - destruct He as [Hn He]. exists n. split; [exact Hn|]. split; [reflexivity|].
    rewrite (run_after cs_iter pre (c :: r ++ x) j t), (Hit (r ++ x)), (cs_lws_is_lws pre).
    apply (lws_more_resume cs_iter cs_eoh cs_closed cs_iter_ws cs_iter_nil cs_eoh_adv cs_eoh_final
             pre c r x j n s1 Hcl Hws Hj El).
Qed.

Lemma cs_IterExt : IterExt cs_iter.
Proof.
  intros pre rest x j t Hj. change (ext_clause cs_iter obs_cseq pre rest x j t).
  destruct (cs_state t) eqn:Est.
  6:{ unfold ext_clause, cs_iter. rewrite Est. reflexivity. }
  all: destruct rest as [|c r];
    [unfold ext_clause; replace (cs_iter pre [] j t) with (Ret j EMore t : ires cseq) by (unfold cs_iter; now rewrite Est);
     exact (more_here cs_iter obs_cseq pre [] x j t)|].
  all: destruct (is_ws c) eqn:Hws;
    [|unfold ext_clause, cs_iter; cbn [app]; rewrite Est, Hws; destruct (is_digit c); try destruct (acc32 _ _);
      cbn; intros; reflexivity].
  - (* Init *) apply (cs_ws_case pre c r x j t t Hj Hws); [left; exact Est|]. intros R. unfold cs_iter. now rewrite Est, Hws.
  - (* FoundDigit *)
    destruct (pf_set (cs_soffs t) j) as [f|] eqn:Ef.
    + apply (cs_ws_case pre c r x j t (t <| cs_cseq := f |> <| cs_v := f |> <| cs_state := CsEndDigit |>) Hj Hws).
      * right; left. destruct t; reflexivity.
      * intros R. unfold cs_iter. now rewrite Est, Hws, Ef.
    + unfold ext_clause, cs_iter. now rewrite Est, Hws, Ef.
  - (* EndDigit *) apply (cs_ws_case pre c r x j t t Hj Hws); [right; left; exact Est|]. intros R. unfold cs_iter. now rewrite Est, Hws.
  - (* FoundMethod *)
    destruct (pf_set (cs_soffs t) j) as [m|] eqn:Em; [|unfold ext_clause, cs_iter; now rewrite Est, Hws, Em].
    destruct (pf_extend (cs_v t) j) as [v|] eqn:Ev; [|unfold ext_clause, cs_iter; now rewrite Est, Hws, Em, Ev].
    apply (cs_ws_case pre c r x j t (t <| cs_method := m |> <| cs_v := v |> <| cs_state := CsEnd |>) Hj Hws).
    + right; right. destruct t; reflexivity.
    + intros R. unfold cs_iter. now rewrite Est, Hws, Em, Ev.
  - (* End *) apply (cs_ws_case pre c r x j t t Hj Hws); [right; right; exact Est|]. intros R. unfold cs_iter. now rewrite Est, Hws.
Qed.

Theorem cseq_ExtOK : ExtOK parse_cseq obs_cseq (fun _ _ => True).
Proof. exact (parse_ExtOK cs_iter obs_cseq cs_IterExt). Qed.

(* Content-Length: ParseUIntVal plus a post-check that only looks at the finished value *)
Theorem clen_ExtOK : ExtOK parse_clen obs_uint (fun _ _ => True).
Proof.
  intros p x i s _ Hi. unfold parse_clen, parse_uint, parse.
  assert (Hlen : i = nnat (length (rev (firstn (N.to_nat i) p)))).
  { rewrite rev_length, firstn_length. unfold nnat in *. lia. }
  pose proof (run_ext ui_iter obs_uint ui_IterExt (skipn (N.to_nat i) p) (rev (firstn (N.to_nat i) p)) x i s Hlen) as H.
  rewrite (zinit_app p x i Hi).
  replace (zinit p i) with (rev (firstn (N.to_nat i) p), skipn (N.to_nat i) p) by reflexivity.
  destruct (run ui_iter (rev (firstn (N.to_nat i) p)) (skipn (N.to_nat i) p) i 0 s) as [o e s'| |]; auto.
  destruct e; try (rewrite H; apply req_refl).
  - (* EOk: the same post-check on the same state *)
    rewrite H. destruct (_ || _); apply req_refl.
  - (* EMore *)
    destruct H as (k & Hk & -> & Hrq). rewrite skipn_length in Hk.
    split; [exact I|]. split; [unfold nnat in *; lia|].
    assert (Hb : (N.to_nat i + k <= length (p ++ x))%nat) by (rewrite app_length; unfold nnat in *; lia).
    rewrite (zinit_advance (p ++ x) i k Hb).
    assert (E1 : firstn (N.to_nat i) (p ++ x) = firstn (N.to_nat i) p).
    { rewrite firstn_app. replace (N.to_nat i - length p)%nat with 0%nat by (unfold nnat in *; lia). cbn. now rewrite app_nil_r. }
    assert (E2 : skipn (N.to_nat i) (p ++ x) = skipn (N.to_nat i) p ++ x).
    { rewrite skipn_app. replace (N.to_nat i - length p)%nat with 0%nat by (unfold nnat in *; lia). reflexivity. }
    rewrite E1, E2, Hrq. apply req_refl.
Qed.
