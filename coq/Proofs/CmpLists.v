(* C15: the parameter-list and header-list comparisons against what they mean.
   Headers: two lists without duplicate names are equal iff they hold the same (name, value) pairs
   up to letter case, in any order.  For parameters: equal iff the user / ttl / method / maddr presence
   masks agree and every pair of parameters with the same key (known parameter: its kind; other
   parameter: its name up to letter case) has the same value up to letter case.  Symmetry,
   reflexivity, order and case independence are corollaries. *)
From Sipsp Require Import Harness Classify CmpLaws.
From Coq Require Import ZifyN ZifyNat ZifyBool Permutation.

Notation lower := (map to_lower).

Lemma bool_iff_eq (a b : bool) : (a = true <-> b = true) -> a = b.
Proof. destruct a, b; intros [H1 H2]; auto; try (symmetry; apply H1; reflexivity); apply H2; reflexivity. Qed.

(* ---- headers --------------------------------------------------------------------------------------------------------------------------- *)
Definition lp (e : list byte * list byte) : list byte * list byte := (lower (fst e), lower (snd e)).

Lemma names_nodup_lp e : names_nodup e <-> NoDup (map fst (map lp e)).
Proof. unfold names_nodup. rewrite map_map. reflexivity. Qed.
Lemma names_nodup_pairs e : names_nodup e -> NoDup (map lp e).
Proof. intros H. apply names_nodup_lp in H. exact (NoDup_map_inv fst _ H). Qed.

Lemma uh_find_in n v e2 : uh_find n v e2 = true -> In (lower n, lower v) (map lp e2).
Proof.
  induction e2 as [|[n2 v2] e2 IH]; cbn; [discriminate|].
  destruct (eqb_nocase n n2) eqn:En.
  - intros Ev. left. apply nocase_eq in En, Ev. unfold lp. cbn. rewrite En, Ev. reflexivity.
  - intros H. right. apply IH. exact H.
Qed.
Lemma uh_in_find n v e2 : names_nodup e2 -> In (lower n, lower v) (map lp e2) -> uh_find n v e2 = true.
Proof.
  induction e2 as [|[n2 v2] e2 IH]; cbn; [tauto|]. intros Hnd [H|H].
  - unfold lp in H. cbn in H. injection H as H1 H2.
    replace (eqb_nocase n n2) with true by (symmetry; apply nocase_eq; auto). apply nocase_eq. auto.
  - unfold names_nodup in Hnd. cbn in Hnd. inversion Hnd as [|x l Hnot Hnd']. subst.
    destruct (eqb_nocase n n2) eqn:En; [|apply IH; assumption].
    exfalso. apply Hnot. apply nocase_eq in En. rewrite <- En.
    apply (in_map fst) in H. rewrite map_map in H. exact H.
Qed.

Theorem uhdrs_eq_spec e1 e2 : names_nodup e1 -> names_nodup e2 ->
  (uhdrs_entries_eq e1 e2 = true <-> Permutation (map lp e1) (map lp e2)).
Proof.
  intros N1 N2. unfold uhdrs_entries_eq. rewrite andb_true_iff, forallb_forall. split.
  - intros [Hlen Hall]. apply Nat.eqb_eq in Hlen.
    apply NoDup_Permutation_bis; [apply names_nodup_pairs; exact N1|rewrite !map_length; lia|].
    intros z Hz. apply in_map_iff in Hz. destruct Hz as ([n v] & <- & Hin). apply (uh_find_in n v). exact (Hall (n, v) Hin).
  - intros HP. split.
    + apply Nat.eqb_eq. apply Permutation_length in HP. rewrite !map_length in HP. exact HP.
    + intros [n v] Hin. apply uh_in_find; [exact N2|]. apply (Permutation_in _ HP). exact (in_map lp e1 (n, v) Hin).
Qed.

Lemma names_nodup_perm e e' : Permutation (map lp e) (map lp e') -> names_nodup e -> names_nodup e'.
Proof.
  intros HP H. apply names_nodup_lp. apply names_nodup_lp in H.
  exact (Permutation_NoDup (Permutation_map fst HP) H).
Qed.

(* the result depends only on the set of lower-cased (name, value) pairs of each side *)
Theorem uhdrs_eq_congruence e1 e2 e1' e2' : names_nodup e1 -> names_nodup e2 ->
  Permutation (map lp e1) (map lp e1') -> Permutation (map lp e2) (map lp e2') ->
  uhdrs_entries_eq e1' e2' = uhdrs_entries_eq e1 e2.
Proof.
  intros N1 N2 P1 P2. apply bool_iff_eq.
  rewrite (uhdrs_eq_spec e1' e2' (names_nodup_perm _ _ P1 N1) (names_nodup_perm _ _ P2 N2)), (uhdrs_eq_spec e1 e2 N1 N2).
  split; intros H.
  - exact (Permutation_trans P1 (Permutation_trans H (Permutation_sym P2))).
  - exact (Permutation_trans (Permutation_sym P1) (Permutation_trans H P2)).
Qed.
Theorem uhdrs_eq_sym e1 e2 : names_nodup e1 -> names_nodup e2 -> uhdrs_entries_eq e1 e2 = uhdrs_entries_eq e2 e1.
Proof.
  intros N1 N2. apply bool_iff_eq. rewrite (uhdrs_eq_spec e1 e2 N1 N2), (uhdrs_eq_spec e2 e1 N2 N1).
  split; apply Permutation_sym.
Qed.
Corollary uhdrs_eq_order e1 e1' e2 e2' : names_nodup e1 -> names_nodup e2 -> Permutation e1 e1' -> Permutation e2 e2' ->
  uhdrs_entries_eq e1' e2' = uhdrs_entries_eq e1 e2.
Proof. intros N1 N2 P1 P2. apply uhdrs_eq_congruence; auto using Permutation_map. Qed.
Corollary uhdrs_eq_case e1 e1' e2 e2' : names_nodup e1 -> names_nodup e2 -> map lp e1 = map lp e1' -> map lp e2 = map lp e2' ->
  uhdrs_entries_eq e1' e2' = uhdrs_entries_eq e1 e2.
Proof. intros N1 N2 E1 E2. apply uhdrs_eq_congruence; auto; [rewrite E1|rewrite E2]; apply Permutation_refl. Qed.

(* ---- parameters ------------------------------------------------------------------------------------------------------------------------ *)
Definition pent := (N * list byte * list byte)%type.
Definition pkey (x : pent) : N * list byte := let '(t, n, _) := x in (t, if t =? URIParamOtherF then lower n else []).
Definition pval (x : pent) : list byte := let '(_, _, v) := x in lower v.
Definition pkv (x : pent) : (N * list byte) * list byte := (pkey x, pval x).
Definition keys_nodup (e : list pent) : Prop := NoDup (map pkey e).

Lemma pmatch_iff t n v t2 n2 v2 :
  ((t =? t2) && (negb (t =? URIParamOtherF) || eqb_nocase n n2)) = true <-> pkey (t, n, v) = pkey (t2, n2, v2).
Proof.
  unfold pkey. split.
  - intros H. apply andb_true_iff in H. destruct H as [Ht H]. apply N.eqb_eq in Ht. subst t2.
    destruct (t =? URIParamOtherF) eqn:E; [|reflexivity]. cbn in H. apply nocase_eq in H. rewrite H. reflexivity.
  - intros H. injection H as Ht Hn. subst t2. rewrite N.eqb_refl. cbn [andb].
    destruct (t =? URIParamOtherF); [|reflexivity]. cbn. apply nocase_eq. exact Hn.
Qed.

Lemma up_find_some t n v e2 v2 : up_find t n e2 = Some v2 -> exists y, In y e2 /\ pkey (t, n, v) = pkey y /\ lower v2 = pval y.
Proof.
  induction e2 as [|[[t2 n2] w2] e2 IH]; cbn [up_find]; [discriminate|].
  destruct ((t =? t2) && (negb (t =? URIParamOtherF) || eqb_nocase n n2)) eqn:E.
  - intros H. injection H as <-. exists (t2, n2, w2). split; [left; reflexivity|]. split; [apply (pmatch_iff t n v t2 n2 w2); exact E|reflexivity].
  - intros H. destruct (IH H) as (y & Hy & K). exists y. split; [right; exact Hy|exact K].
Qed.
Lemma up_find_none t n v e2 : up_find t n e2 = None -> forall y, In y e2 -> pkey (t, n, v) <> pkey y.
Proof.
  induction e2 as [|[[t2 n2] w2] e2 IH]; cbn [up_find]; [intros _ y []|].
  destruct ((t =? t2) && (negb (t =? URIParamOtherF) || eqb_nocase n n2)) eqn:E; [discriminate|].
  intros H y [<-|Hy]; [|apply IH; assumption]. intros K. apply (pmatch_iff t n v t2 n2 w2) in K. congruence.
Qed.
Lemma keys_unique e x y : keys_nodup e -> In x e -> In y e -> pkey x = pkey y -> x = y.
Proof.
  unfold keys_nodup. induction e as [|z e IH]; cbn; [tauto|]. intros Hnd Hx Hy K. inversion Hnd as [|k l Hnot Hnd']. subst.
  destruct Hx as [<-|Hx], Hy as [<-|Hy]; auto.
  - exfalso. apply Hnot. rewrite K. apply in_map. exact Hy.
  - exfalso. apply Hnot. rewrite <- K. apply in_map. exact Hx.
Qed.

Definition pairs_agree (e1 e2 : list pent) : Prop :=
  forall x y, In x e1 -> In y e2 -> pkey x = pkey y -> pval x = pval y.

Theorem uparams_eq_spec ty1 ty2 e1 e2 : keys_nodup e2 ->
  (uparams_entries_eq ty1 ty2 e1 e2 = true <-> N.land ty1 up_bmask = N.land ty2 up_bmask /\ pairs_agree e1 e2).
Proof.
  intros N2. unfold uparams_entries_eq. rewrite andb_true_iff, forallb_forall, N.eqb_eq. split; intros [Hm H]; (split; [exact Hm|]).
  - intros [[t n] v] y Hx Hy K. specialize (H _ Hx). cbn beta iota in H.
    destruct (up_find t n e2) as [v2|] eqn:Ef.
    + destruct (up_find_some t n v e2 v2 Ef) as (y' & Hy' & K' & Ev).
      assert (y' = y) by (apply (keys_unique e2); auto; congruence). subst y'.
      apply nocase_eq in H. unfold pval at 1. rewrite H. exact Ev.
    + exfalso. exact (up_find_none t n v e2 Ef y Hy K).
  - intros [[t n] v] Hx. destruct (up_find t n e2) as [v2|] eqn:Ef; [|reflexivity].
    destruct (up_find_some t n v e2 v2 Ef) as (y & Hy & K & Ev). apply nocase_eq. rewrite Ev. exact (H (t, n, v) y Hx Hy K).
Qed.

Theorem uparams_eq_sym ty1 ty2 e1 e2 : keys_nodup e1 -> keys_nodup e2 ->
  uparams_entries_eq ty1 ty2 e1 e2 = uparams_entries_eq ty2 ty1 e2 e1.
Proof.
  intros N1 N2. apply bool_iff_eq. rewrite (uparams_eq_spec ty1 ty2 e1 e2 N2), (uparams_eq_spec ty2 ty1 e2 e1 N1).
  unfold pairs_agree. split; intros [Hm H]; (split; [symmetry; exact Hm|]); intros x y Hx Hy K; symmetry; apply H; auto.
Qed.
Theorem uparams_eq_refl ty e : keys_nodup e -> uparams_entries_eq ty ty e e = true.
Proof.
  intros Nd. apply (uparams_eq_spec ty ty e e Nd). split; [reflexivity|]. intros x y Hx Hy K.
  rewrite (keys_unique e x y Nd Hx Hy K). reflexivity.
Qed.

(* the result depends only on the masks and on the set of (key, lower-cased value) pairs of each side *)
Lemma keys_nodup_perm e e' : Permutation (map pkv e) (map pkv e') -> keys_nodup e -> keys_nodup e'.
Proof.
  intros HP H. unfold keys_nodup in *.
  replace (map pkey e') with (map fst (map pkv e')) by (rewrite map_map; reflexivity).
  replace (map pkey e) with (map fst (map pkv e)) in H by (rewrite map_map; reflexivity).
  exact (Permutation_NoDup (Permutation_map fst HP) H).
Qed.
Lemma pairs_agree_perm e1 e2 e1' e2' : Permutation (map pkv e1) (map pkv e1') -> Permutation (map pkv e2) (map pkv e2') ->
  pairs_agree e1 e2 -> pairs_agree e1' e2'.
Proof.
  intros P1 P2 H x' y' Hx Hy K.
  apply (in_map pkv) in Hx, Hy. apply (Permutation_in _ (Permutation_sym P1)) in Hx. apply (Permutation_in _ (Permutation_sym P2)) in Hy.
  apply in_map_iff in Hx, Hy. destruct Hx as (x & Ex & Hx), Hy as (y & Ey & Hy).
  unfold pkv in Ex, Ey. injection Ex as Ex1 Ex2. injection Ey as Ey1 Ey2. rewrite <- Ex2, <- Ey2. apply H; auto. congruence.
Qed.
Theorem uparams_eq_congruence ty1 ty2 e1 e2 e1' e2' : keys_nodup e2 ->
  Permutation (map pkv e1) (map pkv e1') -> Permutation (map pkv e2) (map pkv e2') ->
  uparams_entries_eq ty1 ty2 e1' e2' = uparams_entries_eq ty1 ty2 e1 e2.
Proof.
  intros N2 P1 P2. apply bool_iff_eq.
  rewrite (uparams_eq_spec ty1 ty2 e1' e2' (keys_nodup_perm _ _ P2 N2)), (uparams_eq_spec ty1 ty2 e1 e2 N2).
  split; intros [Hm H]; (split; [exact Hm|]).
  - exact (pairs_agree_perm _ _ _ _ (Permutation_sym P1) (Permutation_sym P2) H).
  - exact (pairs_agree_perm _ _ _ _ P1 P2 H).
Qed.
Corollary uparams_eq_order ty1 ty2 e1 e1' e2 e2' : keys_nodup e2 -> Permutation e1 e1' -> Permutation e2 e2' ->
  uparams_entries_eq ty1 ty2 e1' e2' = uparams_entries_eq ty1 ty2 e1 e2.
Proof. intros N2 P1 P2. apply uparams_eq_congruence; auto using Permutation_map. Qed.
Corollary uparams_eq_case ty1 ty2 e1 e1' e2 e2' : keys_nodup e2 -> map pkv e1 = map pkv e1' -> map pkv e2 = map pkv e2' ->
  uparams_entries_eq ty1 ty2 e1' e2' = uparams_entries_eq ty1 ty2 e1 e2.
Proof. intros N2 E1 E2. apply uparams_eq_congruence; auto; [rewrite E1|rewrite E2]; apply Permutation_refl. Qed.
(* user / ttl / method / maddr present on one side only: never equal *)
Theorem uparams_mask_differs ty1 ty2 e1 e2 : N.land ty1 up_bmask <> N.land ty2 up_bmask -> uparams_entries_eq ty1 ty2 e1 e2 = false.
Proof. intros H. unfold uparams_entries_eq. apply N.eqb_neq in H. rewrite H. reflexivity. Qed.

(* ---- the parse-and-compare entry points --------------------------------------------------------------------------------------------- *)
From Sipsp Require Import RunLemmas Safe SafeLeaf SafeURI.

Definition params_ok (p : list byte) (o : N) : Prop :=
  match parse_all_uri_params cmp_flags_params p o (uparams_init (repeat uriparam0 cmp_cap)) with
  | Done _ e l => err_eqb e EOk || err_eqb e EEOH = true -> keys_nodup (ul_entries l p)
  | _ => True
  end.
Definition hdrs_ok (h : list byte) (o : N) : Prop :=
  match parse_all_uri_hdrs cmp_flags_hdrs h o (uhdrs_init (repeat tokparam0 cmp_cap)) with
  | Done _ e l => err_eqb e EOk || err_eqb e EEOH = true -> names_nodup (uh_entries l h)
  | _ => True
  end.

Definition verdict (r : option (bool * err)) : option bool := match r with Some (ok, _) => Some ok | None => None end.

Theorem uri_params_eq_sym b1 o1 b2 o2 : o1 <= nnat (length b1) -> o2 <= nnat (length b2) -> params_ok b1 o1 -> params_ok b2 o2 ->
  verdict (uri_params_eq b1 o1 b2 o2) = verdict (uri_params_eq b2 o2 b1 o1).
Proof.
  intros H1 H2 K1 K2. unfold uri_params_eq, params_ok in *.
  pose proof (uparams_safe cmp_flags_params b1 o1 _ H1 (ul_inv_init cmp_cap o1)) as S1.
  pose proof (uparams_safe cmp_flags_params b2 o2 _ H2 (ul_inv_init cmp_cap o2)) as S2.
  destruct (parse_all_uri_params cmp_flags_params b1 o1 _) as [n1 e1 l1| |]; try contradiction.
  destruct (parse_all_uri_params cmp_flags_params b2 o2 _) as [n2 e2 l2| |]; try contradiction.
  destruct (err_eqb e1 EOk || err_eqb e1 EEOH), (err_eqb e2 EOk || err_eqb e2 EEOH); cbn; try reflexivity.
  f_equal. unfold uparams_lst_eq. apply uparams_eq_sym; auto.
Qed.
Theorem uri_hdrs_eq_sym b1 o1 b2 o2 : o1 <= nnat (length b1) -> o2 <= nnat (length b2) -> hdrs_ok b1 o1 -> hdrs_ok b2 o2 ->
  verdict (uri_hdrs_eq b1 o1 b2 o2) = verdict (uri_hdrs_eq b2 o2 b1 o1).
Proof.
  intros H1 H2 K1 K2. unfold uri_hdrs_eq, hdrs_ok in *.
  pose proof (uhdrs_safe cmp_flags_hdrs b1 o1 _ H1 (uh_inv_init cmp_cap o1)) as S1.
  pose proof (uhdrs_safe cmp_flags_hdrs b2 o2 _ H2 (uh_inv_init cmp_cap o2)) as S2.
  destruct (parse_all_uri_hdrs cmp_flags_hdrs b1 o1 _) as [n1 e1 l1| |]; try contradiction.
  destruct (parse_all_uri_hdrs cmp_flags_hdrs b2 o2 _) as [n2 e2 l2| |]; try contradiction.
  destruct (err_eqb e1 EOk || err_eqb e1 EEOH), (err_eqb e2 EOk || err_eqb e2 EEOH); cbn; try reflexivity.
  f_equal. unfold uhdrs_lst_eq. apply uhdrs_eq_sym; auto.
Qed.

(* the whole comparison: symmetric for URIs whose parameter and header texts parse into lists without
   duplicate names (every flag set) *)
Definition uri_lists_ok (u : puri) (b : list byte) : Prop :=
  (forall p, bget b (u_params u) = Some p -> params_ok p 0) /\ (forall h, bget b (u_headers u) = Some h -> hdrs_ok h 0).

Theorem uri_cmp_sym u1 b1 u2 b2 f : uri_lists_ok u1 b1 -> uri_lists_ok u2 b2 -> uri_cmp u1 b1 u2 b2 f = uri_cmp u2 b2 u1 b1 f.
Proof.
  intros [P1 Hd1] [P2 Hd2]. unfold uri_cmp. cbv zeta. rewrite (cmp_short_sym u2 b2 u1 b1 f).
  destruct (uri_cmp_short u1 b1 u2 b2 f) as [r0|]; [|reflexivity].
  assert (E1 : (if r0 && negb (testbit f bURICmpSkipParams)
                then match bget b1 (u_params u1), bget b2 (u_params u2) with
                     | Some p1, Some p2 => match uri_params_eq p1 0 p2 0 with Some (ok, _) => Some ok | None => None end
                     | _, _ => None end
                else Some r0)
               = (if r0 && negb (testbit f bURICmpSkipParams)
                  then match bget b2 (u_params u2), bget b1 (u_params u1) with
                       | Some p1, Some p2 => match uri_params_eq p1 0 p2 0 with Some (ok, _) => Some ok | None => None end
                       | _, _ => None end
                  else Some r0)).
  { destruct (r0 && negb (testbit f bURICmpSkipParams)); [|reflexivity].
    destruct (bget b1 (u_params u1)) as [p1|] eqn:B1, (bget b2 (u_params u2)) as [p2|] eqn:B2; try reflexivity.
    apply (uri_params_eq_sym p1 0 p2 0); [apply N.le_0_l|apply N.le_0_l|apply P1; reflexivity|apply P2; reflexivity]. }
  rewrite E1. clear E1. match goal with |- match ?X with _ => _ end = _ => destruct X as [r1|] end; [|reflexivity].
  destruct (r1 && negb (testbit f bURICmpSkipHeaders)); [|reflexivity].
  destruct (bget b1 (u_headers u1)) as [h1|] eqn:B1, (bget b2 (u_headers u2)) as [h2|] eqn:B2; try reflexivity.
  apply (uri_hdrs_eq_sym h1 0 h2 0); [apply N.le_0_l|apply N.le_0_l|apply Hd1; reflexivity|apply Hd2; reflexivity].
Qed.

(* ignoring more components can only turn "different" into "equal" - the whole comparison *)
Theorem uri_cmp_monotone u1 b1 u2 b2 f f' : flags_le f f' -> uri_cmp u1 b1 u2 b2 f = Some true -> uri_cmp u1 b1 u2 b2 f' = Some true.
Proof.
  intros Hle. unfold uri_cmp. cbv zeta.
  pose proof (cmp_short_monotone u1 b1 u2 b2 f f' Hle) as Hs.
  destruct (uri_cmp_short u1 b1 u2 b2 f) as [r0|]; [|discriminate].
  destruct r0.
  2:{ cbn. discriminate. }
  rewrite (Hs eq_refl). cbn [andb].
  assert (Hp : testbit f bURICmpSkipParams = true -> testbit f' bURICmpSkipParams = true) by apply Hle.
  assert (Hh : testbit f bURICmpSkipHeaders = true -> testbit f' bURICmpSkipHeaders = true) by apply Hle.
  destruct (testbit f bURICmpSkipParams) eqn:E1.
  - rewrite (Hp eq_refl). cbn [negb andb]. destruct (testbit f bURICmpSkipHeaders) eqn:E2.
    + rewrite (Hh eq_refl). auto.
    + cbn [negb]. destruct (testbit f' bURICmpSkipHeaders); auto.
  - cbn [negb]. set (P := match bget b1 (u_params u1) with Some p1 => _ | None => None end).
    destruct P as [r1|]; [|discriminate]. destruct r1.
    2:{ cbn. discriminate. }
    cbn [andb]. intros H.
    assert (G : (if negb (testbit f' bURICmpSkipHeaders) then
                  match bget b1 (u_headers u1), bget b2 (u_headers u2) with
                  | Some h1, Some h2 => match uri_hdrs_eq h1 0 h2 0 with Some (ok, _) => Some ok | None => None end
                  | _, _ => None end else Some true) = Some true).
    { destruct (testbit f bURICmpSkipHeaders) eqn:E2; [rewrite (Hh eq_refl); reflexivity|].
      cbn [negb] in H. destruct (testbit f' bURICmpSkipHeaders); [reflexivity|exact H]. }
    destruct (testbit f' bURICmpSkipParams); cbn [negb andb]; exact G.
Qed.
