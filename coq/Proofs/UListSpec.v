(* C17, list level: ParseAllURIParams on name=value;name=value;...;name=value <terminator>: every
   parameter is counted (also those that do not fit the array), entry j is parameter j with its known-
   parameter kind, the kind mask is the union of the kinds; the verdict is ok at the terminator. *)
From Sipsp Require Import Driver Harness RunLemmas Ext ExtLeaf ZSlice HdrSpec UIntSpec FLineSpec TokSpec NameAddrSpec Shift ShiftFb ShiftTok
  ExtLists Capacity CapHeaders CapURI ExtURI.
From Coq Require Import ZifyN ZifyNat ZifyBool.
From RecordUpdate Require Import RecordUpdate.

(* ---- ParseTokenParam ended by the terminator, at any offset ------------------------------------------------------------------------ *)
Theorem tp_spec_term_at flags (junk : list byte) n0 (name : list byte) v0 (value : list byte) t tail :
  plain flags n0 -> Forall (plain flags) name -> plain flags v0 -> Forall (plain flags) value -> is_term_c flags t = true ->
  let k := nnat (length junk) in let ln := nnat (length (n0 :: name)) in let lv := nnat (length (v0 :: value)) in
  parse_tokparam flags (junk ++ (n0 :: name) ++ 61 :: (v0 :: value) ++ t :: tail) k tokparam0
  = Done (k + (ln + 1 + lv)) EOk (mktokparam (mkpf k (ln + 1 + lv)) (mkpf k ln) (mkpf (k + (ln + 1)) lv) PFIN).
Proof.
  intros Hn0 Hname Hv0 Hvalue Ht k ln lv.
  pose proof (tp_spec_term flags n0 name v0 value t tail Hn0 Hname Hv0 Hvalue Ht) as H0. cbv zeta in H0. fold ln lv in H0.
  pose proof (tokparam_shift flags junk ((n0 :: name) ++ 61 :: (v0 :: value) ++ t :: tail) 0 ltac:(unfold nnat; lia)) as Hs.
  rewrite H0 in Hs. replace (0 + nnat (length junk)) with k in Hs by (subst k; lia). unfold res_shiftI in Hs. rewrite rev_length in Hs. fold k in Hs.
  assert (Hln : ln <> 0) by (subst ln; cbn [length]; unfold nnat; lia).
  assert (Hlv : lv <> 0) by (subst lv; cbn [length]; unfold nnat; lia).
  clearbody ln lv k.
  destruct (parse_tokparam flags _ k tokparam0) as [o' e' s'| |]; try contradiction.
  destruct Hs as (-> & <- & Hst & Hf). cbn [tp_state tp_live tp_all tp_name tp_val lvp] in Hst, Hf. destruct Hf as (F1 & F2 & F3).
  apply zp_nonempty in F1; [|cbn [pl]; lia].
  apply zp_nonempty in F2; [|cbn [pl]; lia].
  apply zp_nonempty in F3; [|cbn [pl]; lia].
  destruct s' as [al nm vl st]. cbn [tp_state tp_all tp_name tp_val] in Hst, F1, F2, F3. subst al nm vl st. unfold shf. cbn [po pl].
  f_equal; [lia|]. f_equal; f_equal; lia.
Qed.

(* ---- what one completed parameter does to the list ---------------------------------------------------------------------------------- *)
Definition ul_add (l : uparams) (p : uriparam) : uparams :=
  let l1 := ul_store l p in
  let l2 := l1 <| ul_types := N.lor (ul_types l1) (up_t p) |> <| ul_vno := ul_vno l1 + 1 |> in
  let l3 := if ul_is_tmp l then l2 <| ul_tmp := uriparam0 |> else l2 in
  l3 <| ul_n := ul_n l3 + 1 |>.
Lemma ul_add_proj l p :
  ul_n (ul_add l p) = ul_n l + 1 /\
  ul_params (ul_add l p) = (if ul_is_tmp l then ul_params l else set_nth (N.to_nat (ul_n l)) p (ul_params l)) /\
  ul_tmp (ul_add l p) = (if ul_is_tmp l then uriparam0 else ul_tmp l) /\
  ul_types (ul_add l p) = N.lor (ul_types l) (up_t p) /\ ul_vno (ul_add l p) = ul_vno l + 1.
Proof.
  unfold ul_add. cbv zeta. destruct (ul_store_proj l p) as (S1 & S2 & S3 & S4 & S5).
  destruct (ul_is_tmp l); destruct (ul_store l p); cbn in *; subst; repeat split; reflexivity.
Qed.
Definition ULI (l : uparams) : Prop := ul_wf l /\ ul_slot l = uriparam0.
Lemma ul_add_ULI l p : ULI l -> ULI (ul_add l p).
Proof.
  intros [Hwf _]. destruct (ul_add_proj l p) as (X1 & X2 & X3 & _ & _).
  split; [exact (unext_wf l _ p Hwf X1 X2 X3)|exact (unext_slot l _ p Hwf X1 X2 X3)].
Qed.
Definition ul_adds (l : uparams) (ps : list uriparam) : uparams := fold_left ul_add ps l.

Lemma uadds_n ps : forall l, ul_n (ul_adds l ps) = ul_n l + nnat (length ps) /\ ul_vno (ul_adds l ps) = ul_vno l + nnat (length ps) /\
  length (ul_params (ul_adds l ps)) = length (ul_params l).
Proof.
  induction ps as [|p ps IH]; intros l; cbn [ul_adds fold_left length]; [unfold nnat; repeat split; lia|].
  change (fold_left ul_add ps (ul_add l p)) with (ul_adds (ul_add l p) ps). destruct (IH (ul_add l p)) as (I1 & I2 & I3).
  destruct (ul_add_proj l p) as (X1 & X2 & _ & _ & X5). rewrite I1, I2, I3, X1, X5, X2.
  split; [unfold nnat; lia|]. split; [unfold nnat; lia|]. destruct (ul_is_tmp l); [reflexivity|apply set_nth_len].
Qed.
Lemma uadds_types ps : forall l, ul_types (ul_adds l ps) = fold_left (fun a p => N.lor a (up_t p)) ps (ul_types l).
Proof.
  induction ps as [|p ps IH]; intros l; cbn [ul_adds fold_left]; [reflexivity|].
  change (fold_left ul_add ps (ul_add l p)) with (ul_adds (ul_add l p) ps). rewrite IH.
  destruct (ul_add_proj l p) as (_ & _ & _ & X4 & _). rewrite X4. reflexivity.
Qed.
Lemma uadds_keep ps : forall l j, (j < N.to_nat (ul_n l))%nat -> nth j (ul_params (ul_adds l ps)) uriparam0 = nth j (ul_params l) uriparam0.
Proof.
  induction ps as [|p ps IH]; intros l j Hj; [reflexivity|]. cbn [ul_adds fold_left].
  change (fold_left ul_add ps (ul_add l p)) with (ul_adds (ul_add l p) ps).
  destruct (ul_add_proj l p) as (X1 & X2 & _). rewrite IH by (rewrite X1; lia). rewrite X2.
  destruct (ul_is_tmp l); [reflexivity|]. apply nth_set_nth_ne. lia.
Qed.
Lemma uadds_nth ps : forall l j, (j < length ps)%nat -> (N.to_nat (ul_n l) + j < length (ul_params l))%nat ->
  nth (N.to_nat (ul_n l) + j) (ul_params (ul_adds l ps)) uriparam0 = nth j ps uriparam0.
Proof.
  induction ps as [|p ps IH]; intros l j Hj Hc; [cbn in Hj; lia|]. cbn [ul_adds fold_left].
  change (fold_left ul_add ps (ul_add l p)) with (ul_adds (ul_add l p) ps).
  destruct (ul_add_proj l p) as (X1 & X2 & _).
  assert (Ht : ul_is_tmp l = false) by (unfold ul_is_tmp, ul_cap, nnat; lia). rewrite Ht in X2.
  destruct j as [|j].
  - cbn [nth]. rewrite Nat.add_0_r in *. rewrite uadds_keep by (rewrite X1; lia). rewrite X2. apply nth_set_nth. exact Hc.
  - cbn [nth]. replace (N.to_nat (ul_n l) + S j)%nat with (N.to_nat (ul_n (ul_add l p)) + j)%nat by (rewrite X1; lia).
    apply IH; [cbn in Hj; lia|]. rewrite X1, X2, set_nth_len. lia.
Qed.

(* ---- the text of a parameter list ---------------------------------------------------------------------------------------------------- *)
Section UL.
  Variable flags0 : N.
  Notation flags := (N.lor flags0 (2 ^ bPOptParamSemiSep)).
  Notation sep := (tf_sep (tp_decode flags)).

  (* one parameter: name "=" value, both non-empty runs of plain bytes *)
  Definition ptxt := (list byte * list byte)%type.
  Definition p_ok (p : ptxt) : Prop :=
    fst p <> [] /\ Forall (plain flags) (fst p) /\ snd p <> [] /\ Forall (plain flags) (snd p).
  Definition p_bytes (p : ptxt) : list byte := fst p ++ 61 :: snd p.
  Definition p_len (p : ptxt) : N := nnat (length (p_bytes p)).
  (* the entry it is reported as, when it starts at offset i *)
  Definition p_entry (p : ptxt) (i : N) (st : tpst) : uriparam :=
    mkuriparam (mktokparam (mkpf i (p_len p)) (mkpf i (nnat (length (fst p)))) (mkpf (i + nnat (length (fst p)) + 1) (nnat (length (snd p)))) st)
               (uri_param_resolve (fst p)).
  (* the list text: parameters separated by the separator; offsets of the entries *)
  Fixpoint l_bytes (ps : list ptxt) : list byte :=
    match ps with
    | [] => []
    | [p] => p_bytes p
    | p :: ps' => p_bytes p ++ sep :: l_bytes ps'
    end.
  Fixpoint l_entries (i : N) (ps : list ptxt) : list uriparam :=
    match ps with
    | [] => []
    | [p] => [p_entry p i PFIN]
    | p :: ps' => p_entry p i PInitNxtVal :: l_entries (i + p_len p + 1) ps'
    end.

  Lemma p_head p y : p_ok p -> exists c r, p_bytes p ++ y = c :: r /\ plain flags c.
  Proof.
    intros (H1 & H2 & _). unfold p_bytes. destruct (fst p) as [|c n]; [congruence|].
    exists c, (n ++ 61 :: snd p ++ y). split; [cbn; rewrite <- app_assoc; reflexivity|]. inversion H2; assumption.
  Qed.

  (* one iteration on a parameter that is followed by the separator and another parameter *)
  Lemma ul_iter1_more p c r pre i l : p_ok p -> plain flags c -> i = nnat (length pre) -> ULI l ->
    ul_iter1 flags0 pre (p_bytes p ++ sep :: c :: r) i l
    = Next (length (p_bytes p) + 1) (ul_add l (p_entry p i PInitNxtVal)).
  Proof.
    intros (H1 & H2 & H3 & H4) Hc Hi [Hwf Hslot]. unfold ul_iter1. cbv zeta. rewrite Hslot. cbn [up_param uriparam0].
    destruct p as [nm vl]. cbn [fst snd] in *. destruct nm as [|n0 name]; [congruence|]. destruct vl as [|v0 value]; [congruence|].
    apply Forall_cons_iff in H2. destruct H2 as [Hn0 Hname]. apply Forall_cons_iff in H4. destruct H4 as [Hv0 Hvalue].
    pose proof (tp_spec_more_at flags (rev pre) n0 name v0 value c r Hn0 Hname Hv0 Hvalue Hc) as H. cbv zeta in H.
    unfold parse_tokparam in H. rewrite rev_length, <- Hi in H.
    assert (Hi' : i = nnat (length (rev pre))) by (rewrite rev_length; exact Hi).
    rewrite Hi' in H at 1. rewrite parse_at, rev_involutive, <- Hi' in H.
    unfold p_bytes. cbn [fst snd].
    repeat (rewrite <- ?app_assoc; cbn [app]). repeat (rewrite <- ?app_assoc in H; cbn [app] in H).
    match goal with |- context [run ?a ?b ?c ?d ?e ?f] => match type of H with _ = ?R => replace (run a b c d e f) with R by (symmetry; exact H) end end.
    (* the name is read back *)
    assert (Z : zget pre (n0 :: name ++ 61 :: v0 :: value ++ sep :: c :: r) i (mkpf i (nnat (length (n0 :: name)))) = Some (n0 :: name)).
    { pose proof (FLineSpec.zget_here pre (n0 :: name) (61 :: v0 :: value ++ sep :: c :: r) i Hi) as Zh. cbn [app] in Zh. exact Zh. }
    cbv beta iota. cbn [tp_name].
    match goal with |- context [zget ?a ?b ?c ?d] => replace (zget a b c d) with (Some (n0 :: name)) by (symmetry; exact Z) end.
    unfold ul_add, p_entry, p_len, p_bytes. cbn [fst snd up_t].
    f_equal; [repeat (rewrite ?app_length; cbn [length]); unfold nnat; lia|].
    repeat (rewrite ?app_length; cbn [length]).
    replace (nnat (S (length name)) + 1 + nnat (S (length value))) with (nnat (S (length name + S (S (length value))))) by (unfold nnat; lia).
    replace (i + (nnat (S (length name)) + 1)) with (i + nnat (S (length name)) + 1) by lia. reflexivity.
  Qed.

  (* the last parameter, followed by the terminator *)
  Lemma ul_iter1_last p t r pre i l : p_ok p -> is_term_c flags t = true -> i = nnat (length pre) -> ULI l ->
    ul_iter1 flags0 pre (p_bytes p ++ t :: r) i l = Ret (i + p_len p) EOk (ul_add l (p_entry p i PFIN)).
  Proof.
    intros (H1 & H2 & H3 & H4) Ht Hi [Hwf Hslot]. unfold ul_iter1. cbv zeta. rewrite Hslot. cbn [up_param uriparam0].
    destruct p as [nm vl]. cbn [fst snd] in *. destruct nm as [|n0 name]; [congruence|]. destruct vl as [|v0 value]; [congruence|].
    apply Forall_cons_iff in H2. destruct H2 as [Hn0 Hname]. apply Forall_cons_iff in H4. destruct H4 as [Hv0 Hvalue].
    pose proof (tp_spec_term_at flags (rev pre) n0 name v0 value t r Hn0 Hname Hv0 Hvalue Ht) as H. cbv zeta in H.
    unfold parse_tokparam in H. rewrite rev_length, <- Hi in H.
    assert (Hi' : i = nnat (length (rev pre))) by (rewrite rev_length; exact Hi).
    rewrite Hi' in H at 1. rewrite parse_at, rev_involutive, <- Hi' in H.
    unfold p_bytes. cbn [fst snd].
    repeat (rewrite <- ?app_assoc; cbn [app]). repeat (rewrite <- ?app_assoc in H; cbn [app] in H).
    match goal with |- context [run ?a ?b ?c ?d ?e ?f] => match type of H with _ = ?R => replace (run a b c d e f) with R by (symmetry; exact H) end end.
    assert (Z : zget pre (n0 :: name ++ 61 :: v0 :: value ++ t :: r) i (mkpf i (nnat (length (n0 :: name)))) = Some (n0 :: name)).
    { pose proof (FLineSpec.zget_here pre (n0 :: name) (61 :: v0 :: value ++ t :: r) i Hi) as Zh. cbn [app] in Zh. exact Zh. }
    cbv beta iota. cbn [tp_name].
    match goal with |- context [zget ?a ?b ?c ?d] => replace (zget a b c d) with (Some (n0 :: name)) by (symmetry; exact Z) end.
    unfold ul_add, p_entry, p_len, p_bytes. cbn [fst snd up_t].
    repeat (rewrite ?app_length; cbn [length]).
    replace (nnat (S (length name)) + 1 + nnat (S (length value))) with (nnat (S (length name + S (S (length value))))) by (unfold nnat; lia).
    replace (i + (nnat (S (length name)) + 1)) with (i + nnat (S (length name)) + 1) by lia.
    f_equal.
  Qed.

  Lemma ul_iter_noz pre rest i l k X : ul_iter1 flags0 pre rest i l = Next (S k) X -> ul_iter flags0 pre rest i l = Next (S k) X.
  Proof. intros H. unfold ul_iter. rewrite H. reflexivity. Qed.
  Lemma ul_iter_ret pre rest i l o e X : ul_iter1 flags0 pre rest i l = Ret o e X -> ul_iter flags0 pre rest i l = Ret o e X.
  Proof. intros H. unfold ul_iter. rewrite H. reflexivity. Qed.

  Lemma ulist_run ps : forall pre i l t r, ps <> [] -> Forall p_ok ps -> is_term_c flags t = true -> i = nnat (length pre) -> ULI l ->
    run (ul_iter flags0) pre (l_bytes ps ++ t :: r) i 0 l
    = Done (i + nnat (length (l_bytes ps))) EOk (ul_adds l (l_entries i ps)).
  Proof.
    induction ps as [|p ps IH]; intros pre i l t r Hne Hall Ht Hi Hl; [congruence|].
    apply Forall_cons_iff in Hall. destruct Hall as [Hp Hall].
    destruct ps as [|p2 ps].
    - (* the last parameter *)
      cbn [l_bytes l_entries ul_adds fold_left]. rewrite run_after.
      rewrite (ul_iter_ret _ _ _ _ _ _ _ (ul_iter1_last p t r pre i l Hp Ht Hi Hl)). cbn [after]. reflexivity.
    - change (l_bytes (p :: p2 :: ps)) with (p_bytes p ++ sep :: l_bytes (p2 :: ps)).
      change (l_entries i (p :: p2 :: ps)) with (p_entry p i PInitNxtVal :: l_entries (i + p_len p + 1) (p2 :: ps)).
      rewrite <- app_assoc. cbn [app].
      assert (Hp2 : p_ok p2) by (apply Forall_cons_iff in Hall; apply Hall).
      assert (Hhd : exists c y, l_bytes (p2 :: ps) ++ t :: r = c :: y /\ plain flags c).
      { destruct ps as [|p3 ps]; cbn [l_bytes]; [apply p_head; exact Hp2|]. rewrite <- app_assoc. apply p_head. exact Hp2. }
      destruct Hhd as (c & y & Ey & Hc). rewrite Ey.
      rewrite run_after.
      pose proof (ul_iter1_more p c y pre i l Hp Hc Hi Hl) as H1. rewrite Nat.add_1_r in H1.
      rewrite (ul_iter_noz _ _ _ _ _ _ H1).
      set (k := S (length (p_bytes p))).
      rewrite after_next by (try rewrite app_length; cbn [length]; lia).
      assert (Ez : zpre k pre (p_bytes p ++ sep :: c :: y) = sep :: rev (p_bytes p) ++ pre /\ zrest k (p_bytes p ++ sep :: c :: y) = c :: y).
      { unfold zpre, zrest, k. change (p_bytes p ++ sep :: c :: y) with (p_bytes p ++ [sep] ++ c :: y). rewrite app_assoc.
        replace (S (length (p_bytes p))) with (length (p_bytes p ++ [sep])) by (rewrite app_length; cbn; lia).
        rewrite firstn_app, Nat.sub_diag, firstn_all, skipn_app, Nat.sub_diag, skipn_all. cbn [firstn skipn app]. rewrite app_nil_r, rev_app_distr. cbn. auto. }
      destruct Ez as [-> ->]. rewrite <- Ey.
      rewrite (IH (sep :: rev (p_bytes p) ++ pre) (i + nnat k) (ul_add l (p_entry p i PInitNxtVal)) t r ltac:(discriminate) Hall Ht).
      + cbn [ul_adds fold_left]. unfold p_len. replace (i + nnat (length (p_bytes p)) + 1) with (i + nnat k) by (unfold k, nnat; lia).
        f_equal. rewrite app_length. cbn [length]. fold (l_bytes (p2 :: ps)). unfold k, nnat. lia.
      + cbn [length]. rewrite app_length, rev_length. unfold k, nnat in *. lia.
      + apply ul_add_ULI. exact Hl.
  Qed.

  Lemma l_entries_length ps : forall i, length (l_entries i ps) = length ps.
  Proof.
    induction ps as [|p ps IH]; intros i; [reflexivity|]. destruct ps as [|p2 ps]; [reflexivity|].
    change (l_entries i (p :: p2 :: ps)) with (p_entry p i PInitNxtVal :: l_entries (i + p_len p + 1) (p2 :: ps)).
    cbn [length]. rewrite IH. reflexivity.
  Qed.

  (* ---- the list theorem ------------------------------------------------------------------------------------------------------------ *)
  Theorem uri_params_list_spec ps (junk : list byte) t r n : ps <> [] -> Forall p_ok ps -> is_term_c flags t = true ->
    let i := nnat (length junk) in
    let es := l_entries i ps in
    exists L, parse_all_uri_params flags0 (junk ++ l_bytes ps ++ t :: r) i (uparams_init (repeat uriparam0 n))
              = Done (i + nnat (length (l_bytes ps))) EOk L /\
      ul_n L = nnat (length ps) /\ ul_vno L = nnat (length ps) /\
      ul_types L = fold_left (fun a p => N.lor a (up_t p)) es 0 /\
      (forall j, (j < length ps)%nat -> (j < n)%nat -> nth j (ul_params L) uriparam0 = nth j es uriparam0).
  Proof.
    intros Hne Hall Ht i es. set (l0 := uparams_init (repeat uriparam0 n)).
    assert (Hl0 : ULI l0).
    { unfold ULI, l0. split; [apply ul_wf_init|]. unfold ul_slot, ul_is_tmp, ul_cap, uparams_init. cbn. destruct (_ <=? 0); [reflexivity|apply nth_repeat]. }
    exists (ul_adds l0 es). unfold parse_all_uri_params.
    replace (l0 <| ul_vno := 0 |>) with l0 by reflexivity. subst i. rewrite parse_at.
    rewrite (ulist_run ps (rev junk) (nnat (length junk)) l0 t r Hne Hall Ht ltac:(now rewrite rev_length) Hl0).
    split; [reflexivity|]. fold es.
    assert (Hlen : length es = length ps) by apply l_entries_length.
    destruct (uadds_n es l0) as (A1 & A2 & A3). rewrite A1, A2, Hlen.
    split; [reflexivity|]. split; [reflexivity|]. split; [apply uadds_types|].
    intros j Hj Hjn. pose proof (uadds_nth es l0 j ltac:(lia)) as A. change (ul_n l0) with 0 in A. cbn [N.to_nat Nat.add] in A.
    apply A. unfold l0, uparams_init. cbn [ul_params]. rewrite repeat_length. exact Hjn.
  Qed.
End UL.
