(* C10: the URI port at parser level: on  "sip:" host ":" digits  ParseURI reports host and port with the
   extents of the text and a port number equal to the value of exactly those digits, or rejects the URI when
   that value exceeds 65535. *)
From Sipsp Require Import Harness IP4 Numbers.
From Coq Require Import ZifyN ZifyNat ZifyBool.
From RecordUpdate Require Import RecordUpdate.

(* a host byte: none of the delimiters the URI automaton reacts to before the port *)
Definition hostb (c : byte) : bool :=
  negb ((c =? c_at) || (c =? c_colon) || (c =? c_semi) || (c =? c_qm) || (c =? c_lbr) || (c =? c_rbr)).

Lemma loop_user (hs : list byte) : forall i l u r, ul_state l = UUser -> Forall (fun c => hostb c = true) hs ->
  uri_loop (hs ++ r) i l u = uri_loop r (i + nnat (length hs)) l u.
Proof.
  induction hs as [|c hs IH]; intros i l u r Hs Hall; [cbn; f_equal; unfold nnat; lia|].
  apply Forall_cons_iff in Hall. destruct Hall as [Hc Hall]. cbn [app uri_loop]. unfold uri_step at 1. rewrite Hs. unfold ch.
  unfold hostb in Hc. apply negb_true_iff in Hc. repeat (apply orb_false_iff in Hc; destruct Hc as [Hc ?]).
  repeat match goal with H : (c =? _) = false |- _ => rewrite H; clear H end. cbn [orb].
  rewrite IH by assumption. f_equal. cbn [length]. unfold nnat. lia.
Qed.
Lemma loop_pass0_digits (ds : list byte) : forall i l u r, ul_state l = UPass0 -> all_digits ds ->
  uri_loop (ds ++ r) i l u = uri_loop r (i + nnat (length ds)) (port_all l ds) u.
Proof.
  induction ds as [|c ds IH]; intros i l u r Hs Hd; [cbn; f_equal; unfold nnat; lia|].
  unfold all_digits in Hd. cbn in Hd. apply andb_true_iff in Hd as [Hc Hr]. cbn [app uri_loop port_all]. unfold uri_step at 1. rewrite Hs. unfold ch.
  assert (Hnd : (c =? c_at) = false /\ (c =? c_semi) = false /\ (c =? c_qm) = false)
    by (unfold is_digit, c_at, c_semi, c_qm in *; repeat split; lia).
  destruct Hnd as (E1 & E2 & E3). rewrite E1, E2, E3, Hc. cbn [orb].
  rewrite IH; [f_equal; cbn [length]; unfold nnat; lia| |exact Hr].
  unfold u_acc_port. destruct (ul_portno l <=? 65535); destruct l; exact Hs.
Qed.

Lemma port_all_keep ds : forall l, ul_state (port_all l ds) = ul_state l /\ ul_found (port_all l ds) = ul_found l /\ ul_s (port_all l ds) = ul_s l.
Proof.
  induction ds as [|c ds IH]; intros l; cbn [port_all]; [auto|]. destruct (IH (u_acc_port c l)) as (A & B & C). rewrite A, B, C.
  unfold u_acc_port. destruct (ul_portno l <=? 65535); destruct l; auto.
Qed.

Lemma step_first h0 u : hostb h0 = true ->
  uri_step h0 4 (mkuloc UInitSIP 0 false 0 0 false) u = UGo (mkuloc UUser 4 false 0 0 false) u.
Proof.
  intros Hh0. unfold uri_step. cbn [ul_state]. unfold ch.
  unfold hostb in Hh0. apply negb_true_iff in Hh0. repeat (apply orb_false_iff in Hh0; destruct Hh0 as [Hh0 ?]).
  repeat match goal with H : (h0 =? _) = false |- _ => rewrite H end. reflexivity.
Qed.
Lemma step_colon i u : 4 <= i ->
  uri_step 58 i (mkuloc UUser 4 false 0 0 false) u = UGo (mkuloc UPass0 (i + 1) false 0 0 false) (u <| u_user := mkpf 4 (i - 4) |>).
Proof.
  intros Hi. unfold uri_step. cbn [ul_state ul_s]. unfold ch. replace (58 =? c_at) with false by reflexivity. replace (58 =? c_colon) with true by reflexivity.
  unfold pf_set. replace (i <? 4) with false by lia. reflexivity.
Qed.

Theorem uri_port_spec h0 (host ds : list byte) : hostb h0 = true -> Forall (fun c => hostb c = true) host -> all_digits ds ->
  let hostt := h0 :: host in
  let raw := [115; 105; 112; 58] ++ hostt ++ 58 :: ds in
  let lh := nnat (length hostt) in
  parse_uri raw puri0 =
    if dec ds <=? 65535
    then Some (NoURIErr, nnat (length raw), mkpuri SIPuri (mkpf 0 4) pf0 pf0 (mkpf 4 lh) (mkpf (4 + lh + 1) (nnat (length ds))) pf0 pf0 (dec ds))
    else Some (ErrURIPort, nnat (length raw), mkpuri SIPuri (mkpf 0 4) (mkpf 4 lh) pf0 pf0 (mkpf (4 + lh + 1) (nnat (length ds))) pf0 pf0 0).
Proof.
  intros Hh0 Hhost Hds hostt raw lh. subst raw hostt. cbn [app]. unfold parse_uri.
  replace (eqb_bytes [lo20 115; lo20 105; lo20 112; lo20 58] [115; 105; 112; 58]) with true by reflexivity.
  cbn [skipn]. unfold pf_set. change (nnat 3 + 1) with 4. change (4 <? 0) with false. change (4 - 0) with 4. cbv beta iota.
  set (u1 := puri0 <| u_type := SIPuri |> <| u_scheme := mkpf 0 4 |>).
  cbn [uri_loop]. rewrite (step_first h0 u1 Hh0).
  rewrite (loop_user host (4 + 1) (mkuloc UUser 4 false 0 0 false) u1 _ eq_refl Hhost).
  set (i1 := 4 + 1 + nnat (length host)).
  cbn [uri_loop]. rewrite (step_colon i1 u1 ltac:(subst i1; lia)).
  set (l0 := mkuloc UPass0 (i1 + 1) false 0 0 false). set (u0 := u1 <| u_user := mkpf 4 (i1 - 4) |>).
  rewrite <- (app_nil_r ds) at 1. rewrite (loop_pass0_digits ds (i1 + 1) l0 u0 [] eq_refl Hds).
  cbn [uri_loop]. unfold uri_finish. destruct (port_all_keep ds l0) as (K1 & K2 & K3). rewrite K1, K2. cbn [ul_state ul_found l0 orb]. unfold u_endport. rewrite K3.
  unfold pf_set. replace (i1 + 1 + nnat (length ds) <? ul_s l0) with false by (cbn [ul_s l0]; lia). cbv beta iota zeta.
  pose proof (port_acc_exact ds l0 Hds ltac:(cbn; lia)) as [P1 P2]. cbn zeta in P1, P2. change (ul_portno l0) with 0 in P1, P2. fold (dec ds) in P1, P2.
  assert (Elen : nnat (length (115 :: 105 :: 112 :: 58 :: h0 :: host ++ 58 :: ds)) = i1 + 1 + nnat (length ds))
    by (cbn [length]; rewrite app_length; cbn [length]; subst i1; unfold nnat; lia).
  assert (Eh : i1 - 4 = lh) by (subst i1 lh; cbn [length]; unfold nnat; lia).
  assert (Ep : i1 + 1 = 4 + lh + 1) by (subst i1 lh; cbn [length]; unfold nnat; lia).
  destruct (dec ds <=? 65535) eqn:Ed.
  - rewrite (P1 ltac:(lia)). replace (65535 <? dec ds) with false by lia.
    subst u0 u1. cbn [ul_s l0]. rewrite Elen, Eh, Ep. replace (4 + lh + 1 + nnat (length ds) - (4 + lh + 1)) with (nnat (length ds)) by lia. reflexivity.
  - replace (65535 <? ul_portno (port_all l0 ds)) with true by (specialize (P2 ltac:(lia)); lia).
    subst u0 u1. cbn [ul_s l0]. rewrite Elen, Eh, Ep. replace (4 + lh + 1 + nnat (length ds) - (4 + lh + 1)) with (nnat (length ds)) by lia. reflexivity.
Qed.
