(* C04 continued: the multi-value lists, the header line, the header block and the message. *)
From Sipsp Require Import RunLemmas Safe SafeLeaf Harness Ext ExtLeaf ExtNameAddr ExtNested ExtLists ExtAdv OkBounds MsgBounds
  Sim Capacity SafeMore.
From Coq Require Import ZifyN ZifyNat ZifyBool.

(* ---- Contact values ------------------------------------------------------------------------------------------------ *)
(* the value in progress satisfies the name-addr invariant, with the start of the values of this
   header as the lower bound the list needs; unused array entries are fresh *)
Definition ct_inv (pre : list byte) (i : N) (c : contacts) : Prop :=
  fb_inv (po (ct_lasthval c)) pre i (ct_sel c) /\ pf_end (ct_lasthval c) <= i /\ ct_wf c.
Definition ct_P (pre rest : list byte) (i : N) (c : contacts) : Prop := i = nnat (length pre) /\ ct_inv pre i c.
Definition ct_Q (pre rest : list byte) (i o : N) (e : err) (c : contacts) : Prop :=
  o <= i + nnat (length rest) /\ pf_end (ct_lasthval c) <= i + nnat (length rest) /\
  (e = EMore -> exists k, (k <= length rest)%nat /\ o = i + nnat k /\ ct_inv (zpre k pre rest) o c) /\
  (e = EOk -> i <= o /\ forall pre', ct_inv pre' o c).
Definition ct_step_res (pre rest : list byte) (i : N) (r : ires contacts) : Prop :=
  match r with
  | Next k c' => (0 < k <= length rest)%nat /\ ct_P (zpre k pre rest) (zrest k rest) (i + nnat k) c'
  | Ret o e c' => ct_Q pre rest i o e c'
  | IPanic => False
  end.

Lemma ct_count_some c1 v : po (ct_lasthval c1) <= pf_end (fb_v v) ->
  exists c6, ct_count c1 v = Some c6 /\
    ct_lasthval c6 = (if (ct_n c1 =? 0) || pf_empty (ct_lasthval c1) then fb_v v
                      else mkpf (po (ct_lasthval c1)) (pf_end (fb_v v) - po (ct_lasthval c1))).
Proof.
  intros Hl. destruct c1 as [vals n hno mx mn lh last first]. unfold ct_count, ct_cap. cbn in *.
  destruct (n =? 0) eqn:En; cbn; rewrite ?En; cbn.
  - repeat match goal with |- context [if ?b then _ else _] => destruct b; cbn end; eexists; split; reflexivity.
  - destruct (pf_empty lh); cbn.
    + repeat match goal with |- context [if ?b then _ else _] => destruct b; cbn end; eexists; split; reflexivity.
    + rewrite pf_extend_some by exact Hl. cbn.
      repeat match goal with |- context [if ?b then _ else _] => destruct b; cbn end; eexists; split; reflexivity.
Qed.

Lemma ct_step_ok pre rest i c : ct_P pre rest i c -> ct_step_res pre rest i (ct_iter pre rest i c).
Proof.
  intros [Hi (Hfb & Hlh & Hwf)]. rewrite ct_iter_def.
  pose proof (fb_run_ok (po (ct_lasthval c)) HdrContact pre rest i (ct_sel c) (conj Hi Hfb)) as H.
  destruct (run (fb_iter HdrContact) pre rest i 0 (ct_sel c)) as [next e v| |] eqn:Er; try contradiction.
  destruct H as (H1 & H2 & H3 & H4). rewrite ct_post_eq. cbv zeta.
  pose proof (ct_store_proj c v) as (S1 & S2 & S3 & S4 & S5 & S6 & S7 & S8). unfold ct_slot_is_last in *.
  pose proof (fb_run_offsets _ _ _ _ _ _ _ _ Er) as (O1 & O2 & O3).
  (* after a finished value *)
  assert (Hcount : e = EOk \/ e = EMoreValues -> forall b : bool, b = false \/ b = (ct_cap c <=? ct_n c) ->
            match ct_count (ct_store c v) v with
            | Some c6 => forall pre', ct_inv pre' next (ct_reset_last_if b c6)
            | None => False end).
  { intros He b Hb. destruct (H4 He) as [Hio Hbv]. pose proof (fb_run_ok_parsed _ _ _ _ _ _ _ _ Er He) as Hpar.
    pose proof Hbv as (_&_&_&_&B5&_&_&_&_&_&_&B12). unfold pf_end in B5.
    assert (Hl : po (ct_lasthval c) <= po (fb_v v)) by (apply B12; unfold fb_parsed in Hpar; destruct (fb_state v); discriminate).
    destruct (ct_count_some (ct_store c v) v) as (c6 & E6 & Hlh6); [rewrite S5; unfold pf_end; lia|].
    rewrite E6. rewrite S1, S5 in Hlh6.
    pose proof E6 as E6'. apply ct_count_proj in E6' as (P1 & P2 & P3 & P4 & P5).
    destruct (reset_last_proj b c6) as (Q1 & Q2 & Q3 & Q4 & Q5 & Q6 & Q7 & Q8).
    intros pre'. unfold ct_inv. rewrite Q5.
    assert (Hcap : ct_cap (ct_store c v) = ct_cap c) by (unfold ct_cap; rewrite S7; destruct (_ <=? _); [reflexivity|now rewrite set_nth_len]).
    set (w := if b then pfrom0 else v).
    assert (Hw : (if fb_parsed w then pfrom0 else w) = pfrom0) by (subst w; destruct b; [destruct (fb_parsed pfrom0); reflexivity|now rewrite Hpar]).
    assert (HX1 : ct_n (ct_reset_last_if b c6) = ct_n c + 1) by (rewrite Q1, P2, S1; reflexivity).
    assert (HX2 : ct_vals (ct_reset_last_if b c6) = (if ct_cap c <=? ct_n c then ct_vals c else set_nth (N.to_nat (ct_n c)) v (ct_vals c))) by (rewrite Q6, P1, S7; reflexivity).
    assert (HX3 : ct_last (ct_reset_last_if b c6) = (if ct_cap c <=? ct_n c then w else ct_last c)).
    { rewrite Q8, P4, S8. subst w. destruct Hb as [->| ->]; [reflexivity|]. destruct (ct_cap c <=? ct_n c); reflexivity. }
    rewrite (next_sel c _ v w Hwf HX1 HX2 HX3 Hw). split; [|split].
    - apply pfrom0_inv. rewrite Hlh6. destruct ((ct_n c =? 0) || pf_empty (ct_lasthval c)); cbn [po]; unfold pf_end in *; lia.
    - rewrite Hlh6. destruct ((ct_n c =? 0) || pf_empty (ct_lasthval c)); unfold pf_end in *; cbn [po pl]; lia.
    - exact (next_wf c _ v w Hwf HX1 HX2 HX3). }
  destruct e.
  - (* EOk *)
    specialize (Hcount (or_introl eq_refl) false (or_introl eq_refl)).
    destruct (ct_count (ct_store c v) v) as [c6|]; [|contradiction]. cbn [ct_reset_last_if] in Hcount.
    destruct (H4 (or_introl eq_refl)) as [Hio _].
    unfold ct_step_res, ct_Q. split; [exact H1|]. split; [destruct (Hcount []) as (_ & X & _); lia|].
    split; [intros E; discriminate|intros _; split; [exact Hio|exact Hcount]].
  - unfold ct_step_res, ct_Q. split; [exact H1|]. split; [destruct (reset_last_proj (ct_cap c <=? ct_n c) (ct_store c v)) as (_&_&_&_&Q5&_); rewrite Q5, S5; lia|]. split; intros E; discriminate.
  - unfold ct_step_res, ct_Q. split; [exact H1|]. split; [destruct (reset_last_proj (ct_cap c <=? ct_n c) (ct_store c v)) as (_&_&_&_&Q5&_); rewrite Q5, S5; lia|]. split; intros E; discriminate.
  - (* EMore *)
    destruct (H3 eq_refl) as (k & Hk & Ho & Hinv').
    unfold ct_step_res, ct_Q. split; [exact H1|]. split; [rewrite S5; lia|]. split; [|intros E; discriminate].
    intros _. exists k. split; [exact Hk|]. split; [exact Ho|]. unfold ct_inv. rewrite S5.
    pose proof (fb_more_not_parsed _ _ _ _ _ _ _ Er) as Hnp.
    rewrite <- (ct_store_prep c v). change (ct_store (ct_prep c) v) with (ct_st c v). rewrite (ct_sel_store c v Hnp).
    split; [exact Hinv'|]. split; [unfold nnat in *; lia|]. unfold ct_st. rewrite ct_store_prep. apply ct_wf_store. exact Hwf.
  - (* EMoreValues *)
    specialize (Hcount (or_intror eq_refl) (ct_cap c <=? ct_n c) (or_intror eq_refl)).
    destruct (ct_count (ct_store c v) v) as [c6|]; [|contradiction].
    specialize (O3 eq_refl). unfold ct_step_res. split; [unfold nnat in *; lia|].
    replace (i + nnat (N.to_nat (next - i))) with next by (unfold nnat; lia).
    split; [unfold nnat in *; rewrite zpre_length by lia; lia|apply Hcount].
  - unfold ct_step_res, ct_Q. split; [exact H1|]. split; [destruct (reset_last_proj (ct_cap c <=? ct_n c) (ct_store c v)) as (_&_&_&_&Q5&_); rewrite Q5, S5; lia|]. split; intros E; discriminate.
  - unfold ct_step_res, ct_Q. split; [exact H1|]. split; [destruct (reset_last_proj (ct_cap c <=? ct_n c) (ct_store c v)) as (_&_&_&_&Q5&_); rewrite Q5, S5; lia|]. split; intros E; discriminate.
  - unfold ct_step_res, ct_Q. split; [exact H1|]. split; [destruct (reset_last_proj (ct_cap c <=? ct_n c) (ct_store c v)) as (_&_&_&_&Q5&_); rewrite Q5, S5; lia|]. split; intros E; discriminate.
  - unfold ct_step_res, ct_Q. split; [exact H1|]. split; [destruct (reset_last_proj (ct_cap c <=? ct_n c) (ct_store c v)) as (_&_&_&_&Q5&_); rewrite Q5, S5; lia|]. split; intros E; discriminate.
  - unfold ct_step_res, ct_Q. split; [exact H1|]. split; [destruct (reset_last_proj (ct_cap c <=? ct_n c) (ct_store c v)) as (_&_&_&_&Q5&_); rewrite Q5, S5; lia|]. split; intros E; discriminate.
  - unfold ct_step_res, ct_Q. split; [exact H1|]. split; [destruct (reset_last_proj (ct_cap c <=? ct_n c) (ct_store c v)) as (_&_&_&_&Q5&_); rewrite Q5, S5; lia|]. split; intros E; discriminate.
  - unfold ct_step_res, ct_Q. split; [exact H1|]. split; [destruct (reset_last_proj (ct_cap c <=? ct_n c) (ct_store c v)) as (_&_&_&_&Q5&_); rewrite Q5, S5; lia|]. split; intros E; discriminate.
  - unfold ct_step_res, ct_Q. split; [exact H1|]. split; [destruct (reset_last_proj (ct_cap c <=? ct_n c) (ct_store c v)) as (_&_&_&_&Q5&_); rewrite Q5, S5; lia|]. split; intros E; discriminate.
  - unfold ct_step_res, ct_Q. split; [exact H1|]. split; [destruct (reset_last_proj (ct_cap c <=? ct_n c) (ct_store c v)) as (_&_&_&_&Q5&_); rewrite Q5, S5; lia|]. split; intros E; discriminate.
  - unfold ct_step_res, ct_Q. split; [exact H1|]. split; [destruct (reset_last_proj (ct_cap c <=? ct_n c) (ct_store c v)) as (_&_&_&_&Q5&_); rewrite Q5, S5; lia|]. split; intros E; discriminate.
  - unfold ct_step_res, ct_Q. split; [exact H1|]. split; [destruct (reset_last_proj (ct_cap c <=? ct_n c) (ct_store c v)) as (_&_&_&_&Q5&_); rewrite Q5, S5; lia|]. split; intros E; discriminate.
  - unfold ct_step_res, ct_Q. split; [exact H1|]. split; [destruct (reset_last_proj (ct_cap c <=? ct_n c) (ct_store c v)) as (_&_&_&_&Q5&_); rewrite Q5, S5; lia|]. split; intros E; discriminate.
  - unfold ct_step_res, ct_Q. split; [exact H1|]. split; [destruct (reset_last_proj (ct_cap c <=? ct_n c) (ct_store c v)) as (_&_&_&_&Q5&_); rewrite Q5, S5; lia|]. split; intros E; discriminate.
Qed.

(* ---- P-Asserted-Identity values -------------------------------------------------------------------------------------- *)
Definition pa_wf (c : pais) : Prop :=
  (forall j, (N.to_nat (pa_n c) < j)%nat -> nth j (pa_vals c) pfrom0 = pfrom0) /\ (pa_n c < pa_cap c -> pa_last c = pfrom0).
Lemma pa_sel_proj c : pa_sel c =
  if pa_cap c <=? pa_n c then (if fb_parsed (pa_last c) then pfrom0 else pa_last c)
  else nth (N.to_nat (pa_n c)) (pa_vals c) pfrom0.
Proof.
  destruct c as [vals n hno lh last]. unfold pa_sel, pa_prep, pa_slot, pa_slot_is_last, pa_cap. cbn.
  destruct (nnat (length vals) <=? n) eqn:E; cbn; [|rewrite E; reflexivity].
  destruct (fb_parsed last); cbn; rewrite E; reflexivity.
Qed.
Lemma pa_store_prep l v : pa_store (pa_prep l) v = pa_store l v.
Proof.
  destruct l as [vals n hno lh last]. unfold pa_prep, pa_store, pa_slot_is_last, pa_cap. cbn.
  destruct (nnat (length vals) <=? n) eqn:El; cbn; [|rewrite El; reflexivity].
  destruct (fb_parsed last); cbn; rewrite El; reflexivity.
Qed.
Lemma pa_is_last_prep l : pa_slot_is_last (pa_prep l) = pa_slot_is_last l.
Proof.
  destruct l as [vals n hno lh last]. unfold pa_prep, pa_slot_is_last, pa_cap. cbn.
  destruct (nnat (length vals) <=? n) eqn:El; cbn; [|exact El]. destruct (fb_parsed last); cbn; exact El.
Qed.
Lemma pa_store_proj l v :
  pa_n (pa_store l v) = pa_n l /\ pa_hno (pa_store l v) = pa_hno l /\ pa_lasthval (pa_store l v) = pa_lasthval l /\
  pa_vals (pa_store l v) = (if pa_slot_is_last l then pa_vals l else set_nth (N.to_nat (pa_n l)) v (pa_vals l)) /\
  pa_last (pa_store l v) = (if pa_slot_is_last l then v else pa_last l).
Proof. unfold pa_store. destruct (pa_slot_is_last l); destruct l; cbn; repeat split; reflexivity. Qed.
Lemma pa_wf_store l v : pa_wf l -> pa_wf (pa_store l v).
Proof.
  intros [W1 W2]. destruct (pa_store_proj l v) as (S1 & _ & _ & S7 & S8). unfold pa_slot_is_last in *. split.
  - intros j Hj. rewrite S1 in Hj. rewrite S7. destruct (pa_cap l <=? pa_n l); [apply W1; exact Hj|].
    rewrite nth_set_nth_ne by lia. apply W1. exact Hj.
  - rewrite S1, S8. unfold pa_cap. rewrite S7. unfold pa_cap in *. intros H.
    destruct (nnat (length (pa_vals l)) <=? pa_n l) eqn:E; [lia|]. rewrite set_nth_len in H. apply W2. exact H.
Qed.
Lemma pa_sel_store l v : fb_parsed v = false -> pa_sel (pa_store l v) = v.
Proof.
  intros Hv. rewrite <- (pa_store_prep l v). unfold pa_sel. rewrite (pa_prep_store l v Hv). apply pa_slot_store_c.
Qed.

(* X: the list after the value v was stored in slot n of l and counted *)
Lemma pa_next_sel l X v w : pa_wf l -> pa_n X = pa_n l + 1 ->
  pa_vals X = (if pa_cap l <=? pa_n l then pa_vals l else set_nth (N.to_nat (pa_n l)) v (pa_vals l)) ->
  pa_last X = (if pa_cap l <=? pa_n l then w else pa_last l) ->
  (if fb_parsed w then pfrom0 else w) = pfrom0 -> pa_sel X = pfrom0 /\ pa_wf X.
Proof.
  intros [W1 W2] Hn Hvals Hlast Hw.
  assert (Hcap : pa_cap X = pa_cap l) by (unfold pa_cap; rewrite Hvals; destruct (_ <=? _); [reflexivity|now rewrite set_nth_len]).
  split.
  - rewrite pa_sel_proj, Hcap, Hn, Hlast, Hvals. unfold pa_cap in *.
    destruct (nnat (length (pa_vals l)) <=? pa_n l) eqn:E.
    + replace (nnat (length (pa_vals l)) <=? pa_n l + 1) with true by lia. exact Hw.
    + destruct (nnat (length (pa_vals l)) <=? pa_n l + 1) eqn:E2.
      * rewrite W2 by lia. destruct (fb_parsed pfrom0); reflexivity.
      * rewrite nth_set_nth_ne by lia. apply W1. lia.
  - split.
    + intros j Hj. rewrite Hn in Hj. rewrite Hvals. destruct (_ <=? _); [apply W1; lia|]. rewrite nth_set_nth_ne by lia. apply W1. lia.
    + rewrite Hcap, Hn, Hlast. intros H. unfold pa_cap in *. replace (nnat (length (pa_vals l)) <=? pa_n l) with false by lia. apply W2. lia.
Qed.

Definition pa_inv (pre : list byte) (i : N) (c : pais) : Prop :=
  fb_inv (po (pa_lasthval c)) pre i (pa_sel c) /\ pf_end (pa_lasthval c) <= i /\ pa_wf c.
Definition pa_P (pre rest : list byte) (i : N) (c : pais) : Prop := i = nnat (length pre) /\ pa_inv pre i c.
Definition pa_Q (pre rest : list byte) (i o : N) (e : err) (c : pais) : Prop :=
  o <= i + nnat (length rest) /\ pf_end (pa_lasthval c) <= i + nnat (length rest) /\
  (e = EMore -> exists k, (k <= length rest)%nat /\ o = i + nnat k /\ pa_inv (zpre k pre rest) o c) /\
  (e = EOk -> i <= o /\ forall pre', pa_inv pre' o c).
Definition pa_step_res (pre rest : list byte) (i : N) (r : ires pais) : Prop :=
  match r with
  | Next k c' => (0 < k <= length rest)%nat /\ pa_P (zpre k pre rest) (zrest k rest) (i + nnat k) c'
  | Ret o e c' => pa_Q pre rest i o e c'
  | IPanic => False
  end.

Lemma pa_step_ok pre rest i c : pa_P pre rest i c -> pa_step_res pre rest i (pa_iter pre rest i c).
Proof.
  intros [Hi (Hfb & Hlh & Hwf)]. rewrite pa_iter_def.
  pose proof (fb_run_ok (po (pa_lasthval c)) HdrPAI pre rest i (pa_sel c) (conj Hi Hfb)) as H.
  destruct (run (fb_iter HdrPAI) pre rest i 0 (pa_sel c)) as [next e0 v| |] eqn:Er; try contradiction.
  destruct H as (H1 & H2 & H3 & H4). unfold pa_post. cbv zeta. rewrite pa_store_prep, pa_is_last_prep.
  pose proof (pa_store_proj c v) as (S1 & S2 & S5 & S7 & S8). unfold pa_slot_is_last in *.
  pose proof (fb_run_offsets _ _ _ _ _ _ _ _ Er) as (O1 & O2 & O3).
  assert (Hweak : forall e' (b : bool), e' <> EMore -> e' <> EOk ->
            pa_step_res pre rest i (Ret next e' (pa_reset_last_if b (pa_store c v)))).
  { intros e' b N1 N2. unfold pa_step_res, pa_Q. split; [exact H1|].
    assert (R : forall (bb : bool) x, pa_lasthval (pa_reset_last_if bb x) = pa_lasthval x) by (intros [] []; reflexivity).
    split; [rewrite R, S5; lia|].
    split; intros E; congruence. }
  assert (Hcount : e0 = EOk \/ e0 = EMoreValues -> forall b : bool, b = false \/ b = (pa_cap c <=? pa_n c) ->
            match (if (pa_n (pa_store c v) =? 0) || pf_empty (pa_lasthval (pa_store c v)) then Some (fb_v v)
                   else pf_extend (pa_lasthval (pa_store c v)) (pf_end (fb_v v))) with
            | Some lh => forall pre', pa_inv pre' next (pa_reset_last_if b (pa_store c v <| pa_lasthval := lh |> <| pa_n := pa_n (pa_store c v) + 1 |>))
            | None => False end).
  { intros He b Hb. destruct (H4 He) as [Hio Hbv]. pose proof (fb_run_ok_parsed _ _ _ _ _ _ _ _ Er He) as Hpar.
    pose proof Hbv as (_&_&_&_&B5&_&_&_&_&_&_&B12). unfold pf_end in B5.
    assert (Hl : po (pa_lasthval c) <= po (fb_v v)) by (apply B12; unfold fb_parsed in Hpar; destruct (fb_state v); discriminate).
    rewrite S1, S5.
    assert (Elh : (if (pa_n c =? 0) || pf_empty (pa_lasthval c) then Some (fb_v v) else pf_extend (pa_lasthval c) (pf_end (fb_v v)))
                  = Some (if (pa_n c =? 0) || pf_empty (pa_lasthval c) then fb_v v else mkpf (po (pa_lasthval c)) (pf_end (fb_v v) - po (pa_lasthval c)))).
    { destruct ((pa_n c =? 0) || pf_empty (pa_lasthval c)); [reflexivity|]. rewrite pf_extend_some by (unfold pf_end; lia). reflexivity. }
    rewrite Elh. set (lh := if (pa_n c =? 0) || pf_empty (pa_lasthval c) then fb_v v else _).
    set (X := pa_reset_last_if b (pa_store c v <| pa_lasthval := lh |> <| pa_n := pa_n c + 1 |>)).
    set (w := if b then pfrom0 else v).
    assert (Hw : (if fb_parsed w then pfrom0 else w) = pfrom0) by (subst w; destruct b; [destruct (fb_parsed pfrom0); reflexivity|now rewrite Hpar]).
    assert (HX : pa_n X = pa_n c + 1 /\ pa_lasthval X = lh /\
                 pa_vals X = (if pa_cap c <=? pa_n c then pa_vals c else set_nth (N.to_nat (pa_n c)) v (pa_vals c)) /\
                 pa_last X = (if pa_cap c <=? pa_n c then w else pa_last c)).
    { subst X w. destruct (pa_store c v) as [vals1 n1 hno1 lh1 last1] eqn:Ec. cbn in S1, S2, S5, S7, S8. subst.
      destruct Hb as [->| ->]; cbn; [repeat split; reflexivity|]. destruct (pa_cap c <=? pa_n c); cbn; repeat split; reflexivity. }
    destruct HX as (X1 & X2 & X3 & X4). destruct (pa_next_sel c X v w Hwf X1 X3 X4 Hw) as [Hsel Hwf'].
    intros pre'. unfold pa_inv. rewrite Hsel, X2. split; [|split; [|exact Hwf']].
    - apply pfrom0_inv. subst lh. destruct ((pa_n c =? 0) || pf_empty (pa_lasthval c)); cbn [po]; unfold pf_end in *; lia.
    - subst lh. destruct ((pa_n c =? 0) || pf_empty (pa_lasthval c)); unfold pf_end in *; cbn [po pl]; lia. }
  rewrite S1 in Hcount.
  destruct e0; cbn [err_eqb err_code N.eqb Pos.eqb orb andb]; try (apply Hweak; discriminate).
  - (* EOk *)
    destruct (fb_star v); [apply Hweak; discriminate|].
    specialize (Hcount (or_introl eq_refl) false (or_introl eq_refl)). rewrite S1.
    destruct (if (pa_n c =? 0) || pf_empty (pa_lasthval (pa_store c v)) then _ else _) as [lh|]; [|contradiction].
    cbn [pa_reset_last_if] in Hcount. destruct (H4 (or_introl eq_refl)) as [Hio _].
    unfold pa_step_res, pa_Q. split; [exact H1|]. split; [destruct (Hcount []) as (_ & X & _); lia|].
    split; [intros E; discriminate|intros _; split; [exact Hio|exact Hcount]].
  - (* EMore *)
    destruct (H3 eq_refl) as (k & Hk & Ho & Hinv').
    unfold pa_step_res, pa_Q. split; [exact H1|]. split; [rewrite S5; lia|]. split; [|intros E; discriminate].
    intros _. exists k. split; [exact Hk|]. split; [exact Ho|]. unfold pa_inv. rewrite S5.
    pose proof (fb_more_not_parsed _ _ _ _ _ _ _ Er) as Hnp. rewrite (pa_sel_store c v Hnp).
    split; [exact Hinv'|]. split; [unfold nnat in *; lia|apply pa_wf_store; exact Hwf].
  - (* EMoreValues *)
    destruct (fb_star v); [apply Hweak; discriminate|].
    specialize (Hcount (or_intror eq_refl) (pa_cap c <=? pa_n c) (or_intror eq_refl)). rewrite S1.
    destruct (if (pa_n c =? 0) || pf_empty (pa_lasthval (pa_store c v)) then _ else _) as [lh|]; [|contradiction].
    specialize (O3 eq_refl). unfold pa_step_res. split; [unfold nnat in *; lia|].
    replace (i + nnat (N.to_nat (next - i))) with next by (unfold nnat; lia).
    split; [unfold nnat in *; rewrite zpre_length by lia; lia|apply Hcount].
Qed.

(* ---- from the step lemma to the exported call and back to a run at an outer zipper ---------------------------------- *)
Section RunLevel.
  Context {St : Type}.
  Variable iter : list byte -> list byte -> N -> St -> ires St.
  Variable Inv : list byte -> N -> St -> Prop.          (* holds between calls *)
  Variable W : N -> err -> St -> Prop.                    (* holds of every result, relative to the end of the buffer *)
  Variable Ok : N -> St -> Prop.                          (* holds of a successful result, at the returned offset *)
  Definition rl_Q (pre rest : list byte) (i o : N) (e : err) (s : St) : Prop :=
    o <= i + nnat (length rest) /\ W (i + nnat (length rest)) e s /\
    (e = EMore -> exists k, (k <= length rest)%nat /\ o = i + nnat k /\ Inv (zpre k pre rest) o s) /\
    (e = EOk -> i <= o /\ Ok o s).
  Hypothesis step_ok : forall pre rest i s, i = nnat (length pre) -> Inv pre i s ->
    match iter pre rest i s with
    | Next k s' => (0 < k <= length rest)%nat /\ Inv (zpre k pre rest) (i + nnat k) s'
    | Ret o e s' => rl_Q pre rest i o e s'
    | IPanic => False
    end.

  Theorem rl_parse buf offs s : offs <= nnat (length buf) -> Inv (rev (firstn (N.to_nat offs) buf)) offs s ->
    match parse iter buf offs s with
    | Done o e s' => o <= nnat (length buf) /\ W (nnat (length buf)) e s' /\
                     (e = EMore -> offs <= o /\ Inv (rev (firstn (N.to_nat o) buf)) o s') /\
                     (e = EOk -> offs <= o /\ Ok o s')
    | _ => False
    end.
  Proof.
    intros Hoffs Hinv. unfold parse, zinit.
    pose proof (run_safe iter (fun pre rest i s => i = nnat (length pre) /\ Inv pre i s /\ offs <= i)
                  (fun pre rest i o e s => rl_Q pre rest i o e s /\ offs <= i /\ i = nnat (length pre))) as H.
    assert (G : forall pre rest i s0, i = nnat (length pre) /\ Inv pre i s0 /\ offs <= i ->
              match iter pre rest i s0 with
              | Next k s' => (0 < k <= length rest)%nat /\ (i + nnat k = nnat (length (zpre k pre rest)) /\ Inv (zpre k pre rest) (i + nnat k) s' /\ offs <= i + nnat k)
              | Ret o e s' => rl_Q pre rest i o e s' /\ offs <= i /\ i = nnat (length pre)
              | IPanic => False end).
    { intros pre rest i s0 (Hi & HI & Ho). pose proof (step_ok pre rest i s0 Hi HI) as X.
      destruct (iter pre rest i s0); auto.
      destruct X as [X1 X2]. split; [exact X1|]. split; [unfold nnat in *; rewrite zpre_length by lia; lia|]. split; [exact X2|unfold nnat; lia]. }
    specialize (H G (skipn (N.to_nat offs) buf) (rev (firstn (N.to_nat offs) buf)) offs s).
    assert (H0 : offs = nnat (length (rev (firstn (N.to_nat offs) buf))) /\ Inv (rev (firstn (N.to_nat offs) buf)) offs s /\ offs <= offs).
    { split; [rewrite rev_length, firstn_length; unfold nnat in *; lia|]. split; [exact Hinv|lia]. }
    specialize (H H0).
    destruct (run iter _ _ offs 0 s) as [o e s'| |]; auto.
    destruct H as (p' & r' & i' & ((H1 & H2 & H3 & H4) & Hio & Hi') & Hw).
    rewrite zinit_whole in Hw. pose proof Hw as Hw2. apply (f_equal (@length _)) in Hw2. rewrite app_length, rev_length in Hw2.
    assert (E : i' + nnat (length r') = nnat (length buf)) by (unfold nnat in *; lia).
    rewrite E in *. split; [exact H1|]. split; [exact H2|]. split.
    - intros He. destruct (H3 He) as (k & Hk & Ho & Hinv'). split; [unfold nnat in *; lia|].
      rewrite (zpre_whole_prefix p' r' k buf Hw Hk) in Hinv'.
      replace (N.to_nat o) with (length p' + k)%nat by (unfold nnat in *; lia). exact Hinv'.
    - intros He. destruct (H4 He). split; [lia|assumption].
  Qed.

  Theorem rl_run pre rest i s : i = nnat (length pre) -> Inv pre i s ->
    match run iter pre rest i 0 s with
    | Done o e s' => rl_Q pre rest i o e s'
    | _ => False
    end.
  Proof.
    intros Hi Hinv. rewrite (run_as_parse iter pre rest i s Hi).
    pose proof (rl_parse (rev pre ++ rest) i s) as H.
    assert (Hlen : nnat (length (rev pre ++ rest)) = i + nnat (length rest)) by (rewrite app_length, rev_length; unfold nnat in *; lia).
    rewrite Hlen in H.
    assert (Hpre : rev (firstn (N.to_nat i) (rev pre ++ rest)) = pre).
    { subst i. unfold nnat. rewrite Nat2N.id, firstn_app, rev_length, Nat.sub_diag. cbn [firstn]. rewrite app_nil_r.
      rewrite firstn_all2 by (rewrite rev_length; lia). apply rev_involutive. }
    rewrite Hpre in H. specialize (H ltac:(lia) Hinv).
    destruct (parse iter (rev pre ++ rest) i s) as [o e s'| |]; auto.
    destruct H as (H1 & H2 & H3 & H4). unfold rl_Q. split; [exact H1|]. split; [exact H2|]. split; [|exact H4].
    intros He. destruct (H3 He) as [Ho Hinv']. exists (N.to_nat (o - i)). split; [unfold nnat in *; lia|]. split; [unfold nnat; lia|].
    rewrite (zpre_whole_prefix pre rest (N.to_nat (o - i)) (rev pre ++ rest) eq_refl) by (unfold nnat in *; lia).
    replace (length pre + N.to_nat (o - i))%nat with (N.to_nat o) by (unfold nnat in *; lia). exact Hinv'.
  Qed.
End RunLevel.
