(* C04 continued: the multi-value lists, the header line, the header block and the message. *)
From Sipsp Require Import RunLemmas Safe SafeLeaf Harness Ext ExtLeaf ExtNameAddr ExtNested ExtLists ExtAdv OkBounds MsgBounds
  Sim Capacity SafeMore ExtCSeq ExtFLine ExtHdrLine HdrLineBounds ExtHeaders CapHeaders Framing.
From Coq Require Import ZifyN ZifyNat ZifyBool.

(* ---- Contact values ------------------------------------------------------------------------------------------------ *)
(* the value in progress satisfies the name-addr invariant, with the start of the values of this
   header as the lower bound the list needs; unused array entries are fresh *)
Definition ct_inv (pre : list byte) (i : N) (c : contacts) : Prop :=
  fb_inv (po (ct_lasthval c)) pre i (ct_sel c) /\ pf_end (ct_lasthval c) <= i /\ ct_wf c.
Definition ct_P (pre rest : list byte) (i : N) (c : contacts) : Prop := i = nnat (length pre) /\ ct_inv pre i c.
Definition ct_Q (pre rest : list byte) (i o : N) (e : err) (c : contacts) : Prop :=
  o <= i + nnat (length rest) /\ pf_end (ct_lasthval c) <= i + nnat (length rest) /\
  (e = EMore -> exists k, (k <= length rest)%nat /\ o = i + nnat k /\ ct_inv (zpre k pre rest) o c) /\
  (e = EOk -> i <= o /\ forall pre', ct_inv pre' o c).
Definition ct_step_res (pre rest : list byte) (i : N) (r : ires contacts) : Prop :=
  match r with
  | Next k c' => (0 < k <= length rest)%nat /\ ct_P (zpre k pre rest) (zrest k rest) (i + nnat k) c'
  | Ret o e c' => ct_Q pre rest i o e c'
  | IPanic => False
  end.

Lemma ct_count_some c1 v : po (ct_lasthval c1) <= pf_end (fb_v v) ->
  exists c6, ct_count c1 v = Some c6 /\
    ct_lasthval c6 = (if (ct_n c1 =? 0) || pf_empty (ct_lasthval c1) then fb_v v
                      else mkpf (po (ct_lasthval c1)) (pf_end (fb_v v) - po (ct_lasthval c1))).
Proof.
  intros Hl. destruct c1 as [vals n hno mx mn lh last first]. unfold ct_count, ct_cap. cbn in *.
  destruct (n =? 0) eqn:En; cbn; rewrite ?En; cbn.
  - repeat match goal with |- context [if ?b then _ else _] => destruct b; cbn end; eexists; split; reflexivity.
  - destruct (pf_empty lh); cbn.
    + repeat match goal with |- context [if ?b then _ else _] => destruct b; cbn end; eexists; split; reflexivity.
    + rewrite pf_extend_some by exact Hl. cbn.
      repeat match goal with |- context [if ?b then _ else _] => destruct b; cbn end; eexists; split; reflexivity.
Qed.

Lemma ct_step_ok pre rest i c : ct_P pre rest i c -> ct_step_res pre rest i (ct_iter pre rest i c).
Proof.
  intros [Hi (Hfb & Hlh & Hwf)]. rewrite ct_iter_def.
  pose proof (fb_run_ok (po (ct_lasthval c)) HdrContact pre rest i (ct_sel c) (conj Hi Hfb)) as H.
  destruct (run (fb_iter HdrContact) pre rest i 0 (ct_sel c)) as [next e v| |] eqn:Er; try contradiction.
  destruct H as (H1 & H2 & H3 & H4). rewrite ct_post_eq. cbv zeta.
  pose proof (ct_store_proj c v) as (S1 & S2 & S3 & S4 & S5 & S6 & S7 & S8). unfold ct_slot_is_last in *.
  pose proof (fb_run_offsets _ _ _ _ _ _ _ _ Er) as (O1 & O2 & O3).
  (* after a finished value *)
  assert (Hcount : e = EOk \/ e = EMoreValues -> forall b : bool, b = false \/ b = (ct_cap c <=? ct_n c) ->
            match ct_count (ct_store c v) v with
            | Some c6 => forall pre', ct_inv pre' next (ct_reset_last_if b c6)
            | None => False end).
  { intros He b Hb. destruct (H4 He) as [Hio Hbv]. pose proof (fb_run_ok_parsed _ _ _ _ _ _ _ _ Er He) as Hpar.
    pose proof Hbv as (_&_&_&_&B5&_&_&_&_&_&_&B12). unfold pf_end in B5.
    assert (Hl : po (ct_lasthval c) <= po (fb_v v)) by (apply B12; unfold fb_parsed in Hpar; destruct (fb_state v); discriminate).
    destruct (ct_count_some (ct_store c v) v) as (c6 & E6 & Hlh6); [rewrite S5; unfold pf_end; lia|].
    rewrite E6. rewrite S1, S5 in Hlh6.
    pose proof E6 as E6'. apply ct_count_proj in E6' as (P1 & P2 & P3 & P4 & P5).
    destruct (reset_last_proj b c6) as (Q1 & Q2 & Q3 & Q4 & Q5 & Q6 & Q7 & Q8).
    intros pre'. unfold ct_inv. rewrite Q5.
    assert (Hcap : ct_cap (ct_store c v) = ct_cap c) by (unfold ct_cap; rewrite S7; destruct (_ <=? _); [reflexivity|now rewrite set_nth_len]).
    set (w := if b then pfrom0 else v).
    assert (Hw : (if fb_parsed w then pfrom0 else w) = pfrom0) by (subst w; destruct b; [destruct (fb_parsed pfrom0); reflexivity|now rewrite Hpar]).
    assert (HX1 : ct_n (ct_reset_last_if b c6) = ct_n c + 1) by (rewrite Q1, P2, S1; reflexivity).
    assert (HX2 : ct_vals (ct_reset_last_if b c6) = (if ct_cap c <=? ct_n c then ct_vals c else set_nth (N.to_nat (ct_n c)) v (ct_vals c))) by (rewrite Q6, P1, S7; reflexivity).
    assert (HX3 : ct_last (ct_reset_last_if b c6) = (if ct_cap c <=? ct_n c then w else ct_last c)).
    { rewrite Q8, P4, S8. subst w. destruct Hb as [->| ->]; [reflexivity|]. destruct (ct_cap c <=? ct_n c); reflexivity. }
    rewrite (next_sel c _ v w Hwf HX1 HX2 HX3 Hw). split; [|split].
    - apply pfrom0_inv. rewrite Hlh6. destruct ((ct_n c =? 0) || pf_empty (ct_lasthval c)); cbn [po]; unfold pf_end in *; lia.
    - rewrite Hlh6. destruct ((ct_n c =? 0) || pf_empty (ct_lasthval c)); unfold pf_end in *; cbn [po pl]; lia.
    - exact (next_wf c _ v w Hwf HX1 HX2 HX3). }
  destruct e.
  - (* EOk *)
    specialize (Hcount (or_introl eq_refl) false (or_introl eq_refl)).
    destruct (ct_count (ct_store c v) v) as [c6|]; [|contradiction]. cbn [ct_reset_last_if] in Hcount.
    destruct (H4 (or_introl eq_refl)) as [Hio _].
    unfold ct_step_res, ct_Q. split; [exact H1|]. split; [destruct (Hcount []) as (_ & X & _); lia|].
    split; [intros E; discriminate|intros _; split; [exact Hio|exact Hcount]].
  - unfold ct_step_res, ct_Q. split; [exact H1|]. split; [destruct (reset_last_proj (ct_cap c <=? ct_n c) (ct_store c v)) as (_&_&_&_&Q5&_); rewrite Q5, S5; lia|]. split; intros E; discriminate.
  - unfold ct_step_res, ct_Q. split; [exact H1|]. split; [destruct (reset_last_proj (ct_cap c <=? ct_n c) (ct_store c v)) as (_&_&_&_&Q5&_); rewrite Q5, S5; lia|]. split; intros E; discriminate.
  - (* EMore *)
    destruct (H3 eq_refl) as (k & Hk & Ho & Hinv').
    unfold ct_step_res, ct_Q. split; [exact H1|]. split; [rewrite S5; lia|]. split; [|intros E; discriminate].
    intros _. exists k. split; [exact Hk|]. split; [exact Ho|]. unfold ct_inv. rewrite S5.
    pose proof (fb_more_not_parsed _ _ _ _ _ _ _ Er) as Hnp.
    rewrite <- (ct_store_prep c v). change (ct_store (ct_prep c) v) with (ct_st c v). rewrite (ct_sel_store c v Hnp).
    split; [exact Hinv'|]. split; [unfold nnat in *; lia|]. unfold ct_st. rewrite ct_store_prep. apply ct_wf_store. exact Hwf.
  - (* EMoreValues *)
    specialize (Hcount (or_intror eq_refl) (ct_cap c <=? ct_n c) (or_intror eq_refl)).
    destruct (ct_count (ct_store c v) v) as [c6|]; [|contradiction].
    specialize (O3 eq_refl). unfold ct_step_res. split; [unfold nnat in *; lia|].
    replace (i + nnat (N.to_nat (next - i))) with next by (unfold nnat; lia).
    split; [unfold nnat in *; rewrite zpre_length by lia; lia|apply Hcount].
  - unfold ct_step_res, ct_Q. split; [exact H1|]. split; [destruct (reset_last_proj (ct_cap c <=? ct_n c) (ct_store c v)) as (_&_&_&_&Q5&_); rewrite Q5, S5; lia|]. split; intros E; discriminate.
  - unfold ct_step_res, ct_Q. split; [exact H1|]. split; [destruct (reset_last_proj (ct_cap c <=? ct_n c) (ct_store c v)) as (_&_&_&_&Q5&_); rewrite Q5, S5; lia|]. split; intros E; discriminate.
  - unfold ct_step_res, ct_Q. split; [exact H1|]. split; [destruct (reset_last_proj (ct_cap c <=? ct_n c) (ct_store c v)) as (_&_&_&_&Q5&_); rewrite Q5, S5; lia|]. split; intros E; discriminate.
  - unfold ct_step_res, ct_Q. split; [exact H1|]. split; [destruct (reset_last_proj (ct_cap c <=? ct_n c) (ct_store c v)) as (_&_&_&_&Q5&_); rewrite Q5, S5; lia|]. split; intros E; discriminate.
  - unfold ct_step_res, ct_Q. split; [exact H1|]. split; [destruct (reset_last_proj (ct_cap c <=? ct_n c) (ct_store c v)) as (_&_&_&_&Q5&_); rewrite Q5, S5; lia|]. split; intros E; discriminate.
  - unfold ct_step_res, ct_Q. split; [exact H1|]. split; [destruct (reset_last_proj (ct_cap c <=? ct_n c) (ct_store c v)) as (_&_&_&_&Q5&_); rewrite Q5, S5; lia|]. split; intros E; discriminate.
  - unfold ct_step_res, ct_Q. split; [exact H1|]. split; [destruct (reset_last_proj (ct_cap c <=? ct_n c) (ct_store c v)) as (_&_&_&_&Q5&_); rewrite Q5, S5; lia|]. split; intros E; discriminate.
  - unfold ct_step_res, ct_Q. split; [exact H1|]. split; [destruct (reset_last_proj (ct_cap c <=? ct_n c) (ct_store c v)) as (_&_&_&_&Q5&_); rewrite Q5, S5; lia|]. split; intros E; discriminate.
  - unfold ct_step_res, ct_Q. split; [exact H1|]. split; [destruct (reset_last_proj (ct_cap c <=? ct_n c) (ct_store c v)) as (_&_&_&_&Q5&_); rewrite Q5, S5; lia|]. split; intros E; discriminate.
  - unfold ct_step_res, ct_Q. split; [exact H1|]. split; [destruct (reset_last_proj (ct_cap c <=? ct_n c) (ct_store c v)) as (_&_&_&_&Q5&_); rewrite Q5, S5; lia|]. split; intros E; discriminate.
  - unfold ct_step_res, ct_Q. split; [exact H1|]. split; [destruct (reset_last_proj (ct_cap c <=? ct_n c) (ct_store c v)) as (_&_&_&_&Q5&_); rewrite Q5, S5; lia|]. split; intros E; discriminate.
  - unfold ct_step_res, ct_Q. split; [exact H1|]. split; [destruct (reset_last_proj (ct_cap c <=? ct_n c) (ct_store c v)) as (_&_&_&_&Q5&_); rewrite Q5, S5; lia|]. split; intros E; discriminate.
  - unfold ct_step_res, ct_Q. split; [exact H1|]. split; [destruct (reset_last_proj (ct_cap c <=? ct_n c) (ct_store c v)) as (_&_&_&_&Q5&_); rewrite Q5, S5; lia|]. split; intros E; discriminate.
Qed.

(* ---- P-Asserted-Identity values -------------------------------------------------------------------------------------- *)
Definition pa_wf (c : pais) : Prop :=
  (forall j, (N.to_nat (pa_n c) < j)%nat -> nth j (pa_vals c) pfrom0 = pfrom0) /\ (pa_n c < pa_cap c -> pa_last c = pfrom0).
Lemma pa_sel_proj c : pa_sel c =
  if pa_cap c <=? pa_n c then (if fb_parsed (pa_last c) then pfrom0 else pa_last c)
  else nth (N.to_nat (pa_n c)) (pa_vals c) pfrom0.
Proof.
  destruct c as [vals n hno lh last]. unfold pa_sel, pa_prep, pa_slot, pa_slot_is_last, pa_cap. cbn.
  destruct (nnat (length vals) <=? n) eqn:E; cbn; [|rewrite E; reflexivity].
  destruct (fb_parsed last); cbn; rewrite E; reflexivity.
Qed.
Lemma pa_store_prep l v : pa_store (pa_prep l) v = pa_store l v.
Proof.
  destruct l as [vals n hno lh last]. unfold pa_prep, pa_store, pa_slot_is_last, pa_cap. cbn.
  destruct (nnat (length vals) <=? n) eqn:El; cbn; [|rewrite El; reflexivity].
  destruct (fb_parsed last); cbn; rewrite El; reflexivity.
Qed.
Lemma pa_is_last_prep l : pa_slot_is_last (pa_prep l) = pa_slot_is_last l.
Proof.
  destruct l as [vals n hno lh last]. unfold pa_prep, pa_slot_is_last, pa_cap. cbn.
  destruct (nnat (length vals) <=? n) eqn:El; cbn; [|exact El]. destruct (fb_parsed last); cbn; exact El.
Qed.
Lemma pa_store_proj l v :
  pa_n (pa_store l v) = pa_n l /\ pa_hno (pa_store l v) = pa_hno l /\ pa_lasthval (pa_store l v) = pa_lasthval l /\
  pa_vals (pa_store l v) = (if pa_slot_is_last l then pa_vals l else set_nth (N.to_nat (pa_n l)) v (pa_vals l)) /\
  pa_last (pa_store l v) = (if pa_slot_is_last l then v else pa_last l).
Proof. unfold pa_store. destruct (pa_slot_is_last l); destruct l; cbn; repeat split; reflexivity. Qed.
Lemma pa_wf_store l v : pa_wf l -> pa_wf (pa_store l v).
Proof.
  intros [W1 W2]. destruct (pa_store_proj l v) as (S1 & _ & _ & S7 & S8). unfold pa_slot_is_last in *. split.
  - intros j Hj. rewrite S1 in Hj. rewrite S7. destruct (pa_cap l <=? pa_n l); [apply W1; exact Hj|].
    rewrite nth_set_nth_ne by lia. apply W1. exact Hj.
  - rewrite S1, S8. unfold pa_cap. rewrite S7. unfold pa_cap in *. intros H.
    destruct (nnat (length (pa_vals l)) <=? pa_n l) eqn:E; [lia|]. rewrite set_nth_len in H. apply W2. exact H.
Qed.
Lemma pa_sel_store l v : fb_parsed v = false -> pa_sel (pa_store l v) = v.
Proof.
  intros Hv. rewrite <- (pa_store_prep l v). unfold pa_sel. rewrite (pa_prep_store l v Hv). apply pa_slot_store_c.
Qed.

(* X: the list after the value v was stored in slot n of l and counted *)
Lemma pa_next_sel l X v w : pa_wf l -> pa_n X = pa_n l + 1 ->
  pa_vals X = (if pa_cap l <=? pa_n l then pa_vals l else set_nth (N.to_nat (pa_n l)) v (pa_vals l)) ->
  pa_last X = (if pa_cap l <=? pa_n l then w else pa_last l) ->
  (if fb_parsed w then pfrom0 else w) = pfrom0 -> pa_sel X = pfrom0 /\ pa_wf X.
Proof.
  intros [W1 W2] Hn Hvals Hlast Hw.
  assert (Hcap : pa_cap X = pa_cap l) by (unfold pa_cap; rewrite Hvals; destruct (_ <=? _); [reflexivity|now rewrite set_nth_len]).
  split.
  - rewrite pa_sel_proj, Hcap, Hn, Hlast, Hvals. unfold pa_cap in *.
    destruct (nnat (length (pa_vals l)) <=? pa_n l) eqn:E.
    + replace (nnat (length (pa_vals l)) <=? pa_n l + 1) with true by lia. exact Hw.
    + destruct (nnat (length (pa_vals l)) <=? pa_n l + 1) eqn:E2.
      * rewrite W2 by lia. destruct (fb_parsed pfrom0); reflexivity.
      * rewrite nth_set_nth_ne by lia. apply W1. lia.
  - split.
    + intros j Hj. rewrite Hn in Hj. rewrite Hvals. destruct (_ <=? _); [apply W1; lia|]. rewrite nth_set_nth_ne by lia. apply W1. lia.
    + rewrite Hcap, Hn, Hlast. intros H. unfold pa_cap in *. replace (nnat (length (pa_vals l)) <=? pa_n l) with false by lia. apply W2. lia.
Qed.

Definition pa_inv (pre : list byte) (i : N) (c : pais) : Prop :=
  fb_inv (po (pa_lasthval c)) pre i (pa_sel c) /\ pf_end (pa_lasthval c) <= i /\ pa_wf c.
Definition pa_P (pre rest : list byte) (i : N) (c : pais) : Prop := i = nnat (length pre) /\ pa_inv pre i c.
Definition pa_Q (pre rest : list byte) (i o : N) (e : err) (c : pais) : Prop :=
  o <= i + nnat (length rest) /\ pf_end (pa_lasthval c) <= i + nnat (length rest) /\
  (e = EMore -> exists k, (k <= length rest)%nat /\ o = i + nnat k /\ pa_inv (zpre k pre rest) o c) /\
  (e = EOk -> i <= o /\ forall pre', pa_inv pre' o c).
Definition pa_step_res (pre rest : list byte) (i : N) (r : ires pais) : Prop :=
  match r with
  | Next k c' => (0 < k <= length rest)%nat /\ pa_P (zpre k pre rest) (zrest k rest) (i + nnat k) c'
  | Ret o e c' => pa_Q pre rest i o e c'
  | IPanic => False
  end.

Lemma pa_step_ok pre rest i c : pa_P pre rest i c -> pa_step_res pre rest i (pa_iter pre rest i c).
Proof.
  intros [Hi (Hfb & Hlh & Hwf)]. rewrite pa_iter_def.
  pose proof (fb_run_ok (po (pa_lasthval c)) HdrPAI pre rest i (pa_sel c) (conj Hi Hfb)) as H.
  destruct (run (fb_iter HdrPAI) pre rest i 0 (pa_sel c)) as [next e0 v| |] eqn:Er; try contradiction.
  destruct H as (H1 & H2 & H3 & H4). unfold pa_post. cbv zeta. rewrite pa_store_prep, pa_is_last_prep.
  pose proof (pa_store_proj c v) as (S1 & S2 & S5 & S7 & S8). unfold pa_slot_is_last in *.
  pose proof (fb_run_offsets _ _ _ _ _ _ _ _ Er) as (O1 & O2 & O3).
  assert (Hweak : forall e' (b : bool), e' <> EMore -> e' <> EOk ->
            pa_step_res pre rest i (Ret next e' (pa_reset_last_if b (pa_store c v)))).
  { intros e' b N1 N2. unfold pa_step_res, pa_Q. split; [exact H1|].
    assert (R : forall (bb : bool) x, pa_lasthval (pa_reset_last_if bb x) = pa_lasthval x) by (intros [] []; reflexivity).
    split; [rewrite R, S5; lia|].
    split; intros E; congruence. }
  assert (Hcount : e0 = EOk \/ e0 = EMoreValues -> forall b : bool, b = false \/ b = (pa_cap c <=? pa_n c) ->
            match (if (pa_n (pa_store c v) =? 0) || pf_empty (pa_lasthval (pa_store c v)) then Some (fb_v v)
                   else pf_extend (pa_lasthval (pa_store c v)) (pf_end (fb_v v))) with
            | Some lh => forall pre', pa_inv pre' next (pa_reset_last_if b (pa_store c v <| pa_lasthval := lh |> <| pa_n := pa_n (pa_store c v) + 1 |>))
            | None => False end).
  { intros He b Hb. destruct (H4 He) as [Hio Hbv]. pose proof (fb_run_ok_parsed _ _ _ _ _ _ _ _ Er He) as Hpar.
    pose proof Hbv as (_&_&_&_&B5&_&_&_&_&_&_&B12). unfold pf_end in B5.
    assert (Hl : po (pa_lasthval c) <= po (fb_v v)) by (apply B12; unfold fb_parsed in Hpar; destruct (fb_state v); discriminate).
    rewrite S1, S5.
    assert (Elh : (if (pa_n c =? 0) || pf_empty (pa_lasthval c) then Some (fb_v v) else pf_extend (pa_lasthval c) (pf_end (fb_v v)))
                  = Some (if (pa_n c =? 0) || pf_empty (pa_lasthval c) then fb_v v else mkpf (po (pa_lasthval c)) (pf_end (fb_v v) - po (pa_lasthval c)))).
    { destruct ((pa_n c =? 0) || pf_empty (pa_lasthval c)); [reflexivity|]. rewrite pf_extend_some by (unfold pf_end; lia). reflexivity. }
    rewrite Elh. set (lh := if (pa_n c =? 0) || pf_empty (pa_lasthval c) then fb_v v else _).
    set (X := pa_reset_last_if b (pa_store c v <| pa_lasthval := lh |> <| pa_n := pa_n c + 1 |>)).
    set (w := if b then pfrom0 else v).
    assert (Hw : (if fb_parsed w then pfrom0 else w) = pfrom0) by (subst w; destruct b; [destruct (fb_parsed pfrom0); reflexivity|now rewrite Hpar]).
    assert (HX : pa_n X = pa_n c + 1 /\ pa_lasthval X = lh /\
                 pa_vals X = (if pa_cap c <=? pa_n c then pa_vals c else set_nth (N.to_nat (pa_n c)) v (pa_vals c)) /\
                 pa_last X = (if pa_cap c <=? pa_n c then w else pa_last c)).
    { subst X w. destruct (pa_store c v) as [vals1 n1 hno1 lh1 last1] eqn:Ec. cbn in S1, S2, S5, S7, S8. subst.
      destruct Hb as [->| ->]; cbn; [repeat split; reflexivity|]. destruct (pa_cap c <=? pa_n c); cbn; repeat split; reflexivity. }
    destruct HX as (X1 & X2 & X3 & X4). destruct (pa_next_sel c X v w Hwf X1 X3 X4 Hw) as [Hsel Hwf'].
    intros pre'. unfold pa_inv. rewrite Hsel, X2. split; [|split; [|exact Hwf']].
    - apply pfrom0_inv. subst lh. destruct ((pa_n c =? 0) || pf_empty (pa_lasthval c)); cbn [po]; unfold pf_end in *; lia.
    - subst lh. destruct ((pa_n c =? 0) || pf_empty (pa_lasthval c)); unfold pf_end in *; cbn [po pl]; lia. }
  rewrite S1 in Hcount.
  destruct e0; cbn [err_eqb err_code N.eqb Pos.eqb orb andb]; try (apply Hweak; discriminate).
  - (* EOk *)
    destruct (fb_star v); [apply Hweak; discriminate|].
    specialize (Hcount (or_introl eq_refl) false (or_introl eq_refl)). rewrite S1.
    destruct (if (pa_n c =? 0) || pf_empty (pa_lasthval (pa_store c v)) then _ else _) as [lh|]; [|contradiction].
    cbn [pa_reset_last_if] in Hcount. destruct (H4 (or_introl eq_refl)) as [Hio _].
    unfold pa_step_res, pa_Q. split; [exact H1|]. split; [destruct (Hcount []) as (_ & X & _); lia|].
    split; [intros E; discriminate|intros _; split; [exact Hio|exact Hcount]].
  - (* EMore *)
    destruct (H3 eq_refl) as (k & Hk & Ho & Hinv').
    unfold pa_step_res, pa_Q. split; [exact H1|]. split; [rewrite S5; lia|]. split; [|intros E; discriminate].
    intros _. exists k. split; [exact Hk|]. split; [exact Ho|]. unfold pa_inv. rewrite S5.
    pose proof (fb_more_not_parsed _ _ _ _ _ _ _ Er) as Hnp. rewrite (pa_sel_store c v Hnp).
    split; [exact Hinv'|]. split; [unfold nnat in *; lia|apply pa_wf_store; exact Hwf].
  - (* EMoreValues *)
    destruct (fb_star v); [apply Hweak; discriminate|].
    specialize (Hcount (or_intror eq_refl) (pa_cap c <=? pa_n c) (or_intror eq_refl)). rewrite S1.
    destruct (if (pa_n c =? 0) || pf_empty (pa_lasthval (pa_store c v)) then _ else _) as [lh|]; [|contradiction].
    specialize (O3 eq_refl). unfold pa_step_res. split; [unfold nnat in *; lia|].
    replace (i + nnat (N.to_nat (next - i))) with next by (unfold nnat; lia).
    split; [unfold nnat in *; rewrite zpre_length by lia; lia|apply Hcount].
Qed.

(* ---- from the step lemma to the exported call and back to a run at an outer zipper ---------------------------------- *)
Section RunLevel.
  Context {St : Type}.
  Variable iter : list byte -> list byte -> N -> St -> ires St.
  Variable Inv : list byte -> N -> St -> Prop.          (* holds between calls *)
  Variable W : N -> err -> St -> Prop.                    (* holds of every result, relative to the end of the buffer *)
  Variable Ok : N -> St -> Prop.                          (* holds of a successful result, at the returned offset *)
  Definition rl_Q (pre rest : list byte) (i o : N) (e : err) (s : St) : Prop :=
    o <= i + nnat (length rest) /\ W (i + nnat (length rest)) e s /\
    (e = EMore -> exists k, (k <= length rest)%nat /\ o = i + nnat k /\ Inv (zpre k pre rest) o s) /\
    (e = EOk -> i <= o /\ Ok o s).
  Hypothesis step_ok : forall pre rest i s, i = nnat (length pre) -> Inv pre i s ->
    match iter pre rest i s with
    | Next k s' => (0 < k <= length rest)%nat /\ Inv (zpre k pre rest) (i + nnat k) s'
    | Ret o e s' => rl_Q pre rest i o e s'
    | IPanic => False
    end.

  Theorem rl_parse buf offs s : offs <= nnat (length buf) -> Inv (rev (firstn (N.to_nat offs) buf)) offs s ->
    match parse iter buf offs s with
    | Done o e s' => o <= nnat (length buf) /\ W (nnat (length buf)) e s' /\
                     (e = EMore -> offs <= o /\ Inv (rev (firstn (N.to_nat o) buf)) o s') /\
                     (e = EOk -> offs <= o /\ Ok o s')
    | _ => False
    end.
  Proof.
    intros Hoffs Hinv. unfold parse, zinit.
    pose proof (run_safe iter (fun pre rest i s => i = nnat (length pre) /\ Inv pre i s /\ offs <= i)
                  (fun pre rest i o e s => rl_Q pre rest i o e s /\ offs <= i /\ i = nnat (length pre))) as H.
    assert (G : forall pre rest i s0, i = nnat (length pre) /\ Inv pre i s0 /\ offs <= i ->
              match iter pre rest i s0 with
              | Next k s' => (0 < k <= length rest)%nat /\ (i + nnat k = nnat (length (zpre k pre rest)) /\ Inv (zpre k pre rest) (i + nnat k) s' /\ offs <= i + nnat k)
              | Ret o e s' => rl_Q pre rest i o e s' /\ offs <= i /\ i = nnat (length pre)
              | IPanic => False end).
    { intros pre rest i s0 (Hi & HI & Ho). pose proof (step_ok pre rest i s0 Hi HI) as X.
      destruct (iter pre rest i s0); auto.
      destruct X as [X1 X2]. split; [exact X1|]. split; [unfold nnat in *; rewrite zpre_length by lia; lia|]. split; [exact X2|unfold nnat; lia]. }
    specialize (H G (skipn (N.to_nat offs) buf) (rev (firstn (N.to_nat offs) buf)) offs s).
    assert (H0 : offs = nnat (length (rev (firstn (N.to_nat offs) buf))) /\ Inv (rev (firstn (N.to_nat offs) buf)) offs s /\ offs <= offs).
    { split; [rewrite rev_length, firstn_length; unfold nnat in *; lia|]. split; [exact Hinv|lia]. }
    specialize (H H0).
    destruct (run iter _ _ offs 0 s) as [o e s'| |]; auto.
    destruct H as (p' & r' & i' & ((H1 & H2 & H3 & H4) & Hio & Hi') & Hw).
    rewrite zinit_whole in Hw. pose proof Hw as Hw2. apply (f_equal (@length _)) in Hw2. rewrite app_length, rev_length in Hw2.
    assert (E : i' + nnat (length r') = nnat (length buf)) by (unfold nnat in *; lia).
    rewrite E in *. split; [exact H1|]. split; [exact H2|]. split.
    - intros He. destruct (H3 He) as (k & Hk & Ho & Hinv'). split; [unfold nnat in *; lia|].
      rewrite (zpre_whole_prefix p' r' k buf Hw Hk) in Hinv'.
      replace (N.to_nat o) with (length p' + k)%nat by (unfold nnat in *; lia). exact Hinv'.
    - intros He. destruct (H4 He). split; [lia|assumption].
  Qed.

  Theorem rl_run pre rest i s : i = nnat (length pre) -> Inv pre i s ->
    match run iter pre rest i 0 s with
    | Done o e s' => rl_Q pre rest i o e s'
    | _ => False
    end.
  Proof.
    intros Hi Hinv. rewrite (run_as_parse iter pre rest i s Hi).
    pose proof (rl_parse (rev pre ++ rest) i s) as H.
    assert (Hlen : nnat (length (rev pre ++ rest)) = i + nnat (length rest)) by (rewrite app_length, rev_length; unfold nnat in *; lia).
    rewrite Hlen in H.
    assert (Hpre : rev (firstn (N.to_nat i) (rev pre ++ rest)) = pre).
    { subst i. unfold nnat. rewrite Nat2N.id, firstn_app, rev_length, Nat.sub_diag. cbn [firstn]. rewrite app_nil_r.
      rewrite firstn_all2 by (rewrite rev_length; lia). apply rev_involutive. }
    rewrite Hpre in H. specialize (H ltac:(lia) Hinv).
    destruct (parse iter (rev pre ++ rest) i s) as [o e s'| |]; auto.
    destruct H as (H1 & H2 & H3 & H4). unfold rl_Q. split; [exact H1|]. split; [exact H2|]. split; [|exact H4].
    intros He. destruct (H3 He) as [Ho Hinv']. exists (N.to_nat (o - i)). split; [unfold nnat in *; lia|]. split; [unfold nnat; lia|].
    rewrite (zpre_whole_prefix pre rest (N.to_nat (o - i)) (rev pre ++ rest) eq_refl) by (unfold nnat in *; lia).
    replace (length pre + N.to_nat (o - i))%nat with (N.to_nat o) by (unfold nnat in *; lia). exact Hinv'.
  Qed.
End RunLevel.

(* ---- the value parsers under the header line, in one shape ------------------------------------------------------------ *)
Definition rsafe {B} (R : list byte -> list byte -> N -> B -> res B)
  (Act : list byte -> N -> B -> Prop) (Qt : N -> B -> Prop) : Prop :=
  forall pre rest o b, o = nnat (length pre) -> Act pre o b ->
  match R pre rest o b with
  | Done n e b' => n <= o + nnat (length rest) /\
                   (e = EMore -> exists k, (k <= length rest)%nat /\ n = o + nnat k /\ Act (zpre k pre rest) n b') /\
                   (e = EOk -> o <= n /\ Qt n b')
  | _ => False
  end.

(* name-addr values: finished, or satisfying the invariant; "quiet" = may be started anywhere later *)
Definition act_fb (pre : list byte) (i : N) (s : pfrom) : Prop := fb_parsed s = true \/ fb_inv 0 pre i s.
Definition qt_fb (i : N) (s : pfrom) : Prop :=
  fb_parsed s = true \/ (fb_bnd 0 i s /\ fb_state s = FbInit /\ fb_params s = pf0).
Lemma qt_act_fb i o s pre : qt_fb i s -> i <= o -> act_fb pre o s.
Proof.
  intros [H|(Hb & Hs & Hp)] Ho; [left; exact H|right].
  apply (fb_bnd_mono 0 i o s Ho) in Hb. destruct Hb as (H1&H2&H3&H4&H5&H6&H7&H8&H9&H10&H11&H12).
  unfold fb_inv. rewrite Hp. cbn [po pl]. repeat split; auto; try lia; intros; try contradiction; congruence.
Qed.
Lemma qt_fb_mono i o s : qt_fb i s -> i <= o -> qt_fb o s.
Proof. intros [H|(Hb & Hs & Hp)] Ho; [left; exact H|right]. split; [apply (fb_bnd_mono 0 i); assumption|auto]. Qed.

Lemma fb_run_parsed h pre rest i s : fb_parsed s = true -> run (fb_iter h) pre rest i 0 s = Done i EOk s.
Proof.
  intros H. rewrite run_after. unfold fb_iter, fb_parsed in *. destruct (fb_state s); try discriminate. reflexivity.
Qed.

Lemma rsafe_fb h : rsafe (fun pre rest o b => run (fb_iter h) pre rest o 0 b) act_fb qt_fb.
Proof.
  intros pre rest o b Ho [Hp|Hinv].
  - rewrite (fb_run_parsed h pre rest o b Hp). split; [lia|]. split; [intros E; discriminate|]. intros _. split; [lia|left; exact Hp].
  - pose proof (fb_run_ok 0 h pre rest o b (conj Ho Hinv)) as H.
    destruct (run (fb_iter h) pre rest o 0 b) as [n e b'| |] eqn:Er; auto.
    destruct H as (H1 & H2 & H3 & H4). split; [exact H1|]. split.
    + intros He. destruct (H3 He) as (k & Hk & Hn & Hi). exists k. split; [exact Hk|]. split; [exact Hn|right; exact Hi].
    + intros He. destruct (H4 (or_introl He)) as [Hon _]. split; [exact Hon|]. left. exact (fb_run_ok_parsed _ _ _ _ _ _ _ _ Er (or_introl He)).
Qed.

(* Call-ID, CSeq, unsigned numbers *)
Definition I_ci (i : N) (s : callid) : Prop := ci_parsed s = true \/ ci_inv i s.
Definition I_cs (i : N) (s : cseq) : Prop := cs_parsed s = true \/ cs_inv i s.
Definition I_ui (i : N) (s : uintb) : Prop := pf_end (ui_sval s) <= i /\ (ui_parsed s = true \/ ui_inv i s).
Lemma I_ci_mono i o s : I_ci i s -> i <= o -> I_ci o s.
Proof. intros [H|[H1 H2]] Ho; [left; exact H|right]. split; [intros E; specialize (H1 E); lia|lia]. Qed.
Lemma I_cs_mono i o s : I_cs i s -> i <= o -> I_cs o s.
Proof. intros [H|H] Ho; [left; exact H|right; apply (cs_inv_mono i); assumption]. Qed.
Lemma I_ui_mono i o s : I_ui i s -> i <= o -> I_ui o s.
Proof. intros [Hb [H|[H1 H2]]] Ho; (split; [lia|]); [left; exact H|right]. split; [intros E; specialize (H1 E); lia|lia]. Qed.

Lemma ci_iter_ok_parsed pre rest i s : match ci_iter pre rest i s with Ret _ EOk s' => ci_parsed s' = true | _ => True end.
Proof.
  unfold ci_iter, ci_parsed, ci_lws, ci_endOfHdr. destruct (ci_state s) eqn:Est; try (now rewrite Est).
  all: destruct rest as [|c r]; auto.
  all: destruct (is_ws c); auto.
  all: try destruct (pf_set _ _); auto.
  all: destruct (skipLWS false (c :: r)); auto; cbn; rewrite ?Est; auto.
  all: try destruct (pf_set _ _); auto.
Qed.
Lemma ui_iter_ok_parsed pre rest i s : match ui_iter pre rest i s with Ret _ EOk s' => ui_parsed s' = true | _ => True end.
Proof.
  unfold ui_iter, ui_parsed, ui_lws, ui_endOfHdr. destruct (ui_state s) eqn:Est; try (now rewrite Est).
  all: destruct rest as [|c r]; auto.
  all: destruct (is_ws c); [|destruct (is_digit c); auto; try destruct (acc32 _ _); auto].
  all: try destruct (pf_set _ _); auto.
  all: destruct (skipLWS false (c :: r)); auto; cbn; rewrite ?Est; auto.
  all: try destruct (pf_set _ _); auto.
Qed.
Lemma cs_iter_ok_parsed pre rest i s : match cs_iter pre rest i s with Ret _ EOk s' => cs_parsed s' = true | _ => True end.
Proof.
  unfold cs_iter, cs_parsed, cs_lws, cs_endOfHdr, cs_finish. destruct (cs_state s) eqn:Est; try (now rewrite Est).
  all: destruct rest as [|c r]; auto.
  all: destruct (is_ws c); [|destruct (is_digit c); auto; try destruct (acc32 _ _); auto].
  all: repeat (try destruct (pf_set _ _); try destruct (pf_extend _ _)); auto.
  all: destruct (skipLWS false (c :: r)); auto; cbn; rewrite ?Est; auto.
  all: repeat (try destruct (pf_set _ _); try destruct (pf_extend _ _)); auto.
  all: destruct (_ || _); auto; destruct (zget _ _ _ _); auto.
Qed.
Lemma run_ok_state {St} (iter : list byte -> list byte -> N -> St -> ires St) (Qp : St -> Prop) :
  (forall pre rest i s, match iter pre rest i s with Ret _ EOk s' => Qp s' | _ => True end) ->
  forall rest pre i v next v', run iter pre rest i 0 v = Done next EOk v' -> Qp v'.
Proof.
  intros Hit rest pre i v next v' H.
  pose proof (run_inv iter (fun _ _ _ => True) (fun _ e s' => e = EOk -> Qp s')) as R.
  specialize (R ltac:(intros p r j s _; pose proof (Hit p r j s) as X;
                      destruct (iter p r j s) as [| ? [] ?|]; auto; discriminate) rest pre i v I).
  rewrite H in R. auto.
Qed.

Lemma run_len pre (rest : list byte) o : o = nnat (length pre) -> nnat (length (rev pre ++ rest)) = o + nnat (length rest).
Proof. intros ->. rewrite app_length, rev_length. unfold nnat. lia. Qed.

Lemma rsafe_ci : rsafe (fun pre rest o b => run ci_iter pre rest o 0 b) (fun _ i s => I_ci i s) I_ci.
Proof.
  intros pre rest o b Ho [Hp|Hinv].
  - assert (E : run ci_iter pre rest o 0 b = Done o EOk b) by (rewrite run_after; unfold ci_iter, ci_parsed in *; destruct (ci_state b); try discriminate; reflexivity).
    rewrite E. split; [lia|]. split; [intros X; discriminate|]. intros _. split; [lia|left; exact Hp].
  - pose proof (callid_safe (rev pre ++ rest) o b) as H. rewrite (run_len pre rest o Ho) in H. specialize (H ltac:(lia) Hinv).
    unfold parse_callid in H. rewrite <- (run_as_parse ci_iter pre rest o b Ho) in H.
    destruct (run ci_iter pre rest o 0 b) as [n e b'| |] eqn:Er; auto.
    destruct H as (H1 & H2 & H3 & H4). split; [exact H2|]. split.
    + intros _. exists (N.to_nat (n - o)). split; [unfold nnat in *; lia|]. split; [unfold nnat; lia|right; exact H3].
    + intros He. subst e. split; [exact H1|left]. exact (run_ok_state ci_iter _ ci_iter_ok_parsed _ _ _ _ _ _ Er).
Qed.

Lemma rsafe_ui : rsafe (fun pre rest o b => run ui_iter pre rest o 0 b) (fun _ i s => I_ui i s) I_ui.
Proof.
  intros pre rest o b Ho [Hb [Hp|Hinv]].
  - assert (E : run ui_iter pre rest o 0 b = Done o EOk b) by (rewrite run_after; unfold ui_iter, ui_parsed in *; destruct (ui_state b); try discriminate; reflexivity).
    rewrite E. split; [lia|]. split; [intros X; discriminate|]. intros _. split; [lia|split; [exact Hb|left; exact Hp]].
  - pose proof (uint_safe (rev pre ++ rest) o b) as H. rewrite (run_len pre rest o Ho) in H. specialize (H ltac:(lia) Hinv).
    unfold parse_uint in H. rewrite <- (run_as_parse ui_iter pre rest o b Ho) in H.
    destruct (run ui_iter pre rest o 0 b) as [n e b'| |] eqn:Er; auto.
    destruct H as (H1 & H2 & H3 & H4). split; [exact H2|]. split.
    + intros _. exists (N.to_nat (n - o)). split; [unfold nnat in *; lia|]. split; [unfold nnat; lia|split; [apply H3|right; exact H3]].
    + intros He. subst e. split; [exact H1|]. split; [apply H3|left]. exact (run_ok_state ui_iter _ ui_iter_ok_parsed _ _ _ _ _ _ Er).
Qed.

Lemma rsafe_clen : rsafe ExtHdrLine.clen_R (fun _ i s => I_ui i s) I_ui.
Proof.
  intros pre rest o b Ho Hact. pose proof (rsafe_ui pre rest o b Ho Hact) as H. cbv beta in H. unfold ExtHdrLine.clen_R.
  destruct (run ui_iter pre rest o 0 b) as [n e b'| |] eqn:Er; auto.
  destruct H as (H1 & H2 & H3). destruct e; try (split; [exact H1|split; [exact H2|exact H3]]).
  destruct (_ || _); [|split; [exact H1|split; [exact H2|exact H3]]].
  destruct (H3 eq_refl) as [Hon [Hq _]]. unfold pf_end in Hq. split; [lia|split; intros X; discriminate].
Qed.

Lemma rsafe_cs : rsafe (fun pre rest o b => run cs_iter pre rest o 0 b) (fun _ i s => I_cs i s) I_cs.
Proof.
  intros pre rest o b Ho [Hp|Hinv].
  - assert (E : run cs_iter pre rest o 0 b = Done o EOk b) by (rewrite run_after; unfold cs_iter, cs_parsed in *; destruct (cs_state b); try discriminate; reflexivity).
    rewrite E. split; [lia|]. split; [intros X; discriminate|]. intros _. split; [lia|left; exact Hp].
  - pose proof (cseq_safe (rev pre ++ rest) o b) as H. rewrite (run_len pre rest o Ho) in H. specialize (H ltac:(lia) Hinv).
    unfold parse_cseq in H. rewrite <- (run_as_parse cs_iter pre rest o b Ho) in H.
    destruct (run cs_iter pre rest o 0 b) as [n e b'| |] eqn:Er; auto.
    destruct H as (H1 & H2 & H3 & H4). split; [exact H1|]. split.
    + intros He. destruct (H3 He) as [Hon Hi]. exists (N.to_nat (n - o)). split; [unfold nnat in *; lia|]. split; [unfold nnat; lia|right; exact Hi].
    + intros He. subst e. split; [apply H4; reflexivity|left]. exact (run_ok_state cs_iter _ cs_iter_ok_parsed _ _ _ _ _ _ Er).
Qed.

Lemma rsafe_ct : rsafe (fun pre rest o b => run ct_iter pre rest o 0 b) ct_inv (fun n c => forall pre', ct_inv pre' n c).
Proof.
  intros pre rest o b Ho Hinv.
  pose proof (rl_run ct_iter ct_inv (fun o _ c => pf_end (ct_lasthval c) <= o) (fun n c => forall pre', ct_inv pre' n c)) as H.
  specialize (H ltac:(intros p r j s Hj HI; pose proof (ct_step_ok p r j s (conj Hj HI)) as X; unfold ct_step_res, ct_P, ct_Q, rl_Q in *;
                      destruct (ct_iter p r j s); auto; destruct X as [X1 [X2 X3]]; auto) pre rest o b Ho Hinv).
  destruct (run ct_iter pre rest o 0 b) as [n e b'| |]; auto. destruct H as (H1 & H2 & H3 & H4). auto.
Qed.
Lemma rsafe_pa : rsafe (fun pre rest o b => run pa_iter pre rest o 0 b) pa_inv (fun n c => forall pre', pa_inv pre' n c).
Proof.
  intros pre rest o b Ho Hinv.
  pose proof (rl_run pa_iter pa_inv (fun o _ c => pf_end (pa_lasthval c) <= o) (fun n c => forall pre', pa_inv pre' n c)) as H.
  specialize (H ltac:(intros p r j s Hj HI; pose proof (pa_step_ok p r j s (conj Hj HI)) as X; unfold pa_step_res, pa_P, pa_Q, rl_Q in *;
                      destruct (pa_iter p r j s); auto; destruct X as [X1 [X2 X3]]; auto) pre rest o b Ho Hinv).
  destruct (run pa_iter pre rest o 0 b) as [n e b'| |]; auto. destruct H as (H1 & H2 & H3 & H4). auto.
Qed.

(* ---- the parsed header values as a whole ------------------------------------------------------------------------------ *)
Definition PV (pre : list byte) (i : N) (hs : hst) (v : phvals) : Prop :=
  (if hst_eqb hs HFrom then act_fb pre i (pv_from v) else qt_fb i (pv_from v)) /\
  (if hst_eqb hs HTo then act_fb pre i (pv_to v) else qt_fb i (pv_to v)) /\
  I_ci i (pv_callid v) /\ I_cs i (pv_cseq v) /\ I_ui i (pv_clen v) /\ I_ui i (pv_expires v) /\
  (if hst_eqb hs HContact then ct_inv pre i (pv_contacts v) else forall pre', ct_inv pre' i (pv_contacts v)) /\
  (if hst_eqb hs HPAI then pa_inv pre i (pv_pais v) else forall pre', pa_inv pre' i (pv_pais v)).
(* nothing in progress *)
Definition PVq (i : N) (v : phvals) : Prop :=
  qt_fb i (pv_from v) /\ qt_fb i (pv_to v) /\ I_ci i (pv_callid v) /\ I_cs i (pv_cseq v) /\ I_ui i (pv_clen v) /\
  I_ui i (pv_expires v) /\ (forall pre', ct_inv pre' i (pv_contacts v)) /\ (forall pre', pa_inv pre' i (pv_pais v)).

Lemma fb_inv_later L pre i o s : fb_inv L pre i s -> i <= o -> fb_inv L pre o s.
Proof.
  intros (H1&H2&H3&H4&H5&H6&H7&H8&H9&H10&F1&F2&H11&H12&F3) Ho. unfold fb_inv. repeat split; auto; try lia;
  intros Hp; specialize (F2 Hp); lia.
Qed.
Lemma ct_quiet_mono i o c : (forall pre', ct_inv pre' i c) -> i <= o -> forall pre', ct_inv pre' o c.
Proof.
  intros H Ho pre'. destruct (H pre') as (H1 & H2 & H3). split; [apply (fb_inv_later _ _ i); assumption|]. split; [lia|exact H3].
Qed.
Lemma pa_quiet_mono i o c : (forall pre', pa_inv pre' i c) -> i <= o -> forall pre', pa_inv pre' o c.
Proof.
  intros H Ho pre'. destruct (H pre') as (H1 & H2 & H3). split; [apply (fb_inv_later _ _ i); assumption|]. split; [lia|exact H3].
Qed.
Lemma PVq_mono i o v : PVq i v -> i <= o -> PVq o v.
Proof.
  intros (H1&H2&H3&H4&H5&H6&H7&H8) Ho. unfold PVq.
  split; [apply (qt_fb_mono i); assumption|]. split; [apply (qt_fb_mono i); assumption|].
  split; [apply (I_ci_mono i); assumption|]. split; [apply (I_cs_mono i); assumption|].
  split; [apply (I_ui_mono i); assumption|]. split; [apply (I_ui_mono i); assumption|].
  split; [apply (ct_quiet_mono i); assumption|apply (pa_quiet_mono i); assumption].
Qed.
Lemma PVq_PV pre i hs v : PVq i v -> PV pre i hs v.
Proof.
  intros (H1&H2&H3&H4&H5&H6&H7&H8). unfold PV.
  split; [destruct (hst_eqb hs HFrom); [apply (qt_act_fb i); [exact H1|lia]|exact H1]|].
  split; [destruct (hst_eqb hs HTo); [apply (qt_act_fb i); [exact H2|lia]|exact H2]|].
  split; [exact H3|]. split; [exact H4|]. split; [exact H5|]. split; [exact H6|].
  split; [destruct (hst_eqb hs HContact); [apply H7|exact H7]|destruct (hst_eqb hs HPAI); [apply H8|exact H8]].
Qed.
Lemma PV_nonbody pre i hs v : is_body hs = false -> PV pre i hs v -> PVq i v.
Proof. intros Hb H. destruct hs; try discriminate; exact H. Qed.

(* ---- the header line ----------------------------------------------------------------------------------------------------- *)
Definition HInv (pre : list byte) (i : N) (st : hline) : Prop :=
  pf_end (h_name (hx_h st)) <= i /\ pf_end (h_val (hx_h st)) <= i /\
  match hx_pv st with
  | None => is_body (h_state (hx_h st)) = false
  | Some v => PV pre i (h_state (hx_h st)) v
  end.
Definition HQ (pre rest : list byte) (i o : N) (e : err) (st : hline) : Prop :=
  o <= i + nnat (length rest) /\
  (e = EMore -> exists k, (k <= length rest)%nat /\ o = i + nnat k /\ HInv (zpre k pre rest) o st) /\
  (e = EOk -> i <= o /\ match hx_pv st with None => True | Some v' => PVq o v' end).

Lemma hb_comp {B} (R : list byte -> list byte -> N -> B -> res B) sel put valof hs Act Qt :
  rsafe R Act Qt ->
  (forall pre rest o st v, hb_run hs pre rest o st v
     = hb_finish (R pre rest o (sel v)) (st <| hx_h := (hx_h st) <| h_state := hs |> |>) valof (put v)) ->
  forall pre rest o st v, o = nnat (length pre) -> Act pre o (sel v) ->
  match hb_run hs pre rest o st v with
  | Ret n e st' => n <= o + nnat (length rest) /\ exists b', hx_pv st' = Some (put v b') /\
       h_name (hx_h st') = h_name (hx_h st) /\
       (e = EMore -> h_state (hx_h st') = hs /\ h_val (hx_h st') = h_val (hx_h st) /\
                     exists k, (k <= length rest)%nat /\ n = o + nnat k /\ Act (zpre k pre rest) n b') /\
       (e = EOk -> o <= n /\ Qt n b')
  | _ => False
  end.
Proof.
  intros HR Hdef pre rest o st v Ho Hact. rewrite Hdef. pose proof (HR pre rest o (sel v) Ho Hact) as H.
  unfold hb_finish. destruct (R pre rest o (sel v)) as [n e b'| |]; auto.
  destruct H as (H1 & H2 & H3). split; [exact H1|]. exists b'. split; [reflexivity|].
  split; [destruct e, st as [[? ? ? ?] ?]; reflexivity|]. split.
  - intros He. subst e. split; [destruct st as [[? ? ? ?] ?]; reflexivity|]. split; [destruct st as [[? ? ? ?] ?]; reflexivity|]. exact (H2 eq_refl).
  - exact H3.
Qed.

Ltac split8 := split; [|split; [|split; [|split; [|split; [|split; [|split]]]]]].
Ltac pvq_solve o :=
  first [ assumption
        | apply (qt_fb_mono o); [assumption|lia]
        | apply (I_ci_mono o); [assumption|lia]
        | apply (I_cs_mono o); [assumption|lia]
        | apply (I_ui_mono o); [assumption|lia]
        | apply (ct_quiet_mono o); [assumption|lia]
        | apply (pa_quiet_mono o); [assumption|lia] ].

Lemma hb_run_safe hs pre rest o st v : is_body hs = true -> o = nnat (length pre) ->
  pf_end (h_name (hx_h st)) <= o -> pf_end (h_val (hx_h st)) <= o -> PV pre o hs v ->
  match hb_run hs pre rest o st v with
  | Ret n e st' => HQ pre rest o n e st'
  | _ => False
  end.
Proof.
  intros Hb Ho Hn Hv Hpv. destruct hs; try discriminate; destruct Hpv as (P1&P2&P3&P4&P5&P6&P7&P8); cbn [hst_eqb] in *.
  - pose proof (hb_comp (fun pre rest i b => run (fb_iter HdrFrom) pre rest i 0 b) pv_from (fun v b => v <| pv_from := b |>) fb_v HFrom act_fb qt_fb
                  (rsafe_fb HdrFrom) ltac:(reflexivity) pre rest o st v Ho P1) as H.
    destruct (hb_run HFrom pre rest o st v) as [|n e st'|]; auto. destruct H as (H1 & b' & Ep & En & H2 & H3).
    unfold HQ. split; [exact H1|]. split.
    + intros He. destruct (H2 He) as (Es & Ev & k & Hk & Hnk & Hact). exists k. split; [exact Hk|]. split; [exact Hnk|].
      unfold HInv. rewrite Ep, En, Es, Ev. split; [unfold nnat in *; lia|]. split; [unfold nnat in *; lia|].
      destruct v; unfold PV; cbn in *. unfold nnat in *.
      split8; pvq_solve o.
    + intros He. destruct (H3 He) as [Hon Hq]. split; [exact Hon|]. rewrite Ep.
      destruct v; unfold PVq; cbn in *. split8; pvq_solve o.
  - pose proof (hb_comp (fun pre rest i b => run (fb_iter HdrTo) pre rest i 0 b) pv_to (fun v b => v <| pv_to := b |>) fb_v HTo act_fb qt_fb
                  (rsafe_fb HdrTo) ltac:(reflexivity) pre rest o st v Ho P2) as H.
    destruct (hb_run HTo pre rest o st v) as [|n e st'|]; auto. destruct H as (H1 & b' & Ep & En & H2 & H3).
    unfold HQ. split; [exact H1|]. split.
    + intros He. destruct (H2 He) as (Es & Ev & k & Hk & Hnk & Hact). exists k. split; [exact Hk|]. split; [exact Hnk|].
      unfold HInv. rewrite Ep, En, Es, Ev. split; [unfold nnat in *; lia|]. split; [unfold nnat in *; lia|].
      destruct v; unfold PV; cbn in *. unfold nnat in *. split8; pvq_solve o.
    + intros He. destruct (H3 He) as [Hon Hq]. split; [exact Hon|]. rewrite Ep.
      destruct v; unfold PVq; cbn in *. split8; pvq_solve o.
  - pose proof (hb_comp (fun pre rest i b => run ci_iter pre rest i 0 b) pv_callid (fun v b => v <| pv_callid := b |>) ci_callid HCallID (fun _ i s => I_ci i s) I_ci
                  rsafe_ci ltac:(reflexivity) pre rest o st v Ho P3) as H.
    destruct (hb_run HCallID pre rest o st v) as [|n e st'|]; auto. destruct H as (H1 & b' & Ep & En & H2 & H3).
    unfold HQ. split; [exact H1|]. split.
    + intros He. destruct (H2 He) as (Es & Ev & k & Hk & Hnk & Hact). exists k. split; [exact Hk|]. split; [exact Hnk|].
      unfold HInv. rewrite Ep, En, Es, Ev. split; [unfold nnat in *; lia|]. split; [unfold nnat in *; lia|].
      destruct v; unfold PV; cbn in *. unfold nnat in *. split8; pvq_solve o.
    + intros He. destruct (H3 He) as [Hon Hq]. split; [exact Hon|]. rewrite Ep.
      destruct v; unfold PVq; cbn in *. split8; pvq_solve o.
  - pose proof (hb_comp (fun pre rest i b => run cs_iter pre rest i 0 b) pv_cseq (fun v b => v <| pv_cseq := b |>) cs_v HCSeq (fun _ i s => I_cs i s) I_cs
                  rsafe_cs ltac:(reflexivity) pre rest o st v Ho P4) as H.
    destruct (hb_run HCSeq pre rest o st v) as [|n e st'|]; auto. destruct H as (H1 & b' & Ep & En & H2 & H3).
    unfold HQ. split; [exact H1|]. split.
    + intros He. destruct (H2 He) as (Es & Ev & k & Hk & Hnk & Hact). exists k. split; [exact Hk|]. split; [exact Hnk|].
      unfold HInv. rewrite Ep, En, Es, Ev. split; [unfold nnat in *; lia|]. split; [unfold nnat in *; lia|].
      destruct v; unfold PV; cbn in *. unfold nnat in *. split8; pvq_solve o.
    + intros He. destruct (H3 He) as [Hon Hq]. split; [exact Hon|]. rewrite Ep.
      destruct v; unfold PVq; cbn in *. split8; pvq_solve o.
  - pose proof (hb_comp clen_R pv_clen (fun v b => v <| pv_clen := b |>) ui_sval HCLen (fun _ i s => I_ui i s) I_ui
                  rsafe_clen ltac:(reflexivity) pre rest o st v Ho P5) as H.
    destruct (hb_run HCLen pre rest o st v) as [|n e st'|]; auto. destruct H as (H1 & b' & Ep & En & H2 & H3).
    unfold HQ. split; [exact H1|]. split.
    + intros He. destruct (H2 He) as (Es & Ev & k & Hk & Hnk & Hact). exists k. split; [exact Hk|]. split; [exact Hnk|].
      unfold HInv. rewrite Ep, En, Es, Ev. split; [unfold nnat in *; lia|]. split; [unfold nnat in *; lia|].
      destruct v; unfold PV; cbn in *. unfold nnat in *. split8; pvq_solve o.
    + intros He. destruct (H3 He) as [Hon Hq]. split; [exact Hon|]. rewrite Ep.
      destruct v; unfold PVq; cbn in *. split8; pvq_solve o.
  - pose proof (hb_comp (fun pre rest i b => run ct_iter pre rest i 0 b) pv_contacts (fun v b => v <| pv_contacts := b |>) ct_lasthval HContact ct_inv (fun n c => forall pre', ct_inv pre' n c)
                  rsafe_ct ltac:(reflexivity) pre rest o st v Ho P7) as H.
    destruct (hb_run HContact pre rest o st v) as [|n e st'|]; auto. destruct H as (H1 & b' & Ep & En & H2 & H3).
    unfold HQ. split; [exact H1|]. split.
    + intros He. destruct (H2 He) as (Es & Ev & k & Hk & Hnk & Hact). exists k. split; [exact Hk|]. split; [exact Hnk|].
      unfold HInv. rewrite Ep, En, Es, Ev. split; [unfold nnat in *; lia|]. split; [unfold nnat in *; lia|].
      destruct v; unfold PV; cbn in *. unfold nnat in *. split8; pvq_solve o.
    + intros He. destruct (H3 He) as [Hon Hq]. split; [exact Hon|]. rewrite Ep.
      destruct v; unfold PVq; cbn in *. split8; pvq_solve o.
  - pose proof (hb_comp (fun pre rest i b => run ui_iter pre rest i 0 b) pv_expires (fun v b => v <| pv_expires := b |>) ui_sval HExpires (fun _ i s => I_ui i s) I_ui
                  rsafe_ui ltac:(reflexivity) pre rest o st v Ho P6) as H.
    destruct (hb_run HExpires pre rest o st v) as [|n e st'|]; auto. destruct H as (H1 & b' & Ep & En & H2 & H3).
    unfold HQ. split; [exact H1|]. split.
    + intros He. destruct (H2 He) as (Es & Ev & k & Hk & Hnk & Hact). exists k. split; [exact Hk|]. split; [exact Hnk|].
      unfold HInv. rewrite Ep, En, Es, Ev. split; [unfold nnat in *; lia|]. split; [unfold nnat in *; lia|].
      destruct v; unfold PV; cbn in *. unfold nnat in *. split8; pvq_solve o.
    + intros He. destruct (H3 He) as [Hon Hq]. split; [exact Hon|]. rewrite Ep.
      destruct v; unfold PVq; cbn in *. split8; pvq_solve o.
  - pose proof (hb_comp (fun pre rest i b => run pa_iter pre rest i 0 b) pv_pais (fun v b => v <| pv_pais := b |>) pa_lasthval HPAI pa_inv (fun n c => forall pre', pa_inv pre' n c)
                  rsafe_pa ltac:(reflexivity) pre rest o st v Ho P8) as H.
    destruct (hb_run HPAI pre rest o st v) as [|n e st'|]; auto. destruct H as (H1 & b' & Ep & En & H2 & H3).
    unfold HQ. split; [exact H1|]. split.
    + intros He. destruct (H2 He) as (Es & Ev & k & Hk & Hnk & Hact). exists k. split; [exact Hk|]. split; [exact Hnk|].
      unfold HInv. rewrite Ep, En, Es, Ev. split; [unfold nnat in *; lia|]. split; [unfold nnat in *; lia|].
      destruct v; unfold PV; cbn in *. unfold nnat in *. split8; pvq_solve o.
    + intros He. destruct (H3 He) as [Hon Hq]. split; [exact Hon|]. rewrite Ep.
      destruct v; unfold PVq; cbn in *. split8; pvq_solve o.
Qed.

Definition hl_step_res (pre rest : list byte) (i : N) (r : ires hline) : Prop :=
  match r with
  | Next k st' => (0 < k <= length rest)%nat /\ HInv (zpre k pre rest) (i + nnat k) st'
  | Ret o e st' => HQ pre rest i o e st'
  | IPanic => False
  end.

(* a header field changed, no value parser active before or after *)
Lemma HInv_seth pre pre' i o st h' : HInv pre i st -> is_body (h_state (hx_h st)) = false -> i <= o ->
  pf_end (h_name h') <= o -> pf_end (h_val h') <= o -> is_body (h_state h') = false ->
  HInv pre' o (st <| hx_h := h' |>).
Proof.
  intros (H1 & H2 & H3) Hb Ho Hn Hv Hb'. destruct st as [h pv]. cbn in *. unfold HInv. cbn.
  split; [exact Hn|]. split; [exact Hv|]. destruct pv as [v|]; [|exact Hb'].
  apply PVq_PV. apply (PVq_mono i); [|exact Ho]. exact (PV_nonbody pre i _ v Hb H3).
Qed.

Lemma HQ_shift pre rest i k n e st' : (k <= length rest)%nat ->
  HQ (zpre k pre rest) (zrest k rest) (i + nnat k) n e st' -> HQ pre rest i n e st'.
Proof.
  intros Hk (H1 & H2 & H3). rewrite zrest_length in H1. unfold HQ. split; [unfold nnat in *; lia|]. split.
  - intros He. destruct (H2 He) as (k2 & Hk2 & Hn & Hi). rewrite zrest_length in Hk2. exists (k + k2)%nat.
    split; [lia|]. split; [unfold nnat in *; lia|]. rewrite zpre_zpre in Hi by exact Hk. exact Hi.
  - intros He. destruct (H3 He) as [Hn Hq]. split; [unfold nnat in *; lia|exact Hq].
Qed.

Lemma fb_inv_L0 L pre o s : fb_inv L pre o s -> fb_inv 0 pre o s.
Proof. intros (H1&H2&H3&H4&H5&H6&H7&H8&H9&H10&F1&F2&H11&H12&F3). unfold fb_inv. repeat split; auto; lia. Qed.

Lemma ct_quiet_newhdr o c : (forall pre', ct_inv pre' o c) ->
  forall pre', ct_inv pre' o (c <| ct_hno := ct_hno c + 1 |> <| ct_lasthval := pf0 |>).
Proof.
  intros H pre'. destruct (H pre') as (H1 & H2 & H3). destruct c as [vals n hno mx mn lh last first].
  change (mkcontacts vals n hno mx mn lh last first <| ct_hno := ct_hno (mkcontacts vals n hno mx mn lh last first) + 1 |> <| ct_lasthval := pf0 |>)
    with (mkcontacts vals n (hno + 1) mx mn pf0 last first).
  unfold ct_inv, ct_wf, ct_cap in *. rewrite ct_sel_eq in *. cbn [ct_lasthval ct_vals ct_n ct_last po] in *.
  split; [apply (fb_inv_L0 _ _ _ _ H1)|]. split; [unfold pf_end; cbn; lia|exact H3].
Qed.
Lemma pa_quiet_newhdr o c : (forall pre', pa_inv pre' o c) ->
  forall pre', pa_inv pre' o (c <| pa_hno := pa_hno c + 1 |> <| pa_lasthval := pf0 |>).
Proof.
  intros H pre'. destruct (H pre') as (H1 & H2 & H3). destruct c as [vals n hno lh last].
  change (mkpais vals n hno lh last <| pa_hno := pa_hno (mkpais vals n hno lh last) + 1 |> <| pa_lasthval := pf0 |>)
    with (mkpais vals n (hno + 1) pf0 last).
  unfold pa_inv, pa_wf, pa_cap in *. rewrite pa_sel_proj in *. cbn [pa_lasthval pa_vals pa_n pa_last pa_cap po] in *.
  split; [apply (fb_inv_L0 _ _ _ _ H1)|]. split; [unfold pf_end; cbn; lia|exact H3].
Qed.

(* the value parser chosen after the colon gets a quiet object *)
Lemma hb_pick_safe st o : match hx_pv st with Some v => PVq o v | None => True end ->
  match hb_pick st with
  | Some (hs, v') => is_body hs = true /\ PVq o v'
  | None => True
  end.
Proof.
  unfold hb_pick. destruct (hx_pv st) as [v|]; [|auto]. intros Hq. cbv zeta.
  repeat match goal with |- context [if ?b then _ else _] => destruct b end; try exact I; try (split; [reflexivity|exact Hq]).
  - split; [reflexivity|]. destruct Hq as (H1&H2&H3&H4&H5&H6&H7&H8). destruct v; unfold PVq; cbn in *. split8; try assumption. apply ct_quiet_newhdr. exact H7.
  - split; [reflexivity|]. destruct Hq as (H1&H2&H3&H4&H5&H6&H7&H8). destruct v; unfold PVq; cbn in *. split8; try assumption. apply pa_quiet_newhdr. exact H8.
Qed.

Lemma colon_safe pre rest i k st : i = nnat (length pre) -> (S k <= length rest)%nat ->
  pf_end (h_name (hx_h st)) <= i + nnat (S k) -> pf_end (h_val (hx_h st)) <= i + nnat (S k) ->
  match hx_pv st with Some v => PVq i v | None => True end ->
  hl_step_res pre rest i (hl_colon pre rest i k st).
Proof.
  intros Hi Hk Hname Hval Hpv. rewrite hl_colon_eq. unfold hl_colon'.
  destruct (zget_some pre rest i (h_name (hx_h st)) ltac:(unfold nnat in *; lia)) as [name ->]. cbv zeta.
  set (st1 := st <| hx_h := _ |>).
  assert (Hb1 : is_body (h_state (hx_h st1)) = false) by (subst st1; destruct st as [[? ? ? ?] ?]; reflexivity).
  assert (Hq1 : match hx_pv st1 with Some v => PVq (i + nnat (S k)) v | None => True end).
  { subst st1. destruct st as [[? ? ? ?] [v|]]; cbn in *; [|exact I]. apply (PVq_mono i); [exact Hpv|unfold nnat; lia]. }
  assert (HI1 : HInv (zpre (S k) pre rest) (i + nnat (S k)) st1).
  { unfold HInv. split; [subst st1; destruct st as [[? ? ? ?] ?]; exact Hname|]. split; [subst st1; destruct st as [[? ? ? ?] ?]; exact Hval|].
    destruct (hx_pv st1) as [v|]; [apply PVq_PV; exact Hq1|exact Hb1]. }
  pose proof (hb_pick_safe st1 (i + nnat (S k))) as Hp.
  specialize (Hp Hq1).
  destruct (hb_pick st1) as [[hs v']|].
  - destruct Hp as [Hbody Hq]. replace (i + nnat k + 1) with (i + nnat (S k)) by (unfold nnat; lia).
    pose proof (hb_run_safe hs (zpre (S k) pre rest) (zrest (S k) rest) (i + nnat (S k)) st1 v' Hbody) as H.
    destruct HI1 as (N1 & N2 & _).
    specialize (H ltac:(unfold nnat in *; rewrite zpre_length by lia; lia) N1 N2 (PVq_PV _ _ _ _ Hq)).
    destruct (hb_run hs _ _ _ st1 v') as [|n e st'|]; try contradiction. unfold hl_step_res. apply (HQ_shift pre rest i (S k)); [exact Hk|exact H].
  - unfold hl_step_res. split; [lia|exact HI1].
Qed.

Lemma skipLWS_at_ok_lt : forall (r : list byte) j k, skipLWS_at false r j = LOk k -> (k < j + length r)%nat.
Proof.
  intros r. remember (length r) as m eqn:Hm. revert r Hm. induction m as [m IH] using lt_wf_ind. intros r Hm j k.
  destruct r as [|a r']; cbn [skipLWS_at length]; [discriminate|]. cbn [length] in Hm.
  destruct (is_sp a); [intros H; apply (IH (length r') ltac:(lia) r' eq_refl) in H; lia|].
  destruct (is_cr a).
  { destruct r' as [|b r'']; [discriminate|]. cbn [length] in *. destruct (is_lf b).
    - destruct r'' as [|e r3]; [discriminate|]. destruct (is_sp e); [|discriminate].
      intros H. apply (IH (length (e :: r3)) ltac:(cbn [length] in *; lia) (e :: r3) eq_refl) in H. cbn [length] in *. lia.
    - destruct (is_sp b); [|discriminate]. intros H. apply (IH (length (b :: r'')) ltac:(cbn [length] in *; lia) (b :: r'') eq_refl) in H. cbn [length] in *. lia. }
  destruct (is_lf a); [|intros E; injection E as <-; lia].
  destruct r' as [|b r'']; [discriminate|]. destruct (is_sp b); [|discriminate].
  intros H. apply (IH (length (b :: r'')) ltac:(cbn [length] in *; lia) (b :: r'') eq_refl) in H. cbn [length] in *. lia.
Qed.
Lemma skipLWS_ok_lt r k : skipLWS false r = LOk k -> (k < length r)%nat.
Proof. intros H. apply skipLWS_at_ok_lt in H. lia. Qed.

Lemma HQ_more_here pre rest i st : HInv pre i st -> HQ pre rest i i EMore st.
Proof.
  intros H. unfold HQ. split; [lia|]. split; [|intros E; discriminate]. intros _. exists 0%nat.
  split; [lia|]. split; [unfold nnat; lia|]. exact H.
Qed.
Lemma HQ_err pre rest i o e st : o <= i + nnat (length rest) -> e <> EMore -> e <> EOk -> HQ pre rest i o e st.
Proof. intros Ho H1 H2. unfold HQ. split; [exact Ho|]. split; intros E; congruence. Qed.

(* suspension k bytes further on with only header fields changed *)
Lemma HQ_more_at pre rest i k st h' : HInv pre i st -> is_body (h_state (hx_h st)) = false -> (k <= length rest)%nat ->
  pf_end (h_name h') <= i + nnat k -> pf_end (h_val h') <= i + nnat k -> is_body (h_state h') = false ->
  HQ pre rest i (i + nnat k) EMore (st <| hx_h := h' |>).
Proof.
  intros H Hb Hk Hn Hv Hb'. unfold HQ. split; [unfold nnat; lia|]. split; [|intros E; discriminate]. intros _. exists k.
  split; [exact Hk|]. split; [reflexivity|]. apply (HInv_seth pre _ i _ st); auto. unfold nnat; lia.
Qed.
Lemma st_eta (st : hline) : st <| hx_h := hx_h st |> = st.
Proof. destruct st; reflexivity. Qed.


Lemma HInv_pvq pre i st : HInv pre i st -> is_body (h_state (hx_h st)) = false ->
  match hx_pv st with Some v => PVq i v | None => True end.
Proof. intros (_ & _ & H3) Hb. destruct (hx_pv st) as [v|]; [exact (PV_nonbody _ _ _ _ Hb H3)|exact I]. Qed.

Lemma name_safe pre rest i st : i = nnat (length pre) -> HInv pre i st -> h_state (hx_h st) = HName ->
  hl_step_res pre rest i (hl_name_ph pre rest i st).
Proof.
  intros Hi Hinv Hs. pose proof Hinv as (H1 & H2 & H3). unfold pf_end in H1.
  assert (Hb : is_body (h_state (hx_h st)) = false) by now rewrite Hs.
  pose proof (HInv_pvq pre i st Hinv Hb) as Hq.
  unfold hl_name_ph. set (k := skipTokenDelim 58 rest).
  assert (Hk : (k <= length rest)%nat) by apply span_le.
  destruct (skipn k rest) as [|c r] eqn:Es.
  - unfold hl_step_res. rewrite <- (st_eta st). apply HQ_more_at; auto; unfold pf_end in *; unfold nnat; lia.
  - pose proof (skipn_cons_len _ _ _ _ Es) as Hl.
    destruct (is_sp c).
    + rewrite pf_extend_some by (unfold nnat; lia). destruct (pf_empty _); [apply HQ_err; [unfold nnat; lia|discriminate|discriminate]|].
      unfold hl_step_res. split; [lia|]. apply (HInv_seth pre _ i _ st); auto; try (unfold nnat; lia);
        destruct st as [[? ? ? ?] ?]; unfold pf_end in *; cbn in *; unfold nnat; try lia; reflexivity.
    + destruct (c =? 58); [|apply HQ_err; [unfold nnat; lia|discriminate|discriminate]].
      rewrite pf_extend_some by (unfold nnat; lia). destruct (pf_empty _); [apply HQ_err; [unfold nnat; lia|discriminate|discriminate]|].
      apply colon_safe; [exact Hi|lia| | |]; destruct st as [[? ? ? ?] ?]; unfold pf_end in *; cbn in *; unfold nnat; try lia; exact Hq.
Qed.

Lemma valend_safe pre rest i k st h1 : HInv pre i st -> is_body (h_state (hx_h st)) = false -> (k <= length rest)%nat ->
  pf_end (h_name h1) <= i + nnat k -> pf_end (h_val h1) <= i + nnat k -> h_state h1 = HValEnd ->
  hl_step_res pre rest i (hl_valend (zrest k rest) i k st h1).
Proof.
  intros Hinv Hb Hk Hn Hv Hs. unfold hl_valend.
  pose proof (skipLWS_bounds false (zrest k rest)) as Hbd. rewrite zrest_length in Hbd.
  destruct (skipLWS false (zrest k rest)) as [k2|k2 crl|k2] eqn:El.
  - apply skipLWS_ok_lt in El. rewrite zrest_length in El.
    unfold hl_step_res. split; [lia|]. apply (HInv_seth pre _ i _ st); auto; try (unfold nnat; lia);
      destruct h1; unfold pf_end in *; cbn in *; unfold nnat in *; try lia; reflexivity.
  - unfold hl_step_res, HQ. split; [unfold nnat; lia|]. split; [intros E; discriminate|]. intros _. split; [unfold nnat; lia|].
    destruct st as [h [v|]]; cbn; [|exact I]. apply (PVq_mono i); [exact (HInv_pvq pre i _ Hinv Hb)|unfold nnat; lia].
  - unfold hl_step_res. replace (i + nnat k + nnat k2) with (i + nnat (k + k2)) by (unfold nnat; lia).
    apply HQ_more_at; auto; try lia; [unfold nnat in *; lia|unfold nnat in *; lia|now rewrite Hs].
Qed.

Lemma hl_step_ok pre rest i st : i = nnat (length pre) -> HInv pre i st -> hl_step_res pre rest i (hit pre rest i st).
Proof.
  intros Hi Hinv. pose proof Hinv as (H1 & H2 & H3). unfold pf_end in H1, H2.
  destruct rest as [|c r1]; [cbn; apply HQ_more_here; exact Hinv|].
  destruct (h_state (hx_h st)) eqn:Hs.
  - (* HInit *)
    assert (Hb : is_body (h_state (hx_h st)) = false) by now rewrite Hs.
    rewrite hit_init by exact Hs.
    assert (Hfin : forall o, i <= o -> o <= i + nnat (length (c :: r1)) ->
              hl_step_res pre (c :: r1) i (Ret o EEmpty (st <| hx_h := (hx_h st) <| h_state := HFIN |> |>)))
      by (intros o Ho1 Ho2; apply HQ_err; [exact Ho2|discriminate|discriminate]).
    destruct (is_cr c).
    { destruct r1 as [|d r2]; [apply HQ_more_here; exact Hinv|]. apply Hfin; destruct (is_lf d); unfold nnat; cbn [length]; lia. }
    destruct (is_lf c); [apply Hfin; unfold nnat; cbn [length]; lia|].
    unfold pf_set. rewrite N.ltb_irrefl, N.sub_diag.
    apply name_safe; [exact Hi| |destruct st as [[? ? ? ?] ?]; reflexivity].
    rewrite <- (N.add_0_r i) at 1. change 0 with (nnat 0). change pre with (zpre 0 pre (c :: r1)).
    apply (HInv_seth pre _ i _ st); auto; try (unfold nnat; lia); destruct st as [[? ? ? ?] ?]; unfold pf_end in *; cbn in *; unfold nnat; try lia; reflexivity.
  - rewrite hit_name by exact Hs. apply name_safe; assumption.
  - (* HNameEnd *)
    assert (Hb : is_body (h_state (hx_h st)) = false) by now rewrite Hs.
    rewrite hit_nameend by exact Hs. unfold hl_nameend. set (k := skipWS (c :: r1)).
    assert (Hk : (k <= length (c :: r1))%nat) by apply span_le.
    destruct (skipn k (c :: r1)) as [|d r] eqn:Es.
    + unfold hl_step_res. rewrite <- (st_eta st). apply HQ_more_at; auto; unfold pf_end in *; unfold nnat; try lia; now rewrite Hs.
    + pose proof (skipn_cons_len _ _ _ _ Es) as Hl.
      destruct (d =? 58); [|apply HQ_err; [unfold nnat; lia|discriminate|discriminate]].
      apply colon_safe; [exact Hi|lia|unfold pf_end, nnat; lia|unfold pf_end, nnat; lia|exact (HInv_pvq pre i st Hinv Hb)].
  - (* HBodyStart *)
    assert (Hb : is_body (h_state (hx_h st)) = false) by now rewrite Hs.
    rewrite hit_bstart by exact Hs. unfold hl_bstart.
    pose proof (skipLWS_bounds false (c :: r1)) as Hbd.
    destruct (skipLWS false (c :: r1)) as [k|k crl|k] eqn:El.
    + unfold pf_set. rewrite N.ltb_irrefl, N.sub_diag.
      assert (Hk : (S k <= length (c :: r1))%nat) by (apply skipLWS_ok_lt in El; lia).
      unfold hl_step_res. split; [lia|]. apply (HInv_seth pre _ i _ st); auto; try (unfold nnat; lia);
        destruct st as [[? ? ? ?] ?]; unfold pf_end in *; cbn in *; unfold nnat; try lia; reflexivity.
    + unfold hl_step_res, HQ. split; [unfold nnat; lia|]. split; [intros E; discriminate|]. intros _. split; [unfold nnat; lia|].
      destruct st as [h [v|]]; cbn; [|exact I]. apply (PVq_mono i); [exact (HInv_pvq pre i _ Hinv Hb)|unfold nnat; lia].
    + unfold hl_step_res. rewrite <- (st_eta st). apply HQ_more_at; auto; unfold pf_end in *; unfold nnat; try lia; now rewrite Hs.
  - (* HVal *)
    assert (Hb : is_body (h_state (hx_h st)) = false) by now rewrite Hs.
    rewrite hit_val by exact Hs. unfold hl_val. set (k := skipToken (c :: r1)).
    assert (Hk : (k <= length (c :: r1))%nat) by apply span_le.
    destruct (skipn k (c :: r1)) as [|d r] eqn:Es.
    + unfold hl_step_res. rewrite <- (st_eta st). apply HQ_more_at; auto; unfold pf_end in *; unfold nnat; try lia; now rewrite Hs.
    + rewrite pf_extend_some by (unfold nnat; lia). rewrite <- Es.
      apply (valend_safe pre (c :: r1) i k st); auto; destruct (hx_h st); unfold pf_end in *; cbn in *; unfold nnat; try lia; reflexivity.
  - (* HValEnd *)
    assert (Hb : is_body (h_state (hx_h st)) = false) by now rewrite Hs.
    rewrite hit_valend by exact Hs.
    apply (valend_safe pre (c :: r1) i 0 st); auto; unfold pf_end, nnat; try lia.
  - destruct (hx_pv st) as [v|] eqn:Hv; [|cbn in H3; discriminate].
    rewrite (hit_body HFrom _ _ _ _ _ v eq_refl Hs Hv).
    pose proof (hb_run_safe HFrom pre (c :: r1) i st v eq_refl Hi ltac:(unfold pf_end; lia) ltac:(unfold pf_end; lia) H3) as H.
    destruct (hb_run HFrom pre (c :: r1) i st v); try contradiction. exact H.
  - destruct (hx_pv st) as [v|] eqn:Hv; [|cbn in H3; discriminate].
    rewrite (hit_body HTo _ _ _ _ _ v eq_refl Hs Hv).
    pose proof (hb_run_safe HTo pre (c :: r1) i st v eq_refl Hi ltac:(unfold pf_end; lia) ltac:(unfold pf_end; lia) H3) as H.
    destruct (hb_run HTo pre (c :: r1) i st v); try contradiction. exact H.
  - destruct (hx_pv st) as [v|] eqn:Hv; [|cbn in H3; discriminate].
    rewrite (hit_body HCallID _ _ _ _ _ v eq_refl Hs Hv).
    pose proof (hb_run_safe HCallID pre (c :: r1) i st v eq_refl Hi ltac:(unfold pf_end; lia) ltac:(unfold pf_end; lia) H3) as H.
    destruct (hb_run HCallID pre (c :: r1) i st v); try contradiction. exact H.
  - destruct (hx_pv st) as [v|] eqn:Hv; [|cbn in H3; discriminate].
    rewrite (hit_body HCSeq _ _ _ _ _ v eq_refl Hs Hv).
    pose proof (hb_run_safe HCSeq pre (c :: r1) i st v eq_refl Hi ltac:(unfold pf_end; lia) ltac:(unfold pf_end; lia) H3) as H.
    destruct (hb_run HCSeq pre (c :: r1) i st v); try contradiction. exact H.
  - destruct (hx_pv st) as [v|] eqn:Hv; [|cbn in H3; discriminate].
    rewrite (hit_body HCLen _ _ _ _ _ v eq_refl Hs Hv).
    pose proof (hb_run_safe HCLen pre (c :: r1) i st v eq_refl Hi ltac:(unfold pf_end; lia) ltac:(unfold pf_end; lia) H3) as H.
    destruct (hb_run HCLen pre (c :: r1) i st v); try contradiction. exact H.
  - destruct (hx_pv st) as [v|] eqn:Hv; [|cbn in H3; discriminate].
    rewrite (hit_body HContact _ _ _ _ _ v eq_refl Hs Hv).
    pose proof (hb_run_safe HContact pre (c :: r1) i st v eq_refl Hi ltac:(unfold pf_end; lia) ltac:(unfold pf_end; lia) H3) as H.
    destruct (hb_run HContact pre (c :: r1) i st v); try contradiction. exact H.
  - destruct (hx_pv st) as [v|] eqn:Hv; [|cbn in H3; discriminate].
    rewrite (hit_body HExpires _ _ _ _ _ v eq_refl Hs Hv).
    pose proof (hb_run_safe HExpires pre (c :: r1) i st v eq_refl Hi ltac:(unfold pf_end; lia) ltac:(unfold pf_end; lia) H3) as H.
    destruct (hb_run HExpires pre (c :: r1) i st v); try contradiction. exact H.
  - destruct (hx_pv st) as [v|] eqn:Hv; [|cbn in H3; discriminate].
    rewrite (hit_body HPAI _ _ _ _ _ v eq_refl Hs Hv).
    pose proof (hb_run_safe HPAI pre (c :: r1) i st v eq_refl Hi ltac:(unfold pf_end; lia) ltac:(unfold pf_end; lia) H3) as H.
    destruct (hb_run HPAI pre (c :: r1) i st v); try contradiction. exact H.
  - rewrite hit_fin by exact Hs. apply HQ_err; [unfold nnat; lia|discriminate|discriminate].
Qed.

(* ParseHdrLine as an exported call *)
Theorem hdrline_safe buf offs st : offs <= nnat (length buf) -> HInv (rev (firstn (N.to_nat offs) buf)) offs st ->
  match parse_hdrline buf offs st with
  | Done o e st' => o <= nnat (length buf) /\
                    (e = EMore -> offs <= o /\ HInv (rev (firstn (N.to_nat o) buf)) o st') /\
                    (e = EOk -> offs <= o /\ match hx_pv st' with None => True | Some v' => PVq o v' end)
  | _ => False
  end.
Proof.
  intros Ho Hinv.
  pose proof (rl_parse hl_iter HInv (fun _ _ _ => True) (fun o st' => match hx_pv st' with None => True | Some v' => PVq o v' end)) as H.
  specialize (H ltac:(intros p r j s Hj HI; pose proof (hl_step_ok p r j s Hj HI) as X; unfold hl_step_res, HQ, rl_Q in *;
                      destruct (hit p r j s); auto; destruct X as (X1 & X2 & X3); auto) buf offs st Ho Hinv).
  unfold parse_hdrline. destruct (parse hl_iter buf offs st) as [o e st'| |]; auto. destruct H as (H1 & _ & H3 & H4). auto.
Qed.

(* ---- the header block ------------------------------------------------------------------------------------------------------ *)
Definition HSInv (pre : list byte) (i : N) (st : hdrs_st) : Prop :=
  HInv pre i (hs_sel st) /\ ~ hl_fin (hs_sel st) /\ hl_wf (hs_l st).
Definition HSQ (pre rest : list byte) (i o : N) (e : err) (st : hdrs_st) : Prop :=
  o <= i + nnat (length rest) /\
  (e = EMore -> exists k, (k <= length rest)%nat /\ o = i + nnat k /\ HSInv (zpre k pre rest) o st) /\
  (e = EOk -> i <= o).
Definition hs_step_res (pre rest : list byte) (i : N) (r : ires hdrs_st) : Prop :=
  match r with
  | Next k st' => (0 < k <= length rest)%nat /\ HSInv (zpre k pre rest) (i + nnat k) st'
  | Ret o e st' => HSQ pre rest i o e st'
  | IPanic => False
  end.

Lemma hl_run_q pre rest i st : i = nnat (length pre) -> HInv pre i st ->
  match run hl_iter pre rest i 0 st with
  | Done o e st' => HQ pre rest i o e st'
  | _ => False
  end.
Proof.
  intros Hi Hinv.
  pose proof (rl_run hl_iter HInv (fun _ _ _ => True) (fun o st' => match hx_pv st' with None => True | Some v' => PVq o v' end)) as H.
  specialize (H ltac:(intros p r j s Hj HI; pose proof (hl_step_ok p r j s Hj HI) as X; unfold hl_step_res, HQ, rl_Q in *;
                      destruct (hit p r j s); auto; destruct X as (X1 & X2 & X3); auto) pre rest i st Hi Hinv).
  destruct (run hl_iter pre rest i 0 st) as [o e st'| |]; auto. destruct H as (H1 & _ & H3 & H4). unfold HQ. auto.
Qed.

Lemma hs_step_ok pre rest i st : i = nnat (length pre) -> HSInv pre i st -> hs_step_res pre rest i (hs_iter pre rest i st).
Proof.
  intros Hi (Hinv & Hnf & Hwf). destruct rest as [|c r].
  { cbn. unfold HSQ. split; [lia|]. split; [|intros E; discriminate]. intros _. exists 0%nat. split; [lia|]. split; [unfold nnat; lia|].
    replace (i + nnat 0) with i by (unfold nnat; lia). exact (conj Hinv (conj Hnf Hwf)). }
  rewrite hs_iter_def.
  pose proof (hl_run_q pre (c :: r) i (hs_sel st) Hi Hinv) as H.
  destruct (run hl_iter pre (c :: r) i 0 (hs_sel st)) as [n e x| |] eqn:Er; try contradiction.
  destruct H as (H1 & H2 & H3). unfold hs_post. cbv zeta.
  assert (Hweak : forall e' s', e' <> EMore -> (e' = EOk -> i <= n) -> hs_step_res pre (c :: r) i (Ret n e' s')).
  { intros e' s' N1 N2. unfold hs_step_res, HSQ. split; [exact H1|]. split; [intros E; congruence|exact N2]. }
  destruct e; try (apply Hweak; [discriminate|intros E; discriminate]).
  - (* the header is complete *)
    destruct (H3 eq_refl) as [Hin Hq].
    pose proof (hl_run_ok pre (c :: r) i (hs_sel st) n x Er) as (O1 & [O2|O2] & O3); [|contradiction].
    unfold hs_step_res. split; [unfold nnat in *; lia|]. replace (i + nnat (N.to_nat (n - i))) with n by (unfold nnat; lia).
    set (h := hx_h x).
    destruct (hl_store_proj (hs_l st) h) as (S1 & S2 & S3 & S4 & S5).
    set (l1 := hl_store (hs_l st) h) in *.
    set (p1 := l1 <| hl_pflags := _ |>).
    assert (Pp : hl_n p1 = hl_n l1 /\ hl_hdrs p1 = hl_hdrs l1 /\ hl_tmp p1 = hl_tmp l1) by (subst p1; destruct l1; cbn; repeat split; reflexivity).
    destruct Pp as (B2 & B3 & B4).
    destruct (hl_sethdr_proj p1 h) as (C1 & C2 & C3 & C4 & C5). set (l2 := hl_sethdr p1 h) in *.
    set (l3 := if hl_is_tmp (hs_l st) then l2 <| hl_tmp := hdr0 |> else l2).
    assert (D : hl_n l3 = hl_n l2 /\ hl_hdrs l3 = hl_hdrs l2 /\ hl_tmp l3 = (if hl_is_tmp (hs_l st) then hdr0 else hl_tmp l2))
      by (subst l3; destruct (hl_is_tmp (hs_l st)); destruct l2; cbn; repeat split; reflexivity).
    destruct D as (D2 & D3 & D5).
    set (l4 := l3 <| hl_n := hl_n l3 + 1 |>).
    assert (F : hl_n l4 = hl_n l3 + 1 /\ hl_hdrs l4 = hl_hdrs l3 /\ hl_tmp l4 = hl_tmp l3) by (subst l4; destruct l3; cbn; repeat split; reflexivity).
    destruct F as (G2 & G3 & G5).
    assert (X1 : hl_n l4 = hl_n (hs_l st) + 1) by (rewrite G2, D2, C2, B2, S2; reflexivity).
    assert (X2 : hl_hdrs l4 = (if hl_is_tmp (hs_l st) then hl_hdrs (hs_l st) else set_nth (N.to_nat (hl_n (hs_l st))) h (hl_hdrs (hs_l st)))) by (rewrite G3, D3, C3, B3, S4; reflexivity).
    assert (X3 : hl_tmp l4 = (if hl_is_tmp (hs_l st) then hdr0 else hl_tmp (hs_l st))) by (rewrite G5, D5, C4, B4, S5; destruct (hl_is_tmp (hs_l st)); reflexivity).
    pose proof (hnext_slot (hs_l st) l4 h Hwf X1 X2 X3) as Hslot. pose proof (hnext_wf (hs_l st) l4 h Hwf X1 X2 X3) as Hwf4.
    unfold HSInv, hs_sel. cbn [hs_l hs_pv]. rewrite Hslot. split; [|split; [|exact Hwf4]].
    + unfold HInv. cbn. split; [unfold pf_end; cbn; lia|]. split; [unfold pf_end; cbn; lia|].
      destruct (hx_pv x) as [v'|]; [apply PVq_PV; exact Hq|reflexivity].
    + apply nb_not_fin. reflexivity.
  - (* end of the block *)
    destruct (0 <? _); apply Hweak; try discriminate; intros _;
      pose proof (run_sel_bounds hl_iter (fun e => e = EEmpty)) as Hb;
      specialize (Hb ltac:(intros p r0 j s; pose proof (hl_iter_empty p r0 j s) as Y; destruct (hit p r0 j s) as [|o1 e1 s1|]; auto; intros ->; exact Y)
                    (c :: r) pre i (hs_sel st) n EEmpty x Er eq_refl); lia.
  - (* suspended inside a header *)
    destruct (H2 eq_refl) as (k & Hk & Hn & Hinv').
    unfold hs_step_res, HSQ. split; [exact H1|]. split; [|intros E; discriminate]. intros _. exists k. split; [exact Hk|]. split; [exact Hn|].
    unfold HSInv. change (mkhdrs_st (hl_store (hs_l st) (hx_h x)) (hx_pv x)) with (hs_store st x). rewrite hs_sel_store.
    split; [exact Hinv'|]. split; [|unfold hs_store; cbn; apply hl_wf_store; exact Hwf].
    apply (hl_run_more pre (c :: r) i (hs_sel st) n x ltac:(intros E; discriminate E) Er).
Qed.

Theorem headers_safe buf offs st : offs <= nnat (length buf) -> HSInv (rev (firstn (N.to_nat offs) buf)) offs st ->
  match parse_headers buf offs st with
  | Done o e st' => o <= nnat (length buf) /\
                    (e = EMore -> offs <= o /\ HSInv (rev (firstn (N.to_nat o) buf)) o st') /\ (e = EOk -> offs <= o)
  | _ => False
  end.
Proof.
  intros Ho Hinv.
  pose proof (rl_parse hs_iter HSInv (fun _ _ _ => True) (fun _ _ => True)) as H.
  specialize (H ltac:(intros p r j s Hj HI; pose proof (hs_step_ok p r j s Hj HI) as X; unfold hs_step_res, HSQ, rl_Q in *;
                      destruct (hs_iter p r j s); auto; destruct X as (X1 & X2 & X3); repeat split; auto; intros E; specialize (X3 E); auto) buf offs st Ho Hinv).
  unfold parse_headers. destruct (parse hs_iter buf offs st) as [o e st'| |]; auto. destruct H as (H1 & _ & H3 & H4).
  split; [exact H1|]. split; [exact H3|]. intros E. apply (H4 E).
Qed.

(* ---- the message ------------------------------------------------------------------------------------------------------------ *)
(* a header block that has not been started: it can be started at any later offset *)
Definition HSstart (i : N) (hs : hdrs_st) : Prop :=
  hl_wf (hs_l hs) /\ is_body (h_state (hl_slot (hs_l hs))) = false /\
  pf_end (h_name (hl_slot (hs_l hs))) <= i /\ pf_end (h_val (hl_slot (hs_l hs))) <= i /\
  match hs_pv hs with None => True | Some v => PVq i v end.
Lemma HSstart_inv i o pre' hs : HSstart i hs -> i <= o -> HSInv pre' o hs.
Proof.
  intros (Hwf & Hb & Hn & Hv & Hq) Ho. unfold HSInv, hs_sel. split; [|split; [|exact Hwf]].
  - unfold HInv. cbn. split; [lia|]. split; [lia|]. destruct (hs_pv hs) as [v|]; [apply PVq_PV; apply (PVq_mono i); assumption|exact Hb].
  - apply nb_not_fin. exact Hb.
Qed.

Definition MInv (pre : list byte) (i : N) (m : pmsg) : Prop :=
  match m_state m with
  | MInit => fl_inv i (m_fl m) /\ HSstart i (m_hs m)
  | MFLine => fl_inv i (m_fl m) /\ HSstart i (m_hs m) /\ m_offs m <= i
  | MHeaders => HSInv pre i (m_hs m) /\ m_offs m <= i
  | MBody => m_offs m <= i
  | _ => True
  end.

Lemma body_safe flags L o m : o <= L -> m_offs m <= o ->
  match msg_body flags L o m with
  | Done n e m' => n <= L /\ (e = EMore -> n = o /\ m_state m' = m_state m /\ m_offs m' = m_offs m) /\ (e = EOk -> o <= n)
  | _ => False
  end.
Proof.
  intros Ho Hoffs. unfold msg_body, msg_end. rewrite body_set. destruct m as [fl hs body bl raw st offs]. cbn in Hoffs.
  cbn -[testbit N.ltb N.add N.sub pf_extend]. set (cl := pv_clen _).
  assert (PE : forall x, o <= x -> pf_extend (mkpf o 0) x = Some (mkpf o (x - o))) by (intros x Hx; apply pf_extend_some; exact Hx).
  repeat match goal with
         | |- context [if ?b then _ else _] => destruct b eqn:?
         end; rewrite ?PE by lia; cbn -[N.add N.sub];
  repeat match goal with
         | |- context [if ?b then _ else _] => destruct b eqn:?
         end; try lia; repeat split; intros; try discriminate; try lia.
Qed.

Definition MQ (buf : list byte) (offs : N) (r : res pmsg) : Prop :=
  match r with
  | Done o e m' => o <= nnat (length buf) /\
                   (e = EMore -> offs <= o /\ MInv (rev (firstn (N.to_nat o) buf)) o m') /\ (e = EOk -> offs <= o)
  | _ => False
  end.

Lemma fail_safe flags buf offs o e m : o <= nnat (length buf) -> e <> EOk ->
  (e = EMore -> offs <= o /\ MInv (rev (firstn (N.to_nat o) buf)) o m) -> MQ buf offs (msg_fail flags o e m).
Proof.
  intros Ho He Hm. unfold msg_fail, MQ. destruct e; try (split; [exact Ho|split; intros E; congruence]).
  destruct (testbit flags bSIPMsgNoMoreData); [split; [exact Ho|split; intros E; discriminate]|].
  split; [exact Ho|]. split; [intros _; apply Hm; reflexivity|intros E; discriminate].
Qed.

Lemma mheaders_safe flags buf offs o m : o <= nnat (length buf) -> offs <= o -> m_offs m <= o -> m_state m = MHeaders ->
  HSInv (rev (firstn (N.to_nat o) buf)) o (m_hs m) -> MQ buf offs (msg_headers flags buf o m).
Proof.
  intros Ho Hoo Hoffs Hst Hinv. unfold msg_headers.
  pose proof (headers_safe buf o (m_hs m) Ho Hinv) as H.
  destruct (parse_headers buf o (m_hs m)) as [o1 e hs1| |]; try contradiction. destruct H as (H1 & H2 & H3).
  destruct e; try (apply fail_safe; [exact H1|discriminate|intros E; discriminate]).
  - (* the body *)
    specialize (H3 eq_refl).
    pose proof (body_safe flags (nnat (length buf)) o1 (m <| m_hs := hs1 |> <| m_state := MBody |>) H1 ltac:(destruct m; cbn in *; lia)) as Hb.
    destruct (msg_body flags (nnat (length buf)) o1 _) as [n e m'| |]; try contradiction. destruct Hb as (B1 & B2 & B3).
    unfold MQ. split; [exact B1|]. split.
    + intros E. destruct (B2 E) as (-> & Es & Eo). split; [lia|]. unfold MInv. rewrite Es. destruct m; cbn in *. lia.
    + intros E. specialize (B3 E). lia.
  - (* suspended in the headers *)
    apply fail_safe; [exact H1|discriminate|]. intros _. destruct (H2 eq_refl) as [Hoo1 Hinv1]. split; [lia|].
    unfold MInv. destruct m; cbn in *. subst. split; [exact Hinv1|lia].
Qed.

Lemma mfline_safe flags buf offs m : offs <= nnat (length buf) -> m_offs m <= offs -> m_state m = MFLine ->
  fl_inv offs (m_fl m) -> HSstart offs (m_hs m) -> MQ buf offs (msg_fline flags buf offs m).
Proof.
  intros Ho Hoffs Hst Hfl Hhs. unfold msg_fline.
  pose proof (fline_safe buf offs (m_fl m) Ho Hfl) as H.
  destruct (parse_fline buf offs (m_fl m)) as [o1 e fl1| |]; try contradiction. destruct H as (H1 & H2 & H3 & H4).
  destruct e; try (apply fail_safe; [exact H1|discriminate|intros E; discriminate]).
  - destruct (H4 eq_refl) as [H4' _]. clear H4. rename H4' into H4.
    apply mheaders_safe; [exact H1|exact H4|destruct m; cbn in *; lia|destruct m; reflexivity|].
    destruct m; cbn in *. apply (HSstart_inv offs); assumption.
  - apply fail_safe; [exact H1|discriminate|]. intros _. destruct (H3 eq_refl) as [Hoo1 Hfl1]. split; [exact Hoo1|].
    unfold MInv. destruct m; cbn in *. subst. split; [exact Hfl1|]. split; [|lia].
    destruct Hhs as (A1 & A2 & A3 & A4 & A5). split; [exact A1|]. split; [exact A2|]. split; [lia|]. split; [lia|].
    destruct (hs_pv m_hs) as [v|]; [apply (PVq_mono offs); assumption|exact I].
Qed.

(* C04 for ParseSIPMsg: no panic, no stuck loop, the returned offset is inside the buffer and, on success or
   suspension, not before the start offset; a suspended object satisfies the invariant again *)
Theorem message_safe flags buf offs m : offs <= nnat (length buf) -> MInv (rev (firstn (N.to_nat offs) buf)) offs m ->
  MQ buf offs (parse_sipmsg flags buf offs m).
Proof.
  intros Ho Hinv. unfold parse_sipmsg. cbv zeta.
  assert (Est : m_state (m <| m_buflen := nnat (length buf) |>) = m_state m) by (destruct m; reflexivity).
  rewrite Est. unfold MInv in Hinv.
  destruct (m_state m) eqn:Es.
  - destruct Hinv as [Hfl Hhs]. apply mfline_safe; destruct m; cbn in *; auto; lia.
  - destruct Hinv as (Hfl & Hhs & Hoffs). apply mfline_safe; destruct m; cbn in *; auto.
  - destruct Hinv as [Hhs Hoffs]. apply mheaders_safe; destruct m; cbn in *; auto; lia.
  - pose proof (body_safe flags (nnat (length buf)) offs (m <| m_buflen := nnat (length buf) |>) Ho ltac:(destruct m; cbn in *; lia)) as Hb.
    destruct (msg_body flags (nnat (length buf)) offs _) as [n e m'| |]; try contradiction. destruct Hb as (B1 & B2 & B3).
    unfold MQ. split; [exact B1|]. split.
    + intros E. destruct (B2 E) as (-> & Es' & Eo). split; [lia|]. unfold MInv. rewrite Es'. destruct m; cbn in *. rewrite Es. lia.
    + intros E. specialize (B3 E). lia.
  - apply fail_safe; [exact Ho|discriminate|intros E; discriminate].
  - apply fail_safe; [exact Ho|discriminate|intros E; discriminate].
  - apply fail_safe; [exact Ho|discriminate|intros E; discriminate].
Qed.

(* ---- fresh objects -------------------------------------------------------------------------------------------------------------- *)
Lemma ct_inv_init n pre' o : ct_inv pre' o (contacts_init (repeat pfrom0 n)).
Proof.
  unfold ct_inv, contacts_init. rewrite ct_sel_eq. cbn [ct_lasthval po].
  assert (Hsel : (if nnat (length (repeat pfrom0 n)) <=? 0 then if fb_parsed pfrom0 then pfrom0 else pfrom0 else nth (N.to_nat 0) (repeat pfrom0 n) pfrom0) = pfrom0)
    by (destruct (_ <=? 0); [destruct (fb_parsed pfrom0); reflexivity|apply nth_repeat]).
  rewrite Hsel. split; [apply pfrom0_inv; cbn; lia|]. split; [unfold pf_end; cbn; lia|].
  split; [intros j _; apply nth_repeat|reflexivity].
Qed.
Lemma pa_inv_init pre' o : pa_inv pre' o pais0.
Proof.
  assert (Hsel : pa_sel pais0 = pfrom0) by (vm_compute; reflexivity).
  unfold pa_inv. rewrite Hsel. split; [apply pfrom0_inv; cbn; lia|]. split; [unfold pf_end; cbn; lia|].
  split; [intros j _; unfold pais0; cbn [pa_vals]; apply nth_repeat|reflexivity].
Qed.
Lemma PVq_init n o : PVq o (phvals_init (repeat pfrom0 n)).
Proof.
  unfold PVq, phvals_init. cbn.
  assert (Hq : qt_fb o pfrom0) by (right; split; [unfold fb_bnd, pf_end; cbn; repeat split; try lia; intros; lia|split; [reflexivity|reflexivity]]).
  split; [exact Hq|]. split; [exact Hq|]. split; [right; apply callid0_inv|]. split; [right; apply cseq0_inv|].
  split; [split; [unfold pf_end; cbn; lia|right; apply uintb0_inv]|]. split; [split; [unfold pf_end; cbn; lia|right; apply uintb0_inv]|].
  split; [intros pre'; apply ct_inv_init|intros pre'; apply pa_inv_init].
Qed.
Lemma HSstart_init nh nc o : HSstart o (mkhdrs_st (hdrlst_init (repeat hdr0 nh)) (Some (phvals_init (repeat pfrom0 nc)))).
Proof.
  unfold HSstart. cbn [hs_l hs_pv].
  assert (Hslot : hl_slot (hdrlst_init (repeat hdr0 nh)) = hdr0)
    by (unfold hl_slot, hdrlst_init, hl_is_tmp, hl_cap; cbn; destruct (_ <=? 0); [reflexivity|apply nth_repeat]).
  rewrite Hslot. split; [split; [intros j _; apply nth_repeat|reflexivity]|]. split; [reflexivity|].
  split; [unfold pf_end; cbn; lia|]. split; [unfold pf_end; cbn; lia|apply PVq_init].
Qed.
Theorem MInv_init L nh nc pre o : MInv pre o (msg_init L (repeat hdr0 nh) (repeat pfrom0 nc)).
Proof. unfold MInv, msg_init. cbn. split; [apply fline0_inv|apply HSstart_init]. Qed.
Theorem MInv_reset m pre o : MInv pre o (msg_reset m).
Proof. unfold msg_reset. rewrite !map_const_repeat. apply MInv_init. Qed.

(* ---- every chunk schedule ----------------------------------------------------------------------------------------------------------- *)
Lemma firstn_firstn_le {A} (l : list A) a b : (a <= b)%nat -> firstn a (firstn b l) = firstn a l.
Proof. intros H. rewrite firstn_firstn. now rewrite Nat.min_l. Qed.

Theorem message_safe_chunked flags b : forall cuts k m, Resume.sorted_from (N.to_nat k) cuts -> k <= nnat (length b) ->
  MInv (rev (firstn (N.to_nat k) b)) k m ->
  match chunked (parse_sipmsg flags) b cuts k m with
  | Done o e m' => o <= nnat (length b) /\ (e = EOk -> k <= o)
  | _ => False
  end.
Proof.
  induction cuts as [|c cs IH]; intros k m Hs Hk Hinv; cbn [chunked].
  - pose proof (message_safe flags b k m Hk Hinv) as H. unfold MQ in H.
    destruct (parse_sipmsg flags b k m) as [o e m'| |]; auto. destruct H as (H1 & _ & H3). auto.
  - destruct Hs as [Hkc Hs].
    destruct (le_lt_dec c (length b)) as [Hcb|Hcb].
    + assert (Hlen : length (firstn c b) = c) by (apply firstn_length_le; exact Hcb).
      pose proof (message_safe flags (firstn c b) k m) as H. rewrite Hlen in H.
      rewrite (firstn_firstn_le b (N.to_nat k) c Hkc) in H. specialize (H ltac:(unfold nnat; lia) Hinv). unfold MQ in H.
      destruct (parse_sipmsg flags (firstn c b) k m) as [o e m'| |]; auto. destruct H as (H1 & H2 & H3).
      destruct e; try (split; [unfold nnat in *; lia|intros E; try discriminate; apply H3; exact E]).
      destruct (H2 eq_refl) as [Hko Hinv']. rewrite (firstn_firstn_le b (N.to_nat o) c ltac:(unfold nnat in *; lia)) in Hinv'.
      specialize (IH o m' ltac:(destruct cs as [|c2 cs2]; [exact I|destruct Hs as [Hc2 Hs2]; split; [unfold nnat in *; lia|exact Hs2]]) ltac:(unfold nnat in *; lia) Hinv').
      destruct (chunked (parse_sipmsg flags) b cs o m') as [o2 e2 m2| |]; auto. destruct IH as [I1 I2]. split; [exact I1|intros E; specialize (I2 E); lia].
    + (* the cut lies beyond the buffer: the prefix is the whole buffer *)
      rewrite (firstn_all2 b) by lia.
      pose proof (message_safe flags b k m Hk Hinv) as H. unfold MQ in H.
      destruct (parse_sipmsg flags b k m) as [o e m'| |]; auto. destruct H as (H1 & H2 & H3).
      destruct e; try (split; [exact H1|intros E; try discriminate; apply H3; exact E]).
      destruct (H2 eq_refl) as [Hko Hinv'].
      assert (Hs' : Resume.sorted_from (N.to_nat o) cs).
      { destruct cs as [|c2 cs2]; [exact I|]. destruct Hs as [Hc2 Hs2]. split; [unfold nnat in *; lia|exact Hs2]. }
      specialize (IH o m' Hs' H1 Hinv').
      destruct (chunked (parse_sipmsg flags) b cs o m') as [o2 e2 m2| |]; auto. destruct IH as [I1 I2]. split; [exact I1|intros E; specialize (I2 E); lia].
Qed.

(* ---- the two multi-value lists as exported calls ------------------------------------------------------------------------------------------ *)
Theorem contacts_safe buf offs c : offs <= nnat (length buf) -> ct_inv (rev (firstn (N.to_nat offs) buf)) offs c ->
  match parse_all_contacts buf offs c with
  | Done o e c' => o <= nnat (length buf) /\ pf_end (ct_lasthval c') <= nnat (length buf) /\
                   (e = EMore -> offs <= o /\ ct_inv (rev (firstn (N.to_nat o) buf)) o c') /\
                   (e = EOk -> offs <= o /\ forall pre', ct_inv pre' o c')
  | _ => False
  end.
Proof.
  intros Ho Hinv.
  pose proof (rl_parse ct_iter ct_inv (fun o _ c => pf_end (ct_lasthval c) <= o) (fun n c => forall pre', ct_inv pre' n c)) as H.
  exact (H ltac:(intros p r j s Hj HI; pose proof (ct_step_ok p r j s (conj Hj HI)) as X; unfold ct_step_res, ct_P, ct_Q, rl_Q in *;
                      destruct (ct_iter p r j s); auto; destruct X as [X1 [X2 X3]]; auto) buf offs c Ho Hinv).
Qed.
Theorem pais_safe buf offs c : offs <= nnat (length buf) -> pa_inv (rev (firstn (N.to_nat offs) buf)) offs c ->
  match parse_all_pais buf offs c with
  | Done o e c' => o <= nnat (length buf) /\ pf_end (pa_lasthval c') <= nnat (length buf) /\
                   (e = EMore -> offs <= o /\ pa_inv (rev (firstn (N.to_nat o) buf)) o c') /\
                   (e = EOk -> offs <= o /\ forall pre', pa_inv pre' o c')
  | _ => False
  end.
Proof.
  intros Ho Hinv.
  pose proof (rl_parse pa_iter pa_inv (fun o _ c => pf_end (pa_lasthval c) <= o) (fun n c => forall pre', pa_inv pre' n c)) as H.
  exact (H ltac:(intros p r j s Hj HI; pose proof (pa_step_ok p r j s (conj Hj HI)) as X; unfold pa_step_res, pa_P, pa_Q, rl_Q in *;
                      destruct (pa_iter p r j s); auto; destruct X as [X1 [X2 X3]]; auto) buf offs c Ho Hinv).
Qed.
