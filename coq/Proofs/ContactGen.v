(* C09, list level, general values: ParseAllContactValues on [LWS] value *( [LWS] "," [LWS] value ) [blanks] end-of-line where every value is any
   text the value-level theorems cover (display name, bracketed URI, the general parameter part): every value is counted (also those
   that do not fit the array), value j is what the value parser reports for text j at its own offset, the header-value span runs
   from the first byte of the first value to the last byte of the last one.  A comma inside a quoted string does not split. *)
From Sipsp Require Import Driver Harness RunLemmas Ext ExtLeaf ZSlice HdrSpec UIntSpec TokSpec NameAddrSpec ExtLists Capacity ContactSpec TokItem NameAddrParam NameAddrGen SafeMore.
From Coq Require Import ZifyN ZifyNat ZifyBool.
From RecordUpdate Require Import RecordUpdate.

Notation itc := (fb_iter HdrContact).
(* a value text the value parser is known to handle: ended by [LWS] "," it asks for more values, ended by blanks and the end of the
   line it is the last one; either way the value reported is gv_v at its offset and spans exactly the text *)
Record gval := mkgval { gv_l : list byte; gv_x : list byte; gv_g : list byte; gv_v : N -> pfrom }.
Definition gv_okh (h : N) (g : gval) : Prop :=
  gp (gv_l g) /\ (exists c X', gv_x g = c :: X' /\ is_ws c = false) /\
  gp (gv_g g) /\ gv_x g <> [] /\
  (forall (pre y : list byte) i, i = nnat (length pre) ->
     run (fb_iter h) pre (gv_x g ++ gv_g g ++ (44 : byte) :: y) i 0 pfrom0 = Done (i + nnat (length (gv_x g)) + nnat (length (gv_g g)) + 1) EMoreValues (gv_v g i)) /\
  (forall (pre sp : list byte) x tail i, i = nnat (length pre) -> spaces sp -> is_sp x = false ->
     run (fb_iter h) pre (gv_x g ++ sp ++ CR :: LF :: x :: tail) i 0 pfrom0 = Done (i + nnat (length (gv_x g)) + nnat (length sp) + 2) EOk (gv_v g i)) /\
  (forall i, fb_parsed (gv_v g i) = true /\ fb_v (gv_v g i) = mkpf i (nnat (length (gv_x g))) /\ fb_star (gv_v g i) = false).
Definition gv_ok (g : gval) : Prop := gv_okh HdrContact g.

Definition gv_step (g : gval) : list byte := gv_l g ++ gv_x g ++ gv_g g ++ [(44 : byte)].
Definition gv_at (i : N) (g : gval) : N := i + nnat (length (gv_l g)).
(* white space in front of a value is skipped *)
Lemma init_gap (pre l : list byte) c (z : list byte) i : gp l -> is_ws c = false ->
  run itc pre (l ++ c :: z) i 0 pfrom0 = run itc (rev l ++ pre) (c :: z) (i + nnat (length l)) 0 pfrom0.
Proof.
  intros [->|Hw] Hc; [cbn [app rev length]; f_equal; unfold nnat; lia|].
  apply (g_lws HdrContact pre l c z i pfrom0 pfrom0); [|exact Hw|exact Hc].
  intros c0 r Hc0. apply ws_class in Hc0. unfold fb_iter. cbn [fb_state pfrom0]. unfold fb_step, fb_gA. rewrite Hc0. reflexivity.
Qed.
Lemma gv_lead g (pre z : list byte) i : gv_ok g -> i = nnat (length pre) ->
  run itc pre (gv_l g ++ gv_x g ++ z) i 0 pfrom0 = run itc (rev (gv_l g) ++ pre) (gv_x g ++ z) (gv_at i g) 0 pfrom0 /\
  gv_at i g = nnat (length (rev (gv_l g) ++ pre)).
Proof.
  intros (Hl & (c & X' & Ex & Hc) & _) Hi. split; [|unfold gv_at; rewrite app_length, rev_length, Hi; unfold nnat; lia].
  rewrite Ex. cbn [app]. apply init_gap; assumption.
Qed.
Lemma ctg_iter_comma (pre y : list byte) i g l : i = nnat (length pre) -> gv_ok g -> CtI i l ->
  ct_iter pre (gv_step g ++ y) i l = Next (length (gv_step g)) (ct_addv l (gv_v g (gv_at i g)) true).
Proof.
  intros Hi Hok (Hwf & Hsel & Hlh). destruct (gv_lead g pre (gv_g g ++ (44 : byte) :: y) i Hok Hi) as [El Ea].
  destruct Hok as (_ & _ & Hg & Hne & Hc & _ & Hv). destruct (Hv (gv_at i g)) as (Hp & Hfv & Hst).
  unfold gv_step. rewrite <- !app_assoc. cbn [app]. rewrite ct_iter_def, Hsel, El, (Hc _ y _ Ea), ct_post_eq. cbv zeta.
  unfold ct_addv. destruct (ct_store_proj l (gv_v g (gv_at i g))) as (_ & _ & _ & _ & S5 & _).
  destruct (ct_count_some (ct_store l (gv_v g (gv_at i g))) (gv_v g (gv_at i g)) ltac:(rewrite S5, Hfv; unfold pf_end, gv_at in *; cbn [po pl]; lia)) as (c6 & E6 & _).
  rewrite E6. f_equal. rewrite !app_length. cbn [length]. unfold gv_at, nnat. lia.
Qed.
Lemma ctg_iter_eol (pre sp : list byte) x tail i g l : i = nnat (length pre) -> gv_ok g -> spaces sp -> is_sp x = false -> CtI i l ->
  ct_iter pre (gv_l g ++ gv_x g ++ sp ++ CR :: LF :: x :: tail) i l
  = Ret (gv_at i g + nnat (length (gv_x g)) + nnat (length sp) + 2) EOk (ct_addv l (gv_v g (gv_at i g)) false).
Proof.
  intros Hi Hok Hsp Hx (Hwf & Hsel & Hlh). destruct (gv_lead g pre (sp ++ CR :: LF :: x :: tail) i Hok Hi) as [El Ea].
  destruct Hok as (_ & _ & Hg & Hne & _ & He & Hv). destruct (Hv (gv_at i g)) as (Hp & Hfv & Hst).
  rewrite ct_iter_def, Hsel, El, (He _ sp x tail _ Ea Hsp Hx), ct_post_eq. cbv zeta.
  unfold ct_addv. destruct (ct_store_proj l (gv_v g (gv_at i g))) as (_ & _ & _ & _ & S5 & _).
  destruct (ct_count_some (ct_store l (gv_v g (gv_at i g))) (gv_v g (gv_at i g)) ltac:(rewrite S5, Hfv; unfold pf_end, gv_at in *; cbn [po pl]; lia)) as (c6 & E6 & _).
  rewrite E6. reflexivity.
Qed.

(* the list text, the values at their offsets, the end of the last value *)
Fixpoint gl_text (gs : list gval) (sp : list byte) : list byte :=
  match gs with [] => [] | [g] => gv_l g ++ gv_x g ++ sp | g :: gs' => gv_step g ++ gl_text gs' sp end.
Fixpoint gl_vals (i : N) (gs : list gval) : list pfrom :=
  match gs with [] => [] | [g] => [gv_v g (gv_at i g)] | g :: gs' => gv_v g (gv_at i g) :: gl_vals (i + nnat (length (gv_step g))) gs' end.
Fixpoint gl_end (i : N) (gs : list gval) : N :=
  match gs with [] => i | [g] => gv_at i g + nnat (length (gv_x g)) | g :: gs' => gl_end (i + nnat (length (gv_step g))) gs' end.
Lemma gl_text_cons2 g g2 gs sp : gl_text (g :: g2 :: gs) sp = gv_step g ++ gl_text (g2 :: gs) sp. Proof. reflexivity. Qed.
Lemma gl_vals_cons2 i g g2 gs : gl_vals i (g :: g2 :: gs) = gv_v g (gv_at i g) :: gl_vals (i + nnat (length (gv_step g))) (g2 :: gs). Proof. reflexivity. Qed.
Lemma gl_end_cons2 i g g2 gs : gl_end i (g :: g2 :: gs) = gl_end (i + nnat (length (gv_step g))) (g2 :: gs). Proof. reflexivity. Qed.
Lemma gl_vals_cons i g gs : exists v vs, gl_vals i (g :: gs) = v :: vs.
Proof. destruct gs; cbn [gl_vals]; eexists; eexists; reflexivity. Qed.
Lemma gv_step_ne g : gv_step g <> [].
Proof. unfold gv_step. destruct (gv_l g); [destruct (gv_x g); [destruct (gv_g g)|]|]; discriminate. Qed.

Lemma addv_CtI i l g j : gv_ok g -> CtI i l -> gv_at i g + nnat (length (gv_x g)) <= j -> CtI j (ct_addv l (gv_v g (gv_at i g)) true).
Proof.
  intros (_ & _ & _ & _ & _ & _ & Hv) Hl Hj. destruct (Hv (gv_at i g)) as (Hp & Hfv & Hst). destruct Hl as (W & Sl & Lh).
  destruct (ct_addv_facts i l (gv_v g (gv_at i g)) true (conj W (conj Sl Lh)) ltac:(rewrite Hfv; unfold pf_end, gv_at in *; cbn [po pl]; lia) Hp) as (F1 & F2 & F3 & F4 & F5 & F6).
  split; [exact F3|]. split; [apply F4; reflexivity|]. rewrite F5, Hfv.
  destruct ((ct_n l =? 0) || pf_empty (ct_lasthval l)); unfold pf_end, gv_at in *; cbn [po pl]; lia.
Qed.

Lemma glist_run gs : forall (pre sp : list byte) i l x tail, gs <> [] -> Forall gv_ok gs -> spaces sp -> is_sp x = false -> i = nnat (length pre) -> CtI i l ->
  run ct_iter pre (gl_text gs sp ++ CR :: LF :: x :: tail) i 0 l = Done (gl_end i gs + nnat (length sp) + 2) EOk (ct_addvs l (gl_vals i gs)).
Proof.
  induction gs as [|g gs IH]; intros pre sp i l x tail Hne Hall Hsp Hx Hi Hl; [congruence|].
  pose proof (Forall_inv Hall) as Hg. pose proof (Forall_inv_tail Hall) as Hall'.
  destruct gs as [|g2 gs].
  - cbn [gl_text gl_vals gl_end ct_addvs]. rewrite <- !app_assoc. rewrite run_after.
    rewrite (ctg_iter_eol pre sp x tail i g l Hi Hg Hsp Hx Hl). reflexivity.
  - rewrite gl_text_cons2, gl_vals_cons2, gl_end_cons2.
    assert (Eadd : ct_addvs l (gv_v g (gv_at i g) :: gl_vals (i + nnat (length (gv_step g))) (g2 :: gs))
                   = ct_addvs (ct_addv l (gv_v g (gv_at i g)) true) (gl_vals (i + nnat (length (gv_step g))) (g2 :: gs))).
    { destruct (gl_vals_cons (i + nnat (length (gv_step g))) g2 gs) as (v2 & vs2 & Ev). rewrite Ev. reflexivity. }
    rewrite Eadd. clear Eadd. rewrite <- app_assoc.
    rewrite (run_step ct_iter pre (gv_step g) _ i l _ (gv_step_ne g) (ctg_iter_comma pre _ i g l Hi Hg Hl)).
    apply IH; auto; [discriminate|rewrite app_length, rev_length, Hi; unfold nnat; lia|].
    apply (addv_CtI i l g _ Hg Hl). unfold gv_step, gv_at. rewrite !app_length. unfold nnat. lia.
Qed.

(* facts about the list after the values *)
Definition gl_start (i : N) (gs : list gval) : N := match gs with [] => i | g :: _ => gv_at i g end.
Lemma gaddvs_facts gs : forall i l, gs <> [] -> Forall gv_ok gs -> CtI i l ->
  let C := ct_addvs l (gl_vals i gs) in
  ct_n C = ct_n l + nnat (length gs) /\ length (ct_vals C) = length (ct_vals l) /\
  (forall j, (j < N.to_nat (ct_n l))%nat -> nth j (ct_vals C) pfrom0 = nth j (ct_vals l) pfrom0) /\
  (forall j, (j < length gs)%nat -> (N.to_nat (ct_n l) + j < length (ct_vals l))%nat ->
     nth (N.to_nat (ct_n l) + j) (ct_vals C) pfrom0 = nth j (gl_vals i gs) pfrom0) /\
  ct_lasthval C = (if (ct_n l =? 0) || pf_empty (ct_lasthval l) then mkpf (gl_start i gs) (gl_end i gs - gl_start i gs)
                   else mkpf (po (ct_lasthval l)) (gl_end i gs - po (ct_lasthval l))) /\ gl_start i gs < gl_end i gs.
Proof.
  induction gs as [|g gs IH]; intros i l Hne Hall Hl; [congruence|].
  pose proof (Forall_inv Hall) as Hg. pose proof (Forall_inv_tail Hall) as Hall'.
  pose proof Hg as Hg0. destruct Hg as (Hgl & Hfirst & Hgg & Hxne & Hc & He & Hv). destruct (Hv (gv_at i g)) as (Hp & Hfv & Hst).
  assert (Hxl : 0 < nnat (length (gv_x g))) by (destruct (gv_x g); [congruence|cbn [length]; unfold nnat; lia]).
  assert (Hia : i <= gv_at i g) by (unfold gv_at; lia).
  assert (Hb : pf_end (ct_lasthval l) <= pf_end (fb_v (gv_v g (gv_at i g)))) by (destruct Hl as (_ & _ & Hx); rewrite Hfv; unfold pf_end in *; cbn [po pl]; lia).
  cbn [gl_start].
  destruct gs as [|g2 gs].
  - cbn [gl_vals ct_addvs gl_end length]. cbv zeta.
    destruct (ct_addv_facts i l (gv_v g (gv_at i g)) false Hl Hb Hp) as (F1 & F2 & F3 & F4 & F5 & F6).
    split; [rewrite F1; unfold nnat; lia|]. split; [exact F2|]. split; [|split; [|split; [|lia]]].
    + intros j Hj. destruct (le_lt_dec (length (ct_vals l)) j) as [Hge|Hlt]; [rewrite !nth_overflow by (try rewrite F2; lia); reflexivity|].
      rewrite (F6 j ltac:(lia) Hlt). replace (j =? N.to_nat (ct_n l))%nat with false by lia. reflexivity.
    + intros j Hj Hcc. cbn [length] in Hj. apply Nat.lt_1_r in Hj. subst j. rewrite Nat.add_0_r in *. rewrite (F6 (N.to_nat (ct_n l)) ltac:(lia) Hcc), Nat.eqb_refl. reflexivity.
    + rewrite F5, Hfv. unfold pf_end. cbn [po pl].
      destruct ((ct_n l =? 0) || pf_empty (ct_lasthval l)); f_equal; lia.
  - rewrite gl_vals_cons2, gl_end_cons2.
    assert (Eadd : ct_addvs l (gv_v g (gv_at i g) :: gl_vals (i + nnat (length (gv_step g))) (g2 :: gs))
                   = ct_addvs (ct_addv l (gv_v g (gv_at i g)) true) (gl_vals (i + nnat (length (gv_step g))) (g2 :: gs))).
    { destruct (gl_vals_cons (i + nnat (length (gv_step g))) g2 gs) as (v2 & vs2 & Ev). rewrite Ev. reflexivity. }
    cbv zeta. rewrite Eadd. clear Eadd.
    destruct (ct_addv_facts i l (gv_v g (gv_at i g)) true Hl Hb Hp) as (F1 & F2 & F3 & F4 & F5 & F6).
    set (i1 := i + nnat (length (gv_step g))).
    assert (Hi1 : gv_at i g + nnat (length (gv_x g)) <= i1) by (subst i1; unfold gv_step, gv_at; rewrite !app_length; unfold nnat; lia).
    pose proof (addv_CtI i l g i1 Hg0 Hl Hi1) as Hl1.
    set (l1 := ct_addv l (gv_v g (gv_at i g)) true) in *.
    destruct (IH i1 l1 ltac:(discriminate) Hall' Hl1) as (G1 & G2 & G3 & G4 & G5 & G6).
    assert (Hs2 : i1 <= gl_start i1 (g2 :: gs)) by (cbn [gl_start]; unfold gv_at; lia).
    split; [rewrite G1, F1; cbn [length]; unfold nnat; lia|]. split; [rewrite G2, F2; reflexivity|]. split; [|split; [|split; [|lia]]].
    + intros j Hj. rewrite G3 by (rewrite F1; lia).
      destruct (le_lt_dec (length (ct_vals l)) j) as [Hge|Hlt]; [rewrite !nth_overflow by (try rewrite F2; lia); reflexivity|].
      rewrite (F6 j ltac:(lia) Hlt). replace (j =? N.to_nat (ct_n l))%nat with false by lia. reflexivity.
    + intros j Hj Hcc. destruct j as [|j].
      * rewrite Nat.add_0_r in *. cbn [nth]. rewrite G3 by (rewrite F1; lia). rewrite (F6 (N.to_nat (ct_n l)) ltac:(lia) Hcc), Nat.eqb_refl. reflexivity.
      * cbn [nth]. replace (N.to_nat (ct_n l) + S j)%nat with (N.to_nat (ct_n l1) + j)%nat by (rewrite F1; lia).
        apply G4; [cbn [length] in *; lia|rewrite F1, F2; lia].
    + rewrite G5, F1, F5, Hfv.
      replace (ct_n l + 1 =? 0) with false by lia. cbn [orb].
      assert (Hne1 : pf_empty (if (ct_n l =? 0) || pf_empty (ct_lasthval l) then mkpf (gv_at i g) (nnat (length (gv_x g)))
                               else mkpf (po (ct_lasthval l)) (pf_end (mkpf (gv_at i g) (nnat (length (gv_x g)))) - po (ct_lasthval l))) = false).
      { destruct Hl as (_ & _ & Hx). destruct ((ct_n l =? 0) || pf_empty (ct_lasthval l)); unfold pf_empty, pf_end in *; cbn [po pl]; lia. }
      rewrite Hne1.
      destruct ((ct_n l =? 0) || pf_empty (ct_lasthval l)); unfold pf_end; cbn [po pl]; f_equal; lia.
Qed.

Theorem contact_general_list_spec gs (junk sp : list byte) x tail n : gs <> [] -> Forall gv_ok gs -> spaces sp -> is_sp x = false ->
  let i := nnat (length junk) in
  let vs := gl_vals i gs in
  exists C, parse_all_contacts (junk ++ gl_text gs sp ++ CR :: LF :: x :: tail) i (contacts_init (repeat pfrom0 n))
            = Done (gl_end i gs + nnat (length sp) + 2) EOk C /\
    ct_n C = nnat (length gs) /\
    (forall j, (j < length gs)%nat -> (j < n)%nat -> nth j (ct_vals C) pfrom0 = nth j vs pfrom0) /\
    ct_lasthval C = mkpf (gl_start i gs) (gl_end i gs - gl_start i gs).
Proof.
  intros Hne Hall Hsp Hx i vs. set (l0 := contacts_init (repeat pfrom0 n)).
  assert (Hl0 : CtI i l0).
  { unfold CtI, l0, contacts_init. split; [split; [intros j _; apply nth_repeat|reflexivity]|]. split.
    - rewrite ct_sel_eq. destruct (_ <=? 0); [reflexivity|apply nth_repeat].
    - unfold pf_end. cbn. lia. }
  exists (ct_addvs l0 vs). unfold parse_all_contacts. subst i. rewrite FLineSpec.parse_at.
  rewrite (glist_run gs (rev junk) sp (nnat (length junk)) l0 x tail Hne Hall Hsp Hx ltac:(now rewrite rev_length) Hl0).
  split; [reflexivity|].
  destruct (gaddvs_facts gs (nnat (length junk)) l0 Hne Hall Hl0) as (G1 & G2 & G3 & G4 & G5 & _). fold vs in G1, G2, G3, G4, G5.
  split; [rewrite G1; reflexivity|]. split.
  - intros j Hj Hjn. pose proof (G4 j Hj) as A. change (ct_n l0) with 0 in A. cbn [N.to_nat Nat.add] in A. apply A.
    unfold l0, contacts_init. cbn [ct_vals]. rewrite repeat_length. exact Hjn.
  - rewrite G5. reflexivity.
Qed.

(* ---- the value texts of NameAddrGen.v are such values -------------------------------------------------------------------------------------- *)
Lemma run_parse_c h (pre rest : list byte) i : i = nnat (length pre) -> run (fb_iter h) pre rest i 0 pfrom0 = parse_nameaddr h (rev pre ++ rest) (nnat (length (rev pre))) pfrom0.
Proof. intros Hi. unfold parse_nameaddr. rewrite rev_length, <- Hi. apply run_as_parse. exact Hi. Qed.

(* ---- P-Asserted-Identity values: ParseOnePAI is the value parser plus the rejection of the star ------------------------------------------- *)
Lemma pai_one_same buf offs s o e s' : parse_nameaddr HdrPAI buf offs s = Done o e s' -> fb_star s' = false -> parse_one_pai buf offs s = Done o e s'.
Proof. intros H Hs. unfold parse_one_pai. rewrite H, Hs, Bool.andb_false_r. reflexivity. Qed.
Lemma general_values_no_star h p L t i b d : fb_star b = false ->
  fb_star (finW h d (t_apply p (i + nnat (length (its_bytes L))) t (its_state p i L b))) = false.
Proof.
  intros Hb. cbn [finW fb_star]. pose proof (t_apply_un p (i + nnat (length (its_bytes L))) t (its_state p i L b)) as U.
  rewrite its_state_un in U. unfold unview in U. injection U as _ _ U3. rewrite U3. exact Hb.
Qed.

Lemma nchar0_nonws c : nchar0 c -> is_ws c = false.
Proof. unfold nchar0, ccls_of. destruct (is_ws c); [contradiction|reflexivity]. Qed.
Lemma bhead_first D uri : disp D -> exists c X', bhead D uri = c :: X' /\ is_ws c = false.
Proof.
  intros HD. unfold bhead. destruct HD as [|n0 name H0 _|n0 name w H0 _ _|n0 name w c T H0 _ _ _ _|q T _ _].
  - exists 60. eexists. split; reflexivity.
  - exists n0. eexists. split; [reflexivity|apply nchar0_nonws; exact H0].
  - exists n0. eexists. split; [reflexivity|apply nchar0_nonws; exact H0].
  - exists n0. eexists. split; [reflexivity|apply nchar0_nonws; exact H0].
  - exists 34. eexists. split; reflexivity.
Qed.
Definition gv_plainh (h : N) (l D uri g : list byte) : gval :=
  mkgval l (bhead D uri) g (fun i0 => fD h (dname i0 D) i0 (i0 + nnat (length D) + 1) (nnat (length uri))).
Lemma gv_plain_okh h l D uri g : multipleValsOk h = true -> gp l -> disp D -> Forall uchar uri -> gp g -> gv_okh h (gv_plainh h l D uri g).
Proof.
  intros Hmv Hl HD Hu Hg. unfold gv_okh, gv_plainh. cbn [gv_l gv_x gv_g gv_v].
  split; [exact Hl|]. split; [apply bhead_first; exact HD|].
  split; [exact Hg|]. split; [unfold bhead; destruct D; discriminate|]. split; [|split].
  - intros pre y i Hi. rewrite (run_parse_c h pre _ i Hi).
    rewrite (nameaddr_display_uri_comma h (rev pre) D uri g y Hmv HD Hu Hg). rewrite rev_length, <- Hi.
    f_equal. unfold bhead. repeat (rewrite app_length; cbn [length]). unfold nnat. lia.
  - intros pre sp x tail i Hi Hsp Hx. rewrite (run_parse_c h pre _ i Hi).
    rewrite (nameaddr_display_uri_eol h (rev pre) D uri sp x tail HD Hu Hsp Hx). rewrite rev_length, <- Hi.
    f_equal. unfold bhead. repeat (rewrite app_length; cbn [length]). unfold nnat. lia.
  - intros i. split; [reflexivity|]. split; [|reflexivity]. unfold fD. cbn [fb_v]. f_equal. unfold bhead. repeat (rewrite app_length; cbn [length]). unfold nnat. lia.
Qed.

Definition gvp_x (D uri g0 : list byte) (L : list pit) (t : pit) : list byte := bhead D uri ++ g0 ++ (59 : byte) :: its_bytes L ++ t_body t.
Definition gvp_v (h : N) (D uri g0 : list byte) (L : list pit) (t : pit) (i0 : N) : pfrom :=
  let us := i0 + nnat (length D) + 1 in let lu := nnat (length uri) in
  let i := us + lu + 1 + nnat (length g0) + 1 in let j := i + nnat (length (its_bytes L)) in
  finW h (t_d j t) (t_apply false j t (its_state false i L (bD (dname i0 D) i0 us lu))).
Definition gv_paramsh (h : N) (l D uri g0 : list byte) (L : list pit) (t : pit) : gval := mkgval l (gvp_x D uri g0 L t) (t_g4 t) (gvp_v h D uri g0 L t).
Lemma gv_params_okh h l D uri g0 L t : multipleValsOk h = true -> gp l -> disp D -> Forall uchar uri -> gp g0 -> Forall t_ok L -> t_ok t -> gv_okh h (gv_paramsh h l D uri g0 L t).
Proof.
  intros Hmv Hl HD Hu Hg HL Ht. unfold gv_okh, gv_paramsh. cbn [gv_l gv_x gv_g gv_v].
  assert (Hg4 : gp (t_g4 t)) by (destruct Ht as (_ & _ & _ & H); exact H).
  assert (Hlen : forall i0, let us := i0 + nnat (length D) + 1 in let lu := nnat (length uri) in
            let i := us + lu + 1 + nnat (length g0) + 1 in let j := i + nnat (length (its_bytes L)) in t_d j t = i0 + nnat (length (gvp_x D uri g0 L t))).
  { intros i0 us lu i j. subst j i us lu. unfold t_d, gvp_x, bhead. repeat (rewrite app_length; cbn [length]). unfold nnat. lia. }
  split; [exact Hl|]. split; [unfold gvp_x; destruct (bhead_first D uri HD) as (c & X' & -> & Hc); exists c; eexists; split; [reflexivity|exact Hc]|].
  split; [exact Hg4|]. split; [unfold gvp_x, bhead; destruct D; discriminate|]. split; [|split].
  - intros pre y i Hi. rewrite (run_parse_c h pre _ i Hi). unfold gvp_x. repeat (rewrite <- ?app_assoc; cbn [app]).
    pose proof (nameaddr_display_params_comma h (rev pre) D uri g0 L t y Hmv HD Hu Hg HL Ht) as T. cbv zeta in T.
    repeat (rewrite <- ?app_assoc in T; cbn [app] in T). rewrite T. rewrite rev_length, <- Hi. unfold gvp_v. cbv zeta.
    f_equal. pose proof (Hlen i) as E. cbv zeta in E. rewrite E. unfold gvp_x. repeat (rewrite <- ?app_assoc; cbn [app]). lia.
  - intros pre sp x tail i Hi Hsp Hx. rewrite (run_parse_c h pre _ i Hi). unfold gvp_x. repeat (rewrite <- ?app_assoc; cbn [app]).
    pose proof (nameaddr_display_params_eol h (rev pre) D uri g0 L t sp x tail HD Hu Hg HL Ht Hsp Hx) as T. cbv zeta in T.
    repeat (rewrite <- ?app_assoc in T; cbn [app] in T). rewrite T. rewrite rev_length, <- Hi. unfold gvp_v. cbv zeta.
    f_equal. pose proof (Hlen i) as E. cbv zeta in E. rewrite E. unfold gvp_x. repeat (rewrite <- ?app_assoc; cbn [app]). lia.
  - intros i0. unfold gvp_v. cbv zeta.
    set (us := i0 + nnat (length D) + 1). set (lu := nnat (length uri)). set (i := us + lu + 1 + nnat (length g0) + 1). set (j := i + nnat (length (its_bytes L))).
    destruct (gen_result_fields h false L t i (bD (dname i0 D) i0 us lu) (t_d j t) ltac:(subst i; lia) eq_refl) as (F1 & _ & _ & _ & _ & _ & F7).
    fold j in F1, F7. split; [unfold fb_parsed; rewrite F1; reflexivity|]. split; [|apply general_values_no_star; reflexivity]. rewrite F7. cbn [bD fb_v po]. f_equal.
    pose proof (Hlen i0) as E. cbv zeta in E. fold us lu i j in E. lia.
Qed.

(* bare URIs *)
Definition gv_bareh (h : N) (l : list byte) (n0 : byte) (name g : list byte) : gval := mkgval l (n0 :: name) g (fun i0 => fB h i0 (nnat (length (n0 :: name)))).
Lemma gv_bare_okh h l n0 name g : multipleValsOk h = true -> gp l -> nchar0 n0 -> Forall nchar name -> gp g -> gv_okh h (gv_bareh h l n0 name g).
Proof.
  intros Hmv Hl Hn0 Hname Hg. unfold gv_okh, gv_bareh. cbn [gv_l gv_x gv_g gv_v].
  split; [exact Hl|]. split; [exists n0, name; split; [reflexivity|apply nchar0_nonws; exact Hn0]|].
  split; [exact Hg|]. split; [discriminate|]. split; [|split].
  - intros pre y i Hi. rewrite (run_parse_c h pre _ i Hi).
    rewrite (nameaddr_bare_comma h (rev pre) n0 name g y Hmv Hn0 Hname Hg). rewrite rev_length, <- Hi. reflexivity.
  - intros pre sp x tail i Hi Hsp Hx. rewrite (run_parse_c h pre _ i Hi).
    rewrite (nameaddr_bare_eol h (rev pre) n0 name sp x tail Hn0 Hname Hsp Hx). rewrite rev_length, <- Hi. reflexivity.
  - intros i. repeat split; reflexivity.
Qed.
Definition gvb_x (n0 : byte) (name g0 : list byte) (L : list pit) (t : pit) : list byte := headB n0 name g0 ++ its_bytes L ++ t_body t.
Definition gvb_v (h : N) (n0 : byte) (name g0 : list byte) (L : list pit) (t : pit) (i0 : N) : pfrom :=
  let i := i0 + nnat (length (headB n0 name g0)) in let j := i + nnat (length (its_bytes L)) in
  finW h (t_d j t) (t_apply true j t (its_state true i L (bB i0 (nnat (length (n0 :: name))) g0))).
Definition gv_bare_paramsh (h : N) (l : list byte) (n0 : byte) (name g0 : list byte) (L : list pit) (t : pit) : gval := mkgval l (gvb_x n0 name g0 L t) (t_g4 t) (gvb_v h n0 name g0 L t).
Lemma gv_bare_params_okh h l n0 name g0 L t : multipleValsOk h = true -> gp l -> nchar0 n0 -> Forall nchar name -> gp g0 -> Forall t_ok L -> t_ok t -> gv_okh h (gv_bare_paramsh h l n0 name g0 L t).
Proof.
  intros Hmv Hl Hn0 Hname Hg HL Ht. unfold gv_okh, gv_bare_paramsh. cbn [gv_l gv_x gv_g gv_v].
  assert (Hg4 : gp (t_g4 t)) by (destruct Ht as (_ & _ & _ & H); exact H).
  assert (Hlen : forall i0, let i := i0 + nnat (length (headB n0 name g0)) in let j := i + nnat (length (its_bytes L)) in
            t_d j t = i0 + nnat (length (gvb_x n0 name g0 L t))).
  { intros i0 i j. subst j i. unfold t_d, gvb_x. repeat (rewrite app_length; cbn [length]). unfold nnat. lia. }
  split; [exact Hl|]. split; [unfold gvb_x, headB; exists n0; eexists; split; [cbn [app]; reflexivity|apply nchar0_nonws; exact Hn0]|].
  split; [exact Hg4|]. split; [unfold gvb_x, headB; discriminate|]. split; [|split].
  - intros pre y i Hi. rewrite (run_parse_c h pre _ i Hi). unfold gvb_x. repeat (rewrite <- ?app_assoc).
    pose proof (nameaddr_bare_params_comma h (rev pre) n0 name g0 L t y Hmv Hn0 Hname Hg HL Ht) as T. cbv zeta in T.
    rewrite T. rewrite rev_length, <- Hi. unfold gvb_v. cbv zeta.
    f_equal. pose proof (Hlen i) as E. cbv zeta in E. rewrite E. unfold gvb_x. lia.
  - intros pre sp x tail i Hi Hsp Hx. rewrite (run_parse_c h pre _ i Hi). unfold gvb_x. repeat (rewrite <- ?app_assoc).
    pose proof (nameaddr_bare_params_eol h (rev pre) n0 name g0 L t sp x tail Hn0 Hname Hg HL Ht Hsp Hx) as T. cbv zeta in T.
    rewrite T. rewrite rev_length, <- Hi. unfold gvb_v. cbv zeta.
    f_equal. pose proof (Hlen i) as E. cbv zeta in E. rewrite E. unfold gvb_x. lia.
  - intros i0. unfold gvb_v. cbv zeta.
    set (i := i0 + nnat (length (headB n0 name g0))). set (j := i + nnat (length (its_bytes L))).
    destruct (gen_result_fields h true L t i (bB i0 (nnat (length (n0 :: name))) g0) (t_d j t) ltac:(subst i; unfold headB; cbn [length app]; unfold nnat; lia) eq_refl) as (F1 & _ & _ & _ & _ & _ & F7).
    fold j in F1, F7. split; [unfold fb_parsed; rewrite F1; reflexivity|]. split; [|apply general_values_no_star; reflexivity]. rewrite F7. cbn [bB fb_v po]. f_equal.
    pose proof (Hlen i0) as E. cbv zeta in E. fold i j in E. lia.
Qed.


(* the Contact instances *)
Definition gv_plain := gv_plainh HdrContact.
Definition gv_params := gv_paramsh HdrContact.
Definition gv_bare := gv_bareh HdrContact.
Definition gv_bare_params := gv_bare_paramsh HdrContact.
Lemma gv_plain_ok l D uri g : gp l -> disp D -> Forall uchar uri -> gp g -> gv_ok (gv_plain l D uri g).
Proof. apply gv_plain_okh. reflexivity. Qed.
Lemma gv_params_ok l D uri g0 L t : gp l -> disp D -> Forall uchar uri -> gp g0 -> Forall t_ok L -> t_ok t -> gv_ok (gv_params l D uri g0 L t).
Proof. apply gv_params_okh. reflexivity. Qed.
Lemma gv_bare_ok l n0 name g : gp l -> nchar0 n0 -> Forall nchar name -> gp g -> gv_ok (gv_bare l n0 name g).
Proof. apply gv_bare_okh. reflexivity. Qed.
Lemma gv_bare_params_ok l n0 name g0 L t : gp l -> nchar0 n0 -> Forall nchar name -> gp g0 -> Forall t_ok L -> t_ok t -> gv_ok (gv_bare_params l n0 name g0 L t).
Proof. apply gv_bare_params_okh. reflexivity. Qed.
