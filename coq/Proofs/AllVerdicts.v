(* C04: whatever ParseSIPMsg answers - ok, more bytes, any error - every field of the values kept in PHdrVals (From, To, Call-ID, CSeq,
   Content-Length, Expires, every Contact and P-Asserted-Identity value) ends inside the buffer: a caller that looks at them after an error or
   a suspension never slices out of range.  One call from fresh objects (every value parser then starts on a fresh or finished object), any
   feeding schedule by C01.  UpperBound.v bounds the fields by the returned offset when the answer is ok; here the bound is the buffer end. *)
From Sipsp Require Import RunLemmas Safe Resume Ext ExtLeaf ZSlice Harness ExtFLine ExtAdv ExtHdrLine ExtHeaders ExtLists
  SafeLeaf SafeMore SafeMsg Capacity CapHeaders Layout BlockSpec ContactSpec TrimSpec LowerLists LowerBound UpperBound NameAddrNest.
From Sipsp Require Import MsgBounds ExtMsg SigCoherent.
From Coq Require Import ZifyN ZifyNat ZifyBool.
From RecordUpdate Require Import RecordUpdate.

Definition UBo (B : N) (o : option phvals) : Prop := match o with Some v => UBv B v | None => True end.
Lemma UPo_UBo i B p : i <= B -> UPo i p -> UBo B p.
Proof. destruct p as [v|]; [|auto]. intros H [A _]. exact (UBv_mono i B v H A). Qed.

(* ---- the leaves, every verdict --------------------------------------------------------------------------------------------------------------- *)
Lemma ci_run_wb pre rest o s n e s' : o = nnat (length pre) -> PRci s -> ci_parsed s = false -> UBci o s ->
  run ci_iter pre rest o 0 s = Done n e s' -> UBci (o + nnat (length rest)) s'.
Proof.
  intros Ho [Hp|[Hst Hz]] Hnp Hb H; [congruence|].
  pose proof (callid_safe (rev pre ++ rest) o s) as S. rewrite (run_len pre rest o Ho) in S.
  specialize (S ltac:(lia) ltac:(split; [intros E; congruence|exact Hb])).
  unfold parse_callid in S. rewrite <- (run_as_parse ci_iter pre rest o s Ho), H in S. destruct S as (_ & _ & _ & S4). exact S4.
Qed.
Lemma cs_run_wb pre rest o s n e s' : o = nnat (length pre) -> cs_inv o s ->
  run cs_iter pre rest o 0 s = Done n e s' -> cs_inv (o + nnat (length rest)) s'.
Proof.
  intros Ho Hb H. pose proof (cseq_safe (rev pre ++ rest) o s) as S. rewrite (run_len pre rest o Ho) in S.
  specialize (S ltac:(lia) Hb). unfold parse_cseq in S. rewrite <- (run_as_parse cs_iter pre rest o s Ho), H in S.
  destruct S as (_ & S2 & _). exact S2.
Qed.
Lemma ui_run_wb pre rest o s n e s' : o = nnat (length pre) -> PRui s -> ui_parsed s = false -> UBui o s ->
  run ui_iter pre rest o 0 s = Done n e s' -> UBui (o + nnat (length rest)) s'.
Proof.
  intros Ho [Hp|[Hst Hz]] Hnp Hb H; [congruence|].
  pose proof (uint_safe (rev pre ++ rest) o s) as S. rewrite (run_len pre rest o Ho) in S.
  specialize (S ltac:(lia) ltac:(split; [intros E; congruence|exact Hb])).
  unfold parse_uint in S. rewrite <- (run_as_parse ui_iter pre rest o s Ho), H in S. destruct S as (_ & _ & _ & S4). exact S4.
Qed.
Lemma clen_run_wb pre rest o s n e s' : o = nnat (length pre) -> PRui s -> ui_parsed s = false -> UBui o s ->
  clen_R pre rest o s = Done n e s' -> UBui (o + nnat (length rest)) s'.
Proof.
  intros Ho Hpr Hnp Hb H. unfold clen_R in H. destruct (run ui_iter pre rest o 0 s) as [n1 e1 b1| |] eqn:E; try discriminate.
  pose proof (ui_run_wb pre rest o s n1 e1 b1 Ho Hpr Hnp Hb E) as X.
  destruct e1; try (injection H as <- <- <-; exact X). destruct (_ || _); injection H as <- <- <-; exact X.
Qed.
Lemma fb_fresh_wb h pre rest i o e v : i = nnat (length pre) -> run (fb_iter h) pre rest i 0 pfrom0 = Done o e v -> UBfb (i + nnat (length rest)) v.
Proof.
  intros Hi H. pose proof (fb_run_ok 0 h pre rest i pfrom0 (conj Hi (fb_inv_pfrom0 0 pre i (N.le_0_l i)))) as Sf. rewrite H in Sf.
  destruct Sf as (_ & S2 & _). exact S2.
Qed.

(* ---- the lists, every verdict ---------------------------------------------------------------------------------------------------------------- *)
Lemma UBct_store i c v : UBct i c -> UBfb i v -> UBct i (ct_store c v).
Proof.
  intros (A & B & C & D) Hv. destruct (ct_store_proj c v) as (S1 & S2 & S3 & S4 & S5 & S6 & S7 & S8). unfold UBct. rewrite S5, S6, S7, S8.
  split; [destruct (ct_slot_is_last c); [exact A|apply Forall_set_nth; assumption]|].
  split; [destruct (ct_slot_is_last c); assumption|]. split; assumption.
Qed.
Lemma UBct_reset i b c : UBct i c -> UBct i (ct_reset_last_if b c).
Proof. intros (A & B & C & D). unfold ct_reset_last_if. destruct b; [|exact (conj A (conj B (conj C D)))]. destruct c. unfold UBct. cbn in *. split; [exact A|]. split; [apply UBfb_0|]. split; assumption. Qed.
Lemma ct_iter_wb pre rest i c : i = nnat (length pre) -> UBct i c -> LBct 0 c ->
  match ct_iter pre rest i c with Ret o e c' => UBct (i + nnat (length rest)) c' | _ => True end.
Proof.
  intros Hi Hub Hlb. destruct Hlb as (Hwf & Hsel & Hlh). rewrite ct_iter_def, Hsel.
  destruct (run (fb_iter HdrContact) pre rest i 0 pfrom0) as [next e v| |] eqn:Er; [|exact I|exact I].
  pose proof (fb_fresh_wb HdrContact pre rest i next e v Hi Er) as Hv.
  assert (HB : i <= i + nnat (length rest)) by lia. apply (UBct_mono i _ c HB) in Hub.
  pose proof (UBct_store _ c v Hub Hv) as H1.
  rewrite ct_post_eq. cbv zeta.
  destruct e; try (apply UBct_reset; exact H1); try exact H1.
  - destruct (ct_count (ct_store c v) v) as [c6|] eqn:E6; [|exact I].
    exact (ct_ub_next _ _ c v c6 false (N.le_refl _) Hub Hv E6).
  - destruct (ct_count (ct_store c v) v) as [c6|] eqn:E6; exact I.
Qed.
Lemma ct_run_wb pre rest o c n e c' : o = nnat (length pre) -> UBct o c -> LBct 0 c ->
  run ct_iter pre rest o 0 c = Done n e c' -> UBct (o + nnat (length rest)) c'.
Proof.
  intros Ho Hub Hlb H.
  pose proof (run_invQ ct_iter (fun _ j t => UBct j t /\ LBct 0 t) (fun p r j _ _ t => UBct (j + nnat (length r)) t)) as R.
  specialize (R ltac:(intros p r j t Hj (P1 & P2); pose proof (ct_iter_ub p r j t Hj (conj P1 P2)) as X; pose proof (ct_iter_wb p r j t Hj P1 P2) as Y;
                      destruct (ct_iter p r j t) as [k t'|n0 e0 t'|]; auto) rest pre o c Ho (conj Hub Hlb)).
  rewrite H in R. destruct R as (p' & r' & i' & Hi' & Hw & HQ).
  apply (f_equal (@length _)) in Hw. rewrite !app_length, !rev_length in Hw.
  replace (o + nnat (length rest)) with (i' + nnat (length r')) by (unfold nnat in *; lia). exact HQ.
Qed.

Lemma UBpa_store i c v : UBpa i c -> UBfb i v -> UBpa i (pa_store c v).
Proof.
  intros (A & B & D) Hv. destruct (pa_store_proj c v) as (S1 & S2 & S3 & S4 & S5). unfold UBpa. rewrite S3, S4, S5.
  split; [destruct (pa_slot_is_last c); [exact A|apply Forall_set_nth; assumption]|].
  split; [destruct (pa_slot_is_last c); assumption|assumption].
Qed.
Lemma UBpa_reset i b c : UBpa i c -> UBpa i (pa_reset_last_if b c).
Proof. intros (A & B & D). unfold pa_reset_last_if. destruct b; [|exact (conj A (conj B D))]. destruct c. unfold UBpa. cbn in *. split; [exact A|]. split; [apply UBfb_0|assumption]. Qed.
Lemma pa_iter_wb pre rest i c : i = nnat (length pre) -> UBpa i c -> LBpa 0 c ->
  match pa_iter pre rest i c with Ret o e c' => UBpa (i + nnat (length rest)) c' | _ => True end.
Proof.
  intros Hi Hub Hlb. pose proof (pa_iter_ub pre rest i c Hi (conj Hub Hlb)) as U. destruct Hlb as (Hwf & Hsel & Hlh). rewrite pa_iter_def, Hsel in *.
  destruct (run (fb_iter HdrPAI) pre rest i 0 pfrom0) as [next e0 v| |] eqn:Er; [|exact I|exact I].
  pose proof (fb_fresh_wb HdrPAI pre rest i next e0 v Hi Er) as Hv.
  assert (HB : i <= i + nnat (length rest)) by lia. pose proof (UBpa_mono i _ c HB Hub) as HubB.
  unfold pa_post in *. cbv zeta in *. rewrite pa_store_prep, pa_is_last_prep in *.
  pose proof (UBpa_store _ c v HubB Hv) as H1.
  assert (Hn : next <= i + nnat (length rest)).
  { pose proof (fb_run_ok 0 HdrPAI pre rest i pfrom0 (conj Hi (fb_inv_pfrom0 0 pre i (N.le_0_l i)))) as Sf. rewrite Er in Sf. apply Sf. }
  destruct ((err_eqb e0 EOk || err_eqb e0 EMoreValues) && fb_star v) eqn:Estar; [apply UBpa_reset; exact H1|].
  destruct e0; try (apply UBpa_reset; exact H1); try exact H1.
  - destruct (if (pa_n (pa_store c v) =? 0) || _ then _ else _) as [lh|]; [|exact I].
    destruct (U eq_refl) as (_ & U2 & _). exact (UBpa_mono next _ _ Hn U2).
  - destruct (if (pa_n (pa_store c v) =? 0) || _ then _ else _) as [lh|]; exact I.
Qed.
Lemma pa_run_wb pre rest o c n e c' : o = nnat (length pre) -> UBpa o c -> LBpa 0 c ->
  run pa_iter pre rest o 0 c = Done n e c' -> UBpa (o + nnat (length rest)) c'.
Proof.
  intros Ho Hub Hlb H.
  pose proof (run_invQ pa_iter (fun _ j t => UBpa j t /\ LBpa 0 t) (fun p r j _ _ t => UBpa (j + nnat (length r)) t)) as R.
  specialize (R ltac:(intros p r j t Hj (P1 & P2); pose proof (pa_iter_ub p r j t Hj (conj P1 P2)) as X; pose proof (pa_iter_wb p r j t Hj P1 P2) as Y;
                      destruct (pa_iter p r j t) as [k t'|n0 e0 t'|]; auto) rest pre o c Ho (conj Hub Hlb)).
  rewrite H in R. destruct R as (p' & r' & i' & Hi' & Hw & HQ).
  apply (f_equal (@length _)) in Hw. rewrite !app_length, !rev_length in Hw.
  replace (o + nnat (length rest)) with (i' + nnat (length r')) by (unfold nnat in *; lia). exact HQ.
Qed.

(* ---- a value parser under the header line, every verdict ----------------------------------------------------------------------------------------- *)
Lemma hb_run_WB hs v' pre rest o st : o = nnat (length pre) -> hb_pick st = Some (hs, v') -> UPo o (hx_pv st) ->
  match hb_run hs pre rest o st v' with
  | Ret n e st' => UBo (o + nnat (length rest)) (hx_pv st')
  | _ => True
  end.
Proof.
  intros Ho. unfold hb_pick. destruct (hx_pv st) as [v|] eqn:Epv; [|discriminate]. cbv zeta. intros Hpick [HUB HPR].
  pose proof HUB as (U1 & U2 & U3 & U4 & U5 & U6 & U7 & U8). pose proof HPR as (HPRv & F1 & F2).
  pose proof HPRv as (P1 & P2 & P3 & P4 & P5 & P6).
  set (B := o + nnat (length rest)). assert (HoB : o <= B) by (unfold B; lia).
  pose proof (UBv_mono o B v HoB HUB) as HB.
  set (t := h_type (hx_h st)) in *.
  assert (Fin : forall {T} (R : list byte -> list byte -> N -> T -> res T) sel put valof hs0 (vv : phvals),
            (forall pre rest o st v, hb_run hs0 pre rest o st v
               = hb_finish (R pre rest o (sel v)) (st <| hx_h := (hx_h st) <| h_state := hs0 |> |>) valof (put v)) ->
            (forall n e b', R pre rest o (sel vv) = Done n e b' -> UBv B (put vv b')) ->
            match hb_run hs0 pre rest o st vv with
            | Ret n e st' => UBo B (hx_pv st')
            | _ => True
            end).
  { intros T R sel put valof hs0 vv Hdef HR. pose proof (hb_lay R sel put valof hs0 Hdef pre rest o st vv) as H.
    destruct (hb_run hs0 pre rest o st vv) as [|n e st'|]; [exact I| |exact I].
    destruct H as (b' & ER & Epv' & _). rewrite Epv'. exact (HR n e b' ER). }
  destruct (t =? HdrFrom) eqn:E1.
  { destruct (fb_parsed (pv_from v)) eqn:Ep; [discriminate|]. injection Hpick as <- <-.
    apply (Fin _ (fun pre rest o b => run (fb_iter HdrFrom) pre rest o 0 b) pv_from (fun v b => v <| pv_from := b |>) fb_v HFrom v); [reflexivity|].
    intros n e b' ER. destruct F1 as [X|X]; [congruence|]. rewrite X in ER.
    apply UB_from; [exact HB|exact (fb_fresh_wb HdrFrom pre rest o n e b' Ho ER)]. }
  destruct (t =? HdrTo) eqn:E2.
  { destruct (fb_parsed (pv_to v)) eqn:Ep; [discriminate|]. injection Hpick as <- <-.
    apply (Fin _ (fun pre rest o b => run (fb_iter HdrTo) pre rest o 0 b) pv_to (fun v b => v <| pv_to := b |>) fb_v HTo v); [reflexivity|].
    intros n e b' ER. destruct F2 as [X|X]; [congruence|]. rewrite X in ER.
    apply UB_to; [exact HB|exact (fb_fresh_wb HdrTo pre rest o n e b' Ho ER)]. }
  destruct (t =? HdrCallID) eqn:E3.
  { destruct (ci_parsed (pv_callid v)) eqn:Ep; [discriminate|]. injection Hpick as <- <-.
    apply (Fin _ (fun pre rest o b => run ci_iter pre rest o 0 b) pv_callid (fun v b => v <| pv_callid := b |>) ci_callid HCallID v); [reflexivity|].
    intros n e b' ER. apply UB_callid; [exact HB|exact (ci_run_wb pre rest o _ n e b' Ho P1 Ep U3 ER)]. }
  destruct (t =? HdrCSeq) eqn:E4.
  { destruct (cs_parsed (pv_cseq v)) eqn:Ep; [discriminate|]. injection Hpick as <- <-.
    apply (Fin _ (fun pre rest o b => run cs_iter pre rest o 0 b) pv_cseq (fun v b => v <| pv_cseq := b |>) cs_v HCSeq v); [reflexivity|].
    intros n e b' ER. apply UB_cseq; [exact HB|exact (cs_run_wb pre rest o _ n e b' Ho U4 ER)]. }
  destruct (t =? HdrCLen) eqn:E5.
  { destruct (ui_parsed (pv_clen v)) eqn:Ep; [discriminate|]. injection Hpick as <- <-.
    apply (Fin _ clen_R pv_clen (fun v b => v <| pv_clen := b |>) ui_sval HCLen v); [reflexivity|].
    intros n e b' ER. apply UB_clen; [exact HB|exact (clen_run_wb pre rest o _ n e b' Ho P3 Ep U5 ER)]. }
  destruct (t =? HdrContact) eqn:E6.
  { injection Hpick as <- <-.
    set (c1 := (pv_contacts v) <| ct_hno := ct_hno (pv_contacts v) + 1 |> <| ct_lasthval := pf0 |>).
    assert (Hc1 : LBct 0 c1) by (subst c1; apply ct_newhdr_LB; exact P5).
    assert (Hu1 : UBct o c1) by (subst c1; apply UBct_newhdr; exact U7).
    apply (Fin _ (fun pre rest o b => run ct_iter pre rest o 0 b) pv_contacts (fun v b => v <| pv_contacts := b |>) ct_lasthval HContact); [reflexivity|].
    intros n e b' ER. replace (pv_contacts (v <| pv_contacts := c1 |>)) with c1 in ER by (destruct v; reflexivity).
    replace ((v <| pv_contacts := c1 |>) <| pv_contacts := b' |>) with (v <| pv_contacts := b' |>) by (destruct v; reflexivity).
    apply UB_contacts; [exact HB|exact (ct_run_wb pre rest o c1 n e b' Ho Hu1 Hc1 ER)]. }
  destruct (t =? HdrExpires) eqn:E7.
  { destruct (ui_parsed (pv_expires v)) eqn:Ep; [discriminate|]. injection Hpick as <- <-.
    apply (Fin _ (fun pre rest o b => run ui_iter pre rest o 0 b) pv_expires (fun v b => v <| pv_expires := b |>) ui_sval HExpires v); [reflexivity|].
    intros n e b' ER. apply UB_expires; [exact HB|exact (ui_run_wb pre rest o _ n e b' Ho P4 Ep U6 ER)]. }
  destruct (t =? HdrPAI) eqn:E8; [|discriminate].
  injection Hpick as <- <-.
  set (c1 := (pv_pais v) <| pa_hno := pa_hno (pv_pais v) + 1 |> <| pa_lasthval := pf0 |>).
  assert (Hc1 : LBpa 0 c1) by (subst c1; apply pa_newhdr_LB; exact P6).
  assert (Hu1 : UBpa o c1) by (subst c1; apply UBpa_newhdr; exact U8).
  apply (Fin _ (fun pre rest o b => run pa_iter pre rest o 0 b) pv_pais (fun v b => v <| pv_pais := b |>) pa_lasthval HPAI); [reflexivity|].
  intros n e b' ER. replace (pv_pais (v <| pv_pais := c1 |>)) with c1 in ER by (destruct v; reflexivity).
  replace ((v <| pv_pais := c1 |>) <| pv_pais := b' |>) with (v <| pv_pais := b' |>) by (destruct v; reflexivity).
  apply UB_pais; [exact HB|exact (pa_run_wb pre rest o c1 n e b' Ho Hu1 Hc1 ER)].
Qed.

(* ---- the header line: every return carries values that end inside the buffer --------------------------------------------------------------------- *)
Definition WL_ret (pre rest : list byte) (i : N) (r : ires hline) : Prop :=
  match r with Ret o e st' => UBo (i + nnat (length rest)) (hx_pv st') | _ => True end.
Lemma WL_same pre rest i o e st st' : UPo i (hx_pv st) -> hx_pv st' = hx_pv st -> WL_ret pre rest i (Ret o e st').
Proof. intros H E. cbn. rewrite E. apply (UPo_UBo i); [lia|exact H]. Qed.

Lemma colon_WL pre rest i k st : i = nnat (length pre) -> (S k <= length rest)%nat -> UPo i (hx_pv st) ->
  WL_ret pre rest i (hl_colon pre rest i k st).
Proof.
  intros Hi Hk Hpr. rewrite hl_colon_eq. unfold hl_colon'. destruct (zget _ _ _ _) as [name|]; [|exact I]. cbv zeta.
  assert (Ho : i + nnat k + 1 = nnat (length (zpre (S k) pre rest))).
  { unfold zpre. rewrite app_length, rev_length, firstn_length. unfold nnat in *. lia. }
  set (st1 := st <| hx_h := (hx_h st) <| h_state := HBodyStart |> <| h_type := get_hdr_type name |> |>).
  assert (F1 : hx_pv st1 = hx_pv st) by (subst st1; destruct st as [h pv]; reflexivity).
  clearbody st1.
  destruct (hb_pick st1) as [[hs v']|] eqn:Ep; [|exact I].
  pose proof (hb_run_WB hs v' (zpre (S k) pre rest) (zrest (S k) rest) (i + nnat k + 1) st1 Ho Ep
                ltac:(rewrite F1; apply (UPo_mono i); [lia|exact Hpr])) as H.
  destruct (hb_run hs _ _ _ st1 v') as [|n e st'|]; [exact I| |exact I].
  unfold WL_ret. unfold zrest in H. rewrite skipn_length in H.
  replace (i + nnat (length rest)) with (i + nnat k + 1 + nnat (length rest - S k)) by (unfold nnat; lia). exact H.
Qed.
Lemma name_ph_WL pre rest i st : i = nnat (length pre) -> UPo i (hx_pv st) -> WL_ret pre rest i (hl_name_ph pre rest i st).
Proof.
  intros Hi Hpr. unfold hl_name_ph. cbv zeta. set (k := skipTokenDelim 58 rest).
  destruct (skipn k rest) as [|c r] eqn:Sk; [apply (WL_same pre rest i _ _ st); [exact Hpr|reflexivity]|]. pose proof (skipn_cons_len _ _ _ _ Sk) as Hk.
  destruct (is_sp c).
  - destruct (pf_extend (h_name (hx_h st)) (i + nnat k)) as [n|]; [|exact I]. destruct (pf_empty n); [apply (WL_same pre rest i _ _ st); [exact Hpr|reflexivity]|exact I].
  - destruct (c =? 58); [|apply (WL_same pre rest i _ _ st); [exact Hpr|reflexivity]].
    destruct (pf_extend (h_name (hx_h st)) (i + nnat k)) as [n|]; [|exact I]. destruct (pf_empty n); [apply (WL_same pre rest i _ _ st); [exact Hpr|reflexivity]|].
    match goal with |- WL_ret _ _ _ (hl_colon _ _ _ _ ?S) => set (st' := S) end.
    assert (F1 : hx_pv st' = hx_pv st) by (subst st'; destruct st as [h pv]; reflexivity).
    clearbody st'. apply colon_WL; [exact Hi|lia|rewrite F1; exact Hpr].
Qed.
Lemma WL_step pre rest i st : i = nnat (length pre) -> UL pre i st -> WL_ret pre rest i (hl_iter pre rest i st).
Proof.
  intros Hi Hs. unfold UL in Hs. destruct rest as [|c r].
  { unfold hl_iter. destruct (h_state (hx_h st)); try contradiction; apply (WL_same pre [] i _ _ st); try exact Hs; reflexivity. }
  assert (Hsame : forall o e st', hx_pv st' = hx_pv st -> WL_ret pre (c :: r) i (Ret o e st')).
  { intros o e st' E. apply (WL_same pre (c :: r) i o e st); [|exact E]. destruct (h_state (hx_h st)); try contradiction; exact Hs. }
  destruct (h_state (hx_h st)) eqn:Est; try contradiction.
  - rewrite (hit_init pre c r i st Est).
    destruct (is_cr c); [destruct r as [|d r2]; apply Hsame; destruct st as [h pv]; reflexivity|].
    destruct (is_lf c); [apply Hsame; destruct st as [h pv]; reflexivity|].
    destruct (pf_set i i) as [n|]; [|exact I]. cbv beta iota.
    apply name_ph_WL; [exact Hi|]. destruct st as [h pv]; exact Hs.
  - rewrite (hit_name pre _ i st Est). apply name_ph_WL; assumption.
  - rewrite (hit_nameend pre _ i st Est). unfold hl_nameend. cbv zeta.
    destruct (skipn _ (c :: r)) as [|d r'] eqn:Sk; [apply Hsame; reflexivity|]. destruct (d =? 58); [|apply Hsame; reflexivity].
    apply colon_WL; [exact Hi|pose proof (skipn_cons_len _ _ _ _ Sk); lia|exact Hs].
  - rewrite (hit_bstart pre _ i st Est). unfold hl_bstart.
    destruct (skipLWS false (c :: r)) as [k|k crl|k]; [| |apply Hsame; reflexivity].
    + destruct (pf_set _ _) as [v|]; exact I.
    + apply Hsame. destruct st as [h pv]; reflexivity.
  - rewrite (hit_val pre _ i st Est). unfold hl_val. cbv zeta.
    destruct (skipn (skipToken (c :: r)) (c :: r)) as [|d r']; [apply Hsame; reflexivity|].
    destruct (pf_extend _ _) as [v1|]; [|exact I]. unfold hl_valend.
    destruct (skipLWS false (d :: r')) as [k2|k2 crl|k2]; [exact I| |]; apply Hsame; destruct st as [h pv]; reflexivity.
  - rewrite (hit_valend pre _ i st Est). unfold hl_valend.
    destruct (skipLWS false (c :: r)) as [k2|k2 crl|k2]; [exact I| |]; apply Hsame; destruct st as [h pv]; reflexivity.
  - rewrite (hit_fin pre c r i st Est). apply Hsame. reflexivity.
Qed.

(* ---- the header block and the message ---------------------------------------------------------------------------------------------------------------- *)
Lemma BW_step pre rest i st : i = nnat (length pre) -> BU pre i st ->
  match hs_iter pre rest i st with Ret o e st' => UBo (i + nnat (length rest)) (hs_pv st') | _ => True end.
Proof.
  intros Hi (Hp & [Hwf Hslot]). destruct rest as [|c r]; [unfold hs_iter; cbn; apply (UPo_UBo i); [lia|exact Hp]|].
  rewrite hs_iter_def. unfold hs_sel. rewrite Hslot.
  pose proof (run_invQ hl_iter (fun p j s => i <= j /\ UL p j s) (fun p r0 j _ _ s => UBo (j + nnat (length r0)) (hx_pv s))) as R.
  specialize (R ltac:(intros p r0 j s Hj [P0 P1]; pose proof (UL_step p r0 j s Hj P1) as X; pose proof (WL_step p r0 j s Hj P1) as Y;
                      destruct (hl_iter p r0 j s) as [k s'|o e s'|]; auto;
                      intros Hk0 Hk; split; [unfold nnat; lia|exact (X Hk0 Hk)])
                (c :: r) pre i (mkhline hdr0 (hs_pv st)) Hi (conj (N.le_refl i) Hp)).
  destruct (run hl_iter pre (c :: r) i 0 (mkhline hdr0 (hs_pv st))) as [n e x| |] eqn:Er; [|exact I|exact I].
  destruct R as (p' & r' & i' & Hi' & Hw & HQ).
  apply (f_equal (@length _)) in Hw. rewrite !app_length, !rev_length in Hw.
  replace (i' + nnat (length r')) with (i + nnat (length (c :: r))) in HQ by (unfold nnat in *; lia).
  unfold hs_post. cbv zeta. destruct e; try exact HQ; try exact I. destruct (0 <? _); exact HQ.
Qed.
Theorem headers_wb buf offs ncap nc o e st' : offs <= nnat (length buf) ->
  parse_headers buf offs (mkhdrs_st (hdrlst_init (repeat hdr0 ncap)) (Some (phvals_init (repeat pfrom0 nc)))) = Done o e st' ->
  UBo (nnat (length buf)) (hs_pv st').
Proof.
  intros Ho H. unfold parse_headers, parse in H. unfold zinit in H.
  assert (Hi : offs = nnat (length (rev (firstn (N.to_nat offs) buf)))) by (rewrite rev_length, firstn_length; unfold nnat in *; lia).
  pose proof (run_invQ hs_iter (fun p j s => offs <= j /\ BU p j s) (fun p r j _ _ s => UBo (j + nnat (length r)) (hs_pv s))) as R.
  specialize (R ltac:(intros p r0 j s Hj [P0 P1]; pose proof (BU_step p r0 j s Hj P1) as X; pose proof (BW_step p r0 j s Hj P1) as Y;
                      destruct (hs_iter p r0 j s) as [k s'|o0 e0 s'|]; auto;
                      intros Hk0 Hk; split; [unfold nnat; lia|exact (X Hk0 Hk)])
                (skipn (N.to_nat offs) buf) (rev (firstn (N.to_nat offs) buf)) offs (mkhdrs_st (hdrlst_init (repeat hdr0 ncap)) (Some (phvals_init (repeat pfrom0 nc)))) Hi).
  specialize (R ltac:(split; [lia|]; split; [split; [apply UBv_init|apply PR2_init]|];
                      unfold LI, hdrlst_init; cbn; split; [split; [intros j _; apply nth_repeat|reflexivity]|];
                      unfold hl_slot, hl_is_tmp, hl_cap; cbn; destruct (_ <=? 0); [reflexivity|apply nth_repeat])).
  rewrite H in R. destruct R as (p' & r' & i' & Hi' & Hw & HQ). rewrite rev_involutive, firstn_skipn in Hw.
  apply (f_equal (@length _)) in Hw. rewrite app_length, rev_length in Hw.
  replace (nnat (length buf)) with (i' + nnat (length r')) by (unfold nnat in *; lia). exact HQ.
Qed.

Lemma fail_hs flags o e m : match msg_fail flags o e m with Done _ _ m' => m_hs m' = m_hs m | _ => True end.
Proof. unfold msg_fail. destruct e; try (destruct m; reflexivity). destruct (testbit flags bSIPMsgNoMoreData); destruct m; reflexivity. Qed.

(* whatever one call on fresh objects answers: every PHdrVals field ends inside the buffer *)
Theorem message_wb flags buf offs bl n nc o e m' : offs <= nnat (length buf) ->
  parse_sipmsg flags buf offs (msg_init bl (repeat hdr0 n) (repeat pfrom0 nc)) = Done o e m' ->
  UBv (nnat (length buf)) (msg_pv m').
Proof.
  intros Hoffs. unfold parse_sipmsg, msg_init. cbn -[msg_fline]. unfold msg_fline. cbn -[parse_fline msg_headers msg_fail].
  pose proof (fline_safe buf offs fline0 Hoffs) as Hfs.
  destruct (parse_fline buf offs fline0) as [o1 e1 fl| |] eqn:Efl; try discriminate.
  assert (Hf : forall oo ee m, hs_pv (m_hs m) = Some (phvals_init (repeat pfrom0 nc)) -> msg_fail flags oo ee m = Done o e m' -> UBv (nnat (length buf)) (msg_pv m')).
  { intros oo ee m Hm H. pose proof (fail_hs flags oo ee m) as F. rewrite H in F. unfold msg_pv. rewrite F, Hm. apply UBv_init. }
  destruct e1; try (apply Hf; reflexivity).
  unfold msg_headers. cbn -[parse_headers msg_body msg_fail].
  assert (Ho1 : o1 <= nnat (length buf)).
  { assert (X : fl_inv offs fline0) by (unfold fl_inv, pf_end; cbn; repeat split; lia). specialize (Hfs X). apply Hfs. }
  pose proof (headers_wb buf o1 n nc) as Hc.
  destruct (parse_headers buf o1 _) as [o2 e2 hs| |]; try discriminate.
  specialize (Hc o2 e2 hs Ho1 eq_refl).
  assert (Hpv : forall m1, m_hs m1 = hs -> UBv (nnat (length buf)) (msg_pv m1)).
  { intros m1 E. unfold msg_pv. rewrite E. destruct (hs_pv hs) as [v|]; [exact Hc|apply (UBv_init _ 0)]. }
  assert (Hf2 : forall oo ee m, m_hs m = hs -> msg_fail flags oo ee m = Done o e m' -> UBv (nnat (length buf)) (msg_pv m')).
  { intros oo ee m Hm H. pose proof (fail_hs flags oo ee m) as F. rewrite H in F. apply Hpv. rewrite F. exact Hm. }
  destruct e2; try (apply Hf2; reflexivity).
  intros H. match type of H with msg_body ?f ?L ?oo ?mm = _ => pose proof (body_hs f L oo mm) as B end.
  rewrite H in B. apply Hpv. rewrite B. reflexivity.
Qed.
Theorem message_wb_fed flags B offs bl n nc o s o' e m' : testbit flags bSIPMsgNoMoreData = false -> offs <= nnat (length B) ->
  feeds flags B offs (msg_init bl (repeat hdr0 n) (repeat pfrom0 nc)) o s ->
  parse_sipmsg flags B o s = Done o' e m' -> UBv (nnat (length B)) (msg_pv m').
Proof.
  intros Hf Hoffs Hfeed H. rewrite (feeds_same _ _ _ _ _ _ Hf Hfeed) in H. exact (message_wb _ _ _ _ _ _ _ _ _ Hoffs H).
Qed.

(* ---- the first-line fields, whatever the verdict ---------------------------------------------------------------------------------------------------- *)
Lemma body_fl flags L o m : match msg_body flags L o m with Done _ _ m' => m_fl m' = m_fl m | _ => True end.
Proof.
  unfold msg_body, msg_end. destruct (pf_set o o) as [b0|]; [|exact I]. destruct m as [fl hs body bl raw st offs].
  cbn -[testbit N.ltb N.add N.sub pf_extend].
  repeat match goal with
         | |- context [if ?b then _ else _] => destruct b
         | |- context [match pf_extend ?a ?b with _ => _ end] => destruct (pf_extend a b)
         end; try exact I; reflexivity.
Qed.
Lemma fail_fl flags o e m : match msg_fail flags o e m with Done _ _ m' => m_fl m' = m_fl m | _ => True end.
Proof. unfold msg_fail. destruct e; try (destruct m; reflexivity). destruct (testbit flags bSIPMsgNoMoreData); destruct m; reflexivity. Qed.
Theorem message_fl_wb flags buf offs bl n nc o e m' : offs <= nnat (length buf) ->
  parse_sipmsg flags buf offs (msg_init bl (repeat hdr0 n) (repeat pfrom0 nc)) = Done o e m' ->
  fl_inv (nnat (length buf)) (m_fl m').
Proof.
  intros Hoffs. unfold parse_sipmsg, msg_init. cbn -[msg_fline]. unfold msg_fline. cbn -[parse_fline msg_headers msg_fail].
  pose proof (fline_safe buf offs fline0 Hoffs ltac:(unfold fl_inv, pf_end; cbn; repeat split; lia)) as Hfs.
  destruct (parse_fline buf offs fline0) as [o1 e1 fl| |] eqn:Efl; try discriminate.
  destruct Hfs as (_ & Hfl & _).
  assert (Hf : forall oo ee m, m_fl m = fl -> msg_fail flags oo ee m = Done o e m' -> fl_inv (nnat (length buf)) (m_fl m')).
  { intros oo ee m Hm H. pose proof (fail_fl flags oo ee m) as F. rewrite H in F. rewrite F, Hm. exact Hfl. }
  destruct e1; try (apply Hf; reflexivity).
  unfold msg_headers. cbn -[parse_headers msg_body msg_fail].
  destruct (parse_headers buf o1 _) as [o2 e2 hs| |]; try discriminate.
  destruct e2; try (apply Hf; reflexivity).
  intros H. match type of H with msg_body ?f ?L ?oo ?mm = _ => pose proof (body_fl f L oo mm) as B end.
  rewrite H in B. rewrite B. exact Hfl.
Qed.
Theorem message_fl_wb_fed flags B offs bl n nc o s o' e m' : testbit flags bSIPMsgNoMoreData = false -> offs <= nnat (length B) ->
  feeds flags B offs (msg_init bl (repeat hdr0 n) (repeat pfrom0 nc)) o s ->
  parse_sipmsg flags B o s = Done o' e m' -> fl_inv (nnat (length B)) (m_fl m').
Proof.
  intros Hf Hoffs Hfeed H. rewrite (feeds_same _ _ _ _ _ _ Hf Hfeed) in H. exact (message_fl_wb _ _ _ _ _ _ _ _ _ Hoffs H).
Qed.

(* ---- the stored headers, whatever the verdict ---------------------------------------------------------------------------------------------------------- *)
Definition HBh (B : N) (h : hdr) : Prop := pf_end (h_name h) <= B /\ pf_end (h_val h) <= B.
Lemma HBh_mono B B' h : B <= B' -> HBh B h -> HBh B' h.
Proof. intros H [A C]. split; lia. Qed.
Lemma HBh_0 B : HBh B hdr0. Proof. unfold HBh, hdr0, pf_end. cbn. lia. Qed.

(* the value a specific parser hands to the header: inside the buffer, every verdict *)
Lemma hb_run_HB hs v' pre rest o st : o = nnat (length pre) -> hb_pick st = Some (hs, v') -> UPo o (hx_pv st) -> HBh o (hx_h st) ->
  match hb_run hs pre rest o st v' with
  | Ret n e st' => HBh (o + nnat (length rest)) (hx_h st')
  | _ => True
  end.
Proof.
  intros Ho. unfold hb_pick. destruct (hx_pv st) as [v|] eqn:Epv; [|discriminate]. cbv zeta. intros Hpick [HUB HPR] [Hn Hv].
  pose proof HUB as (U1 & U2 & U3 & U4 & U5 & U6 & U7 & U8). pose proof HPR as (HPRv & F1 & F2).
  pose proof HPRv as (P1 & P2 & P3 & P4 & P5 & P6).
  set (B := o + nnat (length rest)). assert (HoB : o <= B) by (unfold B; lia).
  set (t := h_type (hx_h st)) in *.
  assert (Fin : forall {T} (R : list byte -> list byte -> N -> T -> res T) sel put valof hs0 (vv : phvals),
            (forall pre rest o st v, hb_run hs0 pre rest o st v
               = hb_finish (R pre rest o (sel v)) (st <| hx_h := (hx_h st) <| h_state := hs0 |> |>) valof (put v)) ->
            (forall n e b', R pre rest o (sel vv) = Done n e b' -> pf_end (valof b') <= B) ->
            match hb_run hs0 pre rest o st vv with
            | Ret n e st' => HBh B (hx_h st')
            | _ => True
            end).
  { intros T R sel put valof hs0 vv Hdef HR. pose proof (hb_lay R sel put valof hs0 Hdef pre rest o st vv) as H.
    destruct (hb_run hs0 pre rest o st vv) as [|n e st'|]; [exact I| |exact I].
    destruct H as (b' & ER & _ & En & _ & Eok & Ene). unfold HBh. rewrite En. split; [lia|].
    destruct (err_eqb e EOk) eqn:Ee.
    - assert (e = EOk) by (destruct e; try discriminate; reflexivity). subst e. destruct (Eok eq_refl) as [-> _]. exact (HR n EOk b' ER).
    - assert (e <> EOk) by (intros ->; discriminate). destruct (Ene H) as [-> _]. lia. }
  destruct (t =? HdrFrom) eqn:E1.
  { destruct (fb_parsed (pv_from v)) eqn:Ep; [discriminate|]. injection Hpick as <- <-.
    apply (Fin _ (fun pre rest o b => run (fb_iter HdrFrom) pre rest o 0 b) pv_from (fun v b => v <| pv_from := b |>) fb_v HFrom v); [reflexivity|].
    intros n e b' ER. destruct F1 as [X|X]; [congruence|]. rewrite X in ER.
    destruct (fb_fresh_wb HdrFrom pre rest o n e b' Ho ER) as (_&_&_&_&H5&_). exact H5. }
  destruct (t =? HdrTo) eqn:E2.
  { destruct (fb_parsed (pv_to v)) eqn:Ep; [discriminate|]. injection Hpick as <- <-.
    apply (Fin _ (fun pre rest o b => run (fb_iter HdrTo) pre rest o 0 b) pv_to (fun v b => v <| pv_to := b |>) fb_v HTo v); [reflexivity|].
    intros n e b' ER. destruct F2 as [X|X]; [congruence|]. rewrite X in ER.
    destruct (fb_fresh_wb HdrTo pre rest o n e b' Ho ER) as (_&_&_&_&H5&_). exact H5. }
  destruct (t =? HdrCallID) eqn:E3.
  { destruct (ci_parsed (pv_callid v)) eqn:Ep; [discriminate|]. injection Hpick as <- <-.
    apply (Fin _ (fun pre rest o b => run ci_iter pre rest o 0 b) pv_callid (fun v b => v <| pv_callid := b |>) ci_callid HCallID v); [reflexivity|].
    intros n e b' ER. exact (ci_run_wb pre rest o _ n e b' Ho P1 Ep U3 ER). }
  destruct (t =? HdrCSeq) eqn:E4.
  { destruct (cs_parsed (pv_cseq v)) eqn:Ep; [discriminate|]. injection Hpick as <- <-.
    apply (Fin _ (fun pre rest o b => run cs_iter pre rest o 0 b) pv_cseq (fun v b => v <| pv_cseq := b |>) cs_v HCSeq v); [reflexivity|].
    intros n e b' ER. destruct (cs_run_wb pre rest o _ n e b' Ho U4 ER) as (_ & _ & H3 & _). exact H3. }
  destruct (t =? HdrCLen) eqn:E5.
  { destruct (ui_parsed (pv_clen v)) eqn:Ep; [discriminate|]. injection Hpick as <- <-.
    apply (Fin _ clen_R pv_clen (fun v b => v <| pv_clen := b |>) ui_sval HCLen v); [reflexivity|].
    intros n e b' ER. exact (clen_run_wb pre rest o _ n e b' Ho P3 Ep U5 ER). }
  destruct (t =? HdrContact) eqn:E6.
  { injection Hpick as <- <-.
    set (c1 := (pv_contacts v) <| ct_hno := ct_hno (pv_contacts v) + 1 |> <| ct_lasthval := pf0 |>).
    assert (Hc1 : LBct 0 c1) by (subst c1; apply ct_newhdr_LB; exact P5).
    assert (Hu1 : UBct o c1) by (subst c1; apply UBct_newhdr; exact U7).
    apply (Fin _ (fun pre rest o b => run ct_iter pre rest o 0 b) pv_contacts (fun v b => v <| pv_contacts := b |>) ct_lasthval HContact); [reflexivity|].
    intros n e b' ER. replace (pv_contacts (v <| pv_contacts := c1 |>)) with c1 in ER by (destruct v; reflexivity).
    destruct (ct_run_wb pre rest o c1 n e b' Ho Hu1 Hc1 ER) as (_ & _ & _ & H4). exact H4. }
  destruct (t =? HdrExpires) eqn:E7.
  { destruct (ui_parsed (pv_expires v)) eqn:Ep; [discriminate|]. injection Hpick as <- <-.
    apply (Fin _ (fun pre rest o b => run ui_iter pre rest o 0 b) pv_expires (fun v b => v <| pv_expires := b |>) ui_sval HExpires v); [reflexivity|].
    intros n e b' ER. exact (ui_run_wb pre rest o _ n e b' Ho P4 Ep U6 ER). }
  destruct (t =? HdrPAI) eqn:E8; [|discriminate].
  injection Hpick as <- <-.
  set (c1 := (pv_pais v) <| pa_hno := pa_hno (pv_pais v) + 1 |> <| pa_lasthval := pf0 |>).
  assert (Hc1 : LBpa 0 c1) by (subst c1; apply pa_newhdr_LB; exact P6).
  assert (Hu1 : UBpa o c1) by (subst c1; apply UBpa_newhdr; exact U8).
  apply (Fin _ (fun pre rest o b => run pa_iter pre rest o 0 b) pv_pais (fun v b => v <| pv_pais := b |>) pa_lasthval HPAI); [reflexivity|].
  intros n e b' ER. replace (pv_pais (v <| pv_pais := c1 |>)) with c1 in ER by (destruct v; reflexivity).
  destruct (pa_run_wb pre rest o c1 n e b' Ho Hu1 Hc1 ER) as (_ & _ & H3). exact H3.
Qed.

Definition HL_res (pre rest : list byte) (i : N) (r : ires hline) : Prop :=
  match r with
  | Next k st' => (k <= length rest)%nat -> HBh (i + nnat k) (hx_h st')
  | Ret o e st' => HBh (i + nnat (length rest)) (hx_h st')
  | IPanic => True
  end.
Lemma colon_HL pre rest i k st : i = nnat (length pre) -> (S k <= length rest)%nat -> UPo i (hx_pv st) ->
  pf_end (h_name (hx_h st)) <= i + nnat k -> pf_end (h_val (hx_h st)) <= i -> HL_res pre rest i (hl_colon pre rest i k st).
Proof.
  intros Hi Hk Hpr Hn Hv. rewrite hl_colon_eq. unfold hl_colon'. destruct (zget _ _ _ _) as [name|]; [|exact I]. cbv zeta.
  assert (Ho : i + nnat k + 1 = nnat (length (zpre (S k) pre rest))).
  { unfold zpre. rewrite app_length, rev_length, firstn_length. unfold nnat in *. lia. }
  set (st1 := st <| hx_h := (hx_h st) <| h_state := HBodyStart |> <| h_type := get_hdr_type name |> |>).
  assert (F1 : hx_pv st1 = hx_pv st) by (subst st1; destruct st as [h pv]; reflexivity).
  assert (F2 : h_name (hx_h st1) = h_name (hx_h st)) by (subst st1; destruct st as [h pv]; destruct h; reflexivity).
  assert (F3 : h_val (hx_h st1) = h_val (hx_h st)) by (subst st1; destruct st as [h pv]; destruct h; reflexivity).
  clearbody st1.
  assert (HB1 : HBh (i + nnat k + 1) (hx_h st1)) by (unfold HBh; rewrite F2, F3; lia).
  destruct (hb_pick st1) as [[hs v']|] eqn:Ep.
  - pose proof (hb_run_HB hs v' (zpre (S k) pre rest) (zrest (S k) rest) (i + nnat k + 1) st1 Ho Ep
                  ltac:(rewrite F1; apply (UPo_mono i); [lia|exact Hpr]) HB1) as H.
    pose proof (hb_run_noNext hs (zpre (S k) pre rest) (zrest (S k) rest) (i + nnat k + 1) st1 v') as Hnn.
    destruct (hb_run hs _ _ _ st1 v') as [|n e st'|]; [destruct Hnn| |exact I].
    unfold HL_res. unfold zrest in H. rewrite skipn_length in H.
    replace (i + nnat (length rest)) with (i + nnat k + 1 + nnat (length rest - S k)) by (unfold nnat; lia). exact H.
  - unfold HL_res. intros _. replace (i + nnat (S k)) with (i + nnat k + 1) by (unfold nnat; lia). exact HB1.
Qed.
Lemma name_ph_HL pre rest i st : i = nnat (length pre) -> UPo i (hx_pv st) -> po (h_name (hx_h st)) <= i -> HBh i (hx_h st) ->
  HL_res pre rest i (hl_name_ph pre rest i st).
Proof.
  intros Hi Hpr Hpo HB. unfold hl_name_ph. cbv zeta. set (k := skipTokenDelim 58 rest).
  assert (Hkl : (k <= length rest)%nat) by (unfold k, skipTokenDelim; apply NameAddrNest.span_le_len).
  assert (Hret : forall o e, HL_res pre rest i (Ret o e st)) by (intros o e; cbn; apply (HBh_mono i); [lia|exact HB]).
  destruct (skipn k rest) as [|c r] eqn:Sk; [apply Hret|]. pose proof (skipn_cons_len _ _ _ _ Sk) as Hk.
  destruct HB as [Hn Hv].
  assert (Hext : forall n, pf_extend (h_name (hx_h st)) (i + nnat k) = Some n -> pf_end n = i + nnat k).
  { intros n E. unfold pf_extend in E. destruct (_ <? _) eqn:El; [discriminate|]. injection E as <-. unfold pf_end. cbn [po pl]. lia. }
  destruct (is_sp c).
  - destruct (pf_extend (h_name (hx_h st)) (i + nnat k)) as [n|] eqn:En; [|exact I]. specialize (Hext n eq_refl).
    match goal with |- HL_res _ _ _ (if _ then Ret _ _ ?S else _) => set (st' := S) end.
    assert (F2 : h_name (hx_h st') = n) by (subst st'; destruct st as [h pv]; destruct h; reflexivity).
    assert (F3 : h_val (hx_h st') = h_val (hx_h st)) by (subst st'; destruct st as [h pv]; destruct h; reflexivity).
    clearbody st'. destruct (pf_empty n); cbn [HL_res]; [|intros _]; unfold HBh; rewrite F2, F3, Hext; unfold nnat in *; lia.
  - destruct (c =? 58); [|apply Hret].
    destruct (pf_extend (h_name (hx_h st)) (i + nnat k)) as [n|] eqn:En; [|exact I]. specialize (Hext n eq_refl).
    match goal with |- HL_res _ _ _ (if _ then Ret _ _ ?S else _) => set (st' := S) end.
    assert (F1 : hx_pv st' = hx_pv st) by (subst st'; destruct st as [h pv]; reflexivity).
    assert (F2 : h_name (hx_h st') = n) by (subst st'; destruct st as [h pv]; destruct h; reflexivity).
    assert (F3 : h_val (hx_h st') = h_val (hx_h st)) by (subst st'; destruct st as [h pv]; destruct h; reflexivity).
    clearbody st'. destruct (pf_empty n).
    + cbn [HL_res]. unfold HBh. rewrite F2, F3, Hext. unfold nnat in *. lia.
    + apply colon_HL; [exact Hi|lia|rewrite F1; exact Hpr|rewrite F2, Hext; lia|rewrite F3; exact Hv].
Qed.
Lemma HL_step pre rest i st : i = nnat (length pre) -> UL pre i st -> HBh i (hx_h st) -> HL_res pre rest i (hl_iter pre rest i st).
Proof.
  intros Hi Hs HB. unfold UL in Hs.
  assert (Hsame : forall o e st', h_name (hx_h st') = h_name (hx_h st) -> h_val (hx_h st') = h_val (hx_h st) -> HL_res pre rest i (Ret o e st')).
  { intros o e st' E1 E2. cbn. unfold HBh. rewrite E1, E2. destruct HB. split; lia. }
  destruct rest as [|c r].
  { unfold hl_iter. apply Hsame; reflexivity. }
  destruct (h_state (hx_h st)) eqn:Est; try contradiction.
  - rewrite (hit_init pre c r i st Est).
    destruct (is_cr c); [destruct r as [|d r2]; apply Hsame; destruct st as [h pv]; destruct h; reflexivity|].
    destruct (is_lf c); [apply Hsame; destruct st as [h pv]; destruct h; reflexivity|].
    destruct (pf_set i i) as [n|] eqn:En; [|exact I]. cbv beta iota.
    assert (Hn : n = mkpf i 0) by (unfold pf_set in En; rewrite N.ltb_irrefl, N.sub_diag in En; injection En as <-; reflexivity). subst n.
    match goal with |- HL_res _ _ _ (hl_name_ph _ _ _ ?S) => set (st' := S) end.
    assert (F1 : hx_pv st' = hx_pv st) by (subst st'; destruct st as [h pv]; reflexivity).
    assert (F2 : h_name (hx_h st') = mkpf i 0) by (subst st'; destruct st as [h pv]; destruct h; reflexivity).
    assert (F3 : h_val (hx_h st') = h_val (hx_h st)) by (subst st'; destruct st as [h pv]; destruct h; reflexivity).
    clearbody st'. apply name_ph_HL; [exact Hi|rewrite F1; exact Hs|rewrite F2; cbn; lia|].
    unfold HBh. rewrite F2, F3. destruct HB. unfold pf_end in *. cbn [po pl]. split; lia.
  - rewrite (hit_name pre _ i st Est). apply name_ph_HL; [exact Hi|exact Hs| |exact HB].
    destruct HB as [A _]. unfold pf_end in A. lia.
  - rewrite (hit_nameend pre _ i st Est). unfold hl_nameend. cbv zeta.
    destruct (skipn _ (c :: r)) as [|d r'] eqn:Sk; [apply Hsame; reflexivity|]. destruct (d =? 58); [|apply Hsame; reflexivity].
    destruct HB as [A B1]. apply colon_HL; [exact Hi|pose proof (skipn_cons_len _ _ _ _ Sk); lia|exact Hs|lia|exact B1].
  - rewrite (hit_bstart pre _ i st Est). unfold hl_bstart. pose proof (skipLWS_bounds false (c :: r)) as Hb.
    destruct (skipLWS false (c :: r)) as [k|k crl|k]; [| |apply Hsame; reflexivity].
    + destruct (pf_set _ _) as [v|] eqn:Ev; [|exact I].
      assert (Hv : v = mkpf (i + nnat k) 0) by (unfold pf_set in Ev; rewrite N.ltb_irrefl, N.sub_diag in Ev; injection Ev as <-; reflexivity). subst v.
      cbn [HL_res]. intros _. destruct HB as [A _]. destruct st as [h pv]. destruct h. unfold HBh, pf_end in *. cbn in *. unfold nnat. lia.
    + apply Hsame; destruct st as [h pv]; destruct h; reflexivity.
  - rewrite (hit_val pre _ i st Est). unfold hl_val. cbv zeta.
    assert (Hkl : (skipToken (c :: r) <= length (c :: r))%nat) by (unfold skipToken; apply NameAddrNest.span_le_len).
    destruct (skipn (skipToken (c :: r)) (c :: r)) as [|d r'] eqn:Sk; [apply Hsame; reflexivity|].
    destruct (pf_extend _ _) as [v1|] eqn:Ev; [|exact I].
    assert (Hv1 : pf_end v1 = i + nnat (skipToken (c :: r))).
    { unfold pf_extend in Ev. destruct (_ <? _) eqn:El; [discriminate|]. injection Ev as <-. unfold pf_end. cbn [po pl]. lia. }
    unfold hl_valend. pose proof (skipLWS_bounds false (d :: r')) as Hb.
    assert (Hlen : length (d :: r') = (length (c :: r) - skipToken (c :: r))%nat) by (rewrite <- Sk; apply skipn_length).
    destruct HB as [A _].
    destruct (skipLWS false (d :: r')) as [k2|k2 crl|k2]; cbn [HL_res]; [intros _| |];
      destruct st as [h pv]; destruct h; unfold HBh in *; cbn in *; rewrite Hv1; unfold nnat in *; split; lia.
  - rewrite (hit_valend pre _ i st Est). unfold hl_valend.
    destruct (skipLWS false (c :: r)) as [k2|k2 crl|k2]; cbn [HL_res]; [intros _| |];
      destruct HB as [A B1]; destruct st as [h pv]; destruct h; unfold HBh in *; cbn in *; unfold nnat in *; split; lia.
  - rewrite (hit_fin pre c r i st Est). apply Hsame; reflexivity.
Qed.

(* when the answer is ok the header's fields end at or before the returned offset *)
Lemma hb_run_HB_ok hs v' pre rest o st : o = nnat (length pre) -> hb_pick st = Some (hs, v') -> UPo o (hx_pv st) -> HBh o (hx_h st) ->
  match hb_run hs pre rest o st v' with
  | Ret n EOk st' => HBh n (hx_h st')
  | _ => True
  end.
Proof.
  intros Ho Hpick HU [Hn Hv]. pose proof (hb_run_UB hs v' pre rest o st Ho Hpick HU) as UBres.
  unfold hb_pick in Hpick. destruct (hx_pv st) as [v|] eqn:Epv; [|discriminate]. cbv zeta in Hpick.
  set (t := h_type (hx_h st)) in *.
  assert (Fin : forall {T} (R : list byte -> list byte -> N -> T -> res T) sel put valof hs0 (vv : phvals),
            (forall pre rest o st v, hb_run hs0 pre rest o st v
               = hb_finish (R pre rest o (sel v)) (st <| hx_h := (hx_h st) <| h_state := hs0 |> |>) valof (put v)) ->
            (forall m b', UBv m (put vv b') -> pf_end (valof b') <= m) ->
            match hb_run hs0 pre rest o st vv with
            | Ret n EOk st' => o <= n /\ UPo n (hx_pv st') -> HBh n (hx_h st')
            | _ => True
            end).
  { intros T R sel put valof hs0 vv Hdef HR. pose proof (hb_lay R sel put valof hs0 Hdef pre rest o st vv) as H.
    destruct (hb_run hs0 pre rest o st vv) as [|n e st'|]; [exact I| |exact I]. destruct e; try exact I.
    destruct H as (b' & ER & Epv' & En & _ & Eok & _). intros [Hon HU']. rewrite Epv' in HU'. destruct HU' as [HU' _].
    unfold HBh. rewrite En. destruct (Eok eq_refl) as [-> _]. split; [lia|exact (HR n b' HU')]. }
  assert (Use : forall vv hs0, hs = hs0 -> v' = vv ->
            match hb_run hs0 pre rest o st vv with Ret n EOk st' => o <= n /\ UPo n (hx_pv st') -> HBh n (hx_h st') | _ => True end ->
            match hb_run hs pre rest o st v' with Ret n EOk st' => HBh n (hx_h st') | _ => True end).
  { intros vv hs0 -> -> H. destruct (hb_run hs0 pre rest o st vv) as [|n e st'|]; auto. destruct e; auto. }
  destruct (t =? HdrFrom) eqn:E1.
  { destruct (fb_parsed (pv_from v)); [discriminate|]. injection Hpick as <- <-. apply (Use v HFrom eq_refl eq_refl).
    apply (Fin _ (fun pre rest o b => run (fb_iter HdrFrom) pre rest o 0 b) pv_from (fun v b => v <| pv_from := b |>) fb_v HFrom v); [reflexivity|].
    intros m b' H. destruct v; cbn in H. destruct H as ((_&_&_&_&H5&_) & _). exact H5. }
  destruct (t =? HdrTo) eqn:E2.
  { destruct (fb_parsed (pv_to v)); [discriminate|]. injection Hpick as <- <-. apply (Use v HTo eq_refl eq_refl).
    apply (Fin _ (fun pre rest o b => run (fb_iter HdrTo) pre rest o 0 b) pv_to (fun v b => v <| pv_to := b |>) fb_v HTo v); [reflexivity|].
    intros m b' H. destruct v; cbn in H. destruct H as (_ & (_&_&_&_&H5&_) & _). exact H5. }
  destruct (t =? HdrCallID) eqn:E3.
  { destruct (ci_parsed (pv_callid v)); [discriminate|]. injection Hpick as <- <-. apply (Use v HCallID eq_refl eq_refl).
    apply (Fin _ (fun pre rest o b => run ci_iter pre rest o 0 b) pv_callid (fun v b => v <| pv_callid := b |>) ci_callid HCallID v); [reflexivity|].
    intros m b' H. destruct v; cbn in H. destruct H as (_ & _ & H3 & _). exact H3. }
  destruct (t =? HdrCSeq) eqn:E4.
  { destruct (cs_parsed (pv_cseq v)); [discriminate|]. injection Hpick as <- <-. apply (Use v HCSeq eq_refl eq_refl).
    apply (Fin _ (fun pre rest o b => run cs_iter pre rest o 0 b) pv_cseq (fun v b => v <| pv_cseq := b |>) cs_v HCSeq v); [reflexivity|].
    intros m b' H. destruct v; cbn in H. destruct H as (_ & _ & _ & (_ & _ & H3 & _) & _). exact H3. }
  destruct (t =? HdrCLen) eqn:E5.
  { destruct (ui_parsed (pv_clen v)); [discriminate|]. injection Hpick as <- <-. apply (Use v HCLen eq_refl eq_refl).
    apply (Fin _ clen_R pv_clen (fun v b => v <| pv_clen := b |>) ui_sval HCLen v); [reflexivity|].
    intros m b' H. destruct v; cbn in H. destruct H as (_ & _ & _ & _ & H5 & _). exact H5. }
  destruct (t =? HdrContact) eqn:E6.
  { injection Hpick as <- <-. eapply (Use _ HContact eq_refl eq_refl).
    apply (Fin _ (fun pre rest o b => run ct_iter pre rest o 0 b) pv_contacts (fun v b => v <| pv_contacts := b |>) ct_lasthval HContact); [reflexivity|].
    intros m b' H. destruct v; cbn in H. destruct H as (_ & _ & _ & _ & _ & _ & (_ & _ & _ & H4) & _). exact H4. }
  destruct (t =? HdrExpires) eqn:E7.
  { destruct (ui_parsed (pv_expires v)); [discriminate|]. injection Hpick as <- <-. apply (Use v HExpires eq_refl eq_refl).
    apply (Fin _ (fun pre rest o b => run ui_iter pre rest o 0 b) pv_expires (fun v b => v <| pv_expires := b |>) ui_sval HExpires v); [reflexivity|].
    intros m b' H. destruct v; cbn in H. destruct H as (_ & _ & _ & _ & _ & H6 & _). exact H6. }
  destruct (t =? HdrPAI) eqn:E8; [|discriminate].
  injection Hpick as <- <-. eapply (Use _ HPAI eq_refl eq_refl).
  apply (Fin _ (fun pre rest o b => run pa_iter pre rest o 0 b) pv_pais (fun v b => v <| pv_pais := b |>) pa_lasthval HPAI); [reflexivity|].
  intros m b' H. destruct v; cbn in H. destruct H as (_ & _ & _ & _ & _ & _ & _ & (_ & _ & H3)). exact H3.
Qed.
Definition HLok (r : ires hline) : Prop := match r with Ret o EOk st' => HBh o (hx_h st') | _ => True end.
Lemma colon_HLok pre rest i k st : i = nnat (length pre) -> (S k <= length rest)%nat -> UPo i (hx_pv st) ->
  pf_end (h_name (hx_h st)) <= i + nnat k -> pf_end (h_val (hx_h st)) <= i -> HLok (hl_colon pre rest i k st).
Proof.
  intros Hi Hk Hpr Hn Hv. rewrite hl_colon_eq. unfold hl_colon'. destruct (zget _ _ _ _) as [name|]; [|exact I]. cbv zeta.
  assert (Ho : i + nnat k + 1 = nnat (length (zpre (S k) pre rest))).
  { unfold zpre. rewrite app_length, rev_length, firstn_length. unfold nnat in *. lia. }
  set (st1 := st <| hx_h := (hx_h st) <| h_state := HBodyStart |> <| h_type := get_hdr_type name |> |>).
  assert (F1 : hx_pv st1 = hx_pv st) by (subst st1; destruct st as [h pv]; reflexivity).
  assert (F2 : h_name (hx_h st1) = h_name (hx_h st)) by (subst st1; destruct st as [h pv]; destruct h; reflexivity).
  assert (F3 : h_val (hx_h st1) = h_val (hx_h st)) by (subst st1; destruct st as [h pv]; destruct h; reflexivity).
  clearbody st1.
  assert (HB1 : HBh (i + nnat k + 1) (hx_h st1)) by (unfold HBh; rewrite F2, F3; lia).
  destruct (hb_pick st1) as [[hs v']|] eqn:Ep; [|exact I].
  exact (hb_run_HB_ok hs v' (zpre (S k) pre rest) (zrest (S k) rest) (i + nnat k + 1) st1 Ho Ep
           ltac:(rewrite F1; apply (UPo_mono i); [lia|exact Hpr]) HB1).
Qed.
Lemma name_ph_HLok pre rest i st : i = nnat (length pre) -> UPo i (hx_pv st) -> HBh i (hx_h st) -> HLok (hl_name_ph pre rest i st).
Proof.
  intros Hi Hpr [Hn Hv]. unfold hl_name_ph. cbv zeta. set (k := skipTokenDelim 58 rest).
  destruct (skipn k rest) as [|c r] eqn:Sk; [exact I|]. pose proof (skipn_cons_len _ _ _ _ Sk) as Hk.
  destruct (is_sp c).
  - destruct (pf_extend _ _) as [n|]; [|exact I]. destruct (pf_empty n); exact I.
  - destruct (c =? 58); [|exact I].
    destruct (pf_extend (h_name (hx_h st)) (i + nnat k)) as [n|] eqn:En; [|exact I].
    assert (Hext : pf_end n = i + nnat k).
    { unfold pf_extend in En. destruct (_ <? _) eqn:El; [discriminate|]. injection En as <-. unfold pf_end. cbn [po pl]. lia. }
    match goal with |- HLok (if _ then Ret _ _ ?S else _) => set (st' := S) end.
    assert (F1 : hx_pv st' = hx_pv st) by (subst st'; destruct st as [h pv]; reflexivity).
    assert (F2 : h_name (hx_h st') = n) by (subst st'; destruct st as [h pv]; destruct h; reflexivity).
    assert (F3 : h_val (hx_h st') = h_val (hx_h st)) by (subst st'; destruct st as [h pv]; destruct h; reflexivity).
    clearbody st'. destruct (pf_empty n); [exact I|].
    apply colon_HLok; [exact Hi|lia|rewrite F1; exact Hpr|rewrite F2, Hext; lia|rewrite F3; exact Hv].
Qed.
Lemma HLok_step pre rest i st : i = nnat (length pre) -> UL pre i st -> HBh i (hx_h st) -> HLok (hl_iter pre rest i st).
Proof.
  intros Hi Hs HB. unfold UL in Hs. destruct rest as [|c r]; [exact I|].
  destruct (h_state (hx_h st)) eqn:Est; try contradiction.
  - rewrite (hit_init pre c r i st Est).
    destruct (is_cr c); [destruct r as [|d r2]; exact I|]. destruct (is_lf c); [exact I|].
    destruct (pf_set i i) as [n|] eqn:En; [|exact I]. cbv beta iota.
    assert (Hn : n = mkpf i 0) by (unfold pf_set in En; rewrite N.ltb_irrefl, N.sub_diag in En; injection En as <-; reflexivity). subst n.
    match goal with |- HLok (hl_name_ph _ _ _ ?S) => set (st' := S) end.
    assert (F1 : hx_pv st' = hx_pv st) by (subst st'; destruct st as [h pv]; reflexivity).
    assert (F2 : h_name (hx_h st') = mkpf i 0) by (subst st'; destruct st as [h pv]; destruct h; reflexivity).
    assert (F3 : h_val (hx_h st') = h_val (hx_h st)) by (subst st'; destruct st as [h pv]; destruct h; reflexivity).
    clearbody st'. apply name_ph_HLok; [exact Hi|rewrite F1; exact Hs|].
    unfold HBh. rewrite F2, F3. destruct HB. unfold pf_end in *. cbn [po pl]. split; lia.
  - rewrite (hit_name pre _ i st Est). apply name_ph_HLok; assumption.
  - rewrite (hit_nameend pre _ i st Est). unfold hl_nameend. cbv zeta.
    destruct (skipn _ (c :: r)) as [|d r'] eqn:Sk; [exact I|]. destruct (d =? 58); [|exact I].
    destruct HB as [A B1]. apply colon_HLok; [exact Hi|pose proof (skipn_cons_len _ _ _ _ Sk); lia|exact Hs|lia|exact B1].
  - rewrite (hit_bstart pre _ i st Est). unfold hl_bstart.
    destruct (skipLWS false (c :: r)) as [k|k crl|k]; [destruct (pf_set _ _); exact I| |exact I].
    cbn [HLok]. destruct HB as [A B1]. destruct st as [h pv]; destruct h; unfold HBh in *; cbn in *; unfold nnat; split; lia.
  - rewrite (hit_val pre _ i st Est). unfold hl_val. cbv zeta.
    destruct (skipn (skipToken (c :: r)) (c :: r)) as [|d r'] eqn:Sk; [exact I|].
    destruct (pf_extend _ _) as [v1|] eqn:Ev; [|exact I].
    assert (Hv1 : pf_end v1 = i + nnat (skipToken (c :: r))).
    { unfold pf_extend in Ev. destruct (_ <? _) eqn:El; [discriminate|]. injection Ev as <-. unfold pf_end. cbn [po pl]. lia. }
    unfold hl_valend. destruct HB as [A _].
    destruct (skipLWS false (d :: r')) as [k2|k2 crl|k2]; cbn [HLok]; try exact I.
    destruct st as [h pv]; destruct h; unfold HBh in *; cbn in *; rewrite Hv1; unfold nnat in *; split; lia.
  - rewrite (hit_valend pre _ i st Est). unfold hl_valend.
    destruct (skipLWS false (c :: r)) as [k2|k2 crl|k2]; cbn [HLok]; try exact I.
    destruct HB as [A B1]; destruct st as [h pv]; destruct h; unfold HBh in *; cbn in *; unfold nnat in *; split; lia.
  - rewrite (hit_fin pre c r i st Est). exact I.
Qed.

(* the list of stored headers *)
Definition HLB (B : N) (l : hdrlst) : Prop := Forall (HBh B) (hl_hdrs l) /\ HBh B (hl_tmp l) /\ Forall (HBh B) (hl_first l).
Lemma HLB_mono B B' l : B <= B' -> HLB B l -> HLB B' l.
Proof. intros H (A & C & D). split; [eapply Forall_impl; [|exact A]; intros a; apply HBh_mono; exact H|]. split; [apply (HBh_mono B); assumption|eapply Forall_impl; [|exact D]; intros a; apply HBh_mono; exact H]. Qed.
Lemma HLB_store B l h : HLB B l -> HBh B h -> HLB B (hl_store l h).
Proof.
  intros (A & C & D) Hh. destruct (hl_store_proj l h) as (_ & _ & S3 & S4 & S5). unfold HLB. rewrite S3, S4, S5.
  split; [destruct (hl_is_tmp l); [exact A|apply Forall_set_nth; assumption]|]. split; [destruct (hl_is_tmp l); assumption|exact D].
Qed.
Lemma HLB_add B l h : HLB B l -> HBh B h -> HLB B (hl_add l h).
Proof.
  intros (A & C & D) Hh. destruct (hl_add_proj l h) as (_ & X2 & X3 & _ & X5). unfold HLB. rewrite X2, X3, X5.
  split; [destruct (hl_is_tmp l); [exact A|apply Forall_set_nth; assumption]|]. split; [destruct (hl_is_tmp l); [apply HBh_0|exact C]|].
  destruct (_ && _); [apply Forall_set_nth; assumption|exact D].
Qed.

Lemma BH_step pre rest i st : i = nnat (length pre) -> BU pre i st -> HLB i (hs_l st) ->
  match hs_iter pre rest i st with
  | Next k st' => (0 < k)%nat -> (k <= length rest)%nat -> HLB (i + nnat k) (hs_l st')
  | Ret o e st' => HLB (i + nnat (length rest)) (hs_l st')
  | IPanic => True
  end.
Proof.
  intros Hi (Hp & [Hwf Hslot]) HL. destruct rest as [|c r]; [unfold hs_iter; cbn; apply (HLB_mono i); [lia|exact HL]|].
  rewrite hs_iter_def. unfold hs_sel. rewrite Hslot.
  pose proof (run_invQ hl_iter (fun p j s => i <= j /\ UL p j s /\ HBh j (hx_h s))
                (fun p r0 j o e s => i <= j /\ HBh (j + nnat (length r0)) (hx_h s) /\ (e = EOk -> HBh o (hx_h s)) /\ (e = EOk \/ e = EEmpty -> j <= o))) as R.
  specialize (R ltac:(intros p r0 j s Hj (P0 & P1 & P2); pose proof (UL_step p r0 j s Hj P1) as X; pose proof (HL_step p r0 j s Hj P1 P2) as Y;
                      pose proof (HLok_step p r0 j s Hj P1 P2) as Z;
                      destruct (hl_iter p r0 j s) as [k s'|o e s'|]; auto;
                      [intros Hk0 Hk; split; [unfold nnat; lia|]; split; [exact (X Hk0 Hk)|exact (Y Hk)]
                      |split; [exact P0|]; split; [exact Y|]; split; [intros ->; exact Z|intros He; exact (proj1 (X He))]])
                (c :: r) pre i (mkhline hdr0 (hs_pv st)) Hi (conj (N.le_refl i) (conj Hp (HBh_0 i)))).
  destruct (run hl_iter pre (c :: r) i 0 (mkhline hdr0 (hs_pv st))) as [n e x| |] eqn:Er; [|exact I|exact I].
  destruct R as (p' & r' & i' & Hi' & Hw & (Hii & HQ & Hok & Hge)).
  apply (f_equal (@length _)) in Hw. rewrite !app_length, !rev_length in Hw.
  replace (i' + nnat (length r')) with (i + nnat (length (c :: r))) in HQ by (unfold nnat in *; lia).
  set (B := i + nnat (length (c :: r))) in *. assert (HiB : i <= B) by (unfold B; lia).
  pose proof (HLB_store B (hs_l st) (hx_h x) (HLB_mono i B _ HiB HL) HQ) as Hst.
  destruct e; try (unfold hs_post; cbv zeta; exact Hst).
  - rewrite hs_post_ok. intros Hk0 Hk. cbn [hs_l].
    assert (Hn : i <= n) by (specialize (Hge (or_introl eq_refl)); lia).
    replace (i + nnat (N.to_nat (n - i))) with n by (unfold nnat in *; lia).
    apply HLB_add; [apply (HLB_mono i); [exact Hn|exact HL]|exact (Hok eq_refl)].
  - unfold hs_post. cbv zeta. destruct (0 <? _); exact Hst.
Qed.
Theorem headers_hwb buf offs ncap nc o e st' : offs <= nnat (length buf) ->
  parse_headers buf offs (mkhdrs_st (hdrlst_init (repeat hdr0 ncap)) (Some (phvals_init (repeat pfrom0 nc)))) = Done o e st' ->
  HLB (nnat (length buf)) (hs_l st').
Proof.
  intros Ho H. unfold parse_headers, parse in H. unfold zinit in H.
  assert (Hi : offs = nnat (length (rev (firstn (N.to_nat offs) buf)))) by (rewrite rev_length, firstn_length; unfold nnat in *; lia).
  pose proof (run_invQ hs_iter (fun p j s => offs <= j /\ BU p j s /\ HLB j (hs_l s)) (fun p r j _ _ s => HLB (j + nnat (length r)) (hs_l s))) as R.
  specialize (R ltac:(intros p r0 j s Hj (P0 & P1 & P2); pose proof (BU_step p r0 j s Hj P1) as X; pose proof (BH_step p r0 j s Hj P1 P2) as Y;
                      destruct (hs_iter p r0 j s) as [k s'|o0 e0 s'|]; auto;
                      intros Hk0 Hk; split; [unfold nnat; lia|]; split; [exact (X Hk0 Hk)|exact (Y Hk0 Hk)])
                (skipn (N.to_nat offs) buf) (rev (firstn (N.to_nat offs) buf)) offs (mkhdrs_st (hdrlst_init (repeat hdr0 ncap)) (Some (phvals_init (repeat pfrom0 nc)))) Hi).
  assert (HL0 : HLB offs (hdrlst_init (repeat hdr0 ncap))).
  { unfold HLB, hdrlst_init. cbn [hl_hdrs hl_tmp hl_first].
    split; [apply Forall_forall; intros x Hx; apply repeat_spec in Hx; subst x; apply HBh_0|]. split; [apply HBh_0|].
    apply Forall_forall; intros x Hx; apply repeat_spec in Hx; subst x; apply HBh_0. }
  specialize (R ltac:(split; [lia|]; split; [split; [split; [apply UBv_init|apply PR2_init]|];
                      unfold LI, hdrlst_init; cbn; split; [split; [intros j _; apply nth_repeat|reflexivity]|];
                      unfold hl_slot, hl_is_tmp, hl_cap; cbn; destruct (_ <=? 0); [reflexivity|apply nth_repeat]|exact HL0])).
  rewrite H in R. destruct R as (p' & r' & i' & Hi' & Hw & HQ). rewrite rev_involutive, firstn_skipn in Hw.
  apply (f_equal (@length _)) in Hw. rewrite app_length, rev_length in Hw.
  replace (nnat (length buf)) with (i' + nnat (length r')) by (unfold nnat in *; lia). exact HQ.
Qed.
(* whatever one call on fresh objects answers: every stored header's name and value end inside the buffer *)
Theorem message_hwb flags buf offs bl n nc o e m' : offs <= nnat (length buf) ->
  parse_sipmsg flags buf offs (msg_init bl (repeat hdr0 n) (repeat pfrom0 nc)) = Done o e m' ->
  HLB (nnat (length buf)) (hs_l (m_hs m')).
Proof.
  intros Hoffs. unfold parse_sipmsg, msg_init. cbn -[msg_fline]. unfold msg_fline. cbn -[parse_fline msg_headers msg_fail].
  pose proof (fline_safe buf offs fline0 Hoffs) as Hfs.
  destruct (parse_fline buf offs fline0) as [o1 e1 fl| |] eqn:Efl; try discriminate.
  assert (HL0 : forall B, HLB B (hdrlst_init (repeat hdr0 n))).
  { intros B. unfold HLB, hdrlst_init. cbn [hl_hdrs hl_tmp hl_first].
    split; [apply Forall_forall; intros x Hx; apply repeat_spec in Hx; subst x; apply HBh_0|]. split; [apply HBh_0|].
    apply Forall_forall; intros x Hx; apply repeat_spec in Hx; subst x; apply HBh_0. }
  assert (Hf : forall oo ee m, hs_l (m_hs m) = hdrlst_init (repeat hdr0 n) -> msg_fail flags oo ee m = Done o e m' -> HLB (nnat (length buf)) (hs_l (m_hs m'))).
  { intros oo ee m Hm H. pose proof (fail_hs flags oo ee m) as F. rewrite H in F. rewrite F, Hm. apply HL0. }
  destruct e1; try (apply Hf; reflexivity).
  unfold msg_headers. cbn -[parse_headers msg_body msg_fail].
  assert (Ho1 : o1 <= nnat (length buf)).
  { assert (X : fl_inv offs fline0) by (unfold fl_inv, pf_end; cbn; repeat split; lia). specialize (Hfs X). apply Hfs. }
  pose proof (headers_hwb buf o1 n nc) as Hc.
  destruct (parse_headers buf o1 _) as [o2 e2 hs| |]; try discriminate.
  specialize (Hc o2 e2 hs Ho1 eq_refl).
  assert (Hf2 : forall oo ee m, m_hs m = hs -> msg_fail flags oo ee m = Done o e m' -> HLB (nnat (length buf)) (hs_l (m_hs m'))).
  { intros oo ee m Hm H. pose proof (fail_hs flags oo ee m) as F. rewrite H in F. rewrite F, Hm. exact Hc. }
  destruct e2; try (apply Hf2; reflexivity).
  intros H. match type of H with msg_body ?f ?L ?oo ?mm = _ => pose proof (body_hs f L oo mm) as B end.
  rewrite H in B. rewrite B. exact Hc.
Qed.
Theorem message_hwb_fed flags B offs bl n nc o s o' e m' : testbit flags bSIPMsgNoMoreData = false -> offs <= nnat (length B) ->
  feeds flags B offs (msg_init bl (repeat hdr0 n) (repeat pfrom0 nc)) o s ->
  parse_sipmsg flags B o s = Done o' e m' -> HLB (nnat (length B)) (hs_l (m_hs m')).
Proof.
  intros Hf Hoffs Hfeed H. rewrite (feeds_same _ _ _ _ _ _ Hf Hfeed) in H. exact (message_hwb _ _ _ _ _ _ _ _ _ Hoffs H).
Qed.

(* ---- the body and the raw-message span ------------------------------------------------------------------------------------------------------------------ *)
Definition raw_in (B : N) (r : option (N * N)) : Prop := match r with Some (a, l) => a + l <= B | None => True end.
Lemma body_bnd flags L o m : o <= L ->
  match msg_body flags L o m with Done _ _ m' => pf_end (m_body m') <= L /\ raw_in L (m_raw m') \/ (pf_end (m_body m') <= L /\ m_raw m' = m_raw m) | _ => True end.
Proof.
  intros Ho. unfold msg_body, msg_end. unfold pf_set. rewrite N.ltb_irrefl, N.sub_diag. destruct m as [fl hs body bl raw st offs].
  cbn -[testbit N.ltb N.add N.sub pf_extend]. unfold pf_extend. cbn [po pl].
  repeat match goal with
         | |- context [if ?b then _ else _] => destruct b eqn:?
         end; try exact I; unfold pf_end, raw_in; cbn -[N.add N.sub N.ltb N.leb testbit]; first [left; split; lia | right; split; [lia|reflexivity]].
Qed.
Theorem message_body_wb flags buf offs bl n nc o e m' : offs <= nnat (length buf) ->
  parse_sipmsg flags buf offs (msg_init bl (repeat hdr0 n) (repeat pfrom0 nc)) = Done o e m' ->
  pf_end (m_body m') <= nnat (length buf) /\ raw_in (nnat (length buf)) (m_raw m').
Proof.
  intros Hoffs. unfold parse_sipmsg, msg_init. cbn -[msg_fline]. unfold msg_fline. cbn -[parse_fline msg_headers msg_fail].
  pose proof (fline_safe buf offs fline0 Hoffs) as Hfs.
  destruct (parse_fline buf offs fline0) as [o1 e1 fl| |] eqn:Efl; try discriminate.
  assert (Hf : forall oo ee m, m_body m = pf0 -> m_raw m = None -> msg_fail flags oo ee m = Done o e m' ->
            pf_end (m_body m') <= nnat (length buf) /\ raw_in (nnat (length buf)) (m_raw m')).
  { intros oo ee m Hb Hr H. unfold msg_fail in H.
    assert (X : m_body m' = m_body m /\ m_raw m' = m_raw m).
    { destruct ee; try (injection H as _ _ <-; destruct m; split; reflexivity).
      destruct (testbit flags bSIPMsgNoMoreData); injection H as _ _ <-; destruct m; split; reflexivity. }
    destruct X as [-> ->]. rewrite Hb, Hr. unfold pf_end, pf0. cbn. split; [lia|exact I]. }
  destruct e1; try (apply Hf; reflexivity).
  unfold msg_headers. cbn -[parse_headers msg_body msg_fail].
  assert (Ho1 : o1 <= nnat (length buf)).
  { assert (X : fl_inv offs fline0) by (unfold fl_inv, pf_end; cbn; repeat split; lia). specialize (Hfs X). apply Hfs. }
  pose proof (headers_safe buf o1 (mkhdrs_st (hdrlst_init (repeat hdr0 n)) (Some (phvals_init (repeat pfrom0 nc))))) as Hc.
  destruct (parse_headers buf o1 _) as [o2 e2 hs| |]; try discriminate.
  specialize (Hc Ho1 (HSstart_inv o1 o1 _ _ (HSstart_init n nc o1) (N.le_refl _))). destruct Hc as (Ho2 & _).
  destruct e2; try (apply Hf; reflexivity).
  intros H. match type of H with msg_body ?f ?L ?oo ?mm = _ => pose proof (body_bnd f L oo mm Ho2) as B end.
  rewrite H in B. destruct B as [[B1 B2]|[B1 B2]]; split; try exact B1; try exact B2. rewrite B2. exact I.
Qed.
Theorem message_body_wb_fed flags B offs bl n nc o s o' e m' : testbit flags bSIPMsgNoMoreData = false -> offs <= nnat (length B) ->
  feeds flags B offs (msg_init bl (repeat hdr0 n) (repeat pfrom0 nc)) o s ->
  parse_sipmsg flags B o s = Done o' e m' -> pf_end (m_body m') <= nnat (length B) /\ raw_in (nnat (length B)) (m_raw m').
Proof.
  intros Hf Hoffs Hfeed H. rewrite (feeds_same _ _ _ _ _ _ Hf Hfeed) in H. exact (message_body_wb _ _ _ _ _ _ _ _ _ Hoffs H).
Qed.
