(* C05, message level: in every successfully parsed message, under any feeding schedule, the value of every stored header - also of the eight
   kinds parsed into PHdrVals - is trimmed: empty, or its first and its last byte are not white space.  The generic path is TrimSpec.v; here the
   same loop invariant with PHdrVals present, the specific parsers entering through their parser-level trimming theorems. *)
From Sipsp Require Import RunLemmas Safe Resume Ext ExtLeaf ZSlice Harness ExtFLine ExtAdv ExtHdrLine ExtHeaders ExtLists
  SafeLeaf SafeMore SafeMsg Capacity CapHeaders Layout BlockSpec ContactSpec TrimSpec LowerLists LowerBound UpperBound
  NameAddrNest NameAddrTag NameAddrTrim NameAddrPos LeafTrim ContactTrim AllVerdicts.
From Sipsp Require Import MsgBounds ExtMsg SigCoherent FLineSpec HdrSpec FLineConv.
From Coq Require Import ZifyN ZifyNat ZifyBool.
From RecordUpdate Require Import RecordUpdate.

(* ---- the leaves at the zipper of the header line ------------------------------------------------------------------------------------------------- *)
Lemma vtb_trimmed B f : vtb B f -> trimmed B f.
Proof. intros [A C]. right. split; assumption. Qed.
Lemma ci_run_trim pre rest i s n s' : i = nnat (length pre) -> ci_state s = CiInit -> run ci_iter pre rest i 0 s = Done n EOk s' ->
  trimmed (rev pre ++ rest) (ci_callid s').
Proof.
  intros Hi Hs H.
  pose proof (run_invQ ci_iter CiT (fun p r _ _ e t => e = EOk -> vt p (ci_callid t))) as R.
  specialize (R ltac:(intros p r j t Hj HP; pose proof (ci_iter_trim p r j t Hj HP) as X; destruct (ci_iter p r j t); cbn [ci_tres] in X;
                      [intros _ Hk; exact (X Hk)|exact (proj2 X)|exact I]) rest pre i s Hi ltac:(unfold CiT; rewrite Hs; exact I)).
  rewrite H in R. destruct R as (p' & r' & i' & _ & Hw & HQ). rewrite <- Hw. apply vt_trimmed. exact (HQ eq_refl).
Qed.
Lemma ui_run_trim pre rest i s n s' : i = nnat (length pre) -> ui_state s = ClInit -> run ui_iter pre rest i 0 s = Done n EOk s' ->
  trimmed (rev pre ++ rest) (ui_sval s').
Proof.
  intros Hi Hs H.
  pose proof (run_invQ ui_iter UiT (fun p r _ _ e t => e = EOk -> vt p (ui_sval t))) as R.
  specialize (R ltac:(intros p r j t Hj HP; pose proof (ui_iter_trim p r j t Hj HP) as X; destruct (ui_iter p r j t); cbn [ui_tres] in X;
                      [intros _ Hk; exact (X Hk)|exact (proj2 X)|exact I]) rest pre i s Hi ltac:(unfold UiT; rewrite Hs; exact I)).
  rewrite H in R. destruct R as (p' & r' & i' & _ & Hw & HQ). rewrite <- Hw. apply vt_trimmed. exact (HQ eq_refl).
Qed.
Lemma clen_run_trim pre rest i s n s' : i = nnat (length pre) -> ui_state s = ClInit -> clen_R pre rest i s = Done n EOk s' ->
  trimmed (rev pre ++ rest) (ui_sval s').
Proof.
  intros Hi Hs H. unfold clen_R in H. destruct (run ui_iter pre rest i 0 s) as [n1 e1 b1| |] eqn:E; try discriminate.
  destruct e1; try discriminate. destruct (_ || _); [discriminate|]. injection H as <- <-. exact (ui_run_trim pre rest i s n1 b1 Hi Hs E).
Qed.
Lemma cs_run_trim pre rest i s n s' : i = nnat (length pre) -> cs_state s = CsInit -> run cs_iter pre rest i 0 s = Done n EOk s' ->
  trimmed (rev pre ++ rest) (cs_v s').
Proof.
  intros Hi Hs H.
  pose proof (run_invQ cs_iter CsT (fun p r _ _ e t => e = EOk -> vt p (cs_v t))) as R.
  specialize (R ltac:(intros p r j t Hj HP; pose proof (cs_iter_trim p r j t Hj HP) as X; destruct (cs_iter p r j t); cbn [cs_tres] in X;
                      [intros _ Hk; exact (X Hk)|exact (proj2 X)|exact I]) rest pre i s Hi ltac:(unfold CsT; rewrite Hs; exact I)).
  rewrite H in R. destruct R as (p' & r' & i' & _ & Hw & HQ). rewrite <- Hw. apply vt_trimmed. exact (HQ eq_refl).
Qed.

(* a specific value parser under the header line: the header's value is trimmed when the answer is ok *)
Lemma hb_run_trim hs v' pre rest o st : o = nnat (length pre) -> hb_pick st = Some (hs, v') -> UPo o (hx_pv st) ->
  match hb_run hs pre rest o st v' with
  | Ret n EOk st' => trimmed (rev pre ++ rest) (h_val (hx_h st'))
  | _ => True
  end.
Proof.
  intros Ho. unfold hb_pick. destruct (hx_pv st) as [v|] eqn:Epv; [|discriminate]. cbv zeta. intros Hpick [HUB HPR].
  pose proof HUB as (U1 & U2 & U3 & U4 & U5 & U6 & U7 & U8). pose proof HPR as (HPRv & F1 & F2).
  pose proof HPRv as (P1 & P2 & P3 & P4 & P5 & P6).
  set (t := h_type (hx_h st)) in *.
  assert (Fin : forall {T} (R : list byte -> list byte -> N -> T -> res T) sel put valof hs0 (vv : phvals),
            (forall pre rest o st v, hb_run hs0 pre rest o st v
               = hb_finish (R pre rest o (sel v)) (st <| hx_h := (hx_h st) <| h_state := hs0 |> |>) valof (put v)) ->
            (forall n b', R pre rest o (sel vv) = Done n EOk b' -> trimmed (rev pre ++ rest) (valof b')) ->
            match hb_run hs0 pre rest o st vv with
            | Ret n EOk st' => trimmed (rev pre ++ rest) (h_val (hx_h st'))
            | _ => True
            end).
  { intros T R sel put valof hs0 vv Hdef HR. pose proof (hb_lay R sel put valof hs0 Hdef pre rest o st vv) as H.
    destruct (hb_run hs0 pre rest o st vv) as [|n e st'|]; [exact I| |exact I]. destruct e; try exact I.
    destruct H as (b' & ER & _ & _ & _ & Eok & _). destruct (Eok eq_refl) as [-> _]. exact (HR n b' ER). }
  destruct (t =? HdrFrom) eqn:E1.
  { destruct (fb_parsed (pv_from v)) eqn:Ep; [discriminate|]. injection Hpick as <- <-.
    apply (Fin _ (fun pre rest o b => run (fb_iter HdrFrom) pre rest o 0 b) pv_from (fun v b => v <| pv_from := b |>) fb_v HFrom v); [reflexivity|].
    intros n b' ER. destruct F1 as [X|X]; [congruence|]. rewrite X in ER.
    apply vtb_trimmed. exact (proj1 (fb_fresh_vtb HdrFrom pre rest o n EOk b' Ho ER (or_introl eq_refl))). }
  destruct (t =? HdrTo) eqn:E2.
  { destruct (fb_parsed (pv_to v)) eqn:Ep; [discriminate|]. injection Hpick as <- <-.
    apply (Fin _ (fun pre rest o b => run (fb_iter HdrTo) pre rest o 0 b) pv_to (fun v b => v <| pv_to := b |>) fb_v HTo v); [reflexivity|].
    intros n b' ER. destruct F2 as [X|X]; [congruence|]. rewrite X in ER.
    apply vtb_trimmed. exact (proj1 (fb_fresh_vtb HdrTo pre rest o n EOk b' Ho ER (or_introl eq_refl))). }
  destruct (t =? HdrCallID) eqn:E3.
  { destruct (ci_parsed (pv_callid v)) eqn:Ep; [discriminate|]. injection Hpick as <- <-.
    apply (Fin _ (fun pre rest o b => run ci_iter pre rest o 0 b) pv_callid (fun v b => v <| pv_callid := b |>) ci_callid HCallID v); [reflexivity|].
    intros n b' ER. destruct P1 as [X|[X _]]; [congruence|]. exact (ci_run_trim pre rest o _ n b' Ho X ER). }
  destruct (t =? HdrCSeq) eqn:E4.
  { destruct (cs_parsed (pv_cseq v)) eqn:Ep; [discriminate|]. injection Hpick as <- <-.
    apply (Fin _ (fun pre rest o b => run cs_iter pre rest o 0 b) pv_cseq (fun v b => v <| pv_cseq := b |>) cs_v HCSeq v); [reflexivity|].
    intros n b' ER. destruct P2 as [X|X]; [congruence|]. exact (cs_run_trim pre rest o _ n b' Ho X ER). }
  destruct (t =? HdrCLen) eqn:E5.
  { destruct (ui_parsed (pv_clen v)) eqn:Ep; [discriminate|]. injection Hpick as <- <-.
    apply (Fin _ clen_R pv_clen (fun v b => v <| pv_clen := b |>) ui_sval HCLen v); [reflexivity|].
    intros n b' ER. destruct P3 as [X|[X _]]; [congruence|]. exact (clen_run_trim pre rest o _ n b' Ho X ER). }
  destruct (t =? HdrContact) eqn:E6.
  { injection Hpick as <- <-.
    set (c1 := (pv_contacts v) <| ct_hno := ct_hno (pv_contacts v) + 1 |> <| ct_lasthval := pf0 |>).
    assert (Hc1 : LBct 0 c1) by (subst c1; apply ct_newhdr_LB; exact P5).
    assert (Hu1 : UBct o c1) by (subst c1; apply UBct_newhdr; exact U7).
    assert (Hl1 : LT pre (ct_lasthval c1)) by (left; subst c1; destruct (pv_contacts v); reflexivity).
    apply (Fin _ (fun pre rest o b => run ct_iter pre rest o 0 b) pv_contacts (fun v b => v <| pv_contacts := b |>) ct_lasthval HContact); [reflexivity|].
    intros n b' ER. replace (pv_contacts (v <| pv_contacts := c1 |>)) with c1 in ER by (destruct v; reflexivity).
    apply vtb_trimmed. exact (proj1 (ct_run_lt pre rest o c1 n b' Ho Hu1 Hc1 Hl1 ER)). }
  destruct (t =? HdrExpires) eqn:E7.
  { destruct (ui_parsed (pv_expires v)) eqn:Ep; [discriminate|]. injection Hpick as <- <-.
    apply (Fin _ (fun pre rest o b => run ui_iter pre rest o 0 b) pv_expires (fun v b => v <| pv_expires := b |>) ui_sval HExpires v); [reflexivity|].
    intros n b' ER. destruct P4 as [X|[X _]]; [congruence|]. exact (ui_run_trim pre rest o _ n b' Ho X ER). }
  destruct (t =? HdrPAI) eqn:E8; [|discriminate].
  injection Hpick as <- <-.
  set (c1 := (pv_pais v) <| pa_hno := pa_hno (pv_pais v) + 1 |> <| pa_lasthval := pf0 |>).
  assert (Hc1 : LBpa 0 c1) by (subst c1; apply pa_newhdr_LB; exact P6).
  assert (Hu1 : UBpa o c1) by (subst c1; apply UBpa_newhdr; exact U8).
  assert (Hl1 : LT pre (pa_lasthval c1)) by (left; subst c1; destruct (pv_pais v); reflexivity).
  apply (Fin _ (fun pre rest o b => run pa_iter pre rest o 0 b) pv_pais (fun v b => v <| pv_pais := b |>) pa_lasthval HPAI); [reflexivity|].
  intros n b' ER. replace (pv_pais (v <| pv_pais := c1 |>)) with c1 in ER by (destruct v; reflexivity).
  apply vtb_trimmed. exact (proj1 (pa_run_lt pre rest o c1 n b' Ho Hu1 Hc1 Hl1 ER)).
Qed.

(* ---- the header line with PHdrVals present --------------------------------------------------------------------------------------------------------- *)
Definition TS (pre : list byte) (i : N) (st : hline) : Prop :=
  match h_state (hx_h st) with
  | HInit | HName | HNameEnd | HBodyStart => pl (h_val (hx_h st)) = 0
  | HVal => po (h_val (hx_h st)) < i /\ nonws_pre pre (po (h_val (hx_h st))) /\ nonws_pre pre (i - 1)
  | HValEnd => po (h_val (hx_h st)) < pf_end (h_val (hx_h st)) /\ pf_end (h_val (hx_h st)) <= i /\
               nonws_pre pre (po (h_val (hx_h st))) /\ nonws_pre pre (pf_end (h_val (hx_h st)) - 1)
  | _ => True
  end.
Definition TQ2 (pre rest : list byte) (e : err) (st : hline) : Prop := e = EOk -> trimmed (rev pre ++ rest) (h_val (hx_h st)).
Definition pre_res2 (B : list byte) (r : ires hline) : Prop :=
  match r with
  | Next _ st' => pl (h_val (hx_h st')) = 0 /\ prevalue (h_state (hx_h st')) = true
  | Ret _ e st' => e = EOk -> trimmed B (h_val (hx_h st'))
  | IPanic => True
  end.
Lemma colon_pre2 pre rest i k st : i = nnat (length pre) -> (S k <= length rest)%nat -> UPo i (hx_pv st) -> pl (h_val (hx_h st)) = 0 ->
  pre_res2 (rev pre ++ rest) (hl_colon pre rest i k st).
Proof.
  intros Hi Hk Hpr Hv. rewrite hl_colon_eq. unfold hl_colon'. destruct (zget _ _ _ _) as [name|]; [|exact I]. cbv zeta.
  assert (Ho : i + nnat k + 1 = nnat (length (zpre (S k) pre rest))).
  { unfold zpre. rewrite app_length, rev_length, firstn_length. unfold nnat in *. lia. }
  set (st1 := st <| hx_h := (hx_h st) <| h_state := HBodyStart |> <| h_type := get_hdr_type name |> |>).
  assert (F1 : hx_pv st1 = hx_pv st) by (subst st1; destruct st as [h pv]; reflexivity).
  assert (F3 : h_val (hx_h st1) = h_val (hx_h st)) by (subst st1; destruct st as [h pv]; destruct h; reflexivity).
  assert (F4 : h_state (hx_h st1) = HBodyStart) by (subst st1; destruct st as [h pv]; destruct h; reflexivity).
  clearbody st1.
  destruct (hb_pick st1) as [[hs v']|] eqn:Ep.
  - pose proof (hb_run_trim hs v' (zpre (S k) pre rest) (zrest (S k) rest) (i + nnat k + 1) st1 Ho Ep
                  ltac:(rewrite F1; apply (UPo_mono i); [lia|exact Hpr])) as H.
    pose proof (hb_run_noNext hs (zpre (S k) pre rest) (zrest (S k) rest) (i + nnat k + 1) st1 v') as Hnn.
    destruct (hb_run hs _ _ _ st1 v') as [|n e st'|]; [destruct Hnn| |exact I].
    cbn [pre_res2]. intros ->. rewrite <- (zip_whole (S k) pre rest Hk). exact H.
  - cbn [pre_res2]. rewrite F3, F4. split; [exact Hv|reflexivity].
Qed.
Lemma name_ph_pre2 pre rest i st : i = nnat (length pre) -> UPo i (hx_pv st) -> pl (h_val (hx_h st)) = 0 ->
  pre_res2 (rev pre ++ rest) (hl_name_ph pre rest i st).
Proof.
  intros Hi Hp Hv. unfold hl_name_ph. cbv zeta. destruct (skipn _ rest) as [|c r] eqn:Sk; [cbn; discriminate|]. pose proof (skipn_cons_len _ _ _ _ Sk) as Hk.
  destruct (is_sp c).
  - destruct (pf_extend _ _) as [n|]; [|exact I]. destruct (pf_empty n); [cbn; discriminate|].
    destruct st as [h pv]. destruct h. cbn in *. auto.
  - destruct (c =? 58); [|cbn; discriminate]. destruct (pf_extend _ _) as [n|]; [|exact I]. destruct (pf_empty n); [cbn; discriminate|].
    apply colon_pre2; [exact Hi|lia|destruct st as [h pv]; exact Hp|destruct st as [h pv]; destruct h; cbn in *; exact Hv].
Qed.
Lemma pre_res2_TS pre rest i r : pre_res2 (rev pre ++ rest) r ->
  match r with
  | Next k st' => (0 < k)%nat -> (k <= length rest)%nat -> TS (zpre k pre rest) (i + nnat k) st'
  | Ret o e st' => TQ2 pre rest e st'
  | IPanic => True
  end.
Proof.
  destruct r as [k st'|o e st'|]; cbn; [|intros H; exact H|auto].
  intros (H2 & H3) _ _. unfold TS. destruct (h_state (hx_h st')); try discriminate; exact H2.
Qed.
Lemma TS_step pre rest i st : i = nnat (length pre) -> UL pre i st -> TS pre i st ->
  match hl_iter pre rest i st with
  | Next k st' => (0 < k)%nat -> (k <= length rest)%nat -> TS (zpre k pre rest) (i + nnat k) st'
  | Ret o e st' => TQ2 pre rest e st'
  | IPanic => True
  end.
Proof.
  intros Hi HU Hs. unfold UL in HU. unfold TS in Hs. destruct rest as [|c r].
  { unfold hl_iter. intros E; discriminate E. }
  destruct (h_state (hx_h st)) eqn:Est; try contradiction.
  - (* HInit *)
    rewrite (hit_init pre c r i st Est).
    destruct (is_cr c); [destruct r; intros E; discriminate E|]. destruct (is_lf c); [intros E; discriminate E|].
    destruct (pf_set i i) as [n|]; [|exact I]. cbv beta iota.
    apply pre_res2_TS. apply name_ph_pre2; [exact Hi|destruct st as [h pv]; exact HU|destruct st as [h pv]; destruct h; cbn in *; exact Hs].
  - rewrite (hit_name pre _ i st Est). apply pre_res2_TS. apply name_ph_pre2; assumption.
  - rewrite (hit_nameend pre _ i st Est). unfold hl_nameend. cbv zeta. destruct (skipn _ (c :: r)) as [|d r'] eqn:Sk; [intros E; discriminate E|].
    destruct (d =? 58); [|intros E; discriminate E]. apply pre_res2_TS. apply colon_pre2; [exact Hi|pose proof (skipn_cons_len _ _ _ _ Sk); lia|exact HU|exact Hs].
  - (* HBodyStart: the value starts at the first byte after the white space, or is empty *)
    rewrite (hit_bstart pre _ i st Est). unfold hl_bstart.
    destruct (skipLWS false (c :: r)) as [k|k crl|k] eqn:El; [| |intros E; discriminate E].
    + destruct (skipLWS_ok_nonws _ _ El) as (c0 & Hc0 & Hw0).
      unfold pf_set. rewrite N.ltb_irrefl, N.sub_diag. cbv beta iota. intros _ Hk.
      unfold TS.
      replace (h_state (hx_h (st <| hx_h := (hx_h st) <| h_state := HVal |> <| h_val := mkpf (i + nnat k) 0 |> |>))) with HVal by (destruct st as [h pv]; destruct h; reflexivity).
      replace (h_val (hx_h (st <| hx_h := (hx_h st) <| h_state := HVal |> <| h_val := mkpf (i + nnat k) 0 |> |>))) with (mkpf (i + nnat k) 0) by (destruct st as [h pv]; destruct h; reflexivity).
      cbn [po]. split; [unfold nnat; lia|]. rewrite Hi.
      assert (Hb : bpre (zpre (S k) pre (c :: r)) (nnat (length pre) + nnat k) = Some c0) by (rewrite bpre_new by lia; exact Hc0).
      split; [exists c0; auto|]. exists c0. split; [|exact Hw0].
      replace (nnat (length pre) + nnat (S k) - 1) with (nnat (length pre) + nnat k) by (unfold nnat; lia). exact Hb.
    + intros _. assert (Hz : pl (h_val (hx_h (st <| hx_h := (hx_h st) <| h_state := HFIN |> |>))) = 0) by (destruct st as [h pv]; destruct h; cbn in *; exact Hs).
      left. exact Hz.
  - (* HVal: the token, then the white space after it *)
    rewrite (hit_val pre _ i st Est). unfold hl_val. cbv zeta.
    destruct Hs as (Hlt & (c1 & Hc1 & Hw1) & (c2 & Hc2 & Hw2)).
    destruct (skipToken_split (c :: r)) as (E1 & T1 & _). set (k := skipToken (c :: r)) in *.
    destruct (skipn k (c :: r)) as [|d r'] eqn:Sk; [intros E; discriminate E|].
    unfold pf_extend. replace (i + nnat k <? po (h_val (hx_h st))) with false by lia. cbv beta iota.
    set (v1 := mkpf (po (h_val (hx_h st))) (i + nnat k - po (h_val (hx_h st)))).
    assert (Lk : length (firstn k (c :: r)) = k) by (apply firstn_length_span).
    (* the last byte of the token: the one before i + k *)
    assert (Hend : forall rest', exists ce, nth_error (rev pre ++ firstn k (c :: r) ++ rest') (N.to_nat (i + nnat k - 1)) = Some ce /\ is_ws ce = false).
    { intros rest'. destruct k as [|k'].
      - exists c2. split; [|exact Hw2]. replace (i + nnat 0 - 1) with (i - 1) by (unfold nnat; lia).
        unfold bpre in Hc2. rewrite nth_error_app1; [exact Hc2|]. rewrite rev_length. unfold nnat in *. lia.
      - destruct (nth_error (firstn (S k') (c :: r)) k') as [ce|] eqn:En; [|apply nth_error_None in En; lia].
        exists ce. split; [|exact (tok_nth _ _ _ T1 En)].
        rewrite nth_error_app2 by (rewrite rev_length; unfold nnat in *; lia). rewrite rev_length.
        replace (N.to_nat (i + nnat (S k') - 1) - length pre)%nat with k' by (unfold nnat in *; lia).
        rewrite nth_error_app1 by lia. exact En. }
    unfold hl_valend. destruct (skipLWS false (d :: r')) as [k2|k2 crl|k2] eqn:El; [| |intros E; discriminate E].
    + (* another token follows *)
      destruct (skipLWS_ok_nonws _ _ El) as (c0 & Hc0 & Hw0). intros _ Hk.
      unfold TS.
      replace (h_state (hx_h (st <| hx_h := (hx_h st) <| h_val := v1 |> <| h_state := HValEnd |> <| h_state := HVal |> |>))) with HVal by (destruct st as [h pv]; destruct h; reflexivity).
      replace (h_val (hx_h (st <| hx_h := (hx_h st) <| h_val := v1 |> <| h_state := HValEnd |> <| h_state := HVal |> |>))) with v1 by (destruct st as [h pv]; destruct h; reflexivity).
      cbn [po v1]. split; [unfold nnat; lia|]. split.
      * exists c1. split; [|exact Hw1]. rewrite bpre_zpre by lia. exact Hc1.
      * exists c0. split; [|exact Hw0].
        replace (i + nnat (S (k + k2)) - 1) with (nnat (length pre) + nnat (k + k2)) by (unfold nnat in *; lia).
        rewrite bpre_new by lia. rewrite E1. rewrite nth_error_app2 by lia. rewrite Lk. replace (k + k2 - k)%nat with k2 by lia. exact Hc0.
    + (* the end of the line *)
      intros _.
      replace (h_val (hx_h (st <| hx_h := (hx_h st) <| h_val := v1 |> <| h_state := HValEnd |> <| h_state := HFIN |> |>))) with v1 by (destruct st as [h pv]; destruct h; reflexivity).
      right. unfold pf_end. cbn [po pl v1]. split.
      * exists c1. split; [|exact Hw1]. rewrite bpre_buf by lia. exact Hc1.
      * replace (po (h_val (hx_h st)) + (i + nnat k - po (h_val (hx_h st))) - 1) with (i + nnat k - 1) by lia.
        assert (Eb : rev pre ++ c :: r = rev pre ++ firstn k (c :: r) ++ d :: r') by (f_equal; exact E1).
        rewrite Eb. apply Hend.
  - (* HValEnd: a resumed line, after the last token *)
    rewrite (hit_valend pre _ i st Est). unfold hl_valend.
    destruct Hs as (Hlt & Hle & (c1 & Hc1 & Hw1) & (c2 & Hc2 & Hw2)).
    destruct (skipLWS false (c :: r)) as [k2|k2 crl|k2] eqn:El; [| |intros E; discriminate E].
    + destruct (skipLWS_ok_nonws _ _ El) as (c0 & Hc0 & Hw0). intros _ Hk.
      unfold TS.
      replace (h_state (hx_h (st <| hx_h := (hx_h st) <| h_state := HVal |> |>))) with HVal by (destruct st as [h pv]; destruct h; reflexivity).
      replace (h_val (hx_h (st <| hx_h := (hx_h st) <| h_state := HVal |> |>))) with (h_val (hx_h st)) by (destruct st as [h pv]; destruct h; reflexivity).
      unfold pf_end in *. split; [unfold nnat; lia|]. split.
      * exists c1. split; [|exact Hw1]. rewrite bpre_zpre by lia. exact Hc1.
      * exists c0. split; [|exact Hw0].
        replace (i + nnat (S (0 + k2)) - 1) with (nnat (length pre) + nnat k2) by (unfold nnat in *; lia).
        rewrite bpre_new by lia. exact Hc0.
    + intros _.
      replace (h_val (hx_h (st <| hx_h := (hx_h st) <| h_state := HFIN |> |>))) with (h_val (hx_h st)) by (destruct st as [h pv]; destruct h; reflexivity).
      right. unfold pf_end in *. split.
      * exists c1. split; [|exact Hw1]. rewrite bpre_buf by lia. exact Hc1.
      * exists c2. split; [|exact Hw2]. rewrite bpre_buf by lia. exact Hc2.
  - rewrite (hit_fin pre c r i st Est). intros E; discriminate E.
Qed.


(* ---- the header block and the message ------------------------------------------------------------------------------------------------------------------ *)
Definition stored_trimmed_pre (pre : list byte) (l : hdrlst) : Prop :=
  forall j, (j < N.to_nat (hl_n l))%nat -> (j < length (hl_hdrs l))%nat -> trimmed_pre pre (h_val (nth j (hl_hdrs l) hdr0)).
Definition stored_trimmed (buf : list byte) (l : hdrlst) : Prop :=
  forall j, (j < N.to_nat (hl_n l))%nat -> (j < length (hl_hdrs l))%nat -> trimmed buf (h_val (nth j (hl_hdrs l) hdr0)).
Definition BT2 (pre : list byte) (i : N) (st : hdrs_st) : Prop := BU pre i st /\ stored_trimmed_pre pre (hs_l st).
Definition BTQ2 (pre rest : list byte) (e : err) (st : hdrs_st) : Prop := e = EOk -> stored_trimmed (rev pre ++ rest) (hs_l st).

Lemma BT2_step pre rest i st : i = nnat (length pre) -> BT2 pre i st ->
  match hs_iter pre rest i st with
  | Next k st' => (0 < k)%nat -> (k <= length rest)%nat -> BT2 (zpre k pre rest) (i + nnat k) st'
  | Ret o e st' => BTQ2 pre rest e st'
  | IPanic => True
  end.
Proof.
  intros Hi (HBU & Hst). pose proof (BU_step pre rest i st Hi HBU) as XB. destruct HBU as (Hp & [Hwf Hslot]).
  destruct rest as [|c r]; [intros E; discriminate E|].
  rewrite hs_iter_def in XB |- *. unfold hs_sel in XB |- *. rewrite Hslot in XB |- *.
  assert (HT0 : TS pre i (mkhline hdr0 (hs_pv st))) by (unfold TS; cbn; reflexivity).
  pose proof (run_invQ hl_iter (fun p j s => i <= j /\ UL p j s /\ TS p j s /\ HBh j (hx_h s))
                (fun p r0 j o e s => e = EOk -> trimmed (rev p ++ r0) (h_val (hx_h s)) /\ HBh o (hx_h s))) as R.
  specialize (R ltac:(intros p r0 j s Hj (P0 & P1 & P2 & P3); pose proof (UL_step p r0 j s Hj P1) as X; pose proof (TS_step p r0 j s Hj P1 P2) as Y;
                      pose proof (HL_step p r0 j s Hj P1 P3) as Z; pose proof (HLok_step p r0 j s Hj P1 P3) as W;
                      destruct (hl_iter p r0 j s) as [k s'|o e s'|]; auto;
                      [intros Hk0 Hk; split; [unfold nnat; lia|]; split; [exact (X Hk0 Hk)|]; split; [exact (Y Hk0 Hk)|exact (Z Hk)]
                      |intros ->; split; [exact (Y eq_refl)|exact W]])
                (c :: r) pre i (mkhline hdr0 (hs_pv st)) Hi
                (conj (N.le_refl i) (conj Hp (conj HT0 (HBh_0 i))))).
  destruct (run hl_iter pre (c :: r) i 0 (mkhline hdr0 (hs_pv st))) as [n e x| |]; [|exact I|exact I].
  destruct R as (p' & r' & i' & _ & Eb & HQ). rewrite Eb in HQ.
  destruct e; try (unfold hs_post; intros E; discriminate E).
  - (* a header is complete *)
    rewrite hs_post_ok in *. destruct (HQ eq_refl) as (Ht & Hbd). intros Hk0 Hk. set (k := N.to_nat (n - i)) in *.
    split; [exact (XB Hk0 Hk)|]. unfold stored_trimmed_pre. cbn [hs_l].
    destruct (hl_add_proj (hs_l st) (hx_h x)) as (X1 & X2 & X3 & _ & _).
    intros j Hj Hlen. rewrite X1 in Hj. rewrite (hnext_len (hs_l st) _ (hx_h x) X2 X3) in Hlen.
    rewrite (hnext_nth (hs_l st) _ (hx_h x) X1 X2 j) by lia.
    destruct (j =? N.to_nat (hl_n (hs_l st)))%nat eqn:Ej.
    + apply trimmed_buf_pre; [exact Hk|exact Ht|]. right. destruct Hbd as [_ Hb].
      assert (Hn : i <= n) by (destruct (XB Hk0 Hk) as [_ _]; pose proof (BU_step pre (c :: r) i st Hi (conj Hp (conj Hwf Hslot))); unfold k in *; lia).
      unfold k, nnat in *. lia.
    + apply Nat.eqb_neq in Ej. apply trimmed_pre_zpre. apply Hst; lia.
  - (* the blank line *)
    unfold hs_post. cbv zeta. destruct (0 <? _); [|intros E; discriminate E]. intros _ j Hj Hlen. cbn [hs_l] in *.
    destruct (hl_store_proj (hs_l st) (hx_h x)) as (_ & S2 & _ & S4 & _). rewrite S2 in Hj. rewrite S4 in *.
    assert (Hlen' : (j < length (hl_hdrs (hs_l st)))%nat) by (destruct (hl_is_tmp (hs_l st)); [exact Hlen|rewrite set_nth_len in Hlen; exact Hlen]).
    replace (nth j (if hl_is_tmp (hs_l st) then hl_hdrs (hs_l st) else set_nth (N.to_nat (hl_n (hs_l st))) (hx_h x) (hl_hdrs (hs_l st))) hdr0)
      with (nth j (hl_hdrs (hs_l st)) hdr0) by (destruct (hl_is_tmp (hs_l st)); [reflexivity|symmetry; apply nth_set_nth_ne; lia]).
    apply trimmed_pre_buf. apply Hst; assumption.
Qed.
Theorem headers_values_trimmed_pv buf offs ncap nc o st' : offs <= nnat (length buf) ->
  parse_headers buf offs (mkhdrs_st (hdrlst_init (repeat hdr0 ncap)) (Some (phvals_init (repeat pfrom0 nc)))) = Done o EOk st' ->
  stored_trimmed buf (hs_l st').
Proof.
  intros Ho H. unfold parse_headers, parse in H. unfold zinit in H.
  assert (Hi : offs = nnat (length (rev (firstn (N.to_nat offs) buf)))) by (rewrite rev_length, firstn_length; unfold nnat in *; lia).
  assert (H0 : BT2 (rev (firstn (N.to_nat offs) buf)) offs (mkhdrs_st (hdrlst_init (repeat hdr0 ncap)) (Some (phvals_init (repeat pfrom0 nc))))).
  { split.
    - split; [split; [apply UBv_init|apply PR2_init]|]. unfold LI, hdrlst_init. cbn. split; [split; [intros j _; apply nth_repeat|reflexivity]|].
      unfold hl_slot, hl_is_tmp, hl_cap. cbn. destruct (_ <=? 0); [reflexivity|apply nth_repeat].
    - unfold stored_trimmed_pre. cbn. intros j Hj. lia. }
  pose proof (run_invQ hs_iter BT2 (fun p r _ _ e s => BTQ2 p r e s) BT2_step (skipn (N.to_nat offs) buf) (rev (firstn (N.to_nat offs) buf)) offs _ Hi H0) as R.
  rewrite H in R. destruct R as (p' & r' & i' & _ & Eb & HQ). rewrite rev_involutive, firstn_skipn in Eb.
  specialize (HQ eq_refl). rewrite Eb in HQ. exact HQ.
Qed.
(* every stored header of a successfully parsed message has a trimmed value *)
Theorem message_values_trimmed flags buf offs bl n nc o e m' : offs <= nnat (length buf) ->
  parse_sipmsg flags buf offs (msg_init bl (repeat hdr0 n) (repeat pfrom0 nc)) = Done o e m' -> m_state m' = MFIN \/ m_state m' = MNoCLen ->
  stored_trimmed buf (hs_l (m_hs m')).
Proof.
  intros Hoffs. unfold parse_sipmsg, msg_init. cbn -[msg_fline]. unfold msg_fline. cbn -[parse_fline msg_headers msg_fail].
  pose proof (fline_safe buf offs fline0 Hoffs) as Hfs.
  destruct (parse_fline buf offs fline0) as [o1 e1 fl| |] eqn:Efl; try discriminate.
  assert (Hf : forall oo ee m, (m_state m = MFLine \/ m_state m = MHeaders) -> msg_fail flags oo ee m = Done o e m' -> m_state m' = MFIN \/ m_state m' = MNoCLen ->
            stored_trimmed buf (hs_l (m_hs m'))).
  { intros oo ee m Hm H Hs. pose proof (fail_ok flags oo ee m) as F. rewrite H in F. destruct F as [F|F]; rewrite F in Hs; destruct Hm as [Hm|Hm]; try rewrite Hm in Hs; destruct Hs; discriminate. }
  destruct e1; try (apply Hf; left; reflexivity).
  unfold msg_headers. cbn -[parse_headers msg_body msg_fail].
  assert (Ho1 : o1 <= nnat (length buf)).
  { assert (X : fl_inv offs fline0) by (unfold fl_inv, pf_end; cbn; repeat split; lia). specialize (Hfs X). apply Hfs. }
  pose proof (headers_values_trimmed_pv buf o1 n nc) as Hc.
  destruct (parse_headers buf o1 _) as [o2 e2 hs| |]; try discriminate.
  destruct e2; try (apply Hf; right; reflexivity).
  specialize (Hc o2 hs Ho1 eq_refl).
  intros H _. match type of H with msg_body ?f ?L ?oo ?mm = _ => pose proof (body_hs f L oo mm) as B end.
  rewrite H in B. rewrite B. exact Hc.
Qed.
Theorem message_values_trimmed_fed flags B offs bl n nc o s o' e m' : testbit flags bSIPMsgNoMoreData = false -> offs <= nnat (length B) ->
  feeds flags B offs (msg_init bl (repeat hdr0 n) (repeat pfrom0 nc)) o s ->
  parse_sipmsg flags B o s = Done o' e m' -> m_state m' = MFIN \/ m_state m' = MNoCLen -> stored_trimmed B (hs_l (m_hs m')).
Proof.
  intros Hf Hoffs Hfeed H. rewrite (feeds_same _ _ _ _ _ _ Hf Hfeed) in H. exact (message_values_trimmed _ _ _ _ _ _ _ _ _ Hoffs H).
Qed.
