(* C07, block level: a well-formed header block (lines of the documented shape, then the blank line) is
   reported as exactly one header per logical line, in order: count including the headers that did not
   fit the array, the stored prefix, the type-flag set = the set of types seen, first-of-type look-up. *)
From Sipsp Require Import RunLemmas Safe Resume Ext ExtLeaf ZSlice Harness ExtCSeq ExtFLine ExtAdv ExtHdrLine ExtHeaders
  FLineSpec UIntSpec HdrSpec ExtLists Capacity CapHeaders.
From Coq Require Import ZifyN ZifyNat ZifyBool.
From RecordUpdate Require Import RecordUpdate.

(* ---- what one completed header does to the list -------------------------------------------------------------------------------------- *)
Definition hl_add (l : hdrlst) (h : hdr) : hdrlst :=
  let l1 := hl_store l h in
  let l2 := hl_sethdr (l1 <| hl_pflags := N.lor (hl_pflags l1) (2 ^ h_type h) mod 65536 |>) h in
  let l3 := if hl_is_tmp l then l2 <| hl_tmp := hdr0 |> else l2 in
  l3 <| hl_n := hl_n l3 + 1 |>.

Lemma hl_add_proj l h :
  hl_n (hl_add l h) = hl_n l + 1 /\
  hl_hdrs (hl_add l h) = (if hl_is_tmp l then hl_hdrs l else set_nth (N.to_nat (hl_n l)) h (hl_hdrs l)) /\
  hl_tmp (hl_add l h) = (if hl_is_tmp l then hdr0 else hl_tmp l) /\
  hl_pflags (hl_add l h) = N.lor (hl_pflags l) (2 ^ h_type h) mod 65536 /\
  hl_first (hl_add l h) =
    (if (1 <=? h_type h) && (h_type h - 1 <? nnat (length (hl_first l))) && h_missing (nth (N.to_nat (h_type h - 1)) (hl_first l) hdr0)
     then set_nth (N.to_nat (h_type h - 1)) h (hl_first l) else hl_first l).
Proof.
  unfold hl_add. cbv zeta.
  destruct (hl_store_proj l h) as (S1 & S2 & S3 & S4 & S5). set (l1 := hl_store l h) in *.
  set (p1 := l1 <| hl_pflags := _ |>).
  assert (Pp : hl_n p1 = hl_n l1 /\ hl_hdrs p1 = hl_hdrs l1 /\ hl_tmp p1 = hl_tmp l1 /\ hl_first p1 = hl_first l1 /\
               hl_pflags p1 = N.lor (hl_pflags l1) (2 ^ h_type h) mod 65536)
    by (subst p1; destruct l1; cbn; repeat split; reflexivity).
  destruct Pp as (B2 & B3 & B4 & B6 & B5).
  destruct (hl_sethdr_proj p1 h) as (C1 & C2 & C3 & C4 & C5). set (l2 := hl_sethdr p1 h) in *.
  set (l3 := if hl_is_tmp l then l2 <| hl_tmp := hdr0 |> else l2).
  assert (D : hl_n l3 = hl_n l2 /\ hl_hdrs l3 = hl_hdrs l2 /\ hl_tmp l3 = (if hl_is_tmp l then hdr0 else hl_tmp l2) /\
              hl_pflags l3 = hl_pflags l2 /\ hl_first l3 = hl_first l2)
    by (subst l3; destruct (hl_is_tmp l); destruct l2; cbn; repeat split; reflexivity).
  destruct D as (D2 & D3 & D5 & D6 & D7).
  assert (F : forall l3 : hdrlst, hl_n (l3 <| hl_n := hl_n l3 + 1 |>) = hl_n l3 + 1 /\ hl_hdrs (l3 <| hl_n := hl_n l3 + 1 |>) = hl_hdrs l3 /\
              hl_tmp (l3 <| hl_n := hl_n l3 + 1 |>) = hl_tmp l3 /\ hl_pflags (l3 <| hl_n := hl_n l3 + 1 |>) = hl_pflags l3 /\
              hl_first (l3 <| hl_n := hl_n l3 + 1 |>) = hl_first l3) by (intros []; cbn; repeat split; reflexivity).
  destruct (F l3) as (G2 & G3 & G5 & G6 & G7).
  rewrite G2, G3, G5, G6, G7, D2, D3, D5, D6, D7, C1, C2, C3, C4, C5, B2, B3, B4, B5, B6, S1, S2, S3, S4, S5.
  repeat split; try reflexivity. destruct (hl_is_tmp l); reflexivity.
Qed.

Lemma hs_post_ok pre rest i st n x :
  hs_post pre rest i st n EOk x = Next (N.to_nat (n - i)) (mkhdrs_st (hl_add (hs_l st) (hx_h x)) (hx_pv x)).
Proof. reflexivity. Qed.

Definition LI (l : hdrlst) : Prop := hl_wf l /\ hl_slot l = hdr0.
Lemma hl_add_LI l h : LI l -> LI (hl_add l h).
Proof.
  intros [Hwf _]. destruct (hl_add_proj l h) as (X1 & X2 & X3 & _ & _).
  split; [exact (hnext_wf l _ h Hwf X1 X2 X3)|exact (hnext_slot l _ h Hwf X1 X2 X3)].
Qed.

(* the list after a sequence of completed headers *)
Definition hl_adds (l : hdrlst) (hs : list hdr) : hdrlst := fold_left hl_add hs l.

Lemma adds_n hs : forall l, hl_n (hl_adds l hs) = hl_n l + nnat (length hs).
Proof.
  induction hs as [|h hs IH]; intros l; cbn [hl_adds fold_left length]; [unfold nnat; lia|].
  change (fold_left hl_add hs (hl_add l h)) with (hl_adds (hl_add l h) hs). rewrite IH.
  destruct (hl_add_proj l h) as (X1 & _). rewrite X1. unfold nnat. lia.
Qed.
Lemma adds_len hs : forall l, length (hl_hdrs (hl_adds l hs)) = length (hl_hdrs l).
Proof.
  induction hs as [|h hs IH]; intros l; cbn [hl_adds fold_left]; [reflexivity|].
  change (fold_left hl_add hs (hl_add l h)) with (hl_adds (hl_add l h) hs). rewrite IH.
  destruct (hl_add_proj l h) as (_ & X2 & _). rewrite X2. destruct (hl_is_tmp l); [reflexivity|apply set_nth_len].
Qed.
Lemma adds_LI hs : forall l, LI l -> LI (hl_adds l hs).
Proof. induction hs as [|h hs IH]; intros l Hl; cbn; [exact Hl|]. apply IH, hl_add_LI, Hl. Qed.

(* stored headers: slot n0 + j holds the j-th header, as long as it fits *)
Lemma adds_nth hs : forall l j, (j < length hs)%nat -> (N.to_nat (hl_n l) + j < length (hl_hdrs l))%nat ->
  nth (N.to_nat (hl_n l) + j) (hl_hdrs (hl_adds l hs)) hdr0 = nth j hs hdr0.
Proof.
  induction hs as [|h hs IH]; intros l j Hj Hc; [cbn in Hj; lia|]. cbn [hl_adds fold_left].
  change (fold_left hl_add hs (hl_add l h)) with (hl_adds (hl_add l h) hs).
  destruct (hl_add_proj l h) as (X1 & X2 & _).
  assert (Ht : hl_is_tmp l = false) by (unfold hl_is_tmp, hl_cap, nnat; lia).
  rewrite Ht in X2.
  destruct j as [|j].
  - cbn [nth]. rewrite Nat.add_0_r in *.
    (* later additions leave slot n0 alone *)
    assert (G : forall hs l', (N.to_nat (hl_n l) < N.to_nat (hl_n l'))%nat ->
                nth (N.to_nat (hl_n l)) (hl_hdrs (hl_adds l' hs)) hdr0 = nth (N.to_nat (hl_n l)) (hl_hdrs l') hdr0).
    { clear. induction hs as [|h hs IH]; intros l' Hlt; [reflexivity|]. cbn [hl_adds fold_left].
      change (fold_left hl_add hs (hl_add l' h)) with (hl_adds (hl_add l' h) hs).
      destruct (hl_add_proj l' h) as (X1 & X2 & _). rewrite IH by (rewrite X1; lia). rewrite X2.
      destruct (hl_is_tmp l'); [reflexivity|]. apply nth_set_nth_ne. lia. }
    rewrite G by (rewrite X1; lia). rewrite X2. apply nth_set_nth. exact Hc.
  - cbn [nth]. replace (N.to_nat (hl_n l) + S j)%nat with (N.to_nat (hl_n (hl_add l h)) + j)%nat by (rewrite X1; lia).
    apply IH; [cbn in Hj; lia|]. rewrite X1, X2, set_nth_len. lia.
Qed.

(* the type-flag set: exactly the types seen (among the 16 flag bits) *)
Lemma adds_flags hs : forall l t, t < 16 ->
  N.testbit (hl_pflags (hl_adds l hs)) t = N.testbit (hl_pflags l) t || existsb (fun h => h_type h =? t) hs.
Proof.
  induction hs as [|h hs IH]; intros l t Ht; cbn [hl_adds fold_left existsb]; [now rewrite orb_false_r|].
  change (fold_left hl_add hs (hl_add l h)) with (hl_adds (hl_add l h) hs). rewrite IH by exact Ht.
  destruct (hl_add_proj l h) as (_ & _ & _ & X4 & _). rewrite X4.
  change 65536 with (2 ^ 16). rewrite N.mod_pow2_bits_low by exact Ht. rewrite N.lor_spec, N.pow2_bits_eqb.
  rewrite <- orb_assoc. reflexivity.
Qed.

(* first-of-type look-up: the first header of that type, for every known type *)
Definition first_of (t : N) (hs : list hdr) : option hdr := find (fun h => h_type h =? t) hs.
Lemma adds_first hs : forall l t, 1 <= t -> t - 1 < nnat (length (hl_first l)) ->
  Forall (fun h => h_type h <> HdrNone) hs ->
  nth (N.to_nat (t - 1)) (hl_first (hl_adds l hs)) hdr0 =
    (if h_missing (nth (N.to_nat (t - 1)) (hl_first l) hdr0)
     then match first_of t hs with Some h => h | None => nth (N.to_nat (t - 1)) (hl_first l) hdr0 end
     else nth (N.to_nat (t - 1)) (hl_first l) hdr0).
Proof.
  induction hs as [|h hs IH]; intros l t Ht Hlen Hall; cbn [hl_adds fold_left first_of find].
  - destruct (h_missing _); reflexivity.
  - change (fold_left hl_add hs (hl_add l h)) with (hl_adds (hl_add l h) hs).
    inversion Hall as [|? ? Hh Hall']; subst.
    destruct (hl_add_proj l h) as (_ & _ & _ & _ & X5).
    assert (Hlen' : length (hl_first (hl_add l h)) = length (hl_first l)) by (rewrite X5; destruct (_ && _); [apply set_nth_len|reflexivity]).
    rewrite IH by (try rewrite Hlen'; assumption). fold (first_of t hs).
    rewrite X5. clear X5.
    destruct (h_type h =? t) eqn:Et.
    + apply N.eqb_eq in Et. subst t.
      replace (1 <=? h_type h) with true by lia. replace (h_type h - 1 <? nnat (length (hl_first l))) with true by lia. cbn [andb].
      destruct (h_missing (nth (N.to_nat (h_type h - 1)) (hl_first l) hdr0)) eqn:Em; [|rewrite Em; reflexivity].
      rewrite nth_set_nth by (unfold nnat in *; lia).
      replace (h_missing h) with false by (symmetry; unfold h_missing; apply N.eqb_neq; exact Hh). reflexivity.
    + assert (Hne : N.to_nat (t - 1) <> N.to_nat (h_type h - 1)).
      { apply N.eqb_neq in Et. intros E. destruct (N.eq_dec (h_type h) 0) as [E0|E0]; [|lia].
        unfold HdrNone in Hh. congruence. }
      destruct ((1 <=? h_type h) && _ && _); [rewrite nth_set_nth_ne by exact Hne|]; reflexivity.
Qed.

(* ---- the text of a header block ---------------------------------------------------------------------------------------------------------- *)
Inductive ltxt :=
| LVal (name wsb lead t1 : list byte) (tl : list (list byte * list byte))
| LEmpty (name wsb lead : list byte).

Definition line_bytes (l : ltxt) : list byte :=
  match l with
  | LVal name wsb lead t1 tl => name ++ wsb ++ (58 : byte) :: lead ++ (t1 ++ flat tl) ++ [CR; LF]
  | LEmpty name wsb lead => name ++ wsb ++ (58 : byte) :: lead ++ [CR; LF]
  end.
Definition line_ok (l : ltxt) : Prop :=
  match l with
  | LVal name wsb lead t1 tl => nametok name /\ name <> [] /\ spaces wsb /\ spaces lead /\ tok t1 /\ t1 <> [] /\ good_tail tl
  | LEmpty name wsb lead => nametok name /\ name <> [] /\ spaces wsb /\ spaces lead
  end.
(* the header the line is reported as, when it starts at offset i *)
Definition hdr_of (l : ltxt) (i : N) : hdr :=
  match l with
  | LVal name wsb lead t1 tl =>
    mkhdr (get_hdr_type name) (mkpf i (nnat (length name)))
          (mkpf (i + nnat (length name) + nnat (length wsb) + 1 + nnat (length lead)) (nnat (length (t1 ++ flat tl)))) HFIN
  | LEmpty name wsb lead => mkhdr (get_hdr_type name) (mkpf i (nnat (length name))) pf0 HFIN
  end.
Fixpoint hdrs_at (i : N) (ls : list ltxt) : list hdr :=
  match ls with
  | [] => []
  | l :: ls' => hdr_of l i :: hdrs_at (i + nnat (length (line_bytes l))) ls'
  end.
Definition block_bytes (ls : list ltxt) : list byte := flat_map line_bytes ls.

Lemma line_run l pre i d x : line_ok l -> is_sp d = false -> i = nnat (length pre) ->
  run hl_iter pre (line_bytes l ++ d :: x) i 0 (mkhline hdr0 None)
  = Done (i + nnat (length (line_bytes l))) EOk (mkhline (hdr_of l i) None).
Proof.
  intros Hok Hd Hi.
  assert (Hp : i = nnat (length (rev pre))) by (rewrite rev_length; exact Hi).
  destruct l as [name wsb lead t1 tl|name wsb lead]; cbn [line_ok line_bytes hdr_of] in *.
  - destruct Hok as (A1 & A2 & A3 & A4 & A5 & A6 & A7).
    pose proof (header_line_spec (rev pre) name wsb lead t1 tl d x A1 A2 A3 A4 A5 A6 A7 Hd) as H. cbv zeta in H.
    unfold parse_hdrline in H. rewrite parse_at, rev_involutive, <- Hp in H.
    repeat (rewrite <- ?app_assoc in H; cbn [app] in H). repeat (rewrite <- ?app_assoc; cbn [app]).
    rewrite H. f_equal. repeat (rewrite ?app_length; cbn [length]). unfold nnat. lia.
  - destruct Hok as (A1 & A2 & A3 & A4).
    pose proof (header_line_empty_value_spec (rev pre) name wsb lead d x A1 A2 A3 A4 Hd) as H. cbv zeta in H.
    unfold parse_hdrline in H. rewrite parse_at, rev_involutive, <- Hp in H.
    repeat (rewrite <- ?app_assoc in H; cbn [app] in H). repeat (rewrite <- ?app_assoc; cbn [app]).
    rewrite H. f_equal. repeat (rewrite ?app_length; cbn [length]). unfold nnat. lia.
Qed.

Lemma line_head l y : line_ok l -> exists c r, line_bytes l ++ y = c :: r /\ is_sp c = false.
Proof.
  intros Hok.
  assert (G : forall name (z : list byte), nametok name -> name <> [] -> exists c r, name ++ z = c :: r /\ is_sp c = false).
  { intros [|c name] z Hn Hne; [congruence|]. exists c, (name ++ z). split; [reflexivity|].
    inversion Hn as [|? ? [Hc _] _]; subst. unfold is_ws in Hc. apply orb_false_iff in Hc. apply Hc. }
  destruct l as [name wsb lead t1 tl|name wsb lead]; cbn [line_ok line_bytes] in *.
  - destruct Hok as (A1 & A2 & _). rewrite <- app_assoc. apply G; assumption.
  - destruct Hok as (A1 & A2 & _). rewrite <- app_assoc. apply G; assumption.
Qed.
Lemma line_nonempty l : line_ok l -> (0 < length (line_bytes l))%nat.
Proof. intros H. destruct (line_head l [] H) as (c & r & E & _). rewrite app_nil_r in E. rewrite E. cbn. lia. Qed.

Lemma hs_iter_run pre R i st : R <> [] ->
  hs_iter pre R i st = match run hl_iter pre R i 0 (hs_sel st) with Done next e v => hs_post pre R i st next e v | _ => IPanic end.
Proof. destruct R as [|c r]; [congruence|]. intros _. apply hs_iter_def. Qed.

Definition blank_hdr : hdr := hdr0 <| h_state := HFIN |>.

(* the run of the block loop over the lines and the blank line *)
Lemma block_run ls : forall pre i l x, Forall line_ok ls -> i = nnat (length pre) -> LI l ->
  (0 < hl_n l + nnat (length ls)) ->
  run hs_iter pre (block_bytes ls ++ CR :: LF :: x) i 0 (mkhdrs_st l None)
  = Done (i + nnat (length (block_bytes ls)) + 2) EOk (mkhdrs_st (hl_store (hl_adds l (hdrs_at i ls)) blank_hdr) None).
Proof.
  induction ls as [|ln ls IH]; intros pre i l x Hall Hi Hl Hpos.
  - (* the blank line *)
    cbn [block_bytes flat_map app length hdrs_at hl_adds fold_left]. rewrite run_after, (hs_iter_def pre CR (LF :: x)). unfold hs_sel. cbn [hs_l hs_pv].
    destruct Hl as [Hwf Hslot]. rewrite Hslot.
    assert (E : run hl_iter pre (CR :: LF :: x) i 0 (mkhline hdr0 None) = Done (i + 2) EEmpty (mkhline blank_hdr None)) by reflexivity.
    rewrite E. unfold hs_post. cbv zeta. cbn [hx_h hx_pv hs_l].
    destruct (hl_store_proj l blank_hdr) as (_ & S2 & _). rewrite S2.
    replace (0 <? hl_n l) with true by (unfold nnat in Hpos; cbn in Hpos; lia). cbn [after]. f_equal. unfold nnat. cbn. lia.
  - apply Forall_cons_iff in Hall. destruct Hall as [Hok Hall'].
    cbn [block_bytes flat_map]. fold (block_bytes ls). rewrite <- app_assoc.
    (* the byte after this line: the next line's first name byte, or the CR of the blank line *)
    assert (Hnext : exists d y, block_bytes ls ++ CR :: LF :: x = d :: y /\ is_sp d = false).
    { destruct ls as [|l2 ls2]; [exists CR, (LF :: x); split; reflexivity|].
      apply Forall_cons_iff in Hall'. destruct Hall' as [Hok2 _]. cbn [block_bytes flat_map]. rewrite <- app_assoc. apply line_head. exact Hok2. }
    destruct Hnext as (d & y & Ey & Hd). rewrite Ey.
    destruct (line_head ln (d :: y) Hok) as (c & r & Ec & _).
    rewrite run_after, hs_iter_run by (rewrite Ec; discriminate). unfold hs_sel. cbn [hs_l hs_pv].
    destruct Hl as [Hwf Hslot]. rewrite Hslot.
    rewrite (line_run ln pre i d y Hok Hd Hi), hs_post_ok. cbn [hx_h hx_pv hs_l].
    set (k := length (line_bytes ln)).
    replace (N.to_nat (i + nnat k - i)) with k by (unfold nnat; lia).
    pose proof (line_nonempty ln Hok) as Hk. fold k in Hk.
    rewrite after_next by (try rewrite app_length; lia).
    assert (Ez : zpre k pre (line_bytes ln ++ d :: y) = rev (line_bytes ln) ++ pre /\ zrest k (line_bytes ln ++ d :: y) = d :: y).
    { unfold zpre, zrest, k. rewrite firstn_app, Nat.sub_diag, firstn_all, skipn_app, Nat.sub_diag, skipn_all. cbn. rewrite app_nil_r. auto. }
    destruct Ez as [-> ->]. rewrite <- Ey.
    rewrite (IH (rev (line_bytes ln) ++ pre) (i + nnat k) (hl_add l (hdr_of ln i)) x Hall').
    + cbn [hdrs_at hl_adds fold_left]. fold k. f_equal. cbn [block_bytes flat_map]. rewrite app_length. fold (block_bytes ls). unfold nnat. lia.
    + rewrite app_length, rev_length. fold k. unfold nnat in *. lia.
    + apply hl_add_LI. split; assumption.
    + destruct (hl_add_proj l (hdr_of ln i)) as (X1 & _). rewrite X1. lia.
Qed.

(* ---- the block theorem -------------------------------------------------------------------------------------------------------------------- *)
From Sipsp Require Import Classify.
Lemma hdr_type_not_none name : get_hdr_type name <> HdrNone.
Proof.
  destruct name as [|c name]; [discriminate|]. intros E.
  assert (H : In (map to_lower (c :: name), HdrNone) spec_hdrs) by (apply hdr_type_spec; [discriminate|split; [exact E|discriminate]]).
  assert (C : forallb (fun nt => negb (snd nt =? HdrNone)) spec_hdrs = true) by (vm_compute; reflexivity).
  rewrite forallb_forall in C. specialize (C _ H). discriminate C.
Qed.
Lemma hdrs_at_length ls : forall i, length (hdrs_at i ls) = length ls.
Proof. induction ls as [|l ls IH]; intros i; cbn; [reflexivity|]. now rewrite IH. Qed.
Lemma hdrs_at_types ls : forall i, Forall (fun h => h_type h <> HdrNone) (hdrs_at i ls).
Proof.
  induction ls as [|l ls IH]; intros i; cbn [hdrs_at]; constructor; [|apply IH].
  destruct l; cbn; apply hdr_type_not_none.
Qed.

Lemma adds_first_len hs : forall l, length (hl_first (hl_adds l hs)) = length (hl_first l).
Proof.
  induction hs as [|h hs IH]; intros l; [reflexivity|]. cbn [hl_adds fold_left].
  change (fold_left hl_add hs (hl_add l h)) with (hl_adds (hl_add l h) hs). rewrite IH.
  destruct (hl_add_proj l h) as (_ & _ & _ & _ & X5). rewrite X5. destruct (_ && _); [apply set_nth_len|reflexivity].
Qed.

Theorem header_block_spec ls p x n : Forall line_ok ls -> ls <> [] ->
  let i := nnat (length p) in
  let hs := hdrs_at i ls in
  exists L, parse_headers (p ++ block_bytes ls ++ CR :: LF :: x) i (mkhdrs_st (hdrlst_init (repeat hdr0 n)) None)
            = Done (i + nnat (length (block_bytes ls)) + 2) EOk (mkhdrs_st L None) /\
    hl_n L = nnat (length ls) /\
    (forall j, (j < length ls)%nat -> (j < n)%nat -> nth j (hl_hdrs L) hdr0 = nth j hs hdr0) /\
    (forall t, t < 16 -> N.testbit (hl_pflags L) t = existsb (fun h => h_type h =? t) hs) /\
    (forall t, HdrNone < t -> t < HdrOther -> hl_gethdr L t = Some (match first_of t hs with Some h => h | None => hdr0 end)).
Proof.
  intros Hall Hne i hs. set (l0 := hdrlst_init (repeat hdr0 n)).
  assert (Hl0 : LI l0).
  { unfold LI, l0, hdrlst_init. split; [split; [intros j _; apply nth_repeat|reflexivity]|].
    unfold hl_slot, hl_is_tmp, hl_cap. cbn. destruct (_ <=? 0); [reflexivity|apply nth_repeat]. }
  exists (hl_store (hl_adds l0 hs) blank_hdr). unfold parse_headers. subst i. rewrite parse_at.
  rewrite (block_run ls (rev p) (nnat (length p)) l0 x Hall ltac:(now rewrite rev_length) Hl0)
    by (destruct ls; [congruence|cbn; unfold nnat; lia]).
  split; [reflexivity|]. fold hs.
  destruct (hl_store_proj (hl_adds l0 hs) blank_hdr) as (S1 & S2 & S3 & S4 & S5).
  assert (Hlen : length hs = length ls) by apply hdrs_at_length.
  assert (Hcap : length (hl_hdrs l0) = n) by (unfold l0, hdrlst_init; cbn; apply repeat_length).
  split; [rewrite S2, adds_n, Hlen; reflexivity|]. split; [|split].
  - intros j Hj Hjn. rewrite S4.
    assert (E : nth j (hl_hdrs (hl_adds l0 hs)) hdr0 = nth j hs hdr0).
    { assert (Hn0 : hl_n l0 = 0) by reflexivity.
      pose proof (adds_nth hs l0 j ltac:(lia) ltac:(rewrite Hn0, Hcap; lia)) as A. rewrite Hn0 in A. exact A. }
    destruct (hl_is_tmp (hl_adds l0 hs)); [exact E|]. rewrite nth_set_nth_ne; [exact E|].
    rewrite adds_n, Hlen. change (hl_n l0) with 0. unfold nnat. lia.
  - intros t Ht. rewrite S1, adds_flags by exact Ht. reflexivity.
  - intros t H0 H14. unfold hl_gethdr. rewrite S3.
    replace ((HdrNone <? t) && (t <? HdrOther)) with true by (unfold HdrNone, HdrOther in *; lia).
    assert (Hf : length (hl_first (hl_adds l0 hs)) = n_first) by (rewrite adds_first_len; unfold l0, hdrlst_init; cbn; reflexivity).
    assert (Hidx : (N.to_nat (t - 1) < n_first)%nat) by (unfold HdrNone, HdrOther, n_first in *; lia).
    rewrite (nth_error_nth' _ hdr0) by (rewrite Hf; exact Hidx). f_equal.
    rewrite (adds_first hs l0 t) by (try apply hdrs_at_types; unfold l0, hdrlst_init, HdrNone, HdrOther, nnat in *; cbn; lia).
    assert (E0 : nth (N.to_nat (t - 1)) (hl_first l0) hdr0 = hdr0) by (unfold l0, hdrlst_init; cbn [hl_first]; apply nth_repeat).
    rewrite E0. cbn. reflexivity.
Qed.
