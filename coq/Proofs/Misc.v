(* Smaller facts used by several property files *)
From Sipsp Require Import Harness Classify CmpLaws.
From Coq Require Import String ZifyN ZifyNat ZifyBool.

(* ---- C17: the parameter character set ---------------------------------------------- *)
Definition unreserved_etc : list byte :=
  bytes_of "abcdefghijklmnopqrstuvwxyzABCDEFGHIJKLMNOPQRSTUVWXYZ0123456789-_.!~*'()%[]/:+$"%string.
Definition allowed_set (uriparam : bool) : list byte :=
  unreserved_etc ++ (if uriparam then [38] else [63]).     (* '&' in URI-parameter mode, '?' otherwise *)

Definition memb (c : byte) (l : list byte) : bool := existsb (N.eqb c) l.
Lemma memb_in c l : memb c l = true <-> In c l.
Proof.
  unfold memb. rewrite existsb_exists. split.
  - intros (x & H & E). apply N.eqb_eq in E. now subst.
  - intros H. exists c. split; auto. apply N.eqb_refl.
Qed.

Lemma charset_small : forall up, forallb (fun c => Bool.eqb (tok_allowed up c) (memb c (allowed_set up)))
                                        (map N.of_nat (seq 0 256)) = true.
Proof. intros [|]; vm_compute; reflexivity. Qed.

Theorem tok_allowed_spec up c : tok_allowed up c = true <-> In c (allowed_set up).
Proof.
  rewrite <- memb_in. destruct (N.lt_ge_cases c 256) as [Hlt|Hge].
  - pose proof (charset_small up) as H. rewrite forallb_forall in H.
    specialize (H c). rewrite Bool.eqb_true_iff in H. rewrite H; [tauto|].
    apply in_map_iff. exists (N.to_nat c). split; [lia|]. apply in_seq. lia.
  - assert (tok_allowed up c = false) by (unfold tok_allowed; replace ((c <=? 32) || (127 <=? c)) with true by lia; reflexivity).
    assert (memb c (allowed_set up) = false).
    { unfold memb. apply Bool.not_true_is_false. intros Hm. apply existsb_exists in Hm as (x & Hin & E).
      apply N.eqb_eq in E. subst x.
      assert (forallb (fun x => x <? 256) (allowed_set up) = true) by (destruct up; vm_compute; reflexivity).
      rewrite forallb_forall in H0. specialize (H0 _ Hin). lia. }
    rewrite H, H0. tauto.
Qed.

(* a byte outside the set, met inside a parameter name, is rejected at that byte *)
Theorem name_badchar f (rest : list byte) i s c :
  is_ws c = false -> c <> 61 -> c <> tf_sep f -> (c <> tf_term f \/ tf_term f = 0) ->
  tok_allowed (tf_uriparam f) c = false ->
  tp_sName f rest i s c = Ret i EBadChar (s <| tp_state := PERR |>).
Proof.
  intros Hws Heq Hsep Hterm Hal. unfold tp_sName. rewrite Hws.
  replace (c =? 61) with false by lia. replace (c =? tf_sep f) with false by lia.
  replace ((c =? tf_term f) && negb (tf_term f =? 0)) with false by (destruct Hterm; lia).
  rewrite Hal. reflexivity.
Qed.

(* the known URI parameters are classified case-insensitively *)
Theorem uri_param_resolve_nocase n : uri_param_resolve (map to_lower n) = uri_param_resolve n.
Proof. unfold uri_param_resolve. now rewrite !eqb_nocase_lower. Qed.

(* ---- C09: which headers accept several values ------------------------------------------- *)
Theorem multiple_values_kinds h :
  multipleValsOk h = true <-> h = HdrContact \/ h = HdrRecordRoute \/ h = HdrRoute \/ h = HdrPAI.
Proof. unfold multipleValsOk. lia. Qed.

(* a '*' is not a valid P-Asserted-Identity value *)
Theorem pai_star_rejected buf offs s o e s' : parse_one_pai buf offs s = Done o e s' ->
  fb_star s' = true -> e <> EOk /\ e <> EMoreValues.
Proof.
  unfold parse_one_pai. destruct (parse_nameaddr HdrPAI buf offs s) as [o1 e1 s1| |]; try discriminate.
  destruct ((err_eqb e1 EOk || err_eqb e1 EMoreValues) && fb_star s1) eqn:E.
  - intros H. injection H as <- <- <-. split; discriminate.
  - intros H Hs. injection H as <- <- <-. rewrite Hs, andb_true_r in E.
    destruct e1; cbn in E; try discriminate; split; discriminate.
Qed.

(* ---- C13: the 'more' indicators and the stored counts --------------------------------------- *)
Theorem more_iff_dropped_contacts c : ct_more c = true <-> ct_vno c < ct_n c.
Proof. unfold ct_more, ct_vno, ct_cap. lia. Qed.
Theorem more_iff_dropped_uparams l : ul_more l = true <-> ul_pno l < ul_n l.
Proof. unfold ul_more, ul_pno, ul_cap. lia. Qed.
Theorem more_iff_dropped_uhdrs l : uh_more l = true <-> uh_hno l < uh_n l.
Proof. unfold uh_more, uh_hno, uh_cap. lia. Qed.
(* first and last contact stay retrievable, whatever the capacity *)
Theorem first_last_contact_retrievable c : 0 < ct_n c ->
  (ct_n c <= ct_cap c -> List.length (ct_vals c) = N.to_nat (ct_cap c)) ->
  ct_get c 0 <> None /\ ct_get c (ct_n c - 1) <> None.
Proof.
  intros Hn Hc. unfold ct_get, ct_vno, ct_cap, nnat in *.
  split.
  - destruct (0 <? N.min (ct_n c) (N.of_nat (List.length (ct_vals c)))) eqn:E.
    + intros H. apply nth_error_None in H. lia.
    + replace (ct_n c =? 0) with false by lia. destruct (ct_n c =? 0 + 1); discriminate.
  - destruct (ct_n c - 1 <? N.min (ct_n c) (N.of_nat (List.length (ct_vals c)))) eqn:E.
    + intros H. apply nth_error_None in H. lia.
    + replace (ct_n c =? 0) with false by lia. replace (ct_n c =? ct_n c - 1 + 1) with true by lia. discriminate.
Qed.
