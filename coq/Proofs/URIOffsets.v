(* C14 (partial): consumed length and error position of ParseURI *)
From Sipsp Require Import Harness.
From Coq Require Import ZifyN ZifyNat ZifyBool.

Ltac break_ifs :=
  repeat match goal with
         | |- context [if ?b then _ else _] => destruct b
         | |- context [match ?o with Some _ => _ | None => _ end] => destruct o
         end.

(* an iteration only ever returns an error, at the offset of the current byte *)
Lemma uri_step_ret c i l u e o u' : uri_step c i l u = URet e o u' -> o = i /\ e <> NoURIErr.
Proof.
  unfold uri_step, u_backtrack, u_endport. destruct (ul_state l); break_ifs;
    intros H; try discriminate; injection H as <- <- <-; split; auto; discriminate.
Qed.

(* the end-of-input switch returns at the end of the input *)
Lemma uri_finish_ret i l u e o u' : uri_finish i l u = URet e o u' -> o = i.
Proof.
  unfold uri_finish, u_endport. destruct (ul_state l); break_ifs;
    intros H; try discriminate; injection H as <- <- <-; reflexivity.
Qed.

Lemma uri_loop_offsets : forall r i l u e o u', uri_loop r i l u = URet e o u' ->
  i <= o /\ o <= i + nnat (length r) /\ (e = NoURIErr -> o = i + nnat (length r)).
Proof.
  induction r as [|c r IH]; intros i l u e o u' H; cbn [uri_loop] in H.
  - apply uri_finish_ret in H. subst. unfold nnat. cbn. lia.
  - destruct (uri_step c i l u) as [l1 u1|e1 o1 u1|] eqn:E; [|injection H as <- <- <-|discriminate].
    + apply IH in H. cbn [length]. unfold nnat in *. lia.
    + apply uri_step_ret in E as [-> Hne]. cbn [length]. unfold nnat. split; [lia|]. split; [lia|]. congruence.
Qed.

(* accepted: the consumed length equals the input length; rejected: the error
   position lies inside the input *)
Theorem parse_uri_offsets uri u0 e o u : parse_uri uri u0 = Some (e, o, u) ->
  o <= nnat (length uri) /\ (e = NoURIErr -> o = nnat (length uri)).
Proof.
  unfold parse_uri.
  destruct uri as [|a [|b [|c [|d [|e5 rest]]]]]; try (intros H; injection H as <- <- <-; unfold nnat; cbn; split; [lia|discriminate]).
  set (uri := a :: b :: c :: d :: e5 :: rest).
  assert (Hstart : forall t st schlen r, (schlen = 3 \/ schlen = 4)%nat ->
     match pf_set 0 (nnat schlen + 1) with
     | None => None
     | Some sc => match uri_loop (skipn (S schlen) uri) (nnat schlen + 1) (mkuloc st 0 false 0 0 false)
                          (u0 <| u_type := t |> <| u_scheme := sc |>) with
                  | URet e o u' => Some (e, o, u') | _ => None end
     end = Some r -> let '(e, o, _) := r in o <= nnat (length uri) /\ (e = NoURIErr -> o = nnat (length uri))).
  { intros t st schlen [[e1 o1] u1] Hs H. destruct (pf_set 0 _); [|discriminate].
    destruct (uri_loop _ _ _ _) as [|e2 o2 u2|] eqn:E; try discriminate. injection H as <- <- <-.
    apply uri_loop_offsets in E. rewrite skipn_length in E. subst uri. cbn [length] in *. unfold nnat in *.
    destruct Hs as [-> | ->]; lia. }
  cbv zeta.
  repeat match goal with |- context [if ?b then _ else _] => destruct b end;
    intros H; try (injection H as <- <- <-; unfold nnat; cbn; split; [lia|discriminate]).
  all: first [ apply (Hstart _ _ 3%nat (e, o, u) (or_introl eq_refl) H)
             | apply (Hstart _ _ 4%nat (e, o, u) (or_intror eq_refl) H) ].
Qed.
