(* C08, functional correctness of the first-line parser against the line grammar:
     Request-Line = Method SP Request-URI SP SIP-Version CRLF
     Status-Line  = "SIP/2.0" SP 3DIGIT SP Reason-Phrase CRLF
   For every text of that shape - anywhere in a buffer, whatever precedes and follows it - the
   parser succeeds at the end of the line and reports exactly the extents of the components. *)
From Sipsp Require Import RunLemmas Safe Resume Ext ExtLeaf ZSlice Harness ExtFLine MsgBounds.
From Coq Require Import ZifyN ZifyNat ZifyBool.
From Sipsp Require Import Tables.

Definition tok (l : list byte) : Prop := Forall (fun c => is_ws c = false) l.

Lemma span_all_app p (a : list byte) y : Forall (fun c => p c = true) a -> span p (a ++ y) = (length a + span p y)%nat.
Proof. induction 1 as [|c a Hc _ IH]; cbn [app span length]; [reflexivity|]. rewrite Hc, IH. reflexivity. Qed.
Lemma skipToken_tok a c y : tok a -> is_ws c = true -> skipToken (a ++ c :: y) = length a.
Proof.
  intros Ha Hc. unfold skipToken. rewrite span_all_app.
  - cbn [span]. rewrite Hc. cbn. lia.
  - eapply Forall_impl; [|exact Ha]. cbn. intros b Hb. now rewrite Hb.
Qed.
Lemma skipn_len_app {A} (a y : list A) : skipn (length a) (a ++ y) = y.
Proof. replace (length a) with (length a + 0)%nat by lia. now rewrite skipn_app_ge. Qed.

Section Line.
  Variables (st mn : N) (sc rs : pf).

  Variables (c : byte) (y : list byte) (crl : nat).
  Hypothesis Hc : is_crlf c = true.
  Hypothesis Hs : skipCRLF (c :: y) = COk crl.
  Lemma c_ws : is_ws c = true. Proof. unfold is_ws. rewrite Hc. apply orb_true_r. Qed.

  Lemma spec_ver pre v i me ur : tok v -> v <> [] ->
    fl_ver pre (v ++ c :: y) i (mkfline st mn me ur (mkpf i 0) sc rs FlReqVer)
    = Ret (i + nnat (length v) + nnat crl) EOk (mkfline st mn me ur (mkpf i (nnat (length v))) sc rs FlFIN).
  Proof.
    intros Hv Hne. unfold fl_ver. rewrite (skipToken_tok v c y Hv c_ws), skipn_len_app. rewrite Hc.
    cbn -[N.add nnat]. unfold pf_extend. cbn [po fl_version].
    replace (i + nnat (length v) <? i) with false by (unfold nnat; lia).
    replace (i + nnat (length v) - i) with (nnat (length v)) by (unfold nnat; lia).
    unfold pf_empty. cbn [pl fl_version].
    replace (nnat (length v) =? 0) with false by (destruct v; [congruence|unfold nnat; cbn; lia]).
    unfold fl_crlf. rewrite Hs. reflexivity.
  Qed.

  Lemma spec_requri pre u v i me : tok u -> u <> [] -> tok v -> v <> [] ->
    fl_requri pre (u ++ SP :: v ++ c :: y) i (mkfline st mn me (mkpf i 0) pf0 sc rs FlReqURI)
    = Ret (i + nnat (length u) + 1 + nnat (length v) + nnat crl) EOk
        (mkfline st mn me (mkpf i (nnat (length u))) (mkpf (i + nnat (length u) + 1) (nnat (length v))) sc rs FlFIN).
  Proof.
    intros Hu Hne Hv Hnv. unfold fl_requri. rewrite (skipToken_tok u SP _ Hu eq_refl), skipn_len_app.
    cbn -[N.add nnat fl_ver]. unfold pf_extend. cbn [po fl_uri].
    replace (i + nnat (length u) <? i) with false by (unfold nnat; lia).
    replace (i + nnat (length u) - i) with (nnat (length u)) by (unfold nnat; lia).
    unfold pf_empty. cbn [pl fl_uri].
    replace (nnat (length u) =? 0) with false by (destruct u; [congruence|unfold nnat; cbn; lia]).
    unfold pf_set. rewrite N.ltb_irrefl, N.sub_diag. cbn -[N.add nnat fl_ver].
    apply spec_ver; assumption.
  Qed.
End Line.

Lemma zget_here pre a y i : i = nnat (length pre) -> zget pre (a ++ y) i (mkpf i (nnat (length a))) = Some a.
Proof.
  intros Hi. unfold zget, zslice, pf_end. cbn [po pl].
  replace ((i <=? i + nnat (length a)) && (i + nnat (length a) <=? i + N.of_nat (length (a ++ y)))) with true
    by (rewrite app_length; unfold nnat; lia).
  replace (N.min (i + nnat (length a)) i) with i by lia. replace (i - i) with 0 by lia. cbn [N.to_nat firstn rev app].
  replace (N.max i i) with i by lia. replace (i - i) with 0 by lia. cbn [N.to_nat skipn].
  replace (N.to_nat (i + nnat (length a) - i)) with (length a) by (unfold nnat; lia).
  now rewrite firstn_app, Nat.sub_diag, firstn_all, app_nil_r.
Qed.

Lemma spec_method pre m u v c y crl i : is_crlf c = true -> skipCRLF (c :: y) = COk crl ->
  i = nnat (length pre) -> tok m -> m <> [] -> tok u -> u <> [] -> tok v -> v <> [] ->
  fl_method_ph pre (m ++ SP :: u ++ SP :: v ++ c :: y) i (mkfline 0 0 (mkpf i 0) pf0 pf0 pf0 pf0 FlReqMethod)
  = Ret (i + nnat (length m) + 1 + nnat (length u) + 1 + nnat (length v) + nnat crl) EOk
      (mkfline 0 (get_method_no m) (mkpf i (nnat (length m))) (mkpf (i + nnat (length m) + 1) (nnat (length u)))
               (mkpf (i + nnat (length m) + 1 + nnat (length u) + 1) (nnat (length v))) pf0 pf0 FlFIN).
Proof.
  intros Hc Hs Hi Hm Hnm Hu Hnu Hv Hnv. unfold fl_method_ph. rewrite (skipToken_tok m SP _ Hm eq_refl), skipn_len_app.
  cbn -[N.add nnat fl_requri zget]. unfold pf_extend. cbn [po fl_method].
  replace (i + nnat (length m) <? i) with false by (unfold nnat; lia).
  replace (i + nnat (length m) - i) with (nnat (length m)) by (unfold nnat; lia).
  unfold pf_empty. cbn [pl fl_method].
  replace (nnat (length m) =? 0) with false by (destruct m; [congruence|unfold nnat; cbn; lia]).
  rewrite (zget_here pre m _ i Hi). unfold pf_set. rewrite N.ltb_irrefl, N.sub_diag. cbn -[N.add nnat fl_requri].
  apply spec_requri; assumption.
Qed.

(* a buffer, the text starting at offset |p| *)
Lemma parse_at {St} (iter : list byte -> list byte -> N -> St -> ires St) (p rest : list byte) s :
  parse iter (p ++ rest) (nnat (length p)) s = run iter (rev p) rest (nnat (length p)) 0 s.
Proof.
  unfold parse, zinit, nnat. rewrite Nat2N.id, firstn_app, Nat.sub_diag, firstn_all, skipn_len_app. cbn [firstn].
  now rewrite app_nil_r.
Qed.

Theorem request_line_spec p m u v c y crl : is_crlf c = true -> skipCRLF (c :: y) = COk crl ->
  tok m -> m <> [] -> tok u -> u <> [] -> tok v -> v <> [] ->
  let line := m ++ SP :: u ++ SP :: v ++ c :: y in
  (14 <= length line)%nat -> prefix_nocase go_sipVerSP line = false ->
  let i := nnat (length p) in
  parse_fline (p ++ line) i fline0
  = Done (i + nnat (length m) + 1 + nnat (length u) + 1 + nnat (length v) + nnat crl) EOk
      (mkfline 0 (get_method_no m) (mkpf i (nnat (length m))) (mkpf (i + nnat (length m) + 1) (nnat (length u)))
               (mkpf (i + nnat (length m) + 1 + nnat (length u) + 1) (nnat (length v))) pf0 pf0 FlFIN).
Proof.
  intros Hc Hs Hm Hnm Hu Hnu Hv Hnv line Hlen Hpre i. unfold parse_fline. subst i. rewrite parse_at, run_after.
  unfold fl_iter at 2. cbn [fl_state fline0]. unfold fl_init.
  replace (length line <? length go_sipVerSP + 6)%nat with false by (symmetry; apply Nat.ltb_ge; exact Hlen).
  rewrite Hpre. unfold pf_set. rewrite N.ltb_irrefl, N.sub_diag. cbn -[N.add nnat fl_method_ph line after].
  subst line. rewrite (spec_method _ m u v c y crl); try assumption; [reflexivity|now rewrite rev_length].
Qed.

(* ---- status line ------------------------------------------------------------------------------------------------- *)
Definition nocrlf (l : list byte) : Prop := Forall (fun c => is_crlf c = false) l.

Lemma spec_reason reason c y crl i s : is_crlf c = true -> skipCRLF (c :: y) = COk crl -> nocrlf reason -> fl_reason s = mkpf i 0 ->
  fl_reason_ph (reason ++ c :: y) i s
  = Ret (i + nnat (length reason) + nnat crl) EOk (s <| fl_reason := mkpf i (nnat (length reason)) |> <| fl_state := FlFIN |>).
Proof.
  intros Hc Hsk Hr Hs. unfold fl_reason_ph, skipLine.
  assert (Hk : span (fun c => negb (is_crlf c)) (reason ++ c :: y) = length reason).
  { rewrite span_all_app; [cbn [span]; rewrite Hc; cbn; lia|]. eapply Forall_impl; [|exact Hr]. cbn. intros b Hb. now rewrite Hb. }
  rewrite Hk, skipn_len_app, Hsk. cbn -[N.add nnat]. unfold pf_extend. rewrite Hs. cbn [po].
  replace (i + nnat (length reason) <? i) with false by (unfold nnat; lia).
  replace (i + nnat (length reason) - i) with (nnat (length reason)) by (unfold nnat; lia). reflexivity.
Qed.

Theorem status_line_spec p ver a b c reason t y crl : is_crlf t = true -> skipCRLF (t :: y) = COk crl ->
  length ver = 8%nat -> eqb_nocase ver go_sipVerSP = true ->
  is_digit a = true -> is_digit b = true -> is_digit c = true -> nocrlf reason ->
  let line := ver ++ a :: b :: c :: SP :: reason ++ t :: y in
  let i := nnat (length p) in
  parse_fline (p ++ line) i fline0
  = Done (i + 12 + nnat (length reason) + nnat crl) EOk
      (mkfline ((digit_val a * 100 + digit_val b * 10 + digit_val c) mod 65536) 0 pf0 pf0
               (mkpf i 7) (mkpf (i + 8) 3) (mkpf (i + 12) (nnat (length reason))) FlFIN).
Proof.
  intros Ht Hsk Hl Hver Ha Hb Hc Hr line i. unfold parse_fline. subst i. rewrite parse_at, run_after.
  unfold fl_iter at 2. cbn [fl_state fline0]. unfold fl_init.
  assert (Hy : (1 <= length y)%nat).
  { unfold skipCRLF in Hsk. destruct y as [|d y']; [destruct (is_crlf t); discriminate|cbn [length]; lia]. }
  assert (Hlen : (14 <= length line)%nat) by (subst line; repeat (rewrite ?app_length; cbn [length]); clear - Hl Hy; rewrite Hl; lia).
  replace (length line <? length go_sipVerSP + 6)%nat with false by (symmetry; apply Nat.ltb_ge; exact Hlen).
  assert (Hpre : prefix_nocase go_sipVerSP line = true).
  { unfold prefix_nocase. change (length go_sipVerSP) with 8%nat.
    replace (8 <=? length line)%nat with true by (symmetry; apply Nat.leb_le; clear - Hlen; lia).
    subst line. rewrite <- Hl, firstn_app, Nat.sub_diag, firstn_all. cbn [firstn]. rewrite app_nil_r. exact Hver. }
  rewrite Hpre. change (length go_sipVerSP) with 8%nat.
  unfold pf_set at 1. replace (nnat (length p) + nnat 8 - 1 <? nnat (length p)) with false by (unfold nnat; lia).
  replace (nnat (length p) + nnat 8 - 1 - nnat (length p)) with 7 by (unfold nnat; lia).
  subst line. rewrite <- Hl at 1. rewrite skipn_len_app. rewrite Ha, Hb, Hc. cbn -[N.add nnat fl_reason_ph after N.mul N.modulo digit_val].
  unfold pf_set. replace (nnat (length p) + nnat 8 + 3 <? nnat (length p) + nnat 8) with false by lia.
  rewrite N.ltb_irrefl, N.sub_diag. replace (nnat (length p) + nnat 8 + 3 - (nnat (length p) + nnat 8)) with 3 by lia.
  rewrite (spec_reason reason t y crl _ _ Ht Hsk Hr) by reflexivity.
  cbn -[N.add nnat N.mul N.modulo digit_val]. f_equal; [unfold nnat; lia|].
  unfold fline0. cbn -[N.add nnat N.mul N.modulo digit_val].
  replace (nnat (length p) + nnat 8) with (nnat (length p) + 8) by (unfold nnat; lia).
  replace (nnat (length p) + 8 + 4) with (nnat (length p) + 12) by lia. reflexivity.
Qed.

(* ---- the three line terminators ----------------------------------------------------------------------------------- *)
Lemma eol_crlf x : is_crlf CR = true /\ skipCRLF (CR :: LF :: x) = COk 2.
Proof. split; reflexivity. Qed.
Lemma eol_cr d x : is_lf d = false -> is_crlf CR = true /\ skipCRLF (CR :: d :: x) = COk 1.
Proof. intros H. split; [reflexivity|]. cbn. now rewrite H. Qed.
Lemma eol_lf d x : is_crlf LF = true /\ skipCRLF (LF :: d :: x) = COk 1.
Proof. split; reflexivity. Qed.

(* ---- near misses are rejected, not mis-split ---------------------------------------------------------------------- *)
(* anything but a single SP after the method token *)
Lemma request_bad_separator p m c r : tok m -> m <> [] -> is_ws c = true -> c <> SP ->
  let line := m ++ c :: r in (14 <= length line)%nat -> prefix_nocase go_sipVerSP line = false ->
  exists s, parse_fline (p ++ line) (nnat (length p)) fline0 = Done (nnat (length p) + nnat (length m)) EBadChar s.
Proof.
  intros Hm Hnm Hc Hsp line Hlen Hpre. unfold parse_fline. rewrite parse_at, run_after.
  unfold fl_iter at 2. cbn [fl_state fline0]. unfold fl_init.
  replace (length line <? length go_sipVerSP + 6)%nat with false by (symmetry; apply Nat.ltb_ge; exact Hlen).
  rewrite Hpre. unfold pf_set. rewrite N.ltb_irrefl, N.sub_diag. cbn -[N.add nnat fl_method_ph line after].
  subst line. unfold fl_method_ph. rewrite (skipToken_tok m c r Hm Hc), skipn_len_app.
  replace (c =? SP) with false by (symmetry; apply N.eqb_neq; exact Hsp). cbn [negb after]. eexists. reflexivity.
Qed.
(* two spaces: the URI would be empty *)
Lemma request_double_space p m r : tok m -> m <> [] ->
  let line := m ++ SP :: SP :: r in (14 <= length line)%nat -> prefix_nocase go_sipVerSP line = false ->
  exists s, parse_fline (p ++ line) (nnat (length p)) fline0 = Done (nnat (length p) + nnat (length m) + 1) EBadChar s.
Proof.
  intros Hm Hnm line Hlen Hpre. unfold parse_fline. rewrite parse_at, run_after.
  unfold fl_iter at 2. cbn [fl_state fline0]. unfold fl_init.
  replace (length line <? length go_sipVerSP + 6)%nat with false by (symmetry; apply Nat.ltb_ge; exact Hlen).
  rewrite Hpre. unfold pf_set. rewrite N.ltb_irrefl, N.sub_diag. cbn -[N.add nnat fl_method_ph line after].
  subst line. unfold fl_method_ph. rewrite (skipToken_tok m SP _ Hm eq_refl), skipn_len_app.
  cbn -[N.add nnat fl_requri zget after]. unfold pf_extend. cbn [po fl_method].
  replace (nnat (length p) + nnat (length m) <? nnat (length p)) with false by (unfold nnat; lia).
  replace (nnat (length p) + nnat (length m) - nnat (length p)) with (nnat (length m)) by (unfold nnat; lia).
  unfold pf_empty. cbn [pl fl_method].
  replace (nnat (length m) =? 0) with false by (destruct m; [congruence|unfold nnat; cbn; lia]).
  rewrite (zget_here (rev p) m _ _) by now rewrite rev_length. unfold pf_set. rewrite N.ltb_irrefl, N.sub_diag.
  cbn -[N.add nnat fl_requri after]. unfold fl_requri. cbn -[N.add nnat after].
  replace (nnat (length p) + nnat (length m) + 1 + nnat 0) with (nnat (length p) + nnat (length m) + 1) by (unfold nnat; lia).
  unfold pf_extend. cbn [po]. rewrite N.ltb_irrefl, N.sub_diag. cbn -[N.add nnat]. eexists. reflexivity.
Qed.
(* a status line whose code is not three digits followed by SP *)
Lemma status_bad_code p ver a b c d r : length ver = 8%nat -> eqb_nocase ver go_sipVerSP = true ->
  (d =? SP) && (is_digit a && is_digit b && is_digit c) = false ->
  let line := ver ++ a :: b :: c :: d :: r in (14 <= length line)%nat ->
  exists s, parse_fline (p ++ line) (nnat (length p)) fline0 = Done (nnat (length p) + 8) EBadChar s.
Proof.
  intros Hl Hver Hbad line Hlen. unfold parse_fline. rewrite parse_at, run_after.
  unfold fl_iter at 2. cbn [fl_state fline0]. unfold fl_init.
  replace (length line <? length go_sipVerSP + 6)%nat with false by (symmetry; apply Nat.ltb_ge; exact Hlen).
  assert (Hpre : prefix_nocase go_sipVerSP line = true).
  { unfold prefix_nocase. change (length go_sipVerSP) with 8%nat.
    replace (8 <=? length line)%nat with true by (symmetry; apply Nat.leb_le; clear - Hlen; lia).
    subst line. rewrite <- Hl, firstn_app, Nat.sub_diag, firstn_all. cbn [firstn]. rewrite app_nil_r. exact Hver. }
  rewrite Hpre. change (length go_sipVerSP) with 8%nat.
  unfold pf_set at 1. replace (nnat (length p) + nnat 8 - 1 <? nnat (length p)) with false by (unfold nnat; lia).
  subst line. replace (skipn 8 (ver ++ a :: b :: c :: d :: r)) with (a :: b :: c :: d :: r) by (rewrite <- Hl; symmetry; apply skipn_len_app).
  replace (negb (d =? SP) || negb (is_digit a && is_digit b && is_digit c)) with true
    by (destruct (d =? SP), (is_digit a && is_digit b && is_digit c); cbn in *; congruence).
  cbn [after]. eexists. f_equal.
Qed.
