(* C09, list level, P-Asserted-Identity: ParseAllPAIValues on [LWS] value *( [LWS] "," [LWS] value ) blanks end-of-line with the
   general values of ContactGen.v (kind HdrPAI): every value counted, value j = what the value parser reports for text j at its
   own offset, the header-value span from the first byte of the first value to the last byte of the last one. *)
From Sipsp Require Import Driver Harness RunLemmas Ext ExtLeaf ZSlice HdrSpec UIntSpec TokSpec NameAddrSpec ExtLists Capacity SafeMore SafeMsg ContactSpec TokItem NameAddrParam NameAddrGen ContactGen.
From Coq Require Import ZifyN ZifyNat ZifyBool.
From RecordUpdate Require Import RecordUpdate.

Notation itp := (fb_iter HdrPAI).
(* the list after value v was stored and counted *)
Definition pa_addv (l : pais) (v : pfrom) (more : bool) : pais :=
  let c1 := pa_store l v in
  let lh := if (pa_n c1 =? 0) || pf_empty (pa_lasthval c1) then fb_v v else mkpf (po (pa_lasthval c1)) (pf_end (fb_v v) - po (pa_lasthval c1)) in
  let c3 := c1 <| pa_lasthval := lh |> <| pa_n := pa_n c1 + 1 |> in
  if more then pa_reset_last_if (pa_slot_is_last l) c3 else c3.
Definition PaI (i : N) (l : pais) : Prop := pa_wf l /\ pa_sel l = pfrom0 /\ pf_end (pa_lasthval l) <= i.

Lemma pa_post_val pre rest i l next e v : (e = EOk \/ e = EMoreValues) -> fb_star v = false -> pf_end (pa_lasthval l) <= pf_end (fb_v v) ->
  pa_post pre rest i l next e v = match e with EMoreValues => Next (N.to_nat (next - i)) (pa_addv l v true) | _ => Ret next EOk (pa_addv l v false) end.
Proof.
  intros He Hs Hb. unfold pa_post, pa_addv. cbv zeta. rewrite pa_store_prep, pa_is_last_prep, Hs, Bool.andb_false_r.
  destruct (pa_store_proj l v) as (S1 & _ & S3 & _). rewrite S1, S3.
  assert (Hx : pf_extend (pa_lasthval l) (pf_end (fb_v v)) = Some (mkpf (po (pa_lasthval l)) (pf_end (fb_v v) - po (pa_lasthval l)))).
  { unfold pf_extend. replace (pf_end (fb_v v) <? po (pa_lasthval l)) with false by (unfold pf_end in *; lia). reflexivity. }
  destruct He as [-> | ->]; destruct ((pa_n l =? 0) || pf_empty (pa_lasthval l)); rewrite ?Hx; reflexivity.
Qed.

Lemma pa_addv_facts i l v more : PaI i l -> pf_end (pa_lasthval l) <= pf_end (fb_v v) -> fb_parsed v = true ->
  pa_n (pa_addv l v more) = pa_n l + 1 /\ length (pa_vals (pa_addv l v more)) = length (pa_vals l) /\
  pa_wf (pa_addv l v more) /\ (more = true -> pa_sel (pa_addv l v more) = pfrom0) /\
  pa_lasthval (pa_addv l v more) = (if (pa_n l =? 0) || pf_empty (pa_lasthval l) then fb_v v
                                    else mkpf (po (pa_lasthval l)) (pf_end (fb_v v) - po (pa_lasthval l))) /\
  (forall j, (j <= N.to_nat (pa_n l))%nat -> (j < length (pa_vals l))%nat ->
     nth j (pa_vals (pa_addv l v more)) pfrom0 = if (j =? N.to_nat (pa_n l))%nat then v else nth j (pa_vals l) pfrom0).
Proof.
  intros (Hwf & Hsel & Hlh) Hb Hp.
  destruct (pa_store_proj l v) as (S1 & S2 & S3 & S4 & S5).
  set (X := pa_addv l v more).
  set (w := if more then pfrom0 else v).
  assert (Xp : pa_n X = pa_n l + 1 /\
               pa_vals X = (if pa_cap l <=? pa_n l then pa_vals l else set_nth (N.to_nat (pa_n l)) v (pa_vals l)) /\
               pa_last X = (if pa_cap l <=? pa_n l then w else pa_last l) /\
               pa_lasthval X = (if (pa_n l =? 0) || pf_empty (pa_lasthval l) then fb_v v
                                else mkpf (po (pa_lasthval l)) (pf_end (fb_v v) - po (pa_lasthval l)))).
  { subst X w. unfold pa_addv. cbv zeta. rewrite S1, S3. unfold pa_reset_last_if. unfold pa_slot_is_last in *.
    destruct more, (pa_cap l <=? pa_n l); cbn; rewrite ?S1, ?S4, ?S5; repeat split; reflexivity. }
  destruct Xp as (Hn & Hvals & Hlast & Hlhv).
  assert (Hw : more = true -> (if fb_parsed w then pfrom0 else w) = pfrom0) by (intros ->; subst w; reflexivity).
  assert (Hlen : length (pa_vals X) = length (pa_vals l)) by (rewrite Hvals; destruct (_ <=? _); [reflexivity|apply set_nth_len]).
  assert (Hwf' : pa_wf X).
  { destruct Hwf as [W1 W2]. assert (Hcap : pa_cap X = pa_cap l) by (unfold pa_cap; rewrite Hlen; reflexivity). split.
    - intros j Hj. rewrite Hn in Hj. rewrite Hvals. destruct (_ <=? _); [apply W1; lia|]. rewrite nth_set_nth_ne by lia. apply W1. lia.
    - rewrite Hcap, Hn, Hlast. intros H. replace (pa_cap l <=? pa_n l) with false by lia. apply W2. lia. }
  split; [exact Hn|]. split; [exact Hlen|]. split; [exact Hwf'|]. split.
  - intros Hm. exact (proj1 (pa_next_sel l X v w Hwf Hn Hvals Hlast (Hw Hm))).
  - split; [exact Hlhv|]. intros j Hj Hl. rewrite Hvals. unfold pa_cap. destruct (nnat (length (pa_vals l)) <=? pa_n l) eqn:E.
    + replace (j =? N.to_nat (pa_n l))%nat with false by (unfold nnat in *; lia). reflexivity.
    + destruct (j =? N.to_nat (pa_n l))%nat eqn:Ej.
      * apply Nat.eqb_eq in Ej. subst j. apply nth_set_nth. exact Hl.
      * rewrite nth_set_nth_ne by (apply Nat.eqb_neq in Ej; lia). reflexivity.
Qed.

Lemma pag_iter_comma (pre y : list byte) i g l : i = nnat (length pre) -> gv_okh HdrPAI g -> PaI i l ->
  pa_iter pre (gv_step g ++ y) i l = Next (length (gv_step g)) (pa_addv l (gv_v g (gv_at i g)) true).
Proof.
  intros Hi Hok (Hwf & Hsel & Hlh).
  assert (El : run itp pre (gv_l g ++ gv_x g ++ gv_g g ++ (44 : byte) :: y) i 0 pfrom0
               = run itp (rev (gv_l g) ++ pre) (gv_x g ++ gv_g g ++ (44 : byte) :: y) (gv_at i g) 0 pfrom0 /\ gv_at i g = nnat (length (rev (gv_l g) ++ pre))).
  { destruct Hok as (Hl & (c & X' & Ex & Hc) & _). split; [|unfold gv_at; rewrite app_length, rev_length, Hi; unfold nnat; lia].
    rewrite Ex. cbn [app]. unfold gv_at. destruct Hl as [->|Hw]; [cbn [app rev length]; f_equal; unfold nnat; lia|].
    apply (g_lws HdrPAI pre (gv_l g) c _ i pfrom0 pfrom0); [|exact Hw|exact Hc].
    intros c0 r Hc0. apply ws_class in Hc0. unfold fb_iter. cbn [fb_state pfrom0]. unfold fb_step, fb_gA. rewrite Hc0. reflexivity. }
  destruct El as [El Ea].
  destruct Hok as (_ & _ & Hg & Hne & Hc & _ & Hv). destruct (Hv (gv_at i g)) as (Hp & Hfv & Hst).
  unfold gv_step. rewrite <- !app_assoc. cbn [app]. rewrite pa_iter_def, Hsel, El, (Hc _ y _ Ea).
  rewrite (pa_post_val _ _ i l _ EMoreValues _ (or_intror eq_refl) Hst ltac:(rewrite Hfv; unfold pf_end, gv_at in *; cbn [po pl]; lia)).
  f_equal. rewrite !app_length. cbn [length]. unfold gv_at, nnat. lia.
Qed.
Lemma pag_iter_eol (pre sp : list byte) x tail i g l : i = nnat (length pre) -> gv_okh HdrPAI g -> spaces sp -> is_sp x = false -> PaI i l ->
  pa_iter pre (gv_l g ++ gv_x g ++ sp ++ CR :: LF :: x :: tail) i l
  = Ret (gv_at i g + nnat (length (gv_x g)) + nnat (length sp) + 2) EOk (pa_addv l (gv_v g (gv_at i g)) false).
Proof.
  intros Hi Hok Hsp Hx (Hwf & Hsel & Hlh).
  assert (El : run itp pre (gv_l g ++ gv_x g ++ sp ++ CR :: LF :: x :: tail) i 0 pfrom0
               = run itp (rev (gv_l g) ++ pre) (gv_x g ++ sp ++ CR :: LF :: x :: tail) (gv_at i g) 0 pfrom0 /\ gv_at i g = nnat (length (rev (gv_l g) ++ pre))).
  { destruct Hok as (Hl & (c & X' & Ex & Hc) & _). split; [|unfold gv_at; rewrite app_length, rev_length, Hi; unfold nnat; lia].
    rewrite Ex. cbn [app]. unfold gv_at. destruct Hl as [->|Hw]; [cbn [app rev length]; f_equal; unfold nnat; lia|].
    apply (g_lws HdrPAI pre (gv_l g) c _ i pfrom0 pfrom0); [|exact Hw|exact Hc].
    intros c0 r Hc0. apply ws_class in Hc0. unfold fb_iter. cbn [fb_state pfrom0]. unfold fb_step, fb_gA. rewrite Hc0. reflexivity. }
  destruct El as [El Ea].
  destruct Hok as (_ & _ & Hg & Hne & _ & He & Hv). destruct (Hv (gv_at i g)) as (Hp & Hfv & Hst).
  rewrite pa_iter_def, Hsel, El, (He _ sp x tail _ Ea Hsp Hx).
  rewrite (pa_post_val _ _ i l _ EOk _ (or_introl eq_refl) Hst ltac:(rewrite Hfv; unfold pf_end, gv_at in *; cbn [po pl]; lia)). reflexivity.
Qed.

Fixpoint pa_addvs (l : pais) (vs : list pfrom) : pais :=
  match vs with [] => l | [v] => pa_addv l v false | v :: vs' => pa_addvs (pa_addv l v true) vs' end.
Lemma addv_PaI i l g j : gv_okh HdrPAI g -> PaI i l -> gv_at i g + nnat (length (gv_x g)) <= j -> PaI j (pa_addv l (gv_v g (gv_at i g)) true).
Proof.
  intros (_ & _ & _ & _ & _ & _ & Hv) Hl Hj. destruct (Hv (gv_at i g)) as (Hp & Hfv & Hst). destruct Hl as (W & Sl & Lh).
  destruct (pa_addv_facts i l (gv_v g (gv_at i g)) true (conj W (conj Sl Lh)) ltac:(rewrite Hfv; unfold pf_end, gv_at in *; cbn [po pl]; lia) Hp) as (F1 & F2 & F3 & F4 & F5 & F6).
  split; [exact F3|]. split; [apply F4; reflexivity|]. rewrite F5, Hfv.
  destruct ((pa_n l =? 0) || pf_empty (pa_lasthval l)); unfold pf_end, gv_at in *; cbn [po pl]; lia.
Qed.
Lemma pglist_run gs : forall (pre sp : list byte) i l x tail, gs <> [] -> Forall (gv_okh HdrPAI) gs -> spaces sp -> is_sp x = false -> i = nnat (length pre) -> PaI i l ->
  run pa_iter pre (gl_text gs sp ++ CR :: LF :: x :: tail) i 0 l = Done (gl_end i gs + nnat (length sp) + 2) EOk (pa_addvs l (gl_vals i gs)).
Proof.
  induction gs as [|g gs IH]; intros pre sp i l x tail Hne Hall Hsp Hx Hi Hl; [congruence|].
  pose proof (Forall_inv Hall) as Hg. pose proof (Forall_inv_tail Hall) as Hall'.
  destruct gs as [|g2 gs].
  - cbn [gl_text gl_vals gl_end pa_addvs]. rewrite <- !app_assoc. rewrite run_after.
    rewrite (pag_iter_eol pre sp x tail i g l Hi Hg Hsp Hx Hl). reflexivity.
  - rewrite gl_text_cons2, gl_vals_cons2, gl_end_cons2.
    assert (Eadd : pa_addvs l (gv_v g (gv_at i g) :: gl_vals (i + nnat (length (gv_step g))) (g2 :: gs))
                   = pa_addvs (pa_addv l (gv_v g (gv_at i g)) true) (gl_vals (i + nnat (length (gv_step g))) (g2 :: gs))).
    { destruct (gl_vals_cons (i + nnat (length (gv_step g))) g2 gs) as (v2 & vs2 & Ev). rewrite Ev. reflexivity. }
    rewrite Eadd. clear Eadd. rewrite <- app_assoc.
    rewrite (run_step pa_iter pre (gv_step g) _ i l _ (gv_step_ne g) (pag_iter_comma pre _ i g l Hi Hg Hl)).
    apply IH; auto; [discriminate|rewrite app_length, rev_length, Hi; unfold nnat; lia|].
    apply (addv_PaI i l g _ Hg Hl). unfold gv_step, gv_at. rewrite !app_length. unfold nnat. lia.
Qed.
Lemma paddvs_facts gs : forall i l, gs <> [] -> Forall (gv_okh HdrPAI) gs -> PaI i l ->
  let C := pa_addvs l (gl_vals i gs) in
  pa_n C = pa_n l + nnat (length gs) /\ length (pa_vals C) = length (pa_vals l) /\
  (forall j, (j < N.to_nat (pa_n l))%nat -> nth j (pa_vals C) pfrom0 = nth j (pa_vals l) pfrom0) /\
  (forall j, (j < length gs)%nat -> (N.to_nat (pa_n l) + j < length (pa_vals l))%nat ->
     nth (N.to_nat (pa_n l) + j) (pa_vals C) pfrom0 = nth j (gl_vals i gs) pfrom0) /\
  pa_lasthval C = (if (pa_n l =? 0) || pf_empty (pa_lasthval l) then mkpf (gl_start i gs) (gl_end i gs - gl_start i gs)
                   else mkpf (po (pa_lasthval l)) (gl_end i gs - po (pa_lasthval l))) /\ gl_start i gs < gl_end i gs.
Proof.
  induction gs as [|g gs IH]; intros i l Hne Hall Hl; [congruence|].
  pose proof (Forall_inv Hall) as Hg. pose proof (Forall_inv_tail Hall) as Hall'.
  pose proof Hg as Hg0. destruct Hg as (Hgl & Hfirst & Hgg & Hxne & Hc & He & Hv). destruct (Hv (gv_at i g)) as (Hp & Hfv & Hst).
  assert (Hxl : 0 < nnat (length (gv_x g))) by (destruct (gv_x g); [congruence|cbn [length]; unfold nnat; lia]).
  assert (Hia : i <= gv_at i g) by (unfold gv_at; lia).
  assert (Hb : pf_end (pa_lasthval l) <= pf_end (fb_v (gv_v g (gv_at i g)))) by (destruct Hl as (_ & _ & Hx); rewrite Hfv; unfold pf_end in *; cbn [po pl]; lia).
  cbn [gl_start].
  destruct gs as [|g2 gs].
  - cbn [gl_vals pa_addvs gl_end length]. cbv zeta.
    destruct (pa_addv_facts i l (gv_v g (gv_at i g)) false Hl Hb Hp) as (F1 & F2 & F3 & F4 & F5 & F6).
    split; [rewrite F1; unfold nnat; lia|]. split; [exact F2|]. split; [|split; [|split; [|lia]]].
    + intros j Hj. destruct (le_lt_dec (length (pa_vals l)) j) as [Hge|Hlt]; [rewrite !nth_overflow by (try rewrite F2; lia); reflexivity|].
      rewrite (F6 j ltac:(lia) Hlt). replace (j =? N.to_nat (pa_n l))%nat with false by lia. reflexivity.
    + intros j Hj Hcc. cbn [length] in Hj. apply Nat.lt_1_r in Hj. subst j. rewrite Nat.add_0_r in *. rewrite (F6 (N.to_nat (pa_n l)) ltac:(lia) Hcc), Nat.eqb_refl. reflexivity.
    + rewrite F5, Hfv. unfold pf_end. cbn [po pl].
      destruct ((pa_n l =? 0) || pf_empty (pa_lasthval l)); f_equal; lia.
  - rewrite gl_vals_cons2, gl_end_cons2.
    assert (Eadd : pa_addvs l (gv_v g (gv_at i g) :: gl_vals (i + nnat (length (gv_step g))) (g2 :: gs))
                   = pa_addvs (pa_addv l (gv_v g (gv_at i g)) true) (gl_vals (i + nnat (length (gv_step g))) (g2 :: gs))).
    { destruct (gl_vals_cons (i + nnat (length (gv_step g))) g2 gs) as (v2 & vs2 & Ev). rewrite Ev. reflexivity. }
    cbv zeta. rewrite Eadd. clear Eadd.
    destruct (pa_addv_facts i l (gv_v g (gv_at i g)) true Hl Hb Hp) as (F1 & F2 & F3 & F4 & F5 & F6).
    set (i1 := i + nnat (length (gv_step g))).
    assert (Hi1 : gv_at i g + nnat (length (gv_x g)) <= i1) by (subst i1; unfold gv_step, gv_at; rewrite !app_length; unfold nnat; lia).
    pose proof (addv_PaI i l g i1 Hg0 Hl Hi1) as Hl1.
    set (l1 := pa_addv l (gv_v g (gv_at i g)) true) in *.
    destruct (IH i1 l1 ltac:(discriminate) Hall' Hl1) as (G1 & G2 & G3 & G4 & G5 & G6).
    assert (Hs2 : i1 <= gl_start i1 (g2 :: gs)) by (cbn [gl_start]; unfold gv_at; lia).
    split; [rewrite G1, F1; cbn [length]; unfold nnat; lia|]. split; [rewrite G2, F2; reflexivity|]. split; [|split; [|split; [|lia]]].
    + intros j Hj. rewrite G3 by (rewrite F1; lia).
      destruct (le_lt_dec (length (pa_vals l)) j) as [Hge|Hlt]; [rewrite !nth_overflow by (try rewrite F2; lia); reflexivity|].
      rewrite (F6 j ltac:(lia) Hlt). replace (j =? N.to_nat (pa_n l))%nat with false by lia. reflexivity.
    + intros j Hj Hcc. destruct j as [|j].
      * rewrite Nat.add_0_r in *. cbn [nth]. rewrite G3 by (rewrite F1; lia). rewrite (F6 (N.to_nat (pa_n l)) ltac:(lia) Hcc), Nat.eqb_refl. reflexivity.
      * cbn [nth]. replace (N.to_nat (pa_n l) + S j)%nat with (N.to_nat (pa_n l1) + j)%nat by (rewrite F1; lia).
        apply G4; [cbn [length] in *; lia|rewrite F1, F2; lia].
    + rewrite G5, F1, F5, Hfv.
      replace (pa_n l + 1 =? 0) with false by lia. cbn [orb].
      assert (Hne1 : pf_empty (if (pa_n l =? 0) || pf_empty (pa_lasthval l) then mkpf (gv_at i g) (nnat (length (gv_x g)))
                               else mkpf (po (pa_lasthval l)) (pf_end (mkpf (gv_at i g) (nnat (length (gv_x g)))) - po (pa_lasthval l))) = false).
      { destruct Hl as (_ & _ & Hx). destruct ((pa_n l =? 0) || pf_empty (pa_lasthval l)); unfold pf_empty, pf_end in *; cbn [po pl]; lia. }
      rewrite Hne1.
      destruct ((pa_n l =? 0) || pf_empty (pa_lasthval l)); unfold pf_end; cbn [po pl]; f_equal; lia.
Qed.

Theorem pai_general_list_spec gs (junk sp : list byte) x tail : gs <> [] -> Forall (gv_okh HdrPAI) gs -> spaces sp -> is_sp x = false ->
  let i := nnat (length junk) in
  let vs := gl_vals i gs in
  exists C, parse_all_pais (junk ++ gl_text gs sp ++ CR :: LF :: x :: tail) i pais0
            = Done (gl_end i gs + nnat (length sp) + 2) EOk C /\
    pa_n C = nnat (length gs) /\
    (forall j, (j < length gs)%nat -> (j < paiVals)%nat -> nth j (pa_vals C) pfrom0 = nth j vs pfrom0) /\
    pa_lasthval C = mkpf (gl_start i gs) (gl_end i gs - gl_start i gs).
Proof.
  intros Hne Hall Hsp Hx i vs.
  assert (Hl0 : PaI i pais0).
  { unfold PaI, pais0. split; [split; [intros j _; cbn [pa_vals]; apply nth_repeat|reflexivity]|]. split.
    - rewrite pa_sel_proj. cbn. reflexivity.
    - unfold pf_end. cbn. lia. }
  exists (pa_addvs pais0 vs). unfold parse_all_pais. subst i. rewrite FLineSpec.parse_at.
  rewrite (pglist_run gs (rev junk) sp (nnat (length junk)) pais0 x tail Hne Hall Hsp Hx ltac:(now rewrite rev_length) Hl0).
  split; [reflexivity|].
  destruct (paddvs_facts gs (nnat (length junk)) pais0 Hne Hall Hl0) as (G1 & G2 & G3 & G4 & G5 & _). fold vs in G1, G2, G3, G4, G5.
  split; [rewrite G1; reflexivity|]. split.
  - intros j Hj Hjn. pose proof (G4 j Hj) as A. change (pa_n pais0) with 0 in A. cbn [N.to_nat Nat.add] in A. apply A.
    unfold pais0. cbn [pa_vals]. rewrite repeat_length. exact Hjn.
  - rewrite G5. reflexivity.
Qed.
