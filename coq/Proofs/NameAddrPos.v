(* C05: a successfully parsed name-addr value is not empty (its span V has a positive length) - every input, every schedule.
   Needed for the header-value span of Contact / P-Asserted-Identity lists: the span ends where the last value ends. *)
From Sipsp Require Import Harness RunLemmas Safe SafeLeaf SafeMore TrimSpec NameAddrNest NameAddrTag.
From Coq Require Import ZifyN ZifyNat ZifyBool.
From RecordUpdate Require Import RecordUpdate.

(* the states in which V has been extended at least once *)
Definition v_set (st : fbst) : bool :=
  match st with FbInit | FbName | FbNameOrURI | FbQuoted | FbURI => false | _ => true end.
Definition VPb (st : fbst) (v : pf) : Prop := v_set st = true -> pl v <> 0.
Definition VP (s : pfrom) : Prop := VPb (fb_state s) (fb_v s).
Lemma VP_pfrom0 : VP pfrom0. Proof. unfold VP, VPb, pfrom0. cbn. discriminate. Qed.

Definition vp_res (r : ires pfrom) : Prop :=
  match r with
  | Next k s' => VP s'
  | Ret o e s' => (e = EMore -> VP s') /\ (e = EOk \/ e = EMoreValues -> pl (fb_v s') <> 0)
  | IPanic => True
  end.

Lemma ext_params_pos (ic : N) (force : bool) (s2 : pfrom) (h : N) (s1 : pfrom) :
  pl (fb_v s2) <> 0 -> pf_end (fb_v s2) <= ic ->
  match (if force || negb (po (fb_params s2) =? 0) then pf_extend (fb_params s2) ic else Some (fb_params s2)), pf_extend (fb_v s2) ic with
  | Some p, Some v' => Some (Some (s2 <| fb_params := p |> <| fb_v := v' |>))
  | _, _ => @None (option pfrom)
  end = Some (Some s1) ->
  pl (fb_v (s1 <| fb_state := FbFIN |> <| fb_soffs := 0 |> <| fb_type := h |>)) <> 0.
Proof.
  intros Hp Hic H. destruct (if force || _ then _ else _) as [p|]; [|discriminate].
  destruct (pf_extend (fb_v s2) ic) as [v'|] eqn:Ev'; [|discriminate]. apply pf_extend_inv in Ev'. destruct Ev' as [-> Hv].
  injection H as <-. destruct s2. unfold pf_end in *. cbn in *. lia.
Qed.
Lemma close_pos h pre rest i0 ic s s1 : fb_close pre rest i0 ic s = Some (Some s1) -> VP s ->
  (fb_state s = FbNameOrURI -> po (fb_v s) < ic) -> pf_end (fb_v s) <= ic ->
  pl (fb_v (s1 <| fb_state := FbFIN |> <| fb_soffs := 0 |> <| fb_type := h |>)) <> 0.
Proof.
  intros H HV Hn Hic. unfold fb_close in H. unfold VP, VPb in HV.
  destruct s as [nm ur tg star lr he ty q ex pa v pe eo sta so ps pd vs ve]. cbn [fb_state fb_v] in *.
  destruct sta; try discriminate; cbn in HV; try specialize (HV eq_refl).
  all: try (match type of H with match setFromParamVal ?a ?b ?c ?s' with _ => _ end = _ =>
              destruct (setFromParamVal a b c s') as [s2|] eqn:Es; [|discriminate];
              apply setpv_frame in Es; unfold nview in Es; cbn in Es; injection Es as _ _ _ _ Ev2 _ end;
            match type of H with context [if ?f || _ then _ else _] => apply (ext_params_pos ic f s2 h s1); [rewrite Ev2; exact HV|rewrite Ev2; exact Hic|exact H] end).
  - cbn [fb_soffs fb_v] in H. destruct (pf_set so ic); [|discriminate]. destruct (pf_extend v ic) as [v'|] eqn:Ex; [|discriminate].
    apply pf_extend_inv in Ex. destruct Ex as [-> Hv]. injection H as <-. specialize (Hn eq_refl). cbn. lia.
  - injection H as <-. exact HV.
  - injection H as <-. exact HV.
  - apply (ext_params_pos ic false (mkpfrom nm ur tg star lr he ty q ex pa v pe eo FbNewPossibleParam so ps pd vs ve) h s1); [exact HV|exact Hic|exact H].
  - apply (ext_params_pos ic false (mkpfrom nm ur tg star lr he ty q ex pa v pe eo FbNewParam so ps pd vs ve) h s1); [exact HV|exact Hic|exact H].
  - injection H as <-. exact HV.
Qed.
Lemma eoh_pos h pre rest i0 ic ret e s : VP s -> (fb_state s = FbNameOrURI -> po (fb_v s) < ic) -> pf_end (fb_v s) <= ic -> e <> EMore ->
  vp_res (fb_endOfHdr h pre rest i0 ic ret e s).
Proof.
  intros HV Hn Hic He. unfold fb_endOfHdr. destruct (fb_close pre rest i0 ic s) as [[s1|]|] eqn:Ec; [| |exact I].
  - cbn [vp_res]. split; [intros E; congruence|]. intros _. exact (close_pos h pre rest i0 ic s s1 Ec HV Hn Hic).
  - cbn [vp_res]. split; [intros E; destruct (fb_state s); discriminate|intros [E|E]; destruct (fb_state s); discriminate].
Qed.
Lemma ret_other_pos o e s : e <> EMore -> e <> EOk -> e <> EMoreValues -> vp_res (Ret o e s).
Proof. intros H1 H2 H3. cbn. split; [intros E; congruence|intros [E|E]; congruence]. Qed.
Lemma lws_pos h pre c r i s1 : VP s1 -> fb_state s1 <> FbNameOrURI -> pf_end (fb_v s1) <= i -> vp_res (fb_lws h pre (c :: r) i s1).
Proof.
  intros HV Hst Hv. unfold fb_lws. destruct (skipLWS false (c :: r)) as [k|k crl|k].
  - exact HV.
  - apply eoh_pos; [exact HV|intros E; congruence|exact Hv|discriminate].
  - cbn. split; [intros _; exact HV|intros [E|E]; discriminate].
Qed.
Lemma lws_b_pos h pre c r i s upd : VP s -> (forall n, VP (upd n)) -> fb_state (upd None) <> FbNameOrURI -> pf_end (fb_v (upd None)) <= i ->
  vp_res (fb_lws_b h pre (c :: r) i s upd).
Proof.
  intros HV Hupd Hst Hv. unfold fb_lws_b. destruct (skipLWS false (c :: r)) as [k|k crl|k].
  - apply Hupd.
  - apply eoh_pos; [apply Hupd|intros E; congruence|exact Hv|discriminate].
  - cbn. split; [intros _; exact HV|intros [E|E]; discriminate].
Qed.
Lemma mv_pos h pre rest i s : VP s -> NNI pre i s -> (fb_state s = FbNameOrURI -> span is_ws pre = 0%nat) -> vp_res (fb_moreValues h pre rest i s).
Proof.
  intros HV (N1&_&_&_&_&_&_&_&_&N10&_) F1. unfold fb_moreValues. apply eoh_pos; [exact HV| |lia|discriminate].
  intros E. specialize (F1 E). rewrite F1. specialize (N1 ltac:(rewrite E; reflexivity)). unfold nnat. cbn. lia.
Qed.
Lemma setpv_pos pre c r i s' : VP s' -> vp_res (fb_setpv pre (c :: r) i s').
Proof.
  intros H. unfold fb_setpv. destruct (setFromParamVal pre (c :: r) i s') as [s1|] eqn:Es; [|exact I].
  apply setpv_frame in Es. unfold nview in Es. injection Es as E1 _ _ _ E5 _. cbn. unfold VP. rewrite E1, E5. exact H.
Qed.

Ltac letbp := repeat match goal with
  | |- vp_res (match pf_set ?a ?b with _ => _ end) =>
      let E := fresh "E" in destruct (pf_set a b) eqn:E; [apply pf_set_inv in E; destruct E as [-> ?]|exact I]
  | |- vp_res (match pf_extend ?a ?b with _ => _ end) =>
      let E := fresh "E" in destruct (pf_extend a b) eqn:E; [apply pf_extend_inv in E; destruct E as [-> ?]|exact I]
  end.

Section Step.
  Variables (L h : N) (pre : list byte) (c : byte) (r1 : list byte) (i : N).
  Hypothesis Hi : i = nnat (length pre).
  Notation rest := (c :: r1).

  Lemma comma_pos s : VP s -> NNI pre i s -> fb_inv L pre i s -> vp_res (fb_comma h pre rest i s).
  Proof.
    intros HV HN Hinv. unfold fb_comma. destruct (multipleValsOk h); [|exact HV].
    apply mv_pos; [exact HV|exact HN|]. destruct Hinv as (_&_&_&_&_&_&_&_&_&_&F1&_). exact F1.
  Qed.
  Lemma comma_strict_pos s : VP s -> NNI pre i s -> fb_inv L pre i s -> vp_res (fb_comma_strict h pre rest i s).
  Proof.
    intros HV HN Hinv. unfold fb_comma_strict, fb_bad. destruct (multipleValsOk h); [|apply ret_other_pos; discriminate].
    apply mv_pos; [exact HV|exact HN|]. destruct Hinv as (_&_&_&_&_&_&_&_&_&_&F1&_). exact F1.
  Qed.

  Lemma step_pos s : fb_inv L pre i s -> NNI pre i s -> VP s -> vp_res (fb_iter h pre rest i s).
  Proof.
    intros Hinv HN HV. unfold fb_iter.
    assert (Hk : ccls_of c = KWs \/ (ccls_of c <> KWs /\ is_ws c = false)).
    { destruct (ccls_of c) eqn:E; [left; reflexivity|right; split; [discriminate|apply ccls_nows; rewrite E; discriminate]..]. }
    pose proof Hinv as (_&_&_&_&H5&_). pose proof HN as (N1&_).
    destruct (fb_state s) eqn:Est.
    23: { cbn [vp_res]. split; [intros E; discriminate|]. intros _. unfold VP, VPb in HV. rewrite Est in HV. exact (HV eq_refl). }
    all: unfold fb_step, fb_gA, fb_gQ, fb_gURI, fb_gURIFound, fb_gP, fb_gPE, fb_gV, fb_gVE, fb_gStar, fb_bad, fb_reset3.
    all: destruct Hk as [Ek|[Ek Hc]]; [rewrite Ek|destruct (ccls_of c); try congruence].
    all: cbn [is_st_init is_st_nameoruri is_st_nameoruriend is_st_name is_st_new st_poss st_newparam st_paramname st_paramnameend st_newval st_val st_valend st_quotedval].
    all: try (apply ret_other_pos; discriminate).
    all: try (apply comma_pos; assumption).
    all: try (apply comma_strict_pos; assumption).
    all: letbp.
    all: try (apply lws_pos; [| |]).
    all: try (apply lws_b_pos; [exact HV| | |]).
    all: try (apply setpv_pos).
    all: try (match goal with |- forall n : option N, _ => intros n; destruct n end).
    all: try (destruct r1 as [|d r2]; [cbn; split; [intros _; exact HV|intros [E|E]; discriminate]|destruct (is_crlf d); [apply ret_other_pos; discriminate|exact HV]]).
    all: cbn [vp_res]; unfold VP, VPb in *.
    all: try (destruct s as [nm ur tg star lr he ty q ex pa v pe eo sta so ps pd vs ve]; cbn in *; subst sta; cbn in *; unfold pf_end in *; cbn in *;
              first [discriminate | (intros; discriminate) | (intros; lia) | lia | (intros; apply HV; reflexivity) | exact HV | (intros; specialize (N1 eq_refl); lia)]; fail).
    all: try (destruct s as [nm ur tg star lr he ty q ex pa v pe eo sta so ps pd vs ve]; cbn in *; subst sta; cbn -[N.add N.sub]; destruct (po pa =? 0); cbn in *; first [(intros; apply HV; reflexivity) | exact HV | (intros; lia)]; fail).
    all: match goal with |- ?G => idtac "REMAINING"; idtac G end.
  Qed.
End Step.
