(* C09: the parameter part of a name-addr value in general, against the grammar, for every header kind and for both the
   bracketed URI (parameters of the header) and the bare URI (its twin states: parameters are header parameters too):
        *( ";" [LWS] name [ [LWS] "=" [LWS] ( token | quoted-string ) ] [LWS] )
   ended by the end of the header line or, for the kinds that take several values, by a comma.  Every parameter reaches the
   dispatch (tag / expires / q / lr / other) with exactly its name text and value text, in order; the parameter span runs
   from the first name to the end of the last value, white space excluded. *)
From Sipsp Require Import Driver Harness RunLemmas Ext ExtLeaf ZSlice HdrSpec UIntSpec TokSpec NameAddrSpec IP4 Numbers QSpec NameAddrParam TokItem TrimSpec FLineSpec.
From Coq Require Import ZifyN ZifyNat ZifyBool.
From RecordUpdate Require Import RecordUpdate.

(* white space the LWS skipper crosses completely: blanks and folds (TokItem.v, without the end-of-input flag) *)
Notation wsr := (wsrun 0).
Notation gp := (gap 0).
Lemma wsr_skip w c r : wsr w -> is_ws c = false -> skipLWS false (w ++ c :: r) = LOk (length w).
Proof. intros [_ H] Hc. exact (H c r Hc). Qed.
Lemma wsr_head w : wsr w -> exists c0 w', w = c0 :: w' /\ is_ws c0 = true.
Proof. intros [H _]. exact H. Qed.
Lemma ws_class c : is_ws c = true -> ccls_of c = KWs.
Proof. intros H. unfold ccls_of. rewrite H. reflexivity. Qed.

(* the scratch part of the state written out: b with the given state, parameter scratch offsets and parameter span *)
Definition W (b : pfrom) (st : fbst) (ps pe vs ve : N) (prm : pf) : pfrom :=
  mkpfrom (fb_name b) (fb_uri b) (fb_tag b) (fb_star b) (fb_lr b) (fb_hasexp b) (fb_type b) (fb_q b) (fb_expires b)
          prm (fb_v b) (fb_perr b) (fb_erroffs b) st (fb_soffs b) ps pe vs ve.
Definition prm1 (prm : pf) (a : N) : pf := if po prm =? 0 then mkpf a (pl prm) else prm.
(* a parameter without value: only lr is looked at *)
Definition apply_flag (name : list byte) (s : pfrom) : pfrom := if eqb_nocase name str_lr then s <| fb_lr := true |> else s.
Lemma setFromParamVal_flag pre rest i s name : fb_pstart s < fb_pend s -> fb_vstart s = fb_vend s ->
  zslice pre rest i (fb_pstart s) (fb_pend s) = Some name ->
  setFromParamVal pre rest i s = Some (pclr (apply_flag name s)).
Proof.
  intros H1 H2 Z1. unfold setFromParamVal, apply_flag, pclr. rewrite Z1.
  replace ((fb_pstart s <? fb_pend s) && (fb_vstart s <? fb_vend s)) with false by lia.
  replace ((fb_pstart s <? fb_pend s) && (fb_vstart s =? fb_vend s)) with true by lia.
  destruct (eqb_nocase name str_lr); reflexivity.
Qed.
Lemma apply_flag_frame name s :
  fb_params (apply_flag name s) = fb_params s /\ fb_v (apply_flag name s) = fb_v s /\ fb_state (apply_flag name s) = fb_state s.
Proof. unfold apply_flag. destruct (eqb_nocase name str_lr); destruct s; cbn; auto. Qed.

(* quoted-string content as the name-addr parser reads it: plain bytes, escapes, and white space the LWS skipper crosses (blanks, folds) *)
Inductive fqc : list byte -> Prop :=
| fqc_nil : fqc []
| fqc_plain c q : ccls_of c <> KDq -> ccls_of c <> KBsl -> ccls_of c <> KWs -> fqc q -> fqc (c :: q)
| fqc_esc d q : is_crlf d = false -> fqc q -> fqc (92 :: d :: q)
| fqc_ws w q : wsr w -> fqc q -> (q = [] \/ exists c q', q = c :: q' /\ is_ws c = false) -> fqc (w ++ q).
Inductive valtxt : list byte -> Prop :=
| vt_tok v0 value : vchar v0 -> Forall vchar value -> valtxt (v0 :: value)
| vt_quoted q : fqc q -> valtxt (34 :: q ++ [34]).
Lemma valtxt_len V : valtxt V -> (0 < length V)%nat. Proof. destruct 1; cbn [length]; lia. Qed.

(* a piece of the bytes read so far, by offsets *)
Definition psl (pre : list byte) (a e : N) (M : list byte) : Prop :=
  exists P S, rev pre = P ++ M ++ S /\ a = nnat (length P) /\ e = a + nnat (length M).
Lemma psl_ext g pre a e M : psl pre a e M -> psl (g ++ pre) a e M.
Proof. intros (P & S & E & Ha & He). exists P, (S ++ rev g). split; [rewrite rev_app_distr, E, <- !app_assoc; reflexivity|auto]. Qed.
Lemma psl_z pre rest i a e M : i = nnat (length pre) -> psl pre a e M -> zslice pre rest i a e = Some M.
Proof.
  intros Hi (P & S & E & -> & ->). apply (zslice_mid pre rest i P M (S ++ rest)); [|exact Hi]. rewrite E, <- !app_assoc. reflexivity.
Qed.
Lemma psl_last M pre0 i : i = nnat (length pre0) -> psl (rev M ++ pre0) i (i + nnat (length M)) M.
Proof. intros ->. exists (rev pre0), []. split; [rewrite rev_app_distr, rev_involutive, app_nil_r; reflexivity|]. rewrite rev_length. auto. Qed.

(* the finished value: parameter span and whole-value span closed at d *)
Definition finW (h d : N) (X : pfrom) : pfrom :=
  mkpfrom (fb_name X) (fb_uri X) (fb_tag X) (fb_star X) (fb_lr X) (fb_hasexp X) h (fb_q X) (fb_expires X)
          (mkpf (po (fb_params X)) (d - po (fb_params X))) (mkpf (po (fb_v X)) (d - po (fb_v X))) (fb_perr X) (fb_erroffs X)
          FbFIN 0 (fb_pstart X) (fb_pend X) (fb_vstart X) (fb_vend X).
Lemma finW_close d Y : po (fb_params Y) <= d -> po (fb_v Y) <= d ->
  match pf_extend (fb_params Y) d, pf_extend (fb_v Y) d with
  | Some p, Some v => Some (Some (Y <| fb_params := p |> <| fb_v := v |>))
  | _, _ => None
  end = Some (Some (Y <| fb_params := mkpf (po (fb_params Y)) (d - po (fb_params Y)) |> <| fb_v := mkpf (po (fb_v Y)) (d - po (fb_v Y)) |>)).
Proof. intros H1 H2. unfold pf_extend. replace (d <? po (fb_params Y)) with false by lia. replace (d <? po (fb_v Y)) with false by lia. reflexivity. Qed.
Lemma finW_eq h d Y : (Y <| fb_params := mkpf (po (fb_params Y)) (d - po (fb_params Y)) |> <| fb_v := mkpf (po (fb_v Y)) (d - po (fb_v Y)) |>)
                        <| fb_state := FbFIN |> <| fb_soffs := 0 |> <| fb_type := h |> = finW h d Y.
Proof. destruct Y; reflexivity. Qed.

(* the dispatch does not look at the parser state *)
Lemma apply_param_st N V b st st' a pe c d prm : (apply_param N V (W b st a pe c d prm)) <| fb_state := st' |> = apply_param N V (W b st' a pe c d prm).
Proof.
  unfold apply_param. destruct (eqb_nocase N str_tag); [reflexivity|]. destruct (eqb_nocase N str_expires); [reflexivity|].
  destruct (eqb_nocase N str_q).
  - unfold set_q. cbv zeta. destruct (_ <=? 4)%nat; [|reflexivity].
    destruct (pUInt64Val _) as [u e1]. destruct (match e1 with EOk => _ | _ => _ end) as [dd e2].
    destruct e2; try reflexivity. destruct (_ || _); reflexivity.
  - destruct (eqb_nocase N str_lr); reflexivity.
Qed.
Lemma finW_st h d N V b st st' a pe c prm :
  finW h d (pclr (apply_param N V (W b st a pe c d prm))) = finW h d (pclr (apply_param N V (W b st' a pe c d prm))).
Proof. rewrite <- (apply_param_st N V b st st'). destruct (apply_param N V (W b st a pe c d prm)); reflexivity. Qed.
Lemma finW_flag_st h d N b st st' a pe prm :
  finW h d (pclr (apply_flag N (W b st a pe 0 0 prm))) = finW h d (pclr (apply_flag N (W b st' a pe 0 0 prm))).
Proof. unfold apply_flag. destruct (eqb_nocase N str_lr); reflexivity. Qed.
Lemma span_ws_app l pre : Forall (fun c => is_ws c = true) l -> span is_ws (l ++ pre) = (length l + span is_ws pre)%nat.
Proof. induction 1 as [|c l Hc _ IH]; [reflexivity|]. cbn [app span length]. rewrite Hc, IH. reflexivity. Qed.
Lemma wsr_allws w : wsr w -> Forall (fun c => is_ws c = true) w.
Proof.
  intros Hw. pose proof (wsr_skip w 44 [] Hw eq_refl) as H. pose proof (skipLWS_ok_ws _ _ H) as A.
  apply Forall_forall. intros c Hc. destruct (In_nth_error _ _ Hc) as (j & Hj).
  assert (Hlt : (j < length w)%nat) by (apply nth_error_Some; congruence).
  destruct (A j Hlt) as (c' & E & Hws). rewrite nth_error_app1 in E by exact Hlt. congruence.
Qed.

(* ---- one parameter: [LWS] name [ [LWS] "=" [LWS] value ] followed by [LWS] ------------------------------------------------------------ *)
Record pit := mkpit { t_g1 : list byte; t_name : list byte; t_val : option (list byte * list byte * list byte); t_g4 : list byte }.
Definition t_vbytes (t : pit) : list byte := match t_val t with Some (g2, g3, V) => g2 ++ (61 : byte) :: g3 ++ V | None => [] end.
Definition t_body (t : pit) : list byte := t_g1 t ++ t_name t ++ t_vbytes t.
Definition t_ok (t : pit) : Prop :=
  gp (t_g1 t) /\ (exists n0 name, t_name t = n0 :: name /\ pchar n0 /\ Forall pchar name) /\
  match t_val t with Some (g2, g3, V) => gp g2 /\ gp g3 /\ valtxt V | None => True end /\ gp (t_g4 t).
(* offsets of the name, of the value, of the end of the parameter, when it starts (after its ";") at i *)
Definition t_a (i : N) (t : pit) : N := i + nnat (length (t_g1 t)).
Definition t_e (i : N) (t : pit) : N := t_a i t + nnat (length (t_name t)).
Definition t_c (i : N) (t : pit) : N := match t_val t with Some (g2, g3, _) => t_e i t + nnat (length g2) + 1 + nnat (length g3) | None => 0 end.
Definition t_d (i : N) (t : pit) : N := i + nnat (length (t_body t)).
(* the state after the parameter was handed to the dispatch *)
Definition t_apply (p : bool) (i : N) (t : pit) (b : pfrom) : pfrom :=
  let prm := prm1 (fb_params b) (t_a i t) in
  match t_val t with
  | Some (_, _, V) => pclr (apply_param (t_name t) V (W b (st_newparam p) (t_a i t) (t_e i t) (t_c i t) (t_d i t) prm))
  | None => pclr (apply_flag (t_name t) (W b (st_newparam p) (t_a i t) (t_e i t) 0 0 prm))
  end.
Lemma last_nonws (X : list byte) (ok : byte -> Prop) : (forall c, ok c -> is_ws c = false) -> X <> [] -> Forall ok X -> exists X' l, X = X' ++ [l] /\ is_ws l = false.
Proof.
  intros Hok Hne HF. destruct (exists_last Hne) as (X' & l & E). exists X', l. split; [exact E|]. apply Hok.
  apply (proj1 (Forall_forall ok X) HF). rewrite E. apply in_or_app. right. left. reflexivity.
Qed.
Lemma valtxt_last V : valtxt V -> exists V' l, V = V' ++ [l] /\ is_ws l = false.
Proof.
  destruct 1 as [v0 value Hv Hval|q _].
  - apply (last_nonws (v0 :: value) vchar); [|discriminate|constructor; assumption]. intros c Hc. unfold vchar, ccls_of in Hc. destruct (is_ws c); [contradiction|reflexivity].
  - exists (34 :: q), 34. split; reflexivity.
Qed.
Lemma span_last (X' : list byte) l pre : is_ws l = false -> span is_ws (rev (X' ++ [l]) ++ pre) = 0%nat.
Proof. intros H. rewrite rev_app_distr. cbn [rev app span]. rewrite H. reflexivity. Qed.

(* white space met in a state that only skips it *)
Lemma g_lws_ws h (pre w : list byte) c (y : list byte) i s s1 : (forall c0 r, is_ws c0 = true -> fb_iter h pre (c0 :: r) i s = fb_lws h pre (c0 :: r) i s1) ->
  wsr w -> is_ws c = false -> run (fb_iter h) pre (w ++ c :: y) i 0 s = run (fb_iter h) (rev w ++ pre) (c :: y) (i + nnat (length w)) 0 s1.
Proof.
  intros H Hw Hc. destruct (wsr_head w Hw) as (c0 & w' & Ew & Hc0).
  apply run_step; [rewrite Ew; discriminate|]. rewrite Ew at 1. cbn [app]. rewrite (H c0 _ Hc0). unfold fb_lws.
  change (c0 :: w' ++ c :: y) with ((c0 :: w') ++ c :: y). rewrite <- Ew. rewrite (wsr_skip w c y Hw Hc). reflexivity.
Qed.

Section Gen.
  Variable h : N.
  Variable p : bool.
  Let it := fb_iter h.
  Let NP := st_newparam p.
  Let PN := st_paramname p.
  Let PNE := st_paramnameend p.
  Let NV := st_newval p.
  Let PV := st_val p.
  Let PVE := st_valend p.
  Let QV := st_quotedval p.

  Ltac stp := unfold it, fb_iter, W, NP, PN, PNE, NV, PV, PVE, QV; destruct p; cbn [fb_state st_newparam st_paramname st_paramnameend st_newval st_val st_valend st_quotedval];
              unfold fb_step, fb_gP, fb_gPE, fb_gV, fb_gVE, fb_gQ.

  (* ---- single steps ------------------------------------------------------------------------------------------------------------- *)
  Lemma s_name0 b pre c r i prm : pchar c -> it pre (c :: r) i (W b NP 0 0 0 0 prm) = Next 1 (W b PN i 0 0 0 (prm1 prm i)).
  Proof. intros Hc. unfold pchar in Hc. stp; rewrite Hc; cbn; unfold prm1; destruct (po prm =? 0); reflexivity. Qed.
  Lemma s_name b pre c r i a pe vs ve prm : (po prm =? 0) = false -> pchar c -> it pre (c :: r) i (W b PN a pe vs ve prm) = Next 1 (W b PN a pe vs ve prm).
  Proof. intros Hp Hc. unfold pchar in Hc. stp; rewrite Hc; cbn; rewrite Hp; reflexivity. Qed.
  Lemma s_eq b pre r i a pe vs ve prm : it pre (61 :: r) i (W b PN a pe vs ve prm) = Next 1 (W b NV a i (i + 1) ve prm).
  Proof. stp; reflexivity. Qed.
  Lemma s_eq_e b pre r i a pe vs ve prm : it pre (61 :: r) i (W b PNE a pe vs ve prm) = Next 1 (W b NV a pe (i + 1) ve prm).
  Proof. stp; reflexivity. Qed.
  Lemma s_val0 b pre c r i a pe vs ve prm : vchar c -> it pre (c :: r) i (W b NV a pe vs ve prm) = Next 1 (W b PV a pe i ve prm).
  Proof. intros Hc. unfold vchar in Hc. stp; destruct (ccls_of c); try contradiction; reflexivity. Qed.
  Lemma s_val b pre c r i a pe vs ve prm : vchar c -> it pre (c :: r) i (W b PV a pe vs ve prm) = Next 1 (W b PV a pe vs ve prm).
  Proof. intros Hc. unfold vchar in Hc. stp; destruct (ccls_of c); try contradiction; reflexivity. Qed.
  Lemma s_q0 b pre r i a pe vs ve prm : it pre (34 :: r) i (W b NV a pe vs ve prm) = Next 1 (W b QV a pe i ve prm).
  Proof. stp; reflexivity. Qed.
  Lemma s_q b pre c r i a pe vs ve prm : ccls_of c <> KDq -> ccls_of c <> KBsl -> ccls_of c <> KWs ->
    it pre (c :: r) i (W b QV a pe vs ve prm) = Next 1 (W b QV a pe vs ve prm).
  Proof. intros H1 H2 H3. stp; destruct (ccls_of c); try congruence; reflexivity. Qed.
  Lemma s_qesc b pre d r i a pe vs ve prm : is_crlf d = false -> it pre (92 :: d :: r) i (W b QV a pe vs ve prm) = Next 2 (W b QV a pe vs ve prm).
  Proof. intros Hd. stp; change (ccls_of 92) with KBsl; cbv iota; rewrite Hd; reflexivity. Qed.
  Lemma s_qend b pre r i a pe vs ve prm : it pre (34 :: r) i (W b QV a pe vs ve prm) = Next 1 (W b PV a pe vs ve prm).
  Proof. stp; reflexivity. Qed.

  (* ---- white space -------------------------------------------------------------------------------------------------------------- *)
  Lemma g_lws_b pre w c y i s upd : (forall c0 r, is_ws c0 = true -> it pre (c0 :: r) i s = fb_lws_b h pre (c0 :: r) i s upd) ->
    wsr w -> is_ws c = false -> run it pre (w ++ c :: y) i 0 s = run it (rev w ++ pre) (c :: y) (i + nnat (length w)) 0 (upd (Some (i + nnat (length w)))).
  Proof.
    intros H Hw Hc. destruct (wsr_head w Hw) as (c0 & w' & Ew & Hc0).
    apply run_step; [rewrite Ew; discriminate|]. rewrite Ew at 1. cbn [app]. rewrite (H c0 _ Hc0). unfold fb_lws_b.
    change (c0 :: w' ++ c :: y) with ((c0 :: w') ++ c :: y). rewrite <- Ew. rewrite (wsr_skip w c y Hw Hc). reflexivity.
  Qed.
  Lemma ws_np b pre c0 r i prm : is_ws c0 = true -> it pre (c0 :: r) i (W b NP 0 0 0 0 prm) = fb_lws_b h pre (c0 :: r) i (W b NP 0 0 0 0 prm) (fun _ => W b NP 0 0 0 0 prm).
  Proof. intros Hc. apply ws_class in Hc. stp; rewrite Hc; reflexivity. Qed.
  Lemma ws_pn b pre c0 r i a pe vs ve prm : is_ws c0 = true ->
    it pre (c0 :: r) i (W b PN a pe vs ve prm) = fb_lws_b h pre (c0 :: r) i (W b PN a pe vs ve prm) (fun _ => W b PNE a i vs ve prm).
  Proof. intros Hc. apply ws_class in Hc. stp; rewrite Hc; reflexivity. Qed.
  Lemma ws_nv b pre c0 r i a pe vs ve prm : is_ws c0 = true ->
    it pre (c0 :: r) i (W b NV a pe vs ve prm) = fb_lws_b h pre (c0 :: r) i (W b NV a pe vs ve prm)
      (fun n => match n with Some n => W b NV a pe n ve prm | None => W b NV a pe vs ve prm end).
  Proof. intros Hc. apply ws_class in Hc. stp; rewrite Hc; reflexivity. Qed.
  Lemma ws_pv b pre c0 r i a pe vs ve prm : is_ws c0 = true ->
    it pre (c0 :: r) i (W b PV a pe vs ve prm) = fb_lws_b h pre (c0 :: r) i (W b PV a pe vs ve prm) (fun _ => W b PVE a pe vs i prm).
  Proof. intros Hc. apply ws_class in Hc. stp; rewrite Hc; reflexivity. Qed.

  (* ---- segments ------------------------------------------------------------------------------------------------------------------ *)
  Lemma pchar_nonws c : pchar c -> is_ws c = false.
  Proof. unfold pchar, ccls_of. destruct (is_ws c); [discriminate|reflexivity]. Qed.
  Lemma vchar_nonws c : vchar c -> is_ws c = false.
  Proof. unfold vchar, ccls_of. destruct (is_ws c); [contradiction|reflexivity]. Qed.
  Lemma prm1_nz prm a : 0 < a -> (po (prm1 prm a) =? 0) = false.
  Proof. intros Ha. unfold prm1. destruct (po prm =? 0) eqn:E; cbn [po]; lia. Qed.

  (* [LWS] name, from the state after a ";" *)
  Lemma seg_name b (pre g1 : list byte) n0 (name y : list byte) i prm : gp g1 -> pchar n0 -> Forall pchar name -> 0 < i ->
    run it pre (g1 ++ (n0 :: name) ++ y) i 0 (W b NP 0 0 0 0 prm)
    = run it (rev (g1 ++ n0 :: name) ++ pre) y (i + nnat (length g1) + nnat (length (n0 :: name))) 0
        (W b PN (i + nnat (length g1)) 0 0 0 (prm1 prm (i + nnat (length g1)))).
  Proof.
    intros Hg Hn0 Hname Hi. set (a := i + nnat (length g1)).
    assert (E1 : run it pre (g1 ++ (n0 :: name) ++ y) i 0 (W b NP 0 0 0 0 prm) = run it (rev g1 ++ pre) ((n0 :: name) ++ y) a 0 (W b NP 0 0 0 0 prm)).
    { destruct Hg as [->|Hw]; [subst a; cbn [app rev length]; f_equal; unfold nnat; lia|].
      cbn [app]. rewrite (g_lws_b pre g1 n0 (name ++ y) i _ _ (fun c0 r H => ws_np b pre c0 r i prm H) Hw (pchar_nonws _ Hn0)). reflexivity. }
    rewrite E1. cbn [app]. rewrite (run_one it _ n0 _ a _ _ (s_name0 b _ n0 _ a prm Hn0)).
    rewrite (run_selfloop it pchar (W b PN a 0 0 0 (prm1 prm a))
               ltac:(intros p0 c r j Hc; apply s_name; [apply prm1_nz; subst a; lia|exact Hc]) name _ y (a + 1) Hname).
    f_equal; [rewrite rev_app_distr; cbn [rev]; rewrite <- !app_assoc; reflexivity|cbn [length]; unfold nnat; lia].
  Qed.
  (* [LWS] "=" from the end of the name *)
  Lemma seg_eq b (pre g2 y : list byte) e a prm : gp g2 ->
    run it pre (g2 ++ (61 : byte) :: y) e 0 (W b PN a 0 0 0 prm)
    = run it ((61 : byte) :: rev g2 ++ pre) y (e + nnat (length g2) + 1) 0 (W b NV a e (e + nnat (length g2) + 1) 0 prm).
  Proof.
    intros [->|Hw].
    - cbn [app rev length]. rewrite (run_one it _ 61 _ e _ _ (s_eq b pre y e a 0 0 0 prm)). f_equal; unfold nnat; try lia. f_equal. lia.
    - rewrite (g_lws_b pre g2 61 y e _ _ (fun c0 r H => ws_pn b pre c0 r e a 0 0 0 prm H) Hw eq_refl).
      rewrite (run_one it _ 61 _ _ _ _ (s_eq_e b _ y _ a e 0 0 prm)). reflexivity.
  Qed.
  (* quoted content *)
  Lemma ws_qv b pre c0 r i a pe vs ve prm : is_ws c0 = true -> it pre (c0 :: r) i (W b QV a pe vs ve prm) = fb_lws h pre (c0 :: r) i (W b QV a pe vs ve prm).
  Proof. intros Hc. apply ws_class in Hc. stp; rewrite Hc; reflexivity. Qed.
  Lemma seg_fqc b q : fqc q -> forall (pre y : list byte) i a pe vs ve prm,
    run it pre (q ++ (34 : byte) :: y) i 0 (W b QV a pe vs ve prm) = run it ((34 : byte) :: rev q ++ pre) y (i + nnat (length q) + 1) 0 (W b PV a pe vs ve prm).
  Proof.
    induction 1 as [|c q C1 C2 C3 _ IH|d q Hd _ IH|w q Hw _ IH Hq]; intros pre y i a pe vs ve prm.
    4:{ assert (G : run it pre ((w ++ q) ++ (34 : byte) :: y) i 0 (W b QV a pe vs ve prm)
                    = run it (rev w ++ pre) (q ++ (34 : byte) :: y) (i + nnat (length w)) 0 (W b QV a pe vs ve prm)).
        { rewrite <- app_assoc. destruct Hq as [->|(c & q' & -> & Hc)]; cbn [app].
          - unfold it. apply (g_lws_ws h pre w 34 y i _ _ (fun c0 r H => ws_qv b pre c0 r i a pe vs ve prm H) Hw eq_refl).
          - unfold it. apply (g_lws_ws h pre w c (q' ++ (34 : byte) :: y) i _ _ (fun c0 r H => ws_qv b pre c0 r i a pe vs ve prm H) Hw Hc). }
        rewrite G, IH. rewrite rev_app_distr, <- app_assoc, app_length. f_equal. unfold nnat. lia. }
    - cbn [app rev length]. rewrite (run_one it _ 34 _ i _ _ (s_qend b pre y i a pe vs ve prm)). f_equal. unfold nnat. lia.
    - cbn [app]. rewrite (run_one it _ c _ i _ _ (s_q b pre c _ i a pe vs ve prm C1 C2 C3)). rewrite IH. cbn [rev length]. rewrite <- app_assoc. cbn [app]. f_equal. unfold nnat. lia.
    - change ((92 :: d :: q) ++ 34 :: y) with ([92; d] ++ (q ++ 34 :: y)).
      rewrite (run_step it pre [92; d] _ i _ _ ltac:(discriminate) (s_qesc b pre d _ i a pe vs ve prm Hd)). rewrite IH.
      cbn [rev length app]. rewrite <- !app_assoc. cbn [app]. f_equal. unfold nnat. lia.
  Qed.
  (* [LWS] value from the state after "=" *)
  Lemma seg_val b (pre g3 V y : list byte) i a pe vs prm : gp g3 -> valtxt V ->
    run it pre (g3 ++ V ++ y) i 0 (W b NV a pe vs 0 prm)
    = run it (rev (g3 ++ V) ++ pre) y (i + nnat (length g3) + nnat (length V)) 0 (W b PV a pe (i + nnat (length g3)) 0 prm).
  Proof.
    intros Hg HV. set (c := i + nnat (length g3)).
    assert (Hv0 : exists v0 V', V = v0 :: V' /\ is_ws v0 = false).
    { destruct HV as [v0 value Hv0 _|q _]; [exists v0, value; split; [reflexivity|apply vchar_nonws; exact Hv0]|exists 34, (q ++ [34]); split; reflexivity]. }
    assert (E1 : exists vs', run it pre (g3 ++ V ++ y) i 0 (W b NV a pe vs 0 prm) = run it (rev g3 ++ pre) (V ++ y) c 0 (W b NV a pe vs' 0 prm)).
    { destruct Hg as [->|Hw]; [exists vs; subst c; cbn [app rev length]; f_equal; unfold nnat; lia|].
      destruct Hv0 as (v0 & V' & -> & Hv0). exists c. cbn [app].
      rewrite (g_lws_b pre g3 v0 (V' ++ y) i _ _ (fun c0 r H => ws_nv b pre c0 r i a pe vs 0 prm H) Hw Hv0). reflexivity. }
    destruct E1 as (vs' & ->). rewrite rev_app_distr, <- app_assoc.
    destruct HV as [v0 value Hv Hval|q Hq].
    - cbn [app]. rewrite (run_one it _ v0 _ c _ _ (s_val0 b _ v0 _ c a pe vs' 0 prm Hv)).
      rewrite (run_selfloop it vchar (W b PV a pe c 0 prm) ltac:(intros p0 c1 r j Hc; apply s_val; exact Hc) value _ y (c + 1) Hval).
      cbn [rev length]. rewrite <- app_assoc. cbn [app]. f_equal. unfold nnat. lia.
    - cbn [app]. rewrite (run_one it _ 34 _ c _ _ (s_q0 b _ _ c a pe vs' 0 prm)). rewrite <- app_assoc. cbn [app].
      rewrite (seg_fqc b q Hq). cbn [rev length]. rewrite rev_app_distr. cbn [rev app]. rewrite app_length. cbn [length]. rewrite <- app_assoc. cbn [app]. f_equal. unfold nnat. lia.
  Qed.

  (* ---- the end of the value ---------------------------------------------------------------------------------------------------------- *)
  (* what the end-of-value code does in the four states a parameter can be in when the value ends *)
  Lemma close_gen pre rest i0 d ret e s X :
    match fb_state s with
    | FbParamValEnd | FbPossibleValEnd | FbParamNameEnd | FbPossibleParamNameEnd => setFromParamVal pre rest i0 s = Some X
    | FbParamVal | FbPossibleVal => setFromParamVal pre rest i0 (s <| fb_vend := d |>) = Some X
    | FbParamName | FbPossibleParamName => setFromParamVal pre rest i0 (s <| fb_pend := d |>) = Some X
    | _ => False
    end -> (po (fb_params X) =? 0) = false -> po (fb_params X) <= d -> po (fb_v X) <= d ->
    fb_endOfHdr h pre rest i0 d ret e s = Ret ret e (finW h d X).
  Proof.
    intros H Hp H1 H2. unfold fb_endOfHdr, fb_close.
    destruct (fb_state s); try contradiction; rewrite H; cbn [orb]; rewrite ?Hp; cbn [negb]; rewrite (finW_close d X H1 H2), finW_eq; reflexivity.
  Qed.

  Lemma sp_v b pre rest i st a pe c d prm N V : i = nnat (length pre) -> psl pre a pe N -> psl pre c d V -> a < pe -> c < d ->
    setFromParamVal pre rest i (W b st a pe c d prm) = Some (pclr (apply_param N V (W b st a pe c d prm))).
  Proof. intros Hi Z1 Z2 H1 H2. apply setFromParamVal_some; cbn [W fb_pstart fb_pend fb_vstart fb_vend]; auto; apply psl_z; auto. Qed.
  Lemma sp_n b pre rest i st a pe prm N : i = nnat (length pre) -> psl pre a pe N -> a < pe ->
    setFromParamVal pre rest i (W b st a pe 0 0 prm) = Some (pclr (apply_flag N (W b st a pe 0 0 prm))).
  Proof. intros Hi Z1 H1. apply setFromParamVal_flag; cbn [W fb_pstart fb_pend fb_vstart fb_vend]; auto; apply psl_z; auto. Qed.
  Lemma frame_v N V b st a pe c d prm : fb_params (pclr (apply_param N V (W b st a pe c d prm))) = prm /\ fb_v (pclr (apply_param N V (W b st a pe c d prm))) = fb_v b.
  Proof. destruct (apply_param_frame N V (W b st a pe c d prm)) as (F1 & F2 & _). destruct (apply_param N V _); cbn in *. auto. Qed.
  Lemma frame_n N b st a pe prm : fb_params (pclr (apply_flag N (W b st a pe 0 0 prm))) = prm /\ fb_v (pclr (apply_flag N (W b st a pe 0 0 prm))) = fb_v b.
  Proof. destruct (apply_flag_frame N (W b st a pe 0 0 prm)) as (F1 & F2 & _). destruct (apply_flag N _); cbn in *. auto. Qed.
  Lemma psl_len (pre : list byte) i (g : list byte) : i = nnat (length pre) -> i + nnat (length g) = nnat (length (rev g ++ pre)).
  Proof. intros ->. rewrite app_length, rev_length. unfold nnat. lia. Qed.

  (* ended by ";": the next parameter starts *)
  Lemma end_semi_v b (pre g4 y : list byte) d a pe c prm N V : gp g4 -> d = nnat (length pre) -> psl pre a pe N -> psl pre c d V -> a < pe -> c < d ->
    run it pre (g4 ++ (59 : byte) :: y) d 0 (W b PV a pe c 0 prm)
    = run it ((59 : byte) :: rev g4 ++ pre) y (d + nnat (length g4) + 1) 0 (pclr (apply_param N V (W b NP a pe c d prm))).
  Proof.
    intros Hg Hd Z1 Z2 H1 H2. destruct Hg as [->|Hw].
    - cbn [app rev length]. rewrite (run_one it pre 59 y d _ (pclr (apply_param N V (W b NP a pe c d prm)))); [f_equal; unfold nnat; lia|].
      transitivity (fb_setpv pre ((59 : byte) :: y) d (W b NP a pe c d prm)); [stp; reflexivity|].
      unfold fb_setpv. rewrite (sp_v b pre _ d NP a pe c d prm N V Hd Z1 Z2 H1 H2). reflexivity.
    - rewrite (g_lws_b pre g4 59 y d _ _ (fun c0 r H => ws_pv b pre c0 r d a pe c 0 prm H) Hw eq_refl).
      rewrite (run_one it _ 59 y _ _ (pclr (apply_param N V (W b NP a pe c d prm)))); [reflexivity|].
      transitivity (fb_setpv (rev g4 ++ pre) ((59 : byte) :: y) (d + nnat (length g4)) (W b NP a pe c d prm)); [stp; reflexivity|].
      unfold fb_setpv. rewrite (sp_v b _ _ _ NP a pe c d prm N V (psl_len pre d g4 Hd) (psl_ext _ _ _ _ _ Z1) (psl_ext _ _ _ _ _ Z2) H1 H2). reflexivity.
  Qed.
  Lemma end_semi_n b (pre g2 y : list byte) e a prm N : gp g2 -> e = nnat (length pre) -> psl pre a e N -> a < e ->
    run it pre (g2 ++ (59 : byte) :: y) e 0 (W b PN a 0 0 0 prm)
    = run it ((59 : byte) :: rev g2 ++ pre) y (e + nnat (length g2) + 1) 0 (pclr (apply_flag N (W b NP a e 0 0 prm))).
  Proof.
    intros Hg He Z1 H1. destruct Hg as [->|Hw].
    - cbn [app rev length]. rewrite (run_one it pre 59 y e _ (pclr (apply_flag N (W b NP a e 0 0 prm)))); [f_equal; unfold nnat; lia|].
      transitivity (fb_setpv pre ((59 : byte) :: y) e (W b NP a e 0 0 prm)); [stp; reflexivity|].
      unfold fb_setpv. rewrite (sp_n b pre _ e NP a e prm N He Z1 H1). reflexivity.
    - rewrite (g_lws_b pre g2 59 y e _ _ (fun c0 r H => ws_pn b pre c0 r e a 0 0 0 prm H) Hw eq_refl).
      rewrite (run_one it _ 59 y _ _ (pclr (apply_flag N (W b NP a e 0 0 prm)))); [reflexivity|].
      transitivity (fb_setpv (rev g2 ++ pre) ((59 : byte) :: y) (e + nnat (length g2)) (W b NP a e 0 0 prm)); [stp; reflexivity|].
      unfold fb_setpv. rewrite (sp_n b _ _ _ NP a e prm N (psl_len pre e g2 He) (psl_ext _ _ _ _ _ Z1) H1). reflexivity.
  Qed.

  (* ended by the end of the header line *)
  Lemma eol_first (sp : list byte) x tail : spaces sp -> exists c0 r, sp ++ CR :: LF :: x :: tail = c0 :: r /\ is_ws c0 = true.
  Proof.
    intros Hsp. destruct sp as [|s0 sp']; [exists CR, (LF :: x :: tail); split; reflexivity|].
    exists s0, (sp' ++ CR :: LF :: x :: tail). split; [reflexivity|]. inversion Hsp as [|? ? H0 _]; subst. unfold is_ws. rewrite H0. reflexivity.
  Qed.
  Lemma end_eol_v b (pre sp : list byte) x tail d a pe c prm N V : spaces sp -> is_sp x = false -> d = nnat (length pre) ->
    psl pre a pe N -> psl pre c d V -> a < pe -> c < d -> po prm <= d -> po (fb_v b) <= d -> (po prm =? 0) = false ->
    run it pre (sp ++ CR :: LF :: x :: tail) d 0 (W b PV a pe c 0 prm)
    = Done (d + nnat (length sp) + 2) EOk (finW h d (pclr (apply_param N V (W b NP a pe c d prm)))).
  Proof.
    intros Hsp Hx Hd Z1 Z2 H1 H2 H3 H4 H5. rewrite run_after.
    destruct (eol_first sp x tail Hsp) as (c0 & r & Er & Hc0).
    assert (E : it pre (sp ++ CR :: LF :: x :: tail) d (W b PV a pe c 0 prm)
                = fb_endOfHdr h pre (sp ++ CR :: LF :: x :: tail) d d (d + nnat (length sp) + nnat 2) EOk (W b PVE a pe c d prm)).
    { rewrite Er. rewrite (ws_pv b pre c0 r d a pe c 0 prm Hc0). unfold fb_lws_b. rewrite <- Er. rewrite (skipLWS_sp_eol sp x tail Hsp Hx). reflexivity. }
    rewrite E. destruct (frame_v N V b PVE a pe c d prm) as [F1 F2].
    rewrite (close_gen pre _ d d _ EOk _ (pclr (apply_param N V (W b PVE a pe c d prm)))); rewrite ?F1, ?F2; auto.
    - cbn [after]. rewrite (finW_st h d N V b PVE NP). f_equal; unfold nnat; lia.
    - unfold PVE, W. destruct p; cbn [fb_state st_valend]; exact (sp_v b pre _ d _ a pe c d prm N V Hd Z1 Z2 H1 H2).
  Qed.
  Lemma end_eol_n b (pre sp : list byte) x tail e a prm N : spaces sp -> is_sp x = false -> e = nnat (length pre) ->
    psl pre a e N -> a < e -> po prm <= e -> po (fb_v b) <= e -> (po prm =? 0) = false ->
    run it pre (sp ++ CR :: LF :: x :: tail) e 0 (W b PN a 0 0 0 prm)
    = Done (e + nnat (length sp) + 2) EOk (finW h e (pclr (apply_flag N (W b NP a e 0 0 prm)))).
  Proof.
    intros Hsp Hx He Z1 H1 H3 H4 H5. rewrite run_after.
    destruct (eol_first sp x tail Hsp) as (c0 & r & Er & Hc0).
    assert (E : it pre (sp ++ CR :: LF :: x :: tail) e (W b PN a 0 0 0 prm)
                = fb_endOfHdr h pre (sp ++ CR :: LF :: x :: tail) e e (e + nnat (length sp) + nnat 2) EOk (W b PNE a e 0 0 prm)).
    { rewrite Er. rewrite (ws_pn b pre c0 r e a 0 0 0 prm Hc0). unfold fb_lws_b. rewrite <- Er. rewrite (skipLWS_sp_eol sp x tail Hsp Hx). reflexivity. }
    rewrite E. destruct (frame_n N b PNE a e prm) as [F1 F2].
    rewrite (close_gen pre _ e e _ EOk _ (pclr (apply_flag N (W b PNE a e 0 0 prm)))); rewrite ?F1, ?F2; auto.
    - cbn [after]. rewrite (finW_flag_st h e N b PNE NP). f_equal; unfold nnat; lia.
    - unfold PNE, W. destruct p; cbn [fb_state st_paramnameend]; exact (sp_n b pre _ e _ a e prm N He Z1 H1).
  Qed.

  (* ended by a comma (header kinds that take several values): white space before the comma is not part of the value *)
  Lemma span_gap (pre g : list byte) : gp g -> span is_ws pre = 0%nat -> span is_ws (rev g ++ pre) = length g.
  Proof.
    intros [->|Hw] Hs; [exact Hs|]. rewrite span_ws_app; [rewrite rev_length, Hs; lia|].
    apply Forall_forall. intros c Hc. apply in_rev in Hc. exact (proj1 (Forall_forall _ _) (wsr_allws g Hw) c Hc).
  Qed.
  Lemma end_comma_v b (pre g4 y : list byte) d a pe c prm N V : multipleValsOk h = true -> span is_ws pre = 0%nat -> gp g4 -> d = nnat (length pre) ->
    psl pre a pe N -> psl pre c d V -> a < pe -> c < d -> po prm <= d -> po (fb_v b) <= d -> (po prm =? 0) = false ->
    run it pre (g4 ++ (44 : byte) :: y) d 0 (W b PV a pe c 0 prm)
    = Done (d + nnat (length g4) + 1) EMoreValues (finW h d (pclr (apply_param N V (W b NP a pe c d prm)))).
  Proof.
    intros Hmv Hs Hg Hd Z1 Z2 H1 H2 H3 H4 H5. pose proof (span_gap pre g4 Hg Hs) as Hsp. destruct Hg as [->|Hw].
    - cbn [app rev length] in *. rewrite run_after.
      assert (E : it pre ((44 : byte) :: y) d (W b PV a pe c 0 prm) = fb_endOfHdr h pre ((44 : byte) :: y) d d (d + 1) EMoreValues (W b PV a pe c 0 prm)).
      { transitivity (fb_comma h pre ((44 : byte) :: y) d (W b PV a pe c 0 prm)); [stp; reflexivity|].
        unfold fb_comma. rewrite Hmv. unfold fb_moreValues. rewrite Hs. cbn [W fb_v]. replace (d - N.min (nnat 0) (d - po (fb_v b))) with d by (unfold nnat; lia). reflexivity. }
      rewrite E. destruct (frame_v N V b PV a pe c d prm) as [F1 F2].
      rewrite (close_gen pre _ d d _ EMoreValues _ (pclr (apply_param N V (W b PV a pe c d prm)))); rewrite ?F1, ?F2; auto.
      + cbn [after]. rewrite (finW_st h d N V b PV NP). f_equal; unfold nnat; lia.
      + unfold PV, W. destruct p; cbn [fb_state st_val]; exact (sp_v b pre _ d _ a pe c d prm N V Hd Z1 Z2 H1 H2).
    - rewrite (g_lws_b pre g4 44 y d _ _ (fun c0 r H => ws_pv b pre c0 r d a pe c 0 prm H) Hw eq_refl). rewrite run_after.
      set (i' := d + nnat (length g4)).
      assert (E : it (rev g4 ++ pre) ((44 : byte) :: y) i' (W b PVE a pe c d prm)
                  = fb_endOfHdr h (rev g4 ++ pre) ((44 : byte) :: y) i' d (i' + 1) EMoreValues (W b PVE a pe c d prm)).
      { transitivity (fb_comma_strict h (rev g4 ++ pre) ((44 : byte) :: y) i' (W b PVE a pe c d prm)); [stp; reflexivity|].
        unfold fb_comma_strict. rewrite Hmv. unfold fb_moreValues. rewrite Hsp. cbn [W fb_v].
        replace (i' - N.min (nnat (length g4)) (i' - po (fb_v b))) with d by (subst i'; unfold nnat; lia). reflexivity. }
      rewrite E. destruct (frame_v N V b PVE a pe c d prm) as [F1 F2].
      rewrite (close_gen (rev g4 ++ pre) _ i' d _ EMoreValues _ (pclr (apply_param N V (W b PVE a pe c d prm)))); rewrite ?F1, ?F2; auto.
      + cbn [after]. rewrite (finW_st h d N V b PVE NP). reflexivity.
      + unfold PVE, W. destruct p; cbn [fb_state st_valend];
          exact (sp_v b _ _ _ _ a pe c d prm N V (psl_len pre d g4 Hd) (psl_ext _ _ _ _ _ Z1) (psl_ext _ _ _ _ _ Z2) H1 H2).
  Qed.
  Lemma end_comma_n b (pre g2 y : list byte) e a prm N : multipleValsOk h = true -> span is_ws pre = 0%nat -> gp g2 -> e = nnat (length pre) ->
    psl pre a e N -> a < e -> po prm <= e -> po (fb_v b) <= e -> (po prm =? 0) = false ->
    run it pre (g2 ++ (44 : byte) :: y) e 0 (W b PN a 0 0 0 prm)
    = Done (e + nnat (length g2) + 1) EMoreValues (finW h e (pclr (apply_flag N (W b NP a e 0 0 prm)))).
  Proof.
    intros Hmv Hs Hg He Z1 H1 H3 H4 H5. pose proof (span_gap pre g2 Hg Hs) as Hsp. destruct Hg as [->|Hw].
    - cbn [app rev length] in *. rewrite run_after.
      assert (E : it pre ((44 : byte) :: y) e (W b PN a 0 0 0 prm) = fb_endOfHdr h pre ((44 : byte) :: y) e e (e + 1) EMoreValues (W b PN a 0 0 0 prm)).
      { transitivity (fb_comma h pre ((44 : byte) :: y) e (W b PN a 0 0 0 prm)); [stp; reflexivity|].
        unfold fb_comma. rewrite Hmv. unfold fb_moreValues. rewrite Hs. cbn [W fb_v]. replace (e - N.min (nnat 0) (e - po (fb_v b))) with e by (unfold nnat; lia). reflexivity. }
      rewrite E. destruct (frame_n N b PN a e prm) as [F1 F2].
      rewrite (close_gen pre _ e e _ EMoreValues _ (pclr (apply_flag N (W b PN a e 0 0 prm)))); rewrite ?F1, ?F2; auto.
      + cbn [after]. rewrite (finW_flag_st h e N b PN NP). f_equal; unfold nnat; lia.
      + unfold PN, W. destruct p; cbn [fb_state st_paramname]; exact (sp_n b pre _ e _ a e prm N He Z1 H1).
    - rewrite (g_lws_b pre g2 44 y e _ _ (fun c0 r H => ws_pn b pre c0 r e a 0 0 0 prm H) Hw eq_refl). rewrite run_after.
      set (i' := e + nnat (length g2)).
      assert (E : it (rev g2 ++ pre) ((44 : byte) :: y) i' (W b PNE a e 0 0 prm)
                  = fb_endOfHdr h (rev g2 ++ pre) ((44 : byte) :: y) i' e (i' + 1) EMoreValues (W b PNE a e 0 0 prm)).
      { transitivity (fb_comma_strict h (rev g2 ++ pre) ((44 : byte) :: y) i' (W b PNE a e 0 0 prm)); [stp; reflexivity|].
        unfold fb_comma_strict. rewrite Hmv. unfold fb_moreValues. rewrite Hsp. cbn [W fb_v].
        replace (i' - N.min (nnat (length g2)) (i' - po (fb_v b))) with e by (subst i'; unfold nnat; lia). reflexivity. }
      rewrite E. destruct (frame_n N b PNE a e prm) as [F1 F2].
      rewrite (close_gen (rev g2 ++ pre) _ i' e _ EMoreValues _ (pclr (apply_flag N (W b PNE a e 0 0 prm)))); rewrite ?F1, ?F2; auto.
      + cbn [after]. rewrite (finW_flag_st h e N b PNE NP). reflexivity.
      + unfold PNE, W. destruct p; cbn [fb_state st_paramnameend]; exact (sp_n b _ _ _ _ a e prm N (psl_len pre e g2 He) (psl_ext _ _ _ _ _ Z1) H1).
  Qed.

  (* ---- one parameter ------------------------------------------------------------------------------------------------------------------ *)
  Definition isbase (i : N) (b : pfrom) : Prop :=
    fb_state b = NP /\ fb_pstart b = 0 /\ fb_pend b = 0 /\ fb_vstart b = 0 /\ fb_vend b = 0 /\ po (fb_params b) <= i /\ po (fb_v b) <= i.
  Lemma W_base i b : isbase i b -> b = W b NP 0 0 0 0 (fb_params b).
  Proof. intros (H1 & H2 & H3 & H4 & H5 & _). destruct b; cbn in *. subst. reflexivity. Qed.

  (* from the state after ";" to the end of the name or value: the state reached and what it knows about the bytes read *)
  Definition reach (i : N) (t : pit) (b : pfrom) (pre' : list byte) : Prop :=
    let prm := prm1 (fb_params b) (t_a i t) in
    t_d i t = nnat (length pre') /\ span is_ws pre' = 0%nat /\ psl pre' (t_a i t) (t_e i t) (t_name t) /\ t_a i t < t_e i t /\ t_e i t <= t_d i t /\
    (po prm =? 0) = false /\ po prm <= t_d i t /\ po (fb_v b) <= t_d i t /\
    match t_val t with Some (_, _, V) => psl pre' (t_c i t) (t_d i t) V /\ t_c i t < t_d i t | None => t_e i t = t_d i t end.
  Lemma item_reach b (pre : list byte) t (z : list byte) i : t_ok t -> isbase i b -> i = nnat (length pre) -> 0 < i ->
    let prm := prm1 (fb_params b) (t_a i t) in
    run it pre (t_body t ++ z) i 0 b
    = run it (rev (t_body t) ++ pre) z (t_d i t) 0
        (match t_val t with Some _ => W b PV (t_a i t) (t_e i t) (t_c i t) 0 prm | None => W b PN (t_a i t) 0 0 0 prm end) /\
    reach i t b (rev (t_body t) ++ pre).
  Proof.
    intros (Hg1 & (n0 & name & En & Hn0 & Hname) & Hval & Hg4) Hb Hi Hpos prm.
    assert (Hprm : (po prm =? 0) = false) by (apply prm1_nz; unfold t_a; lia).
    assert (Hprm2 : po prm <= t_a i t).
    { subst prm. unfold prm1. destruct (po (fb_params b) =? 0); cbn [po]; [lia|]. destruct Hb as (_ & _ & _ & _ & _ & Hp & _). unfold t_a. lia. }
    assert (Hv : po (fb_v b) <= i) by (destruct Hb as (_ & _ & _ & _ & _ & _ & Hv); exact Hv).
    rewrite (W_base i b Hb) at 1. unfold t_body, t_vbytes. rewrite En in *.
    destruct (last_nonws (n0 :: name) pchar pchar_nonws ltac:(discriminate) ltac:(constructor; assumption)) as (N' & ln & ENl & Hln).
    assert (Zn : forall S0, psl (rev (t_g1 t ++ (n0 :: name) ++ S0) ++ pre) (t_a i t) (t_e i t) (n0 :: name)).
    { intros S0. exists (rev pre ++ t_g1 t), S0. split; [rewrite rev_app_distr, rev_involutive, <- !app_assoc; reflexivity|].
      unfold t_e, t_a. rewrite En, app_length, rev_length. split; unfold nnat in *; lia. }
    destruct (t_val t) as [[[g2 g3] V]|] eqn:Ev.
    - destruct Hval as (Hg2 & Hg3 & HV).
      replace ((t_g1 t ++ (n0 :: name) ++ g2 ++ (61 : byte) :: g3 ++ V) ++ z) with (t_g1 t ++ (n0 :: name) ++ (g2 ++ (61 : byte) :: (g3 ++ V ++ z)))
        by (repeat (rewrite <- ?app_assoc; cbn [app]); reflexivity).
      rewrite (seg_name b pre (t_g1 t) n0 name _ i (fb_params b) Hg1 Hn0 Hname Hpos). fold (t_a i t). fold prm.
      replace (t_a i t + nnat (length (n0 :: name))) with (t_e i t) by (unfold t_e; rewrite En; reflexivity).
      rewrite (seg_eq b _ g2 _ (t_e i t) (t_a i t) prm Hg2).
      rewrite (seg_val b _ g3 V z _ (t_a i t) (t_e i t) _ prm Hg3 HV).
      assert (Ec : t_e i t + nnat (length g2) + 1 + nnat (length g3) = t_c i t) by (unfold t_c; rewrite Ev; reflexivity).
      assert (Ed : t_c i t + nnat (length V) = t_d i t).
      { unfold t_d, t_body, t_vbytes, t_c, t_e, t_a. rewrite Ev, En. repeat (rewrite app_length; cbn [length]). unfold nnat. lia. }
      rewrite Ec, Ed.
      assert (Epre : rev (g3 ++ V) ++ (61 : byte) :: rev g2 ++ rev (t_g1 t ++ n0 :: name) ++ pre = rev (t_g1 t ++ (n0 :: name) ++ g2 ++ (61 : byte) :: g3 ++ V) ++ pre).
      { repeat (rewrite ?rev_app_distr; cbn [rev]). repeat (rewrite <- ?app_assoc; cbn [app]). reflexivity. }
      rewrite Epre. split; [reflexivity|].
      pose proof (valtxt_len V HV) as HlV. destruct (valtxt_last V HV) as (V' & lv & EVl & Hlv).
      unfold reach. rewrite Ev, En. fold prm.
      split. { rewrite app_length, rev_length. unfold t_d, t_body, t_vbytes. rewrite Ev, En, Hi. rewrite !app_length. unfold nnat. lia. }
      split. { rewrite EVl. replace (t_g1 t ++ (n0 :: name) ++ g2 ++ (61 : byte) :: g3 ++ V' ++ [lv]) with ((t_g1 t ++ (n0 :: name) ++ g2 ++ (61 : byte) :: g3 ++ V') ++ [lv])
                 by (repeat (rewrite <- ?app_assoc; cbn [app]); reflexivity). apply span_last. exact Hlv. }
      split; [apply Zn|].
      split; [unfold t_e; rewrite En; cbn [length]; unfold nnat; lia|]. split; [lia|]. split; [exact Hprm|]. split; [unfold t_e in *; lia|]. split; [unfold t_e, t_a in *; lia|].
      split; [|unfold nnat in *; lia].
      exists (rev pre ++ t_g1 t ++ (n0 :: name) ++ g2 ++ (61 : byte) :: g3), []. split; [rewrite rev_app_distr, rev_involutive, app_nil_r; repeat (rewrite <- ?app_assoc; cbn [app]); reflexivity|].
      split; [|lia]. rewrite <- Ec. unfold t_e, t_a. rewrite En. repeat (rewrite app_length; cbn [length]). rewrite rev_length. unfold nnat in *. lia.
    - rewrite app_nil_r in *. rewrite <- app_assoc.
      rewrite (seg_name b pre (t_g1 t) n0 name _ i (fb_params b) Hg1 Hn0 Hname Hpos). fold (t_a i t). fold prm.
      assert (Ed : t_a i t + nnat (length (n0 :: name)) = t_d i t).
      { unfold t_d, t_body, t_vbytes, t_a. rewrite Ev, En, app_nil_r, app_length. unfold nnat. lia. }
      rewrite Ed. split; [reflexivity|]. unfold reach. rewrite Ev, En. fold prm.
      assert (Ee : t_e i t = t_d i t) by (rewrite <- Ed; unfold t_e; rewrite En; reflexivity).
      split. { rewrite app_length, rev_length. unfold t_d, t_body, t_vbytes. rewrite Ev, En, Hi, app_nil_r. unfold nnat. lia. }
      split. { rewrite ENl, app_assoc. apply span_last. exact Hln. }
      split; [specialize (Zn []); rewrite app_nil_r in Zn; exact Zn|].
      split; [unfold t_e; rewrite En; cbn [length]; unfold nnat; lia|]. split; [lia|]. split; [exact Hprm|]. split; [unfold t_e in *; lia|]. split; [unfold t_e, t_a in *; lia|exact Ee].
  Qed.

  Lemma pclr_fields X : fb_state (pclr X) = fb_state X /\ fb_pstart (pclr X) = 0 /\ fb_pend (pclr X) = 0 /\ fb_vstart (pclr X) = 0 /\ fb_vend (pclr X) = 0.
  Proof. destruct X; cbn; auto. Qed.
  Lemma t_apply_base i t b j : isbase i b -> t_a i t <= j -> i <= j -> (po (prm1 (fb_params b) (t_a i t)) <= j) ->
    isbase j (t_apply p i t b) /\ fb_v (t_apply p i t b) = fb_v b /\ fb_params (t_apply p i t b) = prm1 (fb_params b) (t_a i t).
  Proof.
    intros Hb Ha Hij Hp. unfold t_apply. destruct (t_val t) as [[[g2 g3] V]|].
    - destruct (frame_v (t_name t) V b NP (t_a i t) (t_e i t) (t_c i t) (t_d i t) (prm1 (fb_params b) (t_a i t))) as [F1 F2].
      destruct (apply_param_frame (t_name t) V (W b NP (t_a i t) (t_e i t) (t_c i t) (t_d i t) (prm1 (fb_params b) (t_a i t)))) as (_ & _ & F3).
      fold NP. set (X := apply_param _ _ _) in *. destruct (pclr_fields X) as (P1 & P2 & P3 & P4 & P5).
      split; [|split; assumption]. unfold isbase. rewrite P1, F3, F1, F2. destruct Hb as (_ & _ & _ & _ & _ & _ & Hv). repeat split; auto; lia.
    - destruct (frame_n (t_name t) b NP (t_a i t) (t_e i t) (prm1 (fb_params b) (t_a i t))) as [F1 F2].
      destruct (apply_flag_frame (t_name t) (W b NP (t_a i t) (t_e i t) 0 0 (prm1 (fb_params b) (t_a i t)))) as (_ & _ & F3).
      fold NP. set (X := apply_flag _ _) in *. destruct (pclr_fields X) as (P1 & P2 & P3 & P4 & P5).
      split; [|split; assumption]. unfold isbase. rewrite P1, F3, F1, F2. destruct Hb as (_ & _ & _ & _ & _ & _ & Hv). repeat split; auto; lia.
  Qed.

  Definition t_bytes (t : pit) : list byte := t_body t ++ t_g4 t ++ [(59 : byte)].
  Lemma item_semi b (pre y : list byte) t i : t_ok t -> isbase i b -> i = nnat (length pre) -> 0 < i ->
    let j := i + nnat (length (t_bytes t)) in
    run it pre (t_bytes t ++ y) i 0 b = run it (rev (t_bytes t) ++ pre) y j 0 (t_apply p i t b) /\ isbase j (t_apply p i t b) /\ fb_v (t_apply p i t b) = fb_v b.
  Proof.
    intros Hok Hb Hi Hpos j.
    destruct (item_reach b pre t (t_g4 t ++ (59 : byte) :: y) i Hok Hb Hi Hpos) as [Hrun (R1 & R2 & R3 & R4 & R5 & R6 & R7 & R8 & R9)].
    assert (Ej : j = t_d i t + nnat (length (t_g4 t)) + 1) by (subst j; unfold t_bytes, t_d; rewrite !app_length; cbn [length]; unfold nnat; lia).
    assert (Etxt : t_bytes t ++ y = t_body t ++ t_g4 t ++ (59 : byte) :: y) by (unfold t_bytes; rewrite <- !app_assoc; reflexivity).
    assert (Epre : (59 : byte) :: rev (t_g4 t) ++ rev (t_body t) ++ pre = rev (t_bytes t) ++ pre).
    { unfold t_bytes. rewrite !rev_app_distr. cbn [rev app]. rewrite <- !app_assoc. reflexivity. }
    destruct Hok as (_ & _ & _ & Hg4).
    split; [|destruct (t_apply_base i t b j Hb ltac:(lia) ltac:(unfold t_d in *; unfold nnat in *; lia) ltac:(lia)) as (A1 & A2 & _); split; assumption].
    rewrite Etxt, Hrun. unfold t_apply. destruct (t_val t) as [[[g2 g3] V]|].
    - destruct R9 as [R9 R10]. rewrite (end_semi_v b _ (t_g4 t) y (t_d i t) (t_a i t) (t_e i t) (t_c i t) _ (t_name t) V Hg4 R1 R3 R9 R4 R10).
      rewrite Epre, <- Ej. reflexivity.
    - rewrite <- R9. rewrite (end_semi_n b _ (t_g4 t) y (t_e i t) (t_a i t) _ (t_name t) Hg4 ltac:(rewrite R9; exact R1) R3 R4).
      rewrite Epre, R9, <- Ej. reflexivity.
  Qed.

  (* ---- the parameters but the last: each closed by the ";" of the next ----------------------------------------------------------------- *)
  Fixpoint its_state (i : N) (L : list pit) (b : pfrom) : pfrom :=
    match L with [] => b | t :: L' => its_state (i + nnat (length (t_bytes t))) L' (t_apply p i t b) end.
  Definition its_bytes (L : list pit) : list byte := flat_map t_bytes L.
  Lemma its_run : forall L b (pre y : list byte) i, Forall t_ok L -> isbase i b -> i = nnat (length pre) -> 0 < i ->
    let j := i + nnat (length (its_bytes L)) in
    run it pre (its_bytes L ++ y) i 0 b = run it (rev (its_bytes L) ++ pre) y j 0 (its_state i L b) /\ isbase j (its_state i L b) /\ fb_v (its_state i L b) = fb_v b.
  Proof.
    induction L as [|t L IH]; intros b pre y i HL Hb Hi Hpos j.
    - subst j. cbn [its_bytes flat_map app rev length its_state]. replace (i + nnat 0) with i by (unfold nnat; lia). auto.
    - pose proof (Forall_inv HL) as Ht. pose proof (Forall_inv_tail HL) as HL'. cbn [its_bytes flat_map its_state]. fold (its_bytes L). rewrite <- app_assoc.
      destruct (item_semi b pre (its_bytes L ++ y) t i Ht Hb Hi Hpos) as (E1 & B1 & V1). rewrite E1.
      assert (Hi' : i + nnat (length (t_bytes t)) = nnat (length (rev (t_bytes t) ++ pre))) by (rewrite app_length, rev_length, Hi; unfold nnat; lia).
      destruct (IH (t_apply p i t b) _ y _ HL' B1 Hi' ltac:(lia)) as (E2 & B2 & V2). rewrite E2.
      assert (Ej : i + nnat (length (t_bytes t)) + nnat (length (its_bytes L)) = j) by (subst j; cbn [its_bytes flat_map]; rewrite app_length; unfold its_bytes, nnat; lia).
      rewrite Ej in *. split; [|split; [exact B2|congruence]]. f_equal. rewrite rev_app_distr, <- app_assoc. reflexivity.
  Qed.

  (* ---- the whole parameter part --------------------------------------------------------------------------------------------------------- *)
  Theorem params_eol L t b (pre sp : list byte) x tail i : Forall t_ok L -> t_ok t -> isbase i b -> i = nnat (length pre) -> 0 < i ->
    spaces sp -> is_sp x = false ->
    let j := i + nnat (length (its_bytes L)) in
    run it pre (its_bytes L ++ t_body t ++ sp ++ CR :: LF :: x :: tail) i 0 b
    = Done (t_d j t + nnat (length sp) + 2) EOk (finW h (t_d j t) (t_apply p j t (its_state i L b))).
  Proof.
    intros HL Ht Hb Hi Hpos Hsp Hx j.
    destruct (its_run L b pre (t_body t ++ sp ++ CR :: LF :: x :: tail) i HL Hb Hi Hpos) as (E1 & B1 & _). fold j in E1, B1. rewrite E1.
    assert (Hj : j = nnat (length (rev (its_bytes L) ++ pre))) by (subst j; rewrite app_length, rev_length, Hi; unfold nnat; lia).
    destruct (item_reach (its_state i L b) _ t (sp ++ CR :: LF :: x :: tail) j Ht B1 Hj ltac:(lia)) as [Hrun (R1 & R2 & R3 & R4 & R5 & R6 & R7 & R8 & R9)].
    rewrite Hrun. unfold t_apply. destruct (t_val t) as [[[g2 g3] V]|].
    - destruct R9 as [R9 R10]. exact (end_eol_v _ _ sp x tail _ _ _ _ _ (t_name t) V Hsp Hx R1 R3 R9 R4 R10 R7 R8 R6).
    - rewrite <- R9 in *. exact (end_eol_n _ _ sp x tail _ _ _ (t_name t) Hsp Hx R1 R3 R4 R7 R8 R6).
  Qed.
  Theorem params_comma L t b (pre y : list byte) i : multipleValsOk h = true -> Forall t_ok L -> t_ok t -> isbase i b -> i = nnat (length pre) -> 0 < i ->
    let j := i + nnat (length (its_bytes L)) in
    run it pre (its_bytes L ++ t_body t ++ t_g4 t ++ (44 : byte) :: y) i 0 b
    = Done (t_d j t + nnat (length (t_g4 t)) + 1) EMoreValues (finW h (t_d j t) (t_apply p j t (its_state i L b))).
  Proof.
    intros Hmv HL Ht Hb Hi Hpos j.
    destruct (its_run L b pre (t_body t ++ t_g4 t ++ (44 : byte) :: y) i HL Hb Hi Hpos) as (E1 & B1 & _). fold j in E1, B1. rewrite E1.
    assert (Hj : j = nnat (length (rev (its_bytes L) ++ pre))) by (subst j; rewrite app_length, rev_length, Hi; unfold nnat; lia).
    destruct (item_reach (its_state i L b) _ t (t_g4 t ++ (44 : byte) :: y) j Ht B1 Hj ltac:(lia)) as [Hrun (R1 & R2 & R3 & R4 & R5 & R6 & R7 & R8 & R9)].
    rewrite Hrun. destruct Ht as (_ & _ & _ & Hg4). unfold t_apply. destruct (t_val t) as [[[g2 g3] V]|].
    - destruct R9 as [R9 R10]. exact (end_comma_v _ _ (t_g4 t) y _ _ _ _ _ (t_name t) V Hmv R2 Hg4 R1 R3 R9 R4 R10 R7 R8 R6).
    - rewrite <- R9 in *. exact (end_comma_n _ _ (t_g4 t) y _ _ _ (t_name t) Hmv R2 Hg4 R1 R3 R4 R7 R8 R6).
  Qed.
End Gen.

(* ---- what precedes the parameters ------------------------------------------------------------------------------------------------------ *)
Section Heads.
  Variable h : N.
  Let it := fb_iter h.
  Lemma g_lws (pre w : list byte) c (y : list byte) i s s1 : (forall c0 r, is_ws c0 = true -> it pre (c0 :: r) i s = fb_lws h pre (c0 :: r) i s1) ->
    wsr w -> is_ws c = false -> run it pre (w ++ c :: y) i 0 s = run it (rev w ++ pre) (c :: y) (i + nnat (length w)) 0 s1.
  Proof.
    intros H Hw Hc. destruct (wsr_head w Hw) as (c0 & w' & Ew & Hc0).
    apply run_step; [rewrite Ew; discriminate|]. rewrite Ew at 1. cbn [app]. rewrite (H c0 _ Hc0). unfold fb_lws.
    change (c0 :: w' ++ c :: y) with ((c0 :: w') ++ c :: y). rewrite <- Ew. rewrite (wsr_skip w c y Hw Hc). reflexivity.
  Qed.

  (* "<" uri ">" [LWS] ";" *)
  Definition bA (i0 lu : N) : pfrom := mkpfrom pf0 (mkpf (i0 + 1) lu) pf0 false false false 0 0 0 pf0 (mkpf i0 (lu + 2)) EOk 0 FbNewParam 0 0 0 0 0.
  Definition headA (uri g : list byte) : list byte := (60 : byte) :: uri ++ (62 : byte) :: g ++ [(59 : byte)].
  Lemma headA_run (pre0 uri g y : list byte) i0 : Forall uchar uri -> gp g -> i0 = nnat (length pre0) ->
    run it pre0 (headA uri g ++ y) i0 0 pfrom0 = run it (rev (headA uri g) ++ pre0) y (i0 + nnat (length (headA uri g))) 0 (bA i0 (nnat (length uri))).
  Proof.
    intros Hu Hg Hi. unfold headA. repeat (rewrite <- ?app_assoc; cbn [app]).
    set (s1 := mkpfrom pf0 pf0 pf0 false false false 0 0 0 pf0 (mkpf i0 0) EOk 0 FbURI (i0 + 1) 0 0 0 0).
    rewrite (run_one it pre0 60 _ i0 pfrom0 s1).
    2:{ unfold it, fb_iter. cbn [fb_state pfrom0]. unfold fb_step, fb_gA. change (ccls_of 60) with KLt. cbn [is_st_init]. unfold pf_set.
        replace (i0 <? i0) with false by lia. replace (i0 - i0) with 0 by lia. reflexivity. }
    rewrite (run_selfloop it uchar s1 ltac:(intros p c r j Hc; apply uri_loop; [reflexivity|exact Hc]) uri _ _ (i0 + 1) Hu).
    set (lu := nnat (length uri)). set (i1 := i0 + 1 + lu).
    set (s2 := mkpfrom pf0 (mkpf (i0 + 1) lu) pf0 false false false 0 0 0 pf0 (mkpf i0 (lu + 2)) EOk 0 FbURIFound (i0 + 1) 0 0 0 0).
    rewrite (run_one it _ 62 _ i1 s1 s2).
    2:{ unfold it, fb_iter. cbn [fb_state s1]. unfold fb_step, fb_gURI. change (ccls_of 62) with KGt. unfold pf_set, pf_extend. cbn [fb_soffs fb_v s1 po pl].
        replace (i1 <? i0 + 1) with false by (subst i1; lia). replace (i1 + 1 <? i0) with false by (subst i1; lia).
        replace (i1 - (i0 + 1)) with lu by (subst i1; lia). replace (i1 + 1 - i0) with (lu + 2) by (subst i1; lia). reflexivity. }
    match goal with |- run it ?P _ ?I 0 s2 = _ =>
      assert (Eg : run it P (g ++ (59 : byte) :: y) I 0 s2 = run it (rev g ++ P) ((59 : byte) :: y) (I + nnat (length g)) 0 s2) end.
    { destruct Hg as [->|Hw]; [cbn [app rev length]; f_equal; unfold nnat; lia|].
      apply (g_lws _ g 59 y _ s2 s2); [|exact Hw|reflexivity]. intros c0 r Hc0. apply ws_class in Hc0.
      unfold it, fb_iter. cbn [fb_state s2]. unfold fb_step, fb_gURIFound. rewrite Hc0. reflexivity. }
    rewrite Eg. rewrite (run_one it _ 59 y _ s2 (bA i0 lu)) by reflexivity.
    f_equal.
    - repeat (rewrite ?rev_app_distr; cbn [rev]). repeat (rewrite <- ?app_assoc; cbn [app]). reflexivity.
    - subst i1 lu. cbn [length]. repeat (rewrite app_length; cbn [length]). unfold nnat. lia.
  Qed.
  Lemma bA_base i0 lu j : i0 <= j -> isbase false j (bA i0 lu).
  Proof. intros H. unfold isbase, bA. cbn. repeat split; auto; lia. Qed.

  (* bare URI [LWS] ";": the parameters are header parameters too (the twin states) *)
  Definition isnilb (g : list byte) : bool := match g with [] => true | _ => false end.
  Definition bB (i0 lu : N) (g : list byte) : pfrom :=
    mkpfrom pf0 (mkpf i0 lu) pf0 false false false 0 0 0 pf0 (mkpf i0 (if isnilb g then lu + 1 else lu)) EOk 0 FbNewPossibleParam
            (if isnilb g then i0 + lu + 1 else i0) 0 0 0 0.
  Definition headB (n0 : byte) (name g : list byte) : list byte := (n0 :: name) ++ g ++ [(59 : byte)].
  Lemma headB_run (pre0 : list byte) n0 (name g y : list byte) i0 : nchar0 n0 -> Forall nchar name -> gp g -> i0 = nnat (length pre0) ->
    run it pre0 (headB n0 name g ++ y) i0 0 pfrom0
    = run it (rev (headB n0 name g) ++ pre0) y (i0 + nnat (length (headB n0 name g))) 0 (bB i0 (nnat (length (n0 :: name))) g).
  Proof.
    intros Hn0 Hname Hg Hi. unfold headB. repeat (rewrite <- ?app_assoc; cbn [app]).
    set (s1 := mkpfrom pf0 pf0 pf0 false false false 0 0 0 pf0 (mkpf i0 0) EOk 0 FbNameOrURI i0 0 0 0 0).
    rewrite (run_one it pre0 n0 _ i0 pfrom0 s1).
    2:{ unfold it, fb_iter. cbn [fb_state pfrom0]. unfold fb_step, fb_gA, nchar0 in *. cbn [is_st_init]. unfold pf_set.
        replace (i0 <? i0) with false by lia. replace (i0 - i0) with 0 by lia. destruct (ccls_of n0); try contradiction; reflexivity. }
    rewrite (run_selfloop it nchar s1 ltac:(intros p c r j Hc; apply name_loop; [reflexivity|exact Hc]) name _ _ (i0 + 1) Hname).
    set (lu := nnat (length (n0 :: name))). set (i1 := i0 + 1 + nnat (length name)).
    assert (Ei1 : i1 = i0 + lu) by (subst i1 lu; cbn [length]; unfold nnat; lia).
    destruct Hg as [->|Hw].
    - cbn [app rev length]. rewrite (run_one it _ 59 y i1 s1 (bB i0 lu [])).
      + f_equal; [repeat (rewrite ?rev_app_distr; cbn [rev]); repeat (rewrite <- ?app_assoc; cbn [app]); reflexivity|].
        subst i1. repeat (rewrite app_length; cbn [length]). unfold nnat. lia.
      + unfold it, fb_iter. cbn [fb_state s1]. unfold fb_step, fb_gA. change (ccls_of 59) with KSemi. cbn [is_st_nameoruri]. unfold pf_set, pf_extend. cbn [fb_soffs fb_v s1 po pl].
        replace (i1 <? i0) with false by lia. replace (i1 + 1 <? i0) with false by lia. unfold bB. cbn [isnilb].
        replace (i1 - i0) with lu by lia. replace (i1 + 1 - i0) with (lu + 1) by lia. replace (i1 + 1) with (i0 + lu + 1) by lia. reflexivity.
    - set (s2 := mkpfrom pf0 (mkpf i0 lu) pf0 false false false 0 0 0 pf0 (mkpf i0 lu) EOk 0 FbNameOrURIEnd i0 0 0 0 0).
      rewrite (g_lws _ g 59 y i1 s1 s2); [|intros c0 r Hc0|exact Hw|reflexivity].
      2:{ apply ws_class in Hc0. unfold it, fb_iter. cbn [fb_state s1]. unfold fb_step, fb_gA. rewrite Hc0. cbn [is_st_nameoruri]. unfold pf_set, pf_extend. cbn [fb_soffs fb_v s1 po pl].
          replace (i1 <? i0) with false by lia. replace (i1 - i0) with lu by lia. reflexivity. }
      assert (Eb : bB i0 lu g = mkpfrom pf0 (mkpf i0 lu) pf0 false false false 0 0 0 pf0 (mkpf i0 lu) EOk 0 FbNewPossibleParam i0 0 0 0 0).
      { destruct (wsr_head g Hw) as (c0 & w' & -> & _). reflexivity. }
      rewrite (run_one it _ 59 y _ s2 (bB i0 lu g)) by (rewrite Eb; reflexivity).
      f_equal; [repeat (rewrite ?rev_app_distr; cbn [rev]); repeat (rewrite <- ?app_assoc; cbn [app]); reflexivity|].
      subst i1. cbn [length]. rewrite !app_length. cbn [length]. unfold nnat. lia.
  Qed.
  Lemma bB_base i0 lu g j : i0 <= j -> isbase true j (bB i0 lu g).
  Proof. intros H. unfold isbase, bB. cbn. repeat split; auto; lia. Qed.

  (* ---- the theorems: value = head, parameters; ended by the end of the line or by a comma ------------------------------------------------ *)
  Theorem nameaddr_bracket_params_eol (junk uri g : list byte) L t (sp : list byte) x tail : Forall uchar uri -> gp g -> Forall t_ok L -> t_ok t -> spaces sp -> is_sp x = false ->
    let i0 := nnat (length junk) in let i := i0 + nnat (length (headA uri g)) in let j := i + nnat (length (its_bytes L)) in
    parse_nameaddr h (junk ++ headA uri g ++ its_bytes L ++ t_body t ++ sp ++ CR :: LF :: x :: tail) i0 pfrom0
    = Done (t_d j t + nnat (length sp) + 2) EOk (finW h (t_d j t) (t_apply false j t (its_state false i L (bA i0 (nnat (length uri)))))).
  Proof.
    intros Hu Hg HL Ht Hsp Hx i0 i j. unfold parse_nameaddr. rewrite parse_at. fold it.
    rewrite (headA_run (rev junk) uri g _ i0 Hu Hg ltac:(subst i0; rewrite rev_length; reflexivity)). fold i.
    apply (params_eol h false L t _ _ sp x tail i HL Ht); auto.
    - apply bA_base. subst i. lia.
    - subst i i0. rewrite app_length, !rev_length. unfold nnat. lia.
    - subst i. unfold headA. cbn [length]. unfold nnat. lia.
  Qed.
  Theorem nameaddr_bracket_params_comma (junk uri g : list byte) L t (y : list byte) : multipleValsOk h = true -> Forall uchar uri -> gp g -> Forall t_ok L -> t_ok t ->
    let i0 := nnat (length junk) in let i := i0 + nnat (length (headA uri g)) in let j := i + nnat (length (its_bytes L)) in
    parse_nameaddr h (junk ++ headA uri g ++ its_bytes L ++ t_body t ++ t_g4 t ++ (44 : byte) :: y) i0 pfrom0
    = Done (t_d j t + nnat (length (t_g4 t)) + 1) EMoreValues (finW h (t_d j t) (t_apply false j t (its_state false i L (bA i0 (nnat (length uri)))))).
  Proof.
    intros Hmv Hu Hg HL Ht i0 i j. unfold parse_nameaddr. rewrite parse_at. fold it.
    rewrite (headA_run (rev junk) uri g _ i0 Hu Hg ltac:(subst i0; rewrite rev_length; reflexivity)). fold i.
    apply (params_comma h false L t _ _ y i Hmv HL Ht); auto.
    - apply bA_base. subst i. lia.
    - subst i i0. rewrite app_length, !rev_length. unfold nnat. lia.
    - subst i. unfold headA. cbn [length]. unfold nnat. lia.
  Qed.
  Theorem nameaddr_bare_params_eol (junk : list byte) n0 (name g : list byte) L t (sp : list byte) x tail : nchar0 n0 -> Forall nchar name -> gp g -> Forall t_ok L -> t_ok t -> spaces sp -> is_sp x = false ->
    let i0 := nnat (length junk) in let i := i0 + nnat (length (headB n0 name g)) in let j := i + nnat (length (its_bytes L)) in
    parse_nameaddr h (junk ++ headB n0 name g ++ its_bytes L ++ t_body t ++ sp ++ CR :: LF :: x :: tail) i0 pfrom0
    = Done (t_d j t + nnat (length sp) + 2) EOk (finW h (t_d j t) (t_apply true j t (its_state true i L (bB i0 (nnat (length (n0 :: name))) g)))).
  Proof.
    intros Hn0 Hname Hg HL Ht Hsp Hx i0 i j. unfold parse_nameaddr. rewrite parse_at. fold it.
    rewrite (headB_run (rev junk) n0 name g _ i0 Hn0 Hname Hg ltac:(subst i0; rewrite rev_length; reflexivity)). fold i.
    apply (params_eol h true L t _ _ sp x tail i HL Ht); auto.
    - apply bB_base. subst i. lia.
    - subst i i0. rewrite app_length, !rev_length. unfold nnat. lia.
    - subst i. unfold headB. cbn [length app]. unfold nnat. lia.
  Qed.
  Theorem nameaddr_bare_params_comma (junk : list byte) n0 (name g : list byte) L t (y : list byte) : multipleValsOk h = true -> nchar0 n0 -> Forall nchar name -> gp g -> Forall t_ok L -> t_ok t ->
    let i0 := nnat (length junk) in let i := i0 + nnat (length (headB n0 name g)) in let j := i + nnat (length (its_bytes L)) in
    parse_nameaddr h (junk ++ headB n0 name g ++ its_bytes L ++ t_body t ++ t_g4 t ++ (44 : byte) :: y) i0 pfrom0
    = Done (t_d j t + nnat (length (t_g4 t)) + 1) EMoreValues (finW h (t_d j t) (t_apply true j t (its_state true i L (bB i0 (nnat (length (n0 :: name))) g)))).
  Proof.
    intros Hmv Hn0 Hname Hg HL Ht i0 i j. unfold parse_nameaddr. rewrite parse_at. fold it.
    rewrite (headB_run (rev junk) n0 name g _ i0 Hn0 Hname Hg ltac:(subst i0; rewrite rev_length; reflexivity)). fold i.
    apply (params_comma h true L t _ _ y i Hmv HL Ht); auto.
    - apply bB_base. subst i. lia.
    - subst i i0. rewrite app_length, !rev_length. unfold nnat. lia.
    - subst i. unfold headB. cbn [length app]. unfold nnat. lia.
  Qed.
End Heads.

(* ---- reading the result: the parameters leave the display name, the URI and the star flag alone; the parameter span starts at the first name -- *)
Definition unview (s : pfrom) := (fb_name s, fb_uri s, fb_star s).
Lemma apply_param_un N V s : unview (apply_param N V s) = unview s.
Proof.
  unfold apply_param. destruct (eqb_nocase N str_tag); [destruct s; reflexivity|]. destruct (eqb_nocase N str_expires); [destruct s; reflexivity|].
  destruct (eqb_nocase N str_q).
  - unfold set_q. cbv zeta. destruct (_ <=? 4)%nat; [|destruct s; reflexivity].
    destruct (pUInt64Val _) as [u e1]. destruct (match e1 with EOk => _ | _ => _ end) as [dd e2].
    destruct e2; try (destruct s; reflexivity). destruct (_ || _); destruct s; reflexivity.
  - destruct (eqb_nocase N str_lr); destruct s; reflexivity.
Qed.
Lemma t_apply_un p i t b : unview (t_apply p i t b) = unview b.
Proof.
  unfold t_apply. destruct (t_val t) as [[[g2 g3] V]|].
  - match goal with |- unview (pclr ?X) = _ => transitivity (unview X); [destruct X; reflexivity|] end. rewrite apply_param_un. reflexivity.
  - unfold apply_flag. destruct (eqb_nocase _ _); reflexivity.
Qed.
Lemma its_state_un p : forall L i b, unview (its_state p i L b) = unview b.
Proof. induction L as [|t L IH]; intros i b; [reflexivity|]. cbn [its_state]. rewrite IH. apply t_apply_un. Qed.
Lemma t_apply_params p i t b : fb_params (t_apply p i t b) = prm1 (fb_params b) (t_a i t) /\ fb_v (t_apply p i t b) = fb_v b.
Proof.
  unfold t_apply. destruct (t_val t) as [[[g2 g3] V]|]; [apply frame_v|apply frame_n].
Qed.
Definition first_a (i : N) (L : list pit) (t : pit) : N := match L with [] => t_a i t | t1 :: _ => t_a i t1 end.
Lemma its_params p t : forall L i b, 0 < i ->
  po (fb_params (t_apply p (i + nnat (length (its_bytes L))) t (its_state p i L b))) = (if po (fb_params b) =? 0 then first_a i L t else po (fb_params b)) /\
  fb_v (t_apply p (i + nnat (length (its_bytes L))) t (its_state p i L b)) = fb_v b.
Proof.
  induction L as [|t1 L IH]; intros i b Hi.
  - cbn [its_bytes flat_map length its_state first_a]. replace (i + nnat 0) with i by (unfold nnat; lia).
    destruct (t_apply_params p i t b) as [-> ->]. split; [|reflexivity]. unfold prm1. destruct (po (fb_params b) =? 0); reflexivity.
  - cbn [its_bytes flat_map its_state first_a]. fold (its_bytes L). rewrite app_length.
    replace (i + nnat (length (t_bytes t1) + length (its_bytes L))) with (i + nnat (length (t_bytes t1)) + nnat (length (its_bytes L))) by (unfold nnat; lia).
    destruct (IH (i + nnat (length (t_bytes t1))) (t_apply p i t1 b) ltac:(lia)) as [-> ->].
    destruct (t_apply_params p i t1 b) as [-> ->]. split; [|reflexivity]. unfold prm1.
    destruct (po (fb_params b) =? 0) eqn:E; cbn [po]; [|rewrite E; reflexivity]. replace (t_a i t1 =? 0) with false by (unfold t_a; lia). reflexivity.
Qed.
(* the fields of the finished value that do not depend on what the parameters say *)
Theorem gen_result_fields h p L t i b d : 0 < i -> po (fb_params b) = 0 ->
  let j := i + nnat (length (its_bytes L)) in
  let s' := finW h d (t_apply p j t (its_state p i L b)) in
  fb_state s' = FbFIN /\ fb_type s' = h /\ fb_name s' = fb_name b /\ fb_uri s' = fb_uri b /\ fb_star s' = fb_star b /\
  fb_params s' = mkpf (first_a i L t) (d - first_a i L t) /\ fb_v s' = mkpf (po (fb_v b)) (d - po (fb_v b)).
Proof.
  intros Hi Hp j s'. subst s'. cbn [finW fb_state fb_type fb_name fb_uri fb_star fb_params fb_v].
  pose proof (t_apply_un p j t (its_state p i L b)) as U. rewrite its_state_un in U. unfold unview in U. injection U as U1 U2 U3.
  destruct (its_params p t L i b Hi) as [P1 P2]. fold j in P1, P2. rewrite Hp in P1. cbn [N.eqb] in P1. rewrite P1, P2. repeat split; assumption || reflexivity.
Qed.

(* ---- display names: token words or a quoted string, then more words, in front of the bracketed URI ---------------------------------------- *)
Section Disp.
  Variable h : N.
  Notation it := (fb_iter h).
  Lemma nchar_nonws c : nchar c -> is_ws c = false.
  Proof. unfold nchar, ccls_of. destruct (is_ws c); [contradiction|reflexivity]. Qed.
  (* what may follow the first word or the quoted string: words and white space (the parser is then in its display-name state) *)
  Inductive ntail : list byte -> Prop :=
  | nt_nil : ntail []
  | nt_c c T : nchar c -> ntail T -> ntail (c :: T)
  | nt_w w : wsr w -> ntail w
  | nt_wc w c T : wsr w -> nchar c -> ntail T -> ntail (w ++ c :: T).
  Lemma name_step s (pre : list byte) c r i : fb_state s = FbName -> nchar c -> it pre (c :: r) i s = Next 1 s.
  Proof. intros Hs Hc. unfold fb_iter. rewrite Hs. unfold fb_step, fb_gA, nchar in *. cbn [is_st_init is_st_nameoruriend]. destruct (ccls_of c); try contradiction; reflexivity. Qed.
  Lemma name_ws s (pre : list byte) c0 r i : fb_state s = FbName -> is_ws c0 = true -> it pre (c0 :: r) i s = fb_lws h pre (c0 :: r) i s.
  Proof. intros Hs Hc. apply ws_class in Hc. unfold fb_iter. rewrite Hs. unfold fb_step, fb_gA. rewrite Hc. reflexivity. Qed.
  Lemma ntail_run T : ntail T -> forall s (pre y : list byte) i, fb_state s = FbName ->
    run it pre (T ++ (60 : byte) :: y) i 0 s = run it (rev T ++ pre) ((60 : byte) :: y) (i + nnat (length T)) 0 s.
  Proof.
    induction 1 as [|c T Hc _ IH|w Hw|w c T Hw Hc _ IH]; intros s pre y i Hs.
    - cbn [app rev length]. f_equal. unfold nnat. lia.
    - cbn [app]. rewrite (run_one it pre c _ i s s (name_step s pre c _ i Hs Hc)). rewrite IH by exact Hs. cbn [rev length]. rewrite <- app_assoc. cbn [app]. f_equal. unfold nnat. lia.
    - apply (g_lws h pre w 60 y i s s); [intros c0 r Hc0; apply name_ws; assumption|exact Hw|reflexivity].
    - rewrite <- app_assoc. cbn [app]. rewrite (g_lws h pre w c (T ++ (60 : byte) :: y) i s s); [|intros c0 r Hc0; apply name_ws; assumption|exact Hw|apply nchar_nonws; exact Hc].
      rewrite (run_one it _ c _ _ s s (name_step s _ c _ _ Hs Hc)). rewrite IH by exact Hs.
      rewrite rev_app_distr. cbn [rev]. rewrite <- !app_assoc. cbn [app]. rewrite app_length. cbn [length]. f_equal. unfold nnat. lia.
  Qed.

  (* the display part in front of "<" *)
  Inductive disp : list byte -> Prop :=
  | d_none : disp []
  | d_word n0 name : nchar0 n0 -> Forall nchar name -> disp (n0 :: name)
  | d_word_ws n0 name w : nchar0 n0 -> Forall nchar name -> wsr w -> disp ((n0 :: name) ++ w)
  | d_words n0 name w c T : nchar0 n0 -> Forall nchar name -> wsr w -> nchar0 c -> ntail T -> disp ((n0 :: name) ++ w ++ c :: T)
  | d_quoted q T : fqc q -> ntail T -> disp ((34 : byte) :: q ++ (34 : byte) :: T).
  Definition dname (i0 : N) (D : list byte) : pf := if isnilb D then pf0 else mkpf i0 (nnat (length D)).
  Definition SU (nm : pf) (i0 vl us : N) : pfrom := mkpfrom nm pf0 pf0 false false false 0 0 0 pf0 (mkpf i0 vl) EOk 0 FbURI us 0 0 0 0.
  Lemma lt_step s (pre : list byte) r i : fb_state s = FbName \/ fb_state s = FbNameOrURI \/ fb_state s = FbNameOrURIEnd -> fb_soffs s <= i ->
    it pre ((60 : byte) :: r) i s = Next 1 (fb_reset3 (s <| fb_name := mkpf (fb_soffs s) (i - fb_soffs s) |>) <| fb_soffs := i + 1 |> <| fb_state := FbURI |>).
  Proof.
    intros Hs Hle. unfold fb_iter. destruct Hs as [Hs|[Hs|Hs]]; rewrite Hs; unfold fb_step, fb_gA; change (ccls_of 60) with KLt; cbn [is_st_init]; unfold pf_set;
      replace (i <? fb_soffs s) with false by lia; reflexivity.
  Qed.
  Lemma fqc_run_name q : fqc q -> forall s (pre y : list byte) i, fb_state s = FbQuoted ->
    run it pre (q ++ (34 : byte) :: y) i 0 s = run it ((34 : byte) :: rev q ++ pre) y (i + nnat (length q) + 1) 0 (s <| fb_state := FbName |>).
  Proof.
    induction 1 as [|c q C1 C2 C3 _ IH|d q Hd _ IH|w q Hw _ IH Hq]; intros s pre y i Hs.
    4:{ assert (Hws : forall c0 r, is_ws c0 = true -> it pre (c0 :: r) i s = fb_lws h pre (c0 :: r) i s).
        { intros c0 r Hc0. apply ws_class in Hc0. unfold fb_iter. rewrite Hs. unfold fb_step, fb_gQ. rewrite Hc0. reflexivity. }
        assert (G : run it pre ((w ++ q) ++ (34 : byte) :: y) i 0 s = run it (rev w ++ pre) (q ++ (34 : byte) :: y) (i + nnat (length w)) 0 s).
        { rewrite <- app_assoc. destruct Hq as [->|(c & q' & -> & Hc)]; cbn [app].
          - apply (g_lws_ws h pre w 34 y i s s Hws Hw eq_refl).
          - apply (g_lws_ws h pre w c (q' ++ (34 : byte) :: y) i s s Hws Hw Hc). }
        rewrite G, IH by exact Hs. rewrite rev_app_distr, <- app_assoc, app_length. f_equal. unfold nnat. lia. }
    - cbn [app rev length]. rewrite (run_one it pre 34 y i s (s <| fb_state := FbName |>)); [f_equal; unfold nnat; lia|].
      unfold fb_iter. rewrite Hs. unfold fb_step, fb_gQ. reflexivity.
    - cbn [app]. rewrite (run_one it pre c _ i s s); [|unfold fb_iter; rewrite Hs; unfold fb_step, fb_gQ; destruct (ccls_of c); try congruence; reflexivity].
      rewrite IH by exact Hs. cbn [rev length]. rewrite <- app_assoc. cbn [app]. f_equal. unfold nnat. lia.
    - change ((92 :: d :: q) ++ (34 : byte) :: y) with ([92; d] ++ (q ++ (34 : byte) :: y)).
      rewrite (run_step it pre [92; d] _ i s s ltac:(discriminate)); [|cbn [app length]; unfold fb_iter; rewrite Hs; unfold fb_step, fb_gQ; change (ccls_of 92) with KBsl; cbv iota; rewrite Hd; reflexivity].
      rewrite IH by exact Hs. cbn [rev length app]. rewrite <- !app_assoc. cbn [app]. f_equal. unfold nnat. lia.
  Qed.
  Lemma run_eq3 (A A' y : list byte) (B B' : N) (S S' : pfrom) : A = A' -> B = B' -> S = S' -> run it A y B 0 S = run it A' y B' 0 S'.
  Proof. intros -> -> ->. reflexivity. Qed.
  Ltac lsteq := repeat (rewrite ?rev_app_distr; cbn [rev]); repeat (rewrite <- ?app_assoc; cbn [app]); reflexivity.
  Ltac fin_lia := unfold nnat; cbn [length]; rewrite ?app_length; cbn [length]; rewrite ?app_length; cbn [length]; lia.
  Ltac offeq := cbn [app]; repeat (cbn [length]; rewrite app_length); fin_lia.
  Ltac steq := unfold SU, dname; cbn [app isnilb]; cbv -[nnat N.add N.sub length app N.of_nat];
               f_equal; try reflexivity; try (f_equal; try reflexivity; fin_lia); try fin_lia.
  Lemma disp_run D : disp D -> forall (pre0 y : list byte) i0, i0 = nnat (length pre0) ->
    exists vl, run it pre0 (D ++ (60 : byte) :: y) i0 0 pfrom0
               = run it ((60 : byte) :: rev D ++ pre0) y (i0 + nnat (length D) + 1) 0 (SU (dname i0 D) i0 vl (i0 + nnat (length D) + 1)).
  Proof.
    intros HD pre0 y i0 Hi.
    set (s1 := mkpfrom pf0 pf0 pf0 false false false 0 0 0 pf0 (mkpf i0 0) EOk 0 FbNameOrURI i0 0 0 0 0).
    assert (Hfirst : forall n0 name z, nchar0 n0 -> Forall nchar name ->
              run it pre0 ((n0 :: name) ++ z) i0 0 pfrom0 = run it (rev (n0 :: name) ++ pre0) z (i0 + nnat (length (n0 :: name))) 0 s1).
    { intros n0 name z Hn0 Hname. cbn [app]. rewrite (run_one it pre0 n0 _ i0 pfrom0 s1).
      2:{ unfold fb_iter. cbn [fb_state pfrom0]. unfold fb_step, fb_gA, nchar0 in *. cbn [is_st_init]. unfold pf_set.
          replace (i0 <? i0) with false by lia. replace (i0 - i0) with 0 by lia. destruct (ccls_of n0); try contradiction; reflexivity. }
      rewrite (run_selfloop it nchar s1 ltac:(intros p c r j Hc; apply name_loop; [reflexivity|exact Hc]) name _ _ (i0 + 1) Hname).
      cbn [rev length]. rewrite <- app_assoc. cbn [app]. f_equal. unfold nnat. lia. }
    assert (Hws : forall n0 name w c z, wsr w -> is_ws c = false ->
              run it (rev (n0 :: name) ++ pre0) (w ++ c :: z) (i0 + nnat (length (n0 :: name))) 0 s1
              = run it (rev w ++ rev (n0 :: name) ++ pre0) (c :: z) (i0 + nnat (length (n0 :: name)) + nnat (length w)) 0
                  (mkpfrom pf0 (mkpf i0 (nnat (length (n0 :: name)))) pf0 false false false 0 0 0 pf0 (mkpf i0 (nnat (length (n0 :: name)))) EOk 0 FbNameOrURIEnd i0 0 0 0 0)).
    { intros n0 name w c z Hw Hc. apply (g_lws h _ w c z _ s1); [|exact Hw|exact Hc]. intros c0 r Hc0. apply ws_class in Hc0.
      unfold fb_iter. cbn [fb_state s1]. unfold fb_step, fb_gA. rewrite Hc0. cbn [is_st_nameoruri]. unfold pf_set, pf_extend. cbn [fb_soffs fb_v s1 po pl].
      replace (i0 + nnat (length (n0 :: name)) <? i0) with false by lia. replace (i0 + nnat (length (n0 :: name)) - i0) with (nnat (length (n0 :: name))) by lia. reflexivity. }
    destruct HD as [|n0 name Hn0 Hname|n0 name w Hn0 Hname Hw|n0 name w c T Hn0 Hname Hw Hc HT|q T Hq HT].
    - exists 0. cbn [app rev length]. replace (i0 + nnat 0 + 1) with (i0 + 1) by (unfold nnat; lia). rewrite (run_one it pre0 60 y i0 pfrom0 (SU pf0 i0 0 (i0 + 1))); [reflexivity|].
      unfold fb_iter. cbn [fb_state pfrom0]. unfold fb_step, fb_gA. change (ccls_of 60) with KLt. cbn [is_st_init]. unfold pf_set.
      replace (i0 <? i0) with false by lia. replace (i0 - i0) with 0 by lia. reflexivity.
    - exists 0. rewrite (Hfirst n0 name _ Hn0 Hname). match goal with |- run it ?P _ ?I 0 ?S = _ => rewrite (run_one it P 60 y I S _ (lt_step S P y I ltac:(right; left; reflexivity) ltac:(unfold s1; cbn; lia))) end.
      subst s1. apply run_eq3; [lsteq|offeq|steq].
    - exists (nnat (length (n0 :: name))). rewrite <- app_assoc. rewrite (Hfirst n0 name _ Hn0 Hname). rewrite (Hws n0 name w 60 y Hw eq_refl).
      match goal with |- run it ?P _ ?I 0 ?S = _ => rewrite (run_one it P 60 y I S _ (lt_step S P y I ltac:(right; right; reflexivity) ltac:(cbn; lia))) end.
      subst s1. apply run_eq3; [lsteq|offeq|steq].
    - exists (nnat (length (n0 :: name))). rewrite <- !app_assoc. rewrite (Hfirst n0 name _ Hn0 Hname). cbn [app].
      assert (Hcw : is_ws c = false) by (unfold nchar0, ccls_of in Hc; destruct (is_ws c); [contradiction|reflexivity]).
      rewrite (Hws n0 name w c _ Hw Hcw).
      match goal with |- run it ?P (c :: ?R) ?I 0 ?S = _ =>
        rewrite (run_one it P c R I S (fb_reset3 (S <| fb_state := FbName |>)))  end.
      2:{ unfold fb_iter. cbn [fb_state]. unfold fb_step, fb_gA, nchar0 in *. cbn [is_st_init is_st_nameoruriend]. destruct (ccls_of c); try contradiction; reflexivity. }
      rewrite (ntail_run T HT) by reflexivity.
      match goal with |- run it ?P _ ?I 0 ?S = _ => rewrite (run_one it P 60 y I S _ (lt_step S P y I ltac:(left; reflexivity) ltac:(cbn; lia))) end.
      subst s1. apply run_eq3; [lsteq|offeq|steq].
    - exists 0. cbn [app].
      set (sq := mkpfrom pf0 pf0 pf0 false false false 0 0 0 pf0 (mkpf i0 0) EOk 0 FbQuoted i0 0 0 0 0).
      rewrite (run_one it pre0 34 _ i0 pfrom0 sq).
      2:{ unfold fb_iter. cbn [fb_state pfrom0]. unfold fb_step, fb_gA. change (ccls_of 34) with KDq. cbn [is_st_init]. unfold pf_set.
          replace (i0 <? i0) with false by lia. replace (i0 - i0) with 0 by lia. reflexivity. }
      rewrite <- app_assoc. cbn [app]. rewrite (fqc_run_name q Hq sq) by reflexivity. rewrite (ntail_run T HT) by reflexivity.
      match goal with |- run it ?P _ ?I 0 ?S = _ => rewrite (run_one it P 60 y I S _ (lt_step S P y I ltac:(left; reflexivity) ltac:(cbn; lia))) end.
      subst s1. apply run_eq3; [lsteq|offeq|steq].
  Qed.

  (* the bracketed URI after any display part, and what follows it *)
  Definition UF (nm : pf) (i0 us lu : N) : pfrom :=
    mkpfrom nm (mkpf us lu) pf0 false false false 0 0 0 pf0 (mkpf i0 (us + lu + 1 - i0)) EOk 0 FbURIFound us 0 0 0 0.
  Definition bD (nm : pf) (i0 us lu : N) : pfrom :=
    mkpfrom nm (mkpf us lu) pf0 false false false 0 0 0 pf0 (mkpf i0 (us + lu + 1 - i0)) EOk 0 FbNewParam 0 0 0 0 0.
  Definition fD (nm : pf) (i0 us lu : N) : pfrom :=
    mkpfrom nm (mkpf us lu) pf0 false false false h 0 0 pf0 (mkpf i0 (us + lu + 1 - i0)) EOk 0 FbFIN 0 0 0 0 0.
  Lemma uri_seg nm i0 vl us (pre uri y : list byte) : Forall uchar uri -> i0 <= us ->
    run it pre (uri ++ (62 : byte) :: y) us 0 (SU nm i0 vl us) = run it ((62 : byte) :: rev uri ++ pre) y (us + nnat (length uri) + 1) 0 (UF nm i0 us (nnat (length uri))).
  Proof.
    intros Hu Hle.
    rewrite (run_selfloop it uchar (SU nm i0 vl us) ltac:(intros p c r j Hc; apply uri_loop; [reflexivity|exact Hc]) uri pre _ us Hu).
    rewrite (run_one it _ 62 y _ _ (UF nm i0 us (nnat (length uri)))); [reflexivity|].
    unfold fb_iter. cbn [fb_state SU]. unfold fb_step, fb_gURI. change (ccls_of 62) with KGt. unfold pf_set, pf_extend. cbn [fb_soffs fb_v SU po pl].
    replace (us + nnat (length uri) <? us) with false by lia. replace (us + nnat (length uri) + 1 <? i0) with false by lia.
    replace (us + nnat (length uri) - us) with (nnat (length uri)) by lia. reflexivity.
  Qed.
  Lemma uf_ws nm i0 us lu (pre : list byte) c0 r i : is_ws c0 = true -> it pre (c0 :: r) i (UF nm i0 us lu) = fb_lws h pre (c0 :: r) i (UF nm i0 us lu).
  Proof. intros Hc. apply ws_class in Hc. unfold fb_iter. cbn [fb_state UF]. unfold fb_step, fb_gURIFound. rewrite Hc. reflexivity. Qed.
  Lemma uf_gap nm i0 us lu (pre g : list byte) c (y : list byte) i : gp g -> is_ws c = false ->
    run it pre (g ++ c :: y) i 0 (UF nm i0 us lu) = run it (rev g ++ pre) (c :: y) (i + nnat (length g)) 0 (UF nm i0 us lu).
  Proof.
    intros [->|Hw] Hc; [cbn [app rev length]; f_equal; unfold nnat; lia|].
    apply (g_lws h pre g c y i _ _ (fun c0 r H => uf_ws nm i0 us lu pre c0 r i H) Hw Hc).
  Qed.
  Lemma uf_semi nm i0 us lu (pre g y : list byte) i : gp g ->
    run it pre (g ++ (59 : byte) :: y) i 0 (UF nm i0 us lu) = run it ((59 : byte) :: rev g ++ pre) y (i + nnat (length g) + 1) 0 (bD nm i0 us lu).
  Proof. intros Hg. rewrite (uf_gap nm i0 us lu pre g 59 y i Hg eq_refl). rewrite (run_one it _ 59 y _ _ (bD nm i0 us lu)) by reflexivity. reflexivity. Qed.
  Lemma uf_eol nm i0 us lu (pre sp : list byte) x tail i : spaces sp -> is_sp x = false ->
    run it pre (sp ++ CR :: LF :: x :: tail) i 0 (UF nm i0 us lu) = Done (i + nnat (length sp) + 2) EOk (fD nm i0 us lu).
  Proof.
    intros Hsp Hx. rewrite run_after. destruct (eol_first sp x tail Hsp) as (c0 & r & Er & Hc0).
    assert (E : it pre (sp ++ CR :: LF :: x :: tail) i (UF nm i0 us lu) = Ret (i + nnat (length sp) + nnat 2) EOk (fD nm i0 us lu)).
    { rewrite Er. rewrite (uf_ws nm i0 us lu pre c0 r i Hc0). unfold fb_lws. rewrite <- Er. rewrite (skipLWS_sp_eol sp x tail Hsp Hx). reflexivity. }
    rewrite E. cbn [after]. f_equal.
  Qed.
  Lemma uf_comma nm i0 us lu (pre g y : list byte) i : multipleValsOk h = true -> gp g ->
    run it pre (g ++ (44 : byte) :: y) i 0 (UF nm i0 us lu) = Done (i + nnat (length g) + 1) EMoreValues (fD nm i0 us lu).
  Proof.
    intros Hmv Hg. rewrite (uf_gap nm i0 us lu pre g 44 y i Hg eq_refl). rewrite run_after.
    assert (E : forall P I, it P ((44 : byte) :: y) I (UF nm i0 us lu) = Ret (I + 1) EMoreValues (fD nm i0 us lu)).
    { intros P I. unfold fb_iter. cbn [fb_state UF]. unfold fb_step, fb_gURIFound. change (ccls_of 44) with KComma. unfold fb_comma. rewrite Hmv. reflexivity. }
    rewrite E. reflexivity.
  Qed.

  (* ---- the theorems with any display part ------------------------------------------------------------------------------------------------- *)
  Definition bhead (D uri : list byte) : list byte := D ++ (60 : byte) :: uri ++ [(62 : byte)].
  Lemma bhead_run D (uri pre0 y : list byte) i0 : disp D -> Forall uchar uri -> i0 = nnat (length pre0) ->
    let us := i0 + nnat (length D) + 1 in
    run it pre0 (bhead D uri ++ y) i0 0 pfrom0 = run it (rev (bhead D uri) ++ pre0) y (i0 + nnat (length (bhead D uri))) 0 (UF (dname i0 D) i0 us (nnat (length uri))).
  Proof.
    intros HD Hu Hi us. unfold bhead. repeat (rewrite <- ?app_assoc; cbn [app]).
    destruct (disp_run D HD pre0 (uri ++ (62 : byte) :: y) i0 Hi) as (vl & ->). fold us.
    rewrite (uri_seg (dname i0 D) i0 vl us _ uri y Hu ltac:(subst us; lia)).
    apply run_eq3; [repeat (rewrite ?rev_app_distr; cbn [rev]); repeat (rewrite <- ?app_assoc; cbn [app]); reflexivity| |reflexivity].
    subst us. repeat (rewrite app_length; cbn [length]). unfold nnat. lia.
  Qed.
  Lemma bD_base nm i0 us lu j : i0 <= j -> isbase false j (bD nm i0 us lu).
  Proof. intros H. unfold isbase, bD. cbn. repeat split; auto; lia. Qed.

  Theorem nameaddr_display_uri_eol (junk D uri sp : list byte) x tail : disp D -> Forall uchar uri -> spaces sp -> is_sp x = false ->
    let i0 := nnat (length junk) in let us := i0 + nnat (length D) + 1 in let lu := nnat (length uri) in
    parse_nameaddr h (junk ++ bhead D uri ++ sp ++ CR :: LF :: x :: tail) i0 pfrom0 = Done (us + lu + 1 + nnat (length sp) + 2) EOk (fD (dname i0 D) i0 us lu).
  Proof.
    intros HD Hu Hsp Hx i0 us lu. unfold parse_nameaddr. rewrite parse_at.
    rewrite (bhead_run D uri (rev junk) _ i0 HD Hu ltac:(subst i0; rewrite rev_length; reflexivity)). fold us lu.
    rewrite uf_eol by assumption. f_equal. subst us lu. unfold bhead. repeat (rewrite app_length; cbn [length]). unfold nnat. lia.
  Qed.
  Theorem nameaddr_display_uri_comma (junk D uri g y : list byte) : multipleValsOk h = true -> disp D -> Forall uchar uri -> gp g ->
    let i0 := nnat (length junk) in let us := i0 + nnat (length D) + 1 in let lu := nnat (length uri) in
    parse_nameaddr h (junk ++ bhead D uri ++ g ++ (44 : byte) :: y) i0 pfrom0 = Done (us + lu + 1 + nnat (length g) + 1) EMoreValues (fD (dname i0 D) i0 us lu).
  Proof.
    intros Hmv HD Hu Hg i0 us lu. unfold parse_nameaddr. rewrite parse_at.
    rewrite (bhead_run D uri (rev junk) _ i0 HD Hu ltac:(subst i0; rewrite rev_length; reflexivity)). fold us lu.
    rewrite uf_comma by assumption. f_equal. subst us lu. unfold bhead. repeat (rewrite app_length; cbn [length]). unfold nnat. lia.
  Qed.
  Theorem nameaddr_display_params_eol (junk D uri g : list byte) L t (sp : list byte) x tail : disp D -> Forall uchar uri -> gp g -> Forall t_ok L -> t_ok t -> spaces sp -> is_sp x = false ->
    let i0 := nnat (length junk) in let us := i0 + nnat (length D) + 1 in let lu := nnat (length uri) in
    let i := us + lu + 1 + nnat (length g) + 1 in let j := i + nnat (length (its_bytes L)) in
    parse_nameaddr h (junk ++ bhead D uri ++ g ++ (59 : byte) :: its_bytes L ++ t_body t ++ sp ++ CR :: LF :: x :: tail) i0 pfrom0
    = Done (t_d j t + nnat (length sp) + 2) EOk (finW h (t_d j t) (t_apply false j t (its_state false i L (bD (dname i0 D) i0 us lu)))).
  Proof.
    intros HD Hu Hg HL Ht Hsp Hx i0 us lu i j. unfold parse_nameaddr. rewrite parse_at.
    rewrite (bhead_run D uri (rev junk) _ i0 HD Hu ltac:(subst i0; rewrite rev_length; reflexivity)). fold us lu.
    rewrite (uf_semi _ _ _ _ _ g _ _ Hg).
    assert (Ei : i0 + nnat (length (bhead D uri)) + nnat (length g) + 1 = i) by (subst i us lu; unfold bhead; repeat (rewrite app_length; cbn [length]); unfold nnat; lia).
    rewrite Ei. apply (params_eol h false L t _ _ sp x tail i HL Ht); auto.
    - apply bD_base. subst i us. lia.
    - rewrite <- Ei. cbn [length]. rewrite !app_length, !rev_length. subst i0. unfold nnat. lia.
    - subst i. lia.
  Qed.
  Theorem nameaddr_display_params_comma (junk D uri g : list byte) L t (y : list byte) : multipleValsOk h = true -> disp D -> Forall uchar uri -> gp g -> Forall t_ok L -> t_ok t ->
    let i0 := nnat (length junk) in let us := i0 + nnat (length D) + 1 in let lu := nnat (length uri) in
    let i := us + lu + 1 + nnat (length g) + 1 in let j := i + nnat (length (its_bytes L)) in
    parse_nameaddr h (junk ++ bhead D uri ++ g ++ (59 : byte) :: its_bytes L ++ t_body t ++ t_g4 t ++ (44 : byte) :: y) i0 pfrom0
    = Done (t_d j t + nnat (length (t_g4 t)) + 1) EMoreValues (finW h (t_d j t) (t_apply false j t (its_state false i L (bD (dname i0 D) i0 us lu)))).
  Proof.
    intros Hmv HD Hu Hg HL Ht i0 us lu i j. unfold parse_nameaddr. rewrite parse_at.
    rewrite (bhead_run D uri (rev junk) _ i0 HD Hu ltac:(subst i0; rewrite rev_length; reflexivity)). fold us lu.
    rewrite (uf_semi _ _ _ _ _ g _ _ Hg).
    assert (Ei : i0 + nnat (length (bhead D uri)) + nnat (length g) + 1 = i) by (subst i us lu; unfold bhead; repeat (rewrite app_length; cbn [length]); unfold nnat; lia).
    rewrite Ei. apply (params_comma h false L t _ _ y i Hmv HL Ht); auto.
    - apply bD_base. subst i us. lia.
    - rewrite <- Ei. cbn [length]. rewrite !app_length, !rev_length. subst i0. unfold nnat. lia.
    - subst i. lia.
  Qed.
End Disp.

(* ---- a bare URI without parameters ----------------------------------------------------------------------------------------------------------- *)
Section Bare.
  Variable h : N.
  Notation it := (fb_iter h).
  Definition fB (i0 lu : N) : pfrom := mkpfrom pf0 (mkpf i0 lu) pf0 false false false h 0 0 pf0 (mkpf i0 lu) EOk 0 FbFIN 0 0 0 0 0.
  Definition sB1 (i0 : N) : pfrom := mkpfrom pf0 pf0 pf0 false false false 0 0 0 pf0 (mkpf i0 0) EOk 0 FbNameOrURI i0 0 0 0 0.
  Definition sB2 (i0 lu : N) : pfrom := mkpfrom pf0 (mkpf i0 lu) pf0 false false false 0 0 0 pf0 (mkpf i0 lu) EOk 0 FbNameOrURIEnd i0 0 0 0 0.
  Lemma bare_first (pre0 : list byte) n0 (name z : list byte) i0 : nchar0 n0 -> Forall nchar name ->
    run it pre0 ((n0 :: name) ++ z) i0 0 pfrom0 = run it (rev (n0 :: name) ++ pre0) z (i0 + nnat (length (n0 :: name))) 0 (sB1 i0).
  Proof.
    intros Hn0 Hname. cbn [app]. rewrite (run_one it pre0 n0 _ i0 pfrom0 (sB1 i0)).
    2:{ unfold fb_iter. cbn [fb_state pfrom0]. unfold fb_step, fb_gA, nchar0 in *. cbn [is_st_init]. unfold pf_set.
        replace (i0 <? i0) with false by lia. replace (i0 - i0) with 0 by lia. destruct (ccls_of n0); try contradiction; reflexivity. }
    rewrite (run_selfloop it nchar (sB1 i0) ltac:(intros p c r j Hc; apply name_loop; [reflexivity|exact Hc]) name _ _ (i0 + 1) Hname).
    cbn [rev length]. rewrite <- app_assoc. cbn [app]. f_equal. unfold nnat. lia.
  Qed.
  Lemma sB1_ws i0 lu (pre : list byte) c0 r : is_ws c0 = true -> 0 < lu ->
    it pre (c0 :: r) (i0 + lu) (sB1 i0) = fb_lws h pre (c0 :: r) (i0 + lu) (sB2 i0 lu).
  Proof.
    intros Hc Hlu. apply ws_class in Hc. unfold fb_iter. cbn [fb_state sB1]. unfold fb_step, fb_gA. rewrite Hc. cbn [is_st_nameoruri]. unfold pf_set, pf_extend. cbn [fb_soffs fb_v sB1 po pl].
    replace (i0 + lu <? i0) with false by lia. replace (i0 + lu - i0) with lu by lia. reflexivity.
  Qed.
  Theorem nameaddr_bare_eol (junk : list byte) n0 (name sp : list byte) x tail : nchar0 n0 -> Forall nchar name -> spaces sp -> is_sp x = false ->
    let i0 := nnat (length junk) in let lu := nnat (length (n0 :: name)) in
    parse_nameaddr h (junk ++ (n0 :: name) ++ sp ++ CR :: LF :: x :: tail) i0 pfrom0 = Done (i0 + lu + nnat (length sp) + 2) EOk (fB i0 lu).
  Proof.
    intros Hn0 Hname Hsp Hx i0 lu. unfold parse_nameaddr. rewrite parse_at. rewrite (bare_first (rev junk) n0 name _ i0 Hn0 Hname). fold lu.
    rewrite run_after. destruct (eol_first sp x tail Hsp) as (c0 & r & Er & Hc0).
    assert (Hlu : 0 < lu) by (subst lu; cbn [length]; unfold nnat; lia).
    rewrite Er. rewrite (sB1_ws i0 lu _ c0 r Hc0 Hlu). unfold fb_lws. rewrite <- Er. rewrite (skipLWS_sp_eol sp x tail Hsp Hx).
    unfold fb_endOfHdr, fb_close. cbn [fb_state sB2]. cbn [after]. f_equal; try reflexivity; unfold nnat; lia.
  Qed.
  Theorem nameaddr_bare_comma (junk : list byte) n0 (name g y : list byte) : multipleValsOk h = true -> nchar0 n0 -> Forall nchar name -> gp g ->
    let i0 := nnat (length junk) in let lu := nnat (length (n0 :: name)) in
    parse_nameaddr h (junk ++ (n0 :: name) ++ g ++ (44 : byte) :: y) i0 pfrom0 = Done (i0 + lu + nnat (length g) + 1) EMoreValues (fB i0 lu).
  Proof.
    intros Hmv Hn0 Hname Hg i0 lu. unfold parse_nameaddr. rewrite parse_at. rewrite (bare_first (rev junk) n0 name _ i0 Hn0 Hname). fold lu.
    assert (Hlu : 0 < lu) by (subst lu; cbn [length]; unfold nnat; lia).
    destruct Hg as [->|Hw].
    - cbn [app length]. rewrite run_after.
      match goal with |- after it ?P _ _ ?X = _ => assert (E : X = Ret (i0 + lu + 1) EMoreValues (fB i0 lu)) end.
      { unfold fb_iter. cbn [fb_state sB1]. unfold fb_step, fb_gA. change (ccls_of 44) with KComma. unfold fb_comma. rewrite Hmv. unfold fb_moreValues, fb_endOfHdr, fb_close.
        cbn [fb_state sB1 fb_soffs fb_v po pl]. unfold pf_set, pf_extend. cbn [po pl].
        set (t := N.min _ _). assert (Ht : t <= lu) by (subst t; lia).
        destruct (N.eq_dec t 0) as [Z|NZ].
        - rewrite Z, N.sub_0_r. replace (i0 + lu <? i0) with false by lia. replace (i0 + lu - i0) with lu by lia. reflexivity.
        - exfalso. subst t. apply NZ. clear NZ.
          (* the byte before the comma is the last byte of the URI: not white space *)
          destruct (last_nonws (n0 :: name) nchar nchar_nonws ltac:(discriminate)
                      ltac:(constructor; [unfold nchar0, nchar in *; destruct (ccls_of n0); try contradiction; exact I|exact Hname])) as (N' & ln & EN & Hln).
          rewrite EN, rev_app_distr. cbn [rev app span]. rewrite Hln. cbn [nnat]. unfold nnat. cbn. lia. }
      rewrite E. cbn [after]. f_equal. unfold nnat. lia.
    - rewrite (g_lws h _ g 44 y (i0 + lu) (sB1 i0) (sB2 i0 lu) (fun c0 r H => sB1_ws i0 lu _ c0 r H Hlu) Hw eq_refl). rewrite run_after.
      match goal with |- after it ?P _ _ ?X = _ => assert (E : X = Ret (i0 + lu + nnat (length g) + 1) EMoreValues (fB i0 lu)) end.
      { unfold fb_iter. cbn [fb_state sB2]. unfold fb_step, fb_gA. change (ccls_of 44) with KComma. unfold fb_comma. rewrite Hmv. reflexivity. }
      rewrite E. reflexivity.
  Qed.

  (* the star value: "*" blanks end-of-line *)
  Definition fStar (i0 : N) : pfrom := mkpfrom pf0 (mkpf i0 1) pf0 true false false h 0 0 pf0 (mkpf i0 1) EOk 0 FbFIN 0 0 0 0 0.
  Theorem nameaddr_star_eol (junk sp : list byte) x tail : spaces sp -> is_sp x = false ->
    let i0 := nnat (length junk) in
    parse_nameaddr h (junk ++ (42 : byte) :: sp ++ CR :: LF :: x :: tail) i0 pfrom0 = Done (i0 + 1 + nnat (length sp) + 2) EOk (fStar i0).
  Proof.
    intros Hsp Hx i0. unfold parse_nameaddr. rewrite parse_at.
    set (s1 := mkpfrom pf0 pf0 pf0 false false false 0 0 0 pf0 (mkpf i0 1) EOk 0 FbStar i0 0 0 0 0).
    rewrite (run_one it _ 42 _ i0 pfrom0 s1).
    2:{ unfold fb_iter. cbn [fb_state pfrom0]. unfold fb_step, fb_gA. change (ccls_of 42) with KStar. cbn [is_st_init]. unfold pf_set.
        replace (i0 + 1 <? i0) with false by lia. replace (i0 + 1 - i0) with 1 by lia. reflexivity. }
    rewrite run_after. destruct (eol_first sp x tail Hsp) as (c0 & r & Er & Hc0).
    assert (E : it ((42 : byte) :: rev junk) (sp ++ CR :: LF :: x :: tail) (i0 + 1) s1 = Ret (i0 + 1 + nnat (length sp) + nnat 2) EOk (fStar i0)).
    { rewrite Er. apply ws_class in Hc0. unfold fb_iter. cbn [fb_state s1]. unfold fb_step, fb_gStar. rewrite Hc0. unfold fb_lws. rewrite <- Er.
      rewrite (skipLWS_sp_eol sp x tail Hsp Hx). reflexivity. }
    rewrite E. cbn [after]. f_equal; try reflexivity; unfold nnat; lia.
  Qed.
End Bare.

(* ---- the expires value through the general parameter part (C10): the last parameter named expires decides ----------------------------------- *)
Definition t_is_exp (t : pit) : bool :=
  match t_val t with Some _ => negb (eqb_nocase (t_name t) str_tag) && eqb_nocase (t_name t) str_expires | None => false end.
Lemma apply_param_exp name val s : eqb_nocase name str_tag = false -> eqb_nocase name str_expires = true ->
  fb_expires (apply_param name val s) = expires_of val /\ fb_hasexp (apply_param name val s) = true.
Proof. intros H1 H2. unfold apply_param, expires_of. rewrite H1, H2. destruct (pUInt64Val val) as [e x]. destruct s; cbn. auto. Qed.
Lemma apply_param_noexp name val s : eqb_nocase name str_tag = true \/ eqb_nocase name str_expires = false -> fb_expires (apply_param name val s) = fb_expires s.
Proof.
  intros H. unfold apply_param. destruct (eqb_nocase name str_tag) eqn:E1; [destruct s; reflexivity|]. destruct H as [H|H]; [discriminate|]. rewrite H.
  destruct (eqb_nocase name str_q).
  - unfold set_q. cbv zeta. destruct (_ <=? 4)%nat; [|destruct s; reflexivity].
    destruct (pUInt64Val _) as [u e1]. destruct (match e1 with EOk => _ | _ => _ end) as [dd e2].
    destruct e2; try (destruct s; reflexivity). destruct (_ || _); destruct s; reflexivity.
  - destruct (eqb_nocase name str_lr); destruct s; reflexivity.
Qed.
Lemma t_apply_expires p i t b : fb_expires (t_apply p i t b) = if t_is_exp t then match t_val t with Some (_, _, V) => expires_of V | None => 0 end else fb_expires b.
Proof.
  unfold t_apply, t_is_exp. destruct (t_val t) as [[[g2 g3] V]|].
  - match goal with |- fb_expires (pclr ?X) = _ => transitivity (fb_expires X); [destruct X; reflexivity|] end.
    destruct (eqb_nocase (t_name t) str_tag) eqn:E1; cbn [negb andb].
    + rewrite apply_param_noexp by (left; exact E1). reflexivity.
    + destruct (eqb_nocase (t_name t) str_expires) eqn:E2.
      * exact (proj1 (apply_param_exp _ V _ E1 E2)).
      * rewrite apply_param_noexp by (right; exact E2). reflexivity.
  - unfold apply_flag. destruct (eqb_nocase _ _); reflexivity.
Qed.
(* no parameter named expires: the value stays what the head left (0); the last parameter is expires=V: its saturated decimal value *)
Theorem gen_expires_none h p L t i b d : Forall (fun t => t_is_exp t = false) (L ++ [t]) ->
  fb_expires (finW h d (t_apply p (i + nnat (length (its_bytes L))) t (its_state p i L b))) = fb_expires b.
Proof.
  intros H. cbn [finW fb_expires]. revert i b H. induction L as [|t1 L IH]; intros i b H.
  - cbn [its_bytes flat_map length its_state app] in *. rewrite t_apply_expires. rewrite (Forall_inv H). reflexivity.
  - cbn [its_bytes flat_map its_state app] in *. fold (its_bytes L). rewrite app_length.
    replace (i + nnat (length (t_bytes t1) + length (its_bytes L))) with (i + nnat (length (t_bytes t1)) + nnat (length (its_bytes L))) by (unfold nnat; lia).
    rewrite (IH _ _ (Forall_inv_tail H)). rewrite t_apply_expires, (Forall_inv H). reflexivity.
Qed.
Theorem gen_expires_last h p L t i b d g2 g3 V : t_val t = Some (g2, g3, V) -> t_is_exp t = true ->
  fb_expires (finW h d (t_apply p (i + nnat (length (its_bytes L))) t (its_state p i L b))) = expires_of V.
Proof. intros Hv He. cbn [finW fb_expires]. rewrite t_apply_expires, He, Hv. reflexivity. Qed.

(* a parameter named q hands its value text to set_q (whose result is described in QSpec.v) *)
Theorem t_apply_q p i t b g2 g3 V : t_val t = Some (g2, g3, V) ->
  eqb_nocase (t_name t) str_tag = false -> eqb_nocase (t_name t) str_expires = false -> eqb_nocase (t_name t) str_q = true ->
  t_apply p i t b = pclr (set_q V (W b (st_newparam p) (t_a i t) (t_e i t) (t_c i t) (t_d i t) (prm1 (fb_params b) (t_a i t)))).
Proof. intros Hv H1 H2 H3. unfold t_apply. rewrite Hv. unfold apply_param. rewrite H1, H2, H3. reflexivity. Qed.
