(* ExtOK for ParseFLine.  An iteration of fl_iter never asks the driver to continue (no Next):
   the phases call each other directly, so the clause is stated on iteration results. *)
From Sipsp Require Import RunLemmas Safe Resume Ext ExtLeaf ZSlice Harness ExtCSeq ExtNameAddr.
From Coq Require Import ZifyN ZifyNat ZifyBool.
From Sipsp Require Import Tables.

Notation it := fl_iter.

(* r on (pre, rest, i); r' on (pre, rest ++ x, i) *)
Definition fclause (pre rest x : list byte) (i : N) (r r' : ires fline) : Prop :=
  match r with
  | Next _ _ => False
  | Ret o EMore t' =>
    exists k, (k <= length rest)%nat /\ o = i + nnat k /\
      it (zpre k pre (rest ++ x)) (zrest k (rest ++ x)) o t' = r'
  | Ret o e t' => r' = Ret o e t'
  | IPanic => True
  end.

Lemma fclause_clause pre rest x i r r' : fclause pre rest x i r r' ->
  (match r' with Next _ _ => False | _ => True end) -> clause it pre rest x i r r'.
Proof.
  unfold fclause, clause. destruct r as [k t'|o e t'|]; auto; [intros []|].
  destruct e; auto. intros (k & Hk & Ho & Hr) Hn. exists k. split; [exact Hk|]. split; [exact Ho|].
  rewrite run_after, Hr. destruct r'; [destruct Hn|reflexivity|reflexivity].
Qed.

(* a clause established k bytes further on *)
Lemma fclause_adv pre rest x i k r r' : (k <= length rest)%nat ->
  fclause (zpre k pre rest) (zrest k rest) x (i + nnat k) r r' -> fclause pre rest x i r r'.
Proof.
  intros Hk. unfold fclause. destruct r as [|o e t'|]; auto. destruct e; auto.
  intros (k2 & Hk2 & Ho & Hr). rewrite zrest_length in Hk2.
  exists (k + k2)%nat. split; [lia|]. split; [unfold nnat in *; lia|].
  rewrite <- Hr. rewrite <- (zpre_zpre k k2 pre (rest ++ x)) by (rewrite app_length; lia).
  rewrite <- (zrest_zrest k k2 (rest ++ x)).
  rewrite (zpre_app k pre rest x Hk), (zrest_app k rest x Hk). reflexivity.
Qed.

Lemma fclause_same pre rest x i r :
  match r with Next _ _ => False | Ret _ EMore _ => False | _ => True end -> fclause pre rest x i r r.
Proof. unfold fclause. destruct r as [|o e t|]; auto. destruct e; auto; intros []. Qed.

Lemma fclause_here pre rest x i (t : fline) r' : it pre (rest ++ x) i t = r' -> fclause pre rest x i (Ret i EMore t) r'.
Proof. intros H. exists 0%nat. split; [lia|]. split; [unfold nnat; lia|]. exact H. Qed.

(* ---- spans ------------------------------------------------------------------------------------ *)
Lemma span_app p (a y : list byte) :
  span p (a ++ y) = if (span p a =? length a)%nat then (length a + span p y)%nat else span p a.
Proof.
  induction a as [|c a IH]; cbn [app span length]; [reflexivity|].
  destruct (p c); [|reflexivity]. rewrite IH. cbn [Nat.eqb]. destruct (span p a =? length a)%nat; reflexivity.
Qed.
Lemma span_stop p (a : list byte) : (span p a < length a)%nat ->
  exists c r, skipn (span p a) a = c :: r /\ p c = false.
Proof.
  induction a as [|c a IH]; cbn [span length]; [lia|]. destruct (p c) eqn:E.
  - intros H. destruct (IH ltac:(lia)) as (c' & r & H1 & H2). exists c', r. auto.
  - intros _. exists c, a. auto.
Qed.
Lemma span_all_skipn p (a : list byte) : span p a = length a -> skipn (span p a) a = [].
Proof. intros ->. apply skipn_all. Qed.
Lemma span_lt_or_all p (a : list byte) : (span p a < length a)%nat \/ span p a = length a.
Proof. pose proof (span_le p a). lia. Qed.

(* ---- CRLF -------------------------------------------------------------------------------------------- *)
Lemma fl_crlf_clause pre rest x i s : fl_state s = FlCRLF ->
  fclause pre rest x i (fl_crlf rest i s) (fl_crlf (rest ++ x) i s).
Proof.
  intros Hst.
  assert (Hit : it pre (rest ++ x) i s = fl_crlf (rest ++ x) i s) by (unfold fl_iter; now rewrite Hst).
  unfold fl_crlf at 1. destruct rest as [|c [|d r]]; cbn [skipCRLF].
  - apply fclause_here. exact Hit.
  - destruct (is_crlf c) eqn:Ec; [apply fclause_here; exact Hit|].
    unfold fl_crlf. cbn [app]. destruct x as [|d x']; cbn [skipCRLF]; rewrite ?Ec; [reflexivity|].
    unfold is_crlf in Ec. destruct (is_cr c), (is_lf c); try discriminate. reflexivity.
  - unfold fl_crlf. cbn [app skipCRLF]. destruct (is_cr c); [destruct (is_lf d); reflexivity|].
    destruct (is_lf c); reflexivity.
Qed.

(* ---- a phase that first skips a token: advancing over token bytes does not change it ---------- *)
Definition tokp (c : byte) : bool := negb (is_ws c).
Lemma skipToken_app a y : skipToken (a ++ y) =
  if (skipToken a =? length a)%nat then (length a + skipToken y)%nat else skipToken a.
Proof. apply span_app. Qed.

Lemma skipn_app_le {A} (a y : list A) k : (k <= length a)%nat -> skipn k (a ++ y) = skipn k a ++ y.
Proof. intros H. rewrite skipn_app. replace (k - length a)%nat with 0%nat by lia. reflexivity. Qed.
Lemma skipn_app_ge {A} (a y : list A) k : skipn (length a + k) (a ++ y) = skipn k y.
Proof. rewrite skipn_app, skipn_all2 by lia. replace (length a + k - length a)%nat with k by lia. reflexivity. Qed.

Lemma skipToken_all_skipn a : skipToken a = length a -> skipn (skipToken a) a = [].
Proof. intros ->. apply skipn_all. Qed.

(* version *)
Lemma fl_ver_adv pre pre' a y i s : skipToken a = length a ->
  fl_ver pre (a ++ y) i s = fl_ver pre' y (i + nnat (length a)) s.
Proof.
  intros Ha. unfold fl_ver. rewrite skipToken_app, Ha, Nat.eqb_refl, skipn_app_ge.
  replace (i + nnat (length a + skipToken y)) with (i + nnat (length a) + nnat (skipToken y)) by (unfold nnat; lia).
  reflexivity.
Qed.

Lemma fl_ver_clause pre rest x i s : fl_state s = FlReqVer ->
  fclause pre rest x i (fl_ver pre rest i s) (fl_ver pre (rest ++ x) i s).
Proof.
  intros Hst. destruct (span_lt_or_all (fun c => negb (is_ws c)) rest) as [Hlt|Hall]; fold (skipToken rest) in *.
  - destruct (span_stop _ rest Hlt) as (c & r & Hs & Hc). fold (skipToken rest) in Hs.
    unfold fl_ver. rewrite skipToken_app. replace (skipToken rest =? length rest)%nat with false by (symmetry; apply Nat.eqb_neq; lia).
    rewrite skipn_app_le by lia. rewrite Hs. cbn [app].
    destruct (negb (is_crlf c)); [reflexivity|].
    destruct (pf_extend (fl_version s) _) as [v|]; [|exact I].
    destruct (pf_empty v); [reflexivity|].
    apply (fclause_adv pre rest x i (skipToken rest)); [lia|].
    unfold zrest. rewrite Hs. apply (fl_crlf_clause (zpre (skipToken rest) pre rest) (c :: r) x). destruct s; reflexivity.
  - unfold fl_ver at 1. rewrite skipToken_all_skipn by exact Hall. rewrite Hall.
    exists (length rest). split; [lia|]. split; [reflexivity|].
    rewrite zrest_app, (fl_ver_adv pre (zpre (length rest) pre (rest ++ x)) rest x i s Hall) by lia.
    unfold zrest. rewrite skipn_all. cbn [app]. unfold fl_iter. now rewrite Hst.
Qed.

(* request URI *)
Lemma fl_requri_adv pre a y i s : skipToken a = length a ->
  fl_requri pre (a ++ y) i s = fl_requri (zpre (length a) pre (a ++ y)) y (i + nnat (length a)) s.
Proof.
  intros Ha. unfold fl_requri. rewrite skipToken_app, Ha, Nat.eqb_refl, skipn_app_ge.
  replace (i + nnat (length a + skipToken y)) with (i + nnat (length a) + nnat (skipToken y)) by (unfold nnat; lia).
  destruct (skipn (skipToken y) y) as [|c r'] eqn:Es; [reflexivity|].
  destruct (negb (c =? SP)); [reflexivity|]. destruct (pf_extend _ _) as [u|]; [|reflexivity].
  destruct (pf_empty u); [reflexivity|]. destruct (pf_set _ _); [|reflexivity].
  reflexivity. (* fl_ver does not look at the bytes before the offset *)
Qed.

Lemma fl_requri_clause pre rest x i s : fl_state s = FlReqURI ->
  fclause pre rest x i (fl_requri pre rest i s) (fl_requri pre (rest ++ x) i s).
Proof.
  intros Hst. destruct (span_lt_or_all (fun c => negb (is_ws c)) rest) as [Hlt|Hall]; fold (skipToken rest) in *.
  - destruct (span_stop _ rest Hlt) as (c & r & Hs & Hc). fold (skipToken rest) in Hs.
    unfold fl_requri. rewrite skipToken_app. replace (skipToken rest =? length rest)%nat with false by (symmetry; apply Nat.eqb_neq; lia).
    rewrite skipn_app_le by lia. rewrite Hs. cbn [app].
    destruct (negb (c =? SP)); [reflexivity|].
    destruct (pf_extend (fl_uri s) _) as [u|]; [|exact I].
    destruct (pf_empty u); [reflexivity|]. destruct (pf_set _ _) as [v|]; [|exact I].
    set (k := skipToken rest) in *.
    assert (Hk : (S k <= length rest)%nat) by lia.
    rewrite (zpre_app (S k) pre rest x Hk).
    replace r with (zrest (S k) rest) by (unfold zrest; replace (S k) with (k + 1)%nat by lia;
                                         rewrite <- zrest_zrest; unfold zrest; rewrite Hs; reflexivity).
    replace (i + nnat k + 1) with (i + nnat (S k)) by (unfold nnat; lia).
    apply (fclause_adv pre rest x i (S k) _ _ Hk).
    apply fl_ver_clause. destruct s; reflexivity.
  - unfold fl_requri at 1. rewrite skipToken_all_skipn by exact Hall. rewrite Hall.
    exists (length rest). split; [lia|]. split; [reflexivity|].
    rewrite (fl_requri_adv pre rest x i s Hall).
    rewrite zrest_app by lia. unfold zrest. rewrite skipn_all. cbn [app]. unfold fl_iter. now rewrite Hst.
Qed.

(* method *)
Lemma fl_method_adv pre a y i s : skipToken a = length a -> i = nnat (length pre) ->
  fl_method_ph pre (a ++ y) i s = fl_method_ph (zpre (length a) pre (a ++ y)) y (i + nnat (length a)) s.
Proof.
  intros Ha Hi. unfold fl_method_ph. rewrite skipToken_app, Ha, Nat.eqb_refl, skipn_app_ge.
  replace (i + nnat (length a + skipToken y)) with (i + nnat (length a) + nnat (skipToken y)) by (unfold nnat; lia).
  destruct (skipn (skipToken y) y) as [|c r'] eqn:Es; [reflexivity|].
  destruct (negb (c =? SP)); [reflexivity|]. destruct (pf_extend _ _) as [m|]; [|reflexivity].
  destruct (pf_empty m); [reflexivity|].
  assert (Ez : zget (zpre (length a) pre (a ++ y)) y (i + nnat (length a)) m = zget pre (a ++ y) i m).
  { rewrite <- (zget_adv pre (a ++ y) i (length a) m) by (rewrite ?app_length; auto; lia).
    f_equal. unfold zrest. replace (length a) with (length a + 0)%nat at 1 by lia. now rewrite skipn_app_ge. }
  rewrite Ez. destruct (zget pre (a ++ y) i m); [|reflexivity]. destruct (pf_set _ _); reflexivity.
Qed.

Lemma fl_method_clause pre rest x i s : i = nnat (length pre) -> fl_state s = FlReqMethod ->
  fclause pre rest x i (fl_method_ph pre rest i s) (fl_method_ph pre (rest ++ x) i s).
Proof.
  intros Hi Hst. destruct (span_lt_or_all (fun c => negb (is_ws c)) rest) as [Hlt|Hall]; fold (skipToken rest) in *.
  - destruct (span_stop _ rest Hlt) as (c & r & Hs & Hc). fold (skipToken rest) in Hs.
    unfold fl_method_ph. rewrite skipToken_app. replace (skipToken rest =? length rest)%nat with false by (symmetry; apply Nat.eqb_neq; lia).
    rewrite skipn_app_le by lia. rewrite Hs. cbn [app].
    destruct (negb (c =? SP)); [reflexivity|].
    destruct (pf_extend (fl_method s) _) as [m|]; [|exact I].
    destruct (pf_empty m); [reflexivity|].
    unfold zget. destruct (zslice_ext pre rest x i (po m) (pf_end m) Hi) as [Hz|Hz]; rewrite Hz; [exact I|].
    destruct (zslice pre rest i (po m) (pf_end m)) as [name|]; [|exact I].
    destruct (pf_set _ _) as [u|]; [|exact I].
    set (k := skipToken rest) in *.
    assert (Hk : (S k <= length rest)%nat) by lia.
    rewrite (zpre_app (S k) pre rest x Hk).
    replace r with (zrest (S k) rest) by (unfold zrest; replace (S k) with (k + 1)%nat by lia;
                                         rewrite <- zrest_zrest; unfold zrest; rewrite Hs; reflexivity).
    replace (i + nnat k + 1) with (i + nnat (S k)) by (unfold nnat; lia).
    apply (fclause_adv pre rest x i (S k) _ _ Hk).
    apply fl_requri_clause. destruct s; reflexivity.
  - unfold fl_method_ph at 1. rewrite skipToken_all_skipn by exact Hall. rewrite Hall.
    exists (length rest). split; [lia|]. split; [reflexivity|].
    rewrite (fl_method_adv pre rest x i s Hall Hi).
    rewrite zrest_app by lia. unfold zrest. rewrite skipn_all. cbn [app]. unfold fl_iter. now rewrite Hst.
Qed.

(* reason phrase *)
Definition noncrlf (c : byte) : bool := negb (is_crlf c).
Lemma fl_reason_adv a y i s : span noncrlf a = length a ->
  fl_reason_ph (a ++ y) i s = fl_reason_ph y (i + nnat (length a)) s.
Proof.
  intros Ha. unfold fl_reason_ph, skipLine. fold noncrlf. rewrite span_app, Ha, Nat.eqb_refl, skipn_app_ge.
  replace (i + nnat (length a + span noncrlf y)) with (i + nnat (length a) + nnat (span noncrlf y)) by (unfold nnat; lia).
  reflexivity.
Qed.

Lemma skipCRLF_ext (r x : list byte) : match skipCRLF r with CMore => True | v => skipCRLF (r ++ x) = v end.
Proof.
  destruct r as [|c [|d r']]; cbn [skipCRLF app]; auto.
  - destruct (is_crlf c) eqn:Ec; auto. destruct x as [|d x']; cbn [skipCRLF]; rewrite ?Ec; auto.
    unfold is_crlf in Ec. destruct (is_cr c), (is_lf c); try discriminate. reflexivity.
  - destruct (is_cr c); [destruct (is_lf d); reflexivity|]. destruct (is_lf c); reflexivity.
Qed.

Lemma fl_reason_clause pre rest x i s : fl_state s = FlRplReason ->
  fclause pre rest x i (fl_reason_ph rest i s) (fl_reason_ph (rest ++ x) i s).
Proof.
  intros Hst.
  assert (Hit : forall k, (k <= length rest)%nat ->
            it (zpre k pre (rest ++ x)) (zrest k (rest ++ x)) (i + nnat k) s = fl_reason_ph (zrest k (rest ++ x)) (i + nnat k) s)
    by (intros k _; unfold fl_iter; now rewrite Hst).
  destruct (span_lt_or_all noncrlf rest) as [Hlt|Hall].
  - destruct (span_stop _ rest Hlt) as (c & r & Hs & Hc).
    set (k := span noncrlf rest) in *.
    (* rest = a ++ c :: r with a free of CR/LF and c a CR or LF *)
    assert (Ha : span noncrlf (firstn k rest) = length (firstn k rest)).
    { subst k. clear. induction rest as [|d rest IH]; cbn; [reflexivity|]. destruct (noncrlf d) eqn:E; cbn; [rewrite E; f_equal; exact IH|reflexivity]. }
    assert (Hl : length (firstn k rest) = k) by (rewrite firstn_length; lia).
    assert (Hsplit : rest = firstn k rest ++ c :: r) by (rewrite <- Hs; symmetry; apply firstn_skipn).
    unfold fl_reason_ph at 1, skipLine. fold noncrlf. fold k. rewrite Hs.
    pose proof (skipCRLF_ext (c :: r) x) as He.
    assert (Hr2 : fl_reason_ph (rest ++ x) i s = fl_reason_ph ((c :: r) ++ x) (i + nnat k) s).
    { rewrite Hsplit at 1. rewrite <- app_assoc. rewrite (fl_reason_adv _ _ i s Ha), Hl. reflexivity. }
    rewrite Hr2.
    assert (Hsp : span noncrlf ((c :: r) ++ x) = 0%nat) by (cbn; now rewrite Hc).
    destruct (skipCRLF (c :: r)) as [crl| |] eqn:Ec.
    + unfold fl_reason_ph, skipLine. fold noncrlf. rewrite Hsp. cbn [skipn]. rewrite He.
      replace (i + nnat k + nnat 0) with (i + nnat k) by (unfold nnat; lia).
      apply fclause_same. destruct (pf_extend _ _); exact I.
    + exists k. split; [lia|]. split; [reflexivity|]. rewrite Hit by lia.
      rewrite zrest_app by lia. unfold zrest. rewrite Hs. reflexivity.
    + unfold fl_reason_ph, skipLine. fold noncrlf. rewrite Hsp. cbn [skipn]. rewrite He.
      replace (i + nnat k + nnat 0) with (i + nnat k) by (unfold nnat; lia).
      apply fclause_same. exact I.
  - unfold fl_reason_ph at 1, skipLine. fold noncrlf. rewrite Hall, skipn_all. cbn [skipCRLF].
    exists (length rest). split; [lia|]. split; [reflexivity|]. rewrite Hit by lia.
    rewrite zrest_app by lia. unfold zrest. rewrite skipn_all. cbn [app].
    symmetry. apply fl_reason_adv. exact Hall.
Qed.

(* ---- the first call: request or reply ------------------------------------------------------------- *)
Lemma prefix_nocase_app p s x : (length p <= length s)%nat -> prefix_nocase p (s ++ x) = prefix_nocase p s.
Proof.
  intros H. unfold prefix_nocase. rewrite app_length, firstn_app.
  replace (length p - length s)%nat with 0%nat by lia. cbn [firstn]. rewrite app_nil_r.
  replace (length p <=? length s + length x)%nat with true by (symmetry; apply Nat.leb_le; lia).
  replace (length p <=? length s)%nat with true by (symmetry; apply Nat.leb_le; lia). reflexivity.
Qed.

Lemma fl_init_clause pre rest x i s : i = nnat (length pre) -> fl_state s = FlInit ->
  fclause pre rest x i (fl_init pre rest i s) (fl_init pre (rest ++ x) i s).
Proof.
  intros Hi Hst.
  assert (Hit : it pre (rest ++ x) i s = fl_init pre (rest ++ x) i s) by (unfold fl_iter; now rewrite Hst).
  unfold fl_init at 1.
  remember (length go_sipVerSP) as l eqn:Hl.
  destruct (length rest <? l + 6)%nat eqn:El.
  { apply fclause_here. exact Hit. }
  apply Nat.ltb_ge in El.
  unfold fl_init. rewrite app_length, <- Hl.
  replace (length rest + length x <? l + 6)%nat with false by (symmetry; apply Nat.ltb_ge; clear - El; lia).
  assert (Hp : (length go_sipVerSP <= length rest)%nat) by (rewrite <- Hl; clear - El; lia).
  rewrite (prefix_nocase_app go_sipVerSP rest x Hp).
  clear Hl Hp.
  destruct (prefix_nocase go_sipVerSP rest).
  - (* reply *)
    destruct (pf_set i _) as [v|]; [|exact I].
    rewrite skipn_app_le by (clear - El; lia).
    destruct (skipn l rest) as [|a [|b [|c [|d r']]]] eqn:Es;
      try (exfalso; assert (Hlen : length (skipn l rest) = (length rest - l)%nat) by apply skipn_length;
           rewrite Es in Hlen; cbn in Hlen; lia).
    cbn [app]. destruct (negb (d =? SP) || negb (is_digit a && is_digit b && is_digit c)); [reflexivity|].
    destruct (pf_set (i + nnat l) _) as [sc|]; [|exact I]. destruct (pf_set (i + nnat l + 4) _) as [rs|]; [|exact I].
    assert (Hk : (l + 4 <= length rest)%nat) by lia.
    replace r' with (zrest (l + 4) rest)
      by (rewrite <- (zrest_zrest l 4 rest); unfold zrest; rewrite Es; reflexivity).
    replace (i + nnat l + 4) with (i + nnat (l + 4)) by (unfold nnat; lia).
    apply (fclause_adv pre rest x i (l + 4) _ _ Hk).
    apply (fl_reason_clause (zpre (l + 4) pre rest)). reflexivity.
  - (* request *)
    destruct (pf_set i i) as [m|]; [|exact I].
    apply fl_method_clause; [exact Hi|reflexivity].
Qed.

Lemma fl_iter_noNext pre rest i s : match it pre rest i s with Next _ _ => False | _ => True end.
Proof.
  unfold fl_iter, fl_init, fl_method_ph, fl_requri, fl_ver, fl_reason_ph, fl_crlf, skipLine.
  destruct (fl_state s); auto;
  repeat match goal with
         | |- context [match ?o with Some _ => _ | None => _ end] => destruct o
         | |- context [if ?b then _ else _] => destruct b
         | |- context [match skipCRLF ?r with _ => _ end] => destruct (skipCRLF r)
         | |- context [match skipn ?k ?r with _ => _ end] => destruct (skipn k r)
         | |- context [match ?l with [] => _ | _ :: _ => _ end] => destruct l
         end; exact I.
Qed.

Lemma fl_clause pre rest x i s : i = nnat (length pre) ->
  clause it pre rest x i (it pre rest i s) (it pre (rest ++ x) i s).
Proof.
  intros Hi. apply fclause_clause; [|apply fl_iter_noNext].
  unfold fl_iter. destruct (fl_state s) eqn:Est.
  - apply fl_init_clause; assumption.
  - apply fl_method_clause; assumption.
  - apply fl_requri_clause; assumption.
  - apply fl_ver_clause; assumption.
  - apply fclause_same. exact I.
  - apply fl_reason_clause; assumption.
  - apply fl_crlf_clause; assumption.
  - apply fclause_same. exact I.
Qed.

Theorem fline_IterExt : IterExt it.
Proof. apply clause_IterExt. intros pre rest x j t Hj. apply fl_clause. exact Hj. Qed.

Theorem fline_ExtOK : ExtOK parse_fline obs_fline (fun _ _ => True).
Proof. exact (parse_ExtOK fl_iter obs_fline fline_IterExt). Qed.
