(* C10: numeric values are exact or rejected, never silently wrapped.
   The arithmetic core of every numeric position of the model. *)
From Sipsp Require Import Harness IP4.
From Coq Require Import ZifyN ZifyNat ZifyBool.
Ltac Zify.zify_post_hook ::= Z.div_mod_to_equations.

Definition all_digits (ds : list byte) : Prop := forallb is_digit ds = true.

Lemma digit_val_le c : is_digit c = true -> digit_val c <= 9.
Proof. unfold is_digit, digit_val. lia. Qed.

(* ---- uint32 accumulation (CSeq, Expires, Content-Length) --------------------- *)
Lemma acc32_spec v d : d <= 9 ->
  acc32 v d = if v * 10 + d <=? MaxU32 then Some (v * 10 + d) else None.
Proof.
  intros Hd. unfold acc32, MaxU32.
  destruct ((4294967295 - d) / 10 <? v) eqn:E; destruct (v * 10 + d <=? 4294967295) eqn:E2; try reflexivity; lia.
Qed.

(* folding the accumulation over a digit string *)
Fixpoint acc32_all (v : N) (ds : list byte) : option N :=
  match ds with
  | [] => Some v
  | c :: r => match acc32 v (digit_val c) with Some v' => acc32_all v' r | None => None end
  end.

Theorem acc32_all_exact : forall ds v, all_digits ds -> v <= MaxU32 ->
  acc32_all v ds = if dec_from v ds <=? MaxU32 then Some (dec_from v ds) else None.
Proof.
  induction ds as [|c r IH]; intros v Hd Hv; cbn [acc32_all dec_from].
  - replace (v <=? MaxU32) with true by lia. reflexivity.
  - unfold all_digits in Hd. cbn in Hd. apply andb_true_iff in Hd as [Hc Hr].
    rewrite acc32_spec by (now apply digit_val_le).
    destruct (v * 10 + digit_val c <=? MaxU32) eqn:E.
    + apply IH; [exact Hr|lia].
    + pose proof (dec_from_mono (v * 10 + digit_val c) r).
      replace (dec_from (v * 10 + digit_val c) r <=? MaxU32) with false by lia. reflexivity.
Qed.

(* ---- uint64 with saturation (contact expires / q) ------------------------------ *)
Theorem pUInt64_exact : forall ds v, all_digits ds -> v <= MaxU64 ->
  pUInt64_go ds v = if dec_from v ds <=? MaxU64 then (dec_from v ds, EOk) else (MaxU64, ENumTooBig).
Proof.
  induction ds as [|c r IH]; intros v Hd Hv; cbn [pUInt64_go dec_from].
  - replace (v <=? MaxU64) with true by lia. reflexivity.
  - unfold all_digits in Hd. cbn in Hd. apply andb_true_iff in Hd as [Hc Hr]. rewrite Hc. cbn [negb].
    pose proof (digit_val_le c Hc) as Hle. unfold MaxU64 in *.
    destruct ((18446744073709551615 - digit_val c) / 10 <? v) eqn:E.
    + pose proof (dec_from_mono (v * 10 + digit_val c) r).
      replace (dec_from (v * 10 + digit_val c) r <=? 18446744073709551615) with false by lia. reflexivity.
    + apply IH; [exact Hr|lia].
Qed.

(* the contact expires parameter saturates at 2^32-1 *)
Definition expires_of (val : list byte) : N :=
  let '(e, _) := pUInt64Val val in if e <? MaxU32 then e else MaxU32.
Theorem contact_expires_saturates ds : all_digits ds -> expires_of ds = N.min (dec ds) MaxU32.
Proof.
  intros Hd. unfold expires_of, pUInt64Val, dec. rewrite pUInt64_exact by (auto; unfold MaxU64; lia).
  destruct (dec_from 0 ds <=? MaxU64) eqn:E.
  - destruct (dec_from 0 ds <? MaxU32) eqn:E2; unfold MaxU32 in *; lia.
  - replace (MaxU64 <? MaxU32) with false by reflexivity. unfold MaxU64, MaxU32 in *. lia.
Qed.

(* ---- reply status ------------------------------------------------------------- *)
Theorem status_exact a b c : is_digit a = true -> is_digit b = true -> is_digit c = true ->
  (digit_val a * 100 + digit_val b * 10 + digit_val c) mod 65536 = dec [a; b; c].
Proof.
  intros Ha Hb Hc. pose proof (digit_val_le a Ha). pose proof (digit_val_le b Hb). pose proof (digit_val_le c Hc).
  unfold dec. cbn [dec_from]. rewrite N.mod_small by lia. lia.
Qed.

(* ---- URI port ------------------------------------------------------------------ *)
Fixpoint port_all (l : uloc) (ds : list byte) : uloc :=
  match ds with [] => l | c :: r => port_all (u_acc_port c l) r end.

Theorem port_acc_exact : forall ds l, all_digits ds -> ul_portno l <= 65535 ->
  let p := ul_portno (port_all l ds) in
  (dec_from (ul_portno l) ds <= 65535 -> p = dec_from (ul_portno l) ds) /\
  (65535 < dec_from (ul_portno l) ds -> 65535 < p).
Proof.
  induction ds as [|c r IH]; intros l Hd Hv; cbn [port_all dec_from]; [cbn; split; intros; lia|].
  unfold all_digits in Hd. cbn in Hd. apply andb_true_iff in Hd as [Hc Hr].
  pose proof (digit_val_le c Hc) as Hle.
  unfold u_acc_port at 1 2. replace (ul_portno l <=? 65535) with true by lia.
  set (l1 := l <| ul_portno := ul_portno l * 10 + digit_val c |>).
  assert (E1 : ul_portno l1 = ul_portno l * 10 + digit_val c) by reflexivity.
  destruct (ul_portno l1 <=? 65535) eqn:E.
  - specialize (IH l1 Hr ltac:(lia)). rewrite E1 in IH. exact IH.
  - (* already too big: the accumulator stops growing but stays too big *)
    assert (Hstay : forall ds' l', 65535 < ul_portno l' -> ul_portno (port_all l' ds') = ul_portno l').
    { induction ds' as [|c' r' IH']; intros l' Hl'; cbn [port_all]; [reflexivity|].
      unfold u_acc_port. replace (ul_portno l' <=? 65535) with false by lia. apply IH'. exact Hl'. }
    rewrite Hstay by lia. rewrite E1.
    pose proof (dec_from_mono (ul_portno l * 10 + digit_val c) r). cbn zeta. split; intros; lia.
Qed.

(* non-vacuity: concrete boundary values *)
Example numbers_examples :
  acc32_all 0 [52;50;57;52;57;54;55;50;57;53] = Some 4294967295 /\
  acc32_all 0 [52;50;57;52;57;54;55;50;57;54] = None /\
  acc32_all 0 [57;57;57;57;57;57;57;57;57;57] = None /\
  expires_of [49;56;52;52;54;55;52;52;48;55;51;55;48;57;53;53;49;54;49;54] = MaxU32.
Proof. vm_compute. auto. Qed.
