(* C19: the string signatures (Call-ID, From-tag, Via branch) depend only on the character classes of the text:
   replacing a digit by a digit, a hex letter a-f (A-F) by another one, another lower (upper) case letter by another
   one, and any other unreserved byte by another one leaves getStrCharsSig - for any skipped region - unchanged;
   reserved characters (at dot colon dash underscore star plus slash equals bar) count as themselves. *)
From Sipsp Require Import Driver Harness StrSig TokSpec TokEoi CmpRender.
From Coq Require Import ZifyN ZifyNat ZifyBool.
From RecordUpdate Require Import RecordUpdate.

(* the class of a byte *)
Inductive bcls := KReserved (c : byte) | KDigit | KHexLower | KHexUpper | KLower | KUpper | KNone.
Definition bclass (c : byte) : bcls :=
  if negb (res_flag c =? 0) then KReserved c
  else if is_digit c then KDigit
  else if (97 <=? c) && (c <=? 102) then KHexLower
  else if (65 <=? c) && (c <=? 70) then KHexUpper
  else if is_lower c then KLower
  else if is_upper c then KUpper
  else KNone.

(* what the loop looks at *)
Definition tup (c : byte) : bool * bool * bool * bool * bool := (is_digit c, is_hexl c, is_hexl c || b64r c, is_lower c, is_upper c).
Definition tup_of (k : bcls) : bool * bool * bool * bool * bool :=
  match k with
  | KDigit => (true, false, false, false, false)
  | KHexLower => (false, true, true, true, false)
  | KHexUpper => (false, true, true, false, true)
  | KLower => (false, false, true, true, false)
  | KUpper => (false, false, true, false, true)
  | _ => (false, false, false, false, false)
  end.
Lemma tup_bclass c : res_flag c = 0 -> tup c = tup_of (bclass c).
Proof.
  intros R. unfold bclass. rewrite R. cbn [N.eqb negb].
  unfold tup, is_hexl, b64r, is_digit, is_lower, is_upper.
  destruct ((48 <=? c) && (c <=? 57)) eqn:D; [cbn [tup_of]; repeat f_equal; lia|].
  destruct ((97 <=? c) && (c <=? 102)) eqn:HL; [cbn [tup_of]; repeat f_equal; lia|].
  destruct ((65 <=? c) && (c <=? 70)) eqn:HU; [cbn [tup_of]; repeat f_equal; lia|].
  destruct ((97 <=? c) && (c <=? 122)) eqn:L; [cbn [tup_of]; repeat f_equal; lia|].
  destruct ((65 <=? c) && (c <=? 90)) eqn:U; [cbn [tup_of]; repeat f_equal; lia|].
  cbn [tup_of]. repeat f_equal; lia.
Qed.
Lemma res_flag_zero : res_flag 0 = 0. Proof. reflexivity. Qed.
Lemma bclass_res c c' : bclass c = bclass c' -> res_flag c = res_flag c' /\ (res_flag c <> 0 -> c = c') /\ (res_flag c = 0 -> tup c = tup c').
Proof.
  intros H. unfold bclass in H.
  destruct (res_flag c =? 0) eqn:R, (res_flag c' =? 0) eqn:R'; cbn [negb] in H.
  - apply N.eqb_eq in R, R'. split; [congruence|]. split; [congruence|]. intros _.
    rewrite (tup_bclass c R), (tup_bclass c' R'). unfold bclass. rewrite R, R'. cbn [N.eqb negb]. rewrite H. reflexivity.
  - exfalso. destruct (is_digit c); [discriminate|]. destruct (_ && _); [discriminate|]. destruct (_ && _); [discriminate|].
    destruct (is_lower c); [discriminate|]. destruct (is_upper c); discriminate.
  - exfalso. destruct (is_digit c'); [discriminate|]. destruct (_ && _); [discriminate|]. destruct (_ && _); [discriminate|].
    destruct (is_lower c'); [discriminate|]. destruct (is_upper c'); discriminate.
  - injection H as ->. split; [reflexivity|]. split; [reflexivity|]. intros E. rewrite E in R. discriminate.
Qed.
Lemma bclass_eq61 d d' : bclass d = bclass d' -> (d =? 61) = (d' =? 61).
Proof.
  intros H. destruct (bclass_res d d' H) as (R & E & _).
  destruct (d =? 61) eqn:A.
  - apply N.eqb_eq in A. subst d. rewrite <- (E ltac:(discriminate)). reflexivity.
  - destruct (d' =? 61) eqn:B; [|reflexivity]. apply N.eqb_eq in B. subst d'.
    assert (Rd : res_flag d <> 0) by (rewrite R; discriminate). rewrite (E Rd) in A. discriminate.
Qed.

Lemma step_class n so sl i c c' nxeq st : bclass c = bclass c' -> scs_step n so sl i c nxeq st = scs_step n so sl i c' nxeq st.
Proof.
  intros H. destruct (bclass_res c c' H) as (R & E & T).
  destruct (N.eq_dec (res_flag c) 0) as [Z|NZ]; [|rewrite (E NZ); reflexivity].
  specialize (T Z). unfold tup in T. injection T as T1 T2 T3 T4 T5.
  unfold scs_step. rewrite <- R, Z. cbn [N.eqb negb]. rewrite <- T1, <- T2, <- T4, <- T5.
  destruct (is_hexl c) eqn:Hh.
  - reflexivity.
  - rewrite <- T2 in T3. cbn [orb] in T3. rewrite <- T3. reflexivity.
Qed.
Lemma loop_class n so sl : forall s s' i st, map bclass s = map bclass s' -> scs_loop n so sl i s st = scs_loop n so sl i s' st.
Proof.
  induction s as [|c s IH]; intros s' i st H; destruct s' as [|c' s']; try discriminate; [reflexivity|].
  cbn [map] in H. injection H as Hc Hs. cbn [scs_loop].
  assert (Hn : match s with d :: _ => d =? 61 | [] => false end = match s' with d :: _ => d =? 61 | [] => false end).
  { destruct s as [|d s0], s' as [|d' s0']; try discriminate; [reflexivity|]. cbn [map] in Hs. injection Hs as Hd _. apply bclass_eq61. exact Hd. }
  rewrite Hn, (step_class n so sl i c c' _ st Hc). apply IH. exact Hs.
Qed.
Theorem str_chars_sig_classes s s' so sl : map bclass s = map bclass s' -> str_chars_sig s so sl = str_chars_sig s' so sl.
Proof.
  intros H. unfold str_chars_sig.
  assert (Hl : length s = length s') by (rewrite <- (map_length bclass s), H, map_length; reflexivity).
  rewrite Hl, (loop_class _ so sl s s' 0 scs0 H). reflexivity.
Qed.
(* the three uses *)
Theorem from_tag_sig_classes s s' : map bclass s = map bclass s' -> str_sig0 s = str_sig0 s'.
Proof. intros H. unfold str_sig0. rewrite (str_chars_sig_classes s s' 0 0 H). reflexivity. Qed.
Theorem callid_sig_classes has io il s s' : map bclass s = map bclass s' -> callid_sig_at has io il s = callid_sig_at has io il s'.
Proof.
  intros H. unfold callid_sig_at.
  assert (Hl : length s = length s') by (rewrite <- (map_length bclass s), H, map_length; reflexivity).
  rewrite Hl, (str_chars_sig_classes s s' io il H). reflexivity.
Qed.

(* ---- the Via branch: the first parameter named branch supplies the text; its classes decide ------------------------------------------------ *)
Definition branch_res (val : list byte) : N * N :=
  if (7 <? nnat (length val)) && eqb_nocase (firstn 7 val) str_brprefix then (str_sig0 (skipn 7 val), nnat (length val) - 7)
  else (str_sig0 val, nnat (length val)).
Lemma index_of_app c : forall (host rest : list byte) i, Forall (fun d => (d =? c) = false) host -> index_of c (host ++ c :: rest) i = Some (i + nnat (length host)).
Proof.
  induction host as [|d host IH]; intros rest i H.
  - cbn [app index_of length]. rewrite N.eqb_refl. f_equal. unfold nnat. lia.
  - inversion H as [|? ? Hd Hh]; subst. cbn [app index_of]. rewrite Hd, IH by exact Hh. f_equal. cbn [length]. unfold nnat. lia.
Qed.
Lemma bget_some buf (P M S : list byte) o n : buf = P ++ M ++ S -> o = nnat (length P) -> n = nnat (length M) -> bget buf (mkpf o n) = Some M.
Proof.
  intros -> -> ->. unfold bget, zget, pf_end. cbn [po pl]. exact (NameAddrSpec.zslice_mid [] (P ++ M ++ S) 0 P M S eq_refl eq_refl).
Qed.
Lemma branch_plain : plain viabr_flags 98 /\ Forall (plain viabr_flags) [114; 97; 110; 99; 104].
Proof. split; [|repeat constructor]; vm_compute; repeat split; reflexivity. Qed.
(* host-part ";branch=" value, the value running to the end of the Via text *)
Theorem viabr_branch_last (host : list byte) v0 value : Forall (fun d => (d =? 59) = false) host -> plain viabr_flags v0 -> Forall (plain viabr_flags) value ->
  viabr_sig_len (host ++ (59 : byte) :: str_branch ++ (61 : byte) :: v0 :: value) = Some (branch_res (v0 :: value)).
Proof.
  intros Hh Hv0 Hval. unfold viabr_sig_len. rewrite (index_of_app 59 host _ 0 Hh). cbn [length viabr_loop].
  set (junk := host ++ [(59 : byte)]).
  assert (Eb : host ++ (59 : byte) :: str_branch ++ (61 : byte) :: v0 :: value = junk ++ str_branch ++ (61 : byte) :: v0 :: value)
    by (subst junk; rewrite <- app_assoc; reflexivity).
  rewrite Eb. replace (0 + nnat (length host) + 1) with (nnat (length junk)) by (subst junk; rewrite app_length; cbn [length]; unfold nnat; lia).
  destruct branch_plain as [B0 B1].
  pose proof (tp_spec_eoi_at viabr_flags junk 98 [114; 97; 110; 99; 104] v0 value B0 B1 Hv0 Hval eq_refl) as T. cbv zeta in T.
  match type of T with _ = ?R => match goal with |- context [parse_tokparam ?a ?b ?c ?d] => replace (parse_tokparam a b c d) with R by (symmetry; exact T) end end. clear T.
  cbn [tp_name tp_val pl po].
  repeat match goal with |- context [bget ?B (mkpf ?o (nnat (length ?l)))] =>
    replace (bget B (mkpf o (nnat (length l)))) with (Some str_branch)
      by (symmetry; apply (bget_some B junk str_branch ((61 : byte) :: v0 :: value)); reflexivity) end.
  match goal with |- context [bget ?B (mkpf ?o ?n)] =>
    replace (bget B (mkpf o n)) with (Some (v0 :: value))
      by (symmetry; apply (bget_some B (junk ++ str_branch ++ [(61 : byte)]) (v0 :: value) []);
          [rewrite app_nil_r, <- !app_assoc; reflexivity|rewrite !app_length; unfold str_branch; cbn [length]; unfold nnat; lia|reflexivity]) end.
  replace (0 <? nnat (length (v0 :: value))) with true by (cbn [length]; unfold nnat; lia).
  match goal with |- context [nnat (length ?l) =? 6] => replace (nnat (length l) =? 6) with true by reflexivity end.
  replace (eqb_nocase str_branch str_branch) with true by reflexivity. cbn [andb]. unfold branch_res. destruct (_ && _); reflexivity.
Qed.
(* followed by another parameter *)
Theorem viabr_branch_then_more (host : list byte) v0 value c tail : Forall (fun d => (d =? 59) = false) host -> plain viabr_flags v0 -> Forall (plain viabr_flags) value -> plain viabr_flags c ->
  viabr_sig_len (host ++ (59 : byte) :: str_branch ++ (61 : byte) :: (v0 :: value) ++ (59 : byte) :: c :: tail) = Some (branch_res (v0 :: value)).
Proof.
  intros Hh Hv0 Hval Hc. unfold viabr_sig_len. rewrite (index_of_app 59 host _ 0 Hh). cbn [length viabr_loop].
  set (junk := host ++ [(59 : byte)]).
  assert (Eb : host ++ (59 : byte) :: str_branch ++ (61 : byte) :: (v0 :: value) ++ (59 : byte) :: c :: tail
               = junk ++ str_branch ++ (61 : byte) :: (v0 :: value) ++ (59 : byte) :: c :: tail)
    by (subst junk; rewrite <- app_assoc; reflexivity).
  rewrite Eb. replace (0 + nnat (length host) + 1) with (nnat (length junk)) by (subst junk; rewrite app_length; cbn [length]; unfold nnat; lia).
  destruct branch_plain as [B0 B1].
  pose proof (tp_spec_more_at viabr_flags junk 98 [114; 97; 110; 99; 104] v0 value c tail B0 B1 Hv0 Hval Hc) as T. cbv zeta in T.
  match type of T with _ = ?R => match goal with |- context [parse_tokparam ?a ?b ?c ?d] => replace (parse_tokparam a b c d) with R by (symmetry; exact T) end end. clear T.
  cbn [tp_name tp_val pl po].
  repeat match goal with |- context [bget ?B (mkpf ?o (nnat (length ?l)))] =>
    replace (bget B (mkpf o (nnat (length l)))) with (Some str_branch)
      by (symmetry; apply (bget_some B junk str_branch ((61 : byte) :: (v0 :: value) ++ (59 : byte) :: c :: tail)); reflexivity) end.
  match goal with |- context [bget ?B (mkpf ?o ?n)] =>
    replace (bget B (mkpf o n)) with (Some (v0 :: value))
      by (symmetry; apply (bget_some B (junk ++ str_branch ++ [(61 : byte)]) (v0 :: value) ((59 : byte) :: c :: tail));
          [rewrite <- !app_assoc; reflexivity|rewrite !app_length; unfold str_branch; cbn [length]; unfold nnat; lia|reflexivity]) end.
  replace (0 <? nnat (length (v0 :: value))) with true by (cbn [length]; unfold nnat; lia).
  match goal with |- context [nnat (length ?l) =? 6] => replace (nnat (length l) =? 6) with true by reflexivity end.
  replace (eqb_nocase str_branch str_branch) with true by reflexivity. cbn [andb]. unfold branch_res. destruct (_ && _); reflexivity.
Qed.
(* so the branch signature depends on the classes of the branch text after the RFC 3261 prefix *)
Theorem branch_res_classes val val' : firstn 7 val = firstn 7 val' -> map bclass (skipn 7 val) = map bclass (skipn 7 val') -> map bclass val = map bclass val' ->
  branch_res val = branch_res val'.
Proof.
  intros Hp Hs Ha. unfold branch_res.
  assert (Hl : length val = length val') by (rewrite <- (map_length bclass val), Ha, map_length; reflexivity).
  rewrite Hl, Hp, (from_tag_sig_classes _ _ Hs), (from_tag_sig_classes _ _ Ha). reflexivity.
Qed.

(* ---- parameters in front of the branch -------------------------------------------------------------------------------------------------------- *)
(* a parameter name=value; that is not the branch *)
Record vprm := mkvprm { vp_n0 : byte; vp_name : list byte; vp_v0 : byte; vp_value : list byte }.
Definition vp_ok (q : vprm) : Prop :=
  plain viabr_flags (vp_n0 q) /\ Forall (plain viabr_flags) (vp_name q) /\ plain viabr_flags (vp_v0 q) /\ Forall (plain viabr_flags) (vp_value q) /\
  eqb_nocase (vp_n0 q :: vp_name q) str_branch = false.
Definition vp_text (q : vprm) : list byte := (vp_n0 q :: vp_name q) ++ (61 : byte) :: (vp_v0 q :: vp_value q) ++ [(59 : byte)].
Definition vps_text (P : list vprm) : list byte := flat_map vp_text P.
Definition br_text (v0 : byte) (value : list byte) : list byte := str_branch ++ (61 : byte) :: v0 :: value.

Lemma loop_branch_last fuel (junk : list byte) v0 value : plain viabr_flags v0 -> Forall (plain viabr_flags) value ->
  viabr_loop (S fuel) (junk ++ br_text v0 value) (nnat (length junk)) = Some (branch_res (v0 :: value)).
Proof.
  intros Hv0 Hval. unfold br_text. cbn [viabr_loop]. destruct branch_plain as [B0 B1].
  pose proof (tp_spec_eoi_at viabr_flags junk 98 [114; 97; 110; 99; 104] v0 value B0 B1 Hv0 Hval eq_refl) as T. cbv zeta in T.
  match type of T with _ = ?R => match goal with |- context [parse_tokparam ?a ?b ?c ?d] => replace (parse_tokparam a b c d) with R by (symmetry; exact T) end end. clear T.
  cbn [tp_name tp_val pl po].
  repeat match goal with |- context [bget ?B (mkpf ?o (nnat (length ?l)))] =>
    replace (bget B (mkpf o (nnat (length l)))) with (Some str_branch)
      by (symmetry; apply (bget_some B junk str_branch ((61 : byte) :: v0 :: value)); reflexivity) end.
  match goal with |- context [bget ?B (mkpf ?o ?n)] =>
    replace (bget B (mkpf o n)) with (Some (v0 :: value))
      by (symmetry; apply (bget_some B (junk ++ str_branch ++ [(61 : byte)]) (v0 :: value) []);
          [rewrite app_nil_r, <- !app_assoc; reflexivity|rewrite !app_length; unfold str_branch; cbn [length]; unfold nnat; lia|reflexivity]) end.
  replace (0 <? nnat (length (v0 :: value))) with true by (cbn [length]; unfold nnat; lia).
  match goal with |- context [nnat (length ?l) =? 6] => replace (nnat (length l) =? 6) with true by reflexivity end.
  replace (eqb_nocase str_branch str_branch) with true by reflexivity. cbn [andb]. unfold branch_res. destruct (_ && _); reflexivity.
Qed.
Lemma loop_branch_more fuel (junk : list byte) v0 value c tail : plain viabr_flags v0 -> Forall (plain viabr_flags) value -> plain viabr_flags c ->
  viabr_loop (S fuel) (junk ++ br_text v0 value ++ (59 : byte) :: c :: tail) (nnat (length junk)) = Some (branch_res (v0 :: value)).
Proof.
  intros Hv0 Hval Hc. unfold br_text. cbn [viabr_loop]. destruct branch_plain as [B0 B1].
  pose proof (tp_spec_more_at viabr_flags junk 98 [114; 97; 110; 99; 104] v0 value c tail B0 B1 Hv0 Hval Hc) as T. cbv zeta in T.
  match type of T with parse_tokparam _ ?B _ _ = _ =>
    assert (Etxt : junk ++ (str_branch ++ (61 : byte) :: v0 :: value) ++ (59 : byte) :: c :: tail = B) by (rewrite <- !app_assoc; reflexivity) end.
  rewrite Etxt, T. clear T Etxt.
  cbn [tp_name tp_val pl po].
  repeat match goal with |- context [bget ?B (mkpf ?o (nnat (length ?l)))] =>
    replace (bget B (mkpf o (nnat (length l)))) with (Some str_branch)
      by (symmetry; apply (bget_some B junk str_branch ((61 : byte) :: (v0 :: value) ++ (59 : byte) :: c :: tail)); reflexivity) end.
  match goal with |- context [bget ?B (mkpf ?o ?n)] =>
    replace (bget B (mkpf o n)) with (Some (v0 :: value))
      by (symmetry; apply (bget_some B (junk ++ str_branch ++ [(61 : byte)]) (v0 :: value) ((59 : byte) :: c :: tail));
          [rewrite <- !app_assoc; reflexivity|rewrite !app_length; unfold str_branch; cbn [length]; unfold nnat; lia|reflexivity]) end.
  replace (0 <? nnat (length (v0 :: value))) with true by (cbn [length]; unfold nnat; lia).
  match goal with |- context [nnat (length ?l) =? 6] => replace (nnat (length l) =? 6) with true by reflexivity end.
  replace (eqb_nocase str_branch str_branch) with true by reflexivity. cbn [andb]. unfold branch_res. destruct (_ && _); reflexivity.
Qed.
(* one parameter that is not the branch is stepped over *)
Lemma loop_skip fuel (junk : list byte) q c tail : vp_ok q -> plain viabr_flags c ->
  viabr_loop (S fuel) (junk ++ vp_text q ++ c :: tail) (nnat (length junk)) = viabr_loop fuel ((junk ++ vp_text q) ++ c :: tail) (nnat (length (junk ++ vp_text q))).
Proof.
  intros (H0 & H1 & H2 & H3 & Hnb) Hc. cbn [viabr_loop]. unfold vp_text.
  pose proof (tp_spec_more_at viabr_flags junk (vp_n0 q) (vp_name q) (vp_v0 q) (vp_value q) c tail H0 H1 H2 H3 Hc) as T. cbv zeta in T.
  match type of T with parse_tokparam _ ?B _ _ = _ =>
    assert (Etxt : junk ++ ((vp_n0 q :: vp_name q) ++ (61 : byte) :: (vp_v0 q :: vp_value q) ++ [(59 : byte)]) ++ c :: tail = B)
      by (repeat (rewrite <- ?app_assoc; cbn [app]); reflexivity) end.
  rewrite Etxt, T. cbn [tp_name tp_val pl po].
  match goal with |- context [bget ?B (mkpf ?o ?n)] =>
    assert (Eb : bget B (mkpf o n) = Some (vp_n0 q :: vp_name q)) by (eapply (bget_some B junk (vp_n0 q :: vp_name q)); reflexivity) end.
  rewrite Eb, Hnb. rewrite !Bool.andb_false_r. cbv iota.
  rewrite <- Etxt. f_equal; [rewrite <- !app_assoc; reflexivity|].
  repeat (rewrite app_length; cbn [length]). unfold nnat. lia.
Qed.
Lemma loop_params : forall P fuel (junk : list byte) v0 value rest, Forall vp_ok P -> plain viabr_flags v0 -> Forall (plain viabr_flags) value ->
  (rest = [] \/ exists c tail, rest = (59 : byte) :: c :: tail /\ plain viabr_flags c) -> (length P < fuel)%nat ->
  viabr_loop fuel (junk ++ vps_text P ++ br_text v0 value ++ rest) (nnat (length junk)) = Some (branch_res (v0 :: value)).
Proof.
  induction P as [|q P IH]; intros fuel junk v0 value rest HP Hv0 Hval Hrest Hf.
  - cbn [vps_text flat_map app]. destruct fuel as [|fuel]; [cbn [length] in Hf; lia|].
    destruct Hrest as [->|(c & tail & -> & Hc)]; [rewrite app_nil_r; apply loop_branch_last; assumption|apply loop_branch_more; assumption].
  - pose proof (Forall_inv HP) as Hq. pose proof (Forall_inv_tail HP) as HP'. destruct fuel as [|fuel]; [cbn [length] in Hf; lia|].
    cbn [vps_text flat_map]. fold (vps_text P). rewrite <- app_assoc.
    assert (Hnext : exists c tail, vps_text P ++ br_text v0 value ++ rest = c :: tail /\ plain viabr_flags c).
    { destruct P as [|q2 P2].
      - exists 98. eexists. split; [reflexivity|exact (proj1 branch_plain)].
      - pose proof (Forall_inv HP') as (Q0 & _). exists (vp_n0 q2). eexists. split; [reflexivity|exact Q0]. }
    destruct Hnext as (c & tail & Et & Hc). rewrite Et. rewrite (loop_skip fuel junk q c tail Hq Hc). rewrite <- Et.
    apply IH; auto. cbn [length] in Hf. lia.
Qed.
Theorem viabr_branch_after_params (host : list byte) P v0 value rest : Forall (fun d => (d =? 59) = false) host -> Forall vp_ok P ->
  plain viabr_flags v0 -> Forall (plain viabr_flags) value -> (rest = [] \/ exists c tail, rest = (59 : byte) :: c :: tail /\ plain viabr_flags c) ->
  viabr_sig_len (host ++ (59 : byte) :: vps_text P ++ br_text v0 value ++ rest) = Some (branch_res (v0 :: value)).
Proof.
  intros Hh HP Hv0 Hval Hrest. unfold viabr_sig_len. rewrite (index_of_app 59 host _ 0 Hh).
  set (junk := host ++ [(59 : byte)]).
  assert (Eb : host ++ (59 : byte) :: vps_text P ++ br_text v0 value ++ rest = junk ++ vps_text P ++ br_text v0 value ++ rest)
    by (subst junk; rewrite <- app_assoc; reflexivity).
  rewrite Eb. replace (0 + nnat (length host) + 1) with (nnat (length junk)) by (subst junk; rewrite app_length; cbn [length]; unfold nnat; lia).
  apply loop_params; auto.
  (* one parameter takes at least four bytes *)
  assert (Hlen : forall P0, (length P0 <= length (vps_text P0))%nat).
  { induction P0 as [|q0 P0 IH0]; [cbn; lia|]. cbn [vps_text flat_map length]. fold (vps_text P0). rewrite app_length. unfold vp_text. rewrite app_length. cbn [length]. lia. }
  specialize (Hlen P). rewrite !app_length. lia.
Qed.
