(* C17: ParseTokenParam against the grammar (completeness): for a parameter written as
   name [ "=" value ] followed by the separator, the terminator or the end of the header, the parser
   reports exactly the name and value extents, the span of the whole parameter, and says which of the
   three ended it.  Proved at offset 0; any offset follows from the shift theorem (C11). *)
From Sipsp Require Import Driver Harness RunLemmas Ext ExtLeaf HdrSpec Shift ShiftFb ShiftTok.
From Coq Require Import ZifyN ZifyNat ZifyBool.
From RecordUpdate Require Import RecordUpdate.

(* a run over bytes on which the iteration stays in the same state *)
Lemma run_selfloop {St} (iter : list byte -> list byte -> N -> St -> ires St) (ok : byte -> Prop) (s : St) :
  (forall pre c r i, ok c -> iter pre (c :: r) i s = Next 1 s) ->
  forall a pre y i, Forall ok a -> run iter pre (a ++ y) i 0 s = run iter (rev a ++ pre) y (i + nnat (length a)) 0 s.
Proof.
  intros Hloop a. induction a as [|c a IH]; intros pre y i Ha.
  - cbn. f_equal. unfold nnat. lia.
  - inversion Ha as [|? ? Hc Ha']; subst. change ((c :: a) ++ y) with ([c] ++ a ++ y).
    rewrite (run_step iter pre [c] (a ++ y) i s s ltac:(discriminate) (Hloop pre c (a ++ y) i Hc)).
    cbn [rev app length]. rewrite IH by exact Ha'. rewrite <- app_assoc. cbn [app]. f_equal. unfold nnat. lia.
Qed.

Section TokSpec.
  Variable flags : N.
  Let f := tp_decode flags.
  Let it := tp_iter flags.
  Definition is_term_c (c : byte) : bool := (c =? tf_term f) && negb (tf_term f =? 0).
  (* a byte of a name or of an unquoted value *)
  Definition plain (c : byte) : Prop :=
    is_ws c = false /\ (c =? 61) = false /\ (c =? 34) = false /\ is_term_c c = false /\ (c =? tf_sep f) = false /\
    tok_allowed (tf_uriparam f) c = true.

  Lemma name_loop s pre c r i : tp_state s = PName -> plain c -> it pre (c :: r) i s = Next 1 s.
  Proof.
    intros Hs (P1 & P2 & P3 & P4 & P5 & P6). unfold it, tp_iter. fold f. rewrite Hs. unfold tp_step, tp_sName.
    rewrite P1, P2. fold (is_term_c c). rewrite P4, P5, P6. reflexivity.
  Qed.
  Lemma val_loop s pre c r i : tp_state s = PVal -> plain c -> it pre (c :: r) i s = Next 1 s.
  Proof.
    intros Hs (P1 & P2 & P3 & P4 & P5 & P6). unfold it, tp_iter. fold f. rewrite Hs. unfold tp_step, tp_sVal.
    rewrite P1. fold (is_term_c c). rewrite P4, P5, P6. reflexivity.
  Qed.

  (* after the first byte of the name, up to the byte that ends it *)
  Lemma run_name name pre y i al nm vl : Forall plain name ->
    run it pre (name ++ y) i 0 (mktokparam al nm vl PName) = run it (rev name ++ pre) y (i + nnat (length name)) 0 (mktokparam al nm vl PName).
  Proof. intros H. apply (run_selfloop it plain); [intros p c r j Hc; apply name_loop; [reflexivity|exact Hc]|exact H]. Qed.
  Lemma run_val value pre y i al nm vl : Forall plain value ->
    run it pre (value ++ y) i 0 (mktokparam al nm vl PVal) = run it (rev value ++ pre) y (i + nnat (length value)) 0 (mktokparam al nm vl PVal).
  Proof. intros H. apply (run_selfloop it plain); [intros p c r j Hc; apply val_loop; [reflexivity|exact Hc]|exact H]. Qed.
End TokSpec.

Section TokSpec2.
  Variable flags : N.
  Let f := tp_decode flags.
  Let it := tp_iter flags.
  Notation plain := (plain flags).

  Lemma run1 pre c r i s s' : it pre (c :: r) i s = Next 1 s' -> run it pre (c :: r) i 0 s = run it (c :: pre) r (i + 1) 0 s'.
  Proof.
    intros H. pose proof (run_step it pre [c] r i s s' ltac:(discriminate) H) as X. cbn [app rev length] in X.
    replace (i + nnat 1) with (i + 1) in X by (unfold nnat; lia). exact X.
  Qed.

  (* name "=" value, then the separator and the first byte of the next parameter *)
  Theorem tp_spec_more n0 name v0 value c tail : plain n0 -> Forall plain name -> plain v0 -> Forall plain value -> plain c ->
    let ln := nnat (length (n0 :: name)) in let lv := nnat (length (v0 :: value)) in
    parse_tokparam flags ((n0 :: name) ++ 61 :: (v0 :: value) ++ tf_sep f :: c :: tail) 0 tokparam0
    = Done (ln + 1 + lv + 1) EMoreValues (mktokparam (mkpf 0 (ln + 1 + lv)) (mkpf 0 ln) (mkpf (ln + 1) lv) PInitNxtVal).
  Proof.
    intros Hn0 Hname Hv0 Hvalue Hc ln lv. unfold parse_tokparam, parse, zinit. cbn [N.to_nat firstn skipn rev app].
    fold it. unfold f in *.
    destruct Hn0 as (A1 & A2 & A3 & A4 & A5 & A6). destruct Hv0 as (B1 & B2 & B3 & B4 & B5 & B6). destruct Hc as (C1 & C2 & C3 & C4 & C5 & C6).
    (* first byte of the name *)
    rewrite (run1 [] n0 _ 0 tokparam0 (mktokparam (mkpf 0 0) (mkpf 0 0) pf0 PName)).
    2:{ unfold it, tp_iter. cbn [tp_state tokparam0]. unfold tp_step, tp_sInit. rewrite A1, A5, A6. cbn [negb is_tp_fnxt]. reflexivity. }
    (* the rest of the name *)
    rewrite (run_name flags name [n0] _ (0 + 1) _ _ _ Hname).
    (* '=' *)
    remember (0 + 1 + nnat (length name)) as i1 eqn:Ei1.
    rewrite (run1 _ 61 _ i1 _ (mktokparam (mkpf 0 (i1 + 1)) (mkpf 0 i1) pf0 PFVal)).
    2:{ unfold it, tp_iter. cbn [tp_state]. unfold tp_step, tp_sName, ext2, pf_extend. cbn [tp_name tp_all po pl].
        replace (is_ws 61) with false by reflexivity. cbn [N.eqb Pos.eqb]. replace (i1 <? 0) with false by lia. replace (i1 + 1 <? 0) with false by lia.
        rewrite ?N.sub_0_r. reflexivity. }
    (* first byte of the value *)
    rewrite (run1 _ v0 _ (i1 + 1) _ (mktokparam (mkpf 0 (i1 + 1)) (mkpf 0 i1) (mkpf (i1 + 1) 0) PVal)).
    2:{ unfold it, tp_iter. cbn [tp_state]. unfold tp_step, tp_sFVal, pf_set, pf_extend. cbn [tp_all po pl]. rewrite B1, B3. fold (is_term_c flags v0). rewrite B4, B5, B6.
        cbn [negb]. replace (i1 + 1 <? i1 + 1) with false by lia. replace (i1 + 1 <? 0) with false by lia. rewrite ?N.sub_0_r, ?N.sub_diag. reflexivity. }
    (* the rest of the value *)
    rewrite (run_val flags value _ _ (i1 + 1 + 1) _ _ _ Hvalue).
    (* the separator *)
    remember (i1 + 1 + 1 + nnat (length value)) as i2 eqn:Ei2.
    rewrite (run1 _ (tf_sep f) _ i2 _ (mktokparam (mkpf 0 i2) (mkpf 0 i1) (mkpf (i1 + 1) (i2 - (i1 + 1))) PFNxt)).
    2:{ unfold it, tp_iter. cbn [tp_state]. unfold tp_step, tp_sVal, ext2, pf_extend. cbn [tp_val tp_all po pl].
        assert (Hsw : is_ws (tf_sep f) = false) by (unfold tp_decode; cbn; destruct (_ || _); reflexivity).
        assert (Hst : is_term_c flags (tf_sep f) = false).
        { unfold is_term_c, tp_decode. cbn. destruct (testbit flags bPOptParamAmpSep || testbit flags bPOptTokURIHdr);
            destruct (testbit flags bPOptTokQmTerm || testbit flags bPOptTokURIParam); try reflexivity; destruct (testbit flags bPOptTokCommaTerm); reflexivity. }
        rewrite Hsw. fold (is_term_c flags (tf_sep f)). rewrite Hst, N.eqb_refl.
        replace (i2 <? i1 + 1) with false by lia. replace (i2 <? 0) with false by lia. rewrite ?N.sub_0_r. reflexivity. }
    (* first byte of the next parameter: more values *)
    rewrite run_after.
    replace (it (tf_sep f :: rev value ++ v0 :: 61 :: rev name ++ [n0]) (c :: tail) (i2 + 1) _)
      with (Ret (i2 + 1) EMoreValues (mktokparam (mkpf 0 i2) (mkpf 0 i1) (mkpf (i1 + 1) (i2 - (i1 + 1))) PInitNxtVal) : ires tokparam).
    2:{ unfold it, tp_iter. cbn [tp_state]. unfold tp_step, tp_sInit. rewrite C1, C5, C6. cbn [negb is_tp_fnxt]. reflexivity. }
    cbn [after]. subst ln lv. cbn [length]. unfold nnat in *. f_equal; [lia|]. f_equal; f_equal; lia.
  Qed.

  Lemma sep_not_ws : is_ws (tf_sep f) = false.
  Proof. unfold f, tp_decode; cbn; destruct (_ || _); reflexivity. Qed.
  Lemma sep_not_term : is_term_c flags (tf_sep f) = false.
  Proof.
    unfold is_term_c, f, tp_decode. cbn. destruct (testbit flags bPOptParamAmpSep || testbit flags bPOptTokURIHdr);
      destruct (testbit flags bPOptTokQmTerm || testbit flags bPOptTokURIParam); try reflexivity; destruct (testbit flags bPOptTokCommaTerm); reflexivity.
  Qed.

  (* a parameter without value, then the separator and the next parameter *)
  Theorem tp_spec_novalue n0 name c tail : plain n0 -> Forall plain name -> plain c ->
    let ln := nnat (length (n0 :: name)) in
    parse_tokparam flags ((n0 :: name) ++ tf_sep f :: c :: tail) 0 tokparam0
    = Done (ln + 1) EMoreValues (mktokparam (mkpf 0 ln) (mkpf 0 ln) pf0 PInitNxtVal).
  Proof.
    intros Hn0 Hname Hc ln. unfold parse_tokparam, parse, zinit. cbn [N.to_nat firstn skipn rev app]. fold it.
    pose proof sep_not_ws as Hsw. pose proof sep_not_term as Hst. unfold f in *.
    destruct Hn0 as (A1 & A2 & A3 & A4 & A5 & A6). destruct Hc as (C1 & C2 & C3 & C4 & C5 & C6).
    rewrite (run1 [] n0 _ 0 tokparam0 (mktokparam (mkpf 0 0) (mkpf 0 0) pf0 PName)).
    2:{ unfold it, tp_iter. cbn [tp_state tokparam0]. unfold tp_step, tp_sInit. rewrite A1, A5, A6. cbn [negb is_tp_fnxt]. reflexivity. }
    rewrite (run_name flags name [n0] _ (0 + 1) _ _ _ Hname).
    remember (0 + 1 + nnat (length name)) as i1 eqn:Ei1.
    rewrite (run1 _ (tf_sep (tp_decode flags)) _ i1 _ (mktokparam (mkpf 0 i1) (mkpf 0 i1) pf0 PFNxt)).
    2:{ unfold it, tp_iter. cbn [tp_state]. unfold tp_step, tp_sName, ext2, pf_extend. cbn [tp_name tp_all po pl].
        rewrite Hsw. fold (is_term_c flags (tf_sep (tp_decode flags))). rewrite Hst, N.eqb_refl.
        assert (E61 : (tf_sep (tp_decode flags) =? 61) = false) by (unfold tp_decode; cbn; destruct (_ || _); reflexivity). rewrite E61.
        replace (i1 <? 0) with false by lia. rewrite ?N.sub_0_r. reflexivity. }
    rewrite run_after.
    replace (it _ (c :: tail) (i1 + 1) _) with (Ret (i1 + 1) EMoreValues (mktokparam (mkpf 0 i1) (mkpf 0 i1) pf0 PInitNxtVal) : ires tokparam).
    2:{ unfold it, tp_iter. cbn [tp_state]. unfold tp_step, tp_sInit. rewrite C1, C5, C6. cbn [negb is_tp_fnxt]. reflexivity. }
    cbn [after]. subst ln. cbn [length]. unfold nnat in *. f_equal; [lia|]. f_equal; f_equal; lia.
  Qed.

  (* name "=" value ended by the terminator character (',' or '?' according to the flags): the offset of the terminator, ok *)
  Theorem tp_spec_term n0 name v0 value t tail : plain n0 -> Forall plain name -> plain v0 -> Forall plain value ->
    is_term_c flags t = true ->
    let ln := nnat (length (n0 :: name)) in let lv := nnat (length (v0 :: value)) in
    parse_tokparam flags ((n0 :: name) ++ 61 :: (v0 :: value) ++ t :: tail) 0 tokparam0
    = Done (ln + 1 + lv) EOk (mktokparam (mkpf 0 (ln + 1 + lv)) (mkpf 0 ln) (mkpf (ln + 1) lv) PFIN).
  Proof.
    intros Hn0 Hname Hv0 Hvalue Ht ln lv. unfold parse_tokparam, parse, zinit. cbn [N.to_nat firstn skipn rev app]. fold it. unfold f in *.
    destruct Hn0 as (A1 & A2 & A3 & A4 & A5 & A6). destruct Hv0 as (B1 & B2 & B3 & B4 & B5 & B6).
    rewrite (run1 [] n0 _ 0 tokparam0 (mktokparam (mkpf 0 0) (mkpf 0 0) pf0 PName)).
    2:{ unfold it, tp_iter. cbn [tp_state tokparam0]. unfold tp_step, tp_sInit. rewrite A1, A5, A6. cbn [negb is_tp_fnxt]. reflexivity. }
    rewrite (run_name flags name [n0] _ (0 + 1) _ _ _ Hname).
    remember (0 + 1 + nnat (length name)) as i1 eqn:Ei1.
    rewrite (run1 _ 61 _ i1 _ (mktokparam (mkpf 0 (i1 + 1)) (mkpf 0 i1) pf0 PFVal)).
    2:{ unfold it, tp_iter. cbn [tp_state]. unfold tp_step, tp_sName, ext2, pf_extend. cbn [tp_name tp_all po pl].
        replace (is_ws 61) with false by reflexivity. cbn [N.eqb Pos.eqb]. replace (i1 <? 0) with false by lia. replace (i1 + 1 <? 0) with false by lia.
        rewrite ?N.sub_0_r. reflexivity. }
    rewrite (run1 _ v0 _ (i1 + 1) _ (mktokparam (mkpf 0 (i1 + 1)) (mkpf 0 i1) (mkpf (i1 + 1) 0) PVal)).
    2:{ unfold it, tp_iter. cbn [tp_state]. unfold tp_step, tp_sFVal, pf_set, pf_extend. cbn [tp_all po pl]. rewrite B1, B3. fold (is_term_c flags v0). rewrite B4, B5, B6.
        cbn [negb]. replace (i1 + 1 <? i1 + 1) with false by lia. replace (i1 + 1 <? 0) with false by lia. rewrite ?N.sub_0_r, ?N.sub_diag. reflexivity. }
    rewrite (run_val flags value _ _ (i1 + 1 + 1) _ _ _ Hvalue).
    remember (i1 + 1 + 1 + nnat (length value)) as i2 eqn:Ei2.
    rewrite run_after.
    assert (Htw : is_ws t = false).
    { unfold is_term_c in Ht. apply andb_true_iff in Ht as [Ht1 _]. apply N.eqb_eq in Ht1. subst t. unfold tp_decode. cbn.
      destruct (testbit flags bPOptTokQmTerm || testbit flags bPOptTokURIParam); [reflexivity|]. destruct (testbit flags bPOptTokCommaTerm); reflexivity. }
    replace (it _ (t :: tail) i2 _) with (Ret i2 EOk (mktokparam (mkpf 0 i2) (mkpf 0 i1) (mkpf (i1 + 1) (i2 - (i1 + 1))) PFIN) : ires tokparam).
    2:{ unfold it, tp_iter. cbn [tp_state]. unfold tp_step, tp_sVal, ext2, pf_extend. cbn [tp_val tp_all po pl]. rewrite Htw. fold (is_term_c flags t). rewrite Ht.
        replace (i2 <? i1 + 1) with false by lia. replace (i2 <? 0) with false by lia. rewrite ?N.sub_0_r. reflexivity. }
    cbn [after]. subst ln lv. cbn [length]. unfold nnat in *. f_equal; [lia|]. f_equal; f_equal; lia.
  Qed.

  (* name "=" value, optional blanks, end of the header line (CR LF not followed by a blank): end of header at the offset after the line *)
  Theorem tp_spec_eoh n0 name v0 value sp x tail : plain n0 -> Forall plain name -> plain v0 -> Forall plain value ->
    spaces sp -> is_sp x = false -> tf_ie f = false ->
    let ln := nnat (length (n0 :: name)) in let lv := nnat (length (v0 :: value)) in
    parse_tokparam flags ((n0 :: name) ++ 61 :: (v0 :: value) ++ sp ++ CR :: LF :: x :: tail) 0 tokparam0
    = Done (ln + 1 + lv + nnat (length sp) + 2) EEOH (mktokparam (mkpf 0 (ln + 1 + lv)) (mkpf 0 ln) (mkpf (ln + 1) lv) PFIN).
  Proof.
    intros Hn0 Hname Hv0 Hvalue Hsp Hx Hie ln lv. unfold parse_tokparam, parse, zinit. cbn [N.to_nat firstn skipn rev app]. fold it. unfold f in *.
    destruct Hn0 as (A1 & A2 & A3 & A4 & A5 & A6). destruct Hv0 as (B1 & B2 & B3 & B4 & B5 & B6).
    rewrite (run1 [] n0 _ 0 tokparam0 (mktokparam (mkpf 0 0) (mkpf 0 0) pf0 PName)).
    2:{ unfold it, tp_iter. cbn [tp_state tokparam0]. unfold tp_step, tp_sInit. rewrite A1, A5, A6. cbn [negb is_tp_fnxt]. reflexivity. }
    rewrite (run_name flags name [n0] _ (0 + 1) _ _ _ Hname).
    remember (0 + 1 + nnat (length name)) as i1 eqn:Ei1.
    rewrite (run1 _ 61 _ i1 _ (mktokparam (mkpf 0 (i1 + 1)) (mkpf 0 i1) pf0 PFVal)).
    2:{ unfold it, tp_iter. cbn [tp_state]. unfold tp_step, tp_sName, ext2, pf_extend. cbn [tp_name tp_all po pl].
        replace (is_ws 61) with false by reflexivity. cbn [N.eqb Pos.eqb]. replace (i1 <? 0) with false by lia. replace (i1 + 1 <? 0) with false by lia.
        rewrite ?N.sub_0_r. reflexivity. }
    rewrite (run1 _ v0 _ (i1 + 1) _ (mktokparam (mkpf 0 (i1 + 1)) (mkpf 0 i1) (mkpf (i1 + 1) 0) PVal)).
    2:{ unfold it, tp_iter. cbn [tp_state]. unfold tp_step, tp_sFVal, pf_set, pf_extend. cbn [tp_all po pl]. rewrite B1, B3. fold (is_term_c flags v0). rewrite B4, B5, B6.
        cbn [negb]. replace (i1 + 1 <? i1 + 1) with false by lia. replace (i1 + 1 <? 0) with false by lia. rewrite ?N.sub_0_r, ?N.sub_diag. reflexivity. }
    rewrite (run_val flags value _ _ (i1 + 1 + 1) _ _ _ Hvalue).
    remember (i1 + 1 + 1 + nnat (length value)) as i2 eqn:Ei2.
    rewrite run_after.
    set (R := sp ++ CR :: LF :: x :: tail).
    assert (Hws : exists c0 r0, R = c0 :: r0 /\ is_ws c0 = true).
    { subst R. destruct sp as [|s0 sp']; [exists CR, (LF :: x :: tail); split; reflexivity|].
      exists s0, (sp' ++ CR :: LF :: x :: tail). split; [reflexivity|]. inversion Hsp as [|? ? Hs0 _]; subst. unfold is_ws. rewrite Hs0. reflexivity. }
    destruct Hws as (c0 & r0 & ER & Hc0).
    replace (it _ R i2 _) with (Ret (i2 + nnat (length sp) + nnat 2) EEOH (mktokparam (mkpf 0 i2) (mkpf 0 i1) (mkpf (i1 + 1) (i2 - (i1 + 1))) PFIN) : ires tokparam).
    2:{ unfold it, tp_iter. cbn [tp_state]. rewrite ER. unfold tp_step, tp_sVal. rewrite Hc0. unfold tp_ws. rewrite Hie, <- ER. subst R.
        rewrite (skipLWS_sp_eol sp x tail Hsp Hx). unfold ext2, pf_extend. cbn [tp_val tp_all po pl].
        replace (i2 <? i1 + 1) with false by lia. replace (i2 <? 0) with false by lia. rewrite ?N.sub_0_r. reflexivity. }
    cbn [after]. subst ln lv. cbn [length]. unfold nnat in *. f_equal; [lia|]. f_equal; f_equal; lia.
  Qed.
End TokSpec2.

(* at any offset, whatever precedes: the shift theorem applied to the statement at offset 0 *)
Lemma zp_nonempty k f f' : zp k f f' -> pl f <> 0 -> f' = shf k f.
Proof. intros [->|[-> _]] H; [reflexivity|exfalso; apply H; reflexivity]. Qed.

Theorem tp_spec_more_at flags junk n0 name v0 value c tail : plain flags n0 -> Forall (plain flags) name -> plain flags v0 -> Forall (plain flags) value -> plain flags c ->
  let k := nnat (length junk) in let ln := nnat (length (n0 :: name)) in let lv := nnat (length (v0 :: value)) in
  parse_tokparam flags (junk ++ (n0 :: name) ++ 61 :: (v0 :: value) ++ tf_sep (tp_decode flags) :: c :: tail) k tokparam0
  = Done (k + (ln + 1 + lv + 1)) EMoreValues (mktokparam (mkpf k (ln + 1 + lv)) (mkpf k ln) (mkpf (k + (ln + 1)) lv) PInitNxtVal).
Proof.
  intros Hn0 Hname Hv0 Hvalue Hc k ln lv.
  pose proof (tp_spec_more flags n0 name v0 value c tail Hn0 Hname Hv0 Hvalue Hc) as H0. cbv zeta in H0. fold ln lv in H0.
  pose proof (tokparam_shift flags junk ((n0 :: name) ++ 61 :: (v0 :: value) ++ tf_sep (tp_decode flags) :: c :: tail) 0 ltac:(unfold nnat; lia)) as Hs.
  rewrite H0 in Hs. replace (0 + nnat (length junk)) with k in Hs by (subst k; lia). unfold res_shiftI in Hs. rewrite rev_length in Hs. fold k in Hs.
  assert (Hln : ln <> 0) by (subst ln; cbn [length]; unfold nnat; lia).
  assert (Hlv : lv <> 0) by (subst lv; cbn [length]; unfold nnat; lia).
  clearbody ln lv k.
  destruct (parse_tokparam flags _ k tokparam0) as [o' e' s'| |]; try contradiction.
  destruct Hs as (-> & <- & Hst & Hf). cbn [tp_state tp_live tp_all tp_name tp_val lvp] in Hst, Hf. destruct Hf as (F1 & F2 & F3).
  apply zp_nonempty in F1; [|cbn [pl]; lia].
  apply zp_nonempty in F2; [|cbn [pl]; lia].
  apply zp_nonempty in F3; [|cbn [pl]; lia].
  destruct s' as [al nm vl st]. cbn [tp_state tp_all tp_name tp_val] in Hst, F1, F2, F3. subst al nm vl st. unfold shf. cbn [po pl].
  f_equal; [lia|]. f_equal; f_equal; lia.
Qed.
