(* C05, message level: the nesting theorems for the values kept in PHdrVals - From, To (name, URI, parameter span inside the value; tag inside
   the parameter span) and CSeq (number first, method after it at the end of the value) - for every successfully parsed message, any feeding
   schedule.  The threading of UpperBound.v (header line, block, message; one call from fresh objects, schedules by C01) with one more
   conjunct that does not depend on the offset. *)
From Sipsp Require Import Harness RunLemmas Safe SafeLeaf SafeMore SafeMsg Resume Layout LowerBound LowerLists TrimSpec HdrLine HdrLineBounds
  Capacity CapHeaders BlockSpec UpperBound CSeqNest NameAddrNest NameAddrTag.
From Sipsp Require Import MsgBounds ExtMsg SigCoherent.
From Sipsp Require Import RunLemmas Safe Resume Ext ExtLeaf ZSlice Harness ExtFLine ExtAdv ExtHdrLine ExtHeaders ExtLists
  SafeLeaf SafeMore SafeMsg Capacity CapHeaders Layout BlockSpec ContactSpec TrimSpec LowerLists LowerBound.
From Coq Require Import ZifyN ZifyNat ZifyBool.
From RecordUpdate Require Import RecordUpdate.

Definition fnest (s : pfrom) : Prop := fb_nest s /\ tag_nest s.
(* the expires summary bounds every finished value: stored, scratch or first *)
Definition exin (c : contacts) (v : pfrom) : Prop :=
  fb_parsed v = true -> ct_n c <> 0 /\ ct_minexp c <= fb_expires v /\ fb_expires v <= ct_maxexp c.
Definition EXct (c : contacts) : Prop := Forall (exin c) (ct_vals c) /\ exin c (ct_last c) /\ exin c (ct_first c).
Lemma exin_0 c : exin c pfrom0. Proof. unfold exin. cbn. discriminate. Qed.
Definition NSct (c : contacts) : Prop := (Forall fnest (ct_vals c) /\ fnest (ct_last c) /\ fnest (ct_first c)) /\ EXct c.
Definition NSpa (c : pais) : Prop := Forall fnest (pa_vals c) /\ fnest (pa_last c).
Definition NSv (v : phvals) : Prop :=
  fnest (pv_from v) /\ fnest (pv_to v) /\ cs_nest (pv_cseq v) /\ NSct (pv_contacts v) /\ NSpa (pv_pais v).
Definition NSo (o : option phvals) : Prop := match o with Some v => NSv v | None => True end.
Definition NPo (i : N) (o : option phvals) : Prop := UPo i o /\ NSo o.
Lemma NPo_mono i o p : i <= o -> NPo i p -> NPo o p.
Proof. intros H [A B]. split; [apply (UPo_mono i); assumption|exact B]. Qed.
Lemma fnest_0 : fnest pfrom0.
Proof. unfold fnest, fb_nest, tag_nest, pfrom0. cbn. auto. Qed.
Lemma NSv_init nc : NSv (phvals_init (repeat pfrom0 nc)).
Proof.
  unfold NSv, phvals_init. cbn [pv_from pv_to pv_cseq pv_contacts pv_pais]. split; [apply fnest_0|]. split; [apply fnest_0|].
  split; [unfold cs_nest, pf_end; cbn; repeat split; lia|]. split.
  - unfold NSct, EXct, contacts_init. cbn [ct_vals ct_last ct_first]. split.
    + split; [apply Forall_forall; intros x Hx; apply repeat_spec in Hx; subst x; apply fnest_0|]. split; apply fnest_0.
    + split; [apply Forall_forall; intros x Hx; apply repeat_spec in Hx; subst x; apply exin_0|]. split; apply exin_0.
  - unfold NSpa, pais0. cbn [pa_vals pa_last]. split; [apply Forall_forall; intros x Hx; apply repeat_spec in Hx; subst x; apply fnest_0|apply fnest_0].
Qed.

(* the leaves: a value parser started on a fresh object at the zipper of the header line *)
Lemma fb_fresh_nest h pre rest i o e v : i = nnat (length pre) -> run (fb_iter h) pre rest i 0 pfrom0 = Done o e v ->
  e = EOk \/ e = EMoreValues -> fnest v.
Proof.
  intros Hi H He.
  pose proof (run_invQ (fb_iter h) (fun p j t => fb_inv 0 p j t /\ NNI p j t /\ TNI p j t) NameAddrTag.TQ (iter_tag h) rest pre i pfrom0 Hi) as R.
  rewrite H in R. specialize (R (conj (pfrom0_inv 0 pre i ltac:(lia)) (conj (NNI_pfrom0 pre i Hi) (TNI_pfrom0 pre i)))).
  destruct R as (_ & _ & _ & _ & _ & [_ Q2]). exact (Q2 He).
Qed.
Lemma cs_fresh_nest pre rest i o s s' : cs_state s = CsInit -> run cs_iter pre rest i 0 s = Done o EOk s' -> cs_nest s'.
Proof.
  intros Hs H.
  pose proof (run_inv cs_iter (fun _ j t => CsInv j t) (fun o0 e0 t => (e0 = EMore -> CsInv o0 t) /\ (e0 = EOk -> cs_nest t))) as R.
  assert (Hstep : forall pre rest j t, CsInv j t ->
            match cs_iter pre rest j t with
            | Next k t' => (0 < k)%nat -> (k <= length rest)%nat -> CsInv (j + nnat k) t'
            | Ret o0 e0 t' => (e0 = EMore -> CsInv o0 t') /\ (e0 = EOk -> cs_nest t')
            | IPanic => True
            end).
  { intros p r j t P1. pose proof (cs_iter_nest p r j t P1) as X. destruct (cs_iter p r j t) as [k t'|o0 e0 t'|]; cbn [cs_res] in X; [intros _ _; exact X|tauto|exact I]. }
  specialize (R Hstep rest pre i s ltac:(unfold CsInv; rewrite Hs; exact I)). rewrite H in R. exact (proj2 R eq_refl).
Qed.


(* ---- the multi-value lists --------------------------------------------------------------------------------------------------------------- *)
Lemma ct_count_exp c1 v c6 : ct_count c1 v = Some c6 ->
  ct_maxexp c6 = N.max (ct_maxexp c1) (fb_expires v) /\ ct_minexp c6 = N.min (if ct_n c1 =? 0 then MaxU32 else ct_minexp c1) (fb_expires v).
Proof.
  destruct c1 as [vals n hno mx mn lh last first]. unfold ct_count, ct_cap. cbn.
  destruct (n =? 0); cbn.
  all: match goal with |- context [match ?x with Some _ => _ | None => _ end] => destruct x end; [|discriminate].
  all: cbn; destruct (mx <? fb_expires v) eqn:E1; cbn.
  all: match goal with |- context [fb_expires ?vv <? ?m] => destruct (fb_expires vv <? m) eqn:E2 end; cbn.
  all: destruct ((n + 1 =? 1) && (nnat (length vals) =? 0)); cbn; intros H; injection H as <-; cbn; split; lia.
Qed.
Lemma exin_mono c c' v : (ct_n c <> 0 -> ct_n c' <> 0) -> (ct_n c <> 0 -> ct_minexp c' <= ct_minexp c) -> ct_maxexp c <= ct_maxexp c' -> exin c v -> exin c' v.
Proof. unfold exin. intros H1 H2 H3 H Hp. destruct (H Hp) as (A & B & C). specialize (H1 A). specialize (H2 A). split; [exact H1|lia]. Qed.
Lemma ct_ns_next l v c6 (more : bool) : NSct l -> fnest v -> fb_parsed v = true -> ct_count (ct_store l v) v = Some c6 ->
  NSct (if more then ct_reset_last_if (ct_slot_is_last l) c6 else c6).
Proof.
  intros ((A & B & C) & (EA & EB & EC)) Hv Hpar E6.
  destruct (ct_store_proj l v) as (S1 & S2 & S3 & S4 & S5 & S6 & S7 & S8).
  destruct (ct_count_proj _ _ _ E6) as (P1 & P2 & P3 & P4 & P5). destruct (ct_count_exp _ _ _ E6) as (M1 & M2). rewrite S1, S3, S4 in *.
  set (X := if more then ct_reset_last_if (ct_slot_is_last l) c6 else c6).
  assert (Xp : ct_vals X = ct_vals c6 /\ ct_first X = ct_first c6 /\
               ct_last X = (if more && ct_slot_is_last l then pfrom0 else ct_last c6) /\
               ct_n X = ct_n c6 /\ ct_minexp X = ct_minexp c6 /\ ct_maxexp X = ct_maxexp c6).
  { subst X. unfold ct_reset_last_if. destruct more, (ct_slot_is_last l); destruct c6; cbn; repeat split; reflexivity. }
  destruct Xp as (X1 & X3 & X5 & X6 & X7 & X8).
  assert (Hold : forall w, exin l w -> exin X w).
  { intros w. apply exin_mono; [intros _; rewrite X6, P2; lia| |rewrite X8, M1; lia].
    intros Hn. rewrite X7, M2. replace (ct_n l =? 0) with false by lia. lia. }
  assert (Hnew : exin X v).
  { intros _. rewrite X6, P2, X7, M2, X8, M1. split; [lia|]. destruct (ct_n l =? 0); lia. }
  split; unfold EXct; rewrite X1, X3, X5, P1, P4, P5, S6, S7, S8.
  - split; [destruct (ct_slot_is_last l); [exact A|apply Forall_set_nth; assumption]|].
    split; [destruct (more && ct_slot_is_last l); [apply fnest_0|destruct (ct_slot_is_last l); assumption]|].
    destruct (_ && _); assumption.
  - split; [destruct (ct_slot_is_last l); [eapply Forall_impl; [exact Hold|exact EA]|apply Forall_set_nth; [eapply Forall_impl; [exact Hold|exact EA]|exact Hnew]]|].
    split; [destruct (more && ct_slot_is_last l); [apply exin_0|destruct (ct_slot_is_last l); [exact Hnew|apply Hold; exact EB]]|].
    destruct (_ && _); [exact Hnew|apply Hold; exact EC].
Qed.
Lemma ct_iter_ns pre rest i c : i = nnat (length pre) -> LBct 0 c -> NSct c ->
  match ct_iter pre rest i c with
  | Next k c' => NSct c'
  | Ret o e c' => e = EOk -> NSct c'
  | IPanic => True
  end.
Proof.
  intros Hi Hlb Hns. destruct Hlb as (Hwf & Hsel & Hlh). rewrite ct_iter_def, Hsel in *.
  destruct (run (fb_iter HdrContact) pre rest i 0 pfrom0) as [next e v| |] eqn:Er; [|exact I|exact I].
  rewrite ct_post_eq in *. cbv zeta in *.
  destruct e; try (intros E; discriminate E).
  - pose proof (fb_fresh_nest HdrContact pre rest i next EOk v Hi Er (or_introl eq_refl)) as Hv.
    destruct (ct_count (ct_store c v) v) as [c6|] eqn:E6; [|exact I]. intros _.
    exact (ct_ns_next c v c6 false Hns Hv (fb_run_ok_parsed _ _ _ _ _ _ _ _ Er (or_introl eq_refl)) E6).
  - pose proof (fb_fresh_nest HdrContact pre rest i next EMoreValues v Hi Er (or_intror eq_refl)) as Hv.
    destruct (ct_count (ct_store c v) v) as [c6|] eqn:E6; [|exact I].
    exact (ct_ns_next c v c6 true Hns Hv (fb_run_ok_parsed _ _ _ _ _ _ _ _ Er (or_intror eq_refl)) E6).
Qed.
Lemma ct_run_ns pre rest o c n c' : o = nnat (length pre) -> UBct o c -> LBct 0 c -> NSct c ->
  run ct_iter pre rest o 0 c = Done n EOk c' -> NSct c'.
Proof.
  intros Ho Hub Hlb Hns H.
  pose proof (run_invQ ct_iter (fun _ j t => UBct j t /\ LBct 0 t /\ NSct t) (fun _ _ _ n0 e t => e = EOk -> NSct t)) as R.
  specialize (R ltac:(intros p r j t Hj (P1 & P2 & P3); pose proof (ct_iter_ub p r j t Hj (conj P1 P2)) as X; pose proof (ct_iter_ns p r j t Hj P2 P3) as Y;
                      destruct (ct_iter p r j t) as [k t'|n0 e t'|]; auto;
                      intros Hk0 Hk; destruct (X Hk0 Hk); split; [assumption|split; assumption])
                rest pre o c Ho (conj Hub (conj Hlb Hns))).
  rewrite H in R. destruct R as (_ & _ & _ & _ & _ & HQ). exact (HQ eq_refl).
Qed.

Lemma pa_iter_ns pre rest i c : i = nnat (length pre) -> LBpa 0 c -> NSpa c ->
  match pa_iter pre rest i c with
  | Next k c' => NSpa c'
  | Ret o e c' => e = EOk -> NSpa c'
  | IPanic => True
  end.
Proof.
  intros Hi Hlb Hns. destruct Hlb as (Hwf & Hsel & Hlh). rewrite pa_iter_def, Hsel in *.
  destruct (run (fb_iter HdrPAI) pre rest i 0 pfrom0) as [next e0 v| |] eqn:Er; [|exact I|exact I].
  unfold pa_post in *. cbv zeta in *. rewrite pa_store_prep, pa_is_last_prep in *.
  destruct (pa_store_proj c v) as (S1 & S2 & S3 & S4 & S5).
  assert (Main : forall more : bool, e0 = EOk \/ e0 = EMoreValues ->
            match (if (pa_n (pa_store c v) =? 0) || pf_empty (pa_lasthval (pa_store c v)) then Some (fb_v v)
                   else pf_extend (pa_lasthval (pa_store c v)) (pf_end (fb_v v))) with
            | Some lh => NSpa (if more then pa_reset_last_if (pa_slot_is_last c) ((pa_store c v) <| pa_lasthval := lh |> <| pa_n := pa_n (pa_store c v) + 1 |>)
                               else (pa_store c v) <| pa_lasthval := lh |> <| pa_n := pa_n (pa_store c v) + 1 |>)
            | None => True
            end).
  { intros more He. pose proof (fb_fresh_nest HdrPAI pre rest i next e0 v Hi Er He) as Hv. destruct Hns as (A & B).
    destruct (if (pa_n (pa_store c v) =? 0) || _ then _ else _) as [lh|] eqn:El; [|exact I].
    set (c3 := (pa_store c v) <| pa_lasthval := lh |> <| pa_n := pa_n (pa_store c v) + 1 |>).
    assert (C3 : pa_vals c3 = pa_vals (pa_store c v) /\ pa_last c3 = pa_last (pa_store c v))
      by (subst c3; destruct (pa_store c v); cbn; repeat split; reflexivity).
    destruct C3 as (C2 & C4).
    set (X := if more then pa_reset_last_if (pa_slot_is_last c) c3 else c3).
    assert (Xp : pa_vals X = pa_vals c3 /\ pa_last X = (if more && pa_slot_is_last c then pfrom0 else pa_last c3)).
    { subst X. unfold pa_reset_last_if. destruct more, (pa_slot_is_last c); destruct c3; cbn; repeat split; reflexivity. }
    destruct Xp as (X1 & X5). unfold NSpa. rewrite X1, X5, C2, C4, S4, S5.
    split; [destruct (pa_slot_is_last c); [exact A|apply Forall_set_nth; assumption]|].
    destruct (more && pa_slot_is_last c); [apply fnest_0|destruct (pa_slot_is_last c); assumption]. }
  destruct e0; cbn [err_eqb orb andb] in *; try (intros E; discriminate E).
  - destruct (fb_star v); cbn [andb] in *; [intros E; discriminate E|].
    pose proof (Main false (or_introl eq_refl)) as M. destruct (if (pa_n (pa_store c v) =? 0) || _ then _ else _); [|exact I]. intros _. exact M.
  - destruct (fb_star v); cbn [andb] in *; [intros E; discriminate E|].
    pose proof (Main true (or_intror eq_refl)) as M. destruct (if (pa_n (pa_store c v) =? 0) || _ then _ else _); [|exact I]. exact M.
Qed.
Lemma pa_run_ns pre rest o c n c' : o = nnat (length pre) -> UBpa o c -> LBpa 0 c -> NSpa c ->
  run pa_iter pre rest o 0 c = Done n EOk c' -> NSpa c'.
Proof.
  intros Ho Hub Hlb Hns H.
  pose proof (run_invQ pa_iter (fun _ j t => UBpa j t /\ LBpa 0 t /\ NSpa t) (fun _ _ _ n0 e t => e = EOk -> NSpa t)) as R.
  specialize (R ltac:(intros p r j t Hj (P1 & P2 & P3); pose proof (pa_iter_ub p r j t Hj (conj P1 P2)) as X; pose proof (pa_iter_ns p r j t Hj P2 P3) as Y;
                      destruct (pa_iter p r j t) as [k t'|n0 e t'|]; auto;
                      intros Hk0 Hk; destruct (X Hk0 Hk); split; [assumption|split; assumption])
                rest pre o c Ho (conj Hub (conj Hlb Hns))).
  rewrite H in R. destruct R as (_ & _ & _ & _ & _ & HQ). exact (HQ eq_refl).
Qed.

Lemma NS_from v b : NSv v -> fnest b -> NSv (v <| pv_from := b |>). Proof. destruct v; unfold NSv; cbn; intuition. Qed.
Lemma NS_to v b : NSv v -> fnest b -> NSv (v <| pv_to := b |>). Proof. destruct v; unfold NSv; cbn; intuition. Qed.
Lemma NS_cseq v b : NSv v -> cs_nest b -> NSv (v <| pv_cseq := b |>). Proof. destruct v; unfold NSv; cbn; intuition. Qed.
Lemma NS_contacts v b : NSv v -> NSct b -> NSv (v <| pv_contacts := b |>). Proof. destruct v; unfold NSv; cbn; intuition. Qed.
Lemma NS_pais v b : NSv v -> NSpa b -> NSv (v <| pv_pais := b |>). Proof. destruct v; unfold NSv; cbn; intuition. Qed.
Lemma NS_other v v' : NSv v -> pv_from v' = pv_from v -> pv_to v' = pv_to v -> pv_cseq v' = pv_cseq v ->
  pv_contacts v' = pv_contacts v -> pv_pais v' = pv_pais v -> NSv v'.
Proof. unfold NSv. intros H -> -> -> -> ->. exact H. Qed.
Lemma NSct_newhdr c : NSct c -> NSct (c <| ct_hno := ct_hno c + 1 |> <| ct_lasthval := pf0 |>).
Proof. destruct c. unfold NSct, EXct, exin. cbn. auto. Qed.
Lemma NSpa_newhdr c : NSpa c -> NSpa (c <| pa_hno := pa_hno c + 1 |> <| pa_lasthval := pf0 |>).
Proof. destruct c. unfold NSpa. cbn. auto. Qed.

Lemma hb_run_NS hs v' pre rest o st : o = nnat (length pre) -> hb_pick st = Some (hs, v') -> UPo o (hx_pv st) -> NSo (hx_pv st) ->
  match hb_run hs pre rest o st v' with
  | Ret n e st' => e = EOk -> NSo (hx_pv st')
  | _ => True
  end.
Proof.
  intros Ho. unfold hb_pick. destruct (hx_pv st) as [v|] eqn:Epv; [|discriminate]. cbv zeta. intros Hpick [HUB HPR] HNS. cbn [NSo] in HNS.
  pose proof HPR as (HPRv & F1 & F2). pose proof HPRv as (P1 & P2 & P3 & P4 & P5 & P6).
  set (t := h_type (hx_h st)) in *.
  assert (Fin : forall {B} (R : list byte -> list byte -> N -> B -> res B) sel put valof hs0 (vv : phvals),
            (forall pre rest o st v, hb_run hs0 pre rest o st v
               = hb_finish (R pre rest o (sel v)) (st <| hx_h := (hx_h st) <| h_state := hs0 |> |>) valof (put v)) ->
            (forall n b', R pre rest o (sel vv) = Done n EOk b' -> NSv (put vv b')) ->
            match hb_run hs0 pre rest o st vv with
            | Ret n e st' => e = EOk -> NSo (hx_pv st')
            | _ => True
            end).
  { intros B R sel put valof hs0 vv Hdef HR. pose proof (hb_lay R sel put valof hs0 Hdef pre rest o st vv) as H.
    destruct (hb_run hs0 pre rest o st vv) as [|n e st'|]; [exact I| |exact I].
    destruct H as (b' & ER & Epv' & _). intros He. subst e. rewrite Epv'. exact (HR n b' ER). }
  destruct (t =? HdrFrom) eqn:E1.
  { destruct (fb_parsed (pv_from v)) eqn:Ep; [discriminate|]. injection Hpick as <- <-.
    apply (Fin _ (fun pre rest o b => run (fb_iter HdrFrom) pre rest o 0 b) pv_from (fun v b => v <| pv_from := b |>) fb_v HFrom v); [reflexivity|].
    intros n b' ER. destruct F1 as [X|X]; [congruence|]. rewrite X in ER.
    apply NS_from; [exact HNS|exact (fb_fresh_nest HdrFrom pre rest o n EOk b' Ho ER (or_introl eq_refl))]. }
  destruct (t =? HdrTo) eqn:E2.
  { destruct (fb_parsed (pv_to v)) eqn:Ep; [discriminate|]. injection Hpick as <- <-.
    apply (Fin _ (fun pre rest o b => run (fb_iter HdrTo) pre rest o 0 b) pv_to (fun v b => v <| pv_to := b |>) fb_v HTo v); [reflexivity|].
    intros n b' ER. destruct F2 as [X|X]; [congruence|]. rewrite X in ER.
    apply NS_to; [exact HNS|exact (fb_fresh_nest HdrTo pre rest o n EOk b' Ho ER (or_introl eq_refl))]. }
  destruct (t =? HdrCallID) eqn:E3.
  { destruct (ci_parsed (pv_callid v)) eqn:Ep; [discriminate|]. injection Hpick as <- <-.
    apply (Fin _ (fun pre rest o b => run ci_iter pre rest o 0 b) pv_callid (fun v b => v <| pv_callid := b |>) ci_callid HCallID v); [reflexivity|].
    intros n b' ER. apply (NS_other v); [exact HNS|destruct v; reflexivity..]. }
  destruct (t =? HdrCSeq) eqn:E4.
  { destruct (cs_parsed (pv_cseq v)) eqn:Ep; [discriminate|]. injection Hpick as <- <-.
    apply (Fin _ (fun pre rest o b => run cs_iter pre rest o 0 b) pv_cseq (fun v b => v <| pv_cseq := b |>) cs_v HCSeq v); [reflexivity|].
    intros n b' ER. destruct P2 as [X|X]; [congruence|].
    apply NS_cseq; [exact HNS|exact (cs_fresh_nest pre rest o n _ b' X ER)]. }
  destruct (t =? HdrCLen) eqn:E5.
  { destruct (ui_parsed (pv_clen v)) eqn:Ep; [discriminate|]. injection Hpick as <- <-.
    apply (Fin _ clen_R pv_clen (fun v b => v <| pv_clen := b |>) ui_sval HCLen v); [reflexivity|].
    intros n b' ER. apply (NS_other v); [exact HNS|destruct v; reflexivity..]. }
  destruct (t =? HdrContact) eqn:E6.
  { injection Hpick as <- <-. pose proof HUB as (_&_&_&_&_&_&U7&U8). destruct HNS as (G1 & G2 & G3 & G4 & G5).
    set (c1 := (pv_contacts v) <| ct_hno := ct_hno (pv_contacts v) + 1 |> <| ct_lasthval := pf0 |>).
    assert (Hc1 : LBct 0 c1) by (subst c1; apply ct_newhdr_LB; exact P5).
    assert (Hu1 : UBct o c1) by (subst c1; apply UBct_newhdr; exact U7).
    assert (Hn1 : NSct c1) by (subst c1; apply NSct_newhdr; exact G4).
    apply (Fin _ (fun pre rest o b => run ct_iter pre rest o 0 b) pv_contacts (fun v b => v <| pv_contacts := b |>) ct_lasthval HContact); [reflexivity|].
    intros n b' ER. replace (pv_contacts (v <| pv_contacts := c1 |>)) with c1 in ER by (destruct v; reflexivity).
    pose proof (ct_run_ns pre rest o c1 n b' Ho Hu1 Hc1 Hn1 ER) as B1.
    replace ((v <| pv_contacts := c1 |>) <| pv_contacts := b' |>) with (v <| pv_contacts := b' |>) by (destruct v; reflexivity).
    apply NS_contacts; [exact (conj G1 (conj G2 (conj G3 (conj G4 G5))))|exact B1]. }
  destruct (t =? HdrExpires) eqn:E7.
  { destruct (ui_parsed (pv_expires v)) eqn:Ep; [discriminate|]. injection Hpick as <- <-.
    apply (Fin _ (fun pre rest o b => run ui_iter pre rest o 0 b) pv_expires (fun v b => v <| pv_expires := b |>) ui_sval HExpires v); [reflexivity|].
    intros n b' ER. apply (NS_other v); [exact HNS|destruct v; reflexivity..]. }
  destruct (t =? HdrPAI) eqn:E8; [|discriminate].
  injection Hpick as <- <-. pose proof HUB as (_&_&_&_&_&_&U7&U8). destruct HNS as (G1 & G2 & G3 & G4 & G5).
  set (c1 := (pv_pais v) <| pa_hno := pa_hno (pv_pais v) + 1 |> <| pa_lasthval := pf0 |>).
  assert (Hc1 : LBpa 0 c1) by (subst c1; apply pa_newhdr_LB; exact P6).
  assert (Hu1 : UBpa o c1) by (subst c1; apply UBpa_newhdr; exact U8).
  assert (Hn1 : NSpa c1) by (subst c1; apply NSpa_newhdr; exact G5).
  apply (Fin _ (fun pre rest o b => run pa_iter pre rest o 0 b) pv_pais (fun v b => v <| pv_pais := b |>) pa_lasthval HPAI); [reflexivity|].
  intros n b' ER. replace (pv_pais (v <| pv_pais := c1 |>)) with c1 in ER by (destruct v; reflexivity).
  pose proof (pa_run_ns pre rest o c1 n b' Ho Hu1 Hc1 Hn1 ER) as B1.
  replace ((v <| pv_pais := c1 |>) <| pv_pais := b' |>) with (v <| pv_pais := b' |>) by (destruct v; reflexivity).
  apply NS_pais; [exact (conj G1 (conj G2 (conj G3 (conj G4 G5))))|exact B1].
Qed.
Lemma hb_run_NP hs v' pre rest o st : o = nnat (length pre) -> hb_pick st = Some (hs, v') -> NPo o (hx_pv st) ->
  match hb_run hs pre rest o st v' with
  | Ret n e st' => e = EOk -> o <= n /\ NPo n (hx_pv st')
  | _ => True
  end.
Proof.
  intros Ho Hp [HU HN]. pose proof (hb_run_UB hs v' pre rest o st Ho Hp HU) as A. pose proof (hb_run_NS hs v' pre rest o st Ho Hp HU HN) as B.
  destruct (hb_run hs pre rest o st v') as [|n e st'|]; auto. intros He. destruct (A He) as [A1 A2]. split; [exact A1|]. split; [exact A2|exact (B He)].
Qed.

Definition NLn (pre : list byte) (i : N) (st : hline) : Prop :=
  match h_state (hx_h st) with
  | HInit | HName | HNameEnd | HBodyStart | HVal | HValEnd | HFIN => NPo i (hx_pv st)
  | _ => False
  end.
Definition NLQ (pre rest : list byte) (i o : N) (e : err) (st : hline) : Prop := e = EOk \/ e = EEmpty -> i <= o /\ NPo o (hx_pv st).
Definition NL_res (pre rest : list byte) (i : N) (r : ires hline) : Prop :=
  match r with
  | Next k st' => (0 < k)%nat -> (k <= length rest)%nat -> NLn (zpre k pre rest) (i + nnat k) st'
  | Ret o e st' => NLQ pre rest i o e st'
  | IPanic => True
  end.
Lemma NL_intro pre i st p : hx_pv st = p -> genstate (h_state (hx_h st)) = true -> NPo i p -> NLn pre i st.
Proof. intros <- Hg H. unfold NLn. destruct (h_state (hx_h st)); try discriminate; exact H. Qed.

Lemma colon_NL pre rest i k st : i = nnat (length pre) -> (S k <= length rest)%nat -> NPo i (hx_pv st) ->
  NL_res pre rest i (hl_colon pre rest i k st).
Proof.
  intros Hi Hk Hpr. rewrite hl_colon_eq. unfold hl_colon'. destruct (zget _ _ _ _) as [name|]; [|exact I]. cbv zeta.
  assert (Ho : i + nnat k + 1 = nnat (length (zpre (S k) pre rest))).
  { unfold zpre. rewrite app_length, rev_length, firstn_length. unfold nnat in *. lia. }
  set (st1 := st <| hx_h := (hx_h st) <| h_state := HBodyStart |> <| h_type := get_hdr_type name |> |>).
  assert (F1 : hx_pv st1 = hx_pv st) by (subst st1; destruct st as [h pv]; reflexivity).
  assert (F2 : h_state (hx_h st1) = HBodyStart) by (subst st1; destruct st as [h pv]; destruct h; reflexivity).
  clearbody st1.
  destruct (hb_pick st1) as [[hs v']|] eqn:Ep.
  - pose proof (hb_run_NP hs v' (zpre (S k) pre rest) (zrest (S k) rest) (i + nnat k + 1) st1 Ho Ep
                  ltac:(rewrite F1; apply (NPo_mono i); [lia|exact Hpr])) as H.
    pose proof (hb_run_noNext hs (zpre (S k) pre rest) (zrest (S k) rest) (i + nnat k + 1) st1 v') as Hnn.
    destruct (hb_run hs _ _ _ st1 v') as [|n e st'|] eqn:Ehb; [destruct Hnn| |exact I].
    unfold NL_res, NLQ. intros [He|He]; [destruct (H He) as [A B]; split; [lia|exact B]|].
    pose proof (hb_run_noEmpty hs (zpre (S k) pre rest) (zrest (S k) rest) (i + nnat k + 1) st1 v') as Hne. rewrite Ehb in Hne. congruence.
  - unfold NL_res. intros _ _. apply (NL_intro _ _ st1 (hx_pv st) F1); [rewrite F2; reflexivity|]. apply (NPo_mono i); [unfold nnat; lia|exact Hpr].
Qed.

Lemma name_ph_NL pre rest i st : i = nnat (length pre) -> NPo i (hx_pv st) -> NL_res pre rest i (hl_name_ph pre rest i st).
Proof.
  intros Hi Hpr. unfold hl_name_ph. cbv zeta. set (k := skipTokenDelim 58 rest).
  destruct (skipn k rest) as [|c r] eqn:Sk; [intros [E|E]; discriminate E|]. pose proof (skipn_cons_len _ _ _ _ Sk) as Hk.
  destruct (is_sp c).
  - destruct (pf_extend (h_name (hx_h st)) (i + nnat k)) as [n|]; [|exact I]. destruct (pf_empty n); [intros [E|E]; discriminate E|].
    unfold NL_res. intros _ _.
    match goal with |- NLn _ _ ?S => set (st' := S) end.
    assert (F1 : hx_pv st' = hx_pv st) by (subst st'; destruct st as [h pv]; reflexivity).
    assert (F2 : h_state (hx_h st') = HNameEnd) by (subst st'; destruct st as [h pv]; destruct h; reflexivity).
    clearbody st'. apply (NL_intro _ _ st' (hx_pv st) F1); [rewrite F2; reflexivity|apply (NPo_mono i); [unfold nnat; lia|exact Hpr]].
  - destruct (c =? 58); [|intros [E|E]; discriminate E].
    destruct (pf_extend (h_name (hx_h st)) (i + nnat k)) as [n|]; [|exact I]. destruct (pf_empty n); [intros [E|E]; discriminate E|].
    match goal with |- NL_res _ _ _ (hl_colon _ _ _ _ ?S) => set (st' := S) end.
    assert (F1 : hx_pv st' = hx_pv st) by (subst st'; destruct st as [h pv]; reflexivity).
    clearbody st'. apply colon_NL; [exact Hi|exact Hk|rewrite F1; exact Hpr].
Qed.

Lemma NL_step pre rest i st : i = nnat (length pre) -> NLn pre i st -> NL_res pre rest i (hl_iter pre rest i st).
Proof.
  intros Hi Hs. unfold NLn in Hs. destruct rest as [|c r].
  { unfold hl_iter, NL_res. intros [E|E]; discriminate E. }
  destruct (h_state (hx_h st)) eqn:Est; try contradiction.
  - rewrite (hit_init pre c r i st Est).
    assert (Hemp : forall o', i <= o' -> NL_res pre (c :: r) i (Ret o' EEmpty (st <| hx_h := (hx_h st) <| h_state := HFIN |> |>))).
    { intros o' Ho'. unfold NL_res, NLQ. intros _. split; [exact Ho'|].
      replace (hx_pv (st <| hx_h := (hx_h st) <| h_state := HFIN |> |>)) with (hx_pv st) by (destruct st as [h pv]; reflexivity).
      apply (NPo_mono i); assumption. }
    destruct (is_cr c); [destruct r as [|d r2]; [intros [E|E]; discriminate E|apply Hemp; destruct (is_lf d); lia]|].
    destruct (is_lf c); [apply Hemp; lia|].
    destruct (pf_set i i) as [n|]; [|exact I]. cbv beta iota.
    apply name_ph_NL; [exact Hi|]. destruct st as [h pv]; exact Hs.
  - rewrite (hit_name pre _ i st Est). apply name_ph_NL; assumption.
  - rewrite (hit_nameend pre _ i st Est). unfold hl_nameend. cbv zeta.
    destruct (skipn _ (c :: r)) as [|d r'] eqn:Sk; [intros [E|E]; discriminate E|]. destruct (d =? 58); [|intros [E|E]; discriminate E].
    apply colon_NL; [exact Hi|exact (skipn_cons_len _ _ _ _ Sk)|exact Hs].
  - rewrite (hit_bstart pre _ i st Est). unfold hl_bstart.
    destruct (skipLWS false (c :: r)) as [k|k crl|k]; [| |intros [E|E]; discriminate E].
    + destruct (pf_set _ _) as [v|]; [|exact I]. unfold NL_res. intros _ _.
      match goal with |- NLn _ _ ?S => set (st' := S) end.
      assert (F1 : hx_pv st' = hx_pv st) by (subst st'; destruct st as [h pv]; reflexivity).
      assert (F2 : h_state (hx_h st') = HVal) by (subst st'; destruct st as [h pv]; destruct h; reflexivity).
      clearbody st'. apply (NL_intro _ _ st' (hx_pv st) F1); [rewrite F2; reflexivity|apply (NPo_mono i); [unfold nnat; lia|exact Hs]].
    + unfold NL_res, NLQ. intros _. split; [unfold nnat; lia|].
      match goal with |- NPo _ (hx_pv ?S) => replace (hx_pv S) with (hx_pv st) by (destruct st as [h pv]; reflexivity) end.
      apply (NPo_mono i); [unfold nnat; lia|exact Hs].
  - rewrite (hit_val pre _ i st Est). unfold hl_val. cbv zeta.
    destruct (skipn (skipToken (c :: r)) (c :: r)) as [|d r']; [intros [E|E]; discriminate E|].
    destruct (pf_extend _ _) as [v1|]; [|exact I]. unfold hl_valend.
    destruct (skipLWS false (d :: r')) as [k2|k2 crl|k2]; [| |intros [E|E]; discriminate E].
    + unfold NL_res. intros _ _.
      match goal with |- NLn _ _ ?S => set (st' := S) end.
      assert (F1 : hx_pv st' = hx_pv st) by (subst st'; destruct st as [h pv]; reflexivity).
      assert (F2 : h_state (hx_h st') = HVal) by (subst st'; destruct st as [h pv]; destruct h; reflexivity).
      clearbody st'. apply (NL_intro _ _ st' (hx_pv st) F1); [rewrite F2; reflexivity|apply (NPo_mono i); [unfold nnat; lia|exact Hs]].
    + unfold NL_res, NLQ. intros _. split; [unfold nnat; lia|].
      match goal with |- NPo _ (hx_pv ?S) => replace (hx_pv S) with (hx_pv st) by (destruct st as [h pv]; reflexivity) end.
      apply (NPo_mono i); [unfold nnat; lia|exact Hs].
  - rewrite (hit_valend pre _ i st Est). unfold hl_valend.
    destruct (skipLWS false (c :: r)) as [k2|k2 crl|k2]; [| |intros [E|E]; discriminate E].
    + unfold NL_res. intros _ _.
      match goal with |- NLn _ _ ?S => set (st' := S) end.
      assert (F1 : hx_pv st' = hx_pv st) by (subst st'; destruct st as [h pv]; reflexivity).
      assert (F2 : h_state (hx_h st') = HVal) by (subst st'; destruct st as [h pv]; destruct h; reflexivity).
      clearbody st'. apply (NL_intro _ _ st' (hx_pv st) F1); [rewrite F2; reflexivity|apply (NPo_mono i); [unfold nnat; lia|exact Hs]].
    + unfold NL_res, NLQ. intros _. split; [unfold nnat; lia|].
      match goal with |- NPo _ (hx_pv ?S) => replace (hx_pv S) with (hx_pv st) by (destruct st as [h pv]; reflexivity) end.
      apply (NPo_mono i); [unfold nnat; lia|exact Hs].
  - rewrite (hit_fin pre c r i st Est). intros [E|E]; discriminate E.
Qed.


Definition BN (pre : list byte) (i : N) (st : hdrs_st) : Prop := NPo i (hs_pv st) /\ LI (hs_l st).
Definition BNQ (pre rest : list byte) (i o : N) (e : err) (st : hdrs_st) : Prop := e = EOk -> i <= o /\ NPo o (hs_pv st).

Lemma BN_step pre rest i st : i = nnat (length pre) -> BN pre i st ->
  match hs_iter pre rest i st with
  | Next k st' => (0 < k)%nat -> (k <= length rest)%nat -> BN (zpre k pre rest) (i + nnat k) st'
  | Ret o e st' => BNQ pre rest i o e st'
  | IPanic => True
  end.
Proof.
  intros Hi (Hp & [Hwf Hslot]). destruct rest as [|c r]; [intros E; discriminate E|].
  rewrite hs_iter_def. unfold hs_sel. rewrite Hslot.
  pose proof (run_invQ hl_iter (fun p j s => i <= j /\ NLn p j s) (fun _ _ _ o e s => e = EOk \/ e = EEmpty -> i <= o /\ NPo o (hx_pv s))) as R.
  specialize (R ltac:(intros p r0 j s Hj [P0 P1]; pose proof (NL_step p r0 j s Hj P1) as X; destruct (hl_iter p r0 j s) as [k s'|o e s'|]; auto;
                      [intros Hk0 Hk; split; [unfold nnat; lia|exact (X Hk0 Hk)]|intros He; destruct (X He) as [A B]; split; [lia|exact B]])
                (c :: r) pre i (mkhline hdr0 (hs_pv st)) Hi (conj (N.le_refl i) Hp)).
  destruct (run hl_iter pre (c :: r) i 0 (mkhline hdr0 (hs_pv st))) as [n e x| |] eqn:Er; [|exact I|exact I].
  destruct R as (p' & r' & i' & _ & _ & Hge).
  destruct e; try (unfold hs_post; intros E; discriminate E).
  - rewrite hs_post_ok. intros Hk0 Hk. destruct (Hge (or_introl eq_refl)) as [A B].
    split; [|apply hl_add_LI; split; assumption]. cbn [hs_pv].
    replace (i + nnat (N.to_nat (n - i))) with n by (unfold nnat in *; lia). exact B.
  - unfold hs_post. cbv zeta. destruct (0 <? _); [|intros E; discriminate E]. intros _. cbn [hs_pv]. exact (Hge (or_intror eq_refl)).
Qed.

Theorem headers_np buf offs ncap nc o st' : offs <= nnat (length buf) ->
  parse_headers buf offs (mkhdrs_st (hdrlst_init (repeat hdr0 ncap)) (Some (phvals_init (repeat pfrom0 nc)))) = Done o EOk st' ->
  offs <= o /\ NPo o (hs_pv st').
Proof.
  intros Ho H. unfold parse_headers, parse in H. unfold zinit in H.
  assert (Hi : offs = nnat (length (rev (firstn (N.to_nat offs) buf)))) by (rewrite rev_length, firstn_length; unfold nnat in *; lia).
  pose proof (run_invQ hs_iter (fun p j s => offs <= j /\ BN p j s) (fun _ _ _ o0 e s => e = EOk -> offs <= o0 /\ NPo o0 (hs_pv s))) as R.
  specialize (R ltac:(intros p r0 j s Hj [P0 P1]; pose proof (BN_step p r0 j s Hj P1) as X; destruct (hs_iter p r0 j s) as [k s'|o0 e s'|]; auto;
                      [intros Hk0 Hk; split; [unfold nnat; lia|exact (X Hk0 Hk)]|intros He; destruct (X He) as [A B]; split; [lia|exact B]])
                (skipn (N.to_nat offs) buf) (rev (firstn (N.to_nat offs) buf)) offs (mkhdrs_st (hdrlst_init (repeat hdr0 ncap)) (Some (phvals_init (repeat pfrom0 nc)))) Hi).
  specialize (R ltac:(split; [lia|]; split; [split; [split; [apply UBv_init|apply PR2_init]|apply NSv_init]|];
                      unfold LI, hdrlst_init; cbn; split; [split; [intros j _; apply nth_repeat|reflexivity]|];
                      unfold hl_slot, hl_is_tmp, hl_cap; cbn; destruct (_ <=? 0); [reflexivity|apply nth_repeat])).
  rewrite H in R. destruct R as (_ & _ & _ & _ & _ & HQ). exact (HQ eq_refl).
Qed.



(* every PHdrVals field of a parsed message ends at or before the offset where the header block ended *)
Theorem message_np flags buf offs bl n nc o e m' : offs <= nnat (length buf) ->
  parse_sipmsg flags buf offs (msg_init bl (repeat hdr0 n) (repeat pfrom0 nc)) = Done o e m' -> m_state m' = MFIN \/ m_state m' = MNoCLen ->
  NSv (msg_pv m').
Proof.
  intros Hoffs. unfold parse_sipmsg, msg_init. cbn -[msg_fline]. unfold msg_fline. cbn -[parse_fline msg_headers msg_fail].
  pose proof (fline_safe buf offs fline0 Hoffs) as Hfs.
  destruct (parse_fline buf offs fline0) as [o1 e1 fl| |] eqn:Efl; try discriminate.
  assert (Hf : forall oo ee m, (m_state m = MFLine \/ m_state m = MHeaders) -> msg_fail flags oo ee m = Done o e m' -> m_state m' = MFIN \/ m_state m' = MNoCLen ->
            NSv (msg_pv m')).
  { intros oo ee m Hm H Hs. pose proof (fail_ok flags oo ee m) as F. rewrite H in F. destruct F as [F|F]; rewrite F in Hs; destruct Hm as [Hm|Hm]; try rewrite Hm in Hs; destruct Hs; discriminate. }
  destruct e1; try (apply Hf; left; reflexivity).
  unfold msg_headers. cbn -[parse_headers msg_body msg_fail].
  assert (Ho1 : o1 <= nnat (length buf)).
  { assert (X : fl_inv offs fline0) by (unfold fl_inv, pf_end; cbn; repeat split; lia). specialize (Hfs X). apply Hfs. }
  pose proof (headers_np buf o1 n nc) as Hc.
  destruct (parse_headers buf o1 _) as [o2 e2 hs| |]; try discriminate.
  destruct e2; try (apply Hf; right; reflexivity).
  destruct (Hc o2 hs Ho1 eq_refl) as [Ho12 Hup].
  intros H _. match type of H with msg_body ?f ?L ?oo ?mm = _ => pose proof (body_hs f L oo mm) as B end.
  rewrite H in B. unfold msg_pv. rewrite B.
  match goal with |- context [m_hs ?M] => replace (m_hs M) with hs by reflexivity end.
  destruct (hs_pv hs) as [v|] eqn:Ev.
  - exact (proj2 Hup).
  - exact (NSv_init 0).
Qed.

Theorem message_np_fed flags B offs bl n nc o s o' e m' : testbit flags bSIPMsgNoMoreData = false -> offs <= nnat (length B) ->
  feeds flags B offs (msg_init bl (repeat hdr0 n) (repeat pfrom0 nc)) o s ->
  parse_sipmsg flags B o s = Done o' e m' -> m_state m' = MFIN \/ m_state m' = MNoCLen -> NSv (msg_pv m').
Proof.
  intros Hf Hoffs Hfeed H. rewrite (feeds_same _ _ _ _ _ _ Hf Hfeed) in H. exact (message_np _ _ _ _ _ _ _ _ _ Hoffs H).
Qed.

