(* Method R of DESIGN.md, the per-parser half: a local extension property of one
   loop iteration (IterExt) gives the one-step property ExtOK of the exported call. *)
From Sipsp Require Import RunLemmas Resume.
From Coq Require Import ZifyN ZifyNat ZifyBool.

(* ---- zipper arithmetic --------------------------------------------------------- *)
Lemma firstn_plus {A} (l : list A) : forall a b, firstn (a + b) l = firstn a l ++ firstn b (skipn a l).
Proof. induction l as [|x l IH]; intros [|a] b; cbn; auto; [now rewrite firstn_nil|]. f_equal. apply IH. Qed.
Lemma zpre_zpre a b (pre rest : list byte) : (a <= length rest)%nat ->
  zpre b (zpre a pre rest) (zrest a rest) = zpre (a + b) pre rest.
Proof.
  intros Ha. unfold zpre, zrest. rewrite firstn_plus, rev_app_distr, <- app_assoc. reflexivity.
Qed.
Lemma zrest_zrest a b (rest : list byte) : zrest b (zrest a rest) = zrest (a + b) rest.
Proof.
  unfold zrest. revert a; induction rest as [|c r IH]; intros a.
  - now rewrite !skipn_nil.
  - destruct a; cbn; [reflexivity|apply IH].
Qed.
Lemma zpre_app k (pre rest x : list byte) : (k <= length rest)%nat -> zpre k pre (rest ++ x) = zpre k pre rest.
Proof. intros H. unfold zpre. rewrite firstn_app. replace (k - length rest)%nat with 0%nat by lia. cbn. now rewrite app_nil_r. Qed.
Lemma zrest_app k (rest x : list byte) : (k <= length rest)%nat -> zrest k (rest ++ x) = zrest k rest ++ x.
Proof. intros H. unfold zrest. rewrite skipn_app. replace (k - length rest)%nat with 0%nat by lia. reflexivity. Qed.
Lemma zrest_length k (rest : list byte) : length (zrest k rest) = (length rest - k)%nat.
Proof. apply skipn_length. Qed.

Section Ext.
  Context {St : Type}.
  Variable iter : list byte -> list byte -> N -> St -> ires St.
  Variable obs : St -> list Z.
  Notation rq := (req obs).

  Lemma run_ret pre rest j t o e t' : iter pre rest j t = Ret o e t' -> run iter pre rest j 0 t = Done o e t'.
  Proof. intros H. destruct rest; cbn [run]; rewrite H; reflexivity. Qed.

  (* the local property of one iteration *)
  Definition IterExt : Prop := forall pre rest x j t, j = nnat (length pre) ->
    match iter pre rest j t with
    | Next k t' => (k <= length rest)%nat -> iter pre (rest ++ x) j t = Next k t'
    | Ret o EMore t' =>
      exists k, (k <= length rest)%nat /\ o = j + nnat k /\
        run iter (zpre k pre (rest ++ x)) (zrest k (rest ++ x)) o 0 t' = run iter pre (rest ++ x) j 0 t
    | Ret o e t' => iter pre (rest ++ x) j t = Ret o e t'
    | IPanic => True
    end.

  Hypothesis HI : IterExt.

  Lemma run_ext : forall rest pre x j t, j = nnat (length pre) ->
    match run iter pre rest j 0 t with
    | Done o EMore t' =>
      exists k, (k <= length rest)%nat /\ o = j + nnat k /\
        run iter (zpre k pre (rest ++ x)) (zrest k (rest ++ x)) o 0 t' = run iter pre (rest ++ x) j 0 t
    | Done o e t' => run iter pre (rest ++ x) j 0 t = Done o e t'
    | _ => True
    end.
  Proof.
    intros rest. remember (length rest) as n eqn:Hn. revert rest Hn.
    induction n as [n IH] using lt_wf_ind. intros rest Hn pre x j t Hj.
    pose proof (HI pre rest x j t Hj) as H.
    destruct (iter pre rest j t) as [k t'|o e t'|] eqn:E.
    - (* Next *)
      destruct rest as [|c r]; [cbn [run]; rewrite E; destruct k; exact I|].
      cbn [run]. rewrite E. destruct k as [|k]; [exact I|].
      destruct (le_lt_dec (S k) (length (c :: r))) as [Hk|Hk].
      2:{ (* skips past the end: Stuck *)
          assert (Hs : forall (r0 : list byte) pre0 i0 k0 s0, (length r0 < k0)%nat -> run iter pre0 r0 i0 k0 s0 = Stuck).
          { induction r0 as [|c0 r0 IHr]; intros pre0 i0 k0 s0 Hlt; destruct k0; cbn in *; try lia; auto. apply IHr. lia. }
          rewrite Hs by (cbn in Hk; lia). exact I. }
      specialize (H Hk).
      assert (Ex : run iter pre ((c :: r) ++ x) j 0 t
                   = run iter (zpre (S k) pre (c :: r)) (zrest (S k) (c :: r) ++ x) (j + nnat (S k)) 0 t').
      { cbn [app run]. cbn [app] in H. rewrite H.
        rewrite run_skip by (rewrite app_length; cbn in Hk; lia).
        unfold zpre, zrest. cbn [firstn skipn rev]. rewrite firstn_app, skipn_app.
        replace (k - length r)%nat with 0%nat by (cbn in Hk; lia). cbn [firstn skipn]. rewrite app_nil_r, <- app_assoc. cbn [app].
        rewrite nnat_S. f_equal. lia. }
      assert (Ep : run iter (c :: pre) r (j + 1) k t'
                   = run iter (zpre (S k) pre (c :: r)) (zrest (S k) (c :: r)) (j + nnat (S k)) 0 t').
      { rewrite run_skip by (cbn in Hk; lia). unfold zpre, zrest. cbn [firstn skipn rev]. rewrite <- app_assoc. cbn [app].
        rewrite nnat_S. f_equal. lia. }
      rewrite Ep.
      assert (Hlen : (length (zrest (S k) (c :: r)) < n)%nat) by (rewrite zrest_length; subst n; cbn [length] in *; lia).
      assert (Hj' : j + nnat (S k) = nnat (length (zpre (S k) pre (c :: r)))).
      { unfold zpre. rewrite app_length, rev_length, firstn_length. unfold nnat in *. lia. }
      specialize (IH _ Hlen _ eq_refl (zpre (S k) pre (c :: r)) x (j + nnat (S k)) t' Hj').
      destruct (run iter (zpre (S k) pre (c :: r)) (zrest (S k) (c :: r)) (j + nnat (S k)) 0 t') as [o e t''| |]; auto.
      destruct e; try (rewrite Ex; exact IH).
      (* EMore further on *)
      destruct IH as (k2 & Hk2 & Ho & Hrq). rewrite zrest_length in Hk2.
      exists (S k + k2)%nat. split; [lia|]. split; [unfold nnat in *; lia|].
      rewrite Ex.
      rewrite <- (zpre_zpre (S k) k2 pre ((c :: r) ++ x)) by (rewrite app_length; lia).
      rewrite <- (zrest_zrest (S k) k2 ((c :: r) ++ x)).
      rewrite (zpre_app (S k) pre (c :: r) x Hk), (zrest_app (S k) (c :: r) x Hk). exact Hrq.
    - (* Ret *)
      rewrite (run_ret _ _ _ _ _ _ _ E).
      destruct e; try (exact (run_ret _ _ _ _ _ _ _ H)).
      subst n. exact H.
    - destruct rest; cbn [run]; rewrite E; exact I.
  Qed.

  (* zinit on an extended buffer *)
  Lemma zinit_app (p x : list byte) i : i <= nnat (length p) ->
    zinit (p ++ x) i = (rev (firstn (N.to_nat i) p), skipn (N.to_nat i) p ++ x).
  Proof.
    intros Hi. unfold zinit, nnat in *. rewrite firstn_app, skipn_app.
    replace (N.to_nat i - length p)%nat with 0%nat by lia. cbn [firstn skipn]. now rewrite app_nil_r.
  Qed.
  Lemma zinit_advance (b : list byte) i k : (N.to_nat i + k <= length b)%nat ->
    zinit b (i + nnat k) = (zpre k (rev (firstn (N.to_nat i) b)) (skipn (N.to_nat i) b), zrest k (skipn (N.to_nat i) b)).
  Proof.
    intros H. unfold zinit, zpre, zrest, nnat. replace (N.to_nat (i + N.of_nat k)) with (N.to_nat i + k)%nat by lia.
    f_equal.
    - rewrite firstn_plus, rev_app_distr. reflexivity.
    - clear H. generalize (N.to_nat i) as a. intros a. revert a; induction b as [|c b IH]; intros a.
      + now rewrite !skipn_nil.
      + destruct a; cbn; [reflexivity|apply IH].
  Qed.

  (* the one-step property of the exported call *)
  Theorem parse_ExtOK : ExtOK (parse iter) obs (fun _ _ => True).
  Proof.
    intros p x i s _ Hi. unfold parse.
    assert (Hlen : i = nnat (length (rev (firstn (N.to_nat i) p)))).
    { rewrite rev_length, firstn_length. unfold nnat in *. lia. }
    pose proof (run_ext (skipn (N.to_nat i) p) (rev (firstn (N.to_nat i) p)) x i s Hlen) as H.
    rewrite (zinit_app p x i Hi).
    replace (zinit p i) with (rev (firstn (N.to_nat i) p), skipn (N.to_nat i) p) by reflexivity.
    destruct (run iter (rev (firstn (N.to_nat i) p)) (skipn (N.to_nat i) p) i 0 s) as [o e s'| |]; auto.
    destruct e; try (rewrite H; apply req_refl).
    destruct H as (k & Hk & -> & Hrq). rewrite skipn_length in Hk.
    split; [exact I|]. split; [unfold nnat in *; lia|].
    assert (Hb : (N.to_nat i + k <= length (p ++ x))%nat) by (rewrite app_length; unfold nnat in *; lia).
    rewrite (zinit_advance (p ++ x) i k Hb).
    assert (E1 : firstn (N.to_nat i) (p ++ x) = firstn (N.to_nat i) p).
    { rewrite firstn_app. replace (N.to_nat i - length p)%nat with 0%nat by (unfold nnat in *; lia). cbn. now rewrite app_nil_r. }
    assert (E2 : skipn (N.to_nat i) (p ++ x) = skipn (N.to_nat i) p ++ x).
    { rewrite skipn_app. replace (N.to_nat i - length p)%nat with 0%nat by (unfold nnat in *; lia). reflexivity. }
    rewrite E1, E2, Hrq. apply req_refl.
  Qed.
End Ext.
