(* C12: Reset/Init make a used object behave like a new one.
   Method: the capacities of the caller's arrays are invariant under every
   parse (invariant rule), and reset is a function of the capacities only. *)
From Sipsp Require Import RunLemmas Harness.
From Coq Require Import ZifyN ZifyNat ZifyBool.

Lemma set_nth_length {A} (n : nat) (x : A) (l : list A) : length (set_nth n x l) = length l.
Proof. revert n; induction l as [|y l IH]; intros [|n]; cbn; auto. Qed.

Lemma map_const_repeat {A B} (x : B) (l : list A) : map (fun _ => x) l = repeat x (length l).
Proof. induction l as [|y l IH]; cbn; congruence. Qed.

(* run keeps any state predicate that every iteration keeps *)
Lemma run_keeps {S} (iter : list byte -> list byte -> N -> S -> ires S) (R : S -> Prop) :
  (forall pre rest i s, R s -> match iter pre rest i s with
                               | Next _ s' => R s' | Ret _ _ s' => R s' | IPanic => True end) ->
  forall pre rest i s, R s -> match run iter pre rest i 0 s with Done _ _ s' => R s' | _ => True end.
Proof.
  intros H pre rest i s HR.
  apply (run_inv iter (fun _ _ s => R s) (fun _ _ s => R s)); [|exact HR].
  intros pre0 rest0 i0 s0 HR0. specialize (H pre0 rest0 i0 s0 HR0).
  destruct (iter pre0 rest0 i0 s0); auto.
Qed.

Ltac break_match :=
  match goal with
  | |- context [match ?x with _ => _ end] => destruct x eqn:?
  | |- context [if ?x then _ else _] => destruct x eqn:?
  end.

Ltac len_cases L :=
  cbn -[ct_store ul_store uh_store];
  repeat first
    [ match goal with |- context [match ?o with Some _ => _ | None => IPanic end] => destruct o end
    | match goal with |- context [if ?b then _ else _] => destruct b end ];
  cbn -[ct_store ul_store uh_store]; rewrite ?L; auto; try congruence.

(* ---- contacts ----------------------------------------------------------- *)
Lemma ct_store_len c v : length (ct_vals (ct_store c v)) = length (ct_vals c).
Proof. unfold ct_store. destruct (ct_slot_is_last c); cbn; rewrite ?set_nth_length; reflexivity. Qed.

Lemma ct_iter_len pre rest i c :
  match ct_iter pre rest i c with
  | Next _ c' => length (ct_vals c') = length (ct_vals c)
  | Ret _ _ c' => length (ct_vals c') = length (ct_vals c)
  | IPanic => True
  end.
Proof.
  unfold ct_iter.
  set (c1 := if ct_slot_is_last c && fb_parsed (ct_last c) then c <| ct_last := pfrom0 |> else c).
  assert (E1 : length (ct_vals c1) = length (ct_vals c)) by (subst c1; destruct (_ && _); reflexivity).
  destruct (run (fb_iter HdrContact) pre rest i 0 (ct_slot c1)) as [next e v| |]; auto.
  pose proof (ct_store_len c1 v) as E2.
  unfold ct_reset_last_if.
  destruct e; cbn -[ct_store]; try congruence.
  all: try (destruct (ct_slot_is_last c1); cbn -[ct_store]; congruence).
  all: match goal with |- context [match ?o with Some _ => _ | None => IPanic end] => destruct o end; auto.
  all: repeat match goal with |- context [if ?b then _ else _] => destruct b end; cbn -[ct_store]; congruence.
Qed.

Lemma uriparams_store_len l v : length (ul_params (ul_store l v)) = length (ul_params l).
Proof. unfold ul_store. destruct (ul_is_tmp l); cbn; rewrite ?set_nth_length; reflexivity. Qed.
Lemma urihdrs_store_len l v : length (uh_hdrs (uh_store l v)) = length (uh_hdrs l).
Proof. unfold uh_store. destruct (uh_is_tmp l); cbn; rewrite ?set_nth_length; reflexivity. Qed.

Lemma ul_iter1_len f pre rest i l :
  match ul_iter1 f pre rest i l with
  | Next _ l' => length (ul_params l') = length (ul_params l)
  | Ret _ _ l' => length (ul_params l') = length (ul_params l)
  | IPanic => True
  end.
Proof.
  unfold ul_iter1.
  destruct (run _ pre rest i 0 _) as [next e tp| |]; auto.
  destruct e; len_cases uriparams_store_len.
Qed.
Lemma ul_iter_len f pre rest i l :
  match ul_iter f pre rest i l with
  | Next _ l' => length (ul_params l') = length (ul_params l)
  | Ret _ _ l' => length (ul_params l') = length (ul_params l)
  | IPanic => True
  end.
Proof.
  unfold ul_iter. pose proof (ul_iter1_len f pre rest i l) as H.
  destruct (ul_iter1 f pre rest i l) as [[|k] l'|o e l'|]; auto.
  pose proof (ul_iter1_len f pre rest i l') as H2.
  destruct (ul_iter1 f pre rest i l'); auto; congruence.
Qed.
Lemma uh_iter1_len f pre rest i l :
  match uh_iter1 f pre rest i l with
  | Next _ l' => length (uh_hdrs l') = length (uh_hdrs l)
  | Ret _ _ l' => length (uh_hdrs l') = length (uh_hdrs l)
  | IPanic => True
  end.
Proof.
  unfold uh_iter1.
  destruct (run _ pre rest i 0 _) as [next e tp| |]; auto.
  destruct e; len_cases urihdrs_store_len.
Qed.
Lemma uh_iter_len f pre rest i l :
  match uh_iter f pre rest i l with
  | Next _ l' => length (uh_hdrs l') = length (uh_hdrs l)
  | Ret _ _ l' => length (uh_hdrs l') = length (uh_hdrs l)
  | IPanic => True
  end.
Proof.
  unfold uh_iter. pose proof (uh_iter1_len f pre rest i l) as H.
  destruct (uh_iter1 f pre rest i l) as [[|k] l'|o e l'|]; auto.
  pose proof (uh_iter1_len f pre rest i l') as H2.
  destruct (uh_iter1 f pre rest i l'); auto; congruence.
Qed.

(* an exported call keeps the capacity *)
Lemma parse_contacts_len buf offs c :
  match parse_all_contacts buf offs c with
  | Done _ _ c' => length (ct_vals c') = length (ct_vals c) | _ => True end.
Proof.
  unfold parse_all_contacts, parse, zinit.
  apply (run_keeps ct_iter (fun x => length (ct_vals x) = length (ct_vals c))); [|reflexivity].
  intros pre rest i s Hs. pose proof (ct_iter_len pre rest i s). destruct (ct_iter pre rest i s); congruence.
Qed.
Lemma parse_uparams_len f buf offs l :
  match parse_all_uri_params f buf offs l with
  | Done _ _ l' => length (ul_params l') = length (ul_params l) | _ => True end.
Proof.
  unfold parse_all_uri_params, parse, zinit.
  apply (run_keeps (ul_iter f) (fun x => length (ul_params x) = length (ul_params l))); [|reflexivity].
  intros pre rest i s Hs. pose proof (ul_iter_len f pre rest i s). destruct (ul_iter f pre rest i s); congruence.
Qed.
Lemma parse_uhdrs_len f buf offs l :
  match parse_all_uri_hdrs f buf offs l with
  | Done _ _ l' => length (uh_hdrs l') = length (uh_hdrs l) | _ => True end.
Proof.
  unfold parse_all_uri_hdrs, parse, zinit.
  apply (run_keeps (uh_iter f) (fun x => length (uh_hdrs x) = length (uh_hdrs l))); [|reflexivity].
  intros pre rest i s Hs. pose proof (uh_iter_len f pre rest i s). destruct (uh_iter f pre rest i s); congruence.
Qed.

(* ---- reset = new, as equations -------------------------------------------- *)
Lemma contacts_reset_new c : contacts_reset c = contacts_init (repeat pfrom0 (length (ct_vals c))).
Proof. unfold contacts_reset. now rewrite map_const_repeat. Qed.
Lemma uparams_reset_new l : uparams_reset l = uparams_init (repeat uriparam0 (length (ul_params l))).
Proof. unfold uparams_reset. now rewrite map_const_repeat. Qed.
Lemma uhdrs_reset_new l : uhdrs_reset l = uhdrs_init (repeat tokparam0 (length (uh_hdrs l))).
Proof. unfold uhdrs_reset. now rewrite map_const_repeat. Qed.
Lemma hdrlst_reset_new l : hdrlst_reset l = hdrlst_init (repeat hdr0 (length (hl_hdrs l))).
Proof. unfold hdrlst_reset. now rewrite map_const_repeat. Qed.
Lemma phvals_reset_new v :
  phvals_reset v = phvals_init (repeat pfrom0 (length (ct_vals (pv_contacts v)))).
Proof. unfold phvals_reset, phvals_init. now rewrite contacts_reset_new. Qed.

(* ---- histories ---------------------------------------------------------------- *)
(* the state an operation sequence leaves behind (None: a call panicked) *)
Fixpoint last_call {S} (P : list byte -> N -> S -> res S) (b : list byte) (cuts : list nat) (o : N) (s : S)
  : option S :=
  match cuts with
  | [] => match P b o s with Done _ _ s' => Some s' | _ => None end
  | c :: cs =>
    match P (firstn c b) o s with
    | Done o' EMore s' => last_call P b cs o' s'
    | Done _ _ s' => Some s'
    | _ => None
    end
  end.
Fixpoint exec_ops {S} (O : obj S) (ops : list op) (s : S) : option S :=
  match ops with
  | [] => Some s
  | OpReset :: ops' => exec_ops O ops' (ob_reset O s)
  | OpParse fl b o cuts :: ops' =>
    match last_call (ob_parse O fl) b cuts o s with
    | Some s' => exec_ops O ops' s'
    | None => None
    end
  end.

Lemma last_call_keeps {S} (P : list byte -> N -> S -> res S) (R : S -> Prop) :
  (forall b o s, R s -> match P b o s with Done _ _ s' => R s' | _ => True end) ->
  forall b cuts o s, R s -> match last_call P b cuts o s with Some s' => R s' | None => True end.
Proof.
  intros H b cuts. induction cuts as [|c cs IH]; intros o s HR; cbn [last_call].
  - specialize (H b o s HR). destruct (P b o s); auto.
  - specialize (H (firstn c b) o s HR). destruct (P (firstn c b) o s) as [o' e s'| |]; auto.
    destruct e; try exact H. apply IH. exact H.
Qed.

Lemma exec_keeps {S} (O : obj S) (R : S -> Prop) :
  (forall fl b o s, R s -> match ob_parse O fl b o s with Done _ _ s' => R s' | _ => True end) ->
  (forall s, R s -> R (ob_reset O s)) ->
  forall ops s, R s -> match exec_ops O ops s with Some s' => R s' | None => True end.
Proof.
  intros Hp Hr ops. induction ops as [|[fl b o cuts|] ops IH]; intros s HR; cbn [exec_ops]; auto.
  - pose proof (last_call_keeps (ob_parse O fl) R (Hp fl) b cuts o s HR) as H.
    destruct (last_call (ob_parse O fl) b cuts o s); [apply IH; exact H | exact I].
  - apply IH, Hr, HR.
Qed.

(* objects without caller arrays: reset is a constant *)
Definition const_reset {S} (O : obj S) (s0 : S) := forall s, ob_reset O s = s0.

Theorem reset_const_new {S} (O : obj S) (s0 : S) : const_reset O s0 ->
  forall (ops : list op) (s : S), match exec_ops O ops s0 with
                                  | Some s' => ob_reset O s' = s0
                                  | None => True end.
Proof. intros H ops s. destruct (exec_ops O ops s0); auto. Qed.

(* objects with one caller array *)
Theorem contacts_history_reset cap ops :
  match exec_ops obj_contacts ops (contacts_init (repeat pfrom0 cap)) with
  | Some c => ob_reset obj_contacts c = contacts_init (repeat pfrom0 cap)
  | None => True
  end.
Proof.
  pose proof (exec_keeps obj_contacts (fun c => length (ct_vals c) = cap)) as H.
  specialize (H ltac:(intros fl b o s Hs; change (ob_parse obj_contacts fl b o s) with (parse_all_contacts b o s);
                      pose proof (parse_contacts_len b o s) as X;
                      destruct (parse_all_contacts b o s); auto; rewrite X; exact Hs)).
  specialize (H ltac:(intros s Hs; change (ob_reset obj_contacts s) with (contacts_reset s); rewrite contacts_reset_new, Hs; cbn; apply repeat_length)).
  specialize (H ops (contacts_init (repeat pfrom0 cap)) ltac:(cbn; apply repeat_length)).
  destruct (exec_ops _ _ _) as [c|]; auto. change (ob_reset obj_contacts c) with (contacts_reset c). rewrite contacts_reset_new, H. reflexivity.
Qed.

Theorem uparams_history_reset cap ops :
  match exec_ops obj_uparams ops (uparams_init (repeat uriparam0 cap)) with
  | Some l => ob_reset obj_uparams l = uparams_init (repeat uriparam0 cap)
  | None => True
  end.
Proof.
  pose proof (exec_keeps obj_uparams (fun l => length (ul_params l) = cap)) as H.
  specialize (H ltac:(intros fl b o s Hs; change (ob_parse obj_uparams fl b o s) with (parse_all_uri_params fl b o s);
                      pose proof (parse_uparams_len fl b o s) as X;
                      destruct (parse_all_uri_params fl b o s); auto; rewrite X; exact Hs)).
  specialize (H ltac:(intros s Hs; change (ob_reset obj_uparams s) with (uparams_reset s); rewrite uparams_reset_new, Hs; cbn; apply repeat_length)).
  specialize (H ops (uparams_init (repeat uriparam0 cap)) ltac:(cbn; apply repeat_length)).
  destruct (exec_ops _ _ _) as [c|]; auto. change (ob_reset obj_uparams c) with (uparams_reset c). rewrite uparams_reset_new, H. reflexivity.
Qed.

Theorem uhdrs_history_reset cap ops :
  match exec_ops obj_uhdrs ops (uhdrs_init (repeat tokparam0 cap)) with
  | Some l => ob_reset obj_uhdrs l = uhdrs_init (repeat tokparam0 cap)
  | None => True
  end.
Proof.
  pose proof (exec_keeps obj_uhdrs (fun l => length (uh_hdrs l) = cap)) as H.
  specialize (H ltac:(intros fl b o s Hs; change (ob_parse obj_uhdrs fl b o s) with (parse_all_uri_hdrs fl b o s);
                      pose proof (parse_uhdrs_len fl b o s) as X;
                      destruct (parse_all_uri_hdrs fl b o s); auto; rewrite X; exact Hs)).
  specialize (H ltac:(intros s Hs; change (ob_reset obj_uhdrs s) with (uhdrs_reset s); rewrite uhdrs_reset_new, Hs; cbn; apply repeat_length)).
  specialize (H ops (uhdrs_init (repeat tokparam0 cap)) ltac:(cbn; apply repeat_length)).
  destruct (exec_ops _ _ _) as [c|]; auto. change (ob_reset obj_uhdrs c) with (uhdrs_reset c). rewrite uhdrs_reset_new, H. reflexivity.
Qed.

Lemma plain_resets :
  const_reset obj_fline fline0 /\ const_reset obj_callid callid0 /\ const_reset obj_cseq cseq0
  /\ const_reset obj_uint uintb0 /\ const_reset obj_clen uintb0 /\ (forall h, const_reset (obj_nameaddr h) pfrom0)
  /\ const_reset obj_onepai pfrom0 /\ const_reset obj_pais pais0 /\ const_reset obj_tokparam tokparam0.
Proof. unfold const_reset. repeat split; reflexivity. Qed.
