(* C12: Reset/Init make a used object behave like a new one.
   Method: the capacities of the caller's arrays are invariant under every
   parse (invariant rule), and reset is a function of the capacities only. *)
From Sipsp Require Import RunLemmas Harness.
From Coq Require Import ZifyN ZifyNat ZifyBool.

Lemma set_nth_length {A} (n : nat) (x : A) (l : list A) : length (set_nth n x l) = length l.
Proof. revert n; induction l as [|y l IH]; intros [|n]; cbn; auto. Qed.

Lemma map_const_repeat {A B} (x : B) (l : list A) : map (fun _ => x) l = repeat x (length l).
Proof. induction l as [|y l IH]; cbn; congruence. Qed.

(* run keeps any state predicate that every iteration keeps *)
Lemma run_keeps {S} (iter : list byte -> list byte -> N -> S -> ires S) (R : S -> Prop) :
  (forall pre rest i s, R s -> match iter pre rest i s with
                               | Next _ s' => R s' | Ret _ _ s' => R s' | IPanic => True end) ->
  forall pre rest i s, R s -> match run iter pre rest i 0 s with Done _ _ s' => R s' | _ => True end.
Proof.
  intros H pre rest i s HR.
  apply (run_inv iter (fun _ _ s => R s) (fun _ _ s => R s)); [|exact HR].
  intros pre0 rest0 i0 s0 HR0. specialize (H pre0 rest0 i0 s0 HR0).
  destruct (iter pre0 rest0 i0 s0); auto.
Qed.

Ltac break_match :=
  match goal with
  | |- context [match ?x with _ => _ end] => destruct x eqn:?
  | |- context [if ?x then _ else _] => destruct x eqn:?
  end.

Ltac len_cases L :=
  cbn -[ct_store ul_store uh_store];
  repeat first
    [ match goal with |- context [match ?o with Some _ => _ | None => IPanic end] => destruct o end
    | match goal with |- context [if ?b then _ else _] => destruct b end ];
  cbn -[ct_store ul_store uh_store]; rewrite ?L; auto; try congruence.

(* ---- contacts ----------------------------------------------------------- *)
Lemma ct_store_len c v : length (ct_vals (ct_store c v)) = length (ct_vals c).
Proof. unfold ct_store. destruct (ct_slot_is_last c); cbn; rewrite ?set_nth_length; reflexivity. Qed.

Lemma ct_iter_len pre rest i c :
  match ct_iter pre rest i c with
  | Next _ c' => length (ct_vals c') = length (ct_vals c)
  | Ret _ _ c' => length (ct_vals c') = length (ct_vals c)
  | IPanic => True
  end.
Proof.
  unfold ct_iter.
  set (c1 := if ct_slot_is_last c && fb_parsed (ct_last c) then c <| ct_last := pfrom0 |> else c).
  assert (E1 : length (ct_vals c1) = length (ct_vals c)) by (subst c1; destruct (_ && _); reflexivity).
  destruct (run (fb_iter HdrContact) pre rest i 0 (ct_slot c1)) as [next e v| |]; auto.
  pose proof (ct_store_len c1 v) as E2.
  unfold ct_reset_last_if.
  destruct e; cbn -[ct_store]; try congruence.
  all: try (destruct (ct_slot_is_last c1); cbn -[ct_store]; congruence).
  all: match goal with |- context [match ?o with Some _ => _ | None => IPanic end] => destruct o end; auto.
  all: repeat match goal with |- context [if ?b then _ else _] => destruct b end; cbn -[ct_store]; congruence.
Qed.

Lemma uriparams_store_len l v : length (ul_params (ul_store l v)) = length (ul_params l).
Proof. unfold ul_store. destruct (ul_is_tmp l); cbn; rewrite ?set_nth_length; reflexivity. Qed.
Lemma urihdrs_store_len l v : length (uh_hdrs (uh_store l v)) = length (uh_hdrs l).
Proof. unfold uh_store. destruct (uh_is_tmp l); cbn; rewrite ?set_nth_length; reflexivity. Qed.

Lemma ul_iter1_len f pre rest i l :
  match ul_iter1 f pre rest i l with
  | Next _ l' => length (ul_params l') = length (ul_params l)
  | Ret _ _ l' => length (ul_params l') = length (ul_params l)
  | IPanic => True
  end.
Proof.
  unfold ul_iter1.
  destruct (run _ pre rest i 0 _) as [next e tp| |]; auto.
  destruct e; len_cases uriparams_store_len.
Qed.
Lemma ul_iter_len f pre rest i l :
  match ul_iter f pre rest i l with
  | Next _ l' => length (ul_params l') = length (ul_params l)
  | Ret _ _ l' => length (ul_params l') = length (ul_params l)
  | IPanic => True
  end.
Proof.
  unfold ul_iter. pose proof (ul_iter1_len f pre rest i l) as H.
  destruct (ul_iter1 f pre rest i l) as [[|k] l'|o e l'|]; auto.
  pose proof (ul_iter1_len f pre rest i l') as H2.
  destruct (ul_iter1 f pre rest i l'); auto; congruence.
Qed.
Lemma uh_iter1_len f pre rest i l :
  match uh_iter1 f pre rest i l with
  | Next _ l' => length (uh_hdrs l') = length (uh_hdrs l)
  | Ret _ _ l' => length (uh_hdrs l') = length (uh_hdrs l)
  | IPanic => True
  end.
Proof.
  unfold uh_iter1.
  destruct (run _ pre rest i 0 _) as [next e tp| |]; auto.
  destruct e; len_cases urihdrs_store_len.
Qed.
Lemma uh_iter_len f pre rest i l :
  match uh_iter f pre rest i l with
  | Next _ l' => length (uh_hdrs l') = length (uh_hdrs l)
  | Ret _ _ l' => length (uh_hdrs l') = length (uh_hdrs l)
  | IPanic => True
  end.
Proof.
  unfold uh_iter. pose proof (uh_iter1_len f pre rest i l) as H.
  destruct (uh_iter1 f pre rest i l) as [[|k] l'|o e l'|]; auto.
  pose proof (uh_iter1_len f pre rest i l') as H2.
  destruct (uh_iter1 f pre rest i l'); auto; congruence.
Qed.

(* an exported call keeps the capacity *)
Lemma parse_contacts_len buf offs c :
  match parse_all_contacts buf offs c with
  | Done _ _ c' => length (ct_vals c') = length (ct_vals c) | _ => True end.
Proof.
  unfold parse_all_contacts, parse, zinit.
  apply (run_keeps ct_iter (fun x => length (ct_vals x) = length (ct_vals c))); [|reflexivity].
  intros pre rest i s Hs. pose proof (ct_iter_len pre rest i s). destruct (ct_iter pre rest i s); congruence.
Qed.
Lemma parse_uparams_len f buf offs l :
  match parse_all_uri_params f buf offs l with
  | Done _ _ l' => length (ul_params l') = length (ul_params l) | _ => True end.
Proof.
  unfold parse_all_uri_params, parse, zinit.
  apply (run_keeps (ul_iter f) (fun x => length (ul_params x) = length (ul_params l))); [|reflexivity].
  intros pre rest i s Hs. pose proof (ul_iter_len f pre rest i s). destruct (ul_iter f pre rest i s); congruence.
Qed.
Lemma parse_uhdrs_len f buf offs l :
  match parse_all_uri_hdrs f buf offs l with
  | Done _ _ l' => length (uh_hdrs l') = length (uh_hdrs l) | _ => True end.
Proof.
  unfold parse_all_uri_hdrs, parse, zinit.
  apply (run_keeps (uh_iter f) (fun x => length (uh_hdrs x) = length (uh_hdrs l))); [|reflexivity].
  intros pre rest i s Hs. pose proof (uh_iter_len f pre rest i s). destruct (uh_iter f pre rest i s); congruence.
Qed.

(* ---- reset = new, as equations -------------------------------------------- *)
Lemma contacts_reset_new c : contacts_reset c = contacts_init (repeat pfrom0 (length (ct_vals c))).
Proof. unfold contacts_reset. now rewrite map_const_repeat. Qed.
Lemma uparams_reset_new l : uparams_reset l = uparams_init (repeat uriparam0 (length (ul_params l))).
Proof. unfold uparams_reset. now rewrite map_const_repeat. Qed.
Lemma uhdrs_reset_new l : uhdrs_reset l = uhdrs_init (repeat tokparam0 (length (uh_hdrs l))).
Proof. unfold uhdrs_reset. now rewrite map_const_repeat. Qed.
Lemma hdrlst_reset_new l : hdrlst_reset l = hdrlst_init (repeat hdr0 (length (hl_hdrs l))).
Proof. unfold hdrlst_reset. now rewrite map_const_repeat. Qed.
Lemma phvals_reset_new v :
  phvals_reset v = phvals_init (repeat pfrom0 (length (ct_vals (pv_contacts v)))).
Proof. unfold phvals_reset, phvals_init. now rewrite contacts_reset_new. Qed.

(* ---- histories ---------------------------------------------------------------- *)
(* the state an operation sequence leaves behind (None: a call panicked) *)
Fixpoint last_call {S} (P : list byte -> N -> S -> res S) (b : list byte) (cuts : list nat) (o : N) (s : S)
  : option S :=
  match cuts with
  | [] => match P b o s with Done _ _ s' => Some s' | _ => None end
  | c :: cs =>
    match P (firstn c b) o s with
    | Done o' EMore s' => last_call P b cs o' s'
    | Done _ _ s' => Some s'
    | _ => None
    end
  end.
Fixpoint exec_ops {S} (O : obj S) (ops : list op) (s : S) : option S :=
  match ops with
  | [] => Some s
  | OpReset :: ops' => exec_ops O ops' (ob_reset O s)
  | OpParse fl b o cuts :: ops' =>
    match last_call (ob_parse O fl) b cuts o s with
    | Some s' => exec_ops O ops' s'
    | None => None
    end
  end.

Lemma last_call_keeps {S} (P : list byte -> N -> S -> res S) (R : S -> Prop) :
  (forall b o s, R s -> match P b o s with Done _ _ s' => R s' | _ => True end) ->
  forall b cuts o s, R s -> match last_call P b cuts o s with Some s' => R s' | None => True end.
Proof.
  intros H b cuts. induction cuts as [|c cs IH]; intros o s HR; cbn [last_call].
  - specialize (H b o s HR). destruct (P b o s); auto.
  - specialize (H (firstn c b) o s HR). destruct (P (firstn c b) o s) as [o' e s'| |]; auto.
    destruct e; try exact H. apply IH. exact H.
Qed.

Lemma exec_keeps {S} (O : obj S) (R : S -> Prop) :
  (forall fl b o s, R s -> match ob_parse O fl b o s with Done _ _ s' => R s' | _ => True end) ->
  (forall s, R s -> R (ob_reset O s)) ->
  forall ops s, R s -> match exec_ops O ops s with Some s' => R s' | None => True end.
Proof.
  intros Hp Hr ops. induction ops as [|[fl b o cuts|] ops IH]; intros s HR; cbn [exec_ops]; auto.
  - pose proof (last_call_keeps (ob_parse O fl) R (Hp fl) b cuts o s HR) as H.
    destruct (last_call (ob_parse O fl) b cuts o s); [apply IH; exact H | exact I].
  - apply IH, Hr, HR.
Qed.

(* objects without caller arrays: reset is a constant *)
Definition const_reset {S} (O : obj S) (s0 : S) := forall s, ob_reset O s = s0.

Theorem reset_const_new {S} (O : obj S) (s0 : S) : const_reset O s0 ->
  forall (ops : list op) (s : S), match exec_ops O ops s0 with
                                  | Some s' => ob_reset O s' = s0
                                  | None => True end.
Proof. intros H ops s. destruct (exec_ops O ops s0); auto. Qed.

(* objects with one caller array *)
Theorem contacts_history_reset cap ops :
  match exec_ops obj_contacts ops (contacts_init (repeat pfrom0 cap)) with
  | Some c => ob_reset obj_contacts c = contacts_init (repeat pfrom0 cap)
  | None => True
  end.
Proof.
  pose proof (exec_keeps obj_contacts (fun c => length (ct_vals c) = cap)) as H.
  specialize (H ltac:(intros fl b o s Hs; change (ob_parse obj_contacts fl b o s) with (parse_all_contacts b o s);
                      pose proof (parse_contacts_len b o s) as X;
                      destruct (parse_all_contacts b o s); auto; rewrite X; exact Hs)).
  specialize (H ltac:(intros s Hs; change (ob_reset obj_contacts s) with (contacts_reset s); rewrite contacts_reset_new, Hs; cbn; apply repeat_length)).
  specialize (H ops (contacts_init (repeat pfrom0 cap)) ltac:(cbn; apply repeat_length)).
  destruct (exec_ops _ _ _) as [c|]; auto. change (ob_reset obj_contacts c) with (contacts_reset c). rewrite contacts_reset_new, H. reflexivity.
Qed.

Theorem uparams_history_reset cap ops :
  match exec_ops obj_uparams ops (uparams_init (repeat uriparam0 cap)) with
  | Some l => ob_reset obj_uparams l = uparams_init (repeat uriparam0 cap)
  | None => True
  end.
Proof.
  pose proof (exec_keeps obj_uparams (fun l => length (ul_params l) = cap)) as H.
  specialize (H ltac:(intros fl b o s Hs; change (ob_parse obj_uparams fl b o s) with (parse_all_uri_params fl b o s);
                      pose proof (parse_uparams_len fl b o s) as X;
                      destruct (parse_all_uri_params fl b o s); auto; rewrite X; exact Hs)).
  specialize (H ltac:(intros s Hs; change (ob_reset obj_uparams s) with (uparams_reset s); rewrite uparams_reset_new, Hs; cbn; apply repeat_length)).
  specialize (H ops (uparams_init (repeat uriparam0 cap)) ltac:(cbn; apply repeat_length)).
  destruct (exec_ops _ _ _) as [c|]; auto. change (ob_reset obj_uparams c) with (uparams_reset c). rewrite uparams_reset_new, H. reflexivity.
Qed.

Theorem uhdrs_history_reset cap ops :
  match exec_ops obj_uhdrs ops (uhdrs_init (repeat tokparam0 cap)) with
  | Some l => ob_reset obj_uhdrs l = uhdrs_init (repeat tokparam0 cap)
  | None => True
  end.
Proof.
  pose proof (exec_keeps obj_uhdrs (fun l => length (uh_hdrs l) = cap)) as H.
  specialize (H ltac:(intros fl b o s Hs; change (ob_parse obj_uhdrs fl b o s) with (parse_all_uri_hdrs fl b o s);
                      pose proof (parse_uhdrs_len fl b o s) as X;
                      destruct (parse_all_uri_hdrs fl b o s); auto; rewrite X; exact Hs)).
  specialize (H ltac:(intros s Hs; change (ob_reset obj_uhdrs s) with (uhdrs_reset s); rewrite uhdrs_reset_new, Hs; cbn; apply repeat_length)).
  specialize (H ops (uhdrs_init (repeat tokparam0 cap)) ltac:(cbn; apply repeat_length)).
  destruct (exec_ops _ _ _) as [c|]; auto. change (ob_reset obj_uhdrs c) with (uhdrs_reset c). rewrite uhdrs_reset_new, H. reflexivity.
Qed.

Lemma plain_resets :
  const_reset obj_fline fline0 /\ const_reset obj_callid callid0 /\ const_reset obj_cseq cseq0
  /\ const_reset obj_uint uintb0 /\ const_reset obj_clen uintb0 /\ (forall h, const_reset (obj_nameaddr h) pfrom0)
  /\ const_reset obj_onepai pfrom0 /\ const_reset obj_pais pais0 /\ const_reset obj_tokparam tokparam0.
Proof. unfold const_reset. repeat split; reflexivity. Qed.

(* ---- header list, header values, whole message --------------------------------------------- *)
(* w: is there a header-values object at all; cap: capacity of its contacts array *)
Definition pv_cap (w : bool) (cap : nat) (o : option phvals) : Prop :=
  match o with None => w = false | Some v => w = true /\ length (ct_vals (pv_contacts v)) = cap end.

Lemma run_contacts_len pre rest i c :
  match run ct_iter pre rest i 0 c with Done _ _ c' => length (ct_vals c') = length (ct_vals c) | _ => True end.
Proof.
  apply (run_keeps ct_iter (fun x => length (ct_vals x) = length (ct_vals c))); [|reflexivity].
  intros p r j s Hs. pose proof (ct_iter_len p r j s). destruct (ct_iter p r j s); congruence.
Qed.

Lemma hb_finish_pv {B} w cap (r : res B) st valof (put : B -> phvals) :
  (forall n e b, r = Done n e b -> pv_cap w cap (Some (put b))) ->
  match hb_finish r st valof put with
  | Next _ st' => pv_cap w cap (hx_pv st') | Ret _ _ st' => pv_cap w cap (hx_pv st') | IPanic => True end.
Proof. intros H. unfold hb_finish. destruct r as [n e b| |]; auto. cbn. eapply H; eauto. Qed.

Lemma hb_run_pv w cap hs pre rest o st v : pv_cap w cap (Some v) ->
  match hb_run hs pre rest o st v with
  | Next _ st' => pv_cap w cap (hx_pv st') | Ret _ _ st' => pv_cap w cap (hx_pv st') | IPanic => True end.
Proof.
  intros Hv. unfold hb_run. destruct hs; auto; apply hb_finish_pv; intros n e b Hr; cbn in *; try exact Hv.
  (* contacts: the array keeps its length *)
  pose proof (run_contacts_len pre rest o (pv_contacts v)) as H. rewrite Hr in H. destruct Hv. split; congruence.
Qed.

Lemma hb_parse_body_pv w cap pre rest o st : pv_cap w cap (hx_pv st) ->
  match hb_parse_body pre rest o st with
  | Some (Next _ st') => pv_cap w cap (hx_pv st') | Some (Ret _ _ st') => pv_cap w cap (hx_pv st') | _ => True end.
Proof.
  intros Hv. unfold hb_parse_body. destruct (hx_pv st) as [v|] eqn:E; auto.
  repeat match goal with |- context [if ?b then _ else _] => destruct b end; auto;
  match goal with |- context [hb_run ?hs ?p ?r ?oo ?s ?vv] =>
    pose proof (hb_run_pv w cap hs p r oo s vv) as H; destruct (hb_run hs p r oo s vv); apply H; cbn in *; exact Hv end.
Qed.

Lemma hl_colon_pv w cap pre rest i k st : pv_cap w cap (hx_pv st) ->
  match hl_colon pre rest i k st with
  | Next _ st' => pv_cap w cap (hx_pv st') | Ret _ _ st' => pv_cap w cap (hx_pv st') | IPanic => True end.
Proof.
  intros Hv. unfold hl_colon. destruct (zget _ _ _ _); auto.
  set (st1 := st <| hx_h := _ |>). assert (H1 : pv_cap w cap (hx_pv st1)) by (subst st1; destruct st; exact Hv).
  pose proof (hb_parse_body_pv w cap (zpre (S k) pre rest) (zrest (S k) rest) (i + nnat k + 1) st1 H1) as H.
  destruct (hb_parse_body _ _ _ st1) as [[| |]|]; auto.
Qed.

Lemma hl_iter_pv w cap pre rest i st : pv_cap w cap (hx_pv st) ->
  match hl_iter pre rest i st with
  | Next _ st' => pv_cap w cap (hx_pv st') | Ret _ _ st' => pv_cap w cap (hx_pv st') | IPanic => True end.
Proof.
  intros Hv. unfold hl_iter.
  assert (Hset : forall h, pv_cap w cap (hx_pv (st <| hx_h := h |>))) by (intros h; destruct st; exact Hv).
  destruct rest as [|c r1]; [exact Hv|].
  assert (Hname : forall st0, pv_cap w cap (hx_pv st0) ->
            match hl_name_ph pre (c :: r1) i st0 with
            | Next _ st' => pv_cap w cap (hx_pv st') | Ret _ _ st' => pv_cap w cap (hx_pv st') | IPanic => True end).
  { intros st0 H0. unfold hl_name_ph.
    destruct (skipn _ _) as [|d ?]; [exact H0|].
    destruct (is_sp d).
    - destruct (pf_extend _ _); cbn; auto. destruct (pf_empty _); destruct st0; exact H0.
    - destruct (d =? 58); [|exact H0]. destruct (pf_extend _ _); cbn; auto.
      destruct (pf_empty _); [destruct st0; exact H0|]. apply hl_colon_pv. destruct st0; exact H0. }
  destruct (h_state (hx_h st)) eqn:Es.
  - (* HInit *)
    destruct (is_cr c); [destruct r1; [exact Hv|apply Hset]|].
    destruct (is_lf c); [apply Hset|]. destruct (pf_set i i); cbn; auto. apply Hname. apply Hset.
  - apply Hname. exact Hv.
  - destruct (skipn _ _) as [|d ?]; [exact Hv|]. destruct (d =? 58); [apply hl_colon_pv|]; exact Hv.
  - destruct (skipLWS false (c :: r1)); try exact Hv; try apply Hset. destruct (pf_set _ _); cbn; auto.
  - (* HVal *)
    destruct (skipn _ _); [exact Hv|]. destruct (pf_extend _ _); auto.
    destruct (skipLWS false _); apply Hset.
  - (* HValEnd *)
    cbn [skipn]. destruct (skipLWS false _); apply Hset.
  - destruct (hx_pv st) as [v|] eqn:E; auto. pose proof (hb_run_pv w cap HFrom pre (c :: r1) i st v) as H. destruct (hb_run _ _ _ _ _ _); apply H; exact Hv.
  - destruct (hx_pv st) as [v|] eqn:E; auto. pose proof (hb_run_pv w cap HTo pre (c :: r1) i st v) as H. destruct (hb_run _ _ _ _ _ _); apply H; exact Hv.
  - destruct (hx_pv st) as [v|] eqn:E; auto. pose proof (hb_run_pv w cap HCallID pre (c :: r1) i st v) as H. destruct (hb_run _ _ _ _ _ _); apply H; exact Hv.
  - destruct (hx_pv st) as [v|] eqn:E; auto. pose proof (hb_run_pv w cap HCSeq pre (c :: r1) i st v) as H. destruct (hb_run _ _ _ _ _ _); apply H; exact Hv.
  - destruct (hx_pv st) as [v|] eqn:E; auto. pose proof (hb_run_pv w cap HCLen pre (c :: r1) i st v) as H. destruct (hb_run _ _ _ _ _ _); apply H; exact Hv.
  - destruct (hx_pv st) as [v|] eqn:E; auto. pose proof (hb_run_pv w cap HContact pre (c :: r1) i st v) as H. destruct (hb_run _ _ _ _ _ _); apply H; exact Hv.
  - destruct (hx_pv st) as [v|] eqn:E; auto. pose proof (hb_run_pv w cap HExpires pre (c :: r1) i st v) as H. destruct (hb_run _ _ _ _ _ _); apply H; exact Hv.
  - destruct (hx_pv st) as [v|] eqn:E; auto. pose proof (hb_run_pv w cap HPAI pre (c :: r1) i st v) as H. destruct (hb_run _ _ _ _ _ _); apply H; exact Hv.
  - exact Hv.
Qed.


(* the two capacities of a header-block state *)
Definition hs_caps (w : bool) (hcap ccap : nat) (x : hdrs_st) : Prop :=
  length (hl_hdrs (hs_l x)) = hcap /\ pv_cap w ccap (hs_pv x) .

Lemma hl_store_len l h : length (hl_hdrs (hl_store l h)) = length (hl_hdrs l).
Proof. unfold hl_store. destruct (hl_is_tmp l); cbn; rewrite ?set_nth_length; reflexivity. Qed.
Lemma hl_sethdr_len l h : length (hl_hdrs (hl_sethdr l h)) = length (hl_hdrs l).
Proof. unfold hl_sethdr. destruct (_ && _); reflexivity. Qed.

Lemma hs_iter_caps w hcap ccap pre rest i x : hs_caps w hcap ccap x ->
  match hs_iter pre rest i x with
  | Next _ x' => hs_caps w hcap ccap x' | Ret _ _ x' => hs_caps w hcap ccap x' | IPanic => True end.
Proof.
  intros [Hh Hc]. unfold hs_iter. destruct rest as [|c r]; [split; assumption|].
  pose proof (run_keeps hl_iter (fun st => pv_cap w ccap (hx_pv st)) (fun p r0 j s => hl_iter_pv w ccap p r0 j s)
                pre (c :: r) i (mkhline (hl_slot (hs_l x)) (hs_pv x)) Hc) as Hrun.
  destruct (run hl_iter pre (c :: r) i 0 _) as [n e y| |]; auto.
  assert (Hl1 : length (hl_hdrs (hl_store (hs_l x) (hx_h y))) = hcap) by (rewrite hl_store_len; exact Hh).
  destruct e; try (split; [exact Hl1|exact Hrun]).
  - (* EOk *) split; [|exact Hrun]. cbn [hs_l].
    destruct (hl_is_tmp (hs_l x)); cbn; rewrite hl_sethdr_len; cbn; exact Hl1.
  - (* EEmpty *) destruct (0 <? _); split; assumption.
Qed.

Lemma parse_headers_caps w hcap ccap buf offs x : hs_caps w hcap ccap x ->
  match parse_headers buf offs x with Done _ _ x' => hs_caps w hcap ccap x' | _ => True end.
Proof.
  intros H. unfold parse_headers, parse, zinit.
  apply (run_keeps hs_iter (hs_caps w hcap ccap) (fun p r j s => hs_iter_caps w hcap ccap p r j s)). exact H.
Qed.

Lemma hdrs_reset_new w hcap ccap x : hs_caps w hcap ccap x ->
  hdrs_reset x = mkhdrs_st (hdrlst_init (repeat hdr0 hcap))
                           (match hs_pv x with Some _ => Some (phvals_init (repeat pfrom0 ccap)) | None => None end).
Proof.
  intros [Hh Hc]. unfold hdrs_reset. rewrite hdrlst_reset_new, Hh. f_equal.
  destruct (hs_pv x) as [v|]; [|reflexivity]. cbn in Hc. destruct Hc as [_ Hc]. now rewrite phvals_reset_new, Hc.
Qed.

Theorem headers_history_reset hcap ccap withpv ops :
  let new := mkhdrs_st (hdrlst_init (repeat hdr0 hcap))
                       (if withpv : bool then Some (phvals_init (repeat pfrom0 ccap)) else None) in
  match exec_ops obj_headers ops new with
  | Some x => ob_reset obj_headers x = new
  | None => True
  end.
Proof.
  intros new.
  pose proof (exec_keeps obj_headers (hs_caps withpv hcap ccap)) as H.
  assert (Hnew : hs_caps withpv hcap ccap new).
  { subst new. destruct withpv; cbn; repeat split; apply repeat_length. }
  assert (Hres : forall s, hs_caps withpv hcap ccap s -> hdrs_reset s = new).
  { intros s Hs. rewrite (hdrs_reset_new withpv hcap ccap s Hs). subst new. destruct Hs as [_ Hc].
    destruct (hs_pv s), withpv; cbn in Hc; try reflexivity; try discriminate; try (destruct Hc; discriminate). }
  specialize (H ltac:(intros fl b o s Hs; change (ob_parse obj_headers fl b o s) with (parse_headers b o s);
                      apply parse_headers_caps; exact Hs)).
  specialize (H ltac:(intros s Hs; change (ob_reset obj_headers s) with (hdrs_reset s); rewrite (Hres s Hs); exact Hnew)).
  specialize (H ops new Hnew).
  destruct (exec_ops _ _ _) as [x|]; [apply Hres; exact H|exact I].
Qed.

(* ---- one header line ------------------------------------------------------------------------- *)
Theorem hdrline_history_reset ccap withpv ops :
  let new := mkhline hdr0 (if withpv : bool then Some (phvals_init (repeat pfrom0 ccap)) else None) in
  match exec_ops obj_hdrline ops new with
  | Some x => ob_reset obj_hdrline x = new
  | None => True
  end.
Proof.
  intros new.
  pose proof (exec_keeps obj_hdrline (fun x => pv_cap withpv ccap (hx_pv x))) as H.
  assert (Hnew : pv_cap withpv ccap (hx_pv new)).
  { subst new. destruct withpv; cbn; repeat split; apply repeat_length. }
  assert (Hres : forall s, pv_cap withpv ccap (hx_pv s) -> hline_reset s = new).
  { intros s Hs. unfold hline_reset. subst new. destruct (hx_pv s) as [v|], withpv; cbn in Hs;
      try reflexivity; try discriminate; try (destruct Hs; discriminate).
    destruct Hs as [_ Hs]. now rewrite phvals_reset_new, Hs. }
  specialize (H ltac:(intros fl b o s Hs; change (ob_parse obj_hdrline fl b o s) with (parse_hdrline b o s);
                      unfold parse_hdrline, parse, zinit;
                      apply (run_keeps hl_iter (fun st => pv_cap withpv ccap (hx_pv st))
                               (fun p r j st => hl_iter_pv withpv ccap p r j st)); exact Hs)).
  specialize (H ltac:(intros s Hs; change (ob_reset obj_hdrline s) with (hline_reset s); rewrite (Hres s Hs); exact Hnew)).
  specialize (H ops new Hnew).
  destruct (exec_ops _ _ _) as [x|]; [apply Hres; exact H|exact I].
Qed.

(* ---- the whole message --------------------------------------------------------------------------- *)
Definition msg_caps (hcap ccap : nat) (m : pmsg) : Prop := hs_caps true hcap ccap (m_hs m).

Lemma msg_body_caps hcap ccap flags bl o m : msg_caps hcap ccap m ->
  match msg_body flags bl o m with Done _ _ m' => msg_caps hcap ccap m' | _ => True end.
Proof.
  intros H. unfold msg_body, msg_end, msg_caps in *.
  repeat match goal with
         | |- context [match ?x with Some _ => _ | None => _ end] => destruct x
         | |- context [if ?b then _ else _] => destruct b
         end; cbn; auto.
Qed.
Lemma msg_fail_caps hcap ccap flags o e m : msg_caps hcap ccap m ->
  match msg_fail flags o e m with Done _ _ m' => msg_caps hcap ccap m' | _ => True end.
Proof. intros H. unfold msg_fail, msg_caps in *. destruct e; try destruct (testbit _ _); cbn; auto. Qed.

Lemma msg_headers_caps hcap ccap flags buf o m : msg_caps hcap ccap m ->
  match msg_headers flags buf o m with Done _ _ m' => msg_caps hcap ccap m' | _ => True end.
Proof.
  intros H. unfold msg_headers. pose proof (parse_headers_caps true hcap ccap buf o (m_hs m) H) as Hp.
  destruct (parse_headers buf o (m_hs m)) as [o' e hs| |]; auto.
  destruct e; try (apply msg_fail_caps; exact Hp). apply msg_body_caps. exact Hp.
Qed.
Lemma msg_fline_caps hcap ccap flags buf o m : msg_caps hcap ccap m ->
  match msg_fline flags buf o m with Done _ _ m' => msg_caps hcap ccap m' | _ => True end.
Proof.
  intros H. unfold msg_fline. destruct (parse_fline buf o (m_fl m)) as [o' e fl| |]; auto.
  destruct e; try (apply msg_fail_caps; exact H). apply msg_headers_caps. exact H.
Qed.
Lemma parse_sipmsg_caps hcap ccap flags buf o m : msg_caps hcap ccap m ->
  match parse_sipmsg flags buf o m with Done _ _ m' => msg_caps hcap ccap m' | _ => True end.
Proof.
  intros H. unfold parse_sipmsg. cbv zeta.
  assert (H1 : msg_caps hcap ccap (m <| m_buflen := nnat (length buf) |>)) by (destruct m; exact H).
  destruct (m_state (m <| m_buflen := nnat (length buf) |>)).
  - apply msg_fline_caps. destruct m; exact H.
  - apply msg_fline_caps. exact H1.
  - apply msg_headers_caps. exact H1.
  - apply msg_body_caps. exact H1.
  - apply msg_fail_caps. exact H1.
  - apply msg_fail_caps. exact H1.
  - apply msg_fail_caps. exact H1.
Qed.

(* Reset keeps Buf: the reset message is the new one up to len(Buf), which the next parse overwrites first *)
Lemma msg_reset_new hcap ccap m : msg_caps hcap ccap m ->
  msg_reset m = msg_init (m_buflen m) (repeat hdr0 hcap) (repeat pfrom0 ccap).
Proof.
  intros [Hh Hc]. unfold msg_reset. rewrite !map_const_repeat.
  destruct (hs_pv (m_hs m)) as [v|]; cbn in Hc; [|discriminate]. destruct Hc as [_ Hc]. now rewrite Hh, Hc.
Qed.
Lemma parse_sipmsg_ignores_buflen flags buf o x H C :
  parse_sipmsg flags buf o (msg_init x H C) = parse_sipmsg flags buf o (msg_init 0 H C).
Proof. reflexivity. Qed.

Theorem msg_history_reset hcap ccap ops :
  match exec_ops obj_msg ops (msg_init 0 (repeat hdr0 hcap) (repeat pfrom0 ccap)) with
  | Some m =>
    msg_reset m = msg_init (m_buflen m) (repeat hdr0 hcap) (repeat pfrom0 ccap) /\
    forall flags buf o, parse_sipmsg flags buf o (msg_reset m)
                        = parse_sipmsg flags buf o (msg_init 0 (repeat hdr0 hcap) (repeat pfrom0 ccap))
  | None => True
  end.
Proof.
  pose proof (exec_keeps obj_msg (msg_caps hcap ccap)) as H.
  assert (Hnew : forall x, msg_caps hcap ccap (msg_init x (repeat hdr0 hcap) (repeat pfrom0 ccap))).
  { intros x. unfold msg_caps, hs_caps. cbn. repeat split; apply repeat_length. }
  specialize (H ltac:(intros fl b o s Hs; apply parse_sipmsg_caps; exact Hs)).
  specialize (H ltac:(intros s Hs; change (ob_reset obj_msg s) with (msg_reset s);
                      rewrite (msg_reset_new hcap ccap s Hs); apply Hnew)).
  specialize (H ops _ (Hnew 0)).
  destruct (exec_ops _ _ _) as [m|]; [|exact I].
  split; [apply msg_reset_new; exact H|]. intros flags buf o. rewrite (msg_reset_new hcap ccap m H).
  apply parse_sipmsg_ignores_buflen.
Qed.
