(* Simulation rule for the driver: two iterators stepping in lock-step under a relation R keep
   doing so for the whole run; what they return is related by Q.  Used for capacity independence
   (C13): the same parser on objects that differ only in the capacity of their arrays. *)
From Sipsp Require Import Driver.

Section Sim.
  Context {S S' : Type}.
  Variable iter : list byte -> list byte -> N -> S -> ires S.
  Variable iter' : list byte -> list byte -> N -> S' -> ires S'.
  Variable R : S -> S' -> Prop.                  (* while the loop goes on *)
  Variable Q : N -> err -> S -> S' -> Prop.      (* at the return *)

  Definition ires_rel (r : ires S) (r' : ires S') : Prop :=
    match r, r' with
    | Next k s, Next k' s' => k = k' /\ R s s'
    | Ret o e s, Ret o' e' s' => o = o' /\ e = e' /\ Q o e s s'
    | IPanic, IPanic => True
    | _, _ => False
    end.
  Definition res_rel (r : res S) (r' : res S') : Prop :=
    match r, r' with
    | Done o e s, Done o' e' s' => o = o' /\ e = e' /\ Q o e s s'
    | Panic, Panic => True
    | Stuck, Stuck => True
    | _, _ => False
    end.

  Hypothesis step : forall pre rest i s s', R s s' -> ires_rel (iter pre rest i s) (iter' pre rest i s').

  Lemma run_sim : forall rest pre i k s s', R s s' ->
    res_rel (run iter pre rest i k s) (run iter' pre rest i k s').
  Proof.
    induction rest as [|c r IH]; intros pre i k s s' HR.
    - destruct k; cbn [run]; [|exact I].
      pose proof (step pre [] i s s' HR) as H. unfold ires_rel in H.
      destruct (iter pre [] i s) as [k1 s1|o e s1|], (iter' pre [] i s') as [k2 s2|o2 e2 s2|]; try contradiction; auto.
      destruct H as [<- _]. destruct k1; exact I.
    - destruct k as [|k]; cbn [run]; [|apply IH; exact HR].
      pose proof (step pre (c :: r) i s s' HR) as H. unfold ires_rel in H.
      destruct (iter pre (c :: r) i s) as [k1 s1|o e s1|], (iter' pre (c :: r) i s') as [k2 s2|o2 e2 s2|]; try contradiction; auto.
      destruct H as [<- H]. destruct k1; [exact I|]. apply IH. exact H.
  Qed.

  Lemma parse_sim buf offs s s' : R s s' -> res_rel (parse iter buf offs s) (parse iter' buf offs s').
  Proof. intros H. unfold parse. destruct (zinit buf offs). apply run_sim. exact H. Qed.
End Sim.
