(* C10: the Contact q parameter.  set_q on a value written digits [ "." digits ]: the number stored is
   exactly the value in thousandths when it lies between 0 and 1 with at most three decimals; otherwise
   q is left as it was and the value is flagged (too long / bad value / number too big). *)
From Sipsp Require Import Harness IP4 Numbers FLineSpec.
From Coq Require Import ZifyN ZifyNat ZifyBool.
From RecordUpdate Require Import RecordUpdate.

Lemma digit_not_dot c : is_digit c = true -> negb (c =? 46) = true.
Proof. unfold is_digit. lia. Qed.
Lemma digits_no_dot us : all_digits us -> Forall (fun c => negb (c =? 46) = true) us.
Proof.
  unfold all_digits. intros H. rewrite forallb_forall in H. apply Forall_forall. intros c Hc. apply digit_not_dot, H, Hc.
Qed.
Lemma span_dot (us ds : list byte) : all_digits us -> span (fun c => negb (c =? 46)) (us ++ 46 :: ds) = length us.
Proof. intros H. rewrite span_all_app by (apply digits_no_dot; exact H). cbn. lia. Qed.
Lemma span_nodot us : all_digits us -> span (fun c => negb (c =? 46)) us = length us.
Proof. intros H. rewrite <- (app_nil_r us) at 1. rewrite span_all_app by (apply digits_no_dot; exact H). cbn. lia. Qed.

Lemma skipn_past {A} (us : list A) c ds : skipn (S (length us)) (us ++ c :: ds) = ds.
Proof. induction us as [|u us IH]; [reflexivity|exact IH]. Qed.

Lemma pUInt64Val_digits ds : all_digits ds ->
  pUInt64Val ds = if dec ds <=? MaxU64 then (dec ds, EOk) else (MaxU64, ENumTooBig).
Proof. intros H. unfold pUInt64Val, dec. apply pUInt64_exact; [exact H|unfold MaxU64; lia]. Qed.

Lemma dec_small ds : all_digits ds -> (length ds <= 3)%nat -> dec ds <= 999.
Proof.
  unfold all_digits, dec. intros H Hl.
  destruct ds as [|a [|b [|c [|d r]]]]; cbn [length] in Hl; try lia; cbn [dec_from forallb] in *;
    repeat match goal with H : _ && _ = true |- _ => apply andb_true_iff in H; destruct H end;
    repeat match goal with H : is_digit ?x = true |- _ => apply digit_val_le in H end; lia.
Qed.

Lemma frac_small (ds : list byte) : all_digits ds -> (length ds <= 3)%nat -> dec ds * 10 ^ (3 - nnat (length ds)) <= 999.
Proof.
  unfold all_digits, dec. intros H Hl.
  destruct ds as [|a [|b [|c [|d r]]]]; cbn [length] in Hl; try lia; cbn [dec_from forallb length] in *;
    repeat match goal with H : _ && _ = true |- _ => apply andb_true_iff in H; destruct H end;
    repeat match goal with H : is_digit ?x = true |- _ => apply digit_val_le in H end.
  - cbn. lia.
  - change (10 ^ (3 - nnat 1)) with 100. lia.
  - change (10 ^ (3 - nnat 2)) with 10. lia.
  - change (10 ^ (3 - nnat 3)) with 1. lia.
Qed.

Definition q_flag (e : err) (at_end : bool) (s : pfrom) : pfrom :=
  s <| fb_perr := e |> <| fb_erroffs := if at_end then fb_vend s else fb_vstart s |>.
(* the value in thousandths *)
Definition thousandths (us ds : list byte) : N := dec us * 1000 + dec ds * 10 ^ (3 - nnat (length ds)).

Theorem set_q_dot (us ds : list byte) s : all_digits us -> all_digits ds -> (length ds <= 3)%nat ->
  set_q (us ++ 46 :: ds) s =
    if MaxU64 <? dec us then q_flag ENumTooBig false s
    else if (1 <? dec us) || ((dec us =? 1) && (0 <? dec ds)) then q_flag EValBad false s
    else s <| fb_q := thousandths us ds |>.
Proof.
  intros Hu Hd Hl. unfold set_q. rewrite (span_dot us ds Hu). cbv zeta.
  rewrite app_length. cbn [length].
  replace (length us + S (length ds) - length us <=? 4)%nat with true by lia.
  rewrite firstn_app, Nat.sub_diag, firstn_all. cbn [firstn]. rewrite app_nil_r.
  rewrite (pUInt64Val_digits us Hu).
  destruct (dec us <=? MaxU64) eqn:Eu.
  2:{ replace (MaxU64 <? dec us) with true by lia. reflexivity. }
  replace (MaxU64 <? dec us) with false by lia.
  replace (length us <? length us + S (length ds))%nat with true by lia.
  rewrite skipn_past.
  rewrite (pUInt64Val_digits ds Hd). pose proof (dec_small ds Hd Hl) as Hs.
  replace (dec ds <=? MaxU64) with true by (unfold MaxU64; lia).
  replace (999 <? dec ds) with false by lia. rewrite orb_false_r.
  destruct ((1 <? dec us) || ((dec us =? 1) && (0 <? dec ds))) eqn:Eb; [reflexivity|].
  replace (length us + S (length ds) - S (length us))%nat with (length ds) by lia.
  unfold thousandths. f_equal. f_equal.
  destruct ds as [|a [|b [|c [|d r]]]]; cbn [length] in *; try lia;
    [reflexivity|reflexivity|reflexivity|change (10 ^ (3 - nnat 3)) with 1; rewrite N.mul_1_r; reflexivity].
Qed.

Theorem set_q_nodot us s : all_digits us ->
  set_q us s =
    if MaxU64 <? dec us then q_flag ENumTooBig false s
    else if 1 <? dec us then q_flag EValBad false s
    else s <| fb_q := dec us * 1000 |>.
Proof.
  intros Hu. unfold set_q. rewrite (span_nodot us Hu). cbv zeta.
  rewrite Nat.sub_diag. cbn [Nat.leb]. rewrite firstn_all, (pUInt64Val_digits us Hu).
  destruct (dec us <=? MaxU64) eqn:Eu.
  2:{ replace (MaxU64 <? dec us) with true by lia. reflexivity. }
  replace (MaxU64 <? dec us) with false by lia.
  rewrite Nat.ltb_irrefl. replace (999 <? 0) with false by reflexivity. replace (0 <? 0) with false by reflexivity.
  rewrite andb_false_r, !orb_false_r, N.add_0_r. destruct (1 <? dec us); reflexivity.
Qed.

Theorem set_q_too_long (us ds : list byte) s : all_digits us -> (4 <= length ds)%nat ->
  set_q (us ++ 46 :: ds) s = q_flag EValTooLong true s.
Proof.
  intros Hu Hl. unfold set_q. rewrite (span_dot us ds Hu). cbv zeta. rewrite app_length. cbn [length].
  replace (length us + S (length ds) - length us <=? 4)%nat with false by lia. reflexivity.
Qed.

(* whenever q is set by a well-formed value it is at most 1000 (= 1.000) *)
Corollary set_q_range (us ds : list byte) s : all_digits us -> all_digits ds -> (length ds <= 3)%nat ->
  fb_q (set_q (us ++ 46 :: ds) s) = fb_q s \/ fb_q (set_q (us ++ 46 :: ds) s) <= 1000.
Proof.
  intros Hu Hd Hl. rewrite (set_q_dot us ds s Hu Hd Hl).
  destruct (MaxU64 <? dec us); [left; destruct s; reflexivity|].
  destruct ((1 <? dec us) || ((dec us =? 1) && (0 <? dec ds))) eqn:E; [left; destruct s; reflexivity|].
  right. destruct s; cbn. unfold thousandths. pose proof (frac_small ds Hd Hl) as Hf.
  apply orb_false_iff in E. destruct E as [E1 E2]. apply andb_false_iff in E2.
  assert (dec us = 0 \/ (dec us = 1 /\ dec ds = 0)) as [->| [-> ->]] by lia; lia.
Qed.
